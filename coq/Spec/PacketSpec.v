(** * Declarative statement of the packet policy of C02.

    A packet is well-formed ([wf_packet]) when it has a 12-byte header followed by exactly one
    question of class IN, answer/authority records only when the response bit is set, every
    announced record lying wholly inside the packet with nothing left over, names as in
    [Spec/NameSpec.v], type-specific data that fits exactly, and at most one OPT record, root-named,
    in the additional section, whose options tile its data exactly.  Nothing here refers to how the
    parser is written. *)

From DV Require Import Model.Base Spec.NameSpec.

(** the big-endian 16-bit value at [off] (both bytes inside the packet) *)
Definition u16_at (p : bytes) (off : nat) (v : N) : Prop :=
  exists hi lo, nth_error p off = Some hi /\ nth_error p (off + 1) = Some lo /\ v = (hi * 256 + lo)%N.

(** EDNS options (code, length, data) tiling [a, b) exactly; [n] of them *)
Inductive opts_tile (p : bytes) : nat -> nat -> nat -> Prop :=
| OTnil : forall a, opts_tile p a a 0
| OTcons : forall a b len n,
    a + 4 <= b -> u16_at p (a + 2) len -> a + 4 + N.to_nat len <= b ->
    opts_tile p (a + 4 + N.to_nat len) b n ->
    opts_tile p a b (S n).

Definition is_name_type (t : N) : bool := (t =? TYPE_NS)%N || (t =? TYPE_CNAME)%N || (t =? TYPE_PTR)%N.

(** Type-specific rule for the data [ [rd, rd + rdlen) ] of a non-OPT record *)
Definition rdata_wf (p : bytes) (t : N) (rd rdlen : nat) : Prop :=
  if is_name_type t then 1 <= rdlen /\ cname p rd (rd + rdlen)
  else if (t =? TYPE_MX)%N then 2 < rdlen /\ cname p (rd + 2) (rd + rdlen)
  else if (t =? TYPE_SOA)%N then 21 < rdlen /\ exists m, cname p rd m /\ cname p m (rd + rdlen - 20)
  else if (t =? TYPE_DNAME)%N then 1 <= rdlen /\ plain_name p rd (rd + rdlen)
  else if (t =? TYPE_A)%N then rdlen = 4
  else if (t =? TYPE_AAAA)%N then rdlen = 16
  else True.

(** One record at [off] in section [sec]; [seen]/[seen'] : an OPT record has been seen before/after. *)
Definition rr_wf (p : bytes) (sec : section) (seen : bool) (off off' : nat) (seen' : bool) : Prop :=
  exists ne t rdlen,
    cname p off ne /\ ne + 10 <= length p /\ u16_at p ne t /\ u16_at p (ne + 8) rdlen /\
    off' = ne + 10 + N.to_nat rdlen /\ off' <= length p /\
    if (t =? TYPE_OPT)%N then
      sec = SAdditional /\ ne = off + 1 /\ seen = false /\ seen' = true /\
      exists n, opts_tile p (ne + 10) off' n
    else seen' = seen /\ rdata_wf p t (ne + 10) (N.to_nat rdlen).

Inductive rrs_wf (p : bytes) (sec : section) : bool -> nat -> nat -> nat -> bool -> Prop :=
| RRnil : forall seen off, rrs_wf p sec seen off 0 off seen
| RRcons : forall seen off off1 seen1 n off' seen',
    rr_wf p sec seen off off1 seen1 -> rrs_wf p sec seen1 off1 n off' seen' ->
    rrs_wf p sec seen off (S n) off' seen'.

Definition wf_packet (p : bytes) : Prop :=
  exists w an ns ar qe qclass e1 s1 e2 s2 s3,
    u16_at p 2 w /\ u16_at p 4 1%N /\ u16_at p 6 an /\ u16_at p 8 ns /\ u16_at p 10 ar /\
    cname p 12 qe /\ qe + 4 <= length p /\ u16_at p (qe + 2) qclass /\ qclass = CLASS_IN /\
    (N.land w 32768 <> 32768%N -> an = 0%N /\ ns = 0%N) /\
    rrs_wf p SAnswer false (qe + 4) (N.to_nat an) e1 s1 /\
    rrs_wf p SNameServers s1 e1 (N.to_nat ns) e2 s2 /\
    rrs_wf p SAdditional s2 e2 (N.to_nat ar) (length p) s3.
