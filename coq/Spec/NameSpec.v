(** * Declarative statement of the name policy of C02, independent of how the code walks names.

    [name_at p off bar low hops budget e] : a name can be read at offset [off] of [p] with
    - every label starting strictly below [bar] (the segment it may use),
    - every compression pointer targeting an offset strictly below [low], the start of the segment
      that contains the pointer ("strictly backward"), never a root label, at most [hops] pointers,
    - labels of 1..63 bytes that fit in the packet, made of bytes that are not control characters,
      dots or backslashes,
    - at most [budget] wire bytes in total (labels with their length bytes and the final root byte);
    [e] is where the name ends in the record that contains it: right after the root byte, or right
    after the first pointer; the list index is the sequence of labels read.

    [cname p off e] is the policy for a name starting at [off]: 16 pointers, 255 bytes. *)

From DV Require Import Model.Base.

Definition label_char_ok (c : N) : bool :=
  negb (c <? 32)%N && negb (c =? 127)%N && negb (c =? 46)%N && negb (c =? 92)%N.

Definition ptr_target (hi lo : N) : nat := N.to_nat (N.land hi 63 * 256 + lo).

Inductive name_at (p : bytes) : nat -> nat -> nat -> nat -> nat -> list bytes -> nat -> Prop :=
| NRoot : forall off bar low hops budget,
    off < bar -> nth_error p off = Some 0%N -> 1 <= budget ->
    name_at p off bar low hops budget [] (off + 1)
| NLabel : forall off bar low hops budget len ls e,
    off < bar -> nth_error p off = Some len ->
    (1 <= len)%N -> (len <= 63)%N ->
    off + N.to_nat len + 1 <= length p ->
    forallb label_char_ok (firstn (N.to_nat len) (skipn (off + 1) p)) = true ->
    N.to_nat len + 1 <= budget ->
    name_at p (off + N.to_nat len + 1) bar low hops (budget - (N.to_nat len + 1)) ls e ->
    name_at p off bar low hops budget (firstn (N.to_nat len) (skipn (off + 1) p) :: ls) e
| NPtr : forall off bar low hops budget hi lo tb ls e',
    off < bar -> nth_error p off = Some hi -> (N.land hi 192 = 192)%N ->
    nth_error p (off + 1) = Some lo ->
    ptr_target hi lo < low ->
    nth_error p (ptr_target hi lo) = Some tb -> tb <> 0%N ->
    name_at p (ptr_target hi lo) low (ptr_target hi lo) hops budget ls e' ->
    name_at p off bar low (S hops) budget ls (off + 2).

(** [cname_l p off ls e]: the policy name at [off] has the labels [ls] and ends at [e]. *)
Definition cname_l (p : bytes) (off : nat) (ls : list bytes) (e : nat) : Prop :=
  off < length p /\ name_at p off (length p) off 16 255 ls e.

Definition cname (p : bytes) (off e : nat) : Prop := exists ls, cname_l p off ls e.

(** wire form of a label list: each label prefixed by its length, then the root byte *)
Definition labels_flat (ls : list bytes) : bytes := flat_map (fun l => N.of_nat (length l) :: l) ls.
Definition wire_of_labels (ls : list bytes) : bytes := labels_flat ls ++ [0%N].

(** Pointer-free name with arbitrary label bytes (DNAME targets). *)
Inductive plain_name_at (p : bytes) : nat -> nat -> nat -> Prop :=
| PRoot : forall off budget, nth_error p off = Some 0%N -> 1 <= budget -> plain_name_at p off budget (off + 1)
| PLabel : forall off budget len e,
    nth_error p off = Some len -> (1 <= len)%N -> (len <= 63)%N ->
    off + N.to_nat len + 1 <= length p -> N.to_nat len + 1 <= budget ->
    plain_name_at p (off + N.to_nat len + 1) (budget - (N.to_nat len + 1)) e ->
    plain_name_at p off budget e.

Definition plain_name (p : bytes) (off e : nat) : Prop := off < length p /\ plain_name_at p off 255 e.
