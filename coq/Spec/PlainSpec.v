(** * The canonical pointer-free encoding of a declaratively read packet (C05).

    [rdata_at p r x]: how the data of record [r] reads - a name (NS, CNAME, PTR), a preference and a
    name (MX), two names and 20 fixed bytes (SOA), or opaque bytes (everything else, DNAME and OPT
    included). [plain_record r x] is the record written without compression pointers: owner name
    label by label, the fixed fields, the length of the pointer-free data, the pointer-free data.
    Nothing here mentions how decompression is coded. *)

From DV Require Import Model.Base Model.Readers Spec.NameSpec Spec.PacketSpec Spec.RecordSpec.

Inductive rd_view : Type :=
| RdName (ls : list bytes)
| RdMx (pref : bytes) (ls : list bytes)
| RdSoa (ls1 ls2 : list bytes) (tail : bytes)
| RdRaw (b : bytes).

Definition rdata_at (p : bytes) (r : rec_view) (x : rd_view) : Prop :=
  let rd := rv_name_end r + 10 in
  let l := rv_rdlen r in
  match x with
  | RdName ls => is_name_type (rv_type r) = true /\ cname_l p rd ls (rd + l)
  | RdMx pref ls => is_name_type (rv_type r) = false /\ rv_type r = TYPE_MX /\ 2 < l /\
                    pref = firstn 2 (skipn rd p) /\ cname_l p (rd + 2) ls (rd + l)
  | RdSoa ls1 ls2 tail => is_name_type (rv_type r) = false /\ rv_type r = TYPE_SOA /\ 21 < l /\
                          exists m, cname_l p rd ls1 m /\ cname_l p m ls2 (rd + l - 20) /\
                                    tail = firstn 20 (skipn (rd + l - 20) p)
  | RdRaw b => is_name_type (rv_type r) = false /\ rv_type r <> TYPE_MX /\ rv_type r <> TYPE_SOA /\
               b = rdata_of p r
  end.

Definition plain_rdata (x : rd_view) : bytes :=
  match x with
  | RdName ls => wire_of_labels ls
  | RdMx pref ls => pref ++ wire_of_labels ls
  | RdSoa ls1 ls2 tail => wire_of_labels ls1 ++ wire_of_labels ls2 ++ tail
  | RdRaw b => b
  end.

Definition plain_record (rx : rec_view * rd_view) : bytes :=
  let (r, x) := rx in
  wire_of_labels (rv_labels r) ++ be16_bytes (rv_type r) ++ be16_bytes (rv_class r) ++ be32_bytes (rv_ttl r) ++
  be16_bytes (N.of_nat (length (plain_rdata x))) ++ plain_rdata x.

Definition plain_question (ls : list bytes) (t c : N) : bytes :=
  wire_of_labels ls ++ be16_bytes t ++ be16_bytes c.
