(** * Declarative reading of the records of a packet (C03).

    [record_at p r off'] : the bytes of [p] at [rv_off r] are a record whose owner name has the
    labels [rv_labels r] (Spec/NameSpec.v), followed by the big-endian type, class, TTL and data
    length [rv_*], with the data ending at [off'] inside the packet; address records carry 4 / 16
    bytes. [records_at p off l e]: the records [l] lie back to back from [off] to [e].
    [view_of p r] is what a faithful reader reports for [r]. Nothing here mentions a cursor. *)

From DV Require Import Model.Base Model.Readers Spec.NameSpec Spec.PacketSpec.

Definition u32_at (p : bytes) (off : nat) (v : N) : Prop :=
  exists a b c d, nth_error p off = Some a /\ nth_error p (off + 1) = Some b /\
                  nth_error p (off + 2) = Some c /\ nth_error p (off + 3) = Some d /\
                  v = (((a * 256 + b) * 256 + c) * 256 + d)%N.

Record rec_view : Type := mk_rv {
  rv_off : nat; rv_labels : list bytes; rv_name_end : nat;
  rv_type : N; rv_class : N; rv_ttl : N; rv_rdlen : nat }.

Definition record_at (p : bytes) (r : rec_view) (off' : nat) : Prop :=
  cname_l p (rv_off r) (rv_labels r) (rv_name_end r) /\
  u16_at p (rv_name_end r) (rv_type r) /\ u16_at p (rv_name_end r + 2) (rv_class r) /\
  u32_at p (rv_name_end r + 4) (rv_ttl r) /\ u16_at p (rv_name_end r + 8) (N.of_nat (rv_rdlen r)) /\
  off' = rv_name_end r + 10 + rv_rdlen r /\ off' <= length p /\
  (rv_type r = TYPE_A -> rv_rdlen r = 4) /\ (rv_type r = TYPE_AAAA -> rv_rdlen r = 16).

Inductive records_at (p : bytes) : nat -> list rec_view -> nat -> Prop :=
| RAnil : forall off, records_at p off [] off
| RAcons : forall r off' l e, record_at p r off' -> records_at p off' l e ->
    records_at p (rv_off r) (r :: l) e.

Definition dotted (ls : list bytes) : bytes :=
  match ls with [] => [] | l :: r => l ++ flat_map (fun x => 46%N :: x) r end.

Definition rdata_of (p : bytes) (r : rec_view) : bytes :=
  firstn (rv_rdlen r) (skipn (rv_name_end r + 10) p).

(** offset, raw owner name with its length, lower-cased dotted owner name, type, class, TTL, data
    length, data (addresses as [inl], anything else as [inr]) *)
Definition view : Type := (nat * (bytes * nat) * bytes * N * N * N * nat * (bytes + bytes))%type.

Definition view_of (p : bytes) (r : rec_view) : view :=
  (rv_off r, (wire_of_labels (rv_labels r), length (wire_of_labels (rv_labels r))),
   ascii_lowercase (dotted (rv_labels r)), rv_type r, rv_class r, rv_ttl r, rv_rdlen r,
   if (rv_type r =? TYPE_A)%N || (rv_type r =? TYPE_AAAA)%N then inl (rdata_of p r) else inr (rdata_of p r)).
