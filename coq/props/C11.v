(** C11 - Deleting records while iterating is safe, exact and terminates.

    Proved for the abstract machine (any record type, any section contents, any choice [D] of records
    to delete, no bound on the section size): the walk with restart-after-delete terminates within
    (|D|+1)(n+1) yields, leaves exactly the survivors in their original order, yields every survivor at
    least once, and only ever yields records of its current section (so a deleted record, once removed,
    is not yielded again).  PARTIAL: that the concrete cursor code refines this machine is decided each
    run by the correspondence over all deletion subsets of small sections (gen/hist.py computes its
    expectations with exactly this machine).
    One step of the concrete cursor code on a decompressed object is proved (Proofs/DeleteInv.v): from any state satisfying
    the C08 invariant [dinv], a successful delete through a cursor on a non-OPT record removes exactly that record (the reading
    afterwards is the old one without it), leaves the cursor without an offset, keeps [dinv] - so the section's offset is where
    its first remaining record starts and an emptied section is absent (C11_section_offsets) - and a second delete through that
    cursor reports a void record and changes nothing (C11_second_delete_void).  The other two transitions of the machine are
    proved for the concrete cursor code too (Proofs/WalkInv.v): a cursor without an offset - fresh, or after a deletion - restarts
    at the first record of its section with the section's current count, or ends when the section is empty
    (C11_cursor_restarts_from_section_start); a cursor on a record moves to the record that follows with one record less to go,
    or ends after the last one (C11_cursor_advances).  Composed (C11_concrete_walk_refines_machine): on any state satisfying [dinv],
    the loop "next; if the hook's decision says so, delete" of the concrete cursor code over a record section, from any position
    the machine can be in, returns what the abstract machine returns on the records of that section (compared without their
    positions), leaves the other sections as they were and keeps [dinv]; hence (C11_concrete_walk_exact) from a fresh cursor it
    terminates within (|D|+1)(n+1) calls of next with exactly the survivors in their order, every survivor yielded, nothing yielded
    that was not in the section - for every decision that depends only on the record under the cursor and never chooses the OPT
    record; such decisions exist (C11_delete_everything_but_opt).  The same from the object as the parser returned it, compressed
    or not ([objst]: C11_walk_on_any_object, C11_delete_on_any_object): the first deletion runs the decompress-and-translate
    prologue, which lands on the same record of the pointer-free packet (Proofs/DecompressFirst.v).  The ordinary next(), which
    steps over the OPT record, is covered too (Proofs/WalkSkipInv.v): it yields the next record that is not the OPT record
    (C11_next_skips_opt), and the loop with it returns what the machine returns on the section's records other than OPT
    (C11_walk_with_next_refines_machine, C11_walk_with_next_exact).  What is still decided by the correspondence only: the
    question section. *)
From Coq Require Import List Arith Bool.
From DV Require Import Model.Base Model.Parser Model.Header Model.Readers Model.Mutate Spec.NameSpec Spec.PacketSpec Spec.RecordSpec Spec.PlainSpec
  Proofs.Hoare Proofs.WalkSkip Proofs.PlainWf Proofs.InsertSpec Proofs.DeleteInv Proofs.Totality Proofs.WalkInv Proofs.DecompressFirst Proofs.WalkFresh Proofs.WalkSkipInv Proofs.DeleteWalk.
Import ListNotations.

Theorem C11_walk_terminates : forall (A : Type) (D : A -> bool) (l : list A),
  exists r, awalk D ((ndel D l + 1) * (length l + 1)) l 0 [] = Some r.
Proof. intros. apply awalk_terminates. Qed.
Print Assumptions C11_walk_terminates.

Theorem C11_walk_exact : forall (A : Type) (D : A -> bool) fuel (l l' ys : list A),
  awalk D fuel l 0 [] = Some (l', ys) ->
  l' = filter (keep D) l /\ (forall x, In x l' -> In x ys).
Proof. intros. eapply awalk_exact; eauto. Qed.
Print Assumptions C11_walk_exact.

Theorem C11_yields_from_current_section : forall (A : Type) (D : A -> bool) fuel (l : list A) i ys l' ys',
  awalk D fuel l i ys = Some (l', ys') ->
  exists zs, ys' = ys ++ zs /\ forall z, In z zs -> In z l.
Proof. intros. eapply awalk_yields_from_section; eauto. Qed.
Print Assumptions C11_yields_from_current_section.

Example C11_sample : awalk (fun x => Nat.eqb x 2 || Nat.eqb x 4) 100 [1;2;3;4] 0 [] = Some ([1;3], [1;2;1;3;4;1;3]).
Proof. vm_compute. reflexivity. Qed.

Theorem C11_delete_removes_the_record_under_the_cursor : forall v it s' qls qt lA lN lR r x,
  dinv v -> reading (pp_packet v) qls qt lA lN lR -> In (r, x) (lA ++ lN ++ lR) -> is_opt r = false ->
  it_offset it = Some (rv_off r) -> it_name_end it = rv_name_end r -> it_offset_next it = rv_name_end r + 10 + rv_rdlen r ->
  m_delete (v, it) = (s', Ok tt) ->
  dinv (fst s') /\ it_offset (snd s') = None /\
  exists A Nn R A' Nn' R' X1 r0 X2,
    let o1 := 12 + length (wire_of_labels qls) + 4 in
    lA = place o1 A /\ lN = place (o1 + length (cat A)) Nn /\ lR = place (o1 + length (cat A) + length (cat Nn)) R /\
    reading (pp_packet (fst s')) qls qt (place o1 A') (place (o1 + length (cat A')) Nn') (place (o1 + length (cat A') + length (cat Nn')) R') /\
    A ++ Nn ++ R = X1 ++ (r0, x) :: X2 /\ A' ++ Nn' ++ R' = X1 ++ X2 /\ r = rv_at r0 x (o1 + length (cat X1)) /\
    ((length A' + 1 = length A /\ Nn' = Nn /\ R' = R) \/ (A' = A /\ length Nn' + 1 = length Nn /\ R' = R) \/
     (A' = A /\ Nn' = Nn /\ length R' + 1 = length R)) /\
    (forall w0, u16_at (pp_packet v) 2 w0 -> u16_at (pp_packet (fst s')) 2 w0).
Proof. exact delete_keeps_dinv. Qed.
Print Assumptions C11_delete_removes_the_record_under_the_cursor.

Theorem C11_second_delete_void : forall v it, it_offset it = None -> m_delete (v, it) = ((v, it), Err VoidRecord).
Proof. exact delete_void. Qed.
Print Assumptions C11_second_delete_void.

Theorem C11_section_offsets : forall v qls qt lA lN lR, dinv v -> reading (pp_packet v) qls qt lA lN lR ->
  pp_offset_question v = Some 12 /\ pp_offset_answers v = first_off lA /\ pp_offset_nameservers v = first_off lN /\
  pp_offset_additional v = first_off lR.
Proof. exact dinv_reading_offsets. Qed.
Print Assumptions C11_section_offsets.

Example C11_first_off_means : forall l, first_off l = match l with [] => None | rx :: _ => Some (rv_off (fst rx)) end.
Proof. reflexivity. Qed.

(** and that delete does succeed (no error, no Panic outcome) *)
Theorem C11_delete_succeeds : forall v it qls qt lA lN lR r x,
  dinv v -> reading (pp_packet v) qls qt lA lN lR -> In (r, x) (lA ++ lN ++ lR) -> is_opt r = false ->
  it_offset it = Some (rv_off r) -> it_name_end it = rv_name_end r -> it_offset_next it = rv_name_end r + 10 + rv_rdlen r ->
  exists s', m_delete (v, it) = (s', Ok tt).
Proof. exact delete_total. Qed.
Print Assumptions C11_delete_succeeds.

Theorem C11_cursor_restarts_from_section_start : forall v it qls qt lA lN lR sec, dinv v -> reading (pp_packet v) qls qt lA lN lR ->
  it_offset it = None -> it_section it = sec -> sec = SAnswer \/ sec = SNameServers \/ sec = SAdditional ->
  r_next_including_opt v it = Ok (match sec_list sec lA lN lR with [] => None | rx :: l' => Some (cur_on sec (fst rx) (length l')) end).
Proof. exact next_restart. Qed.
Print Assumptions C11_cursor_restarts_from_section_start.

Theorem C11_cursor_advances : forall v qls qt lA lN lR sec l1 rx l2, dinv v -> reading (pp_packet v) qls qt lA lN lR ->
  sec = SAnswer \/ sec = SNameServers \/ sec = SAdditional -> sec_list sec lA lN lR = l1 ++ rx :: l2 ->
  r_next_including_opt v (cur_on sec (fst rx) (length l2)) =
  Ok (match l2 with [] => None | rx2 :: l3 => Some (cur_on sec (fst rx2) (length l3)) end).
Proof. exact next_advance. Qed.
Print Assumptions C11_cursor_advances.

Example C11_cursor_vocabulary :
  (forall sec lA lN lR, sec_list sec lA lN lR = match sec with SAnswer => lA | SNameServers => lN | _ => lR end) /\
  (forall sec r left, cur_on sec r left =
     {| it_section := sec; it_offset := Some (rv_off r); it_offset_next := rv_name_end r + 10 + rv_rdlen r; it_name_end := rv_name_end r;
        it_rrs_left := BinNat.N.of_nat left |}).
Proof. split; reflexivity. Qed.

(** the concrete loop: [dec] is what the hook decides from the object and the cursor, [D] the same decision on the record under the
    cursor without its position ([unpl]); [cs] the cursors yielded, [ys] the records the machine yields *)
Theorem C11_concrete_walk_refines_machine : forall sec, sec = SAnswer \/ sec = SNameServers \/ sec = SAdditional ->
  forall (D : rec_view * rd_view -> bool) (dec : ppacket -> rrit -> bool),
  (forall y, D y = true -> is_opt (fst y) = false) ->
  (forall v qls qt lA lN lR rxp n, reading (pp_packet v) qls qt lA lN lR -> In rxp (sec_list sec lA lN lR) ->
     dec v (cur_on sec (fst rxp) n) = D (unpl rxp)) ->
  forall fuel v it qls qt lA lN lR i cs ys,
    dinv v -> reading (pp_packet v) qls qt lA lN lR -> Cur sec it (sec_list sec lA lN lR) i -> Forall2 (yielded sec) cs ys ->
    match awalk D fuel (map unpl (sec_list sec lA lN lR)) i ys with
    | None => cwalk dec fuel v it cs = None
    | Some (l', ys') =>
      exists v' cs' lA' lN' lR', cwalk dec fuel v it cs = Some (v', cs') /\ dinv v' /\ reading (pp_packet v') qls qt lA' lN' lR' /\
        map unpl (sec_list sec lA' lN' lR') = l' /\ other_sections_kept sec lA lN lR lA' lN' lR' /\ Forall2 (yielded sec) cs' ys'
    end.
Proof. exact walk_refines. Qed.
Print Assumptions C11_concrete_walk_refines_machine.

Theorem C11_concrete_walk_exact : forall sec, sec = SAnswer \/ sec = SNameServers \/ sec = SAdditional ->
  forall (D : rec_view * rd_view -> bool) (dec : ppacket -> rrit -> bool),
  (forall y, D y = true -> is_opt (fst y) = false) ->
  (forall v qls qt lA lN lR rxp n, reading (pp_packet v) qls qt lA lN lR -> In rxp (sec_list sec lA lN lR) ->
     dec v (cur_on sec (fst rxp) n) = D (unpl rxp)) ->
  forall v it qls qt lA lN lR,
    dinv v -> reading (pp_packet v) qls qt lA lN lR -> it_offset it = None -> it_section it = sec ->
    let l := map unpl (sec_list sec lA lN lR) in
    exists v' cs lA' lN' lR' ys,
      cwalk dec ((ndel D l + 1) * (length l + 1)) v it [] = Some (v', cs) /\ dinv v' /\ reading (pp_packet v') qls qt lA' lN' lR' /\
      map unpl (sec_list sec lA' lN' lR') = filter (keep D) l /\ other_sections_kept sec lA lN lR lA' lN' lR' /\
      Forall2 (yielded sec) cs ys /\ (forall y, In y (filter (keep D) l) -> In y ys) /\ (forall y, In y ys -> In y l).
Proof. exact walk_deletes_exactly. Qed.
Print Assumptions C11_concrete_walk_exact.

Theorem C11_delete_everything_but_opt : forall sec v it qls qt lA lN lR,
  sec = SAnswer \/ sec = SNameServers \/ sec = SAdditional ->
  dinv v -> reading (pp_packet v) qls qt lA lN lR -> it_offset it = None -> it_section it = sec ->
  let l := map unpl (sec_list sec lA lN lR) in
  exists v' cs lA' lN' lR',
    cwalk dec_nonopt ((ndel D_nonopt_all l + 1) * (length l + 1)) v it [] = Some (v', cs) /\ dinv v' /\
    reading (pp_packet v') qls qt lA' lN' lR' /\
    map unpl (sec_list sec lA' lN' lR') = filter (fun y => is_opt (fst y)) l /\ other_sections_kept sec lA lN lR lA' lN' lR'.
Proof. exact walk_delete_all. Qed.
Print Assumptions C11_delete_everything_but_opt.

Example C11_concrete_walk_vocabulary :
  (forall dec f v it cs, cwalk dec (S f) v it cs =
     match r_next_including_opt v it with
     | Ok None => Some (v, cs)
     | Ok (Some cur) => if dec v cur
                        then match m_delete (v, cur) with ((v', cur'), Ok _) => cwalk dec f v' cur' (cs ++ [cur]) | _ => None end
                        else cwalk dec f v cur (cs ++ [cur])
     | _ => None
     end) /\
  (forall rx, unpl rx = (rv_at (fst rx) (snd rx) 0, snd rx)) /\
  (forall sec it lc i, Cur sec it lc i <->
     (i = 0 /\ it_offset it = None /\ it_section it = sec) \/
     (exists l1 rxp l2, lc = l1 ++ rxp :: l2 /\ i = S (length l1) /\ it = cur_on sec (fst rxp) (length l2))) /\
  (forall sec c y, yielded sec c y <-> exists rxp n, c = cur_on sec (fst rxp) n /\ unpl rxp = y) /\
  (forall sec lA lN lR lA' lN' lR', other_sections_kept sec lA lN lR lA' lN' lR' <->
     forall s2, s2 <> sec -> s2 = SAnswer \/ s2 = SNameServers \/ s2 = SAdditional ->
       map unpl (sec_list s2 lA' lN' lR') = map unpl (sec_list s2 lA lN lR)) /\
  (forall v cur, dec_nonopt v cur = match it_rr_type v cur with Ok t => negb (BinNat.N.eqb t TYPE_OPT) | _ => false end) /\
  (forall y, D_nonopt_all y = negb (is_opt (fst y))).
Proof.
  split; [reflexivity|]. split; [reflexivity|]. split; [intros; unfold Cur; tauto|]. split; [intros; unfold yielded; tauto|].
  split; [intros; unfold other_sections_kept; tauto|]. split; reflexivity.
Qed.

(** [objst v]: [v] satisfies [dinv] or is a packet as the parser returned it *)
Theorem C11_delete_on_any_object : forall sec v qls qt lA lN lR l1 r x l2 n,
  objst v -> reading (pp_packet v) qls qt lA lN lR -> sec = SAnswer \/ sec = SNameServers \/ sec = SAdditional ->
  sec_list sec lA lN lR = l1 ++ (r, x) :: l2 -> is_opt r = false ->
  exists s', m_delete (v, cur_on sec r n) = (s', Ok tt) /\
  dinv (fst s') /\ it_offset (snd s') = None /\ it_section (snd s') = sec /\
  exists lA' lN' lR', reading (pp_packet (fst s')) qls qt lA' lN' lR' /\
    map unpl (sec_list sec lA' lN' lR') = map unpl l1 ++ map unpl l2 /\ other_sections_kept sec lA lN lR lA' lN' lR'.
Proof. exact delete_obj. Qed.
Print Assumptions C11_delete_on_any_object.

Theorem C11_walk_on_any_object : forall sec, sec = SAnswer \/ sec = SNameServers \/ sec = SAdditional ->
  forall (D : rec_view * rd_view -> bool) (dec : ppacket -> rrit -> bool),
  (forall y, D y = true -> is_opt (fst y) = false) ->
  (forall v qls qt lA lN lR rxp n, reading (pp_packet v) qls qt lA lN lR -> In rxp (sec_list sec lA lN lR) ->
     dec v (cur_on sec (fst rxp) n) = D (unpl rxp)) ->
  forall v it qls qt lA lN lR,
    objst v -> reading (pp_packet v) qls qt lA lN lR -> it_offset it = None -> it_section it = sec ->
    let l := map unpl (sec_list sec lA lN lR) in
    exists v' cs lA' lN' lR' ys,
      cwalk dec ((ndel D l + 1) * (length l + 1)) v it [] = Some (v', cs) /\ objst v' /\ reading (pp_packet v') qls qt lA' lN' lR' /\
      map unpl (sec_list sec lA' lN' lR') = filter (keep D) l /\ other_sections_kept sec lA lN lR lA' lN' lR' /\
      Forall2 (yielded sec) cs ys /\ (forall y, In y (filter (keep D) l) -> In y ys) /\ (forall y, In y ys -> In y l).
Proof. exact walk_deletes_exactly_obj. Qed.
Print Assumptions C11_walk_on_any_object.

Theorem C11_parsed_packets_are_such_objects : forall p v, bytes_ok p -> parse p = Ok v -> objst v.
Proof. exact parsed_is_objst. Qed.
Print Assumptions C11_parsed_packets_are_such_objects.

Example C11_objst_means : forall v, objst v <-> dinv v \/ (bytes_ok (pp_packet v) /\ parse (pp_packet v) = Ok v).
Proof. intros v. unfold objst. tauto. Qed.

(** the ordinary next(): [skip_first l] is the record it stops on when [l] is what lies ahead, and what follows that record *)
Theorem C11_next_skips_opt : forall v it qls qt lA lN lR sec l1 l, objst v -> reading (pp_packet v) qls qt lA lN lR ->
  sec = SAnswer \/ sec = SNameServers \/ sec = SAdditional -> sec_list sec lA lN lR = l1 ++ l ->
  ((l1 = [] /\ it_offset it = None /\ it_section it = sec) \/ (exists l0 rxp, l1 = l0 ++ [rxp] /\ it = cur_on sec (fst rxp) (length l))) ->
  r_next v it = Ok (match skip_first l with None => None | Some (rx, l') => Some (cur_on sec (fst rx) (length l')) end).
Proof. exact r_next_from. Qed.
Print Assumptions C11_next_skips_opt.

Theorem C11_walk_with_next_refines_machine : forall sec, sec = SAnswer \/ sec = SNameServers \/ sec = SAdditional ->
  forall (D : rec_view * rd_view -> bool) (dec : ppacket -> rrit -> bool),
  (forall v qls qt lA lN lR rxp n, reading (pp_packet v) qls qt lA lN lR -> In rxp (sec_list sec lA lN lR) ->
     dec v (cur_on sec (fst rxp) n) = D (unpl rxp)) ->
  forall fuel v it qls qt lA lN lR i cs ys,
    objst v -> reading (pp_packet v) qls qt lA lN lR -> Cur_s sec it (sec_list sec lA lN lR) i -> Forall2 (yielded sec) cs ys ->
    match awalk D fuel (filter nonoptp (map unpl (sec_list sec lA lN lR))) i ys with
    | None => cwalk_s dec fuel v it cs = None
    | Some (l', ys') =>
      exists v' cs' lA' lN' lR', cwalk_s dec fuel v it cs = Some (v', cs') /\ objst v' /\ reading (pp_packet v') qls qt lA' lN' lR' /\
        filter nonoptp (map unpl (sec_list sec lA' lN' lR')) = l' /\ other_sections_kept sec lA lN lR lA' lN' lR' /\
        Forall2 (yielded sec) cs' ys'
    end.
Proof. exact walk_refines_skip. Qed.
Print Assumptions C11_walk_with_next_refines_machine.

Theorem C11_walk_with_next_exact : forall sec, sec = SAnswer \/ sec = SNameServers \/ sec = SAdditional ->
  forall (D : rec_view * rd_view -> bool) (dec : ppacket -> rrit -> bool),
  (forall v qls qt lA lN lR rxp n, reading (pp_packet v) qls qt lA lN lR -> In rxp (sec_list sec lA lN lR) ->
     dec v (cur_on sec (fst rxp) n) = D (unpl rxp)) ->
  forall v it qls qt lA lN lR,
    objst v -> reading (pp_packet v) qls qt lA lN lR -> it_offset it = None -> it_section it = sec ->
    let l := filter nonoptp (map unpl (sec_list sec lA lN lR)) in
    exists v' cs lA' lN' lR' ys,
      cwalk_s dec ((ndel D l + 1) * (length l + 1)) v it [] = Some (v', cs) /\ objst v' /\ reading (pp_packet v') qls qt lA' lN' lR' /\
      filter nonoptp (map unpl (sec_list sec lA' lN' lR')) = filter (keep D) l /\ other_sections_kept sec lA lN lR lA' lN' lR' /\
      Forall2 (yielded sec) cs ys /\ (forall y, In y (filter (keep D) l) -> In y ys) /\ (forall y, In y ys -> In y l).
Proof. exact walk_skip_deletes_exactly. Qed.
Print Assumptions C11_walk_with_next_exact.

Example C11_next_vocabulary :
  (forall rx, nonoptp rx = negb (is_opt (fst rx))) /\
  (forall l, skip_first l = match l with
                            | [] => None
                            | rx :: l' => if is_opt (fst rx) then match l' with [] => None | rx2 :: l3 => Some (rx2, l3) end else Some (rx, l')
                            end) /\
  (forall dec f v it cs, cwalk_s dec (S f) v it cs =
     match r_next v it with
     | Ok None => Some (v, cs)
     | Ok (Some cur) => if dec v cur
                        then match m_delete (v, cur) with ((v', cur'), Ok _) => cwalk_s dec f v' cur' (cs ++ [cur]) | _ => None end
                        else cwalk_s dec f v cur (cs ++ [cur])
     | _ => None
     end) /\
  (forall sec it lc i, Cur_s sec it lc i <->
     exists l1 l, lc = l1 ++ l /\ i = length (filter nonoptp l1) /\
       ((l1 = [] /\ it_offset it = None /\ it_section it = sec) \/ (exists l0 rxp, l1 = l0 ++ [rxp] /\ it = cur_on sec (fst rxp) (length l)))).
Proof. split; [reflexivity|]. split; [reflexivity|]. split; [reflexivity|]. intros; unfold Cur_s; tauto. Qed.
