(** C11 - Deleting records while iterating is safe, exact and terminates.

    Proved for the abstract machine (any record type, any section contents, any choice [D] of records
    to delete, no bound on the section size): the walk with restart-after-delete terminates within
    (|D|+1)(n+1) yields, leaves exactly the survivors in their original order, yields every survivor at
    least once, and only ever yields records of its current section (so a deleted record, once removed,
    is not yielded again).  PARTIAL: that the concrete cursor code refines this machine is decided each
    run by the correspondence over all deletion subsets of small sections (gen/hist.py computes its
    expectations with exactly this machine). *)
From Coq Require Import List Arith Bool.
From DV Require Import Proofs.DeleteWalk.
Import ListNotations.

Theorem C11_walk_terminates : forall (A : Type) (D : A -> bool) (l : list A),
  exists r, awalk D ((ndel D l + 1) * (length l + 1)) l 0 [] = Some r.
Proof. intros. apply awalk_terminates. Qed.
Print Assumptions C11_walk_terminates.

Theorem C11_walk_exact : forall (A : Type) (D : A -> bool) fuel (l l' ys : list A),
  awalk D fuel l 0 [] = Some (l', ys) ->
  l' = filter (keep D) l /\ (forall x, In x l' -> In x ys).
Proof. intros. eapply awalk_exact; eauto. Qed.
Print Assumptions C11_walk_exact.

Theorem C11_yields_from_current_section : forall (A : Type) (D : A -> bool) fuel (l : list A) i ys l' ys',
  awalk D fuel l i ys = Some (l', ys') ->
  exists zs, ys' = ys ++ zs /\ forall z, In z zs -> In z l.
Proof. intros. eapply awalk_yields_from_section; eauto. Qed.
Print Assumptions C11_yields_from_current_section.

Example C11_sample : awalk (fun x => Nat.eqb x 2 || Nat.eqb x 4) 100 [1;2;3;4] 0 [] = Some ([1;3], [1;2;1;3;4;1;3]).
Proof. vm_compute. reflexivity. Qed.
