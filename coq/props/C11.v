(** C11 - Deleting records while iterating is safe, exact and terminates.

    Proved for the abstract machine (any record type, any section contents, any choice [D] of records
    to delete, no bound on the section size): the walk with restart-after-delete terminates within
    (|D|+1)(n+1) yields, leaves exactly the survivors in their original order, yields every survivor at
    least once, and only ever yields records of its current section (so a deleted record, once removed,
    is not yielded again).  PARTIAL: that the concrete cursor code refines this machine is decided each
    run by the correspondence over all deletion subsets of small sections (gen/hist.py computes its
    expectations with exactly this machine).
    One step of the concrete cursor code on a decompressed object is proved (Proofs/DeleteInv.v): from any state satisfying
    the C08 invariant [dinv], a successful delete through a cursor on a non-OPT record removes exactly that record (the reading
    afterwards is the old one without it), leaves the cursor without an offset, keeps [dinv] - so the section's offset is where
    its first remaining record starts and an emptied section is absent (C11_section_offsets) - and a second delete through that
    cursor reports a void record and changes nothing (C11_second_delete_void). *)
From Coq Require Import List Arith Bool.
From DV Require Import Model.Base Model.Parser Model.Header Model.Readers Model.Mutate Spec.NameSpec Spec.PacketSpec Spec.RecordSpec Spec.PlainSpec
  Proofs.Hoare Proofs.WalkSkip Proofs.PlainWf Proofs.InsertSpec Proofs.DeleteInv Proofs.Totality Proofs.DeleteWalk.
Import ListNotations.

Theorem C11_walk_terminates : forall (A : Type) (D : A -> bool) (l : list A),
  exists r, awalk D ((ndel D l + 1) * (length l + 1)) l 0 [] = Some r.
Proof. intros. apply awalk_terminates. Qed.
Print Assumptions C11_walk_terminates.

Theorem C11_walk_exact : forall (A : Type) (D : A -> bool) fuel (l l' ys : list A),
  awalk D fuel l 0 [] = Some (l', ys) ->
  l' = filter (keep D) l /\ (forall x, In x l' -> In x ys).
Proof. intros. eapply awalk_exact; eauto. Qed.
Print Assumptions C11_walk_exact.

Theorem C11_yields_from_current_section : forall (A : Type) (D : A -> bool) fuel (l : list A) i ys l' ys',
  awalk D fuel l i ys = Some (l', ys') ->
  exists zs, ys' = ys ++ zs /\ forall z, In z zs -> In z l.
Proof. intros. eapply awalk_yields_from_section; eauto. Qed.
Print Assumptions C11_yields_from_current_section.

Example C11_sample : awalk (fun x => Nat.eqb x 2 || Nat.eqb x 4) 100 [1;2;3;4] 0 [] = Some ([1;3], [1;2;1;3;4;1;3]).
Proof. vm_compute. reflexivity. Qed.

Theorem C11_delete_removes_the_record_under_the_cursor : forall v it s' qls qt lA lN lR r x,
  dinv v -> reading (pp_packet v) qls qt lA lN lR -> In (r, x) (lA ++ lN ++ lR) -> is_opt r = false ->
  it_offset it = Some (rv_off r) -> it_name_end it = rv_name_end r -> it_offset_next it = rv_name_end r + 10 + rv_rdlen r ->
  m_delete (v, it) = (s', Ok tt) ->
  dinv (fst s') /\ it_offset (snd s') = None /\
  exists A Nn R A' Nn' R' X1 r0 X2,
    let o1 := 12 + length (wire_of_labels qls) + 4 in
    lA = place o1 A /\ lN = place (o1 + length (cat A)) Nn /\ lR = place (o1 + length (cat A) + length (cat Nn)) R /\
    reading (pp_packet (fst s')) qls qt (place o1 A') (place (o1 + length (cat A')) Nn') (place (o1 + length (cat A') + length (cat Nn')) R') /\
    A ++ Nn ++ R = X1 ++ (r0, x) :: X2 /\ A' ++ Nn' ++ R' = X1 ++ X2 /\ r = rv_at r0 x (o1 + length (cat X1)) /\
    ((length A' + 1 = length A /\ Nn' = Nn /\ R' = R) \/ (A' = A /\ length Nn' + 1 = length Nn /\ R' = R) \/
     (A' = A /\ Nn' = Nn /\ length R' + 1 = length R)) /\
    (forall w0, u16_at (pp_packet v) 2 w0 -> u16_at (pp_packet (fst s')) 2 w0).
Proof. exact delete_keeps_dinv. Qed.
Print Assumptions C11_delete_removes_the_record_under_the_cursor.

Theorem C11_second_delete_void : forall v it, it_offset it = None -> m_delete (v, it) = ((v, it), Err VoidRecord).
Proof. exact delete_void. Qed.
Print Assumptions C11_second_delete_void.

Theorem C11_section_offsets : forall v qls qt lA lN lR, dinv v -> reading (pp_packet v) qls qt lA lN lR ->
  pp_offset_question v = Some 12 /\ pp_offset_answers v = first_off lA /\ pp_offset_nameservers v = first_off lN /\
  pp_offset_additional v = first_off lR.
Proof. exact dinv_reading_offsets. Qed.
Print Assumptions C11_section_offsets.

Example C11_first_off_means : forall l, first_off l = match l with [] => None | rx :: _ => Some (rv_off (fst rx)) end.
Proof. reflexivity. Qed.

(** and that delete does succeed (no error, no Panic outcome) *)
Theorem C11_delete_succeeds : forall v it qls qt lA lN lR r x,
  dinv v -> reading (pp_packet v) qls qt lA lN lR -> In (r, x) (lA ++ lN ++ lR) -> is_opt r = false ->
  it_offset it = Some (rv_off r) -> it_name_end it = rv_name_end r -> it_offset_next it = rv_name_end r + 10 + rv_rdlen r ->
  exists s', m_delete (v, it) = (s', Ok tt).
Proof. exact delete_total. Qed.
Print Assumptions C11_delete_succeeds.
