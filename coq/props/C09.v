(** C09 - Each mutation has exactly its stated effect; the rest is untouched.

    PARTIAL.  The refinement of every operation to the abstract message operations is decided each
    run by the correspondence and the abstract-effect oracle (gen/hist.py).  Proved here: the byte
    level effect of insertion (the record is spliced at the insertion offset of the packet with one
    count incremented, nothing else moves) and the frame of the TTL setter. *)
From DV Require Import Model.Base Model.NameCheck Model.Parser Model.Header Model.Readers Model.Uncompress
  Model.Mutate Proofs.Hoare Proofs.HeaderBits Proofs.InsertLemmas.

Theorem C09_insert_appends : forall sec rr v it s',
  insert_core sec rr (v, it) = (s', Ok tt) ->
  exists p1 ins,
    rrcount_inc (pp_packet v) sec = Ok p1 /\ length p1 = length (pp_packet v) /\
    insertion_offset v sec = Ok ins /\
    pp_packet (fst s') = firstn ins p1 ++ rr ++ skipn ins p1.
Proof.
  intros sec rr v it s' H. destruct (insert_core_ok _ _ _ _ _ H) as (p1 & ins & Hc & Hi & _ & Hp & _).
  exists p1, ins. repeat split; auto. eapply rrcount_inc_length; eauto.
Qed.
Print Assumptions C09_insert_appends.

Theorem C09_set_ttl_frame : forall ttl v it s',
  m_set_ttl ttl (v, it) = (s', Ok tt) ->
  snd s' = it /\
  only_bytes_changed (pp_packet v) (pp_packet (fst s')) (it_name_end it + 4) (it_name_end it + 8).
Proof. exact set_ttl_frame. Qed.
Print Assumptions C09_set_ttl_frame.
