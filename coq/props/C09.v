(** C09 - Each mutation has exactly its stated effect; the rest is untouched.

    PARTIAL.  The refinement of every operation to the abstract message operations is decided each
    run by the correspondence and the abstract-effect oracle (gen/hist.py).  Proved here: the byte
    level effect of insertion (the record is spliced at the insertion offset of the packet with one
    count incremented, nothing else moves), the frame of the TTL setter, and the effect of the TTL
    setter on what a reader sees (C09_set_ttl_effect): on a section that reads declaratively as the
    records [l] (Spec/RecordSpec.v), after set_rr_ttl t on the cursor of the k-th record the section
    walk returns the views of [l] with the k-th TTL replaced by [t] and nothing else changed - under
    the hypothesis that no owner name of the section is read through the four bytes written.  That
    hypothesis cannot be dropped: C09_set_ttl_without_it_refuted exhibits an accepted packet in which
    the second record's owner is a pointer to the first record's TTL; the same input renames the
    second record in the implementation (known finding data-pointer). *)
From DV Require Import Model.Base Model.NameCheck Model.Parser Model.Header Model.Readers Model.Uncompress
  Model.Mutate Spec.NameSpec Spec.PacketSpec Spec.RecordSpec Proofs.Hoare Proofs.HeaderBits Proofs.InsertLemmas
  Proofs.WalkValues Proofs.SetTtl.
From Coq Require Import Lia.

Theorem C09_insert_appends : forall sec rr v it s',
  insert_core sec rr (v, it) = (s', Ok tt) ->
  exists p1 ins,
    rrcount_inc (pp_packet v) sec = Ok p1 /\ length p1 = length (pp_packet v) /\
    insertion_offset v sec = Ok ins /\
    pp_packet (fst s') = firstn ins p1 ++ rr ++ skipn ins p1.
Proof.
  intros sec rr v it s' H. destruct (insert_core_ok _ _ _ _ _ H) as (p1 & ins & Hc & Hi & _ & Hp & _).
  exists p1, ins. repeat split; auto. eapply rrcount_inc_length; eauto.
Qed.
Print Assumptions C09_insert_appends.

Theorem C09_set_ttl_frame : forall ttl v it s',
  m_set_ttl ttl (v, it) = (s', Ok tt) ->
  snd s' = it /\
  only_bytes_changed (pp_packet v) (pp_packet (fst s')) (it_name_end it + 4) (it_name_end it + 8).
Proof. exact set_ttl_frame. Qed.
Print Assumptions C09_set_ttl_frame.

Theorem C09_set_ttl_effect : forall p v sec count off l e k r t it,
  bytes_ok p -> pp_packet v = p -> 12 <= off ->
  records_at p off l e -> e <= length p -> count = N.of_nat (length l) ->
  (match sec with
   | SAnswer => hdr_ancount p = Ok count /\ pp_offset_answers v = (if (0 <? count)%N then Some off else None)
   | SNameServers => hdr_nscount p = Ok count /\ pp_offset_nameservers v = (if (0 <? count)%N then Some off else None)
   | SAdditional => hdr_arcount p = Ok count /\ pp_offset_additional v = (if (0 <? count)%N then Some off else None)
   | _ => False
   end) ->
  nth_error l k = Some r -> it_offset it = Some (rv_off r) -> it_name_end it = rv_name_end r ->
  (t < 4294967296)%N ->
  (forall r', In r' l -> forall i, name_reads p (rv_off r') i -> i < rv_name_end r + 4 \/ rv_name_end r + 8 <= i) ->
  exists v', m_set_ttl t (v, it) = ((v', it), Ok tt) /\
    only_bytes_changed p (pp_packet v') (rv_name_end r + 4) (rv_name_end r + 8) /\
    walk_views v sec = Ok (map (view_of p) l) /\
    walk_views v' sec = Ok (map (view_of p) (replace_nth l k (rv_with_ttl r t))).
Proof. exact set_ttl_effect. Qed.
Print Assumptions C09_set_ttl_effect.

(** Non-vacuity: the hypotheses of C09_set_ttl_effect hold for the answer section of a plain response
    (owner name written as a pointer to the question; its footprint is bytes 29, 30 and 12..24). *)
Definition sample_response : bytes :=
  [0;7; 129;128; 0;1; 0;1; 0;0; 0;0; 7;101;120;97;109;112;108;101; 3;99;111;109; 0; 0;1; 0;1;
   192;12; 0;1; 0;1; 0;0;0;60; 0;4; 10;0;0;1]%N.
Definition sample_rec : rec_view :=
  {| rv_off := 29; rv_labels := [[101;120;97;109;112;108;101]; [99;111;109]]%N; rv_name_end := 31;
     rv_type := 1; rv_class := 1; rv_ttl := 60; rv_rdlen := 4 |}.

Example C09_sample_record_at : record_at sample_response sample_rec 45.
Proof.
  unfold record_at, sample_rec. cbn [rv_off rv_labels rv_name_end rv_type rv_class rv_ttl rv_rdlen].
  split.
  { split; [cbn; lia|]. cbn [length sample_response].
    eapply (NPtr sample_response 29 _ 29 15 255 192 12 7); try reflexivity; try lia; try (vm_compute; lia); try discriminate.
    change (ptr_target 192 12) with 12.
    eapply (NLabel sample_response 12 _ 12 15 255 7 [[99;111;109]%N]); try reflexivity; try lia; try (vm_compute; lia).
    eapply (NLabel sample_response 20 _ 12 15 247 3 []); try reflexivity; try lia; try (vm_compute; lia).
    eapply (NRoot sample_response 24); try reflexivity; vm_compute; lia. }
  repeat split; try (eexists _, _; repeat split; reflexivity); try (eexists _, _, _, _; repeat split; reflexivity); try discriminate; vm_compute; lia.
Qed.

Example C09_sample_footprint : forall i, name_reads sample_response 29 i -> i < 35 \/ 39 <= i.
Proof.
  intros i H.
  destruct (reads_ptr sample_response 29 192 12 i eq_refl eq_refl eq_refl H) as [->|[->|H1]]; [lia|lia|].
  change (ptr_target 192 12) with 12 in H1.
  destruct (reads_label sample_response 12 7 i eq_refl ltac:(lia) ltac:(lia) H1) as [->|[Hr|H2]]; [lia|cbn in Hr; lia|].
  change (12 + N.to_nat 7 + 1) with 20 in H2.
  destruct (reads_label sample_response 20 3 i eq_refl ltac:(lia) ltac:(lia) H2) as [->|[Hr|H3]]; [lia|cbn in Hr; lia|].
  change (20 + N.to_nat 3 + 1) with 24 in H3.
  rewrite (reads_root sample_response 24 i eq_refl H3). lia.
Qed.

Example C09_set_ttl_hypotheses_met :
  exists v, parse sample_response = Ok v /\ pp_offset_answers v = Some 29 /\ hdr_ancount sample_response = Ok 1%N /\
    records_at sample_response 29 [sample_rec] 45 /\
    (forall r', In r' [sample_rec] -> forall i, name_reads sample_response (rv_off r') i -> i < 35 \/ 39 <= i).
Proof.
  eexists. split; [vm_compute; reflexivity|]. split; [reflexivity|]. split; [reflexivity|].
  split; [change 29 with (rv_off sample_rec); econstructor; [exact C09_sample_record_at|constructor]|].
  intros r' [<-|[]] i H. exact (C09_sample_footprint i H).
Qed.

(** The footprint hypothesis is necessary: answer 1 has TTL 0x01620000, answer 2's owner name is a
    pointer to that TTL field and reads "b"; after set_rr_ttl 0x01630000 on answer 1 it reads "c". *)
Definition data_pointer_packet : bytes :=
  [0;1; 129;128; 0;1; 0;2; 0;0; 0;0;  1;97;0; 0;1; 0;1;
   192;12; 0;1; 0;1; 1;98;0;0; 0;4; 1;2;3;4;
   192;25; 0;1; 0;1; 0;0;0;5; 0;4; 5;6;7;8]%N.
Definition view_name (x : view) : bytes := let '(_, _, txt, _, _, _, _, _) := x in txt.

Theorem C09_set_ttl_without_it_refuted :
  exists v v' it,
    parse data_pointer_packet = Ok v /\ m_set_ttl 23265280 (v, it) = ((v', it), Ok tt) /\
    it_offset it = Some 19 /\
    (exists l, walk_views v SAnswer = Ok l /\ map view_name l = [[97]; [98]]%N) /\
    (exists l', walk_views v' SAnswer = Ok l' /\ map view_name l' = [[97]; [99]]%N).
Proof.
  eexists _, _, {| it_section := SAnswer; it_offset := Some 19; it_offset_next := 35; it_name_end := 21; it_rrs_left := 1 |}.
  split; [vm_compute; reflexivity|]. split; [vm_compute; reflexivity|]. split; [reflexivity|].
  split; eexists; (split; [vm_compute; reflexivity|reflexivity]).
Qed.
Print Assumptions C09_set_ttl_without_it_refuted.
