(** C09 - Each mutation has exactly its stated effect; the rest is untouched.

    PARTIAL.  Proved in full for one operation on a freshly parsed object (C09_insert_effect): for every
    accepted packet, every record section and every well-formed pointer-free non-OPT record
    ([plain_rr_ok]: its encoding is a well-formed record wherever it is placed; records of accepted
    packets are such records, C09_accepted_records_insertable), when [insert_rr] succeeds the object
    holds the pointer-free encoding of the same question and the same records with the new record
    appended at the end of the chosen section (and only that section's count incremented); those bytes
    are accepted; they read declaratively as exactly that; and the object's section offsets, EDNS
    offset, option count, extended rcode / version / flags, payload size, compression flag and cache
    are those of a fresh parse of them (the C08 clause for this operation).  For answer / authority
    insertion the packet must be a response (the parser's QR gating: known finding qr-gating otherwise).
    The TTL setter on a decompressed object (C09_set_ttl_on_decompressed): from any state satisfying the C08 invariant
    [dinv] (see props/C08.v), with the cursor on a non-OPT record of the reading, a successful set_rr_ttl leaves a state
    satisfying [dinv] whose reading is the old one with exactly that record's TTL replaced - no footprint hypothesis:
    a pointer-free packet has no name that could be read through the four bytes written.
    Deletion on a decompressed object (C09_delete_on_decompressed): from any state satisfying [dinv], with the cursor on a
    non-OPT record of the reading of any of the three record sections, a successful delete leaves a state satisfying [dinv]
    whose three record lists are the old ones with exactly that record removed (the others in their order, with their names,
    types, classes, TTLs and data, placed back to back), only that section's count lowered, the flag word as it was.
    The owner-name setter on a decompressed object (C09_set_name_on_decompressed): from any such state, cursor on a non-OPT
    record of a record section, any byte string given as the name: a successful set_raw_name means the string was accepted by
    the name checker up to [n] bytes, those bytes are the wire form of labels [ls], and the three record lists afterwards are
    the old ones with exactly that record's owner labels replaced by [ls] (growing, shrinking or equal length), counts and
    flag word as they were, [dinv] kept.
    Deletion through a cursor on a packet as the parser returned it, compressed or not (C09_delete_on_parsed_packet): the
    decompress-and-translate prologue lands on the same record of the pointer-free packet (C08_cursor_decompress), the deletion
    then removes exactly that record: the section afterwards is the old one without it, the other sections as they were (records
    compared without their positions, names as label lists).
    The address setter (C09_set_ip_on_decompressed): a successful set_rr_ip means the record is an A record given 4 bytes or an
    AAAA record given 16, and the reading afterwards is the old one with exactly that record's data replaced by them.
    For the other operations the refinement to the abstract message operations is decided each
    run by the correspondence and the abstract-effect oracle (gen/hist.py).  Also proved: the byte
    level effect of insertion (the record is spliced at the insertion offset of the packet with one
    count incremented, nothing else moves), the frame of the TTL setter, and the effect of the TTL
    setter on what a reader sees (C09_set_ttl_effect): on a section that reads declaratively as the
    records [l] (Spec/RecordSpec.v), after set_rr_ttl t on the cursor of the k-th record the section
    walk returns the views of [l] with the k-th TTL replaced by [t] and nothing else changed - under
    the hypothesis that no owner name of the section is read through the four bytes written.  That
    hypothesis cannot be dropped: C09_set_ttl_without_it_refuted exhibits an accepted packet in which
    the second record's owner is a pointer to the first record's TTL; the same input renames the
    second record in the implementation (known finding data-pointer). *)
From DV Require Import Model.Base Model.NameCheck Model.Parser Model.Header Model.Readers Model.Uncompress
  Model.Mutate Spec.NameSpec Spec.PacketSpec Spec.RecordSpec Proofs.Hoare Proofs.HeaderBits Proofs.InsertLemmas
  Spec.PlainSpec Proofs.WalkValues Proofs.SetTtl Proofs.WalkSkip Proofs.PlainWf Proofs.InsertSpec Proofs.SetTtlInv Proofs.DeleteInv Proofs.SetNameInv Proofs.ReplaceInv Proofs.WalkInv Proofs.DecompressFirst Proofs.NameCheckTotal
  Model.Renamer Proofs.RenameSpec Proofs.CompressContent Proofs.RenameContent Proofs.RenameAny.
From Coq Require Import Lia.

Theorem C09_insert_appends : forall sec rr v it s',
  insert_core sec rr (v, it) = (s', Ok tt) ->
  exists p1 ins,
    rrcount_inc (pp_packet v) sec = Ok p1 /\ length p1 = length (pp_packet v) /\
    insertion_offset v sec = Ok ins /\
    pp_packet (fst s') = firstn ins p1 ++ rr ++ skipn ins p1.
Proof.
  intros sec rr v it s' H. destruct (insert_core_ok _ _ _ _ _ H) as (p1 & ins & Hc & Hi & _ & Hp & _).
  exists p1, ins. repeat split; auto. eapply rrcount_inc_length; eauto.
Qed.
Print Assumptions C09_insert_appends.

Theorem C09_set_ttl_frame : forall ttl v it s',
  m_set_ttl ttl (v, it) = (s', Ok tt) ->
  snd s' = it /\
  only_bytes_changed (pp_packet v) (pp_packet (fst s')) (it_name_end it + 4) (it_name_end it + 8).
Proof. exact set_ttl_frame. Qed.
Print Assumptions C09_set_ttl_frame.

Theorem C09_set_ttl_effect : forall p v sec count off l e k r t it,
  bytes_ok p -> pp_packet v = p -> 12 <= off ->
  records_at p off l e -> e <= length p -> count = N.of_nat (length l) ->
  (match sec with
   | SAnswer => hdr_ancount p = Ok count /\ pp_offset_answers v = (if (0 <? count)%N then Some off else None)
   | SNameServers => hdr_nscount p = Ok count /\ pp_offset_nameservers v = (if (0 <? count)%N then Some off else None)
   | SAdditional => hdr_arcount p = Ok count /\ pp_offset_additional v = (if (0 <? count)%N then Some off else None)
   | _ => False
   end) ->
  nth_error l k = Some r -> it_offset it = Some (rv_off r) -> it_name_end it = rv_name_end r ->
  (t < 4294967296)%N ->
  (forall r', In r' l -> forall i, name_reads p (rv_off r') i -> i < rv_name_end r + 4 \/ rv_name_end r + 8 <= i) ->
  exists v', m_set_ttl t (v, it) = ((v', it), Ok tt) /\
    only_bytes_changed p (pp_packet v') (rv_name_end r + 4) (rv_name_end r + 8) /\
    walk_views v sec = Ok (map (view_of p) l) /\
    walk_views v' sec = Ok (map (view_of p) (replace_nth l k (rv_with_ttl r t))).
Proof. exact set_ttl_effect. Qed.
Print Assumptions C09_set_ttl_effect.

(** Non-vacuity: the hypotheses of C09_set_ttl_effect hold for the answer section of a plain response
    (owner name written as a pointer to the question; its footprint is bytes 29, 30 and 12..24). *)
Definition sample_response : bytes :=
  [0;7; 129;128; 0;1; 0;1; 0;0; 0;0; 7;101;120;97;109;112;108;101; 3;99;111;109; 0; 0;1; 0;1;
   192;12; 0;1; 0;1; 0;0;0;60; 0;4; 10;0;0;1]%N.
Definition sample_rec : rec_view :=
  {| rv_off := 29; rv_labels := [[101;120;97;109;112;108;101]; [99;111;109]]%N; rv_name_end := 31;
     rv_type := 1; rv_class := 1; rv_ttl := 60; rv_rdlen := 4 |}.

Example C09_sample_record_at : record_at sample_response sample_rec 45.
Proof.
  unfold record_at, sample_rec. cbn [rv_off rv_labels rv_name_end rv_type rv_class rv_ttl rv_rdlen].
  split.
  { split; [cbn; lia|]. cbn [length sample_response].
    eapply (NPtr sample_response 29 _ 29 15 255 192 12 7); try reflexivity; try lia; try (vm_compute; lia); try discriminate.
    change (ptr_target 192 12) with 12.
    eapply (NLabel sample_response 12 _ 12 15 255 7 [[99;111;109]%N]); try reflexivity; try lia; try (vm_compute; lia).
    eapply (NLabel sample_response 20 _ 12 15 247 3 []); try reflexivity; try lia; try (vm_compute; lia).
    eapply (NRoot sample_response 24); try reflexivity; vm_compute; lia. }
  repeat split; try (eexists _, _; repeat split; reflexivity); try (eexists _, _, _, _; repeat split; reflexivity); try discriminate; vm_compute; lia.
Qed.

Example C09_sample_footprint : forall i, name_reads sample_response 29 i -> i < 35 \/ 39 <= i.
Proof.
  intros i H.
  destruct (reads_ptr sample_response 29 192 12 i eq_refl eq_refl eq_refl H) as [->|[->|H1]]; [lia|lia|].
  change (ptr_target 192 12) with 12 in H1.
  destruct (reads_label sample_response 12 7 i eq_refl ltac:(lia) ltac:(lia) H1) as [->|[Hr|H2]]; [lia|cbn in Hr; lia|].
  change (12 + N.to_nat 7 + 1) with 20 in H2.
  destruct (reads_label sample_response 20 3 i eq_refl ltac:(lia) ltac:(lia) H2) as [->|[Hr|H3]]; [lia|cbn in Hr; lia|].
  change (20 + N.to_nat 3 + 1) with 24 in H3.
  rewrite (reads_root sample_response 24 i eq_refl H3). lia.
Qed.

Example C09_set_ttl_hypotheses_met :
  exists v, parse sample_response = Ok v /\ pp_offset_answers v = Some 29 /\ hdr_ancount sample_response = Ok 1%N /\
    records_at sample_response 29 [sample_rec] 45 /\
    (forall r', In r' [sample_rec] -> forall i, name_reads sample_response (rv_off r') i -> i < 35 \/ 39 <= i).
Proof.
  eexists. split; [vm_compute; reflexivity|]. split; [reflexivity|]. split; [reflexivity|].
  split; [change 29 with (rv_off sample_rec); econstructor; [exact C09_sample_record_at|constructor]|].
  intros r' [<-|[]] i H. exact (C09_sample_footprint i H).
Qed.

(** The footprint hypothesis is necessary: answer 1 has TTL 0x01620000, answer 2's owner name is a
    pointer to that TTL field and reads "b"; after set_rr_ttl 0x01630000 on answer 1 it reads "c". *)
Definition data_pointer_packet : bytes :=
  [0;1; 129;128; 0;1; 0;2; 0;0; 0;0;  1;97;0; 0;1; 0;1;
   192;12; 0;1; 0;1; 1;98;0;0; 0;4; 1;2;3;4;
   192;25; 0;1; 0;1; 0;0;0;5; 0;4; 5;6;7;8]%N.
Definition view_name (x : view) : bytes := let '(_, _, txt, _, _, _, _, _) := x in txt.

Theorem C09_set_ttl_without_it_refuted :
  exists v v' it,
    parse data_pointer_packet = Ok v /\ m_set_ttl 23265280 (v, it) = ((v', it), Ok tt) /\
    it_offset it = Some 19 /\
    (exists l, walk_views v SAnswer = Ok l /\ map view_name l = [[97]; [98]]%N) /\
    (exists l', walk_views v' SAnswer = Ok l' /\ map view_name l' = [[97]; [99]]%N).
Proof.
  eexists _, _, {| it_section := SAnswer; it_offset := Some 19; it_offset_next := 35; it_name_end := 21; it_rrs_left := 1 |}.
  split; [vm_compute; reflexivity|]. split; [vm_compute; reflexivity|]. split; [reflexivity|].
  split; eexists; (split; [vm_compute; reflexivity|reflexivity]).
Qed.
Print Assumptions C09_set_ttl_without_it_refuted.

Theorem C09_insert_effect : forall p v it sec rx s',
  bytes_ok p -> parse p = Ok v -> plain_rr_ok rx -> sec = SAnswer \/ sec = SNameServers \/ sec = SAdditional ->
  (sec <> SAdditional -> exists w, u16_at p 2 w /\ N.land w 32768 = 32768%N) ->
  m_insert_rr sec (plain_record rx) (v, it) = (s', Ok tt) ->
  exists q qls qt A Nn R,
    let o1 := 12 + length (wire_of_labels qls) + 4 in
    uncompress p = Ok q /\
    reading q qls qt (place o1 A) (place (o1 + length (cat A)) Nn) (place (o1 + length (cat A) + length (cat Nn)) R) /\
    let A' := ext_a sec rx A in let N' := ext_n sec rx Nn in let R' := ext_r sec rx R in
    let z := pp_packet (fst s') in
    q = build (firstn 12 q) qls qt A Nn R /\ z = build (firstn 12 z) qls qt A' N' R' /\
    bytes_ok z /\ wf_packet z /\
    reading z qls qt (place o1 A') (place (o1 + length (cat A')) N') (place (o1 + length (cat A') + length (cat N')) R') /\
    snd s' = it /\
    exists f, parse z = Ok f /\
      pp_offset_question (fst s') = pp_offset_question f /\ pp_offset_answers (fst s') = pp_offset_answers f /\
      pp_offset_nameservers (fst s') = pp_offset_nameservers f /\ pp_offset_additional (fst s') = pp_offset_additional f /\
      pp_offset_edns (fst s') = pp_offset_edns f /\ pp_edns_count (fst s') = pp_edns_count f /\
      pp_ext_rcode (fst s') = pp_ext_rcode f /\ pp_edns_version (fst s') = pp_edns_version f /\
      pp_ext_flags (fst s') = pp_ext_flags f /\ pp_max_payload (fst s') = pp_max_payload f /\
      pp_maybe_compressed (fst s') = false /\ pp_cached (fst s') = None.
Proof. exact insert_fresh. Qed.
Print Assumptions C09_insert_effect.

(** the vocabulary of the statement above, spelled out *)
Example C09_insert_vocabulary :
  (forall sec rx A, ext_a sec rx A = match sec with SAnswer => A ++ [rx] | _ => A end) /\
  (forall sec rx N_, ext_n sec rx N_ = match sec with SNameServers => N_ ++ [rx] | _ => N_ end) /\
  (forall sec rx R, ext_r sec rx R = match sec with SAdditional => R ++ [rx] | _ => R end) /\
  (forall H qls qt A N_ R, build H qls qt A N_ R = H ++ plain_question qls qt CLASS_IN ++ cat A ++ cat N_ ++ cat R) /\
  (forall l, cat l = concat (map plain_record l)) /\
  (forall o rx l, place o (rx :: l) = (rv_at (fst rx) (snd rx) o, snd rx) :: place (o + length (plain_record rx)) l) /\
  (forall rx, plain_rr_ok rx <->
     is_opt (fst rx) = false /\ bytes_ok (plain_record rx) /\
     forall sec seen pre post,
       let q := pre ++ plain_record rx ++ post in
       let e := length pre + length (plain_record rx) in
       rr_wf q sec seen (length pre) e seen /\ record_at q (rv_at (fst rx) (snd rx) (length pre)) e /\
       rdata_at q (rv_at (fst rx) (snd rx) (length pre)) (snd rx)).
Proof.
  split; [reflexivity|]. split; [reflexivity|]. split; [reflexivity|]. split; [reflexivity|]. split; [reflexivity|]. split; [reflexivity|].
  intros rx. unfold plain_rr_ok. tauto.
Qed.

Theorem C09_accepted_records_insertable : forall p0 sec seen off off1 seen1, bytes_ok p0 -> rr_wf p0 sec seen off off1 seen1 ->
  exists r x, rv_off r = off /\ record_at p0 r off1 /\ rdata_at p0 r x /\ (is_opt r = false -> plain_rr_ok (r, x)).
Proof. exact accepted_record_ok. Qed.
Print Assumptions C09_accepted_records_insertable.

(** Non-vacuity of [plain_rr_ok]: the A record of a small response is such a record. *)
Definition c09_sample : bytes := [0;7; 129;128; 0;1; 0;1; 0;0; 0;0;  1;97;0; 0;1; 0;1;  192;12; 0;1; 0;1; 0;0;0;9; 0;4; 1;2;3;4]%N.

Example C09_insertable_record_exists : exists rx, plain_rr_ok rx /\ is_opt (fst rx) = false.
Proof.
  assert (Hb : bytes_ok c09_sample) by (unfold bytes_ok, c09_sample; repeat constructor).
  assert (Hcn : cname c09_sample 19 21) by (apply NameIff.check_compressed_name_iff; vm_compute; reflexivity).
  assert (Hwf : rr_wf c09_sample SAnswer false 19 35 false).
  { exists 21, 1%N, 4%N. split; [exact Hcn|]. split; [cbn; lia|].
    split; [exists 0%N, 1%N; repeat split|]. split; [exists 0%N, 4%N; repeat split|]. split; [reflexivity|]. split; [cbn; lia|].
    cbn. split; [reflexivity|]. reflexivity. }
  destruct (accepted_record_ok c09_sample SAnswer false 19 35 false Hb Hwf) as (r & x & Hoff & Hr & Hx & Hok).
  assert (Hno : is_opt r = false).
  { destruct Hr as (Hcl & Ht & _). rewrite Hoff in Hcl. destruct Hcn as (ls & Hcn). destruct (QuestionSpec.cname_l_fun _ _ _ _ _ _ Hcl Hcn) as [_ E].
    rewrite E in Ht. destruct Ht as (a & b & Ha & Hb' & Et). vm_compute in Ha, Hb'. inversion Ha; inversion Hb'; subst. unfold is_opt. rewrite Et. reflexivity. }
  exists (r, x). split; [apply Hok; exact Hno|exact Hno].
Qed.

Theorem C09_set_ttl_on_decompressed : forall v it t s' qls qt lA lN lR r x,
  dinv v -> (t < 4294967296)%N -> reading (pp_packet v) qls qt lA lN lR -> In (r, x) (lA ++ lN ++ lR) -> is_opt r = false ->
  it_offset it <> None -> it_name_end it = rv_name_end r ->
  m_set_ttl t (v, it) = (s', Ok tt) ->
  dinv (fst s') /\ snd s' = it /\
  exists lA' lN' lR' L1 L2, reading (pp_packet (fst s')) qls qt lA' lN' lR' /\
    length lA' = length lA /\ length lN' = length lN /\ length lR' = length lR /\
    lA ++ lN ++ lR = L1 ++ (r, x) :: L2 /\ lA' ++ lN' ++ lR' = L1 ++ (rv_with_ttl r t, x) :: L2.
Proof. exact set_ttl_keeps_dinv. Qed.
Print Assumptions C09_set_ttl_on_decompressed.

(** delete: [A Nn R] are the records of the three sections without their positions ([place] puts them back to back from the
    end of the question); the record under the cursor is [r0] with data [x], between [X1] and [X2] *)
Theorem C09_delete_on_decompressed : forall v it s' qls qt lA lN lR r x,
  dinv v -> reading (pp_packet v) qls qt lA lN lR -> In (r, x) (lA ++ lN ++ lR) -> is_opt r = false ->
  it_offset it = Some (rv_off r) -> it_name_end it = rv_name_end r -> it_offset_next it = rv_name_end r + 10 + rv_rdlen r ->
  m_delete (v, it) = (s', Ok tt) ->
  dinv (fst s') /\ it_offset (snd s') = None /\
  exists A Nn R A' Nn' R' X1 r0 X2,
    let o1 := 12 + length (wire_of_labels qls) + 4 in
    lA = place o1 A /\ lN = place (o1 + length (cat A)) Nn /\ lR = place (o1 + length (cat A) + length (cat Nn)) R /\
    reading (pp_packet (fst s')) qls qt (place o1 A') (place (o1 + length (cat A')) Nn') (place (o1 + length (cat A') + length (cat Nn')) R') /\
    A ++ Nn ++ R = X1 ++ (r0, x) :: X2 /\ A' ++ Nn' ++ R' = X1 ++ X2 /\ r = rv_at r0 x (o1 + length (cat X1)) /\
    ((length A' + 1 = length A /\ Nn' = Nn /\ R' = R) \/ (A' = A /\ length Nn' + 1 = length Nn /\ R' = R) \/
     (A' = A /\ Nn' = Nn /\ length R' + 1 = length R)) /\
    (forall w0, u16_at (pp_packet v) 2 w0 -> u16_at (pp_packet (fst s')) 2 w0).
Proof. exact delete_keeps_dinv. Qed.
Print Assumptions C09_delete_on_decompressed.

Theorem C09_set_name_on_decompressed : forall nm v it s' qls qt lA lN lR r x,
  dinv v -> bytes_ok nm -> reading (pp_packet v) qls qt lA lN lR -> In (r, x) (lA ++ lN ++ lR) -> is_opt r = false ->
  it_offset it = Some (rv_off r) -> it_name_end it = rv_name_end r ->
  m_set_raw_name nm (v, it) = (s', Ok tt) ->
  dinv (fst s') /\
  exists n ls A Nn R A' Nn' R' X1 r0 X2,
    let o1 := 12 + length (wire_of_labels qls) + 4 in
    check_compressed_name nm 0 = Ok n /\ firstn n nm = wire_of_labels ls /\ name_ok ls /\
    lA = place o1 A /\ lN = place (o1 + length (cat A)) Nn /\ lR = place (o1 + length (cat A) + length (cat Nn)) R /\
    reading (pp_packet (fst s')) qls qt (place o1 A') (place (o1 + length (cat A')) Nn') (place (o1 + length (cat A') + length (cat Nn')) R') /\
    A ++ Nn ++ R = X1 ++ (r0, x) :: X2 /\ A' ++ Nn' ++ R' = X1 ++ with_labels (r0, x) ls :: X2 /\ r = rv_at r0 x (o1 + length (cat X1)) /\
    length A' = length A /\ length Nn' = length Nn /\ length R' = length R /\
    (forall w0, u16_at (pp_packet v) 2 w0 -> u16_at (pp_packet (fst s')) 2 w0).
Proof. exact set_raw_name_keeps_dinv. Qed.
Print Assumptions C09_set_name_on_decompressed.

Example C09_set_name_vocabulary :
  (forall rx ls, with_labels rx ls = (rv_with_labels (fst rx) ls, snd rx)) /\
  (forall r ls, rv_labels (rv_with_labels r ls) = ls /\ rv_type (rv_with_labels r ls) = rv_type r /\ rv_class (rv_with_labels r ls) = rv_class r /\
                rv_ttl (rv_with_labels r ls) = rv_ttl r) /\
  (forall ls, name_ok ls <-> Forall ReadersLabels.label_ok ls /\ length (wire_of_labels ls) <= 255 /\ bytes_ok (wire_of_labels ls)).
Proof. split; [reflexivity|]. split; [intros; repeat split; reflexivity|]. intros ls. unfold name_ok. tauto. Qed.

Theorem C09_set_ip_on_decompressed : forall v it ip s' qls qt lA lN lR r x,
  dinv v -> bytes_ok ip -> reading (pp_packet v) qls qt lA lN lR -> In (r, x) (lA ++ lN ++ lR) ->
  it_offset it = Some (rv_off r) -> it_name_end it = rv_name_end r ->
  m_set_ip ip (v, it) = (s', Ok tt) ->
  dinv (fst s') /\ snd s' = it /\ ip_type_len (rv_type r) (length ip) /\
  exists lA' lN' lR' L1 L2, reading (pp_packet (fst s')) qls qt lA' lN' lR' /\
    length lA' = length lA /\ length lN' = length lN /\ length lR' = length lR /\
    lA ++ lN ++ lR = L1 ++ (r, x) :: L2 /\ lA' ++ lN' ++ lR' = L1 ++ (rv_at r (RdRaw ip) (rv_off r), RdRaw ip) :: L2.
Proof. exact set_ip_keeps_dinv. Qed.
Print Assumptions C09_set_ip_on_decompressed.

Example C09_ip_type_len_means : forall t n, ip_type_len t n <-> (t = TYPE_A /\ n = 4) \/ (t = TYPE_AAAA /\ n = 16).
Proof. intros. unfold ip_type_len. tauto. Qed.

Theorem C09_delete_on_parsed_packet : forall p v qls qt lA lN lR sec l1 r x l2 n s',
  bytes_ok p -> parse p = Ok v -> reading p qls qt lA lN lR -> sec = SAnswer \/ sec = SNameServers \/ sec = SAdditional ->
  sec_list sec lA lN lR = l1 ++ (r, x) :: l2 -> is_opt r = false ->
  m_delete (v, cur_on sec r n) = (s', Ok tt) ->
  dinv (fst s') /\ it_offset (snd s') = None /\ it_section (snd s') = sec /\
  exists lA' lN' lR', reading (pp_packet (fst s')) qls qt lA' lN' lR' /\
    map unpl (sec_list sec lA' lN' lR') = map unpl l1 ++ map unpl l2 /\ other_sections_kept sec lA lN lR lA' lN' lR'.
Proof. exact delete_on_fresh_parse. Qed.
Print Assumptions C09_delete_on_parsed_packet.

(** the owner-name setter through a cursor on a packet as the parser returned it: [U1], [U2] are the records before and after it in the
    whole list of records, without positions *)
Theorem C09_set_name_on_parsed_packet : forall nm p v qls qt lA lN lR sec l1 r x l2 n s',
  bytes_ok p -> bytes_ok nm -> parse p = Ok v -> reading p qls qt lA lN lR -> sec = SAnswer \/ sec = SNameServers \/ sec = SAdditional ->
  sec_list sec lA lN lR = l1 ++ (r, x) :: l2 -> is_opt r = false ->
  m_set_raw_name nm (v, cur_on sec r n) = (s', Ok tt) ->
  dinv (fst s') /\
  exists n0 ls lA' lN' lR' U1 U2,
    check_compressed_name nm 0 = Ok n0 /\ firstn n0 nm = wire_of_labels ls /\ name_ok ls /\
    reading (pp_packet (fst s')) qls qt lA' lN' lR' /\
    length lA' = length lA /\ length lN' = length lN /\ length lR' = length lR /\
    map unpl (lA ++ lN ++ lR) = U1 ++ unpl (r, x) :: U2 /\
    map unpl (lA' ++ lN' ++ lR') = U1 ++ unpl (with_labels (r, x) ls) :: U2 /\
    length U1 = (match sec with SAnswer => 0 | SNameServers => length lA | _ => length lA + length lN end) + length l1.
Proof. exact set_name_on_fresh_parse. Qed.
Print Assumptions C09_set_name_on_parsed_packet.

(** insertion from any state satisfying the C08 invariant (not only a freshly parsed object): the new reading is the old one
    with the record appended at the end of the chosen section; invariant kept, cursor untouched, QR kept *)
Theorem C09_insert_on_decompressed : forall v it sec rx s',
  dinv v -> plain_rr_ok rx -> sec = SAnswer \/ sec = SNameServers \/ sec = SAdditional ->
  (sec <> SAdditional -> is_response (pp_packet v)) ->
  m_insert_rr sec (plain_record rx) (v, it) = (s', Ok tt) ->
  dinv (fst s') /\ snd s' = it /\ (is_response (pp_packet v) -> is_response (pp_packet (fst s'))) /\
  exists qls qt A Nn R,
    let o1 := 12 + length (wire_of_labels qls) + 4 in
    reading (pp_packet v) qls qt (place o1 A) (place (o1 + length (cat A)) Nn) (place (o1 + length (cat A) + length (cat Nn)) R) /\
    let A' := ext_a sec rx A in let N' := ext_n sec rx Nn in let R' := ext_r sec rx R in
    reading (pp_packet (fst s')) qls qt (place o1 A') (place (o1 + length (cat A')) N') (place (o1 + length (cat A') + length (cat N')) R').
Proof. exact insert_keeps_dinv. Qed.
Print Assumptions C09_insert_on_decompressed.

(** the whole-packet rename on a packet as the parser returned it: when [rename_with_raw_names] succeeds the object holds a packet
    that reads as the renamed message - question name and every owner name and name inside NS / CNAME / PTR / MX / SOA data
    replaced by the rule [renamed] of C07 (spelled out in C07_renamed_means), everything else equal, names compared up to ASCII
    case because the packet is compressed again; same counts; the cursor is untouched ([ci_rec]: C06_ci_rec_means) *)
Theorem C09_rename_effect : forall p v it sl tl sfx s', bytes_ok p -> parse p = Ok v ->
  Forall lab sl -> Forall lab tl -> sl <> [] -> tl <> [] -> bytes_ok (wire_of_labels tl) ->
  length (wire_of_labels sl) <= 255 -> length (wire_of_labels tl) <= 255 ->
  m_rename (wire_of_labels tl) (wire_of_labels sl) sfx (v, it) = (s', Ok tt) ->
  snd s' = it /\
  exists qls qt lxa lxn lxr qls' L' lxa' lxn' lxr',
    reading p qls qt lxa lxn lxr /\ renamed sl tl sfx qls qls' /\ Forall2 (ren_rec sl tl sfx) (lxa ++ lxn ++ lxr) L' /\
    reading (pp_packet (fst s')) qls' qt lxa' lxn' lxr' /\ Forall2 ci_rec L' (lxa' ++ lxn' ++ lxr') /\
    length lxa' = length lxa /\ length lxn' = length lxn /\ length lxr' = length lxr /\ firstn 12 (pp_packet (fst s')) = firstn 12 p.
Proof. exact rename_effect. Qed.
Print Assumptions C09_rename_effect.

(** the same from any object satisfying the C08 invariant (the rename reads only the bytes and the section offsets of the
    object, which are those of the parse of its bytes); the object it leaves is exactly the parse of its new bytes *)
Theorem C09_rename_on_decompressed : forall v it sl tl sfx s', dinv v ->
  Forall lab sl -> Forall lab tl -> sl <> [] -> tl <> [] -> bytes_ok (wire_of_labels tl) ->
  length (wire_of_labels sl) <= 255 -> length (wire_of_labels tl) <= 255 ->
  m_rename (wire_of_labels tl) (wire_of_labels sl) sfx (v, it) = (s', Ok tt) ->
  snd s' = it /\ bytes_ok (pp_packet (fst s')) /\ parse (pp_packet (fst s')) = Ok (fst s') /\
  exists qls qt lxa lxn lxr qls' L' lxa' lxn' lxr',
    reading (pp_packet v) qls qt lxa lxn lxr /\ renamed sl tl sfx qls qls' /\ Forall2 (ren_rec sl tl sfx) (lxa ++ lxn ++ lxr) L' /\
    reading (pp_packet (fst s')) qls' qt lxa' lxn' lxr' /\ Forall2 ci_rec L' (lxa' ++ lxn' ++ lxr') /\
    length lxa' = length lxa /\ length lxn' = length lxn /\ length lxr' = length lxr /\ firstn 12 (pp_packet (fst s')) = firstn 12 (pp_packet v).
Proof. exact rename_effect_dinv. Qed.
Print Assumptions C09_rename_on_decompressed.
