(** C14 - Host names convert between text and wire form without loss.

    Proved, for every byte string as text and every optional default zone (no bound on anything):
    - soundness (C14_from_str_sound): whatever the conversion accepts is a list of labels - non-empty,
      at most 62 bytes, without a dot, a control character, DEL, a backslash or a byte above 128 - joined by dots, optionally followed by a
      final dot (or the single text "."), and what is appended is exactly each label prefixed by its
      length, then the root byte, or the default zone when the text has no final dot; at most 253 bytes;
    - acceptance (C14_accepts_open, C14_accepts_closed): every such label list whose encoding fits
      253 bytes is accepted, with or without the final dot, and encoded as above;
    - rejections (the C14_rejects theorems): an empty interior label, a leading dot, a run of 63 bytes without a
      dot, a text of more than 253 bytes are errors;
    - round trip (C14_ldh_roundtrip): for letter-digit-hyphen-underscore labels the produced wire name
      is a name of the parser's policy with exactly those labels, and printing it gives the labels
      joined by dots; C14_from_str_total: no Panic outcome.
    Not covered by a theorem: the read-back through a record of a packet (set_raw_name then name()),
    decided each run by an exhaustive sweep of short names plus boundary lengths. *)
From DV Require Import Model.Base Model.Parser Model.Header Model.Readers Model.Uncompress Model.Mutate
  Model.Gen Model.Text Spec.NameSpec Spec.RecordSpec Proofs.Hoare Proofs.SynthTotal Proofs.NameText
  Spec.PacketSpec Spec.PlainSpec Proofs.WalkSkip Proofs.PlainWf Proofs.InsertSpec Proofs.HeaderInv Proofs.WalkInv Proofs.RenameCursor Proofs.ReadersLabels Proofs.QuestionSpec.
From Coq Require Import ZifyBool ZifyNat ZifyN.

Theorem C14_from_str_total : forall name zone, nopanic (raw_name_from_str name zone).
Proof. exact raw_name_from_str_total. Qed.
Print Assumptions C14_from_str_total.

Theorem C14_from_str_len : forall raw name zone w,
  copy_raw_name_from_str raw name zone = Ok w ->
  exists enc, w = raw ++ enc /\ 1 <= length enc <= 253 /\ length name <= 253.
Proof. exact copy_raw_name_from_str_len. Qed.
Print Assumptions C14_from_str_len.

Theorem C14_from_str_sound : forall raw name z w,
  copy_raw_name_from_str raw name z = Ok w ->
  exists ls, Forall tlabel_ok ls /\
    ((ls <> [] /\ name = dotted ls /\ w = raw ++ labels_flat ls ++ zone_or_root z /\
      length (labels_flat ls ++ zone_or_root z) <= 253)
     \/ ((name = dots ls \/ (name = [46%N] /\ ls = [])) /\ w = raw ++ wire_of_labels ls /\
         length (wire_of_labels ls) <= 253)).
Proof. exact from_str_sound. Qed.
Print Assumptions C14_from_str_sound.

Theorem C14_accepts_open : forall raw ls last z,
  Forall tlabel_ok ls -> tlabel_ok last ->
  length (labels_flat (ls ++ [last]) ++ zone_or_root z) <= 253 ->
  copy_raw_name_from_str raw (dotted (ls ++ [last])) z = Ok (raw ++ labels_flat (ls ++ [last]) ++ zone_or_root z).
Proof. exact from_str_accepts_open. Qed.
Print Assumptions C14_accepts_open.

Theorem C14_accepts_closed : forall raw ls z,
  Forall tlabel_ok ls -> length (wire_of_labels ls) <= 253 ->
  copy_raw_name_from_str raw (dots ls) z = Ok (raw ++ wire_of_labels ls).
Proof. exact from_str_accepts_closed. Qed.
Print Assumptions C14_accepts_closed.

Theorem C14_rejects_empty_label : forall raw a b z,
  copy_raw_name_from_str raw (a ++ 46%N :: 46%N :: b) z = Err InvalidName.
Proof. exact from_str_rejects_empty_label. Qed.
Print Assumptions C14_rejects_empty_label.

Theorem C14_rejects_leading_dot : forall raw b z, b <> [] ->
  copy_raw_name_from_str raw (46%N :: b) z = Err InvalidName.
Proof. exact from_str_rejects_leading_dot. Qed.
Print Assumptions C14_rejects_leading_dot.

Theorem C14_rejects_long_label : forall raw l b z,
  forallb (fun c => negb (c =? 46)%N) l = true -> 63 <= length l ->
  copy_raw_name_from_str raw (l ++ b) z = Err InvalidName.
Proof. exact from_str_rejects_long_label. Qed.
Print Assumptions C14_rejects_long_label.

Theorem C14_rejects_long_label_after_dot : forall raw a l b z, a <> [] ->
  forallb text_char_ok a = true -> length a <= 62 ->
  forallb (fun c => negb (c =? 46)%N) l = true -> 63 <= length l ->
  copy_raw_name_from_str raw (a ++ 46%N :: l ++ b) z = Err InvalidName.
Proof. exact from_str_rejects_long_label_after_dot. Qed.
Print Assumptions C14_rejects_long_label_after_dot.

Theorem C14_rejects_long_text : forall raw name z, 253 < length name ->
  copy_raw_name_from_str raw name z = Err InvalidName.
Proof. exact from_str_rejects_long_text. Qed.
Print Assumptions C14_rejects_long_text.

Theorem C14_ldh_roundtrip : forall ls, Forall ldh_label ls -> length (wire_of_labels ls) <= 253 ->
  raw_name_from_str (dots ls) None = Ok (wire_of_labels ls) /\
  (ls <> [] -> raw_name_from_str (dotted ls) None = Ok (wire_of_labels ls)) /\
  raw_name_to_str (wire_of_labels ls) 0 = Ok (dotted ls) /\
  cname_l (wire_of_labels ls) 0 ls (length (wire_of_labels ls)).
Proof. exact ldh_roundtrip. Qed.
Print Assumptions C14_ldh_roundtrip.

(** Non-vacuity of the hypotheses: "www.a" is a list of two letter-digit-hyphen labels. *)
Example C14_sample_labels : Forall ldh_label [[119;119;119]; [97]]%N /\ length (wire_of_labels [[119;119;119]; [97]]%N) <= 253.
Proof. split; [repeat constructor; try discriminate; cbn; lia|cbn; lia]. Qed.

Example C14_sample : raw_name_from_str [119;119;119;46;97]%N (Some [3;99;111;109;0]%N) = Ok [3;119;119;119;1;97;3;99;111;109;0]%N.
Proof. vm_compute. reflexivity. Qed.

(** ** Read-back through a record of a packet.

    On an object in pointer-free form (the invariant [dinv] of C08, which every operation that decompresses establishes), a
    successful [set_raw_name] with the wire name of the non-empty labels [ls], through a cursor on a non-OPT record of a
    record section, leaves that cursor on the record, whose raw name is the wire name given and whose [name()] is the labels
    joined by dots, lower-cased. *)
Theorem C14_set_name_reads_back : forall ls v sec l1 r x l2 n s' qls qt lA lN lR,
  dinv v -> Forall (fun l : bytes => l <> []) ls -> bytes_ok (wire_of_labels ls) ->
  reading (pp_packet v) qls qt lA lN lR -> sec = SAnswer \/ sec = SNameServers \/ sec = SAdditional ->
  sec_list sec lA lN lR = l1 ++ (r, x) :: l2 -> is_opt r = false ->
  m_set_raw_name (wire_of_labels ls) (v, cur_on sec r n) = (s', Ok tt) ->
  it_name (fst s') (snd s') = Ok (ascii_lowercase (dotted ls)) /\
  it_copy_raw_name (fst s') (snd s') = Ok (wire_of_labels ls, length (wire_of_labels ls)).
Proof. exact set_name_reads_back. Qed.
Print Assumptions C14_set_name_reads_back.

(** With C14_ldh_roundtrip: for letter-digit-hyphen-underscore labels the wire name is what the text conversion returns for
    the labels joined by dots, so a record given the converted name reads back as the lower-cased text. *)
Theorem C14_text_reads_back : forall ls v sec l1 r x l2 n s' qls qt lA lN lR w,
  Forall ldh_label ls -> ls <> [] -> length (wire_of_labels ls) <= 253 ->
  raw_name_from_str (dotted ls) None = Ok w ->
  dinv v -> reading (pp_packet v) qls qt lA lN lR -> sec = SAnswer \/ sec = SNameServers \/ sec = SAdditional ->
  sec_list sec lA lN lR = l1 ++ (r, x) :: l2 -> is_opt r = false ->
  m_set_raw_name w (v, cur_on sec r n) = (s', Ok tt) ->
  it_name (fst s') (snd s') = Ok (ascii_lowercase (dotted ls)).
Proof.
  intros ls v sec l1 r x l2 n s' qls qt lA lN lR w Hldh Hne Hlen Hw Hd Rd Hsec El Hno Hrun.
  destruct (ldh_roundtrip ls Hldh Hlen) as (_ & Hfs & _ & Hcn). rewrite (Hfs Hne) in Hw. injection Hw as <-.
  assert (Hnel : Forall (fun l : bytes => l <> []) ls).
  { destruct Hcn as [_ Hna]. pose proof (name_at_labels_ok _ _ _ _ _ _ _ _ Hna) as Hok. eapply Forall_impl; [|exact Hok]. intros l (Hl & _). exact Hl. }
  assert (Hbw : bytes_ok (wire_of_labels ls)).
  { apply QuestionSpec.bytes_ok_wire; [destruct Hcn as [_ Hna]; exact (name_at_labels_ok _ _ _ _ _ _ _ _ Hna)|].
    eapply Forall_impl; [|exact Hldh]. intros l (_ & _ & Hok). unfold bytes_ok.
    clear -Hok. induction l as [|c l IH]; [constructor|]. cbn [forallb] in Hok. apply andb_true_iff in Hok.
    destruct Hok as [Hc Hl]. constructor; [unfold ldh in Hc; lia|apply IH; exact Hl]. }
  exact (proj1 (set_name_reads_back ls v sec l1 r x l2 n s' qls qt lA lN lR Hd Hnel Hbw Rd Hsec El Hno Hrun)).
Qed.
Print Assumptions C14_text_reads_back.

(** the wire name written for a text (no default zone) is a name of the parser's policy - labels of at most 63 bytes without control
    characters, DEL, dots or backslashes, read at offset 0 as exactly the labels of the text - so a question or record built from it
    is not refused by the parser because of its name (before the repair a97c4c2 the conversion took control characters and backslashes) *)
Theorem C14_accepted_text_is_policy_name : forall raw name w, copy_raw_name_from_str raw name None = Ok w ->
  exists ls, Forall label_ok ls /\ w = raw ++ wire_of_labels ls /\ length (wire_of_labels ls) <= 253 /\
             cname_l (wire_of_labels ls) 0 ls (length (wire_of_labels ls)) /\
             (name = dotted ls \/ name = dots ls \/ (name = [46%N] /\ ls = [])).
Proof. exact from_str_is_policy_name. Qed.
Print Assumptions C14_accepted_text_is_policy_name.

Example C14_refused_bytes :
  raw_name_from_str [97; 92; 98]%N None = Err InvalidName /\ raw_name_from_str [97; 1; 98]%N None = Err InvalidName /\
  raw_name_from_str [97; 127]%N None = Err InvalidName /\ raw_name_from_str [97; 128; 98]%N None = Ok [3; 97; 128; 98; 0]%N.
Proof. repeat split; vm_compute; reflexivity. Qed.
