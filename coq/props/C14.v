(** C14 - Host names convert between text and wire form without loss.

    Proved so far: the conversion is total; what it appends for an accepted text is between 1 and
    253 bytes and the text itself is at most 253 bytes.  The label-by-label statement
    ([C14_full_statement], DESIGN.md) and the read-back through set_raw_name/name() are decided each run
    by an exhaustive sweep of short names plus boundary lengths against an independent splitter. *)
From DV Require Import Model.Base Model.Parser Model.Header Model.Readers Model.Uncompress Model.Mutate
  Model.Gen Model.Text Proofs.Hoare Proofs.SynthTotal.

Theorem C14_from_str_total : forall name zone, nopanic (raw_name_from_str name zone).
Proof. exact raw_name_from_str_total. Qed.
Print Assumptions C14_from_str_total.

Theorem C14_from_str_len : forall raw name zone w,
  copy_raw_name_from_str raw name zone = Ok w ->
  exists enc, w = raw ++ enc /\ 1 <= length enc <= 253 /\ length name <= 253.
Proof. exact copy_raw_name_from_str_len. Qed.
Print Assumptions C14_from_str_len.

Example C14_sample : raw_name_from_str [119;119;119;46;97]%N (Some [3;99;111;109;0]%N) = Ok [3;119;119;119;1;97;3;99;111;109;0]%N.
Proof. vm_compute. reflexivity. Qed.
