(** C17 - Results depend only on the arguments, never on earlier or concurrent calls.

    In Gallina every definition is a function of its arguments, so the purity of the model's
    [parse], [uncompress], [compress], [renamer_rename], [rr_from_string] is definitional; the content
    of this property is (a) that the model IS the code - checked by running f(x) alone, after f(y),
    in a reused context and concurrently on 8 threads and comparing byte for byte with the model - and
    (b) that the source has no state that could carry information between calls - checked on the
    regenerated inventory (Check/AmbientCheck.v: [ambient_inventory], [dict_fresh_per_call]).
    The statements below make the ambient state explicit. *)
From DV Require Import Model.Base Model.Parser Model.Header Model.Readers Model.Uncompress Model.Compress
  Model.Mutate Model.Renamer Model.Gen Model.Text Model.ErrSlot.

Theorem C17_amb_independent : forall (A B : Type) (f : A -> B) (amb1 amb2 : ambient) (x : A),
  fst (api_pure f amb1 x) = fst (api_pure f amb2 x) /\ snd (api_pure f amb1 x) = amb1.
Proof. intros. split; reflexivity. Qed.
Print Assumptions C17_amb_independent.

(** After any history of calls the last call returns what it returns on its own. *)
Fixpoint run_calls {A B} (f : A -> B) (amb : ambient) (xs : list A) : list B * ambient :=
  match xs with
  | [] => ([], amb)
  | x :: xs' => let '(r, amb') := api_pure f amb x in let '(rs, amb'') := run_calls f amb' xs' in (r :: rs, amb'')
  end.

Lemma run_calls_map {A B} (f : A -> B) : forall xs amb, fst (run_calls f amb xs) = map f xs.
Proof.
  induction xs as [|x xs IH]; intros amb; cbn [run_calls]; [reflexivity|].
  unfold api_pure. specialize (IH amb). destruct (run_calls f amb xs) as [rs a']. cbn in *. rewrite IH. reflexivity.
Qed.

Theorem C17_history_independent : forall (A B : Type) (f : A -> B) amb (hist : list A) (x : A),
  last (fst (run_calls f amb (hist ++ [x]))) (f x) = f x.
Proof.
  intros A B f amb hist x. rewrite run_calls_map, map_app. cbn [map]. apply last_last.
Qed.
Print Assumptions C17_history_independent.

(** The only permitted randomness: two empty packets differ at most in bytes 0-1. *)
Theorem C17_empty_only_tid_random : forall t1 t2 v1 v2,
  pp_empty t1 = Ok v1 -> pp_empty t2 = Ok v2 ->
  skipn 2 (pp_packet v1) = skipn 2 (pp_packet v2).
Proof.
  intros t1 t2 v1 v2. unfold pp_empty, pp_set_tid, pk_set_tid, write_at, be16_bytes. cbn.
  intros H1 H2. inversion H1; inversion H2; subst. reflexivity.
Qed.
Print Assumptions C17_empty_only_tid_random.
