(** C05 - Decompression keeps the message; output is pointer-free, valid and stable.

    Proved so far: whatever [uncompress_with_previous_offset] returns starts with the input's 12 header
    bytes (the re-emission only ever appends, and the only in-place writes are the rdlen patches beyond
    the header).  The full statement (output = canonical pointer-free encoding of the decoded message,
    record-boundary translation, stability) is decided on every run by exact comparison with an
    independent canonical encoder at every record boundary of every generated packet. *)
From DV Require Import Model.Base Model.Parser Model.Header Model.Readers Model.Uncompress
  Proofs.Hoare Proofs.UncompressFrame.

Theorem C05_header_kept : forall (p : bytes) (off : nat) (out : bytes) (o : nat),
  uncompress_with_previous_offset p off = Ok (out, o) ->
  firstn 12 out = firstn 12 p /\ 12 <= length out.
Proof. exact uncompress_keeps_header. Qed.
Print Assumptions C05_header_kept.

Theorem C05_name_copy_appends : forall name0 p off name l f,
  copy_uncompressed_name name0 p off = Ok (name, l, f) -> exists sfx, name = name0 ++ sfx.
Proof. exact copy_uncompressed_name_appends. Qed.
Print Assumptions C05_name_copy_appends.

Example C05_sample :
  uncompress [0;7; 129;128; 0;1; 0;1; 0;0; 0;0; 7;101;120;97;109;112;108;101; 3;99;111;109; 0; 0;1; 0;1;
              192;12; 0;1; 0;1; 0;0;0;60; 0;4; 10;0;0;1]%N
  = Ok [0;7; 129;128; 0;1; 0;1; 0;0; 0;0; 7;101;120;97;109;112;108;101; 3;99;111;109; 0; 0;1; 0;1;
        7;101;120;97;109;112;108;101; 3;99;111;109; 0; 0;1; 0;1; 0;0;0;60; 0;4; 10;0;0;1]%N.
Proof. vm_compute. reflexivity. Qed.
