(** C05 - Decompression keeps the message; output is pointer-free, valid and stable.

    Proved (C05_uncompress_is_plain_encoding), for every byte string the parser accepts: [uncompress]
    returns the 12 header bytes, then the question and every record of the declarative reading of the
    packet (Spec/RecordSpec.v, Spec/PlainSpec.v: owner names and the names inside NS / CNAME / PTR /
    MX / SOA data read through the name policy, everything else opaque) re-encoded without any
    compression pointer: each name label by label, type / class / TTL as read, the data length
    recomputed, opaque data byte for byte, records in order.  No Panic outcome.  Also: the header is
    kept (C05_header_kept) and name copies only append (C05_name_copy_appends).

    Proved as well (C05_roundtrip): that output [q] is accepted by the parser again, reads
    declaratively as the same question and the same records (labels, types, classes, TTLs, data
    shapes: [map plain_record] of the two readings coincide, and record by record the owner labels,
    type, class, TTL and data reading are equal - [same_rec]), and is a fixed point:
    [uncompress q = q].  The reading of a packet is unique (C05_reading_unique), so "the same
    message" is well defined.  [q] is pointer-free by construction: it is a concatenation of
    [wire_of_labels], fixed fields and opaque data.

    Record boundaries are translated (C05_boundary_translation): given the offset of the question, of
    any record, or the end of the packet, [uncompress_with_previous_offset] returns the same output
    together with the offset at which that question / record / end sits in it. *)
From DV Require Import Model.Base Model.Parser Model.Header Model.Readers Model.Uncompress
  Spec.NameSpec Spec.PacketSpec Spec.RecordSpec Spec.PlainSpec
  Proofs.Hoare Proofs.UncompressFrame Proofs.QuestionSpec Proofs.UncompressSpec Proofs.PlainWf.

Theorem C05_header_kept : forall (p : bytes) (off : nat) (out : bytes) (o : nat),
  uncompress_with_previous_offset p off = Ok (out, o) ->
  firstn 12 out = firstn 12 p /\ 12 <= length out.
Proof. exact uncompress_keeps_header. Qed.
Print Assumptions C05_header_kept.

Theorem C05_name_copy_appends : forall name0 p off name l f,
  copy_uncompressed_name name0 p off = Ok (name, l, f) -> exists sfx, name = name0 ++ sfx.
Proof. exact copy_uncompressed_name_appends. Qed.
Print Assumptions C05_name_copy_appends.

Theorem C05_uncompress_is_plain_encoding : forall p v, bytes_ok p -> parse p = Ok v ->
  exists qls qt qe e1 e2 lxa lxn lxr,
    question_of p qls qt CLASS_IN /\ cname_l p 12 qls qe /\
    records_at p (qe + 4) (map fst lxa) e1 /\ records_at p e1 (map fst lxn) e2 /\
    records_at p e2 (map fst lxr) (length p) /\
    Forall (fun rx => rdata_at p (fst rx) (snd rx)) (lxa ++ lxn ++ lxr) /\
    hdr_ancount p = Ok (N.of_nat (length lxa)) /\ hdr_nscount p = Ok (N.of_nat (length lxn)) /\
    hdr_arcount p = Ok (N.of_nat (length lxr)) /\
    uncompress p = Ok (firstn 12 p ++ plain_question qls qt CLASS_IN ++ concat (map plain_record (lxa ++ lxn ++ lxr))).
Proof. exact uncompress_spec. Qed.
Print Assumptions C05_uncompress_is_plain_encoding.

Theorem C05_roundtrip : forall p v, bytes_ok p -> parse p = Ok v ->
  exists q v' qls qt lxa lxn lxr lxa' lxn' lxr',
    uncompress p = Ok q /\ bytes_ok q /\ parse q = Ok v' /\ uncompress q = Ok q /\
    reading p qls qt lxa lxn lxr /\ reading q qls qt lxa' lxn' lxr' /\
    map plain_record lxa' = map plain_record lxa /\ map plain_record lxn' = map plain_record lxn /\
    map plain_record lxr' = map plain_record lxr /\
    Forall2 same_rec (lxa ++ lxn ++ lxr) (lxa' ++ lxn' ++ lxr').
Proof. exact uncompress_roundtrip. Qed.
Print Assumptions C05_roundtrip.

Theorem C05_reading_unique : forall p qls qt lxa lxn lxr qls' qt' lxa' lxn' lxr',
  reading p qls qt lxa lxn lxr -> reading p qls' qt' lxa' lxn' lxr' ->
  qls = qls' /\ qt = qt' /\ lxa = lxa' /\ lxn = lxn' /\ lxr = lxr'.
Proof. exact reading_fun. Qed.
Print Assumptions C05_reading_unique.

Theorem C05_boundary_translation : forall p v, bytes_ok p -> parse p = Ok v ->
  exists qls qt qe e1 e2 lxa lxn lxr,
    question_of p qls qt CLASS_IN /\ cname_l p 12 qls qe /\
    records_at p (qe + 4) (map fst lxa) e1 /\ records_at p e1 (map fst lxn) e2 /\
    records_at p e2 (map fst lxr) (length p) /\
    Forall (fun rx => rdata_at p (fst rx) (snd rx)) (lxa ++ lxn ++ lxr) /\
    hdr_ancount p = Ok (N.of_nat (length lxa)) /\ hdr_nscount p = Ok (N.of_nat (length lxn)) /\
    hdr_arcount p = Ok (N.of_nat (length lxr)) /\
    let q0 := firstn 12 p ++ plain_question qls qt CLASS_IN in
    let lx := lxa ++ lxn ++ lxr in
    let q := q0 ++ concat (map plain_record lx) in
    uncompress_with_previous_offset p 12 = Ok (q, 12) /\
    uncompress_with_previous_offset p (length p) = Ok (q, length q) /\
    forall l1 rx l2, lx = l1 ++ rx :: l2 ->
      uncompress_with_previous_offset p (rv_off (fst rx)) = Ok (q, length (q0 ++ concat (map plain_record l1))).
Proof. exact uncompress_at_spec. Qed.
Print Assumptions C05_boundary_translation.

Example C05_sample :
  uncompress [0;7; 129;128; 0;1; 0;1; 0;0; 0;0; 7;101;120;97;109;112;108;101; 3;99;111;109; 0; 0;1; 0;1;
              192;12; 0;1; 0;1; 0;0;0;60; 0;4; 10;0;0;1]%N
  = Ok [0;7; 129;128; 0;1; 0;1; 0;0; 0;0; 7;101;120;97;109;112;108;101; 3;99;111;109; 0; 0;1; 0;1;
        7;101;120;97;109;112;108;101; 3;99;111;109; 0; 0;1; 0;1; 0;0;0;60; 0;4; 10;0;0;1]%N.
Proof. vm_compute. reflexivity. Qed.
