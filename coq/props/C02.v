(** C02 - The parser accepts exactly the packets that are well-formed under its policy.

    [wf_packet] (Spec/PacketSpec.v, Spec/NameSpec.v) states the policy declaratively: 12-byte header,
    exactly one question of class IN, answer/authority records only with QR set, every announced record
    wholly inside the packet with nothing left over, names of labels <= 63 bytes totalling <= 255 with
    strictly backward pointers (<= 16 per name, never to a root label) and no control characters, dots or
    backslashes (DNAME targets pointer-free with any bytes), type-specific data fitting exactly, at most
    one root-named OPT record in the additional section whose options tile its data.

    Theorems, for every byte string (no bound on size, counts, pointer structure):
    accepted => well-formed, well-formed => accepted, hence the equivalence. *)
From DV Require Import Model.Base Model.NameCheck Model.Parser Spec.NameSpec Spec.PacketSpec
  Proofs.Hoare Proofs.NameIff Proofs.ParseSound Proofs.ParseComplete.

Theorem C02_parse_sound : forall (p : bytes) (v : ppacket), bytes_ok p -> parse p = Ok v -> wf_packet p.
Proof. exact parse_sound. Qed.
Print Assumptions C02_parse_sound.

Theorem C02_parse_complete : forall p : bytes, bytes_ok p -> wf_packet p -> exists v, parse p = Ok v.
Proof. exact parse_complete. Qed.
Print Assumptions C02_parse_complete.

Theorem C02_parse_ok_iff_wf : forall p : bytes, bytes_ok p -> ((exists v, parse p = Ok v) <-> wf_packet p).
Proof.
  intros p Hb. split.
  - intros [v Hv]. eapply parse_sound; eauto.
  - apply parse_complete. exact Hb.
Qed.
Print Assumptions C02_parse_ok_iff_wf.

Theorem C02_name_policy : forall (p : bytes) (off e : nat),
  (check_compressed_name p off = Ok e <-> cname p off e) /\
  (check_uncompressed_name p off = Ok e <-> plain_name p off e).
Proof. intros. split; [apply check_compressed_name_iff|apply check_uncompressed_name_iff]. Qed.
Print Assumptions C02_name_policy.

(** Non-vacuity: a concrete response with a compressed answer is well-formed (by the theorem, since the
    parser accepts it), and its answer's owner name is a policy name ending right after the pointer. *)
Definition sample : bytes :=
  [0;7; 129;128; 0;1; 0;1; 0;0; 0;0; 7;101;120;97;109;112;108;101; 3;99;111;109; 0; 0;1; 0;1;
   192;12; 0;1; 0;1; 0;0;0;60; 0;4; 10;0;0;1]%N.
Example C02_sample_wf : wf_packet sample.
Proof.
  assert (Hb : bytes_ok sample) by (unfold bytes_ok, sample; repeat constructor).
  assert (H : exists v, parse sample = Ok v) by (vm_compute; eexists; reflexivity).
  destruct H as [v Hv]. exact (parse_sound sample v Hb Hv).
Qed.
Example C02_sample_name : cname sample 29 31.
Proof. apply check_compressed_name_iff. vm_compute. reflexivity. Qed.
