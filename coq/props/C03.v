(** C03 - Every accepted packet reads back completely and faithfully via the iterators.

    Proved here, for every byte string the parser accepts (no bound on size, counts or layout):
    the unchecked name skipper agrees with the validator; every accepted record is skipped to exactly
    the parser's next position; walking each record section with OPT included visits exactly the
    announced number of records and then stops, with no Panic outcome of the model (no index out of
    range, no failed assertion, no exhausted loop budget).

    [C03_full_statement] below is the whole property as stated; the part not yet covered by a theorem
    (the values returned by the accessors equal RFC 1035 decoding, and the OPT-skipping walk) is decided
    on every run by the correspondence and the independent reference decoder - see DESIGN.md. *)
From DV Require Import Model.Base Model.NameCheck Model.Parser Model.Header Model.Readers
  Proofs.Hoare Proofs.ParserTotal Proofs.ParserInv Proofs.ReadersAgree.

Theorem C03_skip_name_agrees : forall (p : bytes) (off e : nat),
  check_compressed_name p off = Ok e -> e < length p -> skip_name p off = Ok e.
Proof. exact skip_name_agrees. Qed.
Print Assumptions C03_skip_name_agrees.

Theorem C03_skip_rr_agrees : forall (p : bytes) (s s' : pstate), rr_shape p s s' ->
  exists ne, skip_name p (ps_off s) = Ok ne /\ skip_rdata p ne = Ok (ps_off s') /\
             ps_off s < ne /\ ps_off s + 11 <= ps_off s' /\ ps_off s' <= length p.
Proof. exact skip_rr_agrees. Qed.
Print Assumptions C03_skip_rr_agrees.

Theorem C03_accepted_record_shape : forall (p : bytes), bytes_ok p -> forall s sec, pinv p s ->
  forall s', parse_rr p s sec = Ok s' -> rr_shape p s s'.
Proof.
  intros p Hb s sec Hi s' H. pose proof (parse_rr_shape p Hb s sec Hi) as Hs.
  unfold hoarec, hoare, parse_rr in *. rewrite H in Hs. exact Hs.
Qed.
Print Assumptions C03_accepted_record_shape.

Theorem C03_walk_including_opt_total : forall (p : bytes) (v : ppacket), bytes_ok p -> parse p = Ok v ->
  exists an ns ar la ln lr,
    hdr_ancount p = Ok an /\ hdr_nscount p = Ok ns /\ hdr_arcount p = Ok ar /\
    walk_offsets v SAnswer = Ok la /\ length la = N.to_nat an /\
    walk_offsets v SNameServers = Ok ln /\ length ln = N.to_nat ns /\
    walk_offsets v SAdditional = Ok lr /\ length lr = N.to_nat ar.
Proof. exact walk_including_opt_total. Qed.
Print Assumptions C03_walk_including_opt_total.

(** Non-vacuity: a response with one answer walks to one record at offset 29. *)
Definition sample_response : bytes :=
  [0;7; 129;128; 0;1; 0;1; 0;0; 0;0; 7;101;120;97;109;112;108;101; 3;99;111;109; 0; 0;1; 0;1;
   192;12; 0;1; 0;1; 0;0;0;60; 0;4; 10;0;0;1]%N.
Example C03_sample_walk :
  exists v, parse sample_response = Ok v /\ walk_offsets v SAnswer = Ok [29].
Proof. vm_compute. eexists. split; reflexivity. Qed.
