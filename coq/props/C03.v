(** C03 - Every accepted packet reads back completely and faithfully via the iterators.

    Proved here, for every byte string the parser accepts (no bound on size, counts or layout):
    the unchecked name skipper agrees with the validator; every accepted record is skipped to exactly
    the parser's next position; walking each record section with OPT included visits exactly the
    announced number of records and then stops, with no Panic outcome of the model (no index out of
    range, no failed assertion, no exhausted loop budget).

    Proved as well (C03_walk_values): that walk visits exactly the records that lie back to back in the
    section under the declarative reading of Spec/RecordSpec.v, in order, and on each of them the
    accessors return the offset, the owner name (raw bytes with their length, and lower-cased dotted
    text), type, class, TTL, data length and data of that reading; the reading is a function of the
    bytes (C03_reading_unique). The name readers return the labels of the policy name they are
    pointed at (C03_copy_name_labels, C03_name_text).

    The OPT-skipping walk (C03_walks) visits exactly the records of that reading whose type is not
    OPT, with the same views - in the answer and authority sections that is every record - and its two
    debug assertions cannot fire; the question cursor (C03_question_cursor) yields one item at offset
    12 whose name, type and class are the declarative decoding of the question, then stops.

    The EDNS option cursor (C03_option_cursor) yields exactly the options that tile the OPT data, code
    and payload of each, as many as the object's option count says; nothing when there is no OPT. *)
From DV Require Import Model.Base Model.NameCheck Model.Parser Model.Header Model.Readers
  Spec.NameSpec Spec.PacketSpec Spec.RecordSpec
  Proofs.Hoare Proofs.ParserTotal Proofs.ParserInv Proofs.ReadersAgree Proofs.ReadersLabels Proofs.WalkValues Proofs.WalkSkip Proofs.EdnsFacts.

Theorem C03_skip_name_agrees : forall (p : bytes) (off e : nat),
  check_compressed_name p off = Ok e -> e < length p -> skip_name p off = Ok e.
Proof. exact skip_name_agrees. Qed.
Print Assumptions C03_skip_name_agrees.

Theorem C03_skip_rr_agrees : forall (p : bytes) (s s' : pstate), rr_shape p s s' ->
  exists ne, skip_name p (ps_off s) = Ok ne /\ skip_rdata p ne = Ok (ps_off s') /\
             ps_off s < ne /\ ps_off s + 11 <= ps_off s' /\ ps_off s' <= length p.
Proof. exact skip_rr_agrees. Qed.
Print Assumptions C03_skip_rr_agrees.

Theorem C03_accepted_record_shape : forall (p : bytes), bytes_ok p -> forall s sec, pinv p s ->
  forall s', parse_rr p s sec = Ok s' -> rr_shape p s s'.
Proof.
  intros p Hb s sec Hi s' H. pose proof (parse_rr_shape p Hb s sec Hi) as Hs.
  unfold hoarec, hoare, parse_rr in *. rewrite H in Hs. exact Hs.
Qed.
Print Assumptions C03_accepted_record_shape.

Theorem C03_walk_including_opt_total : forall (p : bytes) (v : ppacket), bytes_ok p -> parse p = Ok v ->
  exists an ns ar la ln lr,
    hdr_ancount p = Ok an /\ hdr_nscount p = Ok ns /\ hdr_arcount p = Ok ar /\
    walk_offsets v SAnswer = Ok la /\ length la = N.to_nat an /\
    walk_offsets v SNameServers = Ok ln /\ length ln = N.to_nat ns /\
    walk_offsets v SAdditional = Ok lr /\ length lr = N.to_nat ar.
Proof. exact walk_including_opt_total. Qed.
Print Assumptions C03_walk_including_opt_total.

Theorem C03_copy_name_labels : forall (p : bytes), bytes_ok p -> forall off ls e nm,
  cname_l p off ls e ->
  copy_uncompressed_name nm p off = Ok (nm ++ wire_of_labels ls, length (wire_of_labels ls), e).
Proof. exact copy_uncompressed_name_labels. Qed.
Print Assumptions C03_copy_name_labels.

Theorem C03_name_text : forall (p : bytes) off ls e, bytes_ok p ->
  cname_l p off ls e -> raw_name_to_str p off = Ok (dotted ls).
Proof. exact raw_name_to_str_dotted. Qed.
Print Assumptions C03_name_text.

Theorem C03_walk_values : forall p v, bytes_ok p -> parse p = Ok v ->
  exists an ns ar qe e1 e2 la ln lr,
    hdr_ancount p = Ok an /\ hdr_nscount p = Ok ns /\ hdr_arcount p = Ok ar /\ cname p 12 qe /\
    records_at p (qe + 4) la e1 /\ length la = N.to_nat an /\ walk_views v SAnswer = Ok (map (view_of p) la) /\
    records_at p e1 ln e2 /\ length ln = N.to_nat ns /\ walk_views v SNameServers = Ok (map (view_of p) ln) /\
    records_at p e2 lr (length p) /\ length lr = N.to_nat ar /\ walk_views v SAdditional = Ok (map (view_of p) lr).
Proof. exact walk_views_spec. Qed.
Print Assumptions C03_walk_values.

Theorem C03_walks : forall p v, bytes_ok p -> parse p = Ok v ->
  exists an ns ar qe e1 e2 la ln lr,
    hdr_ancount p = Ok an /\ hdr_nscount p = Ok ns /\ hdr_arcount p = Ok ar /\ cname p 12 qe /\
    records_at p (qe + 4) la e1 /\ length la = N.to_nat an /\
    records_at p e1 ln e2 /\ length ln = N.to_nat ns /\
    records_at p e2 lr (length p) /\ length lr = N.to_nat ar /\
    forallb non_opt la = true /\ forallb non_opt ln = true /\ opt_ok false lr /\
    walk_views v SAnswer = Ok (map (view_of p) la) /\ walk_views_skip v SAnswer = Ok (map (view_of p) la) /\
    walk_views v SNameServers = Ok (map (view_of p) ln) /\ walk_views_skip v SNameServers = Ok (map (view_of p) ln) /\
    walk_views v SAdditional = Ok (map (view_of p) lr) /\
    walk_views_skip v SAdditional = Ok (map (view_of p) (filter non_opt lr)).
Proof. exact walks_spec. Qed.
Print Assumptions C03_walks.

Theorem C03_question_cursor : forall p v, bytes_ok p -> parse p = Ok v ->
  exists ls qe t c it,
    cname_l p 12 ls qe /\ u16_at p qe t /\ u16_at p (qe + 2) c /\
    q_next v (it_new SQuestion) = Ok (Some it) /\ it_offset it = Some 12 /\ it_name_end it = qe /\
    it_copy_raw_name v it = Ok (wire_of_labels ls, length (wire_of_labels ls)) /\
    it_name v it = Ok (ascii_lowercase (dotted ls)) /\
    it_rr_type v it = Ok t /\ it_rr_class v it = Ok c /\
    q_next v it = Ok None.
Proof. exact question_cursor_spec. Qed.
Print Assumptions C03_question_cursor.

Theorem C03_option_cursor : forall p v, bytes_ok p -> parse p = Ok v ->
  match pp_offset_edns v with
  | None => walk_opts v = Ok []
  | Some st => exists e l, opts_read p st e l /\ e <= length p /\ pp_edns_count v = N.of_nat (length l) /\
                           walk_opts v = Ok l
  end.
Proof. exact walk_opts_spec. Qed.
Print Assumptions C03_option_cursor.

Theorem C03_reading_unique : forall p off l e, records_at p off l e ->
  forall l' e', records_at p off l' e' -> length l = length l' -> l = l' /\ e = e'.
Proof. exact records_at_fun. Qed.
Print Assumptions C03_reading_unique.

(** Non-vacuity: a response with one answer walks to one record at offset 29. *)
Definition sample_response : bytes :=
  [0;7; 129;128; 0;1; 0;1; 0;0; 0;0; 7;101;120;97;109;112;108;101; 3;99;111;109; 0; 0;1; 0;1;
   192;12; 0;1; 0;1; 0;0;0;60; 0;4; 10;0;0;1]%N.
Example C03_sample_walk :
  exists v, parse sample_response = Ok v /\ walk_offsets v SAnswer = Ok [29].
Proof. vm_compute. eexists. split; reflexivity. Qed.

Example C03_sample_views :
  exists v, parse sample_response = Ok v /\
    walk_views v SAnswer = Ok [(29, ([7;101;120;97;109;112;108;101; 3;99;111;109; 0]%N, 13),
                                [101;120;97;109;112;108;101; 46; 99;111;109]%N, 1%N, 1%N, 60%N, 4, inl [10;0;0;1]%N)].
Proof. vm_compute. eexists. split; reflexivity. Qed.
