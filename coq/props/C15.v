(** C15 - The C function table is a faithful, memory-safe facade over the native API.

    What a Coq model can carry here is layout and bounds, not memory safety:
    - [abi_table_match] (Check/FnTableCheck.v, regenerated from src/c_abi.rs and the shipped c_hook.h on
      every run): same entries, same order, same ABI class of every parameter and result, repr(C),
      advertised capacities and ABI version;
    - the bounds below: exactly 4 or 16 address bytes, converted names within the 256-byte buffer,
      packets copied out only when they fit the stated capacity.
    In the model every table entry IS the native operation; that the real entries behave like that is
    decided each run by driving the real table from a C driver compiled against the shipped header,
    with every out-buffer flush against a guard page, and comparing with the native model.  Memory
    safety of the unsafe bodies is observed (guard pages, canaries), not proved. *)
From DV Require Import Model.Base Model.Parser Model.Header Model.Readers Model.Gen Proofs.Hoare Proofs.FacadeBounds.

Theorem C15_rr_ip_len : forall v it ip, it_rr_ip v it = Ok ip -> length ip = 4 \/ length ip = 16.
Proof. exact rr_ip_len. Qed.
Print Assumptions C15_rr_ip_len.

Theorem C15_name_from_str_fits : forall name w,
  raw_name_from_str name None = Ok w -> length w <= 253 /\ 253 < DNS_MAX_HOSTNAME_LEN + 1.
Proof. exact name_from_str_fits. Qed.
Print Assumptions C15_name_from_str_fits.

Theorem C15_raw_packet_fits : forall v max_len out,
  facade_raw_packet v max_len = Some out -> length out <= max_len /\ out = pp_packet v.
Proof. exact raw_packet_fits. Qed.
Print Assumptions C15_raw_packet_fits.
