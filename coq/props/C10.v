(** C10 - A failed operation changes nothing; the size limit cannot be bypassed.

    Proved: insertion never yields more than 8192 bytes whatever the size of the packet it started
    from (the size test is guarded against underflow), and when the insertion core reports an error
    (too large, second question, 65535 records) the object is exactly as it was - the count is checked
    before any byte moves.  For a freshly parsed packet (C10_failed_insert_keeps_message): when
    insert_rr reports any error the object holds exactly the decompressed form of the packet, which
    the parser accepts and which reads as the same question and records; the cursor is untouched.
    Stronger (C10_failed_insert_keeps_invariant): that object satisfies the C08 invariant [dinv] (accepted bytes, fixed
    point of decompression, flag cleared, view = fresh parse).  From any state that satisfies [dinv] a failing
    insert_rr changes nothing at all (C10_failed_insert_changes_nothing), none of insert_rr / recompute / the header
    setters reaches a Panic outcome, and histories in which failing steps are tolerated run to the end and keep the
    invariant (C08_histories_total in props/C08.v).
    PARTIAL: atomicity of the other failing operations (invalid names, deleted
    cursors, malformed text, rename overflow) is decided each run by the correspondence and the
    before/after oracle. *)
From DV Require Import Model.Base Model.NameCheck Model.Parser Model.Header Model.Readers Model.Uncompress
  Model.Mutate Spec.PlainSpec Proofs.Hoare Proofs.HeaderBits Proofs.InsertLemmas Proofs.PlainWf Proofs.InsertFail Proofs.InsertSpec Proofs.HeaderInv Spec.RecordSpec Proofs.WalkSkip Proofs.ReplaceInv Proofs.Totality
  Model.Renamer Proofs.FailAtomic Spec.NameSpec Proofs.RenameSpec Proofs.RenameContent Proofs.RenameAny Proofs.WalkFresh Proofs.CursorHist Proofs.RenameTotal.

Theorem C10_insert_bound : forall sec rr s s',
  m_insert_rr sec rr s = (s', Ok tt) -> (N.of_nat (length (pp_packet (fst s'))) <= 8192)%N.
Proof. exact insert_bound. Qed.
Print Assumptions C10_insert_bound.

Theorem C10_insert_core_atomic : forall sec rr s s' e,
  insert_core sec rr s = (s', Err e) -> s' = s.
Proof. exact insert_core_err. Qed.
Print Assumptions C10_insert_core_atomic.

Theorem C10_second_question_refused : forall p c,
  be16_at p 4 612 = Ok c -> (1 <= c)%N -> rrcount_inc p SQuestion = Err InvalidPacket.
Proof. exact rrcount_inc_second_question. Qed.
Print Assumptions C10_second_question_refused.

Theorem C10_failed_insert_keeps_message : forall p v sec rr it s' e, bytes_ok p -> parse p = Ok v ->
  m_insert_rr sec rr (v, it) = (s', Err e) ->
  exists q v' qls qt lxa lxn lxr lxa' lxn' lxr',
    pp_packet (fst s') = q /\ snd s' = it /\ uncompress p = Ok q /\ parse q = Ok v' /\
    reading p qls qt lxa lxn lxr /\ reading q qls qt lxa' lxn' lxr' /\
    map plain_record lxa' = map plain_record lxa /\ map plain_record lxn' = map plain_record lxn /\
    map plain_record lxr' = map plain_record lxr.
Proof. exact failed_insert_message. Qed.
Print Assumptions C10_failed_insert_keeps_message.

Theorem C10_failed_insert_keeps_invariant : forall p v it sec rr s' e, bytes_ok p -> parse p = Ok v ->
  m_insert_rr sec rr (v, it) = (s', Err e) ->
  exists dv, s' = (dv, it) /\ dinv dv /\ uncompress p = Ok (pp_packet dv).
Proof. exact failed_insert_fresh. Qed.
Print Assumptions C10_failed_insert_keeps_invariant.

Theorem C10_failed_insert_changes_nothing : forall v it sec rr s' e, dinv v -> m_insert_rr sec rr (v, it) = (s', Err e) -> s' = (v, it).
Proof. exact failed_insert_on_dinv. Qed.
Print Assumptions C10_failed_insert_changes_nothing.

(** the cursor operations on a decompressed object (any state satisfying the C08 invariant, cursor on a non-OPT record of a record
    section): the owner-name and address setters either succeed or report an error with the object and the cursor exactly as they
    were - there is no third outcome (no Panic of the model: no assertion, slice, subtraction or unwrap of the code fails); *)
Theorem C10_failed_set_name_changes_nothing : forall nm v it qls qt lA lN lR r x,
  dinv v -> bytes_ok nm -> reading (pp_packet v) qls qt lA lN lR -> In (r, x) (lA ++ lN ++ lR) -> is_opt r = false ->
  it_offset it = Some (rv_off r) -> it_name_end it = rv_name_end r -> it_offset_next it = rv_name_end r + 10 + rv_rdlen r ->
  it_section it <> SQuestion ->
  (exists s', m_set_raw_name nm (v, it) = (s', Ok tt)) \/ (exists e, m_set_raw_name nm (v, it) = ((v, it), Err e)).
Proof. exact set_raw_name_outcome. Qed.
Print Assumptions C10_failed_set_name_changes_nothing.

Theorem C10_failed_set_ip_changes_nothing : forall v it ip qls qt lA lN lR r x,
  dinv v -> reading (pp_packet v) qls qt lA lN lR -> In (r, x) (lA ++ lN ++ lR) ->
  it_offset it = Some (rv_off r) -> it_name_end it = rv_name_end r ->
  (exists s', m_set_ip ip (v, it) = (s', Ok tt)) \/ (exists e, m_set_ip ip (v, it) = ((v, it), Err e)).
Proof. exact set_ip_outcome. Qed.
Print Assumptions C10_failed_set_ip_changes_nothing.

(** deletion and the TTL setter cannot fail there *)
Theorem C10_delete_succeeds : forall v it qls qt lA lN lR r x,
  dinv v -> reading (pp_packet v) qls qt lA lN lR -> In (r, x) (lA ++ lN ++ lR) -> is_opt r = false ->
  it_offset it = Some (rv_off r) -> it_name_end it = rv_name_end r -> it_offset_next it = rv_name_end r + 10 + rv_rdlen r ->
  exists s', m_delete (v, it) = (s', Ok tt).
Proof. exact delete_total. Qed.
Print Assumptions C10_delete_succeeds.

Theorem C10_set_ttl_succeeds : forall v it t qls qt lA lN lR r x,
  dinv v -> reading (pp_packet v) qls qt lA lN lR -> In (r, x) (lA ++ lN ++ lR) ->
  it_offset it <> None -> it_name_end it = rv_name_end r ->
  exists s', m_set_ttl t (v, it) = (s', Ok tt).
Proof. exact set_ttl_total. Qed.
Print Assumptions C10_set_ttl_succeeds.

(** a name the checker refuses changes nothing, on any object, compressed or not, and any cursor *)
Theorem C10_refused_name_changes_nothing : forall nm s e, check_compressed_name nm 0 = Err e -> m_set_raw_name nm s = (s, Err e).
Proof. exact set_raw_name_invalid. Qed.
Print Assumptions C10_refused_name_changes_nothing.

(** the whole-packet operations: an error of [rename_with_raw_names] (from the renamer or from the parse of the renamed
    packet) or of [recompute] (from the decompression or its parse) leaves object and cursor as they were - any object, any
    arguments; the new packet is built aside and stored last *)
Theorem C10_failed_rename_changes_nothing : forall target source sfx st st' e,
  m_rename target source sfx st = (st', Err e) -> st' = st.
Proof. exact failed_rename_changes_nothing. Qed.
Print Assumptions C10_failed_rename_changes_nothing.

Theorem C10_failed_recompute_changes_nothing : forall st st' e, m_recompute st = (st', Err e) -> st' = st.
Proof. exact failed_recompute_changes_nothing. Qed.
Print Assumptions C10_failed_recompute_changes_nothing.

(** the whole-packet rename of a packet as the parser returned it, labels given: it succeeds, or it reports an error and object and
    cursor are as they were; the consistency assertion on the EDNS summary (`assert_eq!` in parsed_packet.rs, Panic 795 of the
    model) is never reached, because the renamed packet carries the same OPT record (C10_rename_keeps_edns_summary) *)
Theorem C10_rename_keeps_edns_summary : forall p v sl tl sfx out f, bytes_ok p -> parse p = Ok v ->
  Forall lab sl -> Forall lab tl -> sl <> [] -> tl <> [] -> bytes_ok (wire_of_labels tl) ->
  length (wire_of_labels sl) <= 255 -> length (wire_of_labels tl) <= 255 ->
  renamer_rename v (wire_of_labels tl) (wire_of_labels sl) sfx = Ok out -> parse out = Ok f ->
  edns_summary_same v f = true.
Proof. exact rename_summary_kept. Qed.
Print Assumptions C10_rename_keeps_edns_summary.

Theorem C10_rename_total : forall p v it sl tl sfx, bytes_ok p -> parse p = Ok v ->
  Forall lab sl -> Forall lab tl -> sl <> [] -> tl <> [] -> bytes_ok (wire_of_labels tl) ->
  length (wire_of_labels sl) <= 255 -> length (wire_of_labels tl) <= 255 ->
  (exists s', m_rename (wire_of_labels tl) (wire_of_labels sl) sfx (v, it) = (s', Ok tt)) \/
  (exists e, m_rename (wire_of_labels tl) (wire_of_labels sl) sfx (v, it) = ((v, it), Err e)).
Proof. exact rename_total. Qed.
Print Assumptions C10_rename_total.

(** the same from any object satisfying the C08 invariant: success, or an error that changes nothing; no Panic outcome *)
Theorem C10_rename_total_on_decompressed : forall v it sl tl sfx, dinv v ->
  Forall lab sl -> Forall lab tl -> sl <> [] -> tl <> [] -> bytes_ok (wire_of_labels tl) ->
  length (wire_of_labels sl) <= 255 -> length (wire_of_labels tl) <= 255 ->
  (exists s', m_rename (wire_of_labels tl) (wire_of_labels sl) sfx (v, it) = (s', Ok tt)) \/
  (exists e, m_rename (wire_of_labels tl) (wire_of_labels sl) sfx (v, it) = ((v, it), Err e)).
Proof. exact rename_total_dinv. Qed.
Print Assumptions C10_rename_total_on_decompressed.

(** every operation of the histories that mix whole-packet renames with the cursor operations (vocabulary: C08_rename_history_vocabulary
    in props/C08.v), applied to an object that is its own fresh parse: it succeeds or reports an error, never a Panic outcome, and what
    a refused operation leaves is again an object that is its own fresh parse, cursor untouched *)
Theorem C10_step_with_rename_outcome : forall o v it, objst v -> is_response (pp_packet v) -> it_section it <> SQuestion -> hop4_ok_at v o ->
  exists s1 r, run_hop4 o (v, it) = (s1, r) /\ (r = Ok tt \/ exists e, r = Err e) /\
               objst (fst s1) /\ snd s1 = it /\ is_response (pp_packet (fst s1)).
Proof. exact hop4_outcome. Qed.
Print Assumptions C10_step_with_rename_outcome.

(** one decompress-first operation on a packet as the parser returned it (recompute, insertion, deletion or owner-name change through a
    cursor): success or an error, the object left in pointer-free form with the view of its parse, or untouched *)
Theorem C10_first_operation_outcome : forall p v it o, bytes_ok p -> parse p = Ok v -> is_response p -> it_section it <> SQuestion ->
  decompresses_first o -> hop3_ok_at v o ->
  exists s1 r, run_hop3 o (v, it) = (s1, r) /\ (r = Ok tt \/ exists e, r = Err e) /\
               objst (fst s1) /\ snd s1 = it /\ is_response (pp_packet (fst s1)).
Proof. exact first_hop3_outcome. Qed.
Print Assumptions C10_first_operation_outcome.
