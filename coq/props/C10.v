(** C10 - A failed operation changes nothing; the size limit cannot be bypassed.

    Proved: insertion never yields more than 8192 bytes whatever the size of the packet it started
    from (the size test is guarded against underflow), and when the insertion core reports an error
    (too large, second question, 65535 records) the object is exactly as it was - the count is checked
    before any byte moves.  For a freshly parsed packet (C10_failed_insert_keeps_message): when
    insert_rr reports any error the object holds exactly the decompressed form of the packet, which
    the parser accepts and which reads as the same question and records; the cursor is untouched.
    Stronger (C10_failed_insert_keeps_invariant): that object satisfies the C08 invariant [dinv] (accepted bytes, fixed
    point of decompression, flag cleared, view = fresh parse).  From any state that satisfies [dinv] a failing
    insert_rr changes nothing at all (C10_failed_insert_changes_nothing), none of insert_rr / recompute / the header
    setters reaches a Panic outcome, and histories in which failing steps are tolerated run to the end and keep the
    invariant (C08_histories_total in props/C08.v).
    PARTIAL: atomicity of the other failing operations (invalid names, deleted
    cursors, malformed text, rename overflow) is decided each run by the correspondence and the
    before/after oracle. *)
From DV Require Import Model.Base Model.NameCheck Model.Parser Model.Header Model.Readers Model.Uncompress
  Model.Mutate Spec.PlainSpec Proofs.Hoare Proofs.HeaderBits Proofs.InsertLemmas Proofs.PlainWf Proofs.InsertFail Proofs.InsertSpec Proofs.HeaderInv.

Theorem C10_insert_bound : forall sec rr s s',
  m_insert_rr sec rr s = (s', Ok tt) -> (N.of_nat (length (pp_packet (fst s'))) <= 8192)%N.
Proof. exact insert_bound. Qed.
Print Assumptions C10_insert_bound.

Theorem C10_insert_core_atomic : forall sec rr s s' e,
  insert_core sec rr s = (s', Err e) -> s' = s.
Proof. exact insert_core_err. Qed.
Print Assumptions C10_insert_core_atomic.

Theorem C10_second_question_refused : forall p c,
  be16_at p 4 612 = Ok c -> (1 <= c)%N -> rrcount_inc p SQuestion = Err InvalidPacket.
Proof. exact rrcount_inc_second_question. Qed.
Print Assumptions C10_second_question_refused.

Theorem C10_failed_insert_keeps_message : forall p v sec rr it s' e, bytes_ok p -> parse p = Ok v ->
  m_insert_rr sec rr (v, it) = (s', Err e) ->
  exists q v' qls qt lxa lxn lxr lxa' lxn' lxr',
    pp_packet (fst s') = q /\ snd s' = it /\ uncompress p = Ok q /\ parse q = Ok v' /\
    reading p qls qt lxa lxn lxr /\ reading q qls qt lxa' lxn' lxr' /\
    map plain_record lxa' = map plain_record lxa /\ map plain_record lxn' = map plain_record lxn /\
    map plain_record lxr' = map plain_record lxr.
Proof. exact failed_insert_message. Qed.
Print Assumptions C10_failed_insert_keeps_message.

Theorem C10_failed_insert_keeps_invariant : forall p v it sec rr s' e, bytes_ok p -> parse p = Ok v ->
  m_insert_rr sec rr (v, it) = (s', Err e) ->
  exists dv, s' = (dv, it) /\ dinv dv /\ uncompress p = Ok (pp_packet dv).
Proof. exact failed_insert_fresh. Qed.
Print Assumptions C10_failed_insert_keeps_invariant.

Theorem C10_failed_insert_changes_nothing : forall v it sec rr s' e, dinv v -> m_insert_rr sec rr (v, it) = (s', Err e) -> s' = (v, it).
Proof. exact failed_insert_on_dinv. Qed.
Print Assumptions C10_failed_insert_changes_nothing.
