(** C01 - Parsing untrusted bytes is total: a result or an error, never a crash or hang.

    The statements quantify over every byte string (any length, any content) and, for the
    public primitives, every offset / increment.  In the model every out-of-range index,
    [unwrap] on [None], assertion, usize underflow, counter overflow and exhausted loop budget
    is the outcome [Panic]; these theorems say [Panic] is unreachable.
    This file holds statements only; proofs are in Proofs/. *)
From DV Require Import Model.Base Model.NameCheck Model.Parser
  Proofs.Hoare Proofs.C01Final.

Theorem C01_parse_total : forall p : bytes, bytes_ok p ->
  (exists v, parse p = Ok v /\ pp_packet v = p) \/ (exists e, parse p = Err e).
Proof. exact parse_total_full. Qed.
Print Assumptions C01_parse_total.

Theorem C01_check_compressed_name_total : forall (p : bytes) (off : nat),
  (exists e, check_compressed_name p off = Ok e /\ off < e) \/
  (exists e, check_compressed_name p off = Err e).
Proof. exact check_compressed_name_total_full. Qed.
Print Assumptions C01_check_compressed_name_total.

Theorem C01_check_uncompressed_name_total : forall (p : bytes) (off : nat),
  (exists e, check_uncompressed_name p off = Ok e /\ off < e) \/
  (exists e, check_uncompressed_name p off = Err e).
Proof. exact check_uncompressed_name_total_full. Qed.
Print Assumptions C01_check_uncompressed_name_total.

Theorem C01_cursor_total : forall (p : bytes) (ops : list cursor_op), bytes_ok p ->
  exists s outs, cursor_run p ps_init ops = Ok (s, outs) /\ ps_off s <= length p.
Proof. exact cursor_total_full. Qed.
Print Assumptions C01_cursor_total.

(** Non-vacuity: a concrete 29-byte query is accepted, a 28-byte truncation of it is an error. *)
Definition sample_query : bytes :=
  [18;52; 1;0; 0;1; 0;0; 0;0; 0;0; 7;101;120;97;109;112;108;101; 3;99;111;109; 0; 0;1; 0;1]%N.

Example C01_sample_accepted : exists v, parse sample_query = Ok v /\ pp_packet v = sample_query.
Proof. vm_compute. eexists. split; reflexivity. Qed.

Example C01_sample_truncated_rejected : exists e, parse (firstn 28 sample_query) = Err e.
Proof. vm_compute. eexists. reflexivity. Qed.

Example C01_sample_bytes_ok : bytes_ok sample_query.
Proof. unfold bytes_ok, sample_query. repeat constructor. Qed.
