(** C07 - Renaming rewrites exactly the matching names and nothing else.

    PARTIAL.  Proved: the shape of every replacement [replace_raw] produces (the last [length source]
    bytes of the name replaced by the target, result within 255 bytes, exact mode only for equal
    lengths).  The packet-level statement is decided on every run by the correspondence and by the
    abstract rename applied to the independently decoded message.  Known finding shared with C06:
    pointer chains of more than 16 hops. *)
From DV Require Import Model.Base Model.Parser Model.Header Model.Readers Model.Uncompress Model.Compress
  Model.Renamer Proofs.Hoare Proofs.CompressFrame.

Theorem C07_replace_raw_shape : forall name target source sfx r,
  replace_raw name target source sfx = Ok (Some r) ->
  length source <= length name /\
  r = firstn (length name - length source) name ++ target /\
  length name - length source + length target <= 255 /\
  (sfx = false -> length name = length source).
Proof. exact replace_raw_shape. Qed.
Print Assumptions C07_replace_raw_shape.

Example C07_sample :
  replace_raw [3;119;119;119; 2;69;88; 0]%N [3;110;101;116;0]%N [2;101;120;0]%N true
  = Ok (Some [3;119;119;119; 3;110;101;116;0]%N).
Proof. vm_compute. reflexivity. Qed.
