(** C07 - Renaming rewrites exactly the matching names and nothing else.

    PARTIAL.  Proved at the level of one name, for all pointer-free names given by their labels
    (1..63 bytes each), non-root source and target: [replace_raw] replaces the trailing labels of
    the name by the labels of the target exactly when those trailing labels equal the labels of
    the source up to ASCII case - the whole name in exact mode, any suffix on a label boundary in
    suffix mode (C07_replaces_matching_suffix); it fails instead of producing a name longer than
    255 bytes (same theorem); in every other case it reports "no match" and the caller keeps the
    name (C07_keeps_other_names); renaming a name to a case variant of itself gives the same
    labels (C07_identity).  Also the shape of every replacement (C07_replace_raw_shape).
    The packet-level statement (which names of the packet are visited, everything else copied,
    counts / order / opaque data / OPT kept) is decided on every run by the correspondence and by
    the abstract rename applied to the independently decoded message.  Known finding shared with
    C06: pointer chains of more than 16 hops. *)
From DV Require Import Model.Base Model.Parser Model.Header Model.Readers Model.Uncompress Model.Compress
  Model.Renamer Spec.NameSpec Proofs.Hoare Proofs.CompressFrame Proofs.RenameSpec.

Theorem C07_replace_raw_shape : forall name target source sfx r,
  replace_raw name target source sfx = Ok (Some r) ->
  length source <= length name /\
  r = firstn (length name - length source) name ++ target /\
  length name - length source + length target <= 255 /\
  (sfx = false -> length name = length source).
Proof. exact replace_raw_shape. Qed.
Print Assumptions C07_replace_raw_shape.

Theorem C07_replaces_matching_suffix : forall (nl sl tl : list bytes) (sfx : bool),
  Forall lab nl -> Forall lab sl -> Forall lab tl -> sl <> [] -> tl <> [] ->
  forall pre rest, nl = pre ++ rest -> ci_labels rest sl -> sfx = true \/ pre = [] ->
  replace_raw (wire_of_labels nl) (wire_of_labels tl) (wire_of_labels sl) sfx =
    if DNS_MAX_HOSTNAME_LEN <? length (labels_flat pre) + length (wire_of_labels tl) then Err InvalidName
    else Ok (Some (wire_of_labels (pre ++ tl))).
Proof. exact replace_raw_match. Qed.
Print Assumptions C07_replaces_matching_suffix.

Theorem C07_keeps_other_names : forall (nl sl tl : list bytes) (sfx : bool),
  Forall lab nl -> Forall lab sl -> Forall lab tl -> sl <> [] -> tl <> [] ->
  (forall pre rest, nl = pre ++ rest -> ci_labels rest sl -> ~ (sfx = true \/ pre = [])) ->
  replace_raw (wire_of_labels nl) (wire_of_labels tl) (wire_of_labels sl) sfx = Ok None.
Proof. exact replace_raw_no_match. Qed.
Print Assumptions C07_keeps_other_names.

Theorem C07_identity : forall nl sl, Forall lab nl -> Forall lab sl -> sl <> [] -> ci_labels nl sl ->
  length (wire_of_labels sl) <= 255 ->
  replace_raw (wire_of_labels nl) (wire_of_labels sl) (wire_of_labels sl) false = Ok (Some (wire_of_labels sl)).
Proof. exact replace_raw_identity. Qed.
Print Assumptions C07_identity.

(** Non-vacuity of the two theorems: "www.EX" against source "ex" (suffix mode) matches with pre = [www];
    against source "xe" nothing matches. *)
Example C07_hypotheses_met :
  Forall lab [[119;119;119];[69;88]]%N /\ ci_labels [[69;88]]%N [[101;120]]%N /\
  (forall pre rest, [[119;119;119];[69;88]]%N = pre ++ rest -> ci_labels rest [[120;101]]%N -> ~ (true = true \/ pre = [])).
Proof.
  split; [repeat constructor; cbn; lia|]. split; [repeat constructor|].
  intros pre rest E H. unfold ci_labels in H.
  destruct pre as [|a [|b [|c pre]]]; cbn in E; inversion E; subst;
    repeat match goal with H : Forall2 _ _ _ |- _ => inversion H; clear H; subst end;
    try match goal with H : map lower_byte _ = map lower_byte _ |- _ => cbv in H; discriminate end.
Qed.

Example C07_sample :
  replace_raw [3;119;119;119; 2;69;88; 0]%N [3;110;101;116;0]%N [2;101;120;0]%N true
  = Ok (Some [3;119;119;119; 3;110;101;116;0]%N).
Proof. vm_compute. reflexivity. Qed.
