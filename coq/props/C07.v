(** C07 - Renaming rewrites exactly the matching names and nothing else.

    Proved for one name (all pointer-free names given by their labels of 1..63 bytes, non-root source and target):
    [replace_raw] replaces the trailing labels of the name by the labels of the target exactly when those trailing labels equal
    the labels of the source up to ASCII case - the whole name in exact mode, any suffix on a label boundary in suffix mode
    (C07_replaces_matching_suffix); it fails instead of producing a name longer than 255 bytes (same theorem); in every other
    case it reports "no match" and the caller keeps the name (C07_keeps_other_names); renaming a name to a case variant of
    itself gives the same labels (C07_identity).  Also the shape of every replacement (C07_replace_raw_shape).
    Proved at packet level (C07_packet), for every accepted packet - compressed or not - and every source / target given by
    labels: [Renamer::rename_with_raw_names] either reports "invalid name" or returns the input's header, the question with its
    name renamed by that rule and written in full, its type and class, and then record by record - answers, authority,
    additional with the OPT record - the owner name renamed, the same type / class / TTL bytes, a data-length field equal to the
    length of what follows, and the same data, the names inside NS / CNAME / PTR / MX / SOA data renamed by the same rule and
    every other byte of data (OPT included) copied.  Names of the output are read by the reference decoder of C06 and
    compared up to ASCII case, since the output is compressed again.  No Panic outcome.
    The error is reported exactly when the question name or some owner name or name inside data would exceed 255 bytes
    once its matching suffix is replaced (same theorem: the two outcomes exclude each other).  Whenever the parser accepts the output, it reads as the renamed message up to
    case, section by section (C07_same_message).  PARTIAL: acceptance of the output by the parser has the known finding
    chain-depth of C06; the wrapper on the packet
    object (re-parse, offsets) is C08_rename_view.  The correspondence and the abstract rename applied to the independently
    decoded message decide these on every run. *)
From DV Require Import Model.Base Model.Parser Model.Header Model.Readers Model.Uncompress Model.Compress
  Model.Renamer Spec.NameSpec Spec.PacketSpec Spec.RecordSpec Spec.PlainSpec Proofs.Hoare Proofs.CompressFrame Proofs.RenameSpec Proofs.PlainWf
  Proofs.CompressContent Proofs.RenameContent.

Theorem C07_replace_raw_shape : forall name target source sfx r,
  replace_raw name target source sfx = Ok (Some r) ->
  length source <= length name /\
  r = firstn (length name - length source) name ++ target /\
  length name - length source + length target <= 255 /\
  (sfx = false -> length name = length source).
Proof. exact replace_raw_shape. Qed.
Print Assumptions C07_replace_raw_shape.

Theorem C07_replaces_matching_suffix : forall (nl sl tl : list bytes) (sfx : bool),
  Forall lab nl -> Forall lab sl -> Forall lab tl -> sl <> [] -> tl <> [] ->
  forall pre rest, nl = pre ++ rest -> ci_labels rest sl -> sfx = true \/ pre = [] ->
  replace_raw (wire_of_labels nl) (wire_of_labels tl) (wire_of_labels sl) sfx =
    if DNS_MAX_HOSTNAME_LEN <? length (labels_flat pre) + length (wire_of_labels tl) then Err InvalidName
    else Ok (Some (wire_of_labels (pre ++ tl))).
Proof. exact replace_raw_match. Qed.
Print Assumptions C07_replaces_matching_suffix.

Theorem C07_keeps_other_names : forall (nl sl tl : list bytes) (sfx : bool),
  Forall lab nl -> Forall lab sl -> Forall lab tl -> sl <> [] -> tl <> [] ->
  (forall pre rest, nl = pre ++ rest -> ci_labels rest sl -> ~ (sfx = true \/ pre = [])) ->
  replace_raw (wire_of_labels nl) (wire_of_labels tl) (wire_of_labels sl) sfx = Ok None.
Proof. exact replace_raw_no_match. Qed.
Print Assumptions C07_keeps_other_names.

Theorem C07_identity : forall nl sl, Forall lab nl -> Forall lab sl -> sl <> [] -> ci_labels nl sl ->
  length (wire_of_labels sl) <= 255 ->
  replace_raw (wire_of_labels nl) (wire_of_labels sl) (wire_of_labels sl) false = Ok (Some (wire_of_labels sl)).
Proof. exact replace_raw_identity. Qed.
Print Assumptions C07_identity.

(** Non-vacuity of the two theorems: "www.EX" against source "ex" (suffix mode) matches with pre = [www];
    against source "xe" nothing matches. *)
Example C07_hypotheses_met :
  Forall lab [[119;119;119];[69;88]]%N /\ ci_labels [[69;88]]%N [[101;120]]%N /\
  (forall pre rest, [[119;119;119];[69;88]]%N = pre ++ rest -> ci_labels rest [[120;101]]%N -> ~ (true = true \/ pre = [])).
Proof.
  split; [repeat constructor; cbn; lia|]. split; [repeat constructor|].
  intros pre rest E H. unfold ci_labels in H.
  destruct pre as [|a [|b [|c pre]]]; cbn in E; inversion E; subst;
    repeat match goal with H : Forall2 _ _ _ |- _ => inversion H; clear H; subst end;
    try match goal with H : map lower_byte _ = map lower_byte _ |- _ => cbv in H; discriminate end.
Qed.

Example C07_sample :
  replace_raw [3;119;119;119; 2;69;88; 0]%N [3;110;101;116;0]%N [2;101;120;0]%N true
  = Ok (Some [3;119;119;119; 3;110;101;116;0]%N).
Proof. vm_compute. reflexivity. Qed.

(** ** Packet level *)
Example C07_renamed_means : forall sl tl sfx nl nl', renamed sl tl sfx nl nl' <->
  (exists pre rest, nl = pre ++ rest /\ ci_labels rest sl /\ (sfx = true \/ pre = []) /\ nl' = pre ++ tl) \/
  ((forall pre rest, nl = pre ++ rest -> ci_labels rest sl -> ~ (sfx = true \/ pre = [])) /\ nl' = nl).
Proof. intros. split; intros HH; exact HH. Qed.

Example C07_ren_rec_means : forall sl tl sfx r x r' x', ren_rec sl tl sfx (r, x) (r', x') <->
  (exists ls', renamed sl tl sfx (rv_labels r) ls' /\ r' = rv_with_labels r ls') /\
  match x, x' with
  | RdName a, RdName b => renamed sl tl sfx a b
  | RdMx pa a, RdMx pb b => pa = pb /\ renamed sl tl sfx a b
  | RdSoa a1 a2 ta, RdSoa b1 b2 tb => renamed sl tl sfx a1 b1 /\ renamed sl tl sfx a2 b2 /\ ta = tb
  | RdRaw a, RdRaw b => a = b
  | _, _ => False
  end.
Proof. intros. split; intros HH; exact HH. Qed.

Example C07_overflows_means : forall sl tl sfx nl r x,
  (overflows sl tl sfx nl <-> exists pre rest, nl = pre ++ rest /\ ci_labels rest sl /\ (sfx = true \/ pre = []) /\
                                 255 < length (labels_flat pre) + length (wire_of_labels tl)) /\
  (rec_overflows sl tl sfx (r, x) <-> overflows sl tl sfx (rv_labels r) \/
     match x with RdName a => overflows sl tl sfx a | RdMx _ a => overflows sl tl sfx a
                | RdSoa a b _ => overflows sl tl sfx a \/ overflows sl tl sfx b | RdRaw _ => False end).
Proof. intros. split; split; intros HH; exact HH. Qed.

(** [recs_enc], [rec_enc], [rdata_enc], [name_enc] and the reference decoder are spelled out in props/C06.v
    (C06_encoding_means, C06_reference_decoder_means); [rv_with_labels r ls] is [r] with its labels replaced. *)
Theorem C07_packet : forall p v sl tl sfx, bytes_ok p -> parse p = Ok v ->
  Forall lab sl -> Forall lab tl -> sl <> [] -> tl <> [] -> bytes_ok (wire_of_labels tl) ->
  length (wire_of_labels sl) <= 255 -> length (wire_of_labels tl) <= 255 ->
  exists qls qt lxa lxn lxr qe, reading p qls qt lxa lxn lxr /\ cname_l p 12 qls qe /\
    ((renamer_rename v (wire_of_labels tl) (wire_of_labels sl) sfx = Err InvalidName /\
      (overflows sl tl sfx qls \/ Exists (rec_overflows sl tl sfx) (lxa ++ lxn ++ lxr))) \/
     exists out qls' L' X, renamer_rename v (wire_of_labels tl) (wire_of_labels sl) sfx = Ok out /\ bytes_ok out /\
       renamed sl tl sfx qls qls' /\ Forall2 (ren_rec sl tl sfx) (lxa ++ lxn ++ lxr) L' /\
       ~ overflows sl tl sfx qls /\ Forall (fun rx => ~ rec_overflows sl tl sfx rx) (lxa ++ lxn ++ lxr) /\
       out = (firstn 12 p ++ wire_of_labels qls' ++ firstn 4 (skipn qe p)) ++ X /\
       recs_enc p out (12 + length (wire_of_labels qls') + 4) L' (length out)).
Proof. exact rename_content. Qed.
Print Assumptions C07_packet.

(** Non-vacuity: a compressed response "www.ex A?" with the answer "www.ex A" (owner written as a pointer) is accepted, and
    renaming the suffix "ex" to "net" succeeds. *)
Example C07_packet_hypotheses_met :
  let p := [0;7; 129;128; 0;1; 0;1; 0;0; 0;0;  3;119;119;119; 2;101;120; 0; 0;1; 0;1;
            192;12; 0;1; 0;1; 0;0;0;9; 0;4; 1;2;3;4]%N in
  match parse p with
  | Ok v => match renamer_rename v (wire_of_labels [[110;101;116]%N]) (wire_of_labels [[101;120]%N]) true with Ok _ => True | _ => False end
  | _ => False
  end.
Proof. vm_compute. exact I. Qed.

(** Whenever the parser accepts the renamed packet (always, unless more than 16 nested suffixes were re-compressed into one chain -
    known finding chain-depth), it reads as the renamed message: the question name renamed, the same type, and section by section,
    record by record, the records of the input with their names renamed, compared up to ASCII case, the same counts. *)
Theorem C07_same_message : forall p v sl tl sfx out v', bytes_ok p -> parse p = Ok v ->
  Forall lab sl -> Forall lab tl -> sl <> [] -> tl <> [] -> bytes_ok (wire_of_labels tl) ->
  length (wire_of_labels sl) <= 255 -> length (wire_of_labels tl) <= 255 ->
  renamer_rename v (wire_of_labels tl) (wire_of_labels sl) sfx = Ok out -> parse out = Ok v' ->
  exists qls qt lxa lxn lxr qls' L' lxa' lxn' lxr',
    reading p qls qt lxa lxn lxr /\ renamed sl tl sfx qls qls' /\ Forall2 (ren_rec sl tl sfx) (lxa ++ lxn ++ lxr) L' /\
    reading out qls' qt lxa' lxn' lxr' /\ Forall2 ci_rec L' (lxa' ++ lxn' ++ lxr') /\
    length lxa' = length lxa /\ length lxn' = length lxn /\ length lxr' = length lxr /\ firstn 12 out = firstn 12 p.
Proof. exact rename_same_message. Qed.
Print Assumptions C07_same_message.
