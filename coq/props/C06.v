(** C06 - Compression keeps the message, stays valid and never grows the packet.

    Proved for every accepted packet that decompression leaves unchanged (i.e. every accepted pointer-free packet, by C05):
    (i) [compress] returns a packet - no error, none of the model's Panic outcomes (slice ranges, the dictionary's assertions,
    patch positions, fuel) - that is no longer than its input (C06_succeeds_and_never_grows);
    (ii) that packet is the input's header, the question name byte for byte, the question's type and class, and then record by
    record an owner name decoding to the same labels up to ASCII case, the same type / class / TTL bytes, a data length equal to
    the length of the data that follows, and the same data with names inside NS / CNAME / PTR / MX / SOA data decoding to the same
    labels up to case (C06_content).  Names of the output are read by a reference decoder that follows any number of strictly
    backward pointers; it is a function (C06_reference_decoder_is_a_function) and agrees with the parser's name policy wherever
    that policy accepts (C06_reference_decoder_reads_policy_names); "every pointer designates the suffix it stands for" is part
    of (ii): a pointer is only ever emitted to an offset of the output where the decoder reads a name equal up to case to the
    remaining suffix (the dictionary invariant [dict_inv] of Proofs/CompressContent.v);
    (iii) whenever the parser accepts the output, the output reads as the same message up to the case of names - same question,
    same counts, record by record same type, class, TTL and data - and decompressing it gives the pointer-free encoding of that
    reading (C06_same_message: "same records" and "round trip").
    Not proved because false: that the parser always accepts the output.  Nested suffixes can build pointer chains of more than
    16 hops, which the parser rejects - known finding chain-depth; acceptance is a hypothesis of (iii) and is decided on every
    run, for every generated packet, by the correspondence and the reference-decoder oracle.
    Per name: C06_name_emission (first k labels + root, or + a pointer to a remembered candidate equal up to case and not
    longer; the dictionary grows only by suffixes just written, below offset 16384), C06_dictionary_comparison. *)
From DV Require Import Model.Base Model.Parser Model.Header Model.Readers Model.Uncompress Model.Compress
  Spec.NameSpec Proofs.Hoare Proofs.CompressFrame Proofs.RenameSpec Proofs.CompressName Proofs.CompressSize Proofs.PlainWf Proofs.CompressContent.
From DV Require Import Spec.PacketSpec Spec.RecordSpec Spec.PlainSpec.

Theorem C06_header_kept : forall (p out : bytes),
  compress p = Ok out -> firstn 12 out = firstn 12 p /\ 12 <= length out.
Proof. exact compress_keeps_header. Qed.
Print Assumptions C06_header_kept.

Theorem C06_name_emission_appends : forall d out p off out' d' l f,
  copy_compressed_name d out p off = Ok (out', d', l, f) -> exists sfx, out' = out ++ sfx.
Proof. exact copy_compressed_name_appends. Qed.
Print Assumptions C06_name_emission_appends.

Theorem C06_name_emission : forall ls A B d out, Forall lab ls -> length (wire_of_labels ls) <= 255 -> sd_wf d ->
  exists enc d',
    copy_compressed_name d out (A ++ wire_of_labels ls ++ B) (length A) =
      Ok (out ++ enc, d', length enc, length A + length (wire_of_labels ls)) /\
    emission d (length out) ls enc d'.
Proof. exact copy_compressed_name_plain. Qed.
Print Assumptions C06_name_emission.

(** [emission] spelled out (so that the statement above cannot be weakened silently) *)
Example C06_emission_means : forall d base ls enc d', emission d base ls enc d' <->
  exists k tail, enc = labels_flat (firstn k ls) ++ tail /\ k <= length ls /\
    ((k = length ls /\ tail = [0%N]) \/
     (k < length ls /\ exists o cand, tail = ptr_bytes o /\ In (o, cand) (sd_entries d') /\
        length cand <= length (wire_of_labels (skipn k ls)) /\
        raw_names_eq_ignore_case (wire_of_labels (skipn k ls)) cand 0 = true)) /\
    length enc <= length (wire_of_labels ls) /\ sd_wf d' /\
    forall o c, In (o, c) (sd_entries d') -> In (o, c) (sd_entries d) \/
      exists j, j < k /\ c = wire_of_labels (skipn j ls) /\ o = base + length (labels_flat (firstn j ls)) /\ (N.of_nat o < 16384)%N.
Proof. intros. reflexivity. Qed.

Theorem C06_dictionary_comparison : forall a b, Forall lab a -> Forall lab b ->
  raw_names_eq_ignore_case (wire_of_labels a) (wire_of_labels b) 0 = true -> ci_labels a b.
Proof. exact raw_names_eq_labels. Qed.
Print Assumptions C06_dictionary_comparison.

Theorem C06_succeeds_and_never_grows : forall p v, bytes_ok p -> parse p = Ok v -> uncompress p = Ok p ->
  exists out, compress p = Ok out /\ length out <= length p.
Proof. exact compress_never_grows. Qed.
Print Assumptions C06_succeeds_and_never_grows.

(** Non-vacuity of its hypotheses: a pointer-free response "a A?" with answers "a A 1.2.3.4" and "b.a NS a" is accepted,
    is a fixed point of decompression, and compresses from 54 to 51 bytes. *)
Example C06_hypotheses_met :
  let p := [0;1; 129;128; 0;1; 0;2; 0;0; 0;0;  1;97;0; 0;1; 0;1;
            1;97;0; 0;1; 0;1; 0;0;0;9; 0;4; 1;2;3;4;
            1;98;1;97;0; 0;2; 0;1; 0;0;0;9; 0;3; 1;97;0]%N in
  bytes_ok p /\ (exists v, parse p = Ok v) /\ uncompress p = Ok p /\
  exists out, compress p = Ok out /\ length p = 54 /\ length out = 51.
Proof.
  cbv zeta. split; [unfold bytes_ok; repeat constructor|]. split; [eexists; vm_compute; reflexivity|].
  split; [vm_compute; reflexivity|]. eexists. split; [vm_compute; reflexivity|]. split; reflexivity.
Qed.

(** Non-vacuity: "www.example" after "example" was written at output offset 12 becomes "www" + pointer to 12. *)
Example C06_sample :
  let d := {| sd_index := 1; sd_entries := [(12, wire_of_labels [[101;120;97;109;112;108;101]%N])] |} in
  sd_wf d /\
  copy_compressed_name d (repeat 0%N 40) (wire_of_labels [[119;119;119];[101;120;97;109;112;108;101]]%N) 0 =
    Ok (repeat 0%N 40 ++ [3;119;119;119;192;12]%N, {| sd_index := 2; sd_entries := [(12, wire_of_labels [[101;120;97;109;112;108;101]%N]);
        (40, wire_of_labels [[119;119;119];[101;120;97;109;112;108;101]]%N)] |}, 6, 13).
Proof. split; [unfold sd_wf; cbn; lia|vm_compute; reflexivity]. Qed.

(** ** What the output says

    The output is read with a reference decoder of names that follows any number of pointers, each strictly backwards
    ([dec_in out o ls e]: the name at [o] has labels [ls]; its in-place encoding ends at [e]).  It is a function of the
    offset, and it reads what the parser's name policy reads wherever that policy accepts a name. *)
Example C06_reference_decoder_means : forall out o ls e, dec_in out o ls e <->
  (ls = [] /\ seg out o [0%N] /\ e = o + 1) \/
  (exists l ls', ls = l :: ls' /\ lab l /\ seg out o (N.of_nat (length l) :: l) /\ dec_in out (o + 1 + length l) ls' e) \/
  (exists t e', seg out o (ptr_bytes t) /\ t < o /\ (N.of_nat t < 16384)%N /\ dec_in out t ls e' /\ e = o + 2).
Proof.
  intros out o ls e. split.
  - intros H. inversion H as [o' H1|o' l ls' e0 Hl H1 H2|o' t ls' e' H1 H2 H3 H4]; subst.
    + left. auto.
    + right. left. exists l, ls'. auto.
    + right. right. exists t, e'. auto.
  - intros [(-> & H & ->)|[(l & ls' & -> & Hl & H1 & H2)|(t & e' & H1 & H2 & H3 & H4 & ->)]].
    + apply di_root. exact H.
    + apply di_lab; assumption.
    + apply (di_ptr out o t ls e'); assumption.
Qed.

Example C06_seg_means : forall out o X, seg out o X <-> exists A B, out = A ++ X ++ B /\ length A = o.
Proof. intros. split; intros HH; exact HH. Qed.

Theorem C06_reference_decoder_is_a_function : forall out o ls e ls' e', dec_in out o ls e -> dec_in out o ls' e' -> ls = ls' /\ e = e'.
Proof. intros out o ls e ls' e' H H'. exact (dec_in_fun out o ls e H ls' e' H'). Qed.
Print Assumptions C06_reference_decoder_is_a_function.

Theorem C06_reference_decoder_reads_policy_names : forall p off ls e, bytes_ok p -> cname_l p off ls e -> dec_in p off ls e.
Proof. exact cname_dec_in. Qed.
Print Assumptions C06_reference_decoder_reads_policy_names.

(** the encoding of records in the output, spelled out *)
Example C06_encoding_means :
  (forall out o ls e, name_enc out o ls e <-> exists ls', dec_in out o ls' e /\ ci_labels ls ls') /\
  (forall out o ls e, rdata_enc out o (RdName ls) e <-> name_enc out o ls e) /\
  (forall out o pref ls e, rdata_enc out o (RdMx pref ls) e <-> seg out o pref /\ name_enc out (o + length pref) ls e) /\
  (forall out o l1 l2 tail e, rdata_enc out o (RdSoa l1 l2 tail) e <->
     exists m m2, name_enc out o l1 m /\ name_enc out m l2 m2 /\ seg out m2 tail /\ e = m2 + length tail) /\
  (forall out o b e, rdata_enc out o (RdRaw b) e <-> seg out o b /\ e = o + length b) /\
  (forall p out o r x e, rec_enc p out o (r, x) e <->
     exists ne, name_enc out o (rv_labels r) ne /\ seg out ne (firstn 8 (skipn (rv_name_end r) p)) /\
       seg out (ne + 8) (be16_bytes (N.of_nat (e - (ne + 10)))) /\ (N.of_nat (e - (ne + 10)) < 65536)%N /\ rdata_enc out (ne + 10) x e) /\
  (forall p out o e, recs_enc p out o [] e <-> o = e) /\
  (forall p out o rx l e, recs_enc p out o (rx :: l) e <-> exists m, rec_enc p out o rx m /\ recs_enc p out m l e).
Proof. split; [|split; [|split; [|split; [|split; [|split; [|split]]]]]]; intros; (split; intros HH; exact HH). Qed.

(** For every accepted pointer-free packet: [compress] returns a packet made of the input's 12 header bytes, the question
    name byte for byte, the input's 4 bytes of question type and class, and then, record by record in the order answers,
    authority, additional (OPT included), an owner name that decodes to the input's labels up to ASCII case, the input's
    8 bytes of type / class / TTL, a data-length field equal to the length of the data that follows, and the data: the
    same bytes, except that a name inside NS / CNAME / PTR / MX / SOA data again decodes to the same labels up to case.
    Every pointer the output contains therefore designates (in the output) a name equal up to case to the suffix it
    stands for. *)
Theorem C06_content : forall p v, bytes_ok p -> parse p = Ok v -> uncompress p = Ok p ->
  exists out qls qt lxa lxn lxr X,
    compress p = Ok out /\ bytes_ok out /\ reading p qls qt lxa lxn lxr /\
    out = (firstn 12 p ++ wire_of_labels qls ++ firstn 4 (skipn (12 + length (wire_of_labels qls)) p)) ++ X /\
    recs_enc p out (12 + length (wire_of_labels qls) + 4) (lxa ++ lxn ++ lxr) (length out).
Proof. exact compress_content. Qed.
Print Assumptions C06_content.

Example C06_ci_rec_means : forall r x r' x', ci_rec (r, x) (r', x') <->
  ci_labels (rv_labels r) (rv_labels r') /\ rv_type r' = rv_type r /\ rv_class r' = rv_class r /\ rv_ttl r' = rv_ttl r /\
  match x, x' with
  | RdName a, RdName b => ci_labels a b
  | RdMx pa a, RdMx pb b => pa = pb /\ ci_labels a b
  | RdSoa a1 a2 ta, RdSoa b1 b2 tb => ci_labels a1 b1 /\ ci_labels a2 b2 /\ ta = tb
  | RdRaw a, RdRaw b => a = b
  | _, _ => False
  end.
Proof. intros. split; intros HH; exact HH. Qed.

(** Whenever the parser accepts that output (it does unless a chain of nested suffixes is deeper than its 16 hops - known
    finding chain-depth), the output has the same declarative reading as the input up to the case of names - same question,
    same number of records in each section, record by record the same type, class, TTL and data - and its decompression
    is the pointer-free encoding of that reading (round trip up to case). *)
Theorem C06_same_message : forall p v out v', bytes_ok p -> parse p = Ok v -> uncompress p = Ok p ->
  compress p = Ok out -> parse out = Ok v' ->
  exists qls qt lxa lxn lxr lxa' lxn' lxr',
    reading p qls qt lxa lxn lxr /\ reading out qls qt lxa' lxn' lxr' /\
    Forall2 ci_rec lxa lxa' /\ Forall2 ci_rec lxn lxn' /\ Forall2 ci_rec lxr lxr' /\
    uncompress out = Ok (plain_packet_of out qls qt lxa' lxn' lxr').
Proof. exact compress_same_message. Qed.
Print Assumptions C06_same_message.

(** Non-vacuity: the 54-byte packet of C06_hypotheses_met compresses to a packet the parser accepts. *)
Example C06_same_message_hypotheses_met :
  let p := [0;1; 129;128; 0;1; 0;2; 0;0; 0;0;  1;97;0; 0;1; 0;1;
            1;97;0; 0;1; 0;1; 0;0;0;9; 0;4; 1;2;3;4;
            1;98;1;97;0; 0;2; 0;1; 0;0;0;9; 0;3; 1;97;0]%N in
  match compress p with Ok out => match parse out with Ok _ => True | _ => False end | _ => False end.
Proof. vm_compute. exact I. Qed.
