(** C06 - Compression keeps the message, stays valid and never grows the packet.

    PARTIAL.  Proved: whatever [compress] returns starts with the input's 12 header bytes, and name
    emission only appends to the output.  The packet-level statement (accepted, not longer, same
    records up to name case, question name byte-identical, round trip through decompression, every
    pointer designates its suffix in the output) is decided on every run by the correspondence and the
    reference-decoder oracle.  Known finding (class chain-depth): nested suffixes can build pointer
    chains of more than 16 hops, which the parser rejects. *)
From DV Require Import Model.Base Model.Parser Model.Header Model.Readers Model.Uncompress Model.Compress
  Proofs.Hoare Proofs.CompressFrame.

Theorem C06_header_kept : forall (p out : bytes),
  compress p = Ok out -> firstn 12 out = firstn 12 p /\ 12 <= length out.
Proof. exact compress_keeps_header. Qed.
Print Assumptions C06_header_kept.

Theorem C06_name_emission_appends : forall d out p off out' d' l f,
  copy_compressed_name d out p off = Ok (out', d', l, f) -> exists sfx, out' = out ++ sfx.
Proof. exact copy_compressed_name_appends. Qed.
Print Assumptions C06_name_emission_appends.
