(** C06 - Compression keeps the message, stays valid and never grows the packet.

    PARTIAL.  Proved at packet level (C06_succeeds_and_never_grows): for every accepted packet that
    decompression leaves unchanged (i.e. every accepted pointer-free packet, by C05), [compress]
    returns a packet - no error and none of the model's Panic outcomes (slice ranges, the
    dictionary's assertions, patch positions, fuel) - that is no longer than its input; the proof
    carries "output so far <= input consumed so far" and the dictionary's well-formedness through the
    question and the three section walks.  Proved for one name (every pointer-free name of at most 255 bytes given by its labels,
    wherever it sits in the input, every well-formed dictionary, every output so far): name emission
    succeeds and appends the first k labels verbatim followed by the root byte (k = all labels) or by
    a two-byte pointer to an offset the dictionary holds for a candidate that compares equal to the
    remaining suffix and is not longer; the emission is never longer than the name; the dictionary
    stays well-formed and grows only by (output offset where a suffix of this name was just written,
    that suffix), below offset 16384 (C06_name_emission).  The dictionary's comparison on
    pointer-free names is label-wise equality up to ASCII case (C06_dictionary_comparison).  Also:
    whatever [compress] returns starts with the input's 12 header bytes, and name emission only
    appends to the output.  The packet-level statement (accepted, not longer, same records up to
    name case, question name byte-identical, round trip through decompression, every pointer
    designates its suffix in the output) is decided on every run by the correspondence and the
    reference-decoder oracle.  Known finding (class chain-depth): nested suffixes can build pointer
    chains of more than 16 hops, which the parser rejects. *)
From DV Require Import Model.Base Model.Parser Model.Header Model.Readers Model.Uncompress Model.Compress
  Spec.NameSpec Proofs.Hoare Proofs.CompressFrame Proofs.RenameSpec Proofs.CompressName Proofs.CompressSize.

Theorem C06_header_kept : forall (p out : bytes),
  compress p = Ok out -> firstn 12 out = firstn 12 p /\ 12 <= length out.
Proof. exact compress_keeps_header. Qed.
Print Assumptions C06_header_kept.

Theorem C06_name_emission_appends : forall d out p off out' d' l f,
  copy_compressed_name d out p off = Ok (out', d', l, f) -> exists sfx, out' = out ++ sfx.
Proof. exact copy_compressed_name_appends. Qed.
Print Assumptions C06_name_emission_appends.

Theorem C06_name_emission : forall ls A B d out, Forall lab ls -> length (wire_of_labels ls) <= 255 -> sd_wf d ->
  exists enc d',
    copy_compressed_name d out (A ++ wire_of_labels ls ++ B) (length A) =
      Ok (out ++ enc, d', length enc, length A + length (wire_of_labels ls)) /\
    emission d (length out) ls enc d'.
Proof. exact copy_compressed_name_plain. Qed.
Print Assumptions C06_name_emission.

(** [emission] spelled out (so that the statement above cannot be weakened silently) *)
Example C06_emission_means : forall d base ls enc d', emission d base ls enc d' <->
  exists k tail, enc = labels_flat (firstn k ls) ++ tail /\ k <= length ls /\
    ((k = length ls /\ tail = [0%N]) \/
     (k < length ls /\ exists o cand, tail = ptr_bytes o /\ In (o, cand) (sd_entries d') /\
        length cand <= length (wire_of_labels (skipn k ls)) /\
        raw_names_eq_ignore_case (wire_of_labels (skipn k ls)) cand 0 = true)) /\
    length enc <= length (wire_of_labels ls) /\ sd_wf d' /\
    forall o c, In (o, c) (sd_entries d') -> In (o, c) (sd_entries d) \/
      exists j, j < k /\ c = wire_of_labels (skipn j ls) /\ o = base + length (labels_flat (firstn j ls)) /\ (N.of_nat o < 16384)%N.
Proof. intros. reflexivity. Qed.

Theorem C06_dictionary_comparison : forall a b, Forall lab a -> Forall lab b ->
  raw_names_eq_ignore_case (wire_of_labels a) (wire_of_labels b) 0 = true -> ci_labels a b.
Proof. exact raw_names_eq_labels. Qed.
Print Assumptions C06_dictionary_comparison.

Theorem C06_succeeds_and_never_grows : forall p v, bytes_ok p -> parse p = Ok v -> uncompress p = Ok p ->
  exists out, compress p = Ok out /\ length out <= length p.
Proof. exact compress_never_grows. Qed.
Print Assumptions C06_succeeds_and_never_grows.

(** Non-vacuity of its hypotheses: a pointer-free response "a A?" with answers "a A 1.2.3.4" and "b.a NS a" is accepted,
    is a fixed point of decompression, and compresses from 54 to 51 bytes. *)
Example C06_hypotheses_met :
  let p := [0;1; 129;128; 0;1; 0;2; 0;0; 0;0;  1;97;0; 0;1; 0;1;
            1;97;0; 0;1; 0;1; 0;0;0;9; 0;4; 1;2;3;4;
            1;98;1;97;0; 0;2; 0;1; 0;0;0;9; 0;3; 1;97;0]%N in
  bytes_ok p /\ (exists v, parse p = Ok v) /\ uncompress p = Ok p /\
  exists out, compress p = Ok out /\ length p = 54 /\ length out = 51.
Proof.
  cbv zeta. split; [unfold bytes_ok; repeat constructor|]. split; [eexists; vm_compute; reflexivity|].
  split; [vm_compute; reflexivity|]. eexists. split; [vm_compute; reflexivity|]. split; reflexivity.
Qed.

(** Non-vacuity: "www.example" after "example" was written at output offset 12 becomes "www" + pointer to 12. *)
Example C06_sample :
  let d := {| sd_index := 1; sd_entries := [(12, wire_of_labels [[101;120;97;109;112;108;101]%N])] |} in
  sd_wf d /\
  copy_compressed_name d (repeat 0%N 40) (wire_of_labels [[119;119;119];[101;120;97;109;112;108;101]]%N) 0 =
    Ok (repeat 0%N 40 ++ [3;119;119;119;192;12]%N, {| sd_index := 2; sd_entries := [(12, wire_of_labels [[101;120;97;109;112;108;101]%N]);
        (40, wire_of_labels [[119;119;119];[101;120;97;109;112;108;101]]%N)] |}, 6, 13).
Proof. split; [unfold sd_wf; cbn; lia|vm_compute; reflexivity]. Qed.
