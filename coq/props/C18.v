(** C18 - Validation work is linear in the packet size.

    [parse_steps p] is the number of elementary steps [parse] spends on [p]: one per iteration
    of the two name-walking loops, one per EDNS option visited, one per question / record
    visited.  (The correspondence check requires this number to *equal* the implementation's
    [cfg(dnssector_verif)] step counter on every accepted case.) *)
From DV Require Import Model.Base Model.NameCheck Model.Parser
  Proofs.Hoare Proofs.NameCheckTotal Proofs.ParserCost.

Theorem C18_parse_linear : forall p : bytes, bytes_ok p ->
  parse_steps p <= 75 * length p + 817.
Proof. exact parse_linear. Qed.
Print Assumptions C18_parse_linear.

Theorem C18_name_walk_bounded : forall (p : bytes) (off : nat),
  cn_cost p off <= 272 /\ un_cost p off <= 256.
Proof. intros p off. split; [apply cn_cost_bound | apply un_cost_bound]. Qed.
Print Assumptions C18_name_walk_bounded.

(** Non-vacuity: the counter is not constantly zero. *)
Example C18_sample_steps :
  parse_steps [18;52; 1;0; 0;1; 0;0; 0;0; 0;0; 7;101;120;97;109;112;108;101; 3;99;111;109; 0; 0;1; 0;1]%N = 4.
Proof. vm_compute. reflexivity. Qed.
