(** C12 - Header setters touch only their own bits; getters return what was set.

    Word level: for every 16-bit word [w] and every argument (any [N], so the ignored upper half
    of the 32-bit flags argument is covered).  Byte level (rcode / opcode live in one header byte
    and take a [u8]): for all 256 x 256 combinations.  Packet level: a setter changes only the
    two (one) header bytes it addresses, and the getter reads the stored value back. *)
From DV Require Import Model.Base Model.Parser Model.Header Proofs.Hoare Proofs.HeaderBits.
Local Open Scope N_scope.

Theorem C12_set_flags_bits : forall w f i, w < 65536 ->
  N.testbit (w_set_flags w f) i = if is_flag_bit i then N.testbit f i else N.testbit w i.
Proof. exact set_flags_bits. Qed.
Print Assumptions C12_set_flags_bits.

Theorem C12_set_flags_ignores_upper_half : forall w f, w_set_flags w f = w_set_flags w (f mod 65536).
Proof. exact set_flags_ignores_upper_half. Qed.
Print Assumptions C12_set_flags_ignores_upper_half.

Theorem C12_set_flags_keeps_opcode_rcode : forall w f,
  N.land (w_set_flags w f) 30735 = N.land w 30735.
Proof. exact set_flags_keeps_opcode_rcode. Qed.
Print Assumptions C12_set_flags_keeps_opcode_rcode.

Theorem C12_flags_after_set_flags : forall p f p' x, pk_set_flags p f = Ok p' ->
  pk_flags p' x = Ok (N.lor (N.shiftl (match x with Some v => v | None => 0 end) 16) (N.land f 34800)).
Proof. exact flags_after_set_flags_packet. Qed.
Print Assumptions C12_flags_after_set_flags.

Theorem C12_set_response_bits : forall w r i, w < 65536 ->
  N.testbit (w_set_response w r) i = if i =? 15 then r else N.testbit w i.
Proof. exact set_response_bits. Qed.
Print Assumptions C12_set_response_bits.

Theorem C12_set_rcode_spec : forall b r, b < 256 -> r < 256 ->
  b_rcode (b_set_rcode b r) = r mod 16 /\ N.land (b_set_rcode b r) 240 = N.land b 240 /\ b_set_rcode b r < 256.
Proof. exact set_rcode_spec. Qed.
Print Assumptions C12_set_rcode_spec.

Theorem C12_set_opcode_spec : forall b o, b < 256 -> o < 256 ->
  b_opcode (b_set_opcode b o) = o mod 16 /\ N.land (b_set_opcode b o) 135 = N.land b 135 /\ b_set_opcode b o < 256.
Proof. exact set_opcode_spec. Qed.
Print Assumptions C12_set_opcode_spec.

Theorem C12_tid_after_set_tid : forall p t p', pk_set_tid p t = Ok p' -> pk_tid p' = Ok (t mod 65536).
Proof. exact tid_after_set_tid. Qed.
Print Assumptions C12_tid_after_set_tid.

Theorem C12_frames : forall p a p',
  (pk_set_flags p a = Ok p' -> only_bytes_changed p p' 2 4) /\
  (pk_set_rcode p a = Ok p' -> only_bytes_changed p p' 3 4) /\
  (pk_set_opcode p a = Ok p' -> only_bytes_changed p p' 2 3) /\
  (pk_set_tid p a = Ok p' -> only_bytes_changed p p' 0 2) /\
  (forall r, pk_set_response p r = Ok p' -> only_bytes_changed p p' 2 4).
Proof.
  intros p a p'. repeat split; intros;
    eauto using set_flags_frame, set_rcode_frame, set_opcode_frame, set_tid_frame, set_response_frame;
    try (eapply set_flags_frame; eassumption); try (eapply set_rcode_frame; eassumption);
    try (eapply set_opcode_frame; eassumption); try (eapply set_tid_frame; eassumption);
    try (eapply set_response_frame; eassumption).
Qed.
Print Assumptions C12_frames.

Theorem C12_setters_total : forall p a, (12 <= length p)%nat ->
  nopanic (pk_set_flags p a) /\ nopanic (pk_set_tid p a) /\ nopanic (pk_set_rcode p a) /\
  nopanic (pk_set_opcode p a) /\ nopanic (pk_set_response p true) /\ nopanic (pk_set_response p false).
Proof. exact setters_total. Qed.
Print Assumptions C12_setters_total.

(** Non-vacuity / the defect this property found on the pinned tree: on the word 0xffff,
    [set_flags 0] must clear all eight flag bits and keep opcode and rcode: 0x780f. *)
Example C12_set_flags_clears : w_set_flags 65535 0 = 30735.
Proof. vm_compute. reflexivity. Qed.
