(** C16 - C error descriptions are private to the calling thread.

    Model: one slot per thread ([thread_local!]); a failing table call stores its message in the
    caller's slot, [error_description] reads the caller's slot.  Theorem: for EVERY interleaving of
    (fail, read) steps of any number of threads, each read returns the message of the reading thread's
    most recent failure (or the initial empty description) - steps of other threads are irrelevant.
    That [CERR] really is thread-local in the source is checked on the regenerated inventory
    (Check/AmbientCheck.v, [cerr_is_thread_local]); that the real threads behave like the model is
    checked by barrier-scripted schedules.  Rust's implementation of [thread_local!] is trusted. *)
From DV Require Import Model.Base Model.ErrSlot Proofs.ErrSlotPrivate.

Theorem C16_thread_private : forall ops : list cop,
  run_sched slots_init ops = reads_with_history [] ops.
Proof. exact thread_private. Qed.
Print Assumptions C16_thread_private.

Theorem C16_other_threads_irrelevant : forall (ops : list cop) (t : nat),
  last_fail t (filter (fun o => match o with CFail u _ => Nat.eqb u t | CRead u => Nat.eqb u t end) ops)
  = last_fail t ops.
Proof. exact other_threads_irrelevant. Qed.
Print Assumptions C16_other_threads_irrelevant.

Example C16_sample :
  run_sched slots_init [CFail 0 1; CFail 1 2; CRead 0; CFail 1 3; CRead 0; CRead 1]%N
  = [(0, Some 1%N); (0, Some 1%N); (1, Some 3%N)].
Proof. vm_compute. reflexivity. Qed.
