(** C13 - Record text synthesises to the right wire record; bad text is an error.

    Proved: synthesis is total - no string whatsoever makes [RR::from_string] panic in the model (every
    partial operation of the grammar - the hex digest decoding, the checked decimal folds, the escape
    decoding - returns a parse error instead); anything it does return is a well-formed record
    (C13_result_well_formed): an owner name encoded label by label from well-formed text labels within
    253 bytes, type, class IN, TTL, a data length equal to the length of the data that follows, the
    data; and the data each builder writes is characterised - names label by label for NS / CNAME /
    PTR / MX / SOA (C13_name_rr, C13_mx, C13_soa), TXT as character-strings that concatenate to the
    text, every one but the last of exactly 255 bytes and none empty (C13_txt).
    Not covered by a theorem: that the grammar accepts exactly the supported texts and hands the
    right fields to the builders (decided each run by the correspondence and an independent
    encoder, see DESIGN.md). *)
From DV Require Import Model.Base Model.Parser Model.Header Model.Readers Model.Uncompress Model.Mutate
  Model.Gen Model.Text Spec.NameSpec Proofs.Hoare Proofs.SynthTotal Proofs.NameText Proofs.SynthShape.

Theorem C13_synth_total : forall s : bytes, nopanic (rr_from_string s).
Proof. exact synth_total. Qed.
Print Assumptions C13_synth_total.

Theorem C13_synth_result_cases : forall s : bytes,
  (exists rr, rr_from_string s = Ok rr) \/ (exists e, rr_from_string s = Err e).
Proof. intros s. apply nopanic_cases, synth_total. Qed.
Print Assumptions C13_synth_result_cases.

Theorem C13_result_well_formed : forall s rr, rr_from_string s = Ok rr -> rr_shape rr.
Proof. exact synth_result_shape. Qed.
Print Assumptions C13_result_well_formed.

Theorem C13_txt : forall n ttl txt rr, build_txt n ttl txt = Ok rr ->
  exists cs, concat cs = txt /\ txt_chunks cs /\ rr_shape_with rr TYPE_TXT (strings_wire cs).
Proof. exact build_txt_shape. Qed.
Print Assumptions C13_txt.

Theorem C13_name_rr : forall t n ttl tg rr, build_name_rr t n ttl tg = Ok rr ->
  exists ls, Forall tlabel_ok ls /\ rr_shape_with rr t (wire_of_labels ls).
Proof. exact build_name_rr_shape. Qed.
Print Assumptions C13_name_rr.

Theorem C13_mx : forall n ttl pref h rr, build_mx n ttl pref h = Ok rr ->
  exists ls, Forall tlabel_ok ls /\ rr_shape_with rr TYPE_MX (be16_bytes pref ++ wire_of_labels ls).
Proof. exact build_mx_shape. Qed.
Print Assumptions C13_mx.

Theorem C13_soa : forall n ttl a b ts refresh retry auth neg rr,
  build_soa n ttl a b ts refresh retry auth neg = Ok rr ->
  exists ls1 ls2, Forall tlabel_ok ls1 /\ Forall tlabel_ok ls2 /\
    rr_shape_with rr TYPE_SOA (wire_of_labels ls1 ++ wire_of_labels ls2 ++ be32_bytes ts ++ be32_bytes refresh ++
                               be32_bytes retry ++ be32_bytes auth ++ be32_bytes neg).
Proof. exact build_soa_shape. Qed.
Print Assumptions C13_soa.

(** Non-vacuity: "a.b 60 IN A 1.2.3.4" and an odd-length digest. *)
Example C13_sample_a :
  rr_from_string [97;46;98;32;54;48;32;73;78;32;65;32;49;46;50;46;51;46;52]%N
  = Ok [1;97;1;98;0; 0;1; 0;1; 0;0;0;60; 0;4; 1;2;3;4]%N.
Proof. vm_compute. reflexivity. Qed.
Example C13_sample_odd_hex :
  rr_from_string [97;32;49;32;73;78;32;68;83;32;49;32;50;32;51;32;97;98;99]%N = Err ParseError.
Proof. vm_compute. reflexivity. Qed.
