(** C13 - Record text synthesises to the right wire record; bad text is an error.

    Proved: synthesis is total - no string whatsoever makes [RR::from_string] panic in the model (every
    partial operation of the grammar - the hex digest decoding, the checked decimal folds, the escape
    decoding - returns a parse error instead); anything it does return is a well-formed record
    (C13_result_well_formed): an owner name encoded label by label from well-formed text labels within
    253 bytes, type, class IN, TTL, a data length equal to the length of the data that follows, the
    data; and the data each builder writes is characterised - names label by label for NS / CNAME /
    PTR / MX / SOA (C13_name_rr, C13_mx, C13_soa), TXT as character-strings that concatenate to the
    text, every one but the last of exactly 255 bytes and none empty (C13_txt).
    Not covered by a theorem: that the grammar accepts exactly the supported texts and hands the
    right fields to the builders (decided each run by the correspondence and an independent
    encoder, see DESIGN.md). *)
From DV Require Import Model.Base Model.Parser Model.Header Model.Readers Model.Uncompress Model.Mutate
  Model.Gen Model.Text Spec.NameSpec Proofs.Hoare Proofs.SynthTotal Proofs.NameText Proofs.SynthShape Model.NameCheck Spec.PacketSpec Spec.RecordSpec Spec.PlainSpec Proofs.ReadersLabels Proofs.InsertSpec Proofs.BuiltRecord.

Theorem C13_synth_total : forall s : bytes, nopanic (rr_from_string s).
Proof. exact synth_total. Qed.
Print Assumptions C13_synth_total.

Theorem C13_synth_result_cases : forall s : bytes,
  (exists rr, rr_from_string s = Ok rr) \/ (exists e, rr_from_string s = Err e).
Proof. intros s. apply nopanic_cases, synth_total. Qed.
Print Assumptions C13_synth_result_cases.

Theorem C13_result_well_formed : forall s rr, rr_from_string s = Ok rr -> rr_shape rr.
Proof. exact synth_result_shape. Qed.
Print Assumptions C13_result_well_formed.

Theorem C13_txt : forall n ttl txt rr, build_txt n ttl txt = Ok rr ->
  exists cs, concat cs = txt /\ txt_chunks cs /\ rr_shape_with rr TYPE_TXT (strings_wire cs).
Proof. exact build_txt_shape. Qed.
Print Assumptions C13_txt.

Theorem C13_name_rr : forall t n ttl tg rr, build_name_rr t n ttl tg = Ok rr ->
  exists ls, Forall tlabel_ok ls /\ rr_shape_with rr t (wire_of_labels ls).
Proof. exact build_name_rr_shape. Qed.
Print Assumptions C13_name_rr.

Theorem C13_mx : forall n ttl pref h rr, build_mx n ttl pref h = Ok rr ->
  exists ls, Forall tlabel_ok ls /\ rr_shape_with rr TYPE_MX (be16_bytes pref ++ wire_of_labels ls).
Proof. exact build_mx_shape. Qed.
Print Assumptions C13_mx.

Theorem C13_soa : forall n ttl a b ts refresh retry auth neg rr,
  build_soa n ttl a b ts refresh retry auth neg = Ok rr ->
  exists ls1 ls2, Forall tlabel_ok ls1 /\ Forall tlabel_ok ls2 /\
    rr_shape_with rr TYPE_SOA (wire_of_labels ls1 ++ wire_of_labels ls2 ++ be32_bytes ts ++ be32_bytes refresh ++
                               be32_bytes retry ++ be32_bytes auth ++ be32_bytes neg).
Proof. exact build_soa_shape. Qed.
Print Assumptions C13_soa.

(** Non-vacuity: "a.b 60 IN A 1.2.3.4" and an odd-length digest. *)
Example C13_sample_a :
  rr_from_string [97;46;98;32;54;48;32;73;78;32;65;32;49;46;50;46;51;46;52]%N
  = Ok [1;97;1;98;0; 0;1; 0;1; 0;0;0;60; 0;4; 1;2;3;4]%N.
Proof. vm_compute. reflexivity. Qed.
Example C13_sample_odd_hex :
  rr_from_string [97;32;49;32;73;78;32;68;83;32;49;32;50;32;51;32;97;98;99]%N = Err ParseError.
Proof. vm_compute. reflexivity. Qed.

(** the insertion clause ("inserting it into the answer, authority or additional section of a valid packet leaves a packet the parser
    accepts"), for the records whose data holds no names - A with 4 bytes, AAAA with 16, TXT, DS, any type other than NS / CNAME / PTR /
    MX / SOA / DNAME / OPT (Proofs/BuiltRecord.v): what RR::new returns for an accepted owner text is the pointer-free encoding of a
    record that is well-formed in every context - owner labels = the labels of the text, each a label of the parser's policy (true
    since the repair a97c4c2), the type, class and TTL given, data length = length of the data - i.e. a record the insertion theorems
    of C09 take ([plain_rr_ok]); and for every accepted packet a successful insert_rr of it leaves accepted bytes with the view of
    their parse.  The name-bearing types (NS, CNAME, PTR, MX, SOA) are decided by the correspondence + independent encoder. *)
Theorem C13_built_record_is_insertable : forall name ttl cls t rd rr,
  rr_new name ttl cls t rd = Ok rr -> bytes_ok rd -> (t < 65536)%N -> (cls < 65536)%N -> (ttl < 4294967296)%N -> raw_type t ->
  (t = TYPE_A -> length rd = 4) -> (t = TYPE_AAAA -> length rd = 16) ->
  exists ls, Forall label_ok ls /\ (name = dotted ls \/ name = dots ls \/ (name = [46%N] /\ ls = [])) /\
    rr = plain_record (raw_rec ls t cls ttl rd) /\ plain_rr_ok (raw_rec ls t cls ttl rd).
Proof. exact rr_new_is_plain_record. Qed.
Print Assumptions C13_built_record_is_insertable.

Theorem C13_built_record_inserts : forall name ttl t rd rr p v it sec s',
  rr_new name ttl CLASS_IN t rd = Ok rr -> bytes_ok rd -> (t < 65536)%N -> (ttl < 4294967296)%N -> raw_type t ->
  (t = TYPE_A -> length rd = 4) -> (t = TYPE_AAAA -> length rd = 16) ->
  bytes_ok p -> parse p = Ok v -> sec = SAnswer \/ sec = SNameServers \/ sec = SAdditional ->
  (sec <> SAdditional -> exists w, u16_at p 2 w /\ N.land w 32768 = 32768%N) ->
  m_insert_rr sec rr (v, it) = (s', Ok tt) ->
  exists f, bytes_ok (pp_packet (fst s')) /\ wf_packet (pp_packet (fst s')) /\ parse (pp_packet (fst s')) = Ok f /\
    pp_offset_question (fst s') = pp_offset_question f /\ pp_offset_answers (fst s') = pp_offset_answers f /\
    pp_offset_nameservers (fst s') = pp_offset_nameservers f /\ pp_offset_additional (fst s') = pp_offset_additional f /\
    pp_offset_edns (fst s') = pp_offset_edns f /\ pp_edns_count (fst s') = pp_edns_count f /\
    pp_maybe_compressed (fst s') = false /\ pp_cached (fst s') = None.
Proof. exact built_record_inserts. Qed.
Print Assumptions C13_built_record_inserts.

Example C13_raw_types : raw_type TYPE_A /\ raw_type TYPE_AAAA /\ raw_type TYPE_TXT /\ raw_type TYPE_DS /\ ~ raw_type TYPE_NS /\ ~ raw_type TYPE_MX.
Proof.
  unfold raw_type. repeat split; try (vm_compute; congruence); try reflexivity.
  - intros (H & _). vm_compute in H. discriminate.
  - intros (_ & H & _). apply H. reflexivity.
Qed.

Example C13_raw_rec_means : forall ls t c ttl b,
  plain_record (raw_rec ls t c ttl b) = wire_of_labels ls ++ be16_bytes t ++ be16_bytes c ++ be32_bytes ttl ++ be16_bytes (N.of_nat (length b)) ++ b.
Proof. reflexivity. Qed.

(** such an insertion runs: an A record built from text and data, inserted into a small response *)
Example C13_built_record_insert_runs :
  match rr_new [119; 46; 97]%N 60 CLASS_IN TYPE_A [10; 0; 0; 1]%N,
        parse [0;7; 129;128; 0;1; 0;0; 0;0; 0;0;  1;97;0; 0;1; 0;1]%N with
  | Ok rr, Ok v => let '(s, r) := m_insert_rr SAnswer rr (v, it_new SAnswer) in (pp_packet (fst s), r)
  | _, _ => ([], Err InvalidPacket)
  end = ([0;7; 129;128; 0;1; 0;1; 0;0; 0;0;  1;97;0; 0;1; 0;1;  1;119;1;97;0; 0;1; 0;1; 0;0;0;60; 0;4; 10;0;0;1]%N, Ok tt).
Proof. vm_compute. reflexivity. Qed.

(** the same for the records whose data is one name - NS, CNAME, PTR, built by the grammar's name-record builder: owner and target
    texts are converted alike, the result is the pointer-free encoding of a record well-formed in every context whose owner labels
    and data labels are the labels of the two texts; C09_insert_effect / C08_insert_view then give the insertion clause for it *)
Theorem C13_built_name_record_is_insertable : forall t name ttl target rr,
  build_name_rr t name ttl target = Ok rr -> is_name_type t = true -> (ttl < 4294967296)%N ->
  exists ls ls2, Forall label_ok ls /\ Forall label_ok ls2 /\
    (name = dotted ls \/ name = dots ls \/ (name = [46%N] /\ ls = [])) /\
    (target = dotted ls2 \/ target = dots ls2 \/ (target = [46%N] /\ ls2 = [])) /\
    rr = plain_record (name_rec ls t CLASS_IN ttl ls2) /\ plain_rr_ok (name_rec ls t CLASS_IN ttl ls2).
Proof. exact build_name_rr_is_plain_record. Qed.
Print Assumptions C13_built_name_record_is_insertable.

Example C13_name_rec_means : forall ls t c ttl ls2,
  plain_record (name_rec ls t c ttl ls2) =
  wire_of_labels ls ++ be16_bytes t ++ be16_bytes c ++ be32_bytes ttl ++ be16_bytes (N.of_nat (length (wire_of_labels ls2))) ++ wire_of_labels ls2.
Proof. reflexivity. Qed.

(** ... and for the remaining builders of the grammar - MX (preference + one name), SOA (two names + twenty bytes), TXT (the text in
    character-strings) and DS: each returns the pointer-free encoding of a record well-formed in every context, with the labels of
    the texts handed in.  Together with C13_built_record_is_insertable (A, AAAA) and C13_built_name_record_is_insertable (NS, CNAME,
    PTR) this covers all nine record types of the grammar: whatever a builder returns is a record C09_insert_effect /
    C08_insert_view take, so inserting it into the answer, authority or additional section of an accepted packet, when insert_rr
    succeeds, leaves accepted bytes reading as the old message plus that record, with the view of their parse. *)
Theorem C13_built_mx_record_is_insertable : forall name ttl pref mxhost rr,
  build_mx name ttl pref mxhost = Ok rr -> (ttl < 4294967296)%N ->
  exists ls ls2, Forall label_ok ls /\ Forall label_ok ls2 /\
    (name = dotted ls \/ name = dots ls \/ (name = [46%N] /\ ls = [])) /\
    (mxhost = dotted ls2 \/ mxhost = dots ls2 \/ (mxhost = [46%N] /\ ls2 = [])) /\
    rr = plain_record (mx_rec ls CLASS_IN ttl pref ls2) /\ plain_rr_ok (mx_rec ls CLASS_IN ttl pref ls2).
Proof. exact build_mx_is_plain_record. Qed.
Print Assumptions C13_built_mx_record_is_insertable.

Theorem C13_built_soa_record_is_insertable : forall name ttl primary_ns contact ts refresh retry auth neg rr,
  build_soa name ttl primary_ns contact ts refresh retry auth neg = Ok rr -> (ttl < 4294967296)%N ->
  exists ls ls1 ls2, Forall label_ok ls /\ Forall label_ok ls1 /\ Forall label_ok ls2 /\
    (name = dotted ls \/ name = dots ls \/ (name = [46%N] /\ ls = [])) /\
    (primary_ns = dotted ls1 \/ primary_ns = dots ls1 \/ (primary_ns = [46%N] /\ ls1 = [])) /\
    (contact = dotted ls2 \/ contact = dots ls2 \/ (contact = [46%N] /\ ls2 = [])) /\
    let tail := be32_bytes ts ++ be32_bytes refresh ++ be32_bytes retry ++ be32_bytes auth ++ be32_bytes neg in
    rr = plain_record (soa_rec ls CLASS_IN ttl ls1 ls2 tail) /\ plain_rr_ok (soa_rec ls CLASS_IN ttl ls1 ls2 tail).
Proof. exact build_soa_is_plain_record. Qed.
Print Assumptions C13_built_soa_record_is_insertable.

Theorem C13_built_txt_record_is_insertable : forall name ttl txt rr,
  build_txt name ttl txt = Ok rr -> bytes_ok txt -> (ttl < 4294967296)%N ->
  exists ls, Forall label_ok ls /\ (name = dotted ls \/ name = dots ls \/ (name = [46%N] /\ ls = [])) /\
    let rd := chunks255 (length txt + 1) txt in
    rr = plain_record (raw_rec ls TYPE_TXT CLASS_IN ttl rd) /\ plain_rr_ok (raw_rec ls TYPE_TXT CLASS_IN ttl rd).
Proof. exact build_txt_is_plain_record. Qed.
Print Assumptions C13_built_txt_record_is_insertable.

Theorem C13_built_ds_record_is_insertable : forall name ttl key_tag alg dtype digest rr,
  build_ds name ttl key_tag alg dtype digest = Ok rr -> bytes_ok digest -> (alg < 256)%N -> (dtype < 256)%N -> (ttl < 4294967296)%N ->
  exists ls, Forall label_ok ls /\ (name = dotted ls \/ name = dots ls \/ (name = [46%N] /\ ls = [])) /\
    let rd := be16_bytes key_tag ++ [alg; dtype] ++ digest in
    rr = plain_record (raw_rec ls TYPE_DS CLASS_IN ttl rd) /\ plain_rr_ok (raw_rec ls TYPE_DS CLASS_IN ttl rd).
Proof. exact build_ds_is_plain_record. Qed.
Print Assumptions C13_built_ds_record_is_insertable.

Example C13_mx_soa_rec_mean :
  (forall ls c ttl pref ls2, plain_record (mx_rec ls c ttl pref ls2) =
     wire_of_labels ls ++ be16_bytes TYPE_MX ++ be16_bytes c ++ be32_bytes ttl ++
     be16_bytes (N.of_nat (length (be16_bytes pref ++ wire_of_labels ls2))) ++ be16_bytes pref ++ wire_of_labels ls2) /\
  (forall ls c ttl ls1 ls2 tail, plain_record (soa_rec ls c ttl ls1 ls2 tail) =
     wire_of_labels ls ++ be16_bytes TYPE_SOA ++ be16_bytes c ++ be32_bytes ttl ++
     be16_bytes (N.of_nat (length (wire_of_labels ls1 ++ wire_of_labels ls2 ++ tail))) ++ wire_of_labels ls1 ++ wire_of_labels ls2 ++ tail).
Proof. split; reflexivity. Qed.

(** a built SOA record inserted into the authority section of a small response *)
Example C13_built_soa_insert_runs :
  match build_soa [97]%N 9 [110; 46; 97]%N [104; 46; 97]%N 1 2 3 4 5,
        parse [0;7; 129;128; 0;1; 0;0; 0;0; 0;0;  1;97;0; 0;1; 0;1]%N with
  | Ok rr, Ok v => let '(s, r) := m_insert_rr SNameServers rr (v, it_new SAnswer) in
                   (match parse (pp_packet (fst s)) with Ok f => pp_offset_nameservers f | _ => None end, pp_offset_nameservers (fst s), r)
  | _, _ => (None, None, Err InvalidPacket)
  end = (Some 19, Some 19, Ok tt).
Proof. vm_compute. reflexivity. Qed.
