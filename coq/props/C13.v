(** C13 - Record text synthesises to the right wire record; bad text is an error.

    Proved: synthesis is total - no string whatsoever makes [RR::from_string] panic in the model (every
    partial operation of the grammar - the hex digest decoding, the checked decimal folds, the escape
    decoding - returns a parse error instead), and the name encodings the builders append are at most
    253 bytes.  Completeness (grammar text => RFC 1035 wire form) and rejection of the excluded texts are
    decided each run by the correspondence and an independent encoder (see DESIGN.md). *)
From DV Require Import Model.Base Model.Parser Model.Header Model.Readers Model.Uncompress Model.Mutate
  Model.Gen Model.Text Proofs.Hoare Proofs.SynthTotal.

Theorem C13_synth_total : forall s : bytes, nopanic (rr_from_string s).
Proof. exact synth_total. Qed.
Print Assumptions C13_synth_total.

Theorem C13_synth_result_cases : forall s : bytes,
  (exists rr, rr_from_string s = Ok rr) \/ (exists e, rr_from_string s = Err e).
Proof. intros s. apply nopanic_cases, synth_total. Qed.
Print Assumptions C13_synth_result_cases.

(** Non-vacuity: "a.b 60 IN A 1.2.3.4" and an odd-length digest. *)
Example C13_sample_a :
  rr_from_string [97;46;98;32;54;48;32;73;78;32;65;32;49;46;50;46;51;46;52]%N
  = Ok [1;97;1;98;0; 0;1; 0;1; 0;0;0;60; 0;4; 1;2;3;4]%N.
Proof. vm_compute. reflexivity. Qed.
Example C13_sample_odd_hex :
  rr_from_string [97;32;49;32;73;78;32;68;83;32;49;32;50;32;51;32;97;98;99]%N = Err ParseError.
Proof. vm_compute. reflexivity. Qed.
