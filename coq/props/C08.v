(** C08 - A mutated packet object always matches a fresh parse of its own bytes.

    PARTIAL.  Full statement (kept visible; decided on every run by the correspondence of the
    executable mutation model with the implementation plus a fresh-parse oracle after every step of
    every generated history): for every history [ops] of successful operations from a parsed or
    synthesised object, [parse (pp_packet v') = Ok f] and the view of [v'] equals the view of [f],
    the cached question is the question of the bytes, and [pp_maybe_compressed v' = false] implies
    the bytes are pointer-free - outside the three known-finding classes of DESIGN.md section 7.

    Proved here: (i) the statement for the two operations that re-derive the whole view, on every freshly parsed
    object: [recompute] and the decompress-first prologue of [insert_rr] never reach the consistency assertion
    (Panic 601 / 631 of the model; `assert_eq!` in parsed_packet.rs) and leave exactly the parse of the pointer-free
    bytes, marked as not compressed, cache empty (C08_recompute_is_fresh_parse, C08_insert_prologue_is_fresh_parse);
    this rests on C08_decompression_keeps_edns_summary: the pointer-free packet is parsed to the same EDNS summary;
    (ii) from ANY state: when [recompute] (on an object marked as possibly compressed) or the rename wrapper
    succeeds, the object holds exactly the bytes that were parsed and its section offsets, EDNS offset, option count,
    extended rcode, version and flags are those of that parse, cache empty (C08_recompute_view, C08_rename_view; the
    payload size is carried over, it is not part of the implementation's assertion);
    (iii) [insert_rr] of a well-formed pointer-free non-OPT record into any record section of a freshly parsed
    object leaves a view equal to the fresh parse of the new bytes in every field (C08_insert_view; the full effect is
    C09_insert_effect);
    (iv) HISTORIES over a sub-language of operations (C08_histories): for every accepted response, any history that starts
    with an insertion or a recompute (either decompresses) and goes on with ANY sequence of successful insertions of
    well-formed pointer-free non-OPT records into any record section, recomputes, set_tid, set_rcode, set_opcode,
    set_response(true) and set_flags with the QR bit ends in a state [dinv]: the bytes are accepted, are a fixed point of
    decompression, the object says "not compressed", and every section offset, the EDNS offset, option count, extended
    rcode, version, flags and payload size are those of a fresh parse of the bytes.  Each operation preserves [dinv]
    on its own (C08_step_keeps_invariant).  The operations left out are those that move the cursor (TTL / address /
    name setters, deletion) and the two that may leave the parser's QR gating (set_response(false), set_flags without
    QR: known finding qr-gating); header setters on a still-compressed object are the known finding header-pointer;
    (v) shape/frame lemmas of the other operations. *)
From DV Require Import Model.Base Model.NameCheck Model.Parser Model.Header Model.Readers Model.Uncompress
  Model.Mutate Model.Compress Model.Renamer Spec.PacketSpec Spec.RecordSpec Spec.PlainSpec Proofs.Hoare Proofs.HeaderBits Proofs.InsertLemmas Proofs.EdnsPlain Proofs.WalkSkip
  Proofs.PlainWf Proofs.ViewAfter Proofs.InsertSpec Proofs.HeaderInv Proofs.CursorHist Proofs.DecompressFirst Proofs.FreshHist Proofs.DeleteInv Proofs.SetNameInv Proofs.WalkInv Proofs.RenameCursor Spec.NameSpec Proofs.RenameSpec Proofs.RenameContent Proofs.WalkFresh Proofs.RenameAny Proofs.RenameTotal Model.Gen Proofs.NameText Proofs.ReadersLabels Proofs.QueryFresh.

Theorem C08_decompression_keeps_edns_summary : forall p v q v',
  bytes_ok p -> parse p = Ok v -> uncompress p = Ok q -> parse q = Ok v' ->
  pp_edns_count v' = pp_edns_count v /\ pp_ext_rcode v' = pp_ext_rcode v /\ pp_edns_version v' = pp_edns_version v /\
  pp_ext_flags v' = pp_ext_flags v /\ pp_max_payload v' = pp_max_payload v.
Proof. exact summary_kept. Qed.
Print Assumptions C08_decompression_keeps_edns_summary.

Theorem C08_recompute_is_fresh_parse : forall p v it, bytes_ok p -> parse p = Ok v ->
  exists q v', uncompress p = Ok q /\ parse q = Ok v' /\ pp_packet v' = q /\
               m_recompute (v, it) = ((decompressed_view v', it), Ok tt).
Proof. exact recompute_fresh. Qed.
Print Assumptions C08_recompute_is_fresh_parse.

Theorem C08_insert_prologue_is_fresh_parse : forall p v it, bytes_ok p -> parse p = Ok v ->
  exists q v', uncompress p = Ok q /\ parse q = Ok v' /\ pp_packet v' = q /\
               insert_prologue (v, it) = ((decompressed_view v', it), Ok tt).
Proof. exact insert_prologue_fresh. Qed.
Print Assumptions C08_insert_prologue_is_fresh_parse.

(** [decompressed_view f] is [f] with the compression flag cleared and no cached question *)
Example C08_decompressed_view_is_the_parse : forall f,
  pp_packet (decompressed_view f) = pp_packet f /\ pp_offset_question (decompressed_view f) = pp_offset_question f /\
  pp_offset_answers (decompressed_view f) = pp_offset_answers f /\ pp_offset_nameservers (decompressed_view f) = pp_offset_nameservers f /\
  pp_offset_additional (decompressed_view f) = pp_offset_additional f /\ pp_offset_edns (decompressed_view f) = pp_offset_edns f /\
  pp_edns_count (decompressed_view f) = pp_edns_count f /\ pp_ext_rcode (decompressed_view f) = pp_ext_rcode f /\
  pp_edns_version (decompressed_view f) = pp_edns_version f /\ pp_ext_flags (decompressed_view f) = pp_ext_flags f /\
  pp_max_payload (decompressed_view f) = pp_max_payload f /\
  pp_maybe_compressed (decompressed_view f) = false /\ pp_cached (decompressed_view f) = None.
Proof. intros f. unfold decompressed_view, pp_update. cbn. repeat split. Qed.


Theorem C08_header_setters_keep_view : forall v v',
  (exists n, pp_set_tid v n = Ok v' \/ pp_set_flags v n = Ok v' \/ pp_set_rcode v n = Ok v' \/ pp_set_opcode v n = Ok v') \/
  (exists b, pp_set_response v b = Ok v') ->
  pp_offset_question v' = pp_offset_question v /\ pp_offset_answers v' = pp_offset_answers v /\
  pp_offset_nameservers v' = pp_offset_nameservers v /\ pp_offset_additional v' = pp_offset_additional v /\
  pp_offset_edns v' = pp_offset_edns v /\ pp_edns_count v' = pp_edns_count v /\
  pp_ext_flags v' = pp_ext_flags v /\ pp_maybe_compressed v' = pp_maybe_compressed v /\ pp_cached v' = pp_cached v /\
  length (pp_packet v') = length (pp_packet v).
Proof. exact header_setters_keep_view. Qed.
Print Assumptions C08_header_setters_keep_view.

Theorem C08_insert_shape : forall sec rr v it s',
  insert_core sec rr (v, it) = (s', Ok tt) ->
  exists p1 ins,
    rrcount_inc (pp_packet v) sec = Ok p1 /\ insertion_offset v sec = Ok ins /\ ins <= length p1 /\
    pp_packet (fst s') = firstn ins p1 ++ rr ++ skipn ins p1 /\
    (N.of_nat (length (pp_packet v) + length rr) <= 8192)%N /\ snd s' = it.
Proof. exact insert_core_ok. Qed.
Print Assumptions C08_insert_shape.

Theorem C08_recompute_view : forall v it s', pp_maybe_compressed v = true -> m_recompute (v, it) = (s', Ok tt) ->
  exists u f, uncompress (pp_packet v) = Ok u /\ parse u = Ok f /\ view_of_parse (fst s') f u /\
              pp_maybe_compressed (fst s') = false /\ snd s' = it.
Proof. exact recompute_view. Qed.
Print Assumptions C08_recompute_view.

Theorem C08_rename_view : forall target source sfx v it s', m_rename target source sfx (v, it) = (s', Ok tt) ->
  exists r f, renamer_rename v target source sfx = Ok r /\ parse r = Ok f /\ view_of_parse (fst s') f r /\
              pp_maybe_compressed (fst s') = true /\ snd s' = it.
Proof. exact rename_view. Qed.
Print Assumptions C08_rename_view.

Example C08_view_of_parse_means : forall w f b, view_of_parse w f b <->
  pp_packet w = b /\
  pp_offset_question w = pp_offset_question f /\ pp_offset_answers w = pp_offset_answers f /\
  pp_offset_nameservers w = pp_offset_nameservers f /\ pp_offset_additional w = pp_offset_additional f /\
  pp_offset_edns w = pp_offset_edns f /\ pp_edns_count w = pp_edns_count f /\ pp_ext_rcode w = pp_ext_rcode f /\
  pp_edns_version w = pp_edns_version f /\ pp_ext_flags w = pp_ext_flags f /\ pp_cached w = None.
Proof. intros. reflexivity. Qed.

Theorem C08_insert_view : forall p v it sec rx s',
  bytes_ok p -> parse p = Ok v -> plain_rr_ok rx -> sec = SAnswer \/ sec = SNameServers \/ sec = SAdditional ->
  (sec <> SAdditional -> exists w, u16_at p 2 w /\ N.land w 32768 = 32768%N) ->
  m_insert_rr sec (plain_record rx) (v, it) = (s', Ok tt) ->
  exists f, parse (pp_packet (fst s')) = Ok f /\
    pp_offset_question (fst s') = pp_offset_question f /\ pp_offset_answers (fst s') = pp_offset_answers f /\
    pp_offset_nameservers (fst s') = pp_offset_nameservers f /\ pp_offset_additional (fst s') = pp_offset_additional f /\
    pp_offset_edns (fst s') = pp_offset_edns f /\ pp_edns_count (fst s') = pp_edns_count f /\
    pp_ext_rcode (fst s') = pp_ext_rcode f /\ pp_edns_version (fst s') = pp_edns_version f /\
    pp_ext_flags (fst s') = pp_ext_flags f /\ pp_max_payload (fst s') = pp_max_payload f /\
    pp_maybe_compressed (fst s') = false /\ pp_cached (fst s') = None.
Proof. exact insert_fresh_view. Qed.
Print Assumptions C08_insert_view.

Theorem C08_step_keeps_invariant : forall o v it s1, dinv v -> is_response (pp_packet v) -> hop2_ok o ->
  run_hop2 o (v, it) = (s1, Ok tt) -> dinv (fst s1) /\ snd s1 = it /\ is_response (pp_packet (fst s1)).
Proof. exact hop2_keeps_dinv. Qed.
Print Assumptions C08_step_keeps_invariant.

Theorem C08_histories : forall p v it o ops s', bytes_ok p -> parse p = Ok v -> is_response p ->
  (o = H2Recompute \/ exists sec rx, o = H2Insert sec rx) -> Forall hop2_ok (o :: ops) ->
  run_hops2 (o :: ops) (v, it) = (s', Ok tt) -> dinv (fst s') /\ snd s' = it.
Proof. exact fresh_history2_dinv. Qed.
Print Assumptions C08_histories.

(** with failing steps tolerated (a failed insertion leaves the state as it was): every history runs to the end, without any
    Panic outcome of the model, and keeps the invariant *)
Theorem C08_histories_total : forall ops v it, dinv v -> is_response (pp_packet v) -> Forall hop2_ok ops ->
  exists s', run_hops2_tol ops (v, it) = (s', Ok tt) /\ dinv (fst s') /\ snd s' = it /\ is_response (pp_packet (fst s')).
Proof. exact hops2_tol_total. Qed.
Print Assumptions C08_histories_total.

(** histories that also delete non-OPT records and change their TTLs, addresses and owner names through a cursor put on the record with the iterator's own
    set_offset and recompute (Proofs/CursorHist.v): every operation applicable where it is applied ([ok_along]) *)
Theorem C08_histories_with_cursor : forall ops v it s', dinv v -> is_response (pp_packet v) -> it_section it <> SQuestion ->
  ok_along ops (v, it) -> run_hops3 ops (v, it) = (s', Ok tt) -> dinv (fst s') /\ snd s' = it /\ is_response (pp_packet (fst s')).
Proof. exact hops3_keep_dinv. Qed.
Print Assumptions C08_histories_with_cursor.

(** ... and every such history runs to the end: no step has a Panic outcome (no assertion, slice, subtraction or unwrap of the code
    fails), a step that reports an error (name refused, packet too large, wrong address family, record refused) changes nothing *)
Theorem C08_histories_with_cursor_total : forall ops v it, dinv v -> is_response (pp_packet v) -> it_section it <> SQuestion ->
  ok_along_tol ops (v, it) ->
  exists s', run_hops3_tol ops (v, it) = (s', Ok tt) /\ dinv (fst s') /\ snd s' = it /\ is_response (pp_packet (fst s')).
Proof. exact hops3_tol_total. Qed.
Print Assumptions C08_histories_with_cursor_total.

(** ... and from a freshly parsed response: the first insertion or recompute decompresses it, any history with cursor operations
    follows (kept invariant on success of every step; with failing steps tolerated it runs to the end) *)
Theorem C08_histories_from_parse_with_cursor : forall p v it o ops s1 s', bytes_ok p -> parse p = Ok v -> is_response p -> it_section it <> SQuestion ->
  (o = H2Recompute \/ exists sec rx, o = H2Insert sec rx) -> hop2_ok o ->
  run_hop2 o (v, it) = (s1, Ok tt) -> ok_along ops s1 -> run_hops3 ops s1 = (s', Ok tt) ->
  dinv (fst s') /\ snd s' = it /\ is_response (pp_packet (fst s')).
Proof. exact fresh_history3_dinv. Qed.
Print Assumptions C08_histories_from_parse_with_cursor.

Theorem C08_histories_from_parse_with_cursor_total : forall p v it o ops s1, bytes_ok p -> parse p = Ok v -> is_response p -> it_section it <> SQuestion ->
  (o = H2Recompute \/ exists sec rx, o = H2Insert sec rx) -> hop2_ok o ->
  run_hop2 o (v, it) = (s1, Ok tt) -> ok_along_tol ops s1 ->
  exists s', run_hops3_tol ops s1 = (s', Ok tt) /\ dinv (fst s') /\ snd s' = it /\ is_response (pp_packet (fst s')).
Proof. exact fresh_history3_total. Qed.
Print Assumptions C08_histories_from_parse_with_cursor_total.

(** the decompress-and-translate prologue of delete and set_raw_name on a packet as the parser returned it, cursor on any record:
    it succeeds, the object satisfies [dinv] (bytes = the decompression of the packet), the cursor stands on the record at the same
    position of the list of records, which is the same record (labels, type, class, TTL, data) *)
Theorem C08_cursor_decompress : forall p v it qls qt lxa lxn lxr l1 r x l2,
  bytes_ok p -> parse p = Ok v -> reading p qls qt lxa lxn lxr -> lxa ++ lxn ++ lxr = l1 ++ (r, x) :: l2 ->
  it_section it <> SQuestion ->
  exists dv lA' lN' lR' l1' r' l2',
    m_cursor_decompress (rv_off r) (v, it) =
      ((dv, it_set (it_set it (Some (rv_off r')) (it_offset_next it) (it_name_end it)) (Some (rv_off r')) (rv_name_end r' + 10 + rv_rdlen r') (rv_name_end r')), Ok tt) /\
    dinv dv /\ uncompress p = Ok (pp_packet dv) /\ (is_response p -> is_response (pp_packet dv)) /\
    reading (pp_packet dv) qls qt lA' lN' lR' /\ lA' ++ lN' ++ lR' = l1' ++ (r', x) :: l2' /\ length l1' = length l1 /\
    length lA' = length lxa /\ length lN' = length lxn /\ length lR' = length lxr /\
    Forall2 same_rec (lxa ++ lxn ++ lxr) (lA' ++ lN' ++ lR').
Proof. exact cursor_decompress_fresh. Qed.
Print Assumptions C08_cursor_decompress.

(** every history on a freshly parsed response whose first operation is one of the four that decompress (recompute, an insertion, a
    deletion or an owner-name change through a cursor), followed by any operations of the cursor histories *)
Theorem C08_histories_from_parse_any_first : forall p v it o ops s1 s', bytes_ok p -> parse p = Ok v -> is_response p -> it_section it <> SQuestion ->
  (o = H3Base H2Recompute \/ (exists sec rx, o = H3Base (H2Insert sec rx)) \/ (exists off, o = H3Delete off) \/ (exists off nm, o = H3SetName off nm)) ->
  hop3_ok_at v o -> run_hop3 o (v, it) = (s1, Ok tt) -> ok_along ops s1 -> run_hops3 ops s1 = (s', Ok tt) ->
  dinv (fst s') /\ snd s' = it /\ is_response (pp_packet (fst s')).
Proof. exact fresh_history3_any_first. Qed.
Print Assumptions C08_histories_from_parse_any_first.

Example C08_tolerant_cursor_run_means :
  (forall o ops s, run_hops3_tol (o :: ops) s =
     match run_hop3 o s with (s1, Ok _) => run_hops3_tol ops s1 | (s1, Err _) => run_hops3_tol ops s1 | (s1, Panic x) => (s1, Panic x) end) /\
  (forall o ops s, ok_along_tol (o :: ops) s =
     (hop3_ok_at (fst s) o /\ match run_hop3 o s with (s1, Ok _) => ok_along_tol ops s1 | (s1, Err _) => ok_along_tol ops s1 | _ => True end)).
Proof. split; reflexivity. Qed.

Example C08_cursor_history_vocabulary :
  (forall o, run_hop3 o = match o with
                          | H3Base o => run_hop2 o
                          | H3Delete off => with_cursor off m_delete
                          | H3SetTtl off t => with_cursor off (m_set_ttl t)
                          | H3SetName off nm => with_cursor off (m_set_raw_name nm)
                          | H3SetIp off ip => with_cursor off (m_set_ip ip)
                          end) /\
  (forall off m s, with_cursor off m s = let '(s1, r) := ((m_set_offset off ;;- m_recompute_rr) ;;- m) s in ((fst s1, snd s), r)) /\
  (forall v o, hop3_ok_at v o = match o with
                                | H3Base o => hop2_ok o
                                | H3Delete off => record_starts v off
                                | H3SetTtl off t => record_starts v off /\ (t < 4294967296)%N
                                | H3SetName off nm => record_starts v off /\ bytes_ok nm
                                | H3SetIp off ip => record_starts v off /\ bytes_ok ip
                                end) /\
  (forall v off, record_starts v off <->
     exists qls qt lA lN lR r x, reading (pp_packet v) qls qt lA lN lR /\ In (r, x) (lA ++ lN ++ lR) /\ is_opt r = false /\ rv_off r = off) /\
  (forall o ops s, ok_along (o :: ops) s = (hop3_ok_at (fst s) o /\ match run_hop3 o s with (s1, Ok _) => ok_along ops s1 | _ => True end)).
Proof. split; [intros []; reflexivity|]. split; [reflexivity|]. split; [intros v []; reflexivity|]. split; [reflexivity|reflexivity]. Qed.

(** such a history runs: decompress, delete the second answer, change the TTL of the first, delete it - the answer section ends absent *)
Definition c08_two_answers : bytes :=
  [0;7; 129;128; 0;1; 0;2; 0;0; 0;0;  1;97;0; 0;1; 0;1;  192;12; 0;1; 0;1; 0;0;0;9; 0;4; 1;2;3;4;  192;12; 0;1; 0;1; 0;0;0;9; 0;4; 5;6;7;8]%N.
Definition c08_cursor : rrit := {| it_section := SAnswer; it_offset := None; it_offset_next := 0; it_name_end := 0; it_rrs_left := 0 |}.
Example C08_cursor_history_runs :
  match parse c08_two_answers with
  | Ok v => let '(s, r) := run_hops3 [H3Base H2Recompute; H3Delete 36; H3SetTtl 19 77%N] (v, c08_cursor) in
            (pp_packet (fst s), pp_offset_answers (fst s), r)
  | _ => ([], None, Err InvalidPacket)
  end = ([0;7; 129;128; 0;1; 0;1; 0;0; 0;0;  1;97;0; 0;1; 0;1;  1;97;0; 0;1; 0;1; 0;0;0;77; 0;4; 1;2;3;4]%N, Some 19, Ok tt) /\
  match parse c08_two_answers with
  | Ok v => let '(s, r) := run_hops3 [H3Base H2Recompute; H3Delete 36; H3SetTtl 19 77%N; H3Delete 19] (v, c08_cursor) in
            (pp_packet (fst s), pp_offset_answers (fst s), r)
  | _ => ([], None, Err InvalidPacket)
  end = ([0;7; 129;128; 0;1; 0;0; 0;0; 0;0;  1;97;0; 0;1; 0;1]%N, None, Ok tt) /\
  (* rename the first answer to bc.d (three bytes longer; the name given may be followed by anything), delete the second, set a TTL *)
  match parse c08_two_answers with
  | Ok v => let '(s, r) := run_hops3 [H3Base H2Recompute; H3SetName 19 [2;98;99;1;100;0;9;9]%N; H3Delete 39; H3SetTtl 19 77%N] (v, c08_cursor) in
            (pp_packet (fst s), pp_offset_answers (fst s), r)
  | _ => ([], None, Err InvalidPacket)
  end = ([0;7; 129;128; 0;1; 0;1; 0;0; 0;0;  1;97;0; 0;1; 0;1;  2;98;99;1;100;0; 0;1; 0;1; 0;0;0;77; 0;4; 1;2;3;4]%N, Some 19, Ok tt).
Proof. split; [|split]; vm_compute; reflexivity. Qed.

Example C08_tolerant_run_means : forall o ops s, run_hops2_tol (o :: ops) s =
  match run_hop2 o s with (s1, Ok _) => run_hops2_tol ops s1 | (s1, Err _) => run_hops2_tol ops s1 | (s1, Panic x) => (s1, Panic x) end.
Proof. reflexivity. Qed.

(** the vocabulary of the two statements above *)
Example C08_history_vocabulary :
  (forall v, dinv v <->
     pp_maybe_compressed v = false /\ bytes_ok (pp_packet v) /\ uncompress (pp_packet v) = Ok (pp_packet v) /\
     exists f, parse (pp_packet v) = Ok f /\
       pp_packet v = pp_packet f /\
       pp_offset_question v = pp_offset_question f /\ pp_offset_answers v = pp_offset_answers f /\
       pp_offset_nameservers v = pp_offset_nameservers f /\ pp_offset_additional v = pp_offset_additional f /\
       pp_offset_edns v = pp_offset_edns f /\ pp_edns_count v = pp_edns_count f /\ pp_ext_rcode v = pp_ext_rcode f /\
       pp_edns_version v = pp_edns_version f /\ pp_ext_flags v = pp_ext_flags f /\ pp_max_payload v = pp_max_payload f) /\
  (forall p, is_response p <-> exists w, u16_at p 2 w /\ N.land w 32768 = 32768%N) /\
  (forall o, run_hop2 o = match o with
     | H2Insert sec rx => m_insert_rr sec (plain_record rx)
     | H2Recompute => m_recompute
     | H2Tid n => lift_v (fun v => pp_set_tid v n)
     | H2Rcode n => lift_v (fun v => pp_set_rcode v n)
     | H2Opcode n => lift_v (fun v => pp_set_opcode v n)
     | H2Response => lift_v (fun v => pp_set_response v true)
     | H2Flags n => lift_v (fun v => pp_set_flags v n)
     end) /\
  (forall o, hop2_ok o <-> match o with
     | H2Insert sec rx => plain_rr_ok rx /\ (sec = SAnswer \/ sec = SNameServers \/ sec = SAdditional)
     | H2Rcode n | H2Opcode n => (n < 256)%N
     | H2Flags n => N.land n 32768 = 32768%N
     | _ => True
     end) /\
  (forall f s, lift_v f s = match f (fst s) with Ok v' => ((v', snd s), Ok tt) | Err e => (s, Err e) | Panic x => (s, Panic x) end).
Proof.
  split.
  { intros v. split.
    - intros [A B C (f & D & E)]. split; [exact A|]. split; [exact B|]. split; [exact C|]. exists f. split; [exact D|exact E].
    - intros (A & B & C & f & D & E). constructor; [exact A|exact B|exact C|exists f; split; [exact D|exact E]]. }
  split; [intros p; reflexivity|]. split; [intros o; destruct o; reflexivity|]. split; [intros o; destruct o; reflexivity|].
  intros f s. reflexivity.
Qed.

(** Non-vacuity: on a small response, [insert A record; set_tid; set_rcode; recompute] runs to the end. *)
Example C08_history_runs :
  let p := [0;7; 129;128; 0;1; 0;1; 0;0; 0;0;  1;97;0; 0;1; 0;1;  192;12; 0;1; 0;1; 0;0;0;9; 0;4; 1;2;3;4]%N in
  exists v s', parse p = Ok v /\ is_response p /\
    run_hops2 [H2Recompute; H2Tid 4660; H2Rcode 3; H2Opcode 2; H2Response; H2Flags 33024; H2Recompute] (v, it_new SAnswer) = (s', Ok tt).
Proof.
  cbv zeta. eexists. eexists. split; [vm_compute; reflexivity|]. split; [exists 33152%N; split; [exists 129%N, 128%N; repeat split|reflexivity]|].
  vm_compute. reflexivity.
Qed.

(** the cursor after an owner-name change ("an iterator that changed a record's name still designates that record, and
    advancing it yields the record that followed"): on an object satisfying the invariant, after a successful owner-name
    change through a cursor on the (non-OPT) record [(r, x)] of section [sec], the object still satisfies the invariant, its
    section reads as the same records before, the renamed record (same type, class, TTL and data, new labels) at the same
    offset, and the same records after (each possibly at a shifted position - [unpl] forgets positions); the cursor is the
    cursor on the renamed record with the same count of records left *)
Theorem C08_cursor_after_rename : forall nm v sec l1 r x l2 n s' qls qt lA lN lR,
  dinv v -> bytes_ok nm -> reading (pp_packet v) qls qt lA lN lR -> sec = SAnswer \/ sec = SNameServers \/ sec = SAdditional ->
  sec_list sec lA lN lR = l1 ++ (r, x) :: l2 -> is_opt r = false ->
  m_set_raw_name nm (v, cur_on sec r n) = (s', Ok tt) ->
  exists lA' lN' lR' l1' r' l2' ls,
    dinv (fst s') /\ reading (pp_packet (fst s')) qls qt lA' lN' lR' /\ sec_list sec lA' lN' lR' = l1' ++ (r', x) :: l2' /\
    map unpl l1' = map unpl l1 /\ map unpl l2' = map unpl l2 /\ unpl (r', x) = unpl (with_labels (r, x) ls) /\ name_ok ls /\
    rv_off r' = rv_off r /\ snd s' = cur_on sec r' n.
Proof. exact rename_keeps_cursor. Qed.
Print Assumptions C08_cursor_after_rename.

(** ... and advancing that cursor (the [next] that does not skip OPT; the skipping one is characterised from it by
    C11_next_skips_opt) yields the cursor on the record that followed, or the end of the section *)
Theorem C08_next_after_rename : forall nm v sec l1 r x l2 s' qls qt lA lN lR,
  dinv v -> bytes_ok nm -> reading (pp_packet v) qls qt lA lN lR -> sec = SAnswer \/ sec = SNameServers \/ sec = SAdditional ->
  sec_list sec lA lN lR = l1 ++ (r, x) :: l2 -> is_opt r = false ->
  m_set_raw_name nm (v, cur_on sec r (length l2)) = (s', Ok tt) ->
  exists lA' lN' lR' l1' r' l2',
    reading (pp_packet (fst s')) qls qt lA' lN' lR' /\ sec_list sec lA' lN' lR' = l1' ++ (r', x) :: l2' /\
    map unpl l1' = map unpl l1 /\ map unpl l2' = map unpl l2 /\
    r_next_including_opt (fst s') (snd s') =
      Ok (match l2' with [] => None | rx2 :: l3 => Some (cur_on sec (fst rx2) (length l3)) end).
Proof. exact rename_then_next. Qed.
Print Assumptions C08_next_after_rename.

(** the whole-packet rename on a packet as the parser returned it: when it succeeds, the object is exactly what the parser
    returns for the new bytes - every offset, the whole EDNS summary with the advertised payload size (the OPT record is
    carried over), the may-be-compressed flag set, the cached question dropped.  The new object is therefore again one of
    those every theorem about parsed packets starts from (C11_parsed_packets_are_such_objects, the C08_histories_from_parse theorems). *)
Theorem C08_rename_is_fresh_parse : forall p v it sl tl sfx s', bytes_ok p -> parse p = Ok v ->
  Forall lab sl -> Forall lab tl -> sl <> [] -> tl <> [] -> bytes_ok (wire_of_labels tl) ->
  length (wire_of_labels sl) <= 255 -> length (wire_of_labels tl) <= 255 ->
  m_rename (wire_of_labels tl) (wire_of_labels sl) sfx (v, it) = (s', Ok tt) ->
  bytes_ok (pp_packet (fst s')) /\ parse (pp_packet (fst s')) = Ok (fst s').
Proof. exact rename_fresh_is_parsed. Qed.
Print Assumptions C08_rename_is_fresh_parse.

(** histories that mix whole-packet renames with every operation of the cursor histories, from any parsed response: after each
    successful step the object is either in pointer-free form with the view of the parse of its bytes, or exactly what the parser
    returns for its bytes ([objst] - in both cases it matches a fresh parse of its own bytes); a rename may come at any point, the
    other operations when the object is in pointer-free form or when they are of the kind that decompresses first *)
Example C08_objst_means : forall v, objst v <-> dinv v \/ (bytes_ok (pp_packet v) /\ parse (pp_packet v) = Ok v).
Proof. intros. split; intros HH; exact HH. Qed.

Example C08_rename_history_vocabulary :
  (forall tl sl sfx, run_hop4 (H4Rename tl sl sfx) = m_rename (wire_of_labels tl) (wire_of_labels sl) sfx) /\
  (forall o, run_hop4 (H4Op o) = run_hop3 o) /\
  (forall v tl sl sfx, hop4_ok_at v (H4Rename tl sl sfx) <->
     Forall lab sl /\ Forall lab tl /\ sl <> [] /\ tl <> [] /\ bytes_ok (wire_of_labels tl) /\
     length (wire_of_labels sl) <= 255 /\ length (wire_of_labels tl) <= 255) /\
  (forall v o, hop4_ok_at v (H4Op o) <-> hop3_ok_at v o /\ (dinv v \/ decompresses_first o)) /\
  (forall o, decompresses_first o <-> o = H3Base H2Recompute \/ (exists sec rx, o = H3Base (H2Insert sec rx)) \/
                                      (exists off, o = H3Delete off) \/ (exists off nm, o = H3SetName off nm)) /\
  (forall o ops s, run_hops4 (o :: ops) s =
     match run_hop4 o s with (s1, Ok _) => run_hops4 ops s1 | (s1, Err e) => (s1, Err e) | (s1, Panic x) => (s1, Panic x) end) /\
  (forall o ops s, ok_along4 (o :: ops) s = (hop4_ok_at (fst s) o /\ match run_hop4 o s with (s1, Ok _) => ok_along4 ops s1 | _ => True end)).
Proof. split; [|split; [|split; [|split; [|split; [|split]]]]]; intros; try reflexivity; split; intros HH; exact HH. Qed.

Theorem C08_step_with_rename : forall o v it s1, objst v -> is_response (pp_packet v) -> it_section it <> SQuestion -> hop4_ok_at v o ->
  run_hop4 o (v, it) = (s1, Ok tt) -> objst (fst s1) /\ snd s1 = it /\ is_response (pp_packet (fst s1)).
Proof. exact hop4_keeps_objst. Qed.
Print Assumptions C08_step_with_rename.

Theorem C08_histories_with_rename : forall p v it ops s', bytes_ok p -> parse p = Ok v -> is_response p -> it_section it <> SQuestion ->
  ok_along4 ops (v, it) -> run_hops4 ops (v, it) = (s', Ok tt) -> objst (fst s') /\ snd s' = it /\ is_response (pp_packet (fst s')).
Proof. exact parsed_history4. Qed.
Print Assumptions C08_histories_with_rename.

(** such a history runs: rename "a" to "bc.d" everywhere, delete the second answer, rename back *)
Example C08_rename_history_runs :
  match parse c08_two_answers with
  | Ok v => let '(s, r) := run_hops4 [H4Rename [[98;99];[100]]%N [[97]]%N false; H4Op (H3Delete 38); H4Rename [[97]]%N [[98;99];[100]]%N true] (v, c08_cursor) in
            (pp_packet (fst s), r)
  | _ => ([], Err InvalidPacket)
  end = ([0;7; 129;128; 0;1; 0;1; 0;0; 0;0;  1;97;0; 0;1; 0;1;  192;12; 0;1; 0;1; 0;0;0;9; 0;4; 1;2;3;4]%N, Ok tt).
Proof. vm_compute. reflexivity. Qed.

(** ... and every such history runs to the end (Proofs/RenameTotal.v): with failing steps tolerated, no step has a Panic outcome of the
    model - no assertion (the `assert_eq!` on the EDNS summary included), slice, subtraction or unwrap of the code fails - and after
    every step, successful or refused, the object is again its own fresh parse.  (A refused step need not leave the object untouched:
    an insertion or an owner-name change refused after its decompress-first prologue leaves the decompressed form; C10 says what that is.) *)
Example C08_tolerant_rename_run_means :
  (forall o ops s, run_hops4_tol (o :: ops) s =
     match run_hop4 o s with (s1, Ok _) => run_hops4_tol ops s1 | (s1, Err _) => run_hops4_tol ops s1 | (s1, Panic x) => (s1, Panic x) end) /\
  (forall o ops s, ok_along4_tol (o :: ops) s =
     (hop4_ok_at (fst s) o /\ match run_hop4 o s with (s1, Ok _) => ok_along4_tol ops s1 | (s1, Err _) => ok_along4_tol ops s1 | _ => True end)).
Proof. split; reflexivity. Qed.

Theorem C08_step_with_rename_total : forall o v it, objst v -> is_response (pp_packet v) -> it_section it <> SQuestion -> hop4_ok_at v o ->
  exists s1 r, run_hop4 o (v, it) = (s1, r) /\ (r = Ok tt \/ exists e, r = Err e) /\
               objst (fst s1) /\ snd s1 = it /\ is_response (pp_packet (fst s1)).
Proof. exact hop4_outcome. Qed.
Print Assumptions C08_step_with_rename_total.

Theorem C08_histories_with_rename_total : forall p v it ops, bytes_ok p -> parse p = Ok v -> is_response p -> it_section it <> SQuestion ->
  ok_along4_tol ops (v, it) ->
  exists s', run_hops4_tol ops (v, it) = (s', Ok tt) /\ objst (fst s') /\ snd s' = it /\ is_response (pp_packet (fst s')).
Proof. exact parsed_history4_total. Qed.
Print Assumptions C08_histories_with_rename_total.

(** such a tolerant history runs: a rename whose result would exceed 255 bytes is refused, the deletion and the second rename go through *)
Example C08_tolerant_rename_history_runs :
  match parse c08_two_answers with
  | Ok v => let '(s, r) := run_hops4_tol [H4Rename [repeat 98%N 63; repeat 98%N 63; repeat 98%N 63; repeat 98%N 62]%N [[97]]%N false;
                                          H4Op (H3Delete 35); H4Rename [[98;99];[100]]%N [[97]]%N true] (v, c08_cursor) in
            (pp_packet (fst s), r)
  | _ => ([], Err InvalidPacket)
  end = ([0;7; 129;128; 0;1; 0;1; 0;0; 0;0;  2;98;99;1;100;0; 0;1; 0;1;  192;12; 0;1; 0;1; 0;0;0;9; 0;4; 1;2;3;4]%N, Ok tt).
Proof. vm_compute. reflexivity. Qed.

(** SYNTHESISED packets as starting points: what gen::query returns (class IN; the random transaction id is an argument of the model) is a
    packet the parser accepts, in pointer-free form (flag cleared, fixed point of decompression), and the object's view - section
    offsets, EDNS position and option count, extended rcode, version, flags, empty cache - is that of the parse of these bytes; its
    question is the labels of the text with the type given, there is no record, the header is the id, RD, one question.  This
    needed the repair a97c4c2 of /repo: before it the text conversion let control characters and backslashes into labels and the
    packet was refused by the parser (found while proving this).  The advertised payload size is 8192 in the synthesised object
    and 512 in the parse of a packet without OPT record: C08 does not list that field and the statement leaves it out. *)
Theorem C08_query_is_fresh_parse : forall tid name qt v, (tid < 65536)%N -> (qt < 65536)%N -> gen_query tid name qt CLASS_IN = Ok v ->
  exists ls f,
    Forall label_ok ls /\ (name = dotted ls \/ name = dots ls \/ (name = [46%N] /\ ls = [])) /\
    pp_packet v = query_header tid ++ wire_of_labels ls ++ be16_bytes qt ++ be16_bytes CLASS_IN /\
    bytes_ok (pp_packet v) /\ parse (pp_packet v) = Ok f /\ view_of_parse v f (pp_packet v) /\
    pp_maybe_compressed v = false /\ uncompress (pp_packet v) = Ok (pp_packet v) /\
    reading (pp_packet v) ls qt [] [] [].
Proof. exact query_is_fresh_parse. Qed.
Print Assumptions C08_query_is_fresh_parse.

Example C08_query_vocabulary :
  (forall tid, query_header tid = be16_bytes tid ++ [1; 0; 0; 1; 0; 0; 0; 0; 0; 0]%N) /\
  (forall ls, dots ls = flat_map (fun l => l ++ [46%N]) ls) /\
  (forall l, label_ok l <-> l <> [] /\ length l <= 63 /\ forallb label_char_ok l = true).
Proof. split; [reflexivity|]. split; [reflexivity|]. intros l. split; intros H; exact H. Qed.

Example C08_query_runs :
  match gen_query 7 [119; 119; 119; 46; 97; 46; 98]%N 28 CLASS_IN with
  | Ok v => (pp_packet v, pp_offset_question v, pp_maybe_compressed v)
  | _ => ([], None, true)
  end = ([0;7; 1;0; 0;1; 0;0; 0;0; 0;0; 3;119;119;119; 1;97; 1;98; 0; 0;28; 0;1]%N, Some 12, false) /\
  gen_query 7 [97; 92; 98]%N 28 CLASS_IN = Err InvalidName.
Proof. split; vm_compute; reflexivity. Qed.
