(** C04 - Header, question and EDNS summaries equal what the bytes say.

    Proved: the 32-bit flag word is, bit for bit, the header word with opcode and rcode masked out in
    its lower half and the EDNS extended flags in its upper half, for every word and every OPT value;
    the DNSSEC indicator is AD for responses and DO for queries; and, for every accepted packet, the
    four question getters - before and after the question cache is filled - return the labels that the
    declarative name policy (Spec/NameSpec.v) reads at the question offset, as pointer-free wire
    bytes, as wire bytes without the root byte and as lower-cased dotted text, with the two 16-bit
    words that follow the name on the wire as type and class; that decoding is a function of the bytes.
    The EDNS summary the parser stores (C04_edns_summary) is, for every accepted packet: nothing and a
    payload size of 512 when no OPT record was met; otherwise the start of the OPT data, the number of
    options that tile it, the advertised payload size, extended rcode, version and flags read from the
    OPT record's class and TTL bytes.  The remaining fields (id, opcode, rcode) are single reads of
    the header bytes by definition of the model; their agreement with the implementation is decided by
    the correspondence on every run.  C04_summary_of_opt_record says which record those OPT values come
    from: the one OPT record of the declarative reading of the three record sections. *)
From DV Require Import Model.Base Model.Parser Model.Header Model.Readers Spec.NameSpec Spec.RecordSpec Proofs.Hoare Proofs.HeaderBits
  Proofs.SummaryBits Proofs.ReadersLabels Proofs.QuestionSpec Proofs.EdnsFacts Proofs.WalkSkip Proofs.EdnsPlain Spec.PacketSpec Proofs.HeaderFields Model.NameCheck Model.Uncompress Model.Mutate Model.Gen Proofs.NameText Proofs.QueryFresh.
Local Open Scope N_scope.

Theorem C04_flags_word : forall w x i, w < 65536 ->
  N.testbit (w_flags w x) i =
  if i <? 16 then (if is_flag_bit i then N.testbit w i else false)
  else N.testbit (match x with Some v => v | None => 0 end) (i - 16).
Proof. exact flags_word_bits. Qed.
Print Assumptions C04_flags_word.

Theorem C04_dnssec_bits : forall w x, w < 65536 ->
  f_dnssec (w_flags w x) =
  if N.testbit w 15 then N.testbit w 5 else N.testbit (match x with Some v => v | None => 0 end) 15.
Proof. exact dnssec_bits. Qed.
Print Assumptions C04_dnssec_bits.

Theorem C04_question_getters : forall p v, bytes_ok p -> parse p = Ok v ->
  exists ls t, question_of p ls t CLASS_IN /\
    let wire := wire_of_labels ls in
    let v' := pp_with_cached v (Some (wire, t, CLASS_IN)) in
    pp_question_raw0 v = Ok (v', Some (wire, t, CLASS_IN)) /\
    pp_question_raw v = Ok (v', Some (labels_flat ls, t, CLASS_IN)) /\
    pp_question v = Ok (Some (ascii_lowercase (dotted ls), t, CLASS_IN)) /\
    pp_qtype_qclass v = Ok (Some (t, CLASS_IN)) /\
    pp_question_raw0 v' = Ok (v', Some (wire, t, CLASS_IN)) /\
    pp_question_raw v' = Ok (v', Some (labels_flat ls, t, CLASS_IN)) /\
    pp_question v' = Ok (Some (ascii_lowercase (dotted ls), t, CLASS_IN)) /\
    pp_qtype_qclass v' = Ok (Some (t, CLASS_IN)).
Proof. exact parsed_question_getters. Qed.
Print Assumptions C04_question_getters.

Theorem C04_question_decoding_unique : forall p ls t c ls' t' c',
  question_of p ls t c -> question_of p ls' t' c' -> ls = ls' /\ t = t' /\ c = c'.
Proof. exact question_of_fun. Qed.
Print Assumptions C04_question_decoding_unique.

Theorem C04_edns_summary : forall p v, bytes_ok p -> parse p = Ok v -> esum_v p v.
Proof. exact parse_esum. Qed.
Print Assumptions C04_edns_summary.

(** The summary is that of the OPT record of the declarative reading (the first and only one): payload size = its class,
    extended rcode / version / flags = the bytes of its TTL, option count = the number of options tiling its data, options
    starting 11 bytes after the record's first byte (root owner); the empty summary when the reading has no OPT record. *)
Theorem C04_summary_of_opt_record : forall p v, bytes_ok p -> parse p = Ok v ->
  exists an ns ar qe e1 e2 la ln lr,
    pp_packet v = p /\ cname p 12 qe /\
    hdr_ancount p = Ok an /\ hdr_nscount p = Ok ns /\ hdr_arcount p = Ok ar /\
    records_at p (qe + 4) la e1 /\ length la = N.to_nat an /\
    records_at p e1 ln e2 /\ length ln = N.to_nat ns /\
    records_at p e2 lr (length p) /\ length lr = N.to_nat ar /\
    summary_of p (find is_opt (la ++ ln ++ lr)) v.
Proof. exact parse_summary. Qed.
Print Assumptions C04_summary_of_opt_record.

(** Non-vacuity: a query for "Ab.c" AAAA whose name is accepted; the text getter lower-cases it. *)
Example C04_sample_question :
  exists v, parse [0;7; 1;0; 0;1; 0;0; 0;0; 0;0; 2;65;98; 1;99; 0; 0;28; 0;1] = Ok v /\
            pp_question v = Ok (Some ([97;98;46;99], 28, 1)).
Proof. vm_compute. eexists. split; reflexivity. Qed.

Example C04_sample : w_flags 65535 (Some 32768) = 2147518448 /\ f_dnssec (w_flags 256 (Some 32768)) = true.
Proof. vm_compute. split; reflexivity. Qed.

(** id, opcode and rcode: the getters read the transaction id as the first 16-bit word, the rcode as the low four bits of the
    flag word and the opcode as its bits 11..14 (RFC 1035, 4.1.1), for every buffer that has these bytes *)
Theorem C04_id_opcode_rcode : forall p t w, bytes_ok p -> u16_at p 0 t -> u16_at p 2 w ->
  pk_tid p = Ok t /\ pk_rcode p = Ok (w mod 16) /\ pk_opcode p = Ok ((w / 2048) mod 16).
Proof. exact header_fields. Qed.
Print Assumptions C04_id_opcode_rcode.

Example C04_getters_on_the_object : forall v, pp_tid v = pk_tid (pp_packet v) /\ pp_rcode v = pk_rcode (pp_packet v) /\ pp_opcode v = pk_opcode (pp_packet v).
Proof. intros. repeat split. Qed.

(** the same on SYNTHESISED queries (the object gen::query returns, class IN): the four getters, cache empty and filled, return the
    labels of the text - wire form, wire form without the root, lower-cased dotted text - with the type and class given
    (Proofs/QueryFresh.v; the repair a97c4c2 of /repo made the text's labels labels of the parser's policy) *)
Theorem C04_query_getters : forall tid name qt v, (tid < 65536)%N -> (qt < 65536)%N -> gen_query tid name qt CLASS_IN = Ok v ->
  exists ls, Forall label_ok ls /\ (name = dotted ls \/ name = dots ls \/ (name = [46%N] /\ ls = [])) /\
    let wire := wire_of_labels ls in
    let v' := pp_with_cached v (Some (wire, qt, CLASS_IN)) in
    pp_question_raw0 v = Ok (v', Some (wire, qt, CLASS_IN)) /\
    pp_question_raw v = Ok (v', Some (labels_flat ls, qt, CLASS_IN)) /\
    pp_question v = Ok (Some (ascii_lowercase (dotted ls), qt, CLASS_IN)) /\
    pp_qtype_qclass v = Ok (Some (qt, CLASS_IN)) /\
    pp_question_raw0 v' = Ok (v', Some (wire, qt, CLASS_IN)) /\
    pp_question_raw v' = Ok (v', Some (labels_flat ls, qt, CLASS_IN)) /\
    pp_question v' = Ok (Some (ascii_lowercase (dotted ls), qt, CLASS_IN)) /\
    pp_qtype_qclass v' = Ok (Some (qt, CLASS_IN)).
Proof. exact query_getters. Qed.
Print Assumptions C04_query_getters.

Example C04_query_getters_run :
  match gen_query 7 [87; 119; 119; 46; 65]%N 28 CLASS_IN with
  | Ok v => pp_question v
  | _ => Err InvalidPacket
  end = Ok (Some ([119; 119; 119; 46; 97]%N, 28%N, CLASS_IN)).
Proof. vm_compute. reflexivity. Qed.
