(** C04 - Header, question and EDNS summaries equal what the bytes say.

    Proved: the 32-bit flag word is, bit for bit, the header word with opcode and rcode masked out in
    its lower half and the EDNS extended flags in its upper half, for every word and every OPT value;
    the DNSSEC indicator is AD for responses and DO for queries.  The remaining fields are read
    directly from the bytes by definition of the model; their agreement with the implementation and
    with independent decoding (question name forms, EDNS fields, cache behaviour) is decided by the
    correspondence on every run. *)
From DV Require Import Model.Base Model.Parser Model.Header Proofs.Hoare Proofs.HeaderBits Proofs.SummaryBits.
Local Open Scope N_scope.

Theorem C04_flags_word : forall w x i, w < 65536 ->
  N.testbit (w_flags w x) i =
  if i <? 16 then (if is_flag_bit i then N.testbit w i else false)
  else N.testbit (match x with Some v => v | None => 0 end) (i - 16).
Proof. exact flags_word_bits. Qed.
Print Assumptions C04_flags_word.

Theorem C04_dnssec_bits : forall w x, w < 65536 ->
  f_dnssec (w_flags w x) =
  if N.testbit w 15 then N.testbit w 5 else N.testbit (match x with Some v => v | None => 0 end) 15.
Proof. exact dnssec_bits. Qed.
Print Assumptions C04_dnssec_bits.

Example C04_sample : w_flags 65535 (Some 32768) = 2147518448 /\ f_dnssec (w_flags 256 (Some 32768)) = true.
Proof. vm_compute. split; reflexivity. Qed.
