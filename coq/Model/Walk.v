(** * The script language: operations on a packet object, and walks with per-record actions.

    [exec_op] is what the theorems about histories (C08-C11) quantify over and what the model
    driver runs; harness/src/main.rs runs the same scripts against the implementation. *)

From DV Require Import Model.Base Model.NameCheck Model.Parser Model.Header Model.Readers
  Model.Uncompress Model.Mutate Model.Gen Model.Text Model.Compress Model.Renamer.

Inductive action : Set :=
| AName | ARawName | AType | AClass | ATtl | ARdlen | ARd | AIp | ASection | AOffsets
| ASetTtl (t : N) | ASetIp (b : bytes) | ASetRawName (n : bytes)
| ADelete | AUncompress | ABreak.

(** Observations, printed by the drivers in the harness's text format. [tag] is the ASCII code
    of the action letter. *)
Inductive obs : Set :=
| ObsSep
| ObsBytes (tag : N) (b : bytes)
| ObsBytesLen (tag : N) (b : bytes) (n : nat)
| ObsNum (tag : N) (n : N)
| ObsIp (tag : N) (b : bytes)                 (* D=ip:... *)
| ObsErr (tag : N) (e : err)
| ObsOk (tag : N)
| ObsSection (s : section)
| ObsOffsets (o : option nat) (name_end : nat)
| ObsEdns (code : N) (data : bytes)
| ObsLimit.

Definition obs_of_unit (tag : N) (r : st * res unit) : st * res (list obs) :=
  match r with
  | (s, Ok _) => (s, Ok [ObsOk tag])
  | (s, Err e) => (s, Ok [ObsErr tag e])
  | (s, Panic x) => (s, Panic x)
  end.

Definition read_only (s : st) (r : res (list obs)) : st * res (list obs) := (s, r).

(** One action on the current record. Actions of [RdataIterable] do nothing on a question
    cursor (the harness skips them there). *)
Definition run_action (is_q : bool) (a : action) (s : st) : st * res (list obs) :=
  let '(v, it) := s in
  match a with
  | AName => read_only s (b <- it_name v it ;; Ok [ObsBytes 110 b])
  | ARawName => read_only s ('(b, l) <- it_copy_raw_name v it ;; Ok [ObsBytesLen 114 b l])
  | AType => read_only s (t <- it_rr_type v it ;; Ok [ObsNum 116 t])
  | AClass => read_only s (c <- it_rr_class v it ;; Ok [ObsNum 99 c])
  | ASection =>
    read_only s (match it_current_section v it with
                 | Ok sec => Ok [ObsSection sec]
                 | Err e => Ok [ObsErr 115 e]
                 | Panic x => Panic x
                 end)
  | AOffsets => read_only s (Ok [ObsOffsets (it_offset it) (it_name_end it)])
  | ASetRawName n => obs_of_unit 77 (m_set_raw_name n s)
  | ADelete => obs_of_unit 88 (m_delete s)
  | AUncompress => obs_of_unit 86 (m_cursor_uncompress s)
  | ABreak => read_only s (Ok [])
  | ATtl => if is_q then read_only s (Ok []) else read_only s (t <- it_rr_ttl v it ;; Ok [ObsNum 108 t])
  | ARdlen => if is_q then read_only s (Ok []) else read_only s (l <- it_rr_rdlen v it ;; Ok [ObsNum 100 (N.of_nat l)])
  | ARd =>
    if is_q then read_only s (Ok [])
    else read_only s (match it_rr_rd v it with
                      | Ok (inl ip) => Ok [ObsIp 68 ip]
                      | Ok (inr d) => Ok [ObsBytes 68 d]
                      | Err e => Ok [ObsErr 68 e]
                      | Panic x => Panic x
                      end)
  | AIp =>
    if is_q then read_only s (Ok [])
    else read_only s (match it_rr_ip v it with
                      | Ok ip => Ok [ObsBytes 105 ip]
                      | Err e => Ok [ObsErr 105 e]
                      | Panic x => Panic x
                      end)
  | ASetTtl t => if is_q then read_only s (Ok []) else obs_of_unit 84 (m_set_ttl t s)
  | ASetIp b => if is_q then read_only s (Ok []) else obs_of_unit 65 (m_set_ip b s)
  end.

Definition is_break (a : action) : bool := match a with ABreak => true | _ => false end.

(** All actions planned for one record; stops at [ABreak]. Returns (state, obs, broke). *)
Fixpoint run_actions (is_q : bool) (acts : list action) (s : st) (acc : list obs)
  : st * res (list obs * bool) :=
  match acts with
  | [] => (s, Ok (acc, false))
  | a :: acts' =>
    if is_break a then (s, Ok (acc, true))
    else
      match run_action is_q a s with
      | (s', Ok o) => run_actions is_q acts' s' (acc ++ o)
      | (s', Err e) => (s', Err e)
      | (s', Panic x) => (s', Panic x)
      end
  end.

Definition WALK_LIMIT : nat := 4000.

Definition nth_plan (per : list (list action)) (def : list action) (k : nat) : list action :=
  match nth_error per k with Some a => a | None => def end.

(** [while let Some(item) = it { "|"; actions; k += 1; if broke || k > LIMIT { break }; it = next }] *)
Fixpoint walk_loop (fuel : nat) (is_q : bool) (next : ppacket -> rrit -> res (option rrit))
         (per : list (list action)) (def : list action) (k : nat)
         (v : ppacket) (cur : option rrit) (acc : list obs) : ppacket * res (list obs) :=
  match cur with
  | None => (v, Ok acc)
  | Some it =>
    match fuel with
    | O => (v, Ok (acc ++ [ObsLimit]))
    | S fuel' =>
      match run_actions is_q (nth_plan per def k) (v, it) (acc ++ [ObsSep]) with
      | ((v', it'), Ok (acc', broke)) =>
        if broke then (v', Ok acc')
        else
          match next v' it' with
          | Ok nxt => walk_loop fuel' is_q next per def (k + 1) v' nxt acc'
          | Err e => (v', Err e)
          | Panic x => (v', Panic x)
          end
      | ((v', _), Err e) => (v', Err e)
      | ((v', _), Panic x) => (v', Panic x)
      end
    end
  end.

Definition walk (v : ppacket) (sec : section) (incl_opt : bool)
           (per : list (list action)) (def : list action) : ppacket * res (list obs) :=
  match sec with
  | SQuestion =>
    match q_next v (it_new SQuestion) with
    | Ok first => walk_loop (S WALK_LIMIT) true q_next per def 0 v first []
    | Err e => (v, Err e)
    | Panic x => (v, Panic x)
    end
  | SAnswer | SNameServers | SAdditional =>
    let first :=
      match sec with
      | SAdditional => if incl_opt then r_next_including_opt v (it_new sec) else r_next v (it_new sec)
      | _ => r_next v (it_new sec)
      end in
    let next := if incl_opt then r_next_including_opt else r_next in
    match first with
    | Ok f => walk_loop (S WALK_LIMIT) false next per def 0 v f []
    | Err e => (v, Err e)
    | Panic x => (v, Panic x)
    end
  | SEdns => (v, Panic 801)
  end.

(** Walk over the EDNS options: code and payload of each, decoded from the raw cursor. *)
Fixpoint edns_loop (fuel : nat) (v : ppacket) (cur : option rrit) (acc : list obs) : res (list obs) :=
  match cur with
  | None => Ok acc
  | Some it =>
    match fuel with
    | O => Ok (acc ++ [ObsLimit])
    | S fuel' =>
      o <- unwrap (it_offset it) 811 ;;
      let p := pp_packet v in
      code <- be16_at p o 812 ;;
      len <- be16_at p (o + 2) 813 ;;
      data <- slice p (o + 4) (o + 4 + N.to_nat len) 814 ;;
      nxt <- e_next v it ;;
      edns_loop fuel' v nxt (acc ++ [ObsEdns code data])
    end
  end.

Definition walk_edns (v : ppacket) : res (list obs) :=
  first <- e_next v (it_new SEdns) ;;
  edns_loop (S WALK_LIMIT) v first [].

(** ** Operations on the object *)

Inductive op : Set :=
| OSetTid (n : N) | OSetFlags (n : N) | OSetRcode (n : N) | OSetOpcode (n : N) | OSetResponse (b : bool)
| OInsertText (sec : section) (text : bytes)
| OInsertQuestion (name : bytes) (rtype : N)
| OInsertRaw (sec : section) (name : bytes) (rtype : N) (rdlen : nat)   (* RR::new with [rdlen] bytes 'a' of data, then insert_rr *)
| ORename (target source : bytes) (sfx : bool)
| ORecompute
| OQuestionRaw0 | OQuestionRaw | OQuestion | OQtypeQclass
| OWalk (sec : section) (incl_opt : bool) (per : list (list action)) (def : list action)
| OWalkEdns.

Inductive opout : Set :=
| OutOk
| OutErr (e : err)
| OutQ (r : option (bytes * N * N))
| OutQT (r : option (N * N))
| OutObs (l : list obs).

Definition out_unit (r : ppacket * res unit) : ppacket * res opout :=
  match r with
  | (v, Ok _) => (v, Ok OutOk)
  | (v, Err e) => (v, Ok (OutErr e))
  | (v, Panic x) => (v, Panic x)
  end.

Definition out_set (v0 : ppacket) (r : res ppacket) : ppacket * res opout :=
  match r with
  | Ok v => (v, Ok OutOk)
  | Err e => (v0, Ok (OutErr e))
  | Panic x => (v0, Panic x)
  end.

Definition exec_op (o : op) (v : ppacket) : ppacket * res opout :=
  match o with
  | OSetTid n => out_set v (pp_set_tid v n)
  | OSetFlags n => out_set v (pp_set_flags v n)
  | OSetRcode n => out_set v (pp_set_rcode v n)
  | OSetOpcode n => out_set v (pp_set_opcode v n)
  | OSetResponse b => out_set v (pp_set_response v b)
  | OInsertText sec text => out_unit (run_pp (m_insert_rr_from_string sec text) v)
  | OInsertQuestion name rtype =>
    match rr_new_question name rtype CLASS_IN with
    | Ok rr => out_unit (run_pp (m_insert_rr SQuestion rr) v)
    | Err e => (v, Ok (OutErr e))
    | Panic x => (v, Panic x)
    end
  | OInsertRaw sec name rtype rdlen =>
    match rr_new name 1 CLASS_IN rtype (repeat 97%N rdlen) with
    | Ok rr => out_unit (run_pp (m_insert_rr sec rr) v)
    | Err e => (v, Ok (OutErr e))
    | Panic x => (v, Panic x)
    end
  | ORename t s sfx => out_unit (run_pp (m_rename t s sfx) v)
  | ORecompute => out_unit (run_pp m_recompute v)
  | OQuestionRaw0 =>
    match pp_question_raw0 v with
    | Ok (v', r) => (v', Ok (OutQ r))
    | Err e => (v, Ok (OutErr e))
    | Panic x => (v, Panic x)
    end
  | OQuestionRaw =>
    match pp_question_raw v with
    | Ok (v', r) => (v', Ok (OutQ r))
    | Err e => (v, Ok (OutErr e))
    | Panic x => (v, Panic x)
    end
  | OQuestion =>
    match pp_question v with
    | Ok r => (v, Ok (OutQ r))
    | Err e => (v, Ok (OutErr e))
    | Panic x => (v, Panic x)
    end
  | OQtypeQclass =>
    match pp_qtype_qclass v with
    | Ok r => (v, Ok (OutQT r))
    | Err e => (v, Ok (OutErr e))
    | Panic x => (v, Panic x)
    end
  | OWalk sec incl per def =>
    match walk v sec incl per def with
    | (v', Ok l) => (v', Ok (OutObs l))
    | (v', Err e) => (v', Ok (OutErr e))
    | (v', Panic x) => (v', Panic x)
    end
  | OWalkEdns =>
    match walk_edns v with
    | Ok l => (v, Ok (OutObs l))
    | Err e => (v, Ok (OutErr e))
    | Panic x => (v, Panic x)
    end
  end.

(** A history: the object after each operation, with the outputs; stops at the first panic. *)
Fixpoint exec_ops (ops : list op) (v : ppacket) : ppacket * res (list opout) :=
  match ops with
  | [] => (v, Ok [])
  | o :: ops' =>
    match exec_op o v with
    | (v', Ok out) =>
      match exec_ops ops' v' with
      | (v'', Ok outs) => (v'', Ok (out :: outs))
      | r => r
      end
    | (v', Err e) => (v', Err e)
    | (v', Panic x) => (v', Panic x)
    end
  end.
