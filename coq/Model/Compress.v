(** * Compression: src/compress.rs:200-266 (compress_rdata), :352-448 (compress), :467-487,
    :528-575 (name emission), :578-676 (SuffixDict).

    Follows the repaired code: the dictionary records *output* offsets; the additional section
    is walked including the OPT record. *)

From DV Require Import Model.Base Model.Parser Model.Header Model.Readers Model.Uncompress.

(** ** SuffixDict: up to 32 remembered suffixes with their offsets; the first entry is pinned *)
Record sdict : Set := mk_sd {
  sd_index : nat;
  sd_entries : list (nat * bytes)    (* [count = length sd_entries], position = slot *)
}.
Definition sd_new : sdict := {| sd_index := 0; sd_entries := [] |}.

Definition eq_ignore_ascii_case (a b : N) : bool := (lower_byte a =? lower_byte b)%N.

(** compress.rs:659 *)
Fixpoint raw_names_eq_ignore_case (n1 n2 : bytes) (label_len : N) : bool :=
  match n1, n2 with
  | c1 :: r1, c2 :: r2 =>
    if negb (eq_ignore_ascii_case c1 c2) then false
    else if (label_len =? 0)%N then
      if (c1 =? 0)%N then true else raw_names_eq_ignore_case r1 r2 c1
    else raw_names_eq_ignore_case r1 r2 (label_len - 1)
  | _, _ => false
  end.

Fixpoint sd_find (es : list (nat * bytes)) (suffix : bytes) : option nat :=
  match es with
  | [] => None
  | (o, cand) :: es' =>
    if (length cand <=? length suffix) && raw_names_eq_ignore_case suffix cand 0 then Some o
    else sd_find es' suffix
  end.

Fixpoint list_set {A} (l : list A) (i : nat) (x : A) : list A :=
  match l, i with
  | [], _ => [x]                       (* i = length: the table grows by one *)
  | _ :: t, O => x :: t
  | h :: t, S i' => h :: list_set t i' x
  end.

(** compress.rs:613. Returns the new dictionary and the offset of an existing equal suffix. *)
Definition sd_insert (d : sdict) (suffix : bytes) (offset : nat) : res (sdict * option nat) :=
  if (16384 <=? N.of_nat offset)%N then Ok (d, None)
  else
    let sl := length suffix in
    if (sl <=? 2) || (MAX_SUFFIX_LEN <? sl) then Ok (d, None)
    else
      match sd_find (sd_entries d) suffix with
      | Some o => Ok (d, Some o)
      | None =>
        l <- raw_name_len suffix ;;                          (* raw_name_copy *)
        if negb (l =? sl) then Panic 701                     (* debug_assert_eq!(len, suffix_len) *)
        else if length (sd_entries d) <? sd_index d then Panic 702
        else
          let es := list_set (sd_entries d) (sd_index d) (offset, suffix) in
          let idx := sd_index d + 1 in
          Ok ({| sd_index := if idx =? MAX_SUFFIXES then 1 else idx; sd_entries := es |}, None)
      end.

(** compress.rs:467 *)
Record rd_state : Set := mk_rd { rd_off : nat; rd_len : nat }.
Definition rd_step (p : bytes) (s : rd_state) : step_res rd_state (res nat) :=
  match nth_error p (rd_off s) with
  | None => Done (Panic 711)
  | Some len =>
    if (N.land len 192 =? 192)%N then
      match nth_error p (rd_off s + 1) with
      | None => Done (Panic 712)
      | Some lo =>
        let new_offset := N.to_nat (N.land (len * 256 + lo) 16383) in
        if rd_off s <=? new_offset then Done (Panic 713)
        else Continue {| rd_off := new_offset; rd_len := rd_len s |}
      end
    else
      let ll := N.to_nat len in
      if ll =? 0 then Done (Ok (rd_len s + 1))
      else Continue {| rd_off := rd_off s + 1 + ll; rd_len := rd_len s + 1 + ll |}
  end.
Definition raw_name_len_after_decompression (p : bytes) (off : nat) : res nat :=
  run_loop (rd_step p) cu_fuel {| rd_off := off; rd_len := 0 |}.

(** compress.rs:528 [copy_compressed_name_with_base_offset], repaired: the dictionary is given the
    position of the suffix in the *output*. State: current input offset, output, dictionary. *)
Record cc_state : Set := mk_cc { cc_off : nat; cc_out : bytes; cc_dict : sdict }.

Definition cc_step (p : bytes) (final_offset : nat) (s : cc_state) : step_res cc_state (res (bytes * sdict)) :=
  match nth_error p (cc_off s) with
  | None => Done (Panic 721)
  | Some len =>
    if (N.land len 192 =? 192)%N then Done (Panic 722)       (* panic!("already compressed name") *)
    else
      match slice p (cc_off s) final_offset 723 with
      | Panic x => Done (Panic x)
      | Err e => Done (Err e)
      | Ok suffix =>
        match sd_insert (cc_dict s) suffix (length (cc_out s)) with
        | Panic x => Done (Panic x)
        | Err e => Done (Err e)
        | Ok (d', Some ref_offset) =>
          let r := N.of_nat ref_offset in
          Done (Ok (cc_out s ++ [N.lor ((r / 256) mod 256) 192; r mod 256]%N, d'))
        | Ok (d', None) =>
          let ll := N.to_nat len in
          match slice p (cc_off s) (cc_off s + 1 + ll) 724 with
          | Panic x => Done (Panic x)
          | Err e => Done (Err e)
          | Ok lab =>
            if ll =? 0 then Done (Ok (cc_out s ++ lab, d'))
            else Continue {| cc_off := cc_off s + 1 + ll; cc_out := cc_out s ++ lab; cc_dict := d' |}
          end
        end
      end
  end.

(** Returns (output, dictionary, name_len, final_offset). *)
Definition copy_compressed_name (d : sdict) (out : bytes) (p : bytes) (off : nat)
  : res (bytes * sdict * nat * nat) :=
  ulen <- raw_name_len_after_decompression p off ;;
  let final_offset := off + ulen in
  '(out', d') <- run_loop (cc_step p final_offset) cu_fuel {| cc_off := off; cc_out := out; cc_dict := d |} ;;
  Ok (out', d', length out' - length out, final_offset).

(** compress.rs:200 *)
Definition compress_rdata (d : sdict) (out : bytes) (p : bytes) (name_end : nat)
           (rr_type : option N) (rr_rdlen : option nat) : res (bytes * sdict) :=
  match rr_type with
  | None =>
    h <- take_rdata p name_end DNS_RR_QUESTION_HEADER_SIZE 731 ;; Ok (out ++ h, d)
  | Some t =>
    if is_name_type t then
      let offset := length out in
      h <- take_rdata p name_end DNS_RR_HEADER_SIZE 732 ;;
      '(out1, d1, nlen, _) <- copy_compressed_name d (out ++ h) p (name_end + DNS_RR_HEADER_SIZE) ;;
      out2 <- patch_u16 out1 (offset + DNS_RR_RDLEN_OFFSET) nlen 733 ;; Ok (out2, d1)
    else if (t =? TYPE_MX)%N then
      let offset := length out in
      h <- take_rdata p name_end (DNS_RR_HEADER_SIZE + 2) 734 ;;
      '(out1, d1, nlen, _) <- copy_compressed_name d (out ++ h) p (name_end + DNS_RR_HEADER_SIZE + 2) ;;
      out2 <- patch_u16 out1 (offset + DNS_RR_RDLEN_OFFSET) (2 + nlen) 735 ;; Ok (out2, d1)
    else if (t =? TYPE_SOA)%N then
      let offset := length out in
      h <- take_rdata p name_end DNS_RR_HEADER_SIZE 736 ;;
      '(out1, d1, l1, f1) <- copy_compressed_name d (out ++ h) p (name_end + DNS_RR_HEADER_SIZE) ;;
      '(out2, d2, l2, f2) <- copy_compressed_name d1 out1 p f1 ;;
      tail <- slice p f2 (f2 + 20) 737 ;;
      out3 <- patch_u16 (out2 ++ tail) (offset + DNS_RR_RDLEN_OFFSET) (l1 + l2 + 20) 738 ;;
      Ok (out3, d2)
    else
      l <- unwrap rr_rdlen 739 ;;
      h <- take_rdata p name_end (DNS_RR_HEADER_SIZE + l) 740 ;;
      Ok (out ++ h, d)
  end.

Definition compress_record (v : ppacket) (question : bool) (acc : bytes * sdict) (it : rrit)
  : res (bytes * sdict) :=
  let '(out, d) := acc in
  off <- unwrap (it_offset it) 741 ;;
  '(out1, d1, _, _) <- copy_compressed_name d out (pp_packet v) off ;;
  if question then compress_rdata d1 out1 (pp_packet v) (it_name_end it) None None
  else
    t <- it_rr_type v it ;;
    l <- it_rr_rdlen v it ;;
    compress_rdata d1 out1 (pp_packet v) (it_name_end it) (Some t) (Some l).

(** compress.rs:352 *)
Definition compress (p : bytes) : res bytes :=
  if length p <? DNS_HEADER_SIZE then Err PacketTooSmall
  else
    let out := firstn DNS_HEADER_SIZE p in
    v <- parse p ;;
    let fuel := walk_fuel p in
    q0 <- q_next v (it_new SQuestion) ;;
    acc <- walk_fold fuel (q_next v) (compress_record v true) q0 (out, sd_new) ;;
    a0 <- r_next v (it_new SAnswer) ;;
    acc <- walk_fold fuel (r_next v) (compress_record v false) a0 acc ;;
    n0 <- r_next v (it_new SNameServers) ;;
    acc <- walk_fold fuel (r_next v) (compress_record v false) n0 acc ;;
    d0 <- r_next_including_opt v (it_new SAdditional) ;;
    acc <- walk_fold fuel (r_next_including_opt v) (compress_record v false) d0 acc ;;
    Ok (fst acc).
