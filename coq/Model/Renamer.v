(** * Renaming: src/renamer.rs, and the packet-level wrapper src/parsed_packet.rs:464-485.

    Follows the repaired code: MX and SOA rdlen are measured from the start of the rdata; the
    additional section is re-emitted including the OPT record (no separate raw EDNS copy); the
    wrapper stores the renamed packet and drops the cached question. *)

From DV Require Import Model.Base Model.Parser Model.Header Model.Readers Model.Uncompress
  Model.Mutate Model.Compress.

(** first loop of [replace_raw]: walk the labels of [name] until [i = offset] or the root *)
Fixpoint rr_walk (fuel : nat) (name : bytes) (offset i : nat) : res nat :=
  match fuel with
  | O => Panic OutOfFuel
  | S fuel' =>
    b <- byte_at name i 751 ;;
    if (b =? 0)%N then Ok i
    else if i =? offset then Ok i
    else rr_walk fuel' name offset (i + N.to_nat b + 1)
  end.

Fixpoint all_eq_ci (name source : bytes) (i offset j n : nat) : res bool :=
  match n with
  | O => Ok true
  | S n' =>
    a <- byte_at name (i + j) 752 ;;
    d <- usub (i + j) offset 753 ;;
    b <- byte_at source d 754 ;;
    if eq_ignore_ascii_case a b then all_eq_ci name source i offset (j + 1) n' else Ok false
  end.

(** second loop: compare label by label; [Ok true] = all labels matched *)
Fixpoint rr_match (fuel : nat) (name source : bytes) (offset i : nat) : res bool :=
  match fuel with
  | O => Panic OutOfFuel
  | S fuel' =>
    b <- byte_at name i 755 ;;
    if (b =? 0)%N then Ok true
    else
      d <- usub i offset 756 ;;
      sl <- byte_at source d 757 ;;
      if negb (b =? sl)%N then Ok false
      else
        let ll := N.to_nat b in
        ok <- all_eq_ci name source (i + 1) offset 0 ll ;;
        if negb ok then Ok false else rr_match fuel' name source offset (i + 1 + ll)
  end.

(** renamer.rs:17 *)
Definition replace_raw (name target source : bytes) (match_suffix : bool) : res (option bytes) :=
  let nl := length name in
  let sl := length source in
  let tl := length target in
  if (nl <? sl) || (negb match_suffix && negb (nl =? sl)) then Ok None
  else if (sl =? 0) || (tl =? 0) then Err InvalidName
  else
    s0 <- byte_at source 0 761 ;;
    t0 <- byte_at target 0 762 ;;
    if (s0 =? 0)%N || (t0 =? 0)%N then Err InvalidName
    else
      let offset := nl - sl in
      i <- rr_walk (nl + 1) name offset 0 ;;
      if nl <=? i then Ok None
      else
        b <- byte_at name i 763 ;;
        if (b =? 0)%N && (0 <? nl) then Ok None
        else if negb (i =? offset) then Err InvalidName       (* "Inconsistent encoding" *)
        else
          ok <- rr_match (nl + 1) name source offset i ;;
          if negb ok then Ok None
          else if DNS_MAX_HOSTNAME_LEN <? offset + tl then Err InvalidName
          else Ok (Some (firstn offset name ++ target)).

(** renamer.rs:75 *)
Definition copy_with_replaced_name (out : bytes) (p : bytes) (off : nat) (d : sdict)
           (target source : bytes) (sfx : bool) : res (bytes * sdict) :=
  '(name, _, _) <- copy_uncompressed_name [] p off ;;
  r <- replace_raw name target source sfx ;;
  let nm := match r with None => name | Some n' => n' end in
  '(out', d', _, _) <- copy_compressed_name d out nm 0 ;;
  Ok (out', d').

Definition rename_question_record (v : ppacket) (target source : bytes) (sfx : bool)
           (acc : bytes * sdict) (it : rrit) : res (bytes * sdict) :=
  let '(out, d) := acc in
  let p := pp_packet v in
  off <- unwrap (it_offset it) 771 ;;
  '(out, d) <- copy_with_replaced_name out p off d target source sfx ;;
  if length p <? it_name_end it + DNS_RR_QUESTION_HEADER_SIZE then Err PacketTooSmall
  else
    h <- slice p (it_name_end it) (it_name_end it + DNS_RR_QUESTION_HEADER_SIZE) 772 ;;
    Ok (out ++ h, d).

Definition rename_response_record (v : ppacket) (target source : bytes) (sfx : bool)
           (acc : bytes * sdict) (it : rrit) : res (bytes * sdict) :=
  let '(out, d) := acc in
  let p := pp_packet v in
  let ne := it_name_end it in
  off <- unwrap (it_offset it) 773 ;;
  '(out, d) <- copy_with_replaced_name out p off d target source sfx ;;
  if length p <? ne + DNS_RR_HEADER_SIZE then Err PacketTooSmall
  else
    let data_off := length out in
    h <- slice p ne (ne + DNS_RR_HEADER_SIZE) 774 ;;
    let out := out ++ h in
    t <- it_rr_type v it ;;
    if is_name_type t then
      '(out, d) <- copy_with_replaced_name out p (ne + DNS_RR_HEADER_SIZE) d target source sfx ;;
      l <- usub (length out) (data_off + DNS_RR_HEADER_SIZE) 775 ;;
      out <- patch_u16 out (data_off + DNS_RR_RDLEN_OFFSET) l 776 ;; Ok (out, d)
    else if (t =? TYPE_MX)%N then
      pref <- slice p (ne + DNS_RR_HEADER_SIZE) (ne + DNS_RR_HEADER_SIZE + 2) 777 ;;
      let out := out ++ pref in
      let name_off := length out in
      '(out, d) <- copy_with_replaced_name out p (ne + DNS_RR_HEADER_SIZE + 2) d target source sfx ;;
      l <- usub (2 + length out) name_off 778 ;;
      out <- patch_u16 out (data_off + DNS_RR_RDLEN_OFFSET) l 779 ;; Ok (out, d)
    else if (t =? TYPE_SOA)%N then
      let name1_out := length out in
      let name1_offset := ne + DNS_RR_HEADER_SIZE in
      t1 <- slice_from p name1_offset 780 ;;
      name1_len <- raw_name_len t1 ;;
      '(out, d) <- copy_with_replaced_name out p name1_offset d target source sfx ;;
      let name2_offset := name1_offset + name1_len in
      t2 <- slice_from p name2_offset 781 ;;
      name2_len <- raw_name_len t2 ;;
      '(out, d) <- copy_with_replaced_name out p name2_offset d target source sfx ;;
      let meta := name2_offset + name2_len in
      m <- slice p meta (meta + 20) 782 ;;
      let out := out ++ m in
      l <- usub (length out) name1_out 783 ;;
      out <- patch_u16 out (data_off + DNS_RR_RDLEN_OFFSET) l 784 ;; Ok (out, d)
    else
      rd_len <- it_rr_rdlen v it ;;
      rdata <- slice p ne (ne + DNS_RR_HEADER_SIZE + rd_len) 785 ;;
      Ok (out ++ skipn DNS_RR_HEADER_SIZE rdata, d).

(** renamer.rs:321 *)
Definition renamer_rename (v : ppacket) (target source : bytes) (sfx : bool) : res bytes :=
  if (length target =? 0) || (length source =? 0) then Err InvalidName
  else if (DNS_MAX_HOSTNAME_LEN <? length target) || (DNS_MAX_HOSTNAME_LEN <? length source) then Err InvalidName
  else
    let p := pp_packet v in
    out <- slice p 0 DNS_HEADER_SIZE 791 ;;                  (* copy_header *)
    let fuel := walk_fuel p in
    q0 <- q_next v (it_new SQuestion) ;;
    acc <- walk_fold fuel (q_next v) (rename_question_record v target source sfx) q0 (out, sd_new) ;;
    a0 <- r_next v (it_new SAnswer) ;;
    acc <- walk_fold fuel (r_next_including_opt v) (rename_response_record v target source sfx) a0 acc ;;
    n0 <- r_next v (it_new SNameServers) ;;
    acc <- walk_fold fuel (r_next_including_opt v) (rename_response_record v target source sfx) n0 acc ;;
    d0 <- r_next_including_opt v (it_new SAdditional) ;;
    acc <- walk_fold fuel (r_next_including_opt v) (rename_response_record v target source sfx) d0 acc ;;
    Ok (fst acc).

(** parsed_packet.rs:464, repaired: nothing is stored before the renamed packet has been
    re-parsed; then the packet is stored and the cached question dropped. *)
Definition m_rename (target source : bytes) (sfx : bool) : cm unit :=
  v <-- getv ;;
  r <-- clift (renamer_rename v target source sfx) ;;
  f <-- clift (parse r) ;;
  if negb (edns_summary_same v f) then clift (Panic 795)
  else putv (pp_update v r (pp_offset_question f) (pp_offset_answers f) (pp_offset_nameservers f)
                       (pp_offset_additional f) (pp_offset_edns f) true None).
