(** * Wire builders: src/synth/gen.rs.

    [copy_raw_name_from_str] follows the repaired code: the 253-byte limit is measured on the
    name being appended, not on the whole output vector. *)

From DV Require Import Model.Base Model.Parser Model.Header Model.Readers Model.Uncompress Model.Mutate.

(** The [for (i, &c) in name.iter().enumerate()] loop. [cur] is [name[label_start..i]] and
    [label_len = length cur]. *)
Fixpoint crn_loop (name_len : nat) (cs cur out : bytes) : res (bytes * bytes) :=
  match cs with
  | [] => Ok (out, cur)
  | c :: cs' =>
    if (c =? 46)%N then
      if length cur =? 0 then
        if negb (name_len =? 1) then Err InvalidName        (* "Spurious dot in a label" *)
        else crn_loop name_len cs' cur out
      else crn_loop name_len cs' [] (out ++ [N.of_nat (length cur)] ++ cur)
    else if 63 - 1 <=? length cur then Err InvalidName      (* "Label too long" *)
    else if (128 <? c)%N then Err InvalidName               (* "Non-ASCII character in a label" *)
    else if ((c <? 32) || (c =? 127) || (c =? 92))%N then Err InvalidName   (* "Invalid character in a label": is_ascii_control or backslash *)
    else crn_loop name_len cs' (cur ++ [c]) out
  end.

(** gen.rs:21. Returns [raw_name] with the encoded name appended. *)
Definition copy_raw_name_from_str (raw_name : bytes) (name : bytes) (raw_zone : option bytes) : res bytes :=
  if 253 <? length name then Err InvalidName
  else
    '(out, cur) <- crn_loop (length name) name [] [] ;;
    let out :=
      if length cur =? 0 then out ++ [0%N]
      else out ++ [N.of_nat (length cur)] ++ cur ++
           match raw_zone with None => [0%N] | Some z => z end in
    if 253 <? length out then Err InvalidName               (* "Name too long" *)
    else Ok (raw_name ++ out).

Definition raw_name_from_str (name : bytes) (raw_zone : option bytes) : res bytes :=
  copy_raw_name_from_str [] name raw_zone.

(** [RR::new] (gen.rs:96) *)
Definition rr_new (name : bytes) (ttl cls rtype : N) (rdata : bytes) : res bytes :=
  if (65535 <? N.of_nat (length rdata))%N then Err InvalidPacket
  else
    pk <- copy_raw_name_from_str [] name None ;;
    Ok (pk ++ be16_bytes rtype ++ be16_bytes cls ++ be32_bytes ttl
           ++ be16_bytes (N.of_nat (length rdata)) ++ rdata).

(** [RR::new_question] (gen.rs:117) *)
Definition rr_new_question (name : bytes) (rtype cls : N) : res bytes :=
  pk <- copy_raw_name_from_str [] name None ;;
  Ok (pk ++ be16_bytes rtype ++ be16_bytes cls).

(** [txt.chunks(255)] *)
Fixpoint chunks255 (fuel : nat) (txt : bytes) : bytes :=
  match fuel with
  | O => []
  | S fuel' =>
    match txt with
    | [] => []
    | _ =>
      let c := firstn 255 txt in
      [N.of_nat (length c)] ++ c ++ chunks255 fuel' (skipn 255 txt)
    end
  end.

Definition TXT_MAX : nat := (4096 - 12 - 1 - 10) / 256 * 255.

Definition build_txt (name : bytes) (ttl : N) (txt : bytes) : res bytes :=
  if TXT_MAX <? length txt then Err InvalidPacket            (* "Text too long" *)
  else rr_new name ttl CLASS_IN TYPE_TXT (chunks255 (length txt + 1) txt).

Definition build_name_rr (rtype : N) (name : bytes) (ttl : N) (target : bytes) : res bytes :=
  rd <- raw_name_from_str target None ;;
  rr_new name ttl CLASS_IN rtype rd.

Definition build_mx (name : bytes) (ttl pref : N) (mxhost : bytes) : res bytes :=
  rd <- copy_raw_name_from_str (be16_bytes pref) mxhost None ;;
  rr_new name ttl CLASS_IN TYPE_MX rd.

Definition build_soa (name : bytes) (ttl : N) (primary_ns contact : bytes) (ts refresh retry auth neg : N)
  : res bytes :=
  rd <- copy_raw_name_from_str [] primary_ns None ;;
  rd <- copy_raw_name_from_str rd contact None ;;
  rr_new name ttl CLASS_IN TYPE_SOA
         (rd ++ be32_bytes ts ++ be32_bytes refresh ++ be32_bytes retry ++ be32_bytes auth ++ be32_bytes neg).

Definition build_ds (name : bytes) (ttl key_tag alg dtype : N) (digest : bytes) : res bytes :=
  rr_new name ttl CLASS_IN TYPE_DS (be16_bytes key_tag ++ [alg; dtype] ++ digest).

(** [gen::query] (gen.rs:80), with the random transaction id explicit. Runs in the mutation
    monad because [insert_rr] does. *)
Definition gen_query (tid : N) (name : bytes) (rtype cls : N) : res ppacket :=
  v <- pp_empty tid ;;
  v <- pp_set_response v false ;;
  rr <- rr_new_question name rtype cls ;;
  match run_pp (m_insert_rr SQuestion rr) v with
  | (v', Ok _) => Ok v'
  | (_, Err e) => Err e
  | (_, Panic x) => Panic x
  end.
