(** * Trusted readers: name skipping / copying / printing, section cursors and accessors.

    src/rr_iterator.rs (skip_name, skip_rdata, edns_skip_rr, accessors),
    src/compress.rs (copy_uncompressed_name, raw_name_to_str, raw_name_len),
    src/response_iterator.rs, src/question_iterator.rs, src/edns_iterator.rs,
    src/parsed_packet.rs:395-459 (question getters).

    These functions omit bounds checks because they rely on the validator; in the model every
    index and assertion is a Panic site, and the theorems show them unreachable on accepted
    packets. [maybe_skip_opt_section] follows the repaired code (it consumes the record count). *)

From DV Require Import Model.Base Model.Parser Model.Header.

(** ** RRIterator::skip_name (rr_iterator.rs:488) *)
Definition sk_step (p : bytes) (off : nat) : step_res nat (res nat) :=
  match nth_error p off with
  | None => Done (Panic 401)
  | Some len =>
    if (N.land len 192 =? 192)%N then
      (* assert!(packet_len - offset > 2) *)
      if length p - off <=? 2 then Done (Panic 402) else Done (Ok (off + 2))
    else
      let ll := N.to_nat len in
      (* assert!(label_len < packet_len - offset - 1) *)
      if length p - off - 1 <=? ll then Done (Panic 403)
      else if ll =? 0 then Done (Ok (off + 1))
      else Continue (off + ll + 1)
  end.

Definition skip_name (p : bytes) (off : nat) : res nat :=
  run_loop (sk_step p) (length p + 1) off.

(** rr_iterator.rs:509-531 *)
Definition rri_rdlen (p : bytes) (off : nat) : res nat :=
  v <- be16_at p (off + DNS_RR_RDLEN_OFFSET) 404 ;; Ok (N.to_nat v).
Definition skip_rdata (p : bytes) (off : nat) : res nat :=
  l <- rri_rdlen p off ;; Ok (off + DNS_RR_HEADER_SIZE + l).
Definition edns_skip_rr_raw (p : bytes) (off : nat) : res nat :=
  v <- be16_at p (off + DNS_EDNS_RR_RDLEN_OFFSET) 405 ;;
  Ok (off + DNS_EDNS_RR_HEADER_SIZE + N.to_nat v).

(** ** Compress::copy_uncompressed_name (compress.rs:101) *)
Record cu_state : Set := mk_cu {
  cu_off : nat; cu_name : bytes; cu_len : nat; cu_final : option nat }.

Definition cu_step (p : bytes) (s : cu_state) : step_res cu_state (res (bytes * nat * nat)) :=
  let off := cu_off s in
  match nth_error p off with
  | None => Done (Panic 411)
  | Some len =>
    if (N.land len 192 =? 192)%N then
      match nth_error p (off + 1) with
      | None => Done (Panic 412)                     (* read_u16(&packet[offset..]) *)
      | Some lo =>
        let new_offset := N.to_nat (N.land (len * 256 + lo) 16383) in
        if off <=? new_offset then Done (Panic 413)  (* assert!(new_offset < offset) *)
        else Continue {| cu_off := new_offset; cu_name := cu_name s; cu_len := cu_len s;
                         cu_final := opt_or (cu_final s) (Some (off + 2)) |}
      end
    else
      let ll := N.to_nat len in
      match slice p off (off + 1 + ll) 414 with
      | Panic x => Done (Panic x)
      | Err e => Done (Err e)
      | Ok lab =>
        let s' := {| cu_off := off + 1 + ll; cu_name := cu_name s ++ lab;
                     cu_len := cu_len s + 1 + ll; cu_final := cu_final s |} in
        if ll =? 0 then
          Done (Ok (cu_name s', cu_len s',
                    match cu_final s' with Some f => f | None => cu_off s' end))
        else Continue s'
      end
  end.

(** The Rust loop has no bound of its own; on a validated name it runs at most 128 + 16 + 1
    times. The fuel below is generous; running out is the model's [OutOfFuel] panic (the real
    code would not terminate), shown unreachable on accepted packets. *)
Definition cu_fuel : nat := 600.

(** Returns (name appended to [name0], name_len, final_offset). *)
Definition copy_uncompressed_name (name0 : bytes) (p : bytes) (off : nat) : res (bytes * nat * nat) :=
  run_loop (cu_step p) cu_fuel {| cu_off := off; cu_name := name0; cu_len := 0; cu_final := None |}.

(** ** Compress::raw_name_to_str (compress.rs:490) *)
Record ts_state : Set := mk_ts { ts_off : nat; ts_res : bytes; ts_ind : nat }.

Definition escape_dots (label : bytes) : bytes :=
  flat_map (fun c => if (c =? 46)%N then [92; 48; 52; 54]%N else [c]) label.

Definition ts_step (p : bytes) (s : ts_state) : step_res ts_state (res bytes) :=
  let off := ts_off s in
  match nth_error p off with
  | None => Done (Panic 421)
  | Some len =>
    if (len =? 0)%N then Done (Ok (ts_res s))
    else if (N.land len 192 =? 192)%N then
      match nth_error p (off + 1) with
      | None => Done (Panic 422)
      | Some lo =>
        let new_offset := N.to_nat (N.land (len * 256 + lo) 16383) in
        if (new_offset =? off) || (DNS_MAX_HOSTNAME_INDIRECTIONS <? ts_ind s) then Done (Ok (ts_res s))
        else Continue {| ts_off := new_offset; ts_res := ts_res s; ts_ind := ts_ind s + 1 |}
      end
    else
      let ll := N.to_nat len in
      match slice p (off + 1) (off + 1 + ll) 423 with
      | Panic x => Done (Panic x)
      | Err e => Done (Err e)
      | Ok lab =>
        let sep := match ts_res s with [] => [] | _ => [46%N] end in
        Continue {| ts_off := off + 1 + ll; ts_res := ts_res s ++ sep ++ escape_dots lab;
                    ts_ind := ts_ind s |}
      end
  end.

Definition raw_name_to_str (p : bytes) (off : nat) : res bytes :=
  run_loop (ts_step p) cu_fuel {| ts_off := off; ts_res := []; ts_ind := 0 |}.

Definition lower_byte (c : N) : N := if (65 <=? c)%N && (c <=? 90)%N then (c + 32)%N else c.
Definition ascii_lowercase (b : bytes) : bytes := map lower_byte b.

(** ** Compress::raw_name_len (compress.rs:452) *)
Definition rl_step (name : bytes) (i : nat) : step_res nat (res nat) :=
  match nth_error name i with
  | None => Done (Panic 431)
  | Some len =>
    if (len =? 0)%N then Done (Ok (i + 1))
    else if (N.land len 192 =? 192)%N then Done (Ok (i + 1 + 1))
    else Continue (i + N.to_nat len + 1)
  end.

Definition raw_name_len (name : bytes) : res nat := run_loop (rl_step name) (length name + 1) 0.

(** ** Section cursors *)

Record rrit : Set := mk_it {
  it_section : section;
  it_offset : option nat;
  it_offset_next : nat;
  it_name_end : nat;
  it_rrs_left : N
}.

Definition it_new (sec : section) : rrit :=
  {| it_section := sec; it_offset := None; it_offset_next := 0; it_name_end := 0; it_rrs_left := 0 |}.

Definition unwrap {A} (o : option A) (site : N) : res A :=
  match o with Some a => Ok a | None => Panic site end.

(** [Option<ResponseIterator>]: [Ok None] is the end of the section. *)

(** question_iterator.rs:74 *)
Definition q_next (v : ppacket) (it : rrit) : res (option rrit) :=
  let p := pp_packet v in
  start <-
    match it_offset it with
    | Some _ => Ok (Some (it_rrs_left it, it_offset_next it))
    | None =>
      count <- hdr_qdcount p ;;
      if (count =? 0)%N then Ok None
      else if negb (count =? 1)%N then Panic 441          (* debug_assert_eq!(count, 1) *)
      else o <- unwrap (pp_offset_question v) 442 ;; Ok (Some (count, o))
    end ;;
  match start with
  | None => Ok None
  | Some (nleft, onext) =>
    if (nleft =? 0)%N then Ok None
    else
      name_end <- skip_name p onext ;;
      Ok (Some {| it_section := it_section it; it_offset := Some onext;
                  it_offset_next := name_end + DNS_RR_QUESTION_HEADER_SIZE;
                  it_name_end := name_end; it_rrs_left := nleft - 1 |})
  end.

(** response_iterator.rs:90 *)
Definition r_next_including_opt (v : ppacket) (it : rrit) : res (option rrit) :=
  let p := pp_packet v in
  start <-
    match it_offset it with
    | Some _ => Ok (Some (it_rrs_left it, it_offset_next it))
    | None =>
      '(count, offset) <-
        match it_section it with
        | SAnswer => c <- hdr_ancount p ;; Ok (c, pp_offset_answers v)
        | SNameServers => c <- hdr_nscount p ;; Ok (c, pp_offset_nameservers v)
        | SAdditional => c <- hdr_arcount p ;; Ok (c, pp_offset_additional v)
        | _ => Panic 451                                   (* unreachable!("Unexpected section") *)
        end ;;
      if (count =? 0)%N then Ok None
      else o <- unwrap offset 452 ;; Ok (Some (count, o))
    end ;;
  match start with
  | None => Ok None
  | Some (nleft, onext) =>
    if (nleft =? 0)%N then Ok None
    else
      name_end <- skip_name p onext ;;
      offset_next <- skip_rdata p name_end ;;
      Ok (Some {| it_section := it_section it; it_offset := Some onext;
                  it_offset_next := offset_next; it_name_end := name_end;
                  it_rrs_left := nleft - 1 |})
  end.

(** [&raw.packet[raw.name_end..]] then a big-endian read *)
Definition it_rd16 (v : ppacket) (it : rrit) (k : nat) (site : N) : res N :=
  _ <- unwrap (it_offset it) 461 ;;                        (* raw(): offset.unwrap() *)
  _ <- slice_from (pp_packet v) (it_name_end it) 462 ;;
  be16_at (pp_packet v) (it_name_end it + k) site.

Definition it_rr_type v it := it_rd16 v it DNS_RR_TYPE_OFFSET 463.
Definition it_rr_class v it := it_rd16 v it DNS_RR_CLASS_OFFSET 464.
Definition it_rr_rdlen v it : res nat := x <- it_rd16 v it DNS_RR_RDLEN_OFFSET 465 ;; Ok (N.to_nat x).
Definition it_rr_ttl (v : ppacket) (it : rrit) : res N :=
  _ <- unwrap (it_offset it) 461 ;;
  _ <- slice_from (pp_packet v) (it_name_end it) 462 ;;
  be32_at (pp_packet v) (it_name_end it + DNS_RR_TTL_OFFSET) 466.

(** response_iterator.rs:129, repaired: the skipped OPT record consumes one of [rrs_left]. *)
Definition maybe_skip_opt_section (v : ppacket) (it : rrit) : res (option rrit) :=
  let p := pp_packet v in
  t <- it_rr_type v it ;;
  if (t =? TYPE_OPT)%N then
    if negb (section_eqb (it_section it) SAdditional) then Panic 471   (* debug_assert_eq! *)
    else if (it_rrs_left it =? 0)%N then Ok None
    else
      name_end <- skip_name p (it_offset_next it) ;;
      offset_next <- skip_rdata p name_end ;;
      let it' := {| it_section := it_section it; it_offset := Some (it_offset_next it);
                    it_offset_next := offset_next; it_name_end := name_end;
                    it_rrs_left := it_rrs_left it - 1 |} in
      t' <- it_rr_type v it' ;;
      if (t' =? TYPE_OPT)%N then Panic 472                 (* debug_assert!(rr_type != OPT) *)
      else Ok (Some it')
  else Ok (Some it).

Definition r_next (v : ppacket) (it : rrit) : res (option rrit) :=
  o <- r_next_including_opt v it ;;
  match o with
  | None => Ok None
  | Some it' => maybe_skip_opt_section v it'
  end.

(** edns_iterator.rs:71 *)
Definition e_next (v : ppacket) (it : rrit) : res (option rrit) :=
  let p := pp_packet v in
  start <-
    match it_offset it with
    | Some _ => Ok (Some (it_rrs_left it, it_offset_next it))
    | None =>
      if (pp_edns_count v =? 0)%N then Ok None
      else o <- unwrap (pp_offset_edns v) 481 ;; Ok (Some (pp_edns_count v, o))
    end ;;
  match start with
  | None => Ok None
  | Some (nleft, onext) =>
    if (nleft =? 0)%N then Ok None
    else
      offset_next <- edns_skip_rr_raw p onext ;;
      Ok (Some {| it_section := it_section it; it_offset := Some onext;
                  it_offset_next := offset_next; it_name_end := onext;
                  it_rrs_left := nleft - 1 |})
  end.

(** ** Accessors (TypedIterable / RdataIterable) *)

(** rr_iterator.rs:142 *)
Definition it_name (v : ppacket) (it : rrit) : res bytes :=
  off <- unwrap (it_offset it) 461 ;;
  if it_name_end it <=? off then Ok []
  else s <- raw_name_to_str (pp_packet v) off ;; Ok (ascii_lowercase s).

(** rr_iterator.rs:160: (appended bytes, returned length) *)
Definition it_copy_raw_name (v : ppacket) (it : rrit) : res (bytes * nat) :=
  off <- unwrap (it_offset it) 461 ;;
  if it_name_end it <=? off then Ok ([], 0)
  else '(nm, l, _) <- copy_uncompressed_name [] (pp_packet v) off ;; Ok (nm, l).

Definition opt_lt (a b : option nat) : bool :=
  match a, b with
  | None, None => false
  | None, Some _ => true
  | Some _, None => false
  | Some x, Some y => x <? y
  end.
Definition opt_ge (a b : option nat) : bool := negb (opt_lt a b).
Definition is_some {A} (o : option A) : bool := match o with Some _ => true | None => false end.

(** rr_iterator.rs:172 *)
Definition it_current_section (v : ppacket) (it : rrit) : res section :=
  let offset := it_offset it in
  if opt_lt offset (pp_offset_question v) then Err InternalError
  else
    let s := SQuestion in
    let s := if is_some (pp_offset_answers v) && opt_ge offset (pp_offset_answers v) then SAnswer else s in
    let s := if is_some (pp_offset_nameservers v) && opt_ge offset (pp_offset_nameservers v) then SNameServers else s in
    let s := if is_some (pp_offset_additional v) && opt_ge offset (pp_offset_additional v) then SAdditional else s in
    Ok s.

(** rr_iterator.rs:392. [Ok (inl 4-bytes) | Ok (inr 16-bytes)] are modelled as the raw bytes. *)
Definition it_rr_ip (v : ppacket) (it : rrit) : res bytes :=
  t <- it_rr_type v it ;;
  rd <- slice_from (pp_packet v) (it_name_end it) 462 ;;
  if (t =? TYPE_A)%N then
    if length rd <? DNS_RR_HEADER_SIZE + 4 then Panic 491
    else slice rd DNS_RR_HEADER_SIZE (DNS_RR_HEADER_SIZE + 4) 492
  else if (t =? TYPE_AAAA)%N then
    if length rd <? DNS_RR_HEADER_SIZE + 16 then Panic 493
    else slice rd DNS_RR_HEADER_SIZE (DNS_RR_HEADER_SIZE + 16) 494
  else Err PropertyNotFound.

(** rr_iterator.rs:379: [inl ip] or [inr data] *)
Definition it_rr_rd (v : ppacket) (it : rrit) : res (bytes + bytes) :=
  match it_rr_ip v it with
  | Ok ip => Ok (inl ip)
  | Panic x => Panic x
  | Err _ =>
    l <- it_rr_rdlen v it ;;
    rd <- slice_from (pp_packet v) (it_name_end it) 462 ;;
    d <- slice rd DNS_RR_HEADER_SIZE (DNS_RR_HEADER_SIZE + l) 495 ;;
    Ok (inr d)
  end.

(** ** Question getters with their cache (parsed_packet.rs:395-459) *)

Definition pp_with_cached (v : ppacket) (c : option (bytes * N * N)) : ppacket :=
  {| pp_packet := pp_packet v;
     pp_offset_question := pp_offset_question v; pp_offset_answers := pp_offset_answers v;
     pp_offset_nameservers := pp_offset_nameservers v; pp_offset_additional := pp_offset_additional v;
     pp_offset_edns := pp_offset_edns v; pp_edns_count := pp_edns_count v;
     pp_ext_rcode := pp_ext_rcode v; pp_edns_version := pp_edns_version v;
     pp_ext_flags := pp_ext_flags v; pp_maybe_compressed := pp_maybe_compressed v;
     pp_max_payload := pp_max_payload v; pp_cached := c |}.

Definition type_class_at (p : bytes) (off : nat) : res (N * N) :=
  _ <- slice_from p off 501 ;;
  t <- be16_at p (off + DNS_RR_TYPE_OFFSET) 502 ;;
  c <- be16_at p (off + DNS_RR_CLASS_OFFSET) 503 ;;
  Ok (t, c).

(** [question_raw0]: fills the cache. Returns the new object and the result. *)
Definition pp_question_raw0 (v : ppacket) : res (ppacket * option (bytes * N * N)) :=
  match pp_cached v with
  | Some c => Ok (v, Some c)
  | None =>
    match pp_offset_question v with
    | None => Ok (v, None)
    | Some off =>
      '(nm, _, fin) <- copy_uncompressed_name [] (pp_packet v) off ;;
      '(t, c) <- type_class_at (pp_packet v) fin ;;
      Ok (pp_with_cached v (Some (nm, t, c)), Some (nm, t, c))
    end
  end.

(** [question_raw]: the name without its trailing root byte; [&name[..name.len() - 1]]
    underflows on an empty name (Panic site). *)
Definition pp_question_raw (v : ppacket) : res (ppacket * option (bytes * N * N)) :=
  '(v', r) <- pp_question_raw0 v ;;
  match r with
  | None => Ok (v', None)
  | Some (nm, t, c) =>
    n <- usub (length nm) 1 504 ;;
    Ok (v', Some (firstn n nm, t, c))
  end.

(** [question]: does not fill the cache but reads through it. *)
Definition pp_question (v : ppacket) : res (option (bytes * N * N)) :=
  match pp_cached v with
  | Some (nm, t, c) =>
    s <- raw_name_to_str nm 0 ;; Ok (Some (ascii_lowercase s, t, c))
  | None =>
    match pp_offset_question v with
    | None => Ok None
    | Some off =>
      s <- raw_name_to_str (pp_packet v) off ;;
      tail <- slice_from (pp_packet v) off 505 ;;
      l <- raw_name_len tail ;;
      '(t, c) <- type_class_at (pp_packet v) (off + l) ;;
      Ok (Some (ascii_lowercase s, t, c))
    end
  end.

Definition pp_qtype_qclass (v : ppacket) : res (option (N * N)) :=
  match pp_cached v with
  | Some (_, t, c) => Ok (Some (t, c))
  | None =>
    match pp_offset_question v with
    | None => Ok None
    | Some off =>
      tail <- slice_from (pp_packet v) off 506 ;;
      l <- raw_name_len tail ;;
      r <- type_class_at (pp_packet v) (off + l) ;;
      Ok (Some r)
    end
  end.
