(** * Record text grammar: src/synth/parser.rs on top of chomp1-0.3.4.

    A parser is a function [bytes -> option (A * bytes)] ([None] = parse error): chomp's
    [&[u8]] input with ordered choice and backtracking to a mark ([or], [look_ahead], the failed
    iteration of [many1]).  External code reproduced here (trusted base): the chomp combinators,
    [u8::eq_ignore_ascii_case], [hex::decode], and [Ipv6Addr::from_str] restricted to strings of
    hex digits and colons (all that [ipv6_parser] passes to it).
    [hexstring_parser] follows the repaired code: an odd number of digits is a parse error;
    [hostname_parser] follows the repaired code: a 62-byte label may end the name. *)

From DV Require Import Model.Base Model.Parser Model.Header Model.Readers Model.Uncompress Model.Mutate Model.Gen.

Definition parser (A : Type) : Type := bytes -> option (A * bytes).

Definition pret {A} (a : A) : parser A := fun i => Some (a, i).
Definition pfail {A} : parser A := fun _ => None.
Definition pbind {A B} (p : parser A) (f : A -> parser B) : parser B :=
  fun i => match p i with Some (a, i') => f a i' | None => None end.

Notation "x <~~ e ;; k" := (pbind e (fun x => k)) (at level 61, e at next level, right associativity).
Notation "e ;;~ k" := (pbind e (fun _ => k)) (at level 61, right associativity).

Definition satisfy (f : N -> bool) : parser N :=
  fun i => match i with c :: i' => if f c then Some (c, i') else None | [] => None end.
Definition token (t : N) : parser N := satisfy (fun c => (c =? t)%N).
Definition not_token (t : N) : parser N := satisfy (fun c => negb (c =? t)%N).
Definition eof : parser unit := fun i => match i with [] => Some (tt, []) | _ => None end.

Fixpoint span (f : N -> bool) (i : bytes) : bytes * bytes :=
  match i with
  | c :: i' => if f c then let '(a, b) := span f i' in (c :: a, b) else ([], i)
  | [] => ([], [])
  end.

Definition take_while1 (f : N -> bool) : parser bytes :=
  fun i => let '(a, b) := span f i in match a with [] => None | _ => Some (a, b) end.
Definition skip_while (f : N -> bool) : parser unit :=
  fun i => Some (tt, snd (span f i)).

Definition por {A} (p q : parser A) : parser A :=
  fun i => match p i with Some r => Some r | None => q i end.
Definition look_ahead {A} (p : parser A) : parser A :=
  fun i => match p i with Some (a, _) => Some (a, i) | None => None end.

(** [many1]: the failed iteration is undone; at least one success is required. Each successful
    iteration of the parsers used here consumes at least one byte, so [length i] is enough fuel. *)
Fixpoint many_fuel {A} (fuel : nat) (p : parser A) (i : bytes) : list A * bytes :=
  match fuel with
  | O => ([], i)
  | S fuel' =>
    match p i with
    | None => ([], i)
    | Some (a, i') => let '(l, r) := many_fuel fuel' p i' in (a :: l, r)
    end
  end.
Definition many1 {A} (p : parser A) : parser (list A) :=
  fun i => match many_fuel (length i + 1) p i with ([], _) => None | (l, r) => Some (l, r) end.

(** ** Character classes *)
Definition is_hws (c : N) : bool := (c =? 32)%N || (c =? 9)%N.
Definition is_ws (c : N) : bool := ((9 <=? c)%N && (c <=? 13)%N) || (c =? 32)%N.
Definition is_digit (c : N) : bool := (48 <=? c)%N && (c <=? 57)%N.
Definition is_alpha (c : N) : bool := ((97 <=? c)%N && (c <=? 122)%N) || ((65 <=? c)%N && (c <=? 90)%N).
Definition is_alphanumeric (c : N) : bool := is_alpha c || is_digit c.
Definition is_hexdigit (c : N) : bool :=
  is_digit c || ((97 <=? c)%N && (c <=? 102)%N) || ((65 <=? c)%N && (c <=? 70)%N).

Definition horizontal_whitespace : parser unit := satisfy is_hws ;;~ pret tt.
Definition maybe_skip_hws : parser unit := skip_while is_hws.
Definition skip_hws : parser unit := horizontal_whitespace ;;~ maybe_skip_hws.
Definition skip_whitespace : parser unit := skip_while is_ws.

(** [fold(Some(0), |x, c| x.checked_mul(10).checked_add(c - '0'))] with bound [max] *)
Fixpoint dec_fold (max : N) (ds : bytes) (acc : N) : option N :=
  match ds with
  | [] => Some acc
  | d :: ds' =>
    let m := (acc * 10)%N in
    if (max <? m)%N then None
    else let a := (m + (d - 48))%N in if (max <? a)%N then None else dec_fold max ds' a
  end.

Definition decimal (max : N) : parser N :=
  ds <~~ take_while1 is_digit ;;
  match dec_fold max ds 0 with Some v => pret v | None => pfail end.
Definition decimal_u8 := decimal 255.
Definition decimal_u16 := decimal 65535.
Definition decimal_u32 := decimal 4294967295.

Definition escaped_char : parser N :=
  a <~~ satisfy is_digit ;; b <~~ satisfy is_digit ;; c <~~ satisfy is_digit ;;
  let r := ((a - 48) * 100 + (b - 48) * 10 + (c - 48))%N in
  if (r <=? 255)%N then pret r else pfail.

Definition maybe_escaped_char : parser N :=
  por (token 92 ;;~ escaped_char)
      (satisfy (fun c => (31 <? c)%N && (c <? 128)%N && negb (c =? 92)%N)).

Definition quoted_and_escaped_string : parser bytes :=
  token 34 ;;~
  all <~~ many1 (look_ahead (not_token 34) ;;~ maybe_escaped_char) ;;
  token 34 ;;~
  pret all.

Definition ttl_parser : parser N := t <~~ decimal_u32 ;; horizontal_whitespace ;;~ pret t.

Definition class_parser : parser unit :=
  satisfy (fun c => (c =? 73)%N || (c =? 105)%N) ;;~
  satisfy (fun c => (c =? 78)%N || (c =? 110)%N) ;;~ pret tt.

Definition upper_byte (c : N) : N := if (97 <=? c)%N && (c <=? 122)%N then (c - 32)%N else c.
Fixpoint bytes_eqb (a b : bytes) : bool :=
  match a, b with
  | [], [] => true
  | x :: a', y :: b' => (x =? y)%N && bytes_eqb a' b'
  | _, _ => false
  end.
Definition eq_ignore_case (a b : bytes) : bool := bytes_eqb (map upper_byte a) (map upper_byte b).

(** [rr_type_from_str]: A AAAA NS CNAME PTR TXT MX SOA DS *)
Definition rr_type_from_str (s : bytes) : option N :=
  if eq_ignore_case s [65]%N then Some TYPE_A
  else if eq_ignore_case s [65;65;65;65]%N then Some TYPE_AAAA
  else if eq_ignore_case s [78;83]%N then Some TYPE_NS
  else if eq_ignore_case s [67;78;65;77;69]%N then Some TYPE_CNAME
  else if eq_ignore_case s [80;84;82]%N then Some TYPE_PTR
  else if eq_ignore_case s [84;88;84]%N then Some TYPE_TXT
  else if eq_ignore_case s [77;88]%N then Some TYPE_MX
  else if eq_ignore_case s [83;79;65]%N then Some TYPE_SOA
  else if eq_ignore_case s [68;83]%N then Some TYPE_DS
  else None.

Definition rr_type_parser : parser N :=
  s <~~ take_while1 is_alphanumeric ;;
  match rr_type_from_str s with Some t => pret t | None => pfail end.

Definition ipv4_parser : parser bytes :=
  a <~~ decimal_u8 ;; token 46 ;;~ b <~~ decimal_u8 ;; token 46 ;;~
  c <~~ decimal_u8 ;; token 46 ;;~ d <~~ decimal_u8 ;; pret [a; b; c; d].

(** *** [Ipv6Addr::from_str] on hex-and-colon strings (core::net::parser) *)
Definition hexval (c : N) : N :=
  if is_digit c then (c - 48)%N
  else if (97 <=? c)%N then (c - 87)%N else (c - 55)%N.

(** [read_number(16, Some(4), true)]: all consecutive hex digits; none or more than four fail *)
Definition read_hexnum (s : bytes) : option (N * bytes) :=
  let '(ds, rest) := span is_hexdigit s in
  if (length ds =? 0) || (4 <? length ds) then None
  else Some (fold_left (fun acc d => (acc * 16 + hexval d)%N) ds 0%N, rest).

(** [read_groups]: colon-separated groups, at most [limit]; stops (without consuming) at the
    first position where a group cannot be read. *)
Fixpoint read_groups (limit : nat) (i : nat) (s : bytes) : list N * bytes :=
  match limit with
  | O => ([], s)
  | S limit' =>
    let s1 := if i =? 0 then Some s else match s with 58%N :: t => Some t | _ => None end in
    match s1 with
    | None => ([], s)
    | Some s1' =>
      match read_hexnum s1' with
      | None => ([], s)
      | Some (g, rest) => let '(gs, r) := read_groups limit' (S i) rest in (g :: gs, r)
      end
    end
  end.

Definition ipv6_from_str (s : bytes) : option bytes :=
  let '(head, r) := read_groups 8 0 s in
  let groups :=
    if length head =? 8 then match r with [] => Some head | _ => None end
    else
      match r with
      | 58%N :: 58%N :: r2 =>
        let '(tail, r3) := read_groups (8 - (length head + 1)) 0 r2 in
        match r3 with
        | [] => Some (head ++ repeat 0%N (8 - length head - length tail) ++ tail)
        | _ => None
        end
      | _ => None
      end in
  match groups with
  | Some gs => Some (flat_map be16_bytes gs)
  | None => None
  end.

Definition ipv6_parser : parser bytes :=
  s <~~ take_while1 (fun c => is_hexdigit c || (c =? 58)%N) ;;
  match ipv6_from_str s with Some a => pret a | None => pfail end.

(** [hex::decode]; repaired: an odd number of digits is a parse error, not an unwrap panic *)
Fixpoint hex_pairs (s : bytes) : option bytes :=
  match s with
  | [] => Some []
  | a :: b :: s' => match hex_pairs s' with Some r => Some ((hexval a * 16 + hexval b)%N :: r) | None => None end
  | _ => None
  end.

Definition hexstring_parser : parser bytes :=
  s <~~ take_while1 is_hexdigit ;;
  match hex_pairs s with Some b => pret b | None => pfail end.

(** *** hostname_parser: take_while1 over a closure with four mutable variables *)
Record hn_state : Set := mk_hn { hn_label_len : nat; hn_name_len : nat; hn_only_numeric : bool; hn_format_err : bool }.

(** one call of the closure: new state and the returned boolean *)
Definition hn_pred (s : hn_state) (c : N) : hn_state * bool :=
  let name_len := hn_name_len s + 1 in
  let ll := hn_label_len s in
  if (c =? 46)%N then
    if ll =? 0 then
      if negb (name_len =? 1) then (mk_hn ll name_len (hn_only_numeric s) true, false)
      else (mk_hn ll name_len false (hn_format_err s), true)
    else (mk_hn 0 name_len (hn_only_numeric s) (hn_format_err s), true)
  else if (63 - 1 <=? ll) && ((c =? 95)%N || (c =? 45)%N || is_alpha c || is_digit c) then
    (* repaired: only a further name character makes the label too long, not the terminator *)
    (mk_hn ll name_len (hn_only_numeric s) true, false)
  else if ((c =? 95)%N && (ll =? 0)) || ((c =? 45)%N && (0 <? ll)) || is_alpha c then
    (mk_hn (ll + 1) name_len false (hn_format_err s), true)
  else if is_digit c then (mk_hn (ll + 1) name_len (hn_only_numeric s) (hn_format_err s), true)
  else (mk_hn ll name_len (hn_only_numeric s) (hn_format_err s), false).

Fixpoint hn_span (s : hn_state) (i : bytes) : hn_state * bytes * bytes :=
  match i with
  | [] => (s, [], [])
  | c :: i' =>
    let '(s', ok) := hn_pred s c in
    if ok then let '(s'', a, b) := hn_span s' i' in (s'', c :: a, b)
    else (s', [], i)
  end.

Definition hostname_parser : parser bytes :=
  fun i =>
    let '(s, name, rest) := hn_span (mk_hn 0 0 true false) i in
    match name with
    | [] => None
    | _ =>
      if hn_format_err s || (hn_only_numeric s && (hn_label_len s =? 0)) then None
      else Some (name, rest)
    end.

(** ** Records *)

Record rr_header : Set := mk_hdr { h_name : bytes; h_ttl : N; h_type : N }.

Definition rr_common_parser : parser rr_header :=
  maybe_skip_hws ;;~
  name <~~ hostname_parser ;;
  maybe_skip_hws ;;~
  ttl <~~ ttl_parser ;;
  maybe_skip_hws ;;~
  class_parser ;;~
  skip_hws ;;~
  t <~~ rr_type_parser ;;
  pret (mk_hdr name ttl t).

Definition tail_eof {A} (a : A) : parser A := maybe_skip_hws ;;~ eof ;;~ pret a.

(** The per-type rdata parser mapped through the builder: the parser succeeds with the builder's
    [Result]. *)
Definition rr_rdata (h : rr_header) : parser (res bytes) :=
  let t := h_type h in
  if (t =? TYPE_A)%N then
    ip <~~ ipv4_parser ;; tail_eof (rr_new (h_name h) (h_ttl h) CLASS_IN TYPE_A ip)
  else if (t =? TYPE_AAAA)%N then
    ip <~~ ipv6_parser ;; tail_eof (rr_new (h_name h) (h_ttl h) CLASS_IN TYPE_AAAA ip)
  else if (t =? TYPE_NS)%N || (t =? TYPE_CNAME)%N || (t =? TYPE_PTR)%N then
    n <~~ hostname_parser ;; tail_eof (build_name_rr t (h_name h) (h_ttl h) n)
  else if (t =? TYPE_TXT)%N then
    s <~~ quoted_and_escaped_string ;; tail_eof (build_txt (h_name h) (h_ttl h) s)
  else if (t =? TYPE_MX)%N then
    pref <~~ decimal_u16 ;; skip_hws ;;~ n <~~ hostname_parser ;;
    tail_eof (build_mx (h_name h) (h_ttl h) pref n)
  else if (t =? TYPE_SOA)%N then
    ns <~~ hostname_parser ;; skip_hws ;;~ contact <~~ hostname_parser ;; maybe_skip_hws ;;~
    token 40 ;;~ skip_whitespace ;;~
    ts <~~ decimal_u32 ;; skip_whitespace ;;~
    refresh <~~ decimal_u32 ;; skip_whitespace ;;~
    retry <~~ decimal_u32 ;; skip_whitespace ;;~
    auth <~~ decimal_u32 ;; skip_whitespace ;;~
    neg <~~ decimal_u32 ;; skip_whitespace ;;~
    token 41 ;;~
    tail_eof (build_soa (h_name h) (h_ttl h) ns contact ts refresh retry auth neg)
  else if (t =? TYPE_DS)%N then
    key_tag <~~ decimal_u16 ;; skip_hws ;;~ alg <~~ decimal_u8 ;; skip_hws ;;~
    dtype <~~ decimal_u8 ;; skip_hws ;;~ digest <~~ hexstring_parser ;;
    tail_eof (build_ds (h_name h) (h_ttl h) key_tag alg dtype digest)
  else pfail.

Definition rr_parser : parser (res bytes) :=
  h <~~ rr_common_parser ;; skip_hws ;;~ rr_rdata h.

(** [RR::from_string] (gen.rs:128): the wire form of the record. *)
Definition rr_from_string (s : bytes) : res bytes :=
  match rr_parser s with
  | None => Err ParseError
  | Some (r, _) => r
  end.

(** [ParsedPacket::insert_rr_from_string] *)
Definition m_insert_rr_from_string (sec : section) (s : bytes) : cm unit :=
  rr <-- clift (rr_from_string s) ;;
  m_insert_rr sec rr.
