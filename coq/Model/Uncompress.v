(** * Decompression: src/compress.rs:135-197 (uncompress_rdata), :268-350. *)

From DV Require Import Model.Base Model.Parser Model.Header Model.Readers.

(** [BigEndian::write_u16(&mut out[at..], v as u16)] *)
Definition patch_u16 (out : bytes) (at_ : nat) (v : nat) (site : N) : res bytes :=
  write_at out at_ (be16_bytes (N.of_nat v mod 65536)) site.

(** [out.extend_from_slice(&rdata[..n])] where [rdata = &packet[name_end..]] *)
Definition take_rdata (p : bytes) (name_end n : nat) (site : N) : res bytes :=
  rd <- slice_from p name_end site ;;
  slice rd 0 n site.

Definition is_name_type (t : N) : bool :=
  (t =? TYPE_NS)%N || (t =? TYPE_CNAME)%N || (t =? TYPE_PTR)%N.

(** compress.rs:135. [rr_type = None] is the question. *)
Definition uncompress_rdata (out : bytes) (p : bytes) (name_end : nat)
           (rr_type : option N) (rr_rdlen : option nat) : res bytes :=
  match rr_type with
  | None =>
    h <- take_rdata p name_end DNS_RR_QUESTION_HEADER_SIZE 511 ;; Ok (out ++ h)
  | Some t =>
    if is_name_type t then
      let offset := length out in
      h <- take_rdata p name_end DNS_RR_HEADER_SIZE 512 ;;
      '(out1, nlen, _) <- copy_uncompressed_name (out ++ h) p (name_end + DNS_RR_HEADER_SIZE) ;;
      patch_u16 out1 (offset + DNS_RR_RDLEN_OFFSET) nlen 513
    else if (t =? TYPE_MX)%N then
      let offset := length out in
      h <- take_rdata p name_end (DNS_RR_HEADER_SIZE + 2) 514 ;;
      '(out1, nlen, _) <- copy_uncompressed_name (out ++ h) p (name_end + DNS_RR_HEADER_SIZE + 2) ;;
      patch_u16 out1 (offset + DNS_RR_RDLEN_OFFSET) (2 + nlen) 515
    else if (t =? TYPE_SOA)%N then
      let offset := length out in
      h <- take_rdata p name_end DNS_RR_HEADER_SIZE 516 ;;
      '(out1, l1, f1) <- copy_uncompressed_name (out ++ h) p (name_end + DNS_RR_HEADER_SIZE) ;;
      '(out2, l2, f2) <- copy_uncompressed_name out1 p f1 ;;
      tail <- slice p f2 (f2 + 20) 517 ;;
      patch_u16 (out2 ++ tail) (offset + DNS_RR_RDLEN_OFFSET) (l1 + l2 + 20) 518
    else
      l <- unwrap rr_rdlen 519 ;;
      h <- take_rdata p name_end (DNS_RR_HEADER_SIZE + l) 520 ;;
      Ok (out ++ h)
  end.

(** Accumulator of the re-emission: output so far, translated reference offset. *)
Definition uacc : Set := (bytes * option nat)%type.

Definition emit_record (v : ppacket) (ref_offset : nat) (question : bool) (acc : uacc) (it : rrit)
  : res uacc :=
  let '(out, new_offset) := acc in
  let new_offset :=
    match it_offset it with
    | Some o => if o =? ref_offset then Some (length out) else new_offset
    | None => new_offset
    end in
  '(nm, _) <- it_copy_raw_name v it ;;
  _ <- unwrap (it_offset it) 521 ;;                     (* item.raw() *)
  if question then
    out' <- uncompress_rdata (out ++ nm) (pp_packet v) (it_name_end it) None None ;;
    Ok (out', new_offset)
  else
    t <- it_rr_type v it ;;
    l <- it_rr_rdlen v it ;;
    out' <- uncompress_rdata (out ++ nm) (pp_packet v) (it_name_end it) (Some t) (Some l) ;;
    Ok (out', new_offset).

(** [let mut it = first; while let Some(item) = it { body; it = item.next() }] *)
Fixpoint walk_fold {Acc : Type} (fuel : nat) (next : rrit -> res (option rrit))
         (body : Acc -> rrit -> res Acc) (cur : option rrit) (acc : Acc) : res Acc :=
  match cur with
  | None => Ok acc
  | Some it =>
    match fuel with
    | O => Panic OutOfFuel
    | S fuel' =>
      acc' <- body acc it ;;
      nxt <- next it ;;
      walk_fold fuel' next body nxt acc'
    end
  end.

Definition walk_fuel (p : bytes) : nat := length p + 2.

(** compress.rs:268 *)
Definition uncompress_with_previous_offset (p : bytes) (ref_offset : nat) : res (bytes * nat) :=
  if length p <? DNS_HEADER_SIZE then Err PacketTooSmall
  else
    let out := firstn DNS_HEADER_SIZE p in
    v <- parse p ;;
    let fuel := walk_fuel p in
    q0 <- q_next v (it_new SQuestion) ;;
    acc <- walk_fold fuel (q_next v) (emit_record v ref_offset true) q0 (out, None) ;;
    a0 <- r_next v (it_new SAnswer) ;;
    acc <- walk_fold fuel (r_next v) (emit_record v ref_offset false) a0 acc ;;
    n0 <- r_next v (it_new SNameServers) ;;
    acc <- walk_fold fuel (r_next v) (emit_record v ref_offset false) n0 acc ;;
    d0 <- r_next_including_opt v (it_new SAdditional) ;;
    acc <- walk_fold fuel (r_next_including_opt v) (emit_record v ref_offset false) d0 acc ;;
    let '(out, new_offset) := acc in
    let new_offset := if ref_offset =? length p then Some (length out) else new_offset in
    o <- unwrap new_offset 522 ;;   (* .expect("Previous offset not found at a record boundary") *)
    Ok (out, o).

Definition uncompress (p : bytes) : res bytes :=
  '(out, _) <- uncompress_with_previous_offset p DNS_HEADER_SIZE ;; Ok out.
