(** * The per-thread error slot of the C table (src/c_abi.rs:20-44) and explicit ambient state.

    [CERR] is a [thread_local!] [RefCell<CErr>]: one slot per thread.  [throw_err] stores the message
    of the failing call in the calling thread's slot and hands out a pointer to it;
    [error_description] reads the slot.  A schedule is any interleaving of these steps over any
    number of threads. *)
From DV Require Import Model.Base.

Inductive cop : Set :=
| CFail (t : nat) (msg : N)     (* a failing table call on thread t whose error text is msg *)
| CRead (t : nat).              (* error_description on thread t *)

(** slots: thread id -> last message ([None] = the initial empty description) *)
Definition slots : Type := nat -> option N.
Definition slots_init : slots := fun _ => None.
Definition slot_set (s : slots) (t : nat) (m : N) : slots :=
  fun u => if Nat.eqb u t then Some m else s u.

Fixpoint run_sched (s : slots) (ops : list cop) : list (nat * option N) :=
  match ops with
  | [] => []
  | CFail t m :: ops' => run_sched (slot_set s t m) ops'
  | CRead t :: ops' => (t, s t) :: run_sched s ops'
  end.

(** The specification: the most recent failure of thread [t] in a history (latest first). *)
Fixpoint last_fail (t : nat) (rev_hist : list cop) : option N :=
  match rev_hist with
  | [] => None
  | CFail u m :: h => if Nat.eqb u t then Some m else last_fail t h
  | CRead _ :: h => last_fail t h
  end.

(** Reads paired with the history that precedes them. *)
Fixpoint reads_with_history (rev_hist : list cop) (ops : list cop) : list (nat * option N) :=
  match ops with
  | [] => []
  | CRead t :: ops' => (t, last_fail t rev_hist) :: reads_with_history (CRead t :: rev_hist) ops'
  | op :: ops' => reads_with_history (op :: rev_hist) ops'
  end.

(** ** Ambient state made explicit (C17): what persists between API calls. *)
Record ambient : Set := mk_amb {
  amb_slots_len : nat;       (* abstracts the error slots (never read by the pure API) *)
  amb_rng : N                (* the state of the random generator *)
}.

(** Every pure entry point takes the ambient state and ignores it; [empty] draws its id from it. *)
Definition api_pure {A B} (f : A -> B) (amb : ambient) (x : A) : B * ambient := (f x, amb).
