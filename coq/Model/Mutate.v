(** * In-place mutation of a parsed packet (C08-C11).

    src/parsed_packet.rs:230-393 (rrcount_inc/dec, insertion_offset, insert_rr, recompute),
    src/rr_iterator.rs:121-135 (cursor uncompress), :197-323 (resize_rr, set_raw_name, delete),
    :362-442 (TTL / address setters), :476-484 (RRIterator::recompute).

    Rust methods take [&mut self] and return early with [?]: an error can leave the object
    partly updated.  The model is therefore written in a state-and-error monad over the pair
    (object, cursor): a failing operation returns the state reached at the point of failure, which
    is what C10 ("a failed operation changes nothing") is about.

    The model follows the repaired code (known_findings.json, `fixed` entries); each repair was
    first exhibited by a check of this framework against the unrepaired tree. *)

From DV Require Import Model.Base Model.NameCheck Model.Parser Model.Header Model.Readers Model.Uncompress.

Definition st : Set := (ppacket * rrit)%type.
Definition cm (A : Type) : Type := st -> st * res A.

Definition cret {A} (a : A) : cm A := fun s => (s, Ok a).
Definition clift {A} (r : res A) : cm A := fun s => (s, r).
Definition cbind {A B} (m : cm A) (f : A -> cm B) : cm B :=
  fun s =>
    let '(s1, r) := m s in
    match r with
    | Ok a => f a s1
    | Err e => (s1, Err e)
    | Panic x => (s1, Panic x)
    end.
Definition getv : cm ppacket := fun s => (s, Ok (fst s)).
Definition getit : cm rrit := fun s => (s, Ok (snd s)).
Definition putv (v : ppacket) : cm unit := fun s => ((v, snd s), Ok tt).
Definition putit (it : rrit) : cm unit := fun s => ((fst s, it), Ok tt).

Notation "x <-- e ;; k" := (cbind e (fun x => k))
  (at level 61, e at next level, right associativity).
Notation "e ;;- k" := (cbind e (fun _ => k))
  (at level 61, right associativity).

Definition pp_update (v : ppacket) (p : bytes) (oq oan ons oar oed : option nat) (mc : bool)
           (c : option (bytes * N * N)) : ppacket :=
  {| pp_packet := p;
     pp_offset_question := oq; pp_offset_answers := oan; pp_offset_nameservers := ons;
     pp_offset_additional := oar; pp_offset_edns := oed;
     pp_edns_count := pp_edns_count v; pp_ext_rcode := pp_ext_rcode v;
     pp_edns_version := pp_edns_version v; pp_ext_flags := pp_ext_flags v;
     pp_maybe_compressed := mc; pp_max_payload := pp_max_payload v; pp_cached := c |}.

Definition opt_N_eqb (a b : option N) : bool :=
  match a, b with
  | None, None => true
  | Some x, Some y => (x =? y)%N
  | _, _ => false
  end.

(** The four [assert_eq!] on the EDNS summary in [recompute] and in the rename wrapper. *)
Definition edns_summary_same (a b : ppacket) : bool :=
  (pp_edns_count a =? pp_edns_count b)%N && opt_N_eqb (pp_ext_rcode a) (pp_ext_rcode b)
  && opt_N_eqb (pp_edns_version a) (pp_edns_version b) && opt_N_eqb (pp_ext_flags a) (pp_ext_flags b).

(** parsed_packet.rs:374, repaired: decompresses before re-parsing, so that clearing
    [maybe_compressed] is justified whoever calls it; nothing is stored before success. *)
Definition m_recompute : cm unit :=
  v <-- getv ;;
  if negb (pp_maybe_compressed v) then cret tt
  else
    u <-- clift (uncompress (pp_packet v)) ;;
    f <-- clift (parse u) ;;
    if negb (edns_summary_same v f) then clift (Panic 601)
    else putv (pp_update v u (pp_offset_question f) (pp_offset_answers f) (pp_offset_nameservers f)
                         (pp_offset_additional f) (pp_offset_edns f) false None).

(** ** Record counts *)

Definition count_offset (sec : section) : res nat :=
  match sec with
  | SQuestion => Ok 4 | SAnswer => Ok 6 | SNameServers => Ok 8 | SAdditional => Ok 10
  | SEdns => Panic 611
  end.

(** parsed_packet.rs:230 *)
Definition rrcount_inc (p : bytes) (sec : section) : res bytes :=
  co <- count_offset sec ;;
  c <- be16_at p co 612 ;;
  if section_eqb sec SQuestion && (1 <=? c)%N then Err InvalidPacket
  else if (65535 <=? c)%N then Err InvalidPacket
  else write_at p co (be16_bytes (c + 1)) 613.

(** parsed_packet.rs:264: returns the new count too *)
Definition rrcount_dec (p : bytes) (sec : section) : res (bytes * N) :=
  co <- count_offset sec ;;
  c <- be16_at p co 614 ;;
  if (c =? 0)%N then Panic 615
  else p' <- write_at p co (be16_bytes (c - 1)) 616 ;; Ok (p', (c - 1)%N).

Definition insertion_offset (v : ppacket) (sec : section) : res nat :=
  let len := length (pp_packet v) in
  let dflt (o : option nat) := match o with Some x => x | None => len end in
  match sec with
  | SQuestion => Ok (dflt (opt_or (pp_offset_answers v) (opt_or (pp_offset_nameservers v) (pp_offset_additional v))))
  | SAnswer => Ok (dflt (opt_or (pp_offset_nameservers v) (pp_offset_additional v)))
  | SNameServers => Ok (dflt (pp_offset_additional v))
  | SAdditional => Ok len
  | SEdns => Panic 621
  end.

Definition omap_add (o : option nat) (k : nat) : option nat :=
  match o with Some x => Some (x + k) | None => None end.

(** parsed_packet.rs:311, repaired (the size test cannot underflow; the record count is checked
    and bumped before any byte moves). [rr] is the wire form of the record. *)
Definition insert_prologue : cm unit :=
  v0 <-- getv ;;
  if pp_maybe_compressed v0 then
    u <-- clift (uncompress (pp_packet v0)) ;;
    putv (pp_with_packet v0 u) ;;-
    m_recompute ;;-
    v1 <-- getv ;;
    if pp_maybe_compressed v1 then clift (Panic 631) else cret tt
  else cret tt.

Definition insert_core (sec : section) (rr : bytes) : cm unit :=
  v <-- getv ;;
  let p := pp_packet v in
  let rr_len := length rr in
  if (DNS_MAX_UNCOMPRESSED_SIZE <? length p) || (DNS_MAX_UNCOMPRESSED_SIZE - length p <? rr_len)
  then clift (Err PacketTooLarge)
  else
    p1 <-- clift (rrcount_inc p sec) ;;
    ins <-- clift (insertion_offset v sec) ;;
    if length p1 <? ins then clift (Panic 632)           (* copy_within / slice range *)
    else
      let p2 := firstn ins p1 ++ rr ++ skipn ins p1 in
      let oq := pp_offset_question v in
      let oan := pp_offset_answers v in
      let ons := pp_offset_nameservers v in
      let oar := pp_offset_additional v in
      let oed := pp_offset_edns v in
      match sec with
      | SQuestion =>
        putv (pp_update v p2 (opt_or oq (Some ins)) (omap_add oan rr_len) (omap_add ons rr_len)
                        (omap_add oar rr_len) (omap_add oed rr_len) (pp_maybe_compressed v) (pp_cached v))
      | SAnswer =>
        putv (pp_update v p2 oq (opt_or oan (Some ins)) (omap_add ons rr_len) (omap_add oar rr_len)
                        (omap_add oed rr_len) (pp_maybe_compressed v) (pp_cached v))
      | SNameServers =>
        putv (pp_update v p2 oq oan (opt_or ons (Some ins)) (omap_add oar rr_len) (omap_add oed rr_len)
                        (pp_maybe_compressed v) (pp_cached v))
      | SAdditional =>
        putv (pp_update v p2 oq oan ons (opt_or oar (Some ins)) oed (pp_maybe_compressed v) (pp_cached v))
      | SEdns => clift (Panic 633)
      end.

Definition m_insert_rr (sec : section) (rr : bytes) : cm unit :=
  insert_prologue ;;- insert_core sec rr.

(** ** Cursor operations *)

Definition it_set (it : rrit) (off : option nat) (onext nend : nat) : rrit :=
  {| it_section := it_section it; it_offset := off; it_offset_next := onext;
     it_name_end := nend; it_rrs_left := it_rrs_left it |}.

(** [set_offset] / [set_offset_next] with their [debug_assert!(offset <= packet.len())] *)
Definition m_set_offset (o : nat) : cm unit :=
  v <-- getv ;; it <-- getit ;;
  if length (pp_packet v) <? o then clift (Panic 643)
  else putit (it_set it (Some o) (it_offset_next it) (it_name_end it)).

Definition m_set_offset_next (o : nat) : cm unit :=
  v <-- getv ;; it <-- getit ;;
  if length (pp_packet v) <? o then clift (Panic 655)
  else putit (it_set it (it_offset it) o (it_name_end it)).

(** rr_iterator.rs:476 [RRIterator::recompute], repaired (a question has no rdata length). *)
Definition m_recompute_rr : cm unit :=
  v <-- getv ;; it <-- getit ;;
  off <-- clift (unwrap (it_offset it) 641) ;;
  name_end <-- clift (skip_name (pp_packet v) off) ;;
  onext <-- clift (if section_eqb (it_section it) SQuestion
                   then Ok (name_end + DNS_RR_QUESTION_HEADER_SIZE)
                   else skip_rdata (pp_packet v) name_end) ;;
  putit (it_set it (Some off) onext name_end).

(** [recompute_sections]: [parsed_packet.recompute().unwrap()] *)
Definition m_recompute_sections : cm unit :=
  fun s =>
    match m_recompute s with
    | (s', Err _) => (s', Panic 642)
    | r => r
    end.

(** The decompress-and-translate prologue of set_raw_name and delete. *)
Definition m_cursor_decompress (ref_offset : nat) : cm unit :=
  v <-- getv ;;
  r <-- clift (uncompress_with_previous_offset (pp_packet v) ref_offset) ;;
  let '(u, new_offset) := r in
  putv (pp_with_packet v u) ;;-
  m_set_offset new_offset ;;-
  m_recompute_rr ;;-
  m_recompute_sections.

(** rr_iterator.rs:121, repaired (translates the record's own offset). *)
Definition m_cursor_uncompress : cm unit :=
  v <-- getv ;; it <-- getit ;;
  if negb (pp_maybe_compressed v) then cret tt
  else
    match it_offset it with
    | None => clift (Err VoidRecord)
    | Some ref_offset =>
      r <-- clift (uncompress_with_previous_offset (pp_packet v) ref_offset) ;;
      let '(u, new_offset) := r in
      putv (pp_with_packet v u) ;;-
      m_set_offset new_offset ;;-
      m_recompute_sections ;;-
      m_recompute_rr
    end.

Definition shift_opt (o : option nat) (grow : bool) (k : nat) (site : N) : res (option nat) :=
  match o with
  | None => Ok None
  | Some x => if grow then Ok (Some (x + k)) else y <- usub x k site ;; Ok (Some y)
  end.

(** [(x as isize + shift) as usize] for the EDNS offset: a negative sum does not panic in Rust, it
    wraps to a value above 2^63 that [nat] cannot hold. This arises only when the record being
    removed is the OPT record itself and its data is longer than its offset
    (offset_edns - rr_len = offset - rdlen); [delete] overwrites [offset_edns] with [None] right
    afterwards (rr_iterator.rs:321), so the value is never read. The model writes [WRAPPED], an
    offset no packet of at most 65535 bytes has. *)
Definition WRAPPED : nat := N.to_nat 65536.
Definition shift_opt_wrap (o : option nat) (grow : bool) (k : nat) : res (option nat) :=
  match o with
  | None => Ok None
  | Some x => if grow then Ok (Some (x + k)) else if k <=? x then Ok (Some (x - k)) else Ok (Some WRAPPED)
  end.

(** rr_iterator.rs:197, repaired (the grow branch moves [offset..packet_len]; the EDNS offset
    follows records that move; a resized question drops the cached question). [grow]/[k] encode
    the signed [shift]. *)
Definition m_resize_rr (grow : bool) (k : nat) : cm unit :=
  if k =? 0 then cret tt
  else
    v <-- getv ;; it <-- getit ;;
    match it_offset it with
    | None => clift (Err VoidRecord)
    | Some offset =>
      let p := pp_packet v in
      let len := length p in
      p' <-- clift
        (if grow then
           if (65535 <? N.of_nat (len + k))%N then Err PacketTooLarge
           else if len <? offset then Panic 651          (* copy_within(offset..packet_len, ..) *)
           else Ok (firstn offset p ++ firstn k (skipn offset p ++ repeat 0%N k) ++ skipn offset p)
         else
           if len <? k then Panic 652                    (* assert!(packet_len >= shift) *)
           else if len <? offset + k then Panic 653      (* copy_within(offset + shift.., offset) *)
           else Ok (firstn offset p ++ skipn (offset + k) p)) ;;
      putv (pp_with_packet v p') ;;-
      onext <-- clift (if grow then Ok (it_offset_next it + k) else usub (it_offset_next it) k 654) ;;
      m_set_offset_next onext ;;-
      v1 <-- getv ;; it1 <-- getit ;;
      sec <-- clift (it_current_section v1 it1) ;;
      oed <-- clift (if opt_lt (Some offset) (pp_offset_edns v1)
                     then shift_opt_wrap (pp_offset_edns v1) grow k else Ok (pp_offset_edns v1)) ;;
      let cached := if section_eqb sec SQuestion then None else pp_cached v1 in
      let is s := section_eqb sec s in
      oar <-- clift (if is SNameServers || is SAnswer || is SQuestion
                     then shift_opt (pp_offset_additional v1) grow k 657 else Ok (pp_offset_additional v1)) ;;
      ons <-- clift (if is SAnswer || is SQuestion
                     then shift_opt (pp_offset_nameservers v1) grow k 658 else Ok (pp_offset_nameservers v1)) ;;
      oan <-- clift (if is SQuestion
                     then shift_opt (pp_offset_answers v1) grow k 659 else Ok (pp_offset_answers v1)) ;;
      putv (pp_update v1 p' (pp_offset_question v1) oan ons oar oed (pp_maybe_compressed v1) cached)
    end.

(** rr_iterator.rs:252, repaired (the new name is validated by the checker the parser uses). *)
Definition m_set_raw_name (name : bytes) : cm unit :=
  new_name_len <-- clift (check_compressed_name name 0) ;;
  let name := firstn new_name_len name in
  v <-- getv ;; it <-- getit ;;
  (if pp_maybe_compressed v then
     match it_offset it with
     | None => clift (Err VoidRecord)
     | Some ref_offset => m_cursor_decompress ref_offset
     end
   else cret tt) ;;-
  v <-- getv ;; it <-- getit ;;
  match it_offset it with
  | None => clift (Err VoidRecord)
  | Some offset =>
    if pp_maybe_compressed v then clift (Panic 661)      (* debug_assert!(!maybe_compressed) *)
    else
      ns <-- clift (slice (pp_packet v) offset (it_name_end it) 662) ;;   (* name_slice() *)
      current_name_len <-- clift (raw_name_len ns) ;;
      (if current_name_len <=? new_name_len
       then m_resize_rr true (new_name_len - current_name_len)
       else m_resize_rr false (current_name_len - new_name_len)) ;;-
      v <-- getv ;;
      p' <-- clift (write_at (pp_packet v) offset name 663) ;;
      putv (pp_with_cached (pp_with_packet v p') None) ;;-
      m_recompute_rr
  end.

Definition pp_reset_edns (v : ppacket) : ppacket :=
  {| pp_packet := pp_packet v;
     pp_offset_question := pp_offset_question v; pp_offset_answers := pp_offset_answers v;
     pp_offset_nameservers := pp_offset_nameservers v; pp_offset_additional := pp_offset_additional v;
     pp_offset_edns := None; pp_edns_count := 0; pp_ext_rcode := None; pp_edns_version := None;
     pp_ext_flags := None; pp_maybe_compressed := pp_maybe_compressed v;
     pp_max_payload := 512; pp_cached := pp_cached v |}.

Definition pp_clear_section (v : ppacket) (sec : section) : res ppacket :=
  let p := pp_packet v in
  let mk oq oan ons oar :=
      pp_update v p oq oan ons oar (pp_offset_edns v) (pp_maybe_compressed v) (pp_cached v) in
  match sec with
  | SQuestion => Ok (mk None (pp_offset_answers v) (pp_offset_nameservers v) (pp_offset_additional v))
  | SAnswer => Ok (mk (pp_offset_question v) None (pp_offset_nameservers v) (pp_offset_additional v))
  | SNameServers => Ok (mk (pp_offset_question v) (pp_offset_answers v) None (pp_offset_additional v))
  | SAdditional => Ok (mk (pp_offset_question v) (pp_offset_answers v) (pp_offset_nameservers v) None)
  | SEdns => Panic 676
  end.

(** rr_iterator.rs:284, repaired (deleting the OPT record resets the EDNS summary). *)
Definition m_delete : cm unit :=
  v <-- getv ;; it <-- getit ;;
  match it_offset it with
  | None => clift (Err VoidRecord)
  | Some off0 =>
    sec <-- clift (it_current_section v it) ;;
    is_opt <-- clift (if section_eqb sec SAdditional
                      then t <- it_rr_type v it ;; Ok (t =? TYPE_OPT)%N else Ok false) ;;
    (if pp_maybe_compressed v then m_cursor_decompress off0 else cret tt) ;;-
    it <-- getit ;;
    off <-- clift (unwrap (it_offset it) 671) ;;
    rr_len <-- clift (usub (it_offset_next it) off 672) ;;
    if rr_len =? 0 then clift (Panic 673)                (* assert!(rr_len > 0) *)
    else
      m_resize_rr false rr_len ;;-
      it <-- getit ;;
      off <-- clift (unwrap (it_offset it) 674) ;;
      m_set_offset_next off ;;-
      it <-- getit ;;
      putit (it_set it None (it_offset_next it) (it_name_end it)) ;;-
      v <-- getv ;;
      let v := if is_opt then pp_reset_edns v else v in
      r <-- clift (rrcount_dec (pp_packet v) sec) ;;
      let '(p', c) := r in
      let v := pp_with_packet v p' in
      putv v ;;-
      if (c =? 0)%N then
        v' <-- clift (pp_clear_section v sec) ;; putv v'
      else cret tt
  end.

(** rr_iterator.rs:362 *)
Definition m_set_ttl (ttl : N) : cm unit :=
  v <-- getv ;; it <-- getit ;;
  clift (unwrap (it_offset it) 681) ;;-
  clift (slice_from (pp_packet v) (it_name_end it) 682) ;;-
  p' <-- clift (write_at (pp_packet v) (it_name_end it + DNS_RR_TTL_OFFSET) (be32_bytes ttl) 683) ;;
  putv (pp_with_packet v p').

(** rr_iterator.rs:416 *)
Definition m_set_ip (ip : bytes) : cm unit :=
  v <-- getv ;; it <-- getit ;;
  t <-- clift (it_rr_type v it) ;;
  rd <-- clift (slice_from (pp_packet v) (it_name_end it) 691) ;;
  if (t =? TYPE_A)%N then
    if negb (length ip =? 4) then clift (Err WrongAddressFamily)
    else if length rd <? DNS_RR_HEADER_SIZE + 4 then clift (Panic 692)
    else p' <-- clift (write_at (pp_packet v) (it_name_end it + DNS_RR_HEADER_SIZE) ip 693) ;;
         putv (pp_with_packet v p')
  else if (t =? TYPE_AAAA)%N then
    if negb (length ip =? 16) then clift (Err WrongAddressFamily)
    else if length rd <? DNS_RR_HEADER_SIZE + 16 then clift (Panic 694)
    else p' <-- clift (write_at (pp_packet v) (it_name_end it + DNS_RR_HEADER_SIZE) ip 695) ;;
         putv (pp_with_packet v p')
  else clift (Err PropertyNotFound).

(** Object-level operations run with a dummy cursor. *)
Definition run_pp {A} (m : cm A) (v : ppacket) : ppacket * res A :=
  let '((v', _), r) := m (v, it_new SQuestion) in (v', r).
