(** * NameCheck: the two validating name walkers.

    [check_compressed_name]   mirrors src/compress.rs:31-95
    [check_uncompressed_name] mirrors src/dns_sector.rs:536-567 *)

From DV Require Import Model.Base.

(** [c.is_ascii_control() || c == b'.' || c == b'\\' || c == 0] *)
Definition bad_label_char (c : N) : bool :=
  (c <? 32)%N || (c =? 127)%N || (c =? 46)%N || (c =? 92)%N || (c =? 0)%N.

Record cn_state : Set := mk_cn {
  cn_off : nat;
  cn_barrier : nat;
  cn_lowest : nat;
  cn_final : option nat;
  cn_refs : nat;
  cn_nlen : nat
}.

Definition cn_step (p : bytes) (s : cn_state) : step_res cn_state (res nat) :=
  let plen := length p in
  let off := cn_off s in
  if cn_barrier s <=? off then
    Done (Err InvalidName)                       (* "Truncated name" / "Cycle" *)
  else
    match nth_error p off with
    | None => Done (Panic 101)                   (* packet[offset] *)
    | Some len =>
      if (N.land len 192 =? 192)%N then
        if cn_refs s =? 0 then Done (Err InvalidName)   (* "Too many indirections" *)
        else if plen <? off then Done (Panic 102)        (* packet_len - offset *)
        else if plen - off <? 2 then Done (Err InvalidName)
        else
          match nth_error p (off + 1) with
          | None => Done (Panic 103)             (* packet[offset + 1] *)
          | Some lo =>
            let ref := N.to_nat (N.land len 63 * 256 + lo) in
            if (ref =? off) || (cn_lowest s <=? ref) then Done (Err InvalidName)
            else
              match nth_error p ref with
              | None => Done (Panic 104)         (* packet[ref_offset] *)
              | Some rb =>
                if negb (N.land rb 192 =? 192)%N && (rb <? 1)%N
                then Done (Err InvalidName)      (* "Reference to an empty label" *)
                else Continue
                  {| cn_off := ref;
                     cn_barrier := cn_lowest s;
                     cn_lowest := ref;
                     cn_final := opt_or (cn_final s) (Some (off + 2));
                     cn_refs := cn_refs s - 1;
                     cn_nlen := cn_nlen s |}
              end
          end
      else if (63 <? len)%N then Done (Err InvalidName)  (* "Label length too long" *)
      else
        let ll := N.to_nat len in
        if plen <? off then Done (Panic 105)             (* packet_len - offset *)
        else if plen - off <=? ll then Done (Err InvalidName)   (* "Out-of-bounds name" *)
        else
          let nlen' := cn_nlen s + ll + 1 in
          if DNS_MAX_HOSTNAME_LEN <? nlen' then Done (Err InvalidName)
          else
            match slice p (off + 1) (off + ll + 1) 106 with
            | Panic site => Done (Panic site)
            | Err e => Done (Err e)
            | Ok label =>
              if existsb bad_label_char label then Done (Err InvalidName)
              else
                let off' := off + ll + 1 in
                if ll =? 0 then
                  Done (Ok (match cn_final s with Some f => f | None => off' end))
                else Continue
                  {| cn_off := off';
                     cn_barrier := cn_barrier s;
                     cn_lowest := cn_lowest s;
                     cn_final := cn_final s;
                     cn_refs := cn_refs s;
                     cn_nlen := nlen' |}
            end
    end.

(** Every iteration either spends one of the 16 indirections or adds at least one byte to
    a name length capped at 255, so 255 + 16 + 1 iterations always suffice; see
    [Proofs/NameCheckTotal.v] ([cn_fuel_suffices]). *)
Definition cn_fuel : nat := 300.

Definition cn_init (p : bytes) (offset : nat) : cn_state :=
  {| cn_off := offset; cn_barrier := length p; cn_lowest := offset;
     cn_final := None; cn_refs := DNS_MAX_HOSTNAME_INDIRECTIONS; cn_nlen := 0 |}.

Definition check_compressed_name (p : bytes) (offset : nat) : res nat :=
  let plen := length p in
  if plen <=? offset then Err InternalError
  else if plen - offset <? 1 then Err InvalidName
  else run_loop (cn_step p) cn_fuel (cn_init p offset).

(** Loop iterations spent by [check_compressed_name p offset] (C18). *)
Definition cn_cost (p : bytes) (offset : nat) : nat :=
  let plen := length p in
  if plen <=? offset then 0
  else if plen - offset <? 1 then 0
  else loop_count (cn_step p) cn_fuel (cn_init p offset).

Definition check_compressed_name_c (p : bytes) (offset : nat) : resc nat :=
  callc (check_compressed_name p offset) (cn_cost p offset).

(** ** check_uncompressed_name *)

Record un_state : Set := mk_un { un_off : nat; un_nlen : nat }.

Definition un_step (p : bytes) (s : un_state) : step_res un_state (res nat) :=
  let plen := length p in
  let off := un_off s in
  if plen <=? off then Done (Err InvalidName)            (* "Truncated name" *)
  else
    match nth_error p off with
    | None => Done (Panic 111)
    | Some len =>
      if (N.land len 192 =? 192)%N then Done (Err InvalidName)
      else if (63 <? len)%N then Done (Err InvalidName)
      else
        let ll := N.to_nat len in
        if plen - off <=? ll then Done (Err InvalidName)
        else
          let nlen' := un_nlen s + ll + 1 in
          if DNS_MAX_HOSTNAME_LEN <? nlen' then Done (Err InvalidName)
          else
            let off' := off + ll + 1 in
            if ll =? 0 then Done (Ok off')
            else Continue {| un_off := off'; un_nlen := nlen' |}
    end.

Definition un_fuel : nat := 300.

Definition check_uncompressed_name (p : bytes) (offset : nat) : res nat :=
  let plen := length p in
  if plen <=? offset then Err InternalError
  else if plen - offset <? 1 then Err InvalidName
  else run_loop (un_step p) un_fuel {| un_off := offset; un_nlen := 0 |}.

Definition un_cost (p : bytes) (offset : nat) : nat :=
  let plen := length p in
  if plen <=? offset then 0
  else if plen - offset <? 1 then 0
  else loop_count (un_step p) un_fuel {| un_off := offset; un_nlen := 0 |}.

Definition check_uncompressed_name_c (p : bytes) (offset : nat) : resc nat :=
  callc (check_uncompressed_name p offset) (un_cost p offset).
