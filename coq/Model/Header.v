(** * Header getters and setters of [ParsedPacket] (src/parsed_packet.rs:130-221).

    Each operation is a pure function on the 16-bit flag word (or on one header byte) lifted to
    the packet by a read-modify-write of bytes 2..3 (resp. 0..1).  [set_flags] follows the
    repaired code (fix: set_flags must keep opcode/rcode and replace the flag bits). *)

From DV Require Import Model.Base Model.Parser.

Definition pp_with_packet (v : ppacket) (p : bytes) : ppacket :=
  {| pp_packet := p;
     pp_offset_question := pp_offset_question v; pp_offset_answers := pp_offset_answers v;
     pp_offset_nameservers := pp_offset_nameservers v; pp_offset_additional := pp_offset_additional v;
     pp_offset_edns := pp_offset_edns v; pp_edns_count := pp_edns_count v;
     pp_ext_rcode := pp_ext_rcode v; pp_edns_version := pp_edns_version v;
     pp_ext_flags := pp_ext_flags v; pp_maybe_compressed := pp_maybe_compressed v;
     pp_max_payload := pp_max_payload v; pp_cached := pp_cached v |}.

(** ** Word / byte level *)

(** [!0x7800 & !0x000f] on a u16 *)
Definition FLAGS_MASK : N := 34800.        (* 0x87f0 *)
Definition OPRC_MASK : N := 30735.         (* 0x780f *)

(** [flags()]: [(ext_flags << 16) | (word & 0x87f0)] *)
Definition w_flags (w : N) (ext_flags : option N) : N :=
  N.lor (N.shiftl (match ext_flags with Some x => x | None => 0 end) 16) (N.land w FLAGS_MASK).

(** [set_flags(flags: u32)] on the stored word. *)
Definition w_set_flags (w f : N) : N :=
  N.lor (N.land w OPRC_MASK) (N.land (N.land f 65535) FLAGS_MASK).

Definition w_set_response (w : N) (r : bool) : N :=
  if r then N.lor w 32768 else N.land w 32767.

(** rcode lives in the low nibble of byte 3, opcode in bits 3..6 of byte 2 *)
Definition b_rcode (b : N) : N := N.land b 15.
Definition b_set_rcode (b r : N) : N := N.lor (N.land b 240) (N.land r 15).
Definition b_opcode (b : N) : N := N.shiftr (N.land b 120) 3.
(** [(opcode << 3) & 0x78] with [opcode: u8]: the shift wraps modulo 256 *)
Definition b_set_opcode (b o : N) : N := N.lor (N.land b 135) (N.land ((o * 8) mod 256) 120).

(** [dnssec()]: DO (bit 31 of the 32-bit flags) for queries, AD (bit 5) for responses *)
Definition f_dnssec (flags : N) : bool :=
  if (N.land flags 32768 =? 0)%N then negb (N.land flags 2147483648 =? 0)%N
  else negb (N.land flags 32 =? 0)%N.

(** ** Packet level *)

Definition pk_tid (p : bytes) : res N := be16_at p DNS_TID_OFFSET 301.
Definition pk_set_tid (p : bytes) (tid : N) : res bytes :=
  write_at p DNS_TID_OFFSET (be16_bytes tid) 302.

Definition pk_flags (p : bytes) (ext_flags : option N) : res N :=
  w <- be16_at p DNS_FLAGS_OFFSET 303 ;; Ok (w_flags w ext_flags).

Definition pk_set_flags (p : bytes) (f : N) : res bytes :=
  w <- be16_at p DNS_FLAGS_OFFSET 304 ;;
  write_at p DNS_FLAGS_OFFSET (be16_bytes (w_set_flags w f)) 305.

Definition pk_set_response (p : bytes) (r : bool) : res bytes :=
  w <- be16_at p DNS_FLAGS_OFFSET 306 ;;
  write_at p DNS_FLAGS_OFFSET (be16_bytes (w_set_response w r)) 307.

Definition pk_rcode (p : bytes) : res N := b <- byte_at p (DNS_FLAGS_OFFSET + 1) 308 ;; Ok (b_rcode b).
Definition pk_set_rcode (p : bytes) (r : N) : res bytes :=
  b <- byte_at p (DNS_FLAGS_OFFSET + 1) 309 ;;
  write_at p (DNS_FLAGS_OFFSET + 1) [b_set_rcode b r] 310.

Definition pk_opcode (p : bytes) : res N := b <- byte_at p DNS_FLAGS_OFFSET 311 ;; Ok (b_opcode b).
Definition pk_set_opcode (p : bytes) (o : N) : res bytes :=
  b <- byte_at p DNS_FLAGS_OFFSET 312 ;;
  write_at p DNS_FLAGS_OFFSET [b_set_opcode b o] 313.

(** ** On the object *)

Definition pp_tid (v : ppacket) := pk_tid (pp_packet v).
Definition pp_flags (v : ppacket) := pk_flags (pp_packet v) (pp_ext_flags v).
Definition pp_rcode (v : ppacket) := pk_rcode (pp_packet v).
Definition pp_opcode (v : ppacket) := pk_opcode (pp_packet v).
Definition pp_is_response (v : ppacket) : res bool :=
  f <- pp_flags v ;; Ok (N.land f 32768 =? 32768)%N.
Definition pp_dnssec (v : ppacket) : res bool := f <- pp_flags v ;; Ok (f_dnssec f).

Definition pp_set_tid (v : ppacket) (t : N) : res ppacket :=
  p <- pk_set_tid (pp_packet v) t ;; Ok (pp_with_packet v p).
Definition pp_set_flags (v : ppacket) (f : N) : res ppacket :=
  p <- pk_set_flags (pp_packet v) f ;; Ok (pp_with_packet v p).
Definition pp_set_response (v : ppacket) (r : bool) : res ppacket :=
  p <- pk_set_response (pp_packet v) r ;; Ok (pp_with_packet v p).
Definition pp_set_rcode (v : ppacket) (r : N) : res ppacket :=
  p <- pk_set_rcode (pp_packet v) r ;; Ok (pp_with_packet v p).
Definition pp_set_opcode (v : ppacket) (o : N) : res ppacket :=
  p <- pk_set_opcode (pp_packet v) o ;; Ok (pp_with_packet v p).

(** [ParsedPacket::empty()] with the random transaction id as an explicit argument (C17: the
    only permitted randomness). parsed_packet.rs:37-59. *)
Definition pp_empty (tid : N) : res ppacket :=
  let v := {| pp_packet := repeat 0%N 12;
              pp_offset_question := None; pp_offset_answers := None;
              pp_offset_nameservers := None; pp_offset_additional := None;
              pp_offset_edns := None; pp_edns_count := 0;
              pp_ext_rcode := None; pp_edns_version := None; pp_ext_flags := None;
              pp_maybe_compressed := false;
              pp_max_payload := DNS_MAX_UNCOMPRESSED_SIZE_N; pp_cached := None |} in
  v <- pp_set_tid v tid ;;
  v <- pp_set_flags v 256 ;;            (* DNS_FLAG_RD *)
  pp_set_response v false.
