(** * Parser: [DNSSector] and [DNSSector::parse] (src/dns_sector.rs). *)

From DV Require Import Model.Base Model.NameCheck.

(** The mutable part of a [DNSSector]; the packet itself never changes while parsing and is
    passed alongside. *)
Record pstate : Set := mk_ps {
  ps_off : nat;
  ps_edns_start : option nat;
  ps_edns_end : option nat;
  ps_edns_count : N;
  ps_ext_rcode : option N;
  ps_edns_version : option N;
  ps_ext_flags : option N;
  ps_max_payload : N
}.

Definition ps_init : pstate :=
  {| ps_off := 0; ps_edns_start := None; ps_edns_end := None; ps_edns_count := 0;
     ps_ext_rcode := None; ps_edns_version := None; ps_ext_flags := None;
     ps_max_payload := 512 |}.

Definition ps_set_off (s : pstate) (o : nat) : pstate :=
  {| ps_off := o; ps_edns_start := ps_edns_start s; ps_edns_end := ps_edns_end s;
     ps_edns_count := ps_edns_count s; ps_ext_rcode := ps_ext_rcode s;
     ps_edns_version := ps_edns_version s; ps_ext_flags := ps_ext_flags s;
     ps_max_payload := ps_max_payload s |}.

(** dns_sector.rs:106 *)
Definition remaining_len (p : bytes) (s : pstate) : res nat :=
  usub (length p) (ps_off s) 201.

(** dns_sector.rs:112 *)
Definition ensure_remaining_len (p : bytes) (s : pstate) (n : nat) : res unit :=
  r <- remaining_len p s ;;
  if r <? n then Err PacketTooSmall else Ok tt.

(** dns_sector.rs:121 — the old offset that Rust returns is never used by callers. *)
Definition set_offset (p : bytes) (s : pstate) (o : nat) : res pstate :=
  if length p <=? o then Err InternalError else Ok (ps_set_off s o).

(** dns_sector.rs:132 *)
Definition increment_offset (p : bytes) (s : pstate) (n : nat) : res pstate :=
  ensure_remaining_len p s n ;;;
  Ok (ps_set_off s (ps_off s + n)).

Definition u8_load (p : bytes) (s : pstate) (rr_offset : nat) : res N :=
  ensure_remaining_len p s (rr_offset + 1) ;;;
  byte_at p (ps_off s + rr_offset) 202.

Definition be16_load (p : bytes) (s : pstate) (rr_offset : nat) : res N :=
  ensure_remaining_len p s (rr_offset + 2) ;;;
  be16_at p (ps_off s + rr_offset) 203.

(** dns_sector.rs:169 *)
Definition ps_skip_name_c (p : bytes) (s : pstate) : resc pstate :=
  o <~ check_compressed_name_c p (ps_off s) ;;
  lift (set_offset p s o).

Definition ps_rr_type p s := be16_load p s DNS_RR_TYPE_OFFSET.
Definition ps_rr_class p s := be16_load p s DNS_RR_CLASS_OFFSET.
(** public: dns_sector.rs:195 *)
Definition ps_rr_rdlen p s : res nat := v <- be16_load p s DNS_RR_RDLEN_OFFSET ;; Ok (N.to_nat v).

Definition ensure_in_class (p : bytes) (s : pstate) : res unit :=
  c <- ps_rr_class p s ;;
  if (c =? CLASS_IN)%N then Ok tt else Err UnsupportedClass.

(** dns_sector.rs:306 *)
Definition parse_question_c (p : bytes) (s : pstate) : resc pstate :=
  tick (
  s <~ ps_skip_name_c p s ;;
  ensure_in_class p s ;;;'
  ensure_in_class p s ;;;'
  lift (increment_offset p s DNS_RR_QUESTION_HEADER_SIZE)).

(** ** EDNS pseudo-section (dns_sector.rs:412-476) *)

Definition edns_remaining_len (s : pstate) : res nat :=
  match ps_edns_end s with
  | None => Ok 0
  | Some e => usub e (ps_off s) 211
  end.

Definition edns_ensure_remaining_len (s : pstate) (n : nat) : res unit :=
  r <- edns_remaining_len s ;;
  if r <? n then Err PacketTooSmall else Ok tt.

Definition edns_increment_offset (s : pstate) (n : nat) : res pstate :=
  edns_ensure_remaining_len s n ;;;
  Ok (ps_set_off s (ps_off s + n)).

Definition edns_be16_load (p : bytes) (s : pstate) (rr_offset : nat) : res N :=
  edns_ensure_remaining_len s (rr_offset + 2) ;;;
  hi <- byte_at p (ps_off s + rr_offset) 212 ;;
  lo <- byte_at p (ps_off s + rr_offset + 1) 213 ;;
  Ok (hi * 256 + lo)%N.

(** public: dns_sector.rs:466 *)
Definition edns_rr_rdlen (p : bytes) (s : pstate) : res nat :=
  v <- edns_be16_load p s DNS_EDNS_RR_RDLEN_OFFSET ;; Ok (N.to_nat v).

Definition edns_skip_rr (p : bytes) (s : pstate) : res pstate :=
  l <- edns_rr_rdlen p s ;;
  edns_increment_offset s (DNS_EDNS_RR_HEADER_SIZE + l).

(** The [while self.edns_remaining_len() > 0] loop of [parse_opt]. [edns_count] is a [u16]:
    [+= 1] overflowing is a panic site. *)
Definition opt_step (p : bytes) (s : pstate) : step_res pstate (res pstate) :=
  match edns_remaining_len s with
  | Panic site => Done (Panic site)
  | Err e => Done (Err e)
  | Ok r =>
    if r =? 0 then Done (Ok s)
    else
      match edns_skip_rr p s with
      | Panic site => Done (Panic site)
      | Err e => Done (Err e)
      | Ok s' =>
        if (65535 <=? ps_edns_count s')%N then Done (Panic 214)
        else Continue
          {| ps_off := ps_off s'; ps_edns_start := ps_edns_start s';
             ps_edns_end := ps_edns_end s';
             ps_edns_count := ps_edns_count s' + 1;
             ps_ext_rcode := ps_ext_rcode s'; ps_edns_version := ps_edns_version s';
             ps_ext_flags := ps_ext_flags s'; ps_max_payload := ps_max_payload s' |}
      end
  end.

(** dns_sector.rs:512. Every option consumes at least 4 bytes, so [length p + 1]
    iterations always suffice. *)
Definition opt_loop_c (p : bytes) (s2 : pstate) : resc pstate :=
  let r := run_loop (opt_step p) (length p + 1) s2 in
  let k := loop_count (opt_step p) (length p + 1) s2 in
  (* the step counter sits inside the loop body: the final, exiting test is not counted *)
  callc r (match r with Ok _ => k - 1 | _ => k end).

Definition parse_opt_c (p : bytes) (s : pstate) : resc pstate :=
  match ps_edns_end s with
  | Some _ => lift (Err InvalidPacket)            (* "Only one OPT record is allowed" *)
  | None =>
    rc <-' u8_load p s DNS_OPT_RR_EXT_RCODE_OFFSET ;;
    ver <-' u8_load p s DNS_OPT_RR_EDNS_VERSION_OFFSET ;;
    mp <-' be16_load p s DNS_OPT_RR_MAX_PAYLOAD_OFFSET ;;
    xf <-' be16_load p s DNS_OPT_RR_EDNS_EXT_FLAGS_OFFSET ;;
    el <-' be16_load p s DNS_OPT_RR_RDLEN_OFFSET ;;
    let edns_len := N.to_nat el in
    s1 <-' increment_offset p s DNS_OPT_RR_HEADER_SIZE ;;
    ensure_remaining_len p s1 edns_len ;;;'
    let s2 :=
      {| ps_off := ps_off s1; ps_edns_start := Some (ps_off s1);
         ps_edns_end := Some (ps_off s1 + edns_len); ps_edns_count := 0;
         ps_ext_rcode := Some rc; ps_edns_version := Some ver;
         ps_ext_flags := Some xf; ps_max_payload := mp |} in
    opt_loop_c p s2
  end.

(** dns_sector.rs:336-408: the arms of [parse_rr] other than OPT, entered with the cursor
    right after the owner name. *)
Definition parse_rr_rdata_c (p : bytes) (s : pstate) (rr_type : N) (rr_rdlen : nat) : resc pstate :=
  if (rr_type =? TYPE_NS)%N || (rr_type =? TYPE_CNAME)%N || (rr_type =? TYPE_PTR)%N then
    if rr_rdlen =? 0 then lift (Err PacketTooSmall)
    else
      s <-' increment_offset p s DNS_RR_HEADER_SIZE ;;
      final_offset <~ check_compressed_name_c p (ps_off s) ;;
      d <-' usub final_offset (ps_off s) 222 ;;
      if negb (d =? rr_rdlen) then lift (Err InvalidPacket)
      else lift (increment_offset p s rr_rdlen)
  else if (rr_type =? TYPE_MX)%N then
    if rr_rdlen <=? 2 then lift (Err PacketTooSmall)
    else
      s <-' increment_offset p s DNS_RR_HEADER_SIZE ;;
      final_offset <~ check_compressed_name_c p (ps_off s + 2) ;;
      d <-' usub final_offset (ps_off s) 223 ;;
      if negb (d =? rr_rdlen) then lift (Err InvalidPacket)
      else lift (increment_offset p s rr_rdlen)
  else if (rr_type =? TYPE_SOA)%N then
    if rr_rdlen <=? 1 + 20 then lift (Err PacketTooSmall)
    else
      s <-' increment_offset p s DNS_RR_HEADER_SIZE ;;
      final_offset_1 <~ check_compressed_name_c p (ps_off s) ;;
      final_offset_2 <~ check_compressed_name_c p final_offset_1 ;;
      d <-' usub final_offset_2 (ps_off s) 224 ;;
      d' <-' usub rr_rdlen 20 225 ;;
      if negb (d =? d') then lift (Err InvalidPacket)
      else lift (increment_offset p s rr_rdlen)
  else if (rr_type =? TYPE_DNAME)%N then
    if rr_rdlen =? 0 then lift (Err PacketTooSmall)
    else
      s <-' increment_offset p s DNS_RR_HEADER_SIZE ;;
      final_offset <~ check_uncompressed_name_c p (ps_off s) ;;
      d <-' usub final_offset (ps_off s) 226 ;;
      if negb (d =? rr_rdlen) then lift (Err InvalidPacket)
      else lift (increment_offset p s rr_rdlen)
  else if (rr_type =? TYPE_A)%N then
    if negb (rr_rdlen =? 4) then lift (Err InvalidPacket)
    else lift (increment_offset p s (DNS_RR_HEADER_SIZE + rr_rdlen))
  else if (rr_type =? TYPE_AAAA)%N then
    if negb (rr_rdlen =? 16) then lift (Err InvalidPacket)
    else lift (increment_offset p s (DNS_RR_HEADER_SIZE + rr_rdlen))
  else lift (increment_offset p s (DNS_RR_HEADER_SIZE + rr_rdlen)).

(** dns_sector.rs:317 *)
Definition parse_rr_c (p : bytes) (s : pstate) (sec : section) : resc pstate :=
  tick (
  let rr_start_offset := ps_off s in
  s <~ ps_skip_name_c p s ;;
  rr_type <-' ps_rr_type p s ;;
  rr_rdlen <-' ps_rr_rdlen p s ;;
  if (rr_type =? TYPE_OPT)%N then
    if negb (section_eqb sec SAdditional) then lift (Err InvalidPacket)
    else
      d <-' usub (ps_off s) rr_start_offset 221 ;;
      if negb (d =? 1) then lift (Err InvalidPacket)
      else parse_opt_c p s
  else parse_rr_rdata_c p s rr_type rr_rdlen).

(** [for _ in 0..count { self.parse_rr(section)?; }] *)
Fixpoint parse_rrs_c (p : bytes) (s : pstate) (sec : section) (count : nat) : resc pstate :=
  match count with
  | O => lift (Ok s)
  | S count' =>
    s' <~ parse_rr_c p s sec ;;
    parse_rrs_c p s' sec count'
  end.

(** A [ParsedPacket] (src/parsed_packet.rs:19-33). [packet: Option<Vec<u8>>] is modelled
    as always present. *)
Record ppacket : Set := mk_pp {
  pp_packet : bytes;
  pp_offset_question : option nat;
  pp_offset_answers : option nat;
  pp_offset_nameservers : option nat;
  pp_offset_additional : option nat;
  pp_offset_edns : option nat;
  pp_edns_count : N;
  pp_ext_rcode : option N;
  pp_edns_version : option N;
  pp_ext_flags : option N;
  pp_maybe_compressed : bool;
  pp_max_payload : N;
  pp_cached : option (bytes * N * N)
}.

Definition hdr_flags_word (p : bytes) : res N := be16_at p DNS_FLAGS_OFFSET 231.
Definition hdr_qdcount (p : bytes) : res N := be16_at p 4 232.
Definition hdr_ancount (p : bytes) : res N := be16_at p 6 233.
Definition hdr_nscount (p : bytes) : res N := be16_at p 8 234.
Definition hdr_arcount (p : bytes) : res N := be16_at p 10 235.

Definition word_is_response (w : N) : bool := (N.land w 32768 =? 32768)%N.

(** dns_sector.rs:228 *)
Definition parse_c (p : bytes) : resc ppacket :=
  if length p <? DNS_HEADER_SIZE then lift (Err PacketTooSmall)
  else
    w <-' hdr_flags_word p ;;
    let is_response := word_is_response w in
    qdcount <-' hdr_qdcount p ;;
    if (qdcount =? 0)%N then lift (Err InvalidPacket)
    else if (1 <? qdcount)%N then lift (Err InvalidPacket)
    else
      s <-' set_offset p ps_init DNS_QUESTION_OFFSET ;;
      let offset_question := Some (ps_off s) in
      s <~ parse_question_c p s ;;
      ancount <-' hdr_ancount p ;;
      if negb is_response && (0 <? ancount)%N then lift (Err InvalidPacket)
      else
        let offset_answers := if (0 <? ancount)%N then Some (ps_off s) else None in
        s <~ parse_rrs_c p s SAnswer (N.to_nat ancount) ;;
        nscount <-' hdr_nscount p ;;
        if negb is_response && (0 <? nscount)%N then lift (Err InvalidPacket)
        else
          let offset_nameservers := if (0 <? nscount)%N then Some (ps_off s) else None in
          s <~ parse_rrs_c p s SNameServers (N.to_nat nscount) ;;
          arcount <-' hdr_arcount p ;;
          let offset_additional := if (0 <? arcount)%N then Some (ps_off s) else None in
          s <~ parse_rrs_c p s SAdditional (N.to_nat arcount) ;;
          r <-' remaining_len p s ;;
          if 0 <? r then lift (Err InvalidPacket)
          else lift (Ok
            {| pp_packet := p;
               pp_offset_question := offset_question;
               pp_offset_answers := offset_answers;
               pp_offset_nameservers := offset_nameservers;
               pp_offset_additional := offset_additional;
               pp_offset_edns := ps_edns_start s;
               pp_edns_count := ps_edns_count s;
               pp_ext_rcode := ps_ext_rcode s;
               pp_edns_version := ps_edns_version s;
               pp_ext_flags := ps_ext_flags s;
               pp_maybe_compressed := true;
               pp_max_payload := ps_max_payload s;
               pp_cached := None |}).

Definition parse (p : bytes) : res ppacket := fst (parse_c p).
Definition parse_steps (p : bytes) : nat := snd (parse_c p).
Definition parse_rr (p : bytes) (s : pstate) (sec : section) : res pstate := fst (parse_rr_c p s sec).
Definition parse_question (p : bytes) (s : pstate) : res pstate := fst (parse_question_c p s).

(** ** Public cursor primitives on a fresh [DNSSector] (C01, "cursor primitives") *)

Inductive cursor_op : Set :=
| CSetOffset (n : nat)
| CIncrementOffset (n : nat)
| CRrRdlen
| CEdnsRrRdlen.

(** One primitive: new state plus whether it returned [Ok] (1) / [Err] (0), or a panic. *)
Definition cursor_apply (p : bytes) (s : pstate) (op : cursor_op) : res (pstate * option nat) :=
  match op with
  | CSetOffset n =>
    match set_offset p s n with
    | Ok s' => Ok (s', Some (ps_off s))
    | Err _ => Ok (s, None)
    | Panic x => Panic x
    end
  | CIncrementOffset n =>
    match increment_offset p s n with
    | Ok s' => Ok (s', Some (ps_off s))
    | Err _ => Ok (s, None)
    | Panic x => Panic x
    end
  | CRrRdlen =>
    match ps_rr_rdlen p s with
    | Ok v => Ok (s, Some v)
    | Err _ => Ok (s, None)
    | Panic x => Panic x
    end
  | CEdnsRrRdlen =>
    match edns_rr_rdlen p s with
    | Ok v => Ok (s, Some v)
    | Err _ => Ok (s, None)
    | Panic x => Panic x
    end
  end.

Fixpoint cursor_run (p : bytes) (s : pstate) (ops : list cursor_op) : res (pstate * list (option nat)) :=
  match ops with
  | [] => Ok (s, [])
  | op :: ops' =>
    '(s', o) <- cursor_apply p s op ;;
    '(s'', os) <- cursor_run p s' ops' ;;
    Ok (s'', o :: os)
  end.
