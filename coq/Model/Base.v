(** * Base: outcomes, byte strings and raw reads.

    Conventions (DESIGN.md section 3):
    - a packet is a [list N] (bytes are numbers < 256; readers never need the bound,
      writers truncate explicitly with [mod]);
    - offsets, lengths and fuel are [nat];
    - every Rust [Result] is [Ok | Err e]; every place the Rust code can panic
      (slice / index out of range, [unwrap] on [None], [assert!], usize subtraction
      underflow, explicit [panic!]) is an explicit [Panic site];
    - loops run on fuel; exhausting it is [Panic OutOfFuel]. *)

From Coq Require Export List NArith Arith Bool Lia.
Export ListNotations.

(** The twelve variants of [DSError] (src/errors.rs). The [&'static str] payload is not
    modelled. *)
Inductive err : Set :=
| PacketTooSmall | PacketTooLarge | UnsupportedClass | InternalError | InvalidName
| InvalidPacket | UnsupportedRRType | UnsupportedRRClass | VoidRecord
| PropertyNotFound | WrongAddressFamily | ParseError.

Inductive res (A : Type) : Type :=
| Ok (a : A)
| Err (e : err)
| Panic (site : N).
Arguments Ok {A} a.
Arguments Err {A} e.
Arguments Panic {A} site.

Definition bind {A B} (r : res A) (f : A -> res B) : res B :=
  match r with
  | Ok a => f a
  | Err e => Err e
  | Panic s => Panic s
  end.

Notation "x <- e ;; k" := (bind e (fun x => k))
  (at level 61, e at next level, right associativity).
Notation "' pat <- e ;; k" := (bind e (fun x => match x with pat => k end))
  (at level 61, pat pattern, e at next level, right associativity).
Notation "e ;;; k" := (bind e (fun _ => k))
  (at level 61, right associativity).

Definition is_panic {A} (r : res A) : bool :=
  match r with Panic _ => true | _ => false end.
Definition is_ok {A} (r : res A) : bool :=
  match r with Ok _ => true | _ => false end.

(** Panic sites: numbered so that a diverging case names where the model panicked. *)
Definition OutOfFuel : N := 999.

Definition bytes := list N.

(** [p[off]] *)
Definition byte_at (p : bytes) (off : nat) (site : N) : res N :=
  match nth_error p off with
  | Some b => Ok b
  | None => Panic site
  end.

(** [BigEndian::read_u16(&p[off..])]: panics unless both bytes exist. *)
Definition be16_at (p : bytes) (off : nat) (site : N) : res N :=
  hi <- byte_at p off site ;;
  lo <- byte_at p (off + 1) site ;;
  Ok (hi * 256 + lo)%N.

Definition be32_at (p : bytes) (off : nat) (site : N) : res N :=
  a <- byte_at p off site ;;
  b <- byte_at p (off + 1) site ;;
  c <- byte_at p (off + 2) site ;;
  d <- byte_at p (off + 3) site ;;
  Ok (((a * 256 + b) * 256 + c) * 256 + d)%N.

(** [a - b] on [usize]: underflow is a panic (debug) / wrap (release); the model makes it
    a panic site, the theorems show it unreachable. *)
Definition usub (a b : nat) (site : N) : res nat :=
  if b <=? a then Ok (a - b) else Panic site.

(** [&p[a..b]]: panics unless [a <= b <= len]. *)
Definition slice (p : bytes) (a b : nat) (site : N) : res bytes :=
  if (a <=? b) && (b <=? length p) then Ok (firstn (b - a) (skipn a p)) else Panic site.

(** [&p[a..]] *)
Definition slice_from (p : bytes) (a : nat) (site : N) : res bytes :=
  if a <=? length p then Ok (skipn a p) else Panic site.

(** Big-endian writers, with the [as u16] / [as u8] truncations explicit. *)
Definition be16_bytes (v : N) : bytes := [(v / 256) mod 256; v mod 256]%N.
Definition be32_bytes (v : N) : bytes :=
  [(v / 16777216) mod 256; (v / 65536) mod 256; (v / 256) mod 256; v mod 256]%N.

(** Overwrite [length w] bytes of [p] at [off] (a [copy_from_slice] into [p[off..off+len]]);
    panics unless the range is inside [p]. *)
Definition write_at (p : bytes) (off : nat) (w : bytes) (site : N) : res bytes :=
  if off + length w <=? length p
  then Ok (firstn off p ++ w ++ skipn (off + length w) p)
  else Panic site.

Definition opt_or {A} (a b : option A) : option A :=
  match a with Some _ => a | None => b end.

Inductive step_res (S R : Type) : Type :=
| Continue (s : S)
| Done (r : R).
Arguments Continue {S R} s.
Arguments Done {S R} r.

(** Generic fuelled loop. *)
Fixpoint run_loop {St A} (step : St -> step_res St (res A)) (fuel : nat) (s : St) : res A :=
  match fuel with
  | O => Panic OutOfFuel
  | S fuel' =>
    match step s with
    | Done r => r
    | Continue s' => run_loop step fuel' s'
    end
  end.

(** Number of times the loop body is entered (the step function evaluated). This is the
    quantity the [cfg(dnssector_verif)] step counter of the implementation measures for the
    two name-walking loops. *)
Fixpoint loop_count {St R} (step : St -> step_res St R) (fuel : nat) (s : St) : nat :=
  match fuel with
  | O => 0
  | S fuel' =>
    match step s with
    | Done _ => 1
    | Continue s' => S (loop_count step fuel' s')
    end
  end.

(** ** Cost monad: a result together with the number of elementary steps spent (C18). *)
Definition resc (A : Type) : Type := (res A * nat)%type.
Definition lift {A} (r : res A) : resc A := (r, 0).
Definition callc {A} (r : res A) (cost : nat) : resc A := (r, cost).
Definition tick {A} (m : resc A) : resc A := (fst m, S (snd m)).
Definition bindc {A B} (m : resc A) (f : A -> resc B) : resc B :=
  match fst m with
  | Ok a => let r := f a in (fst r, snd m + snd r)
  | Err e => (Err e, snd m)
  | Panic s => (Panic s, snd m)
  end.

Notation "x <~ e ;; k" := (bindc e (fun x => k))
  (at level 61, e at next level, right associativity).
Notation "x <-' e ;; k" := (bindc (lift e) (fun x => k))
  (at level 61, e at next level, right associativity).
Notation "e ;;;' k" := (bindc (lift e) (fun _ => k))
  (at level 61, right associativity).

(** Constants of src/constants.rs. [Generated/Constants.v] (regenerated from the source on
    every run) must agree with these: see [Generated/ConstantsCheck.v]. *)
Definition DNS_HEADER_SIZE : nat := 12.
Definition DNS_QUESTION_OFFSET : nat := 12.
Definition DNS_MAX_HOSTNAME_LEN : nat := 255.
Definition DNS_MAX_HOSTNAME_INDIRECTIONS : nat := 16.
Definition DNS_RR_QUESTION_HEADER_SIZE : nat := 4.
Definition DNS_RR_HEADER_SIZE : nat := 10.
Definition DNS_RR_TYPE_OFFSET : nat := 0.
Definition DNS_RR_CLASS_OFFSET : nat := 2.
Definition DNS_RR_TTL_OFFSET : nat := 4.
Definition DNS_RR_RDLEN_OFFSET : nat := 8.
Definition DNS_OPT_RR_MAX_PAYLOAD_OFFSET : nat := 2.
Definition DNS_OPT_RR_EXT_RCODE_OFFSET : nat := 4.
Definition DNS_OPT_RR_EDNS_VERSION_OFFSET : nat := 5.
Definition DNS_OPT_RR_EDNS_EXT_FLAGS_OFFSET : nat := 6.
Definition DNS_OPT_RR_RDLEN_OFFSET : nat := 8.
Definition DNS_OPT_RR_HEADER_SIZE : nat := 10.
Definition DNS_EDNS_RR_CODE_OFFSET : nat := 0.
Definition DNS_EDNS_RR_RDLEN_OFFSET : nat := 2.
Definition DNS_EDNS_RR_HEADER_SIZE : nat := 4.
Definition DNS_TID_OFFSET : nat := 0.
Definition DNS_FLAGS_OFFSET : nat := 2.
Definition DNS_MAX_UNCOMPRESSED_SIZE_N : N := 8192.
Definition DNS_MAX_UNCOMPRESSED_SIZE : nat := N.to_nat DNS_MAX_UNCOMPRESSED_SIZE_N.
Definition MAX_SUFFIX_LEN : nat := 127.
Definition MAX_SUFFIXES : nat := 32.

Definition TYPE_A : N := 1.
Definition TYPE_NS : N := 2.
Definition TYPE_CNAME : N := 5.
Definition TYPE_SOA : N := 6.
Definition TYPE_PTR : N := 12.
Definition TYPE_MX : N := 15.
Definition TYPE_TXT : N := 16.
Definition TYPE_AAAA : N := 28.
Definition TYPE_DNAME : N := 39.
Definition TYPE_OPT : N := 41.
Definition TYPE_DS : N := 43.
Definition CLASS_IN : N := 1.

Inductive section : Set := SQuestion | SAnswer | SNameServers | SAdditional | SEdns.

Definition section_eqb (a b : section) : bool :=
  match a, b with
  | SQuestion, SQuestion | SAnswer, SAnswer | SNameServers, SNameServers
  | SAdditional, SAdditional | SEdns, SEdns => true
  | _, _ => false
  end.
