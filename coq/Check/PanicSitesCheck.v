(** The constructs that can panic in the validation code (all of dns_sector.rs and
    Compress::check_compressed_name), regenerated from /repo's source on every run
    (Generated/PanicSites.v), must be those the model was written against: per function, the number of
    index / slice expressions, unwrap / expect calls, assertions, explicit panics and subtractions.
    Each of them is a Panic outcome of Model/NameCheck.v and Model/Parser.v, and C01's theorems say
    that none is reachable; a construct that appears here without the model changing would be a
    panic the theorem does not speak about.  Finite object, decided by [vm_compute]. *)
From Coq Require Import List String.
From DV Require Import Generated.PanicSites.
Import ListNotations.
Open Scope string_scope.

Theorem panic_sites_inventory :
  GenPanic.sites =
  [
   ("src/dns_sector.rs", "ancount", 1, 0, 0, 0, 0);
   ("src/dns_sector.rs", "arcount", 1, 0, 0, 0, 0);
   ("src/dns_sector.rs", "be16_load", 1, 0, 0, 0, 0);
   ("src/dns_sector.rs", "be32_load", 1, 0, 0, 0, 0);
   ("src/dns_sector.rs", "check_compressed_name", 0, 0, 0, 0, 0);
   ("src/dns_sector.rs", "check_uncompressed_name", 1, 0, 0, 0, 4);
   ("src/dns_sector.rs", "edns_be16_load", 2, 0, 0, 0, 0);
   ("src/dns_sector.rs", "edns_be32_load", 4, 0, 0, 0, 0);
   ("src/dns_sector.rs", "edns_ensure_remaining_len", 0, 0, 0, 0, 0);
   ("src/dns_sector.rs", "edns_increment_offset", 0, 0, 0, 0, 0);
   ("src/dns_sector.rs", "edns_remaining_len", 0, 0, 0, 0, 1);
   ("src/dns_sector.rs", "edns_rr_code", 0, 0, 0, 0, 0);
   ("src/dns_sector.rs", "edns_rr_rdlen", 0, 0, 0, 0, 0);
   ("src/dns_sector.rs", "edns_skip_rr", 0, 0, 0, 0, 0);
   ("src/dns_sector.rs", "ensure_in_class", 0, 0, 0, 0, 0);
   ("src/dns_sector.rs", "ensure_remaining_len", 0, 0, 0, 0, 0);
   ("src/dns_sector.rs", "increment_offset", 0, 0, 0, 0, 0);
   ("src/dns_sector.rs", "into_packet", 0, 0, 0, 0, 0);
   ("src/dns_sector.rs", "is_response", 1, 0, 0, 0, 0);
   ("src/dns_sector.rs", "new", 0, 0, 0, 0, 0);
   ("src/dns_sector.rs", "nscount", 1, 0, 0, 0, 0);
   ("src/dns_sector.rs", "opt_rr_edns_ext_flags", 0, 0, 0, 0, 0);
   ("src/dns_sector.rs", "opt_rr_edns_version", 0, 0, 0, 0, 0);
   ("src/dns_sector.rs", "opt_rr_ext_rcode", 0, 0, 0, 0, 0);
   ("src/dns_sector.rs", "opt_rr_max_payload", 0, 0, 0, 0, 0);
   ("src/dns_sector.rs", "opt_rr_rdlen", 0, 0, 0, 0, 0);
   ("src/dns_sector.rs", "parse", 0, 0, 1, 0, 0);
   ("src/dns_sector.rs", "parse_opt", 0, 0, 1, 0, 0);
   ("src/dns_sector.rs", "parse_question", 0, 0, 0, 0, 0);
   ("src/dns_sector.rs", "parse_rr", 0, 0, 0, 0, 6);
   ("src/dns_sector.rs", "qdcount", 1, 0, 0, 0, 0);
   ("src/dns_sector.rs", "remaining_len", 0, 0, 0, 0, 1);
   ("src/dns_sector.rs", "rr_class", 0, 0, 0, 0, 0);
   ("src/dns_sector.rs", "rr_rdlen", 0, 0, 0, 0, 0);
   ("src/dns_sector.rs", "rr_ttl", 0, 0, 0, 0, 0);
   ("src/dns_sector.rs", "rr_type", 0, 0, 0, 0, 0);
   ("src/dns_sector.rs", "set_ancount", 1, 0, 0, 0, 0);
   ("src/dns_sector.rs", "set_arcount", 1, 0, 0, 0, 0);
   ("src/dns_sector.rs", "set_nscount", 1, 0, 0, 0, 0);
   ("src/dns_sector.rs", "set_offset", 0, 0, 0, 0, 0);
   ("src/dns_sector.rs", "set_qdcount", 1, 0, 0, 0, 0);
   ("src/dns_sector.rs", "set_response", 2, 0, 0, 0, 0);
   ("src/dns_sector.rs", "skip_name", 0, 0, 0, 0, 0);
   ("src/dns_sector.rs", "u8_load", 1, 0, 0, 0, 0);
   ("src/compress.rs", "check_compressed_name", 5, 0, 0, 0, 6)
  ].
Proof. vm_compute. reflexivity. Qed.
