(** Ties the literal constants of the model (Model/Base.v) to the constants regenerated from
    /repo's current source on every run (Generated/Constants.v).  If a limit moves in the source
    this file stops compiling, which breaks the proof obligation [constants_agree] of every
    property whose theorems mention the limit. *)
From Coq Require Import NArith List.
From DV Require Import Model.Base Generated.Constants.
Import ListNotations.
Open Scope N_scope.

Definition model_constants : list (N * N) :=
  [ (N.of_nat DNS_HEADER_SIZE, Gen.DNS_HEADER_SIZE);
    (N.of_nat DNS_QUESTION_OFFSET, Gen.DNS_QUESTION_OFFSET);
    (N.of_nat DNS_MAX_HOSTNAME_LEN, Gen.DNS_MAX_HOSTNAME_LEN);
    (N.of_nat DNS_MAX_HOSTNAME_INDIRECTIONS, Gen.DNS_MAX_HOSTNAME_INDIRECTIONS);
    (N.of_nat DNS_RR_QUESTION_HEADER_SIZE, Gen.DNS_RR_QUESTION_HEADER_SIZE);
    (N.of_nat DNS_RR_HEADER_SIZE, Gen.DNS_RR_HEADER_SIZE);
    (N.of_nat DNS_RR_TYPE_OFFSET, Gen.DNS_RR_TYPE_OFFSET);
    (N.of_nat DNS_RR_CLASS_OFFSET, Gen.DNS_RR_CLASS_OFFSET);
    (N.of_nat DNS_RR_TTL_OFFSET, Gen.DNS_RR_TTL_OFFSET);
    (N.of_nat DNS_RR_RDLEN_OFFSET, Gen.DNS_RR_RDLEN_OFFSET);
    (N.of_nat DNS_OPT_RR_MAX_PAYLOAD_OFFSET, Gen.DNS_OPT_RR_MAX_PAYLOAD_OFFSET);
    (N.of_nat DNS_OPT_RR_EXT_RCODE_OFFSET, Gen.DNS_OPT_RR_EXT_RCODE_OFFSET);
    (N.of_nat DNS_OPT_RR_EDNS_VERSION_OFFSET, Gen.DNS_OPT_RR_EDNS_VERSION_OFFSET);
    (N.of_nat DNS_OPT_RR_EDNS_EXT_FLAGS_OFFSET, Gen.DNS_OPT_RR_EDNS_EXT_FLAGS_OFFSET);
    (N.of_nat DNS_OPT_RR_RDLEN_OFFSET, Gen.DNS_OPT_RR_RDLEN_OFFSET);
    (N.of_nat DNS_OPT_RR_HEADER_SIZE, Gen.DNS_OPT_RR_HEADER_SIZE);
    (N.of_nat DNS_EDNS_RR_CODE_OFFSET, Gen.DNS_EDNS_RR_CODE_OFFSET);
    (N.of_nat DNS_EDNS_RR_RDLEN_OFFSET, Gen.DNS_EDNS_RR_RDLEN_OFFSET);
    (N.of_nat DNS_EDNS_RR_HEADER_SIZE, Gen.DNS_EDNS_RR_HEADER_SIZE);
    (N.of_nat DNS_TID_OFFSET, Gen.DNS_TID_OFFSET);
    (N.of_nat DNS_FLAGS_OFFSET, Gen.DNS_FLAGS_OFFSET);
    (DNS_MAX_UNCOMPRESSED_SIZE_N, Gen.DNS_MAX_UNCOMPRESSED_SIZE);
    (N.of_nat MAX_SUFFIX_LEN, Gen.MAX_SUFFIX_LEN);
    (N.of_nat MAX_SUFFIXES, Gen.MAX_SUFFIXES);
    (TYPE_A, Gen.TYPE_A); (TYPE_NS, Gen.TYPE_NS); (TYPE_CNAME, Gen.TYPE_CNAME);
    (TYPE_SOA, Gen.TYPE_SOA); (TYPE_PTR, Gen.TYPE_PTR); (TYPE_MX, Gen.TYPE_MX);
    (TYPE_TXT, Gen.TYPE_TXT); (TYPE_AAAA, Gen.TYPE_AAAA); (TYPE_DNAME, Gen.TYPE_DNAME);
    (TYPE_OPT, Gen.TYPE_OPT); (TYPE_DS, Gen.TYPE_DS); (CLASS_IN, Gen.CLASS_IN);
    (32768, Gen.DNS_FLAG_QR); (32, Gen.DNS_FLAG_AD); (2147483648, Gen.DNS_FLAG_DO);
    (253, Gen.GEN_NAME_TEXT_MAX); (62, Gen.GEN_LABEL_MAX) ].

Theorem constants_agree : forallb (fun ab => fst ab =? snd ab) model_constants = true.
Proof. vm_compute. reflexivity. Qed.
