(** The exported C function table as declared in Rust (src/c_abi.rs, [pub struct FnTable]) and as
    declared in the C header shipped with the library (src/bin/c_hook/c_hook.h), both regenerated from
    the source on every run: same number of entries, same order, same ABI class for every parameter
    and result ([ptr], [fnptr], [u8] ... - field names may differ: [delete] is [delete_rr] in C), the
    Rust struct is [repr(C)], and the capacities and ABI version the header advertises are the ones the
    library uses.  A complete check of a finite object by [vm_compute]. *)
From Coq Require Import List String Bool NArith.
From DV Require Import Model.Base Generated.FnTable Generated.Constants.
Import ListNotations.
Open Scope string_scope.

Definition abi_sig (e : string * option (list string) * string) : option (list string) * string :=
  (snd (fst e), snd e).

Theorem abi_table_match :
  map abi_sig GenFn.rust_table = map abi_sig GenFn.c_table /\
  GenFn.rust_repr_c = true /\
  length GenFn.rust_table = 30 /\
  GenFn.c_DNS_MAX_HOSTNAME_LEN = N.of_nat DNS_MAX_HOSTNAME_LEN /\
  GenFn.c_DNS_MAX_PACKET_SIZE = DNS_MAX_UNCOMPRESSED_SIZE_N /\
  GenFn.c_DNSSECTOR_ABI_VERSION = Gen.ABI_VERSION.
Proof. vm_compute. repeat split; reflexivity. Qed.
