(** No function on the validation path (the functions anchored by C01/C18) can reach itself
    through calls to crate functions: the Rust code on that path is loops, not recursion, so its
    stack depth does not depend on the input.  The call graph is regenerated from /repo's source
    by gen/translate.py (token scan: over-approximates calls); this is a complete check of a finite
    object by [vm_compute].  Modelled, not verified: see DESIGN.md trusted base. *)
From Coq Require Import List String Bool.
From DV Require Import Generated.CallGraph.
Import ListNotations.

Definition callees (g : list (string * list string)) (f : string) : list string :=
  match find (fun e => String.eqb (fst e) f) g with Some e => snd e | None => [] end.

Definition mem (x : string) (l : list string) : bool := existsb (String.eqb x) l.

Fixpoint closure (fuel : nat) (g : list (string * list string)) (frontier seen : list string) : list string :=
  match fuel with
  | O => seen
  | S fuel' =>
    let fresh := filter (fun x => negb (mem x seen)) frontier in
    match fresh with
    | [] => seen
    | _ => closure fuel' g (flat_map (callees g) fresh) (fresh ++ seen)
    end
  end.

Definition reaches_self (g : list (string * list string)) (f : string) : bool :=
  mem f (closure 64 g (callees g f) []).

Theorem no_recursion_on_validation_path :
  forallb (fun e => negb (reaches_self GenCG.calls (fst e))) GenCG.calls = true.
Proof. vm_compute. reflexivity. Qed.
