(** How the suffix dictionary of src/compress.rs decides that a remembered suffix equals the suffix at hand (C06 / C07): the
    regenerated inventory must show exactly one use of the byte-wise comparison - in [SuffixDict::insert], between the suffix at
    hand and the remembered bytes themselves, cut at the remembered length - guarded only by the length test, and no other
    helper of the dictionary.  This is what the model's [sd_find] does and what [C06_dictionary_comparison] / the invariant
    [dict_inv] of Proofs/CompressContent.v rest on.  A shortcut in front of the comparison (a hash, a length-only test) or a
    comparison against something else shows here even when no generated packet can tell the difference (a 32-bit hash collides
    once in 2^32 pairs).  Token-level scan by gen/translate.py: modelled, not verified. *)
From Coq Require Import List String.
From DV Require Import Generated.DictCompare.
Import ListNotations.
Open Scope string_scope.

Theorem dictionary_compares_the_remembered_bytes :
  GenDC.compare_sites = [("insert", "suffix,&candidate.suffix[..candidate.len]")] /\
  GenDC.candidate_conditions = ["candidate.len<=suffix_len&&Self::raw_names_eq_ignore_case(suffix,&candidate.suffix[..candidate.len])"] /\
  GenDC.other_dictionary_functions = ["raw_name_copy"].
Proof. vm_compute. repeat split; reflexivity. Qed.
