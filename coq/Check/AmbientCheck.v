(** The inventory of state with static lifetime / hidden inputs in /repo's source, regenerated on
    every run (Generated/Ambient.v), must be exactly: the random generator used for the transaction id
    of [ParsedPacket::empty], and the thread-local error slot [CERR] of the C table.  Every
    [SuffixDict::new()] call site must be inside [compress] / [rename_with_raw_names] (a fresh
    dictionary per call).  Finite objects, decided by [vm_compute]. *)
From Coq Require Import List String Bool.
From DV Require Import Generated.Ambient.
Import ListNotations.
Open Scope string_scope.

Theorem ambient_inventory :
  GenAmb.ambient = [("rng", "src/parsed_packet.rs", "empty", "rng");
                    ("thread_local", "src/c_abi.rs", "-", "CERR")].
Proof. vm_compute. reflexivity. Qed.

Theorem cerr_is_thread_local :
  existsb (fun e => match e with (k, f, _, n) => String.eqb k "thread_local" && String.eqb f "src/c_abi.rs" && String.eqb n "CERR" end)
          GenAmb.ambient = true /\
  forallb (fun e => match e with (k, _, _, n) => negb (String.eqb n "CERR") || String.eqb k "thread_local" end) GenAmb.ambient = true.
Proof. vm_compute. split; reflexivity. Qed.

Theorem dict_fresh_per_call :
  GenAmb.dict_sites = [("src/compress.rs", "compress"); ("src/compress.rs", "new");
                       ("src/renamer.rs", "rename_with_raw_names")].
Proof. vm_compute. reflexivity. Qed.
