(** The narrowing integer casts and narrow-integer results in /repo's source, regenerated on every run
    (Generated/Casts.v), must be exactly those the model was written against.  The model computes
    offsets, lengths and counts in unbounded naturals and writes a truncation only where the code
    has one of these sites (the recomputed data length [as u16], header words, the synthesised
    record's data offset, decimal escapes); a new site is 8/16/32-bit arithmetic the model does not
    have, so every theorem about sizes would be about something else.  Finite object, decided by
    [vm_compute]. *)
From Coq Require Import List String.
From DV Require Import Generated.Casts.
Import ListNotations.
Open Scope string_scope.

Theorem casts_inventory :
  GenCasts.casts =
  [
   ("src/c_abi.rs", "flags", "returns-u32", 1);
   ("src/c_abi.rs", "opcode", "returns-u8", 1);
   ("src/c_abi.rs", "rcode", "returns-u8", 1);
   ("src/c_abi.rs", "rr_class", "returns-u16", 1);
   ("src/c_abi.rs", "rr_ttl", "returns-u32", 1);
   ("src/c_abi.rs", "rr_type", "returns-u16", 1);
   ("src/compress.rs", "check_compressed_name", "0x3f) as u16", 1);
   ("src/compress.rs", "check_compressed_name", "1]) as u16", 1);
   ("src/compress.rs", "compress_rdata", "new_rdlen as u16", 3);
   ("src/compress.rs", "copy_compressed_name_with_base_offset", "0xff) as u8", 1);
   ("src/compress.rs", "copy_compressed_name_with_base_offset", "8) as u8", 1);
   ("src/compress.rs", "uncompress_rdata", "new_rdlen as u16", 3);
   ("src/constants.rs", "from", "returns-u16", 3);
   ("src/constants.rs", "from", "returns-u8", 3);
   ("src/constants.rs", "from", "v as u16", 3);
   ("src/constants.rs", "from", "v as u8", 3);
   ("src/dns_sector.rs", "ancount", "returns-u16", 1);
   ("src/dns_sector.rs", "arcount", "returns-u16", 1);
   ("src/dns_sector.rs", "edns_be16_load", "1] as u16", 1);
   ("src/dns_sector.rs", "edns_be16_load", "Ok(((self.packet[offset] as u16", 1);
   ("src/dns_sector.rs", "edns_be32_load", "1] as u32", 1);
   ("src/dns_sector.rs", "edns_be32_load", "2] as u32", 1);
   ("src/dns_sector.rs", "edns_be32_load", "3] as u32", 1);
   ("src/dns_sector.rs", "edns_be32_load", "Ok(((self.packet[offset] as u32", 1);
   ("src/dns_sector.rs", "is_response", "(DNS_FLAG_QR as u16", 1);
   ("src/dns_sector.rs", "is_response", "DNS_FLAG_QR as u16", 1);
   ("src/dns_sector.rs", "nscount", "returns-u16", 1);
   ("src/dns_sector.rs", "qdcount", "returns-u16", 1);
   ("src/dns_sector.rs", "set_response", "(DNS_FLAG_QR as u16", 1);
   ("src/dns_sector.rs", "set_response", "DNS_FLAG_QR as u16", 1);
   ("src/parsed_packet.rs", "flags", "(rflags as u32", 1);
   ("src/parsed_packet.rs", "flags", "f.ext_flags.unwrap_or(0) as u32", 1);
   ("src/parsed_packet.rs", "flags", "returns-u32", 1);
   ("src/parsed_packet.rs", "opcode", "returns-u8", 1);
   ("src/parsed_packet.rs", "rcode", "returns-u8", 1);
   ("src/parsed_packet.rs", "set_flags", "0xffff) as u16", 1);
   ("src/parsed_packet.rs", "set_response", "(DNS_FLAG_QR as u16", 1);
   ("src/parsed_packet.rs", "set_response", "DNS_FLAG_QR as u16", 1);
   ("src/parsed_packet.rs", "tid", "returns-u16", 1);
   ("src/renamer.rs", "rename_response_section", "new_rdlen as u16", 3);
   ("src/rr_iterator.rs", "rr_class", "returns-u16", 1);
   ("src/rr_iterator.rs", "rr_ttl", "returns-u32", 1);
   ("src/rr_iterator.rs", "rr_type", "returns-u16", 1);
   ("src/synth/gen.rs", "build", "rdata.push(chunk.len() as u8", 1);
   ("src/synth/gen.rs", "new", "packet.len() as u16", 1);
   ("src/synth/gen.rs", "new", "rdlen as u16", 1);
   ("src/synth/gen.rs", "new_question", "packet.len() as u16", 1);
   ("src/synth/parser.rs", "escaped_char", "(a as i16", 1);
   ("src/synth/parser.rs", "escaped_char", "(b as i16", 1);
   ("src/synth/parser.rs", "escaped_char", "(c as i16", 1);
   ("src/synth/parser.rs", "escaped_char", "i.ret(r as u8", 1);
   ("src/synth/parser.rs", "from_hexdigit", "returns-u8", 1)
  ].
Proof. vm_compute. reflexivity. Qed.
