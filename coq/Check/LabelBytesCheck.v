(** Which bytes may stand in a label (C14, C08): the regenerated inventory of the code must be the one the model transcribes.
    [text_arms]: the match arms, in order, of the loop of copy_raw_name_from_str (src/synth/gen.rs) - the model's [crn_loop]
    (Model/Gen.v) has one branch per arm, in this order, with these guards: a dot on an empty label, a dot, label too long
    (63 - 1), a byte above 128, a control character or a backslash, first byte of a label, any other byte.
    [label_tests]: the one byte test of the parser's name checker - the model's [label_char_ok] (Spec/NameSpec.v) refuses control
    characters (below 32, 127), the dot (46), the backslash (92) and 0.
    [C14_accepted_text_is_policy_name] and [C08_query_is_fresh_parse] hold because every byte the first lets through, the second
    lets through ([text_char_label_char] in Proofs/NameText.v); a byte dropped from one list only breaks that - and shows here even
    when no generated name holds it.  Token-level scan by gen/translate.py: modelled, not verified. *)
From Coq Require Import List String NArith Bool.
From DV Require Import Generated.LabelBytes Spec.NameSpec Proofs.NameText.
Import ListNotations.
Open Scope string_scope.

Theorem label_byte_policies_are_the_transcribed_ones :
  GenLB.text_arms = ["b'.'iflabel_len==0"; "b'.'"; "_iflabel_len>=63-1"; "cifc>128"; "cifc.is_ascii_control()||c==b'\\'"; "_iflabel_len==0"; "_"] /\
  GenLB.label_tests = [("compress.rs", "check_compressed_name", "c.is_ascii_control()||c==b'.'||c==b'\\'||c==0")].
Proof. vm_compute. split; reflexivity. Qed.

(** the two byte tests of the model, over every byte: what the text conversion lets through (not a dot, not above 128, not a control
    character, not a backslash), the parser's label test lets through; the converse fails only for bytes above 128 *)
Theorem model_byte_tests_agree :
  forallb (fun c => implb (text_char_ok c) (label_char_ok c)) (map N.of_nat (seq 0 256)) = true /\
  forallb (fun c => implb (label_char_ok c) (orb (text_char_ok c) (128 <? c)%N)) (map N.of_nat (seq 0 256)) = true.
Proof. split; vm_compute; reflexivity. Qed.
