(** * What a whole-packet rename returns (C07), for every accepted packet - compressed or not:

    either the error "invalid name" (some name of the packet would exceed 255 bytes once its suffix is replaced) or a packet
    made of the input's header, the question with its name renamed and written in full, and record by record - answers,
    authority, additional with OPT - the owner name renamed, the same type / class / TTL, a data length equal to the length
    of what follows, and the same data with the names inside NS / CNAME / PTR / MX / SOA data renamed.  "Renamed"
    ([renamed]) is the abstract rule: the trailing labels equal to the source's up to ASCII case (the whole name in exact
    mode) are replaced by the target's, any other name is kept.  Names of the output are read with the reference decoder
    of [CompressContent.v] and compared up to case (the output is compressed again). *)

From DV Require Import Model.Base Model.NameCheck Model.Parser Model.Header Model.Readers Model.Uncompress Model.Mutate
  Model.Compress Model.Renamer Spec.NameSpec Spec.PacketSpec Spec.RecordSpec Spec.PlainSpec Proofs.ListLemmas Proofs.Hoare
  Proofs.NameCheckTotal Proofs.ParserTotal Proofs.NameIff Proofs.ParserInv Proofs.ParseSound Proofs.ReadersAgree
  Proofs.ReadersLabels Proofs.QuestionSpec Proofs.WalkValues Proofs.SetTtl Proofs.WalkSkip Proofs.UncompressFrame
  Proofs.UncompressSpec Proofs.PlainWf Proofs.RenameSpec Proofs.CompressName Proofs.CompressSize Proofs.CompressContent Proofs.EdnsFacts Proofs.EdnsPlain Proofs.ViewAfter.
From Coq Require Import ZifyBool ZifyNat ZifyN.

Lemma F2_length {T U} (P : T -> U -> Prop) : forall a b, Forall2 P a b -> length a = length b.
Proof. induction 1; cbn [length]; congruence. Qed.

Section Rename.
  Variables sl tl : list bytes.
  Variable sfx : bool.
  Hypothesis Hsl : Forall lab sl.
  Hypothesis Htl : Forall lab tl.
  Hypothesis Hsl0 : sl <> [].
  Hypothesis Htl0 : tl <> [].
  Hypothesis Htb : bytes_ok (wire_of_labels tl).

  Definition renamed (nl nl' : list bytes) : Prop :=
    (exists pre rest, nl = pre ++ rest /\ ci_labels rest sl /\ (sfx = true \/ pre = []) /\ nl' = pre ++ tl) \/
    ((forall pre rest, nl = pre ++ rest -> ci_labels rest sl -> ~ (sfx = true \/ pre = [])) /\ nl' = nl).

  (** the name would exceed 255 bytes once its matching suffix is replaced *)
  Definition overflows (nl : list bytes) : Prop :=
    exists pre rest, nl = pre ++ rest /\ ci_labels rest sl /\ (sfx = true \/ pre = []) /\ 255 < length (labels_flat pre) + length (wire_of_labels tl).

  Definition rec_overflows (rx : rec_view * rd_view) : Prop :=
    overflows (rv_labels (fst rx)) \/
    match snd rx with
    | RdName a => overflows a
    | RdMx _ a => overflows a
    | RdSoa a b _ => overflows a \/ overflows b
    | RdRaw _ => False
    end.

  Lemma ci_dec : forall a b : list bytes, {ci_labels a b} + {~ ci_labels a b}.
  Proof.
    induction a as [|x a IH]; intros [|y b].
    - left. constructor.
    - right. intros H. inversion H.
    - right. intros H. inversion H.
    - destruct (list_eq_dec N.eq_dec (map lower_byte x) (map lower_byte y)) as [E|E].
      + destruct (IH b) as [H|H]; [left; constructor; assumption|right; intros H'; inversion H'; subst; contradiction].
      + right. intros H'. inversion H'; subst. contradiction.
  Qed.

  Lemma match_dec (nl : list bytes) :
    {pr : list bytes * list bytes | nl = fst pr ++ snd pr /\ ci_labels (snd pr) sl /\ (sfx = true \/ fst pr = [])} +
    {forall pre rest, nl = pre ++ rest -> ci_labels rest sl -> ~ (sfx = true \/ pre = [])}.
  Proof.
    set (k := length nl - length sl).
    assert (Huniq : forall pre rest, nl = pre ++ rest -> ci_labels rest sl -> pre = firstn k nl /\ rest = skipn k nl /\ length sl <= length nl).
    { intros pre rest E H. pose proof (F2_length _ _ _ H) as L. assert (Lp : length pre = k). { unfold k. rewrite E, app_length. clear - L. unfold bytes in *. lia. }
      rewrite E. rewrite <- Lp. rewrite firstn_app, firstn_all, Nat.sub_diag, skipn_app, skipn_all, Nat.sub_diag. cbn [firstn skipn app].
      rewrite app_nil_r. repeat split. rewrite app_length. unfold bytes in *. lia. }
    destruct (le_dec (length sl) (length nl)) as [Hle|Hgt].
    - destruct (ci_dec (skipn k nl) sl) as [Hci|Hnci].
      + destruct sfx eqn:Es.
        * left. exists (firstn k nl, skipn k nl). cbn [fst snd]. split; [symmetry; apply firstn_skipn|]. split; [exact Hci|left; reflexivity].
        * destruct (Nat.eq_dec k 0) as [E0|N0].
          -- left. exists (firstn k nl, skipn k nl). cbn [fst snd]. split; [symmetry; apply firstn_skipn|]. split; [exact Hci|right; rewrite E0; reflexivity].
          -- right. intros pre rest E H [Hc|Hc]; [discriminate|]. destruct (Huniq pre rest E H) as (Ep & _ & _). subst pre.
             apply (f_equal (@length _)) in Ep. rewrite firstn_length in Ep. cbn [length] in Ep. lia.
      + right. intros pre rest E H _. destruct (Huniq pre rest E H) as (_ & Er & _). subst rest. contradiction.
    - right. intros pre rest E H _. destruct (Huniq pre rest E H) as (_ & _ & Hl). lia.
  Qed.

  Lemma split_unique (nl pre rest pre' rest' : list bytes) : nl = pre ++ rest -> ci_labels rest sl -> nl = pre' ++ rest' -> ci_labels rest' sl -> pre = pre'.
  Proof.
    intros E H E' H'. pose proof (F2_length _ _ _ H) as L. pose proof (F2_length _ _ _ H') as L'.
    assert (Lp : length pre = length pre').
    { apply (f_equal (@length _)) in E. apply (f_equal (@length _)) in E'. rewrite app_length in E, E'. unfold bytes in *. lia. }
    rewrite E in E'. apply app_eq_len in E'; [apply E'|exact Lp].
  Qed.

  Variable p : bytes.
  Hypothesis Hb : bytes_ok p.

  (** one name *)
  Lemma cwrn off ls e d out : cname_l p off ls e -> sd_wf d ->
    (copy_with_replaced_name out p off d (wire_of_labels tl) (wire_of_labels sl) sfx = Err InvalidName /\ overflows ls) \/
    exists ls' enc d', renamed ls ls' /\ ~ overflows ls /\
      copy_with_replaced_name out p off d (wire_of_labels tl) (wire_of_labels sl) sfx = Ok (out ++ enc, d') /\
      sd_wf d' /\ bytes_ok enc /\ length enc <= 255 /\ (d = sd_new -> enc = wire_of_labels ls') /\
      forall O, length O = length out -> dict_inv d O -> name_enc (O ++ enc) (length O) ls' (length O + length enc) /\ dict_inv d' (O ++ enc).
  Proof.
    intros Hcn Hwf. unfold copy_with_replaced_name.
    rewrite (copy_uncompressed_name_labels p Hb _ ls _ [] Hcn). cbn [bind app].
    destruct (cname_l_lab _ _ _ _ Hcn) as [Hlab Hl255].
    pose proof (bytes_ok_wire_of p off ls e Hb Hcn) as Hbw.
    assert (Hemit : forall ls', Forall lab ls' -> length (wire_of_labels ls') <= 255 -> bytes_ok (wire_of_labels ls') ->
              exists enc d', copy_compressed_name d out (wire_of_labels ls') 0 = Ok (out ++ enc, d', length enc, length (wire_of_labels ls')) /\
                sd_wf d' /\ bytes_ok enc /\ length enc <= 255 /\ (d = sd_new -> enc = wire_of_labels ls') /\
                forall O, length O = length out -> dict_inv d O -> name_enc (O ++ enc) (length O) ls' (length O + length enc) /\ dict_inv d' (O ++ enc)).
    { intros ls' Hl' Hlen' Hb'.
      destruct (copy_compressed_name_plain ls' [] [] d out Hl' Hlen' Hwf) as (enc & d' & Hc & Hem). cbn [app length Nat.add] in Hc. rewrite app_nil_r in Hc.
      exists enc, d'. split; [exact Hc|]. pose proof Hem as (k & tail & _ & _ & _ & Hle & Hwf' & _). split; [exact Hwf'|].
      split; [apply (emission_bytes_ok _ _ _ _ _ Hem Hb')|]. split; [lia|]. split; [intros ->; exact (emission_new _ _ _ _ Hem)|].
      intros O LO HdO. destruct (emission_decodes d (length out) ls' enc d' O Hem Hl' HdO LO) as (l2 & Hdec & Hci & Hd').
      rewrite <- LO in Hdec. split; [exists l2; split; assumption|exact Hd']. }
    destruct (match_dec ls) as [[[pre rest] (E & Hci & Hmode)]|Hno]; cbn [fst snd] in *.
    - rewrite (replace_raw_match ls sl tl sfx Hlab Hsl Htl Hsl0 Htl0 pre rest E Hci Hmode).
      destruct (DNS_MAX_HOSTNAME_LEN <? length (labels_flat pre) + length (wire_of_labels tl)) eqn:Eo;
        [left; split; [reflexivity|exists pre, rest; unfold DNS_MAX_HOSTNAME_LEN in Eo; repeat split; try assumption; lia]|right].
      assert (Hl' : Forall lab (pre ++ tl)) by (apply Forall_app; split; [rewrite E in Hlab; apply Forall_app in Hlab; apply Hlab|exact Htl]).
      assert (Hlen' : length (wire_of_labels (pre ++ tl)) <= 255) by (rewrite wire_app, app_length; unfold DNS_MAX_HOSTNAME_LEN in Eo; lia).
      assert (Hb' : bytes_ok (wire_of_labels (pre ++ tl))).
      { rewrite wire_app. apply bytes_ok_app; [|exact Htb]. rewrite E, wire_app in Hbw. apply Forall_app in Hbw. apply Hbw. }
      destruct (Hemit _ Hl' Hlen' Hb') as (enc & d' & Hc & Hwf' & Hbe & Hle & Hnew & HO).
      cbn [bind]. rewrite Hc. exists (pre ++ tl), enc, d'. split; [left; exists pre, rest; auto|].
      split; [intros (pre' & rest' & E' & Hci' & _ & Hov); rewrite (split_unique ls pre rest pre' rest' E Hci E' Hci') in Eo; unfold DNS_MAX_HOSTNAME_LEN in Eo; lia|].
      split; [reflexivity|]. auto.
    - rewrite (replace_raw_no_match ls sl tl sfx Hlab Hsl Htl Hsl0 Htl0 Hno). right.
      destruct (Hemit _ Hlab Hl255 Hbw) as (enc & d' & Hc & Hwf' & Hbe & Hle & Hnew & HO).
      cbn [bind]. rewrite Hc. exists ls, enc, d'. split; [right; split; [exact Hno|reflexivity]|].
      split; [intros (pre' & rest' & E' & Hci' & Hm' & _); exact (Hno pre' rest' E' Hci' Hm')|]. split; [reflexivity|]. auto.
  Qed.

  (** one record *)
  Variable v : ppacket.
  Hypothesis Hpk : pp_packet v = p.
  Variable Q : bytes.

  Definition ren_rd (x x' : rd_view) : Prop :=
    match x, x' with
    | RdName a, RdName b => renamed a b
    | RdMx pa a, RdMx pb b => pa = pb /\ renamed a b
    | RdSoa a1 a2 ta, RdSoa b1 b2 tb => renamed a1 b1 /\ renamed a2 b2 /\ ta = tb
    | RdRaw a, RdRaw b => a = b
    | _, _ => False
    end.

  Definition ren_rec (rx rx' : rec_view * rd_view) : Prop :=
    (exists ls', renamed (rv_labels (fst rx)) ls' /\ fst rx' = rv_with_labels (fst rx) ls') /\ ren_rd (snd rx) (snd rx').

  Lemma skipn_firstn_10 (X : bytes) n : skipn 10 (firstn (10 + n) X) = firstn n (skipn 10 X).
  Proof. rewrite skipn_firstn_comm. f_equal. lia. Qed.

  Lemma rename_record_content acc r x sec left done : record_at p r (rv_end r) -> rdata_at p r x -> cinv p Q done acc ->
    (rename_response_record v (wire_of_labels tl) (wire_of_labels sl) sfx acc (it_on sec r (rv_end r) left) = Err InvalidName /\ rec_overflows (r, x)) \/
    exists acc' rx', ren_rec (r, x) rx' /\ ~ rec_overflows (r, x) /\
      rename_response_record v (wire_of_labels tl) (wire_of_labels sl) sfx acc (it_on sec r (rv_end r) left) = Ok acc' /\
      cinv p Q (done ++ [rx']) acc'.
  Proof.
    intros Hr Hx (Hwf & Hdi & Hrecs & Hbout & (X & EX)). destruct acc as [out d]. cbn [fst snd] in *.
    pose proof Hr as (Hcn & _ & _ & _ & Hu16 & _).
    pose proof (record_at_end _ _ _ Hr) as (_ & _ & Hle). unfold rv_end in *.
    assert (Hrl16 : (N.of_nat (rv_rdlen r) < 65536)%N) by exact (u16_lt p _ _ Hb Hu16).
    unfold rename_response_record. cbn [it_on it_offset it_name_end unwrap bind]. rewrite Hpk.
    set (ne := rv_name_end r) in *.
    destruct (cwrn (rv_off r) (rv_labels r) ne d out Hcn Hwf) as [[Herr Hov]|(ls' & enc & d1 & Hren & Hnov0 & Hc & Hwf1 & Hbe & Hle1 & _ & HO)];
      [left; split; [rewrite Herr; reflexivity|left; exact Hov]|].
    rewrite Hc. cbn [bind]. unfold DNS_RR_HEADER_SIZE, DNS_RR_RDLEN_OFFSET.
    destruct (length p <? ne + 10) eqn:Elen; [lia|].
    rewrite slice_eq by lia. replace (ne + 10 - ne) with 10 by lia. cbn [bind].
    match goal with |- context [it_rr_type v ?it] => rewrite (it_rr_type_ok p v Hpk r _ it Hr eq_refl eq_refl) end. cbn [bind].
    destruct (HO out eq_refl Hdi) as [Hn Hd1].
    set (out1 := out ++ enc) in *.
    set (h8 := firstn 8 (skipn ne p)). set (h2 := firstn 2 (skipn (ne + 8) p)).
    assert (L8 : length h8 = 8) by (unfold h8; rewrite firstn_length, skipn_length; lia).
    assert (L2 : length h2 = 2) by (unfold h2; rewrite firstn_length, skipn_length; lia).
    rewrite hdr10. fold h8 h2.
    assert (S8 : forall W Y, seg (out1 ++ h8 ++ W ++ Y) (length out1) h8) by (intros W Y; apply seg_mid).
    assert (S2 : forall W Y, seg (out1 ++ h8 ++ W ++ Y) (length out1 + 8) W).
    { intros W Y. exists (out1 ++ h8), Y. split; [rewrite <- app_assoc; reflexivity|rewrite app_length; lia]. }
    (* how a finished record is reported, whatever its data *)
    assert (Hfin : forall R d' x', ren_rd x x' -> ~ rec_overflows (r, x) -> sd_wf d' -> dict_inv d' (out1 ++ R) -> bytes_ok R -> 10 <= length R ->
               (N.of_nat (length R - 10) < 65536)%N ->
               seg (out1 ++ R) (length out1) h8 -> seg (out1 ++ R) (length out1 + 8) (be16_bytes (N.of_nat (length R - 10))) ->
               rdata_enc (out1 ++ R) (length out1 + 10) x' (length out1 + length R) ->
               exists acc' rx', ren_rec (r, x) rx' /\ ~ rec_overflows (r, x) /\ Ok (out1 ++ R, d') = Ok acc' /\ cinv p Q (done ++ [rx']) acc').
    { intros R d' x' Hrx Hnov Hwf' Hd' HbR HR10 HR16 Hs8 Hs2 Hrd.
      exists (out1 ++ R, d'), (rv_with_labels r ls', x'). split; [split; [exists ls'; split; [exact Hren|reflexivity]|exact Hrx]|].
      split; [exact Hnov|]. split; [reflexivity|]. unfold cinv. cbn [fst snd]. split; [exact Hwf'|]. split; [exact Hd'|].
      split; [|split; [apply bytes_ok_app; [apply bytes_ok_app; [exact Hbout|exact Hbe]|exact HbR]|exists ((X ++ enc) ++ R); unfold out1; rewrite EX, <- !app_assoc; reflexivity]].
      apply (recs_enc_snoc p _ done _ (length out)).
      - unfold out1. rewrite <- app_assoc. apply recs_enc_app. exact Hrecs.
      - exists (length out1). cbn [fst snd rv_with_labels rv_labels rv_name_end]. fold ne. fold h8.
        split; [|split; [exact Hs8|split; [|split]]].
        + apply name_enc_app. apply (dec_in_eq_name _ _ _ _ _ _ Hn); unfold out1; rewrite ?app_length; lia.
        + replace (length (out1 ++ R) - (length out1 + 10)) with (length R - 10) by (rewrite (app_length out1 R); lia). exact Hs2.
        + rewrite (app_length out1 R). replace (length out1 + length R - (length out1 + 10)) with (length R - 10) by lia. exact HR16.
        + rewrite (app_length out1 R). exact Hrd. }
    unfold rdata_at in Hx. cbv zeta in Hx. fold ne in Hx.
    destruct x as [ls|pref ls|l1 l2 tail|b].
    - (* one name *)
      destruct Hx as (Hnt & Hcn2). change (PacketSpec.is_name_type (rv_type r)) with (Uncompress.is_name_type (rv_type r)) in Hnt. rewrite Hnt.
      destruct (cwrn (ne + 10) ls _ d1 (out1 ++ h8 ++ h2) Hcn2 Hwf1) as [[Herr Hov]|(ls2 & enc2 & d2 & Hren2 & Hnov2 & Hc2 & Hwf2 & Hbe2 & Hle2 & _ & HO2)];
        [left; split; [rewrite Herr; reflexivity|right; exact Hov]|right].
      rewrite Hc2. cbn [bind]. unfold usub.
      match goal with |- context [?a <=? ?b] => destruct (a <=? b) eqn:Eu; [|rewrite !app_length in Eu; lia] end. cbn [bind].
      replace ((out1 ++ h8 ++ h2) ++ enc2) with (out1 ++ h8 ++ h2 ++ enc2) by (rewrite <- !app_assoc; reflexivity).
      rewrite patch_norm by assumption. cbn [bind].
      match goal with |- context [be16_bytes ?w] => set (W := be16_bytes w) end.
      assert (LW : length W = 2) by apply be16_bytes_length.
      destruct (HO2 (out1 ++ h8 ++ W)) as [Hn2 Hd2]; [rewrite !app_length; lia|apply dict_inv_app; exact Hd1|].
      replace ((out1 ++ h8 ++ W) ++ enc2) with (out1 ++ h8 ++ W ++ enc2) in * by (rewrite <- !app_assoc; reflexivity).
      apply (Hfin (h8 ++ W ++ enc2) d2 (RdName ls2) Hren2 ltac:(intros [H|H]; [exact (Hnov0 H)|exact (Hnov2 H)]) Hwf2 Hd2).
      + apply bytes_ok_app; [apply bytes_ok_seg; exact Hb|apply bytes_ok_app; [apply bytes_ok_be16|exact Hbe2]].
      + rewrite !app_length. lia.
      + rewrite !app_length. lia.
      + apply S8.
      + rewrite !app_length, L8, LW. replace (8 + (2 + length enc2) - 10) with (length enc2) by lia.
        replace (be16_bytes (N.of_nat (length enc2))) with W; [apply S2|].
        unfold W. f_equal. rewrite N.mod_small by (rewrite !app_length; lia). rewrite !app_length. lia.
      + cbn [rdata_enc]. apply (dec_in_eq_name _ _ _ _ _ _ Hn2); rewrite ?app_length; lia.
    - (* MX *)
      destruct Hx as (Hnt & Hmx & H2 & Hpref & Hcn2). change (PacketSpec.is_name_type (rv_type r)) with (Uncompress.is_name_type (rv_type r)) in Hnt.
      assert (Emx : (rv_type r =? TYPE_MX)%N = true) by (rewrite Hmx; reflexivity). rewrite Hnt, Emx.
      rewrite slice_eq by lia. replace (ne + 10 + 2 - (ne + 10)) with 2 by lia. rewrite <- Hpref. cbn [bind].
      assert (Lpref : length pref = 2) by (rewrite Hpref, firstn_length, skipn_length; lia).
      destruct (cwrn (ne + 10 + 2) ls _ d1 ((out1 ++ h8 ++ h2) ++ pref) Hcn2 Hwf1) as [[Herr Hov]|(ls2 & enc2 & d2 & Hren2 & Hnov2 & Hc2 & Hwf2 & Hbe2 & Hle2 & _ & HO2)];
        [left; split; [rewrite Herr; reflexivity|right; exact Hov]|right].
      rewrite Hc2. cbn [bind]. unfold usub.
      match goal with |- context [?a <=? ?b] => destruct (a <=? b) eqn:Eu; [|rewrite !app_length in Eu; lia] end. cbn [bind].
      replace (((out1 ++ h8 ++ h2) ++ pref) ++ enc2) with (out1 ++ h8 ++ h2 ++ pref ++ enc2) by (rewrite <- !app_assoc; reflexivity).
      rewrite patch_norm by assumption. cbn [bind].
      match goal with |- context [be16_bytes ?w] => set (W := be16_bytes w) end.
      assert (LW : length W = 2) by apply be16_bytes_length.
      destruct (HO2 (out1 ++ h8 ++ W ++ pref)) as [Hn2 Hd2]; [rewrite !app_length; lia|apply dict_inv_app; exact Hd1|].
      replace ((out1 ++ h8 ++ W ++ pref) ++ enc2) with (out1 ++ h8 ++ W ++ pref ++ enc2) in * by (rewrite <- !app_assoc; reflexivity).
      apply (Hfin (h8 ++ W ++ pref ++ enc2) d2 (RdMx pref ls2) (conj eq_refl Hren2) ltac:(intros [H|H]; [exact (Hnov0 H)|exact (Hnov2 H)]) Hwf2 Hd2).
      + apply bytes_ok_app; [apply bytes_ok_seg; exact Hb|apply bytes_ok_app; [apply bytes_ok_be16|apply bytes_ok_app; [rewrite Hpref; apply bytes_ok_seg; exact Hb|exact Hbe2]]].
      + rewrite !app_length. lia.
      + rewrite !app_length. lia.
      + apply S8.
      + rewrite !app_length, L8, LW, Lpref. replace (8 + (2 + (2 + length enc2)) - 10) with (2 + length enc2) by lia.
        replace (be16_bytes (N.of_nat (2 + length enc2))) with W; [apply S2|].
        unfold W. f_equal. rewrite N.mod_small by (rewrite !app_length; lia). rewrite !app_length. lia.
      + cbn [rdata_enc]. split.
        * exists (out1 ++ h8 ++ W), enc2. split; [rewrite <- !app_assoc; reflexivity|rewrite !app_length; lia].
        * apply (dec_in_eq_name _ _ _ _ _ _ Hn2); rewrite ?app_length; lia.
    - (* SOA *)
      destruct Hx as (Hnt & Hsoa & H21 & m & Hc1 & Hc2 & Htail). change (PacketSpec.is_name_type (rv_type r)) with (Uncompress.is_name_type (rv_type r)) in Hnt.
      assert (Emx : (rv_type r =? TYPE_MX)%N = false) by (rewrite Hsoa; reflexivity).
      assert (Esoa : (rv_type r =? TYPE_SOA)%N = true) by (rewrite Hsoa; reflexivity). rewrite Hnt, Emx, Esoa.
      assert (Ltail : length tail = 20) by (rewrite Htail, firstn_length, skipn_length; lia).
      pose proof (name_at_end_gt _ _ _ _ _ _ _ _ (proj2 Hc1)) as Hm1. pose proof (name_at_end_gt _ _ _ _ _ _ _ _ (proj2 Hc2)) as Hm2.
      unfold slice_from. destruct (ne + 10 <=? length p) eqn:E1; [|lia]. cbn [bind].
      unfold raw_name_len.
      pose proof (rl_first_segment p (ne + 10) _ _ _ _ _ _ _ (proj2 Hc1) (le_n _) (length (skipn (ne + 10) p) + 1) ltac:(rewrite skipn_length; lia)) as Hr1.
      rewrite Nat.sub_diag in Hr1. rewrite Hr1. cbn [bind].
      destruct (cwrn (ne + 10) l1 m d1 (out1 ++ h8 ++ h2) Hc1 Hwf1) as [[Herr Hov]|(la & enc1 & d2 & Hren1 & Hnov1 & Hcc1 & Hwf2 & Hbe1 & Hle1' & _ & HO1)];
        [left; split; [rewrite Herr; reflexivity|right; left; exact Hov]|].
      rewrite Hcc1. cbn [bind]. replace (ne + 10 + (m - (ne + 10))) with m by lia.
      destruct (m <=? length p) eqn:E2; [|lia]. cbn [bind].
      pose proof (rl_first_segment p m _ _ _ _ _ _ _ (proj2 Hc2) (le_n _) (length (skipn m p) + 1) ltac:(rewrite skipn_length; lia)) as Hr2.
      rewrite Nat.sub_diag in Hr2. rewrite Hr2. cbn [bind].
      destruct (cwrn m l2 _ d2 ((out1 ++ h8 ++ h2) ++ enc1) Hc2 Hwf2) as [[Herr Hov]|(lb & enc2 & d3 & Hren2 & Hnov2 & Hcc2 & Hwf3 & Hbe2 & Hle2' & _ & HO2)];
        [left; split; [rewrite Herr; reflexivity|right; right; exact Hov]|right].
      rewrite Hcc2. cbn [bind]. replace (m + (ne + 10 + rv_rdlen r - 20 - m)) with (ne + 10 + rv_rdlen r - 20) by lia.
      rewrite slice_eq by lia. replace (ne + 10 + rv_rdlen r - 20 + 20 - (ne + 10 + rv_rdlen r - 20)) with 20 by lia. rewrite <- Htail. cbn [bind].
      unfold usub.
      match goal with |- context [?a <=? ?b] => destruct (a <=? b) eqn:Eu; [|rewrite !app_length in Eu; lia] end. cbn [bind].
      replace ((((out1 ++ h8 ++ h2) ++ enc1) ++ enc2) ++ tail) with (out1 ++ h8 ++ h2 ++ enc1 ++ enc2 ++ tail) by (rewrite <- !app_assoc; reflexivity).
      rewrite patch_norm by assumption. cbn [bind].
      match goal with |- context [be16_bytes ?w] => set (W := be16_bytes w) end.
      assert (LW : length W = 2) by apply be16_bytes_length.
      destruct (HO1 (out1 ++ h8 ++ W)) as [Hn1 Hd2]; [rewrite !app_length; lia|apply dict_inv_app; exact Hd1|].
      destruct (HO2 ((out1 ++ h8 ++ W) ++ enc1)) as [Hn2 Hd3]; [rewrite !app_length; lia|exact Hd2|].
      replace (((out1 ++ h8 ++ W) ++ enc1) ++ enc2) with (out1 ++ h8 ++ W ++ enc1 ++ enc2) in * by (rewrite <- !app_assoc; reflexivity).
      apply (Hfin (h8 ++ W ++ enc1 ++ enc2 ++ tail) d3 (RdSoa la lb tail) (conj Hren1 (conj Hren2 eq_refl)) ltac:(intros [H|[H|H]]; [exact (Hnov0 H)|exact (Hnov1 H)|exact (Hnov2 H)]) Hwf3).
      + replace (out1 ++ h8 ++ W ++ enc1 ++ enc2 ++ tail) with ((out1 ++ h8 ++ W ++ enc1 ++ enc2) ++ tail) by (rewrite <- !app_assoc; reflexivity).
        apply dict_inv_app. exact Hd3.
      + apply bytes_ok_app; [apply bytes_ok_seg; exact Hb|apply bytes_ok_app; [apply bytes_ok_be16|apply bytes_ok_app; [exact Hbe1|apply bytes_ok_app; [exact Hbe2|rewrite Htail; apply bytes_ok_seg; exact Hb]]]].
      + rewrite !app_length. lia.
      + rewrite !app_length. lia.
      + apply S8.
      + rewrite !app_length, L8, LW, Ltail. replace (8 + (2 + (length enc1 + (length enc2 + 20))) - 10) with (length enc1 + length enc2 + 20) by lia.
        replace (be16_bytes (N.of_nat (length enc1 + length enc2 + 20))) with W; [apply S2|].
        unfold W. f_equal. rewrite N.mod_small by (rewrite !app_length; lia). rewrite !app_length. lia.
      + cbn [rdata_enc]. exists (length out1 + 10 + length enc1), (length out1 + 10 + length enc1 + length enc2).
        split; [|split; [|split]].
        * replace (out1 ++ h8 ++ W ++ enc1 ++ enc2 ++ tail) with (((out1 ++ h8 ++ W) ++ enc1) ++ enc2 ++ tail) by (rewrite <- !app_assoc; reflexivity).
          apply name_enc_app. apply (dec_in_eq_name _ _ _ _ _ _ Hn1); rewrite ?app_length; lia.
        * replace (out1 ++ h8 ++ W ++ enc1 ++ enc2 ++ tail) with ((out1 ++ h8 ++ W ++ enc1 ++ enc2) ++ tail) by (rewrite <- !app_assoc; reflexivity).
          apply name_enc_app. apply (dec_in_eq_name _ _ _ _ _ _ Hn2); rewrite ?app_length; lia.
        * exists (out1 ++ h8 ++ W ++ enc1 ++ enc2), []. split; [rewrite app_nil_r, <- !app_assoc; reflexivity|rewrite !app_length; lia].
        * rewrite !app_length. lia.
    - (* opaque data *)
      destruct Hx as (Hnt & Hnmx & Hnsoa & Eb). change (PacketSpec.is_name_type (rv_type r)) with (Uncompress.is_name_type (rv_type r)) in Hnt.
      rewrite Hnt. destruct (rv_type r =? TYPE_MX)%N eqn:E1; [lia|]. destruct (rv_type r =? TYPE_SOA)%N eqn:E2; [lia|].
      match goal with |- context [it_rr_rdlen v ?it] => rewrite (it_rr_rdlen_ok p v Hpk r _ it Hr eq_refl eq_refl) end. cbn [bind].
      rewrite slice_eq by lia. replace (ne + 10 + rv_rdlen r - ne) with (10 + rv_rdlen r) by lia. cbn [bind].
      rewrite skipn_firstn_10, skipn_skipn. replace (10 + ne) with (ne + 10) by lia.
      unfold rdata_of in Eb. fold ne in Eb. rewrite <- Eb.
      assert (Lb : length b = rv_rdlen r) by (rewrite Eb; rewrite firstn_length, skipn_length; lia).
      right. replace ((out1 ++ h8 ++ h2) ++ b) with (out1 ++ h8 ++ h2 ++ b) by (rewrite <- !app_assoc; reflexivity).
      apply (Hfin (h8 ++ h2 ++ b) d1 (RdRaw b) eq_refl ltac:(intros [H|H]; [exact (Hnov0 H)|exact H]) Hwf1).
      + apply dict_inv_app. exact Hd1.
      + apply bytes_ok_app; [apply bytes_ok_seg; exact Hb|apply bytes_ok_app; [apply bytes_ok_seg; exact Hb|rewrite Eb; apply bytes_ok_seg; exact Hb]].
      + rewrite !app_length. lia.
      + rewrite !app_length, L8, L2, Lb. replace (8 + (2 + rv_rdlen r) - 10) with (rv_rdlen r) by lia. exact Hrl16.
      + apply S8.
      + rewrite !app_length, L8, L2, Lb. replace (8 + (2 + rv_rdlen r) - 10) with (rv_rdlen r) by lia.
        fold ne in Hu16. rewrite <- (be16_of_u16 p (ne + 8) _ Hb Hu16). apply S2.
      + cbn [rdata_enc]. split; [|rewrite !app_length; lia].
        exists (out1 ++ h8 ++ h2), []. split; [rewrite app_nil_r, <- !app_assoc; reflexivity|rewrite !app_length; lia].
  Qed.

  (** a section *)
  Lemma walk_ren : forall lx off e, records_at p off (map fst lx) e -> Forall (rd_ok p) lx ->
    forall fuel sec r0 x0 done acc, length lx < fuel -> record_at p r0 off -> rdata_at p r0 x0 -> cinv p Q done acc ->
    (walk_fold fuel (r_next_including_opt v) (rename_response_record v (wire_of_labels tl) (wire_of_labels sl) sfx)
              (Some (it_on sec r0 off (length lx))) acc = Err InvalidName /\ Exists rec_overflows ((r0, x0) :: lx)) \/
    exists acc' L', Forall2 ren_rec ((r0, x0) :: lx) L' /\ Forall (fun rx => ~ rec_overflows rx) ((r0, x0) :: lx) /\
      walk_fold fuel (r_next_including_opt v) (rename_response_record v (wire_of_labels tl) (wire_of_labels sl) sfx)
                (Some (it_on sec r0 off (length lx))) acc = Ok acc' /\ cinv p Q (done ++ L') acc'.
  Proof.
    induction lx as [|[r x] lx IH]; intros off e Hl Hg fuel sec r0 x0 done acc Hfuel Hr0 Hx0 Hinv;
      (destruct fuel as [|fuel]; [cbn in Hfuel; lia|]); cbn [walk_fold];
      pose proof (record_at_end _ _ _ Hr0) as (Eoff & _); rewrite Eoff in Hr0 |- *.
    - destruct (rename_record_content acc r0 x0 sec (length (@nil (rec_view * rd_view))) done Hr0 Hx0 Hinv) as [[Herr Hov]|(acc1 & rx' & Hren & Hnov & Hc1 & Hinv1)];
        [left; split; [rewrite Herr; reflexivity|left; exact Hov]|right].
      rewrite Hc1. cbn [bind length]. rewrite (incl_end v). cbn [bind]. rewrite walk_fold_None.
      exists acc1, [rx']. split; [constructor; [exact Hren|constructor]|]. split; [constructor; [exact Hnov|constructor]|]. split; [reflexivity|exact Hinv1].
    - destruct (rename_record_content acc r0 x0 sec (length ((r, x) :: lx)) done Hr0 Hx0 Hinv) as [[Herr Hov]|(acc1 & rx' & Hren & Hnov & Hc1 & Hinv1)];
        [left; split; [rewrite Herr; reflexivity|left; exact Hov]|].
      rewrite Hc1. cbn [bind]. rewrite Eoff in Hl. cbn [map fst] in Hl. destruct (records_cons_inv p _ _ _ _ Hl) as (Hoff & Hr & Hl1).
      cbn [length]. rewrite <- (map_length fst lx). rewrite (incl_next p v Hpk sec r0 _ r (map fst lx) e I Hr Hl1 Hoff). cbn [bind]. rewrite map_length.
      destruct (IH (rv_end r) e Hl1 (Forall_inv_tail Hg) fuel sec r x (done ++ [rx']) acc1 ltac:(cbn in Hfuel; lia) Hr (Forall_inv Hg) Hinv1)
        as [[Herr Hov]|(acc' & L' & HF & HNo & Hw & Hinv')]; [left; split; [exact Herr|right; exact Hov]|right].
      exists acc', (rx' :: L'). split; [constructor; assumption|]. split; [constructor; assumption|]. split; [exact Hw|]. rewrite <- app_assoc in Hinv'. exact Hinv'.
  Qed.

  Lemma section_ren (skip : bool) sec off lx e count done acc :
    records_at p off (map fst lx) e -> e <= length p -> count = N.of_nat (length lx) -> Forall (rd_ok p) lx -> hdr_sec p v sec count off ->
    (skip = true -> forallb non_opt (map fst lx) = true) -> cinv p Q done acc ->
    ((first <- (if skip then r_next v (it_new sec) else r_next_including_opt v (it_new sec)) ;;
     walk_fold (walk_fuel p) (r_next_including_opt v) (rename_response_record v (wire_of_labels tl) (wire_of_labels sl) sfx) first acc) = Err InvalidName /\ Exists rec_overflows lx) \/
    exists acc' L', Forall2 ren_rec lx L' /\ Forall (fun rx => ~ rec_overflows rx) lx /\
      (first <- (if skip then r_next v (it_new sec) else r_next_including_opt v (it_new sec)) ;;
       walk_fold (walk_fuel p) (r_next_including_opt v) (rename_response_record v (wire_of_labels tl) (wire_of_labels sl) sfx) first acc) = Ok acc' /\
      cinv p Q (done ++ L') acc'.
  Proof.
    intros Hl Hend Hcount Hg Hhdr Hno Hinv. pose proof (records_at_span _ _ _ _ Hl) as Hspan. rewrite map_length in Hspan.
    assert (Hfirst : (if skip then r_next v (it_new sec) else r_next_including_opt v (it_new sec)) =
                     match lx with [] => Ok None | (r, x) :: lx' => Ok (Some (it_on sec r (rv_end r) (length lx'))) end).
    { destruct lx as [|[r x] lx'].
      - cbn [length N.of_nat] in Hcount. rewrite Hcount in Hhdr.
        destruct skip; [unfold r_next|]; rewrite (first_none p v Hpk sec off Hhdr); reflexivity.
      - cbn [map fst] in Hl. destruct (records_cons_inv p _ _ _ _ Hl) as (Hoff & Hr & Hl1).
        assert (Hpos : (0 <? N.of_nat (length ((r, x) :: lx')))%N = true) by (cbn [length]; lia).
        unfold hdr_sec in Hhdr. rewrite Hcount, Hpos, Hoff in Hhdr.
        assert (Hf : r_next_including_opt v (it_new sec) = Ok (Some (it_on sec r (rv_end r) (length lx')))).
        { rewrite (first_on_record p v Hpk r (rv_end r) sec _ (length lx') Hr eq_refl) by exact Hhdr. reflexivity. }
        destruct skip; [|exact Hf].
        specialize (Hno eq_refl). cbn [map fst] in Hno.
        assert (Eo : is_opt r = false).
        { cbn [forallb] in Hno. apply andb_true_iff in Hno. destruct Hno as [Hx' _]. unfold non_opt in Hx'. destruct (is_opt r); [discriminate|reflexivity]. }
        unfold r_next. rewrite Hf. cbn [bind]. rewrite <- (map_length fst lx').
        rewrite (maybe_skip_spec p v Hpk sec r (rv_end r) (map fst lx') e false Hr Hl1 (nonopt_opt_ok _ Hno false)) by (rewrite Eo; discriminate).
        unfold after_skip. rewrite Eo, map_length. reflexivity. }
    rewrite Hfirst. destruct lx as [|[r x] lx'].
    - cbn [bind]. rewrite walk_fold_None. right. exists acc, []. split; [constructor|]. split; [constructor|]. split; [reflexivity|rewrite app_nil_r; exact Hinv].
    - cbn [bind]. cbn [map fst] in Hl. destruct (records_cons_inv p _ _ _ _ Hl) as (Hoff & Hr & Hl1).
      apply (walk_ren lx' (rv_end r) e Hl1 (Forall_inv_tail Hg) (walk_fuel p) sec r x done acc); [|exact Hr|exact (Forall_inv Hg)|exact Hinv].
      unfold walk_fuel. cbn [length] in Hspan. lia.
  Qed.
End Rename.

Lemma bind2 {A B C} (F : res A) (W : A -> res B) (REST : B -> res C) r :
  (a <- F ;; W a) = r -> (a <- F ;; b <- W a ;; REST b) = (b <- r ;; REST b).
Proof. intros <-. destruct F; reflexivity. Qed.

Theorem rename_content : forall p v sl tl sfx, bytes_ok p -> parse p = Ok v ->
  Forall lab sl -> Forall lab tl -> sl <> [] -> tl <> [] -> bytes_ok (wire_of_labels tl) ->
  length (wire_of_labels sl) <= 255 -> length (wire_of_labels tl) <= 255 ->
  exists qls qt lxa lxn lxr qe, reading p qls qt lxa lxn lxr /\ cname_l p 12 qls qe /\
    ((renamer_rename v (wire_of_labels tl) (wire_of_labels sl) sfx = Err InvalidName /\
      (overflows sl tl sfx qls \/ Exists (rec_overflows sl tl sfx) (lxa ++ lxn ++ lxr))) \/
     exists out qls' L' X, renamer_rename v (wire_of_labels tl) (wire_of_labels sl) sfx = Ok out /\ bytes_ok out /\
       renamed sl tl sfx qls qls' /\ Forall2 (ren_rec sl tl sfx) (lxa ++ lxn ++ lxr) L' /\
       ~ overflows sl tl sfx qls /\ Forall (fun rx => ~ rec_overflows sl tl sfx rx) (lxa ++ lxn ++ lxr) /\
       out = (firstn 12 p ++ wire_of_labels qls' ++ firstn 4 (skipn qe p)) ++ X /\
       recs_enc p out (12 + length (wire_of_labels qls') + 4) L' (length out)).
Proof.
  intros p v sl tl sfx Hb Hp Hsl Htl Hsl0 Htl0 Htb Hls Hlt.
  destruct (uncompress_reading p v Hb Hp) as (qls & qt & lxa & lxn & lxr & R & _).
  destruct (parse_view p v Hb Hp) as (an & ns & ar & qe & e1 & s1 & e2 & s2 & s3 & Hpk & Hqn & Hq4 & Han & Hns & Har &
                                      Hlan & Hlns & Hlar & Hc1 & Hc2 & Hc3 & Hoan & Hons & Hoar).
  destruct (rrs_wf_full p _ _ _ _ _ _ Hc1) as (La & Hla & Hlla & _ & _ & Hnoa & _).
  destruct (rrs_wf_full p _ _ _ _ _ _ Hc2) as (Ln & Hln & Hlln & _ & _ & Hnon & _).
  specialize (Hnoa ltac:(discriminate)). specialize (Hnon ltac:(discriminate)).
  pose proof R as R0.
  destruct R as [(qe' & e1' & e2' & Hcn & _ & _ & _ & Ra & Rn & Rr) Hx Han' Hns' Har'].
  destruct Hqn as (qls' & Hcn'). destruct (cname_l_fun _ _ _ _ _ _ Hcn Hcn') as [<- ->].
  rewrite Han in Han'. rewrite Hns in Hns'. rewrite Har in Har'. inversion Han'; inversion Hns'; inversion Har'; subst an ns ar.
  destruct (records_at_fun p _ _ _ Hla _ _ Ra ltac:(rewrite !map_length in *; lia)) as [Ela <-].
  destruct (records_at_fun p _ _ _ Hln _ _ Rn ltac:(rewrite !map_length in *; lia)) as [Eln <-].
  rewrite Ela in Hnoa. rewrite Eln in Hnon.
  apply Forall_app in Hx. destruct Hx as [Hxa Hx]. apply Forall_app in Hx. destruct Hx as [Hxn Hxr].
  destruct (question_cursor_spec p v Hb Hp) as (qls0 & qe0 & qt0 & qc0 & itq & Hcn0 & _ & _ & Hq0 & Hqoff & Hqne & _ & _ & _ & _ & Hqend).
  destruct (cname_l_fun _ _ _ _ _ _ Hcn Hcn0) as [<- <-].
  assert (H12 : 12 < length p) by (destruct Hcn; lia).
  exists qls, qt, lxa, lxn, lxr, qe. split; [exact R0|]. split; [exact Hcn|].
  (* the beginning of renamer_rename *)
  assert (Lt0 : length (wire_of_labels tl) <> 0) by (rewrite wire_length; lia).
  assert (Ls0 : length (wire_of_labels sl) <> 0) by (rewrite wire_length; lia).
  remember (renamer_rename v (wire_of_labels tl) (wire_of_labels sl) sfx) as RES eqn:ERES.
  unfold renamer_rename, DNS_MAX_HOSTNAME_LEN, DNS_HEADER_SIZE in ERES.
  destruct ((length (wire_of_labels tl) =? 0) || (length (wire_of_labels sl) =? 0)) eqn:E0; [lia|].
  destruct ((255 <? length (wire_of_labels tl)) || (255 <? length (wire_of_labels sl))) eqn:E1; [lia|].
  rewrite Hpk in ERES. rewrite slice_eq in ERES by lia. rewrite Nat.sub_0_r in ERES. cbn [skipn bind] in ERES. rewrite Hq0 in ERES. cbn [bind] in ERES.
  assert (Hfuel : exists f, walk_fuel p = S f) by (unfold walk_fuel; exists (length p + 1); lia).
  destruct Hfuel as (f & Hf). rewrite Hf in ERES at 1. cbn [walk_fold] in ERES.
  unfold rename_question_record in ERES at 1. rewrite Hqoff in ERES. cbn [unwrap bind] in ERES. rewrite Hpk in ERES.
  destruct (cwrn sl tl sfx Hsl Htl Hsl0 Htl0 Htb p Hb 12 qls qe sd_new (firstn 12 p) Hcn ltac:(unfold sd_wf; cbn; lia))
    as [[Herr Hov]|(qls' & encq & dq & Hrenq & Hnovq & Hcq & Hwfq & Hbq & _ & Hnewq & HOq)]; [left; split; [rewrite ERES, Herr; reflexivity|left; exact Hov]|].
  rewrite Hcq in ERES. cbn [bind] in ERES. rewrite Hqne in ERES. unfold DNS_RR_QUESTION_HEADER_SIZE in ERES.
  destruct (length p <? qe + 4) eqn:E4; [lia|]. rewrite slice_eq in ERES by lia. replace (qe + 4 - qe) with 4 in ERES by lia. cbn [bind] in ERES.
  rewrite Hqend in ERES. cbn [bind] in ERES. rewrite walk_fold_None in ERES. cbn [bind] in ERES.
  rewrite (Hnewq eq_refl) in *. clear Hnewq.
  destruct (HOq (firstn 12 p) eq_refl (dict_inv_new _)) as [_ Hdq].
  set (Q := firstn 12 p ++ wire_of_labels qls' ++ firstn 4 (skipn qe p)).
  set (acc0 := ((firstn 12 p ++ wire_of_labels qls') ++ firstn 4 (skipn qe p), dq)) in *.
  assert (I0 : cinv p Q [] acc0).
  { unfold cinv, acc0. cbn [fst snd recs_enc]. split; [exact Hwfq|]. split; [apply dict_inv_app; exact Hdq|].
    split; [unfold Q; rewrite <- app_assoc; reflexivity|].
    split; [apply bytes_ok_app; [apply bytes_ok_app; [apply Forall_firstn; exact Hb|exact Hbq]|apply bytes_ok_seg; exact Hb]|].
    exists []. unfold Q. rewrite app_nil_r, <- app_assoc. reflexivity. }
  pose proof (records_at_span _ _ _ _ Rr) as Hsp3. pose proof (records_at_span _ _ _ _ Rn) as Hsp2.
  destruct (section_ren sl tl sfx Hsl Htl Hsl0 Htl0 Htb p Hb v Hpk Q true SAnswer (qe + 4) lxa e1 (N.of_nat (length lxa)) [] acc0 Ra ltac:(lia) eq_refl Hxa (conj Han Hoan) (fun _ => Hnoa) I0)
    as [[Herr Hov]|(acc1 & L1 & F1 & N1 & HA & I1)]; cbn [app] in *.
  { left. split; [rewrite ERES, (bind2 _ _ _ _ Herr); reflexivity|right; apply Exists_app; left; exact Hov]. }
  rewrite (bind2 _ _ _ _ HA) in ERES. cbn [bind] in ERES.
  destruct (section_ren sl tl sfx Hsl Htl Hsl0 Htl0 Htb p Hb v Hpk Q true SNameServers e1 lxn e2 (N.of_nat (length lxn)) L1 acc1 Rn ltac:(lia) eq_refl Hxn (conj Hns Hons) (fun _ => Hnon) I1)
    as [[Herr Hov]|(acc2 & L2 & F2 & N2 & HN & I2)].
  { left. split; [rewrite ERES, (bind2 _ _ _ _ Herr); reflexivity|right; apply Exists_app; right; apply Exists_app; left; exact Hov]. }
  rewrite (bind2 _ _ _ _ HN) in ERES. cbn [bind] in ERES.
  destruct (section_ren sl tl sfx Hsl Htl Hsl0 Htl0 Htb p Hb v Hpk Q false SAdditional e2 lxr (length p) (N.of_nat (length lxr)) (L1 ++ L2) acc2 Rr (le_n _) eq_refl Hxr (conj Har Hoar) (fun H => ltac:(discriminate H)) I2)
    as [[Herr Hov]|(acc3 & L3 & F3 & N3 & HR & I3)].
  { left. split; [rewrite ERES, (bind2 _ _ _ _ Herr); reflexivity|right; apply Exists_app; right; apply Exists_app; right; exact Hov]. }
  rewrite (bind2 _ _ _ _ HR) in ERES. cbn [bind] in ERES. right.
  destruct I3 as (_ & _ & Hrecs & Hbo & (X & EX)).
  exists (fst acc3), qls', (L1 ++ L2 ++ L3), X. split; [exact ERES|]. split; [exact Hbo|]. split; [exact Hrenq|].
  split; [apply Forall2_app; [exact F1|apply Forall2_app; [exact F2|exact F3]]|].
  split; [exact Hnovq|]. split; [apply Forall_app; split; [exact N1|apply Forall_app; split; [exact N2|exact N3]]|].
  split; [rewrite EX; unfold Q; reflexivity|].
  rewrite <- app_assoc in Hrecs. replace (12 + length (wire_of_labels qls') + 4) with (length Q); [exact Hrecs|].
  unfold Q. rewrite !app_length, !firstn_length, skipn_length. lia.
Qed.

(** ** The renamed packet, when the parser accepts it, reads as the renamed message up to case *)
Lemma dec_in_wire out : forall ls o, Forall lab ls -> seg out o (wire_of_labels ls) -> dec_in out o ls (o + length (wire_of_labels ls)).
Proof.
  induction ls as [|l ls IH]; intros o Hl Hs.
  - rewrite wire_nil in *. cbn [length]. apply di_root. exact Hs.
  - rewrite wire_of_labels_cons in *.
    change (N.of_nat (length l) :: l ++ wire_of_labels ls) with ((N.of_nat (length l) :: l) ++ wire_of_labels ls) in Hs.
    apply seg_cut in Hs. destruct Hs as [H1 H2]. cbn [length] in H2.
    apply di_lab; [exact (Forall_inv Hl)|exact H1|].
    apply (dec_in_eq _ _ _ _ _ _ (IH _ (Forall_inv_tail Hl) H2)); [lia|cbn [length]; rewrite app_length; lia].
Qed.

Lemma renamed_lab sl tl sfx nl nl' : Forall lab nl -> Forall lab tl -> renamed sl tl sfx nl nl' -> Forall lab nl'.
Proof.
  intros Hn Ht [(pre & rest & -> & _ & _ & ->)|(_ & ->)]; [|exact Hn].
  apply Forall_app in Hn. apply Forall_app. split; [apply Hn|exact Ht].
Qed.

Lemma ren_rec_shape sl tl sfx p rx rx' : fields_at p (fst rx) /\ rd_shape (fst rx) (snd rx) -> ren_rec sl tl sfx rx rx' ->
  fields_at p (fst rx') /\ rd_shape (fst rx') (snd rx').
Proof.
  destruct rx as [r x], rx' as [r' x']. unfold ren_rec. cbn [fst snd]. intros [Hf Hs] [(ls' & _ & ->) Hrd]. split; [exact Hf|].
  destruct x, x'; cbn [ren_rd rd_shape rv_with_labels rv_type] in *; try contradiction; try exact Hs.
  - destruct Hrd as (<- & _). exact Hs.
  - destruct Hrd as (_ & _ & <-). exact Hs.
Qed.

Theorem rename_same_message : forall p v sl tl sfx out v', bytes_ok p -> parse p = Ok v ->
  Forall lab sl -> Forall lab tl -> sl <> [] -> tl <> [] -> bytes_ok (wire_of_labels tl) ->
  length (wire_of_labels sl) <= 255 -> length (wire_of_labels tl) <= 255 ->
  renamer_rename v (wire_of_labels tl) (wire_of_labels sl) sfx = Ok out -> parse out = Ok v' ->
  exists qls qt lxa lxn lxr qls' L' lxa' lxn' lxr',
    reading p qls qt lxa lxn lxr /\ renamed sl tl sfx qls qls' /\ Forall2 (ren_rec sl tl sfx) (lxa ++ lxn ++ lxr) L' /\
    reading out qls' qt lxa' lxn' lxr' /\ Forall2 ci_rec L' (lxa' ++ lxn' ++ lxr') /\
    length lxa' = length lxa /\ length lxn' = length lxn /\ length lxr' = length lxr /\ firstn 12 out = firstn 12 p.
Proof.
  intros p v sl tl sfx out v' Hb Hp Hsl Htl Hsl0 Htl0 Htb Hls Hlt Hren Hp'.
  destruct (rename_content p v sl tl sfx Hb Hp Hsl Htl Hsl0 Htl0 Htb Hls Hlt) as (qls & qt & lxa & lxn & lxr & qe & R & Hcn & Hres).
  rewrite Hren in Hres. destruct Hres as [[Hc _]|(out0 & qls' & L' & X & Hc0 & Hbo & Hrq & HF & _ & _ & Eout & Hrecs)]; [discriminate|].
  injection Hc0 as <-.
  destruct (uncompress_reading out v' Hbo Hp') as (qls2 & qt' & lxa' & lxn' & lxr' & R' & _).
  pose proof R as [(qe0 & e1 & e2 & Hcn0 & Hqt & Hqc & Hq4 & Ra & Rn & Rr) Hx Han Hns Har].
  destruct (cname_l_fun _ _ _ _ _ _ Hcn Hcn0) as [_ <-].
  pose proof R' as [(qe' & e1' & e2' & Hcn' & Hqt' & Hqc' & Hq4' & Ra' & Rn' & Rr') Hx' Han' Hns' Har'].
  assert (H12 : 12 <= length p) by (destruct Hcn; lia).
  assert (L12 : length (firstn 12 p) = 12) by (rewrite firstn_length; lia).
  (* the question name: written in full *)
  destruct (cname_l_lab _ _ _ _ Hcn) as [Hlabq _].
  pose proof (renamed_lab _ _ _ _ _ Hlabq Htl Hrq) as Hlabq'.
  set (q4 := firstn 4 (skipn qe p)) in *.
  assert (Sq : seg out 12 (wire_of_labels qls')).
  { exists (firstn 12 p), (q4 ++ X). split; [rewrite Eout, <- !app_assoc; reflexivity|exact L12]. }
  pose proof (dec_in_wire out qls' 12 Hlabq' Sq) as Hdq.
  destruct (dec_in_fun out _ _ _ Hdq _ _ (cname_dec_in out 12 qls2 qe' Hbo Hcn')) as [<- <-].
  assert (Lq4 : length q4 = 4) by (unfold q4; rewrite firstn_length, skipn_length; lia).
  assert (Sq4 : seg out (12 + length (wire_of_labels qls')) q4).
  { exists (firstn 12 p ++ wire_of_labels qls'), X. split; [rewrite Eout, <- !app_assoc; reflexivity|rewrite app_length; lia]. }
  assert (Eqt : qt' = qt).
  { destruct Hqt' as (h1 & l1 & A1 & A2 & ->). destruct Hqt as (h2 & l2 & B1 & B2 & ->).
    rewrite <- (Nat.add_0_r (12 + length (wire_of_labels qls'))) in A1. rewrite (seg_nth _ _ _ 0 Sq4) in A1 by lia. rewrite (seg_nth _ _ _ 1 Sq4) in A2 by lia.
    unfold q4 in A1, A2. rewrite nth_firstn_skipn in A1, A2 by lia. rewrite Nat.add_0_r in A1. congruence. }
  subst qt'.
  exists qls, qt, lxa, lxn, lxr, qls', L', lxa', lxn', lxr'. split; [exact R|]. split; [exact Hrq|]. split; [exact HF|]. split; [exact R'|].
  (* the records *)
  pose proof (records_at_app _ _ _ _ Ra' _ _ (records_at_app _ _ _ _ Rn' _ _ Rr')) as Rall'. rewrite <- !map_app in Rall'.
  assert (Hrp : Forall (fun rx => fields_at p (fst rx) /\ rd_shape (fst rx) (snd rx)) (lxa ++ lxn ++ lxr)).
  { pose proof (records_at_app _ _ _ _ Ra _ _ (records_at_app _ _ _ _ Rn _ _ Rr)) as Rall. rewrite <- !map_app in Rall.
    clear -Rall Hx. revert Rall Hx. generalize (qe + 4). induction (lxa ++ lxn ++ lxr) as [|rx L IH]; intros o H Hx; [constructor|].
    cbn [map] in H. destruct (records_cons_inv p _ _ _ _ H) as (_ & Hr & Hrest).
    constructor; [split; [exact (fields_of_record _ _ _ Hr)|exact (shape_of_rdata _ _ _ _ Hr (Forall_inv Hx))]|apply (IH _ Hrest (Forall_inv_tail Hx))]. }
  assert (Hrp' : Forall (fun rx => fields_at p (fst rx) /\ rd_shape (fst rx) (snd rx)) L').
  { clear -Hrp HF. induction HF as [|rx rx' L L' Hr _ IH]; [constructor|].
    constructor; [exact (ren_rec_shape _ _ _ _ _ _ (Forall_inv Hrp) Hr)|exact (IH (Forall_inv_tail Hrp))]. }
  pose proof (recs_link p out Hbo _ _ _ _ Hrecs Rall' Hx' Hrp') as Hall.
  split; [exact Hall|].
  (* the header counts are those of the input *)
  assert (Hh : forall i, i < 12 -> nth_error out i = nth_error p i).
  { intros i Hi. rewrite Eout, <- app_assoc. apply hdr_nth; lia. }
  assert (Hcnt : forall off site, off + 1 < 12 -> be16_at out off site = be16_at p off site).
  { intros off site Ho. unfold be16_at, byte_at. rewrite !Hh by lia. reflexivity. }
  unfold hdr_ancount in Han, Han'. unfold hdr_nscount in Hns, Hns'. unfold hdr_arcount in Har, Har'.
  rewrite Hcnt in Han', Hns', Har' by lia. rewrite Han in Han'. rewrite Hns in Hns'. rewrite Har in Har'.
  injection Han' as La. injection Hns' as Ln. injection Har' as Lr.
  split; [lia|]. split; [lia|]. split; [lia|].
  rewrite Eout, <- app_assoc. rewrite firstn_app, L12, Nat.sub_diag, firstn_O, app_nil_r. apply firstn_all2. lia.
Qed.

(** the operation on the packet object, on a packet as the parser returned it: success means the renamed packet was accepted *)
Theorem rename_effect : forall p v it sl tl sfx s', bytes_ok p -> parse p = Ok v ->
  Forall lab sl -> Forall lab tl -> sl <> [] -> tl <> [] -> bytes_ok (wire_of_labels tl) ->
  length (wire_of_labels sl) <= 255 -> length (wire_of_labels tl) <= 255 ->
  m_rename (wire_of_labels tl) (wire_of_labels sl) sfx (v, it) = (s', Ok tt) ->
  snd s' = it /\
  exists qls qt lxa lxn lxr qls' L' lxa' lxn' lxr',
    reading p qls qt lxa lxn lxr /\ renamed sl tl sfx qls qls' /\ Forall2 (ren_rec sl tl sfx) (lxa ++ lxn ++ lxr) L' /\
    reading (pp_packet (fst s')) qls' qt lxa' lxn' lxr' /\ Forall2 ci_rec L' (lxa' ++ lxn' ++ lxr') /\
    length lxa' = length lxa /\ length lxn' = length lxn /\ length lxr' = length lxr /\ firstn 12 (pp_packet (fst s')) = firstn 12 p.
Proof.
  intros p v it sl tl sfx s' Hb Hp Hsl Htl Hsl0 Htl0 Htb Hls Hlt H.
  unfold m_rename, cbind, getv, clift, putv in H. cbn [fst snd] in H.
  destruct (renamer_rename v (wire_of_labels tl) (wire_of_labels sl) sfx) as [r| |] eqn:Er; try discriminate.
  destruct (parse r) as [f| |] eqn:Ef; try discriminate.
  destruct (negb (edns_summary_same v f)); [discriminate|]. injection H as <-. cbn [fst snd]. split; [reflexivity|].
  exact (rename_same_message p v sl tl sfx r f Hb Hp Hsl Htl Hsl0 Htl0 Htb Hls Hlt Er Ef).
Qed.

(** ** After a successful whole-packet rename of a freshly parsed packet, the object is exactly what the parser returns for its
    bytes: every field, the advertised payload size included (the OPT record is carried over: same class).  It is therefore
    again an object of the kind every theorem about parsed packets starts from. *)
Lemma find_opt_rel {T} (R : T -> T -> Prop) (key : T -> rec_view) : forall l1 l2, Forall2 R l1 l2 ->
  (forall a b, R a b -> is_opt (key a) = is_opt (key b) /\ rv_class (key a) = rv_class (key b)) ->
  match find is_opt (map key l1), find is_opt (map key l2) with
  | Some a, Some b => rv_class a = rv_class b
  | None, None => True
  | _, _ => False
  end.
Proof.
  induction 1 as [|a b l1 l2 Hab _ IH]; intros HR; cbn [map find]; [exact I|].
  destruct (HR a b Hab) as [Ho Hc]. rewrite <- Ho. destruct (is_opt (key a)); [exact Hc|exact (IH HR)].
Qed.

Theorem rename_fresh_is_parsed : forall p v it sl tl sfx s', bytes_ok p -> parse p = Ok v ->
  Forall lab sl -> Forall lab tl -> sl <> [] -> tl <> [] -> bytes_ok (wire_of_labels tl) ->
  length (wire_of_labels sl) <= 255 -> length (wire_of_labels tl) <= 255 ->
  m_rename (wire_of_labels tl) (wire_of_labels sl) sfx (v, it) = (s', Ok tt) ->
  bytes_ok (pp_packet (fst s')) /\ parse (pp_packet (fst s')) = Ok (fst s').
Proof.
  intros p v it sl tl sfx s' Hb Hp Hsl Htl Hsl0 Htl0 Htb Hls Hlt H.
  unfold m_rename, cbind, getv, clift, putv in H. cbn [fst snd] in H.
  destruct (renamer_rename v (wire_of_labels tl) (wire_of_labels sl) sfx) as [r| |] eqn:Er; try discriminate.
  destruct (parse r) as [f| |] eqn:Ef; try discriminate.
  destruct (edns_summary_same v f) eqn:Es; [|discriminate]. cbn [negb] in H. injection H as <-. cbn [fst snd pp_update pp_packet].
  destruct (rename_content p v sl tl sfx Hb Hp Hsl Htl Hsl0 Htl0 Htb Hls Hlt) as (qls0 & qt0 & a0 & n0 & r0 & qe0 & _ & _ & Hres).
  rewrite Er in Hres. destruct Hres as [[Hc _]|(out0 & _ & _ & _ & Hc0 & Hbo & _)]; [discriminate|]. injection Hc0 as <-.
  split; [exact Hbo|].
  destruct (rename_same_message p v sl tl sfx r f Hb Hp Hsl Htl Hsl0 Htl0 Htb Hls Hlt Er Ef)
    as (qls & qt & lxa & lxn & lxr & qls' & L' & lxa' & lxn' & lxr' & R & _ & HF & R' & HC & La & Ln & Lr & _).
  destruct (parse_shape r f Hbo Ef) as (sq & san & sns & sar & an & ns & ar & F).
  destruct (summary_same_eq v f Es) as (E1 & E2 & E3 & E4).
  (* the advertised payload size *)
  assert (Emp : pp_max_payload v = pp_max_payload f).
  { destruct (parse_summary p v Hb Hp) as (an1 & ns1 & ar1 & qe1 & e11 & e21 & la1 & ln1 & lr1 & _ & (ql1 & Hq1) & Ha1 & Hn1 & Hr1 & Ra1 & Lla1 & Rn1 & Lln1 & Rr1 & Llr1 & S1).
    destruct (parse_summary r f Hbo Ef) as (an2 & ns2 & ar2 & qe2 & e12 & e22 & la2 & ln2 & lr2 & _ & (ql2 & Hq2) & Ha2 & Hn2 & Hr2 & Ra2 & Lla2 & Rn2 & Lln2 & Rr2 & Llr2 & S2).
    destruct R as [(qe & e1 & e2 & Hcn & _ & _ & _ & Ra & Rn & Rr) _ Han Hns Har].
    destruct R' as [(qe' & e1' & e2' & Hcn' & _ & _ & _ & Ra' & Rn' & Rr') _ Han' Hns' Har'].
    destruct (cname_l_fun _ _ _ _ _ _ Hcn Hq1) as [_ <-]. destruct (cname_l_fun _ _ _ _ _ _ Hcn' Hq2) as [_ <-].
    rewrite Ha1 in Han. rewrite Hn1 in Hns. rewrite Hr1 in Har. rewrite Ha2 in Han'. rewrite Hn2 in Hns'. rewrite Hr2 in Har'.
    injection Han as ->. injection Hns as ->. injection Har as ->. injection Han' as ->. injection Hns' as ->. injection Har' as ->.
    rewrite Nat2N.id in *.
    destruct (records_at_fun p _ _ _ Ra1 _ _ Ra ltac:(rewrite map_length; lia)) as [Xa Ya]. subst la1 e11.
    destruct (records_at_fun p _ _ _ Rn1 _ _ Rn ltac:(rewrite map_length; lia)) as [Xn Yn]. subst ln1 e21.
    destruct (records_at_fun p _ _ _ Rr1 _ _ Rr ltac:(rewrite map_length; lia)) as [Xr _]. subst lr1.
    destruct (records_at_fun r _ _ _ Ra2 _ _ Ra' ltac:(rewrite map_length; lia)) as [Xa' Ya']. subst la2 e12.
    destruct (records_at_fun r _ _ _ Rn2 _ _ Rn' ltac:(rewrite map_length; lia)) as [Xn' Yn']. subst ln2 e22.
    destruct (records_at_fun r _ _ _ Rr2 _ _ Rr' ltac:(rewrite map_length; lia)) as [Xr' _]. subst lr2.
    rewrite <- !map_app in S1, S2.
    pose proof (find_opt_rel (ren_rec sl tl sfx) fst _ _ HF
                  ltac:(intros [ra xa] [rb xb] [(ls' & _ & E) _]; cbn [fst snd] in *; subst rb; split; reflexivity)) as P1.
    pose proof (find_opt_rel ci_rec fst _ _ HC
                  ltac:(intros [ra xa] [rb xb] (_ & Et & Ec & _); cbn [fst snd] in *; unfold is_opt; rewrite Et, Ec; split; reflexivity)) as P2.
    unfold summary_of in S1, S2.
    destruct (find is_opt (map fst (lxa ++ lxn ++ lxr))) as [o1|]; destruct (find is_opt (map fst L')) as [o2|]; try contradiction;
      destruct (find is_opt (map fst (lxa' ++ lxn' ++ lxr'))) as [o3|]; try contradiction.
    - destruct S1 as (_ & _ & -> & _). destruct S2 as (_ & _ & -> & _). congruence.
    - destruct S1 as (_ & _ & _ & _ & _ & ->). destruct S2 as (_ & _ & _ & _ & _ & ->). reflexivity. }
  destruct f as [fp foq foan fons foar foed fec frc fver fxf fmc fmp fca].
  pose proof (pf_packet _ _ _ _ _ _ _ _ _ F) as Epk. pose proof (pf_mc _ _ _ _ _ _ _ _ _ F) as Emc. pose proof (pf_cached _ _ _ _ _ _ _ _ _ F) as Eca.
  cbn [pp_packet pp_maybe_compressed pp_cached pp_edns_count pp_ext_rcode pp_edns_version pp_ext_flags pp_max_payload
       pp_offset_question pp_offset_answers pp_offset_nameservers pp_offset_additional pp_offset_edns] in *.
  subst. exact Ef.
Qed.

(** ** The consistency assertion of the rename wrapper never fires on a parsed packet: the EDNS summary of the renamed packet is
    the one the object held (the OPT record is carried over byte for byte), so [rename_with_raw_names] returns an error or succeeds *)
Lemma find_pair_rel {T} (R : T -> T -> Prop) (key : T -> rec_view) : forall l1 l2, Forall2 R l1 l2 ->
  (forall a b, R a b -> is_opt (key a) = is_opt (key b)) ->
  match find (fun x => is_opt (key x)) l1, find (fun x => is_opt (key x)) l2 with
  | Some a, Some b => R a b
  | None, None => True
  | _, _ => False
  end.
Proof.
  induction 1 as [|a b l1 l2 Hab _ IH]; intros HR; cbn [find]; [exact I|].
  rewrite <- (HR a b Hab). destruct (is_opt (key a)); [exact Hab|exact (IH HR)].
Qed.

Lemma find_map_fst (l : list (rec_view * rd_view)) :
  find is_opt (map fst l) = match find (fun x => is_opt (fst x)) l with Some rx => Some (fst rx) | None => None end.
Proof. induction l as [|[r x] l IH]; cbn [map find fst]; [reflexivity|]. destruct (is_opt r); [reflexivity|exact IH]. Qed.

Lemma ttl_parts rc ver xf rc' ver' xf' : (rc < 256 -> ver < 256 -> xf < 65536 -> rc' < 256 -> ver' < 256 -> xf' < 65536 ->
  rc * 16777216 + ver * 65536 + xf = rc' * 16777216 + ver' * 65536 + xf' -> rc = rc' /\ ver = ver' /\ xf = xf')%N.
Proof. intros. lia. Qed.

Theorem rename_summary_kept : forall p v sl tl sfx out f, bytes_ok p -> parse p = Ok v ->
  Forall lab sl -> Forall lab tl -> sl <> [] -> tl <> [] -> bytes_ok (wire_of_labels tl) ->
  length (wire_of_labels sl) <= 255 -> length (wire_of_labels tl) <= 255 ->
  renamer_rename v (wire_of_labels tl) (wire_of_labels sl) sfx = Ok out -> parse out = Ok f ->
  edns_summary_same v f = true.
Proof.
  intros p v sl tl sfx r f Hb Hp Hsl Htl Hsl0 Htl0 Htb Hls Hlt Er Ef.
  destruct (rename_content p v sl tl sfx Hb Hp Hsl Htl Hsl0 Htl0 Htb Hls Hlt) as (qls0 & qt0 & a0 & n0 & r0 & qe0 & _ & _ & Hres).
  rewrite Er in Hres. destruct Hres as [[Hc _]|(out0 & _ & _ & _ & Hc0 & Hbo & _)]; [discriminate|]. injection Hc0 as <-.
  destruct (rename_same_message p v sl tl sfx r f Hb Hp Hsl Htl Hsl0 Htl0 Htb Hls Hlt Er Ef)
    as (qls & qt & lxa & lxn & lxr & qls' & L' & lxa' & lxn' & lxr' & R & _ & HF & R' & HC & La & Ln & Lr & _).
  destruct (parse_summary p v Hb Hp) as (an1 & ns1 & ar1 & qe1 & e11 & e21 & la1 & ln1 & lr1 & _ & (ql1 & Hq1) & Ha1 & Hn1 & Hr1 & Ra1 & Lla1 & Rn1 & Lln1 & Rr1 & Llr1 & S1).
  destruct (parse_summary r f Hbo Ef) as (an2 & ns2 & ar2 & qe2 & e12 & e22 & la2 & ln2 & lr2 & _ & (ql2 & Hq2) & Ha2 & Hn2 & Hr2 & Ra2 & Lla2 & Rn2 & Lln2 & Rr2 & Llr2 & S2).
  pose proof R as [(qe & e1 & e2 & Hcn & _ & _ & _ & Ra & Rn & Rr) Hx Han Hns Har].
  pose proof R' as [(qe' & e1' & e2' & Hcn' & _ & _ & _ & Ra' & Rn' & Rr') Hx' Han' Hns' Har'].
  destruct (cname_l_fun _ _ _ _ _ _ Hcn Hq1) as [_ <-]. destruct (cname_l_fun _ _ _ _ _ _ Hcn' Hq2) as [_ <-].
  rewrite Ha1 in Han. rewrite Hn1 in Hns. rewrite Hr1 in Har. rewrite Ha2 in Han'. rewrite Hn2 in Hns'. rewrite Hr2 in Har'.
  injection Han as ->. injection Hns as ->. injection Har as ->. injection Han' as ->. injection Hns' as ->. injection Har' as ->.
  rewrite Nat2N.id in *.
  destruct (records_at_fun p _ _ _ Ra1 _ _ Ra ltac:(rewrite map_length; lia)) as [Xa Ya]. subst la1 e11.
  destruct (records_at_fun p _ _ _ Rn1 _ _ Rn ltac:(rewrite map_length; lia)) as [Xn Yn]. subst ln1 e21.
  destruct (records_at_fun p _ _ _ Rr1 _ _ Rr ltac:(rewrite map_length; lia)) as [Xr _]. subst lr1.
  destruct (records_at_fun r _ _ _ Ra2 _ _ Ra' ltac:(rewrite map_length; lia)) as [Xa' Ya']. subst la2 e12.
  destruct (records_at_fun r _ _ _ Rn2 _ _ Rn' ltac:(rewrite map_length; lia)) as [Xn' Yn']. subst ln2 e22.
  destruct (records_at_fun r _ _ _ Rr2 _ _ Rr' ltac:(rewrite map_length; lia)) as [Xr' _]. subst lr2.
  rewrite <- !map_app in S1, S2. rewrite find_map_fst in S1, S2.
  pose proof (find_pair_rel (ren_rec sl tl sfx) fst _ _ HF
                ltac:(intros [ra xa] [rb xb] [(ls' & _ & E) _]; cbn [fst snd] in *; subst rb; reflexivity)) as P1.
  pose proof (find_pair_rel ci_rec fst _ _ HC
                ltac:(intros [ra xa] [rb xb] (_ & Et & _); cbn [fst snd] in *; unfold is_opt; rewrite Et; reflexivity)) as P2.
  unfold edns_summary_same.
  destruct (find (fun x => is_opt (fst x)) (lxa ++ lxn ++ lxr)) as [[ra xa]|] eqn:F1;
    destruct (find (fun x => is_opt (fst x)) L') as [[rb xb]|] eqn:F2; try contradiction;
    destruct (find (fun x => is_opt (fst x)) (lxa' ++ lxn' ++ lxr')) as [[rc xc]|] eqn:F3; try contradiction; cbn [fst summary_of] in S1, S2.
  - (* an OPT record on both sides: the same class, TTL and data *)
    destruct (find_some _ _ F1) as [In1 O1]. destruct (find_some _ _ F3) as [In3 O3]. cbn [fst] in O1, O3.
    destruct P1 as [(ls' & _ & Eb) Hrd1]. destruct P2 as (_ & Et & Ecl & Ettl & Hrd2). cbn [fst snd] in *. subst rb.
    cbn [rv_with_labels rv_type rv_class rv_ttl] in Et, Ecl, Ettl.
    destruct (reading_record_in _ _ _ _ _ _ R ra xa In1) as (Hxa & ea & Hra). destruct (reading_record_in _ _ _ _ _ _ R' rc xc In3) as (Hxc & ec & Hrc).
    assert (Tya : rv_type ra = TYPE_OPT) by (unfold is_opt in O1; lia).
    assert (Tyc : rv_type rc = TYPE_OPT) by (rewrite Et; exact Tya).
    (* the data of both is opaque and equal *)
    pose proof (shape_of_rdata _ _ _ _ Hra Hxa) as Sa. pose proof (shape_of_rdata _ _ _ _ Hrc Hxc) as Sc.
    assert (Exa : xa = RdRaw (rdata_of p ra)).
    { unfold rdata_at in Hxa. cbv zeta in Hxa. destruct xa as [l|pf l|l1 l2 t|b]; cbn [rd_shape] in Sa.
      - rewrite Tya in Sa. cbv in Sa. discriminate.
      - destruct Sa as (_ & Sa & _). rewrite Tya in Sa. cbv in Sa. discriminate.
      - destruct Sa as (_ & Sa & _). rewrite Tya in Sa. cbv in Sa. discriminate.
      - destruct Hxa as (_ & _ & _ & ->). reflexivity. }
    assert (Exc : xc = RdRaw (rdata_of r rc)).
    { unfold rdata_at in Hxc. cbv zeta in Hxc. destruct xc as [l|pf l|l1 l2 t|b]; cbn [rd_shape] in Sc.
      - rewrite Tyc in Sc. cbv in Sc. discriminate.
      - destruct Sc as (_ & Sc & _). rewrite Tyc in Sc. cbv in Sc. discriminate.
      - destruct Sc as (_ & Sc & _). rewrite Tyc in Sc. cbv in Sc. discriminate.
      - destruct Hxc as (_ & _ & _ & ->). reflexivity. }
    subst xa xc. destruct xb as [l|pf l|l1 l2 t|b]; cbn [ren_rd rd_ci] in Hrd1, Hrd2; try contradiction. subst b.
    pose proof (record_at_end _ _ _ Hra) as (Hea & _ & Hla). pose proof (record_at_end _ _ _ Hrc) as (Hec & _ & Hlc). unfold rv_end in Hea, Hec.
    assert (Lrd : rv_rdlen rc = rv_rdlen ra).
    { apply (f_equal (@length _)) in Hrd2. unfold rdata_of in Hrd2. rewrite !firstn_length, !skipn_length in Hrd2. lia. }
    destruct S1 as (_ & _ & Mp1 & (n1 & T1 & C1) & rc1 & ver1 & xf1 & A1 & A2 & A3 & B1 & B2 & B3 & Ttl1).
    destruct S2 as (_ & _ & Mp2 & (n2 & T2 & C2) & rc2 & ver2 & xf2 & A1' & A2' & A3' & B1' & B2' & B3' & Ttl2).
    rewrite Ettl, Ttl1 in Ttl2. destruct (ttl_parts _ _ _ _ _ _ B1 B2 B3 B1' B2' B3' Ttl2) as (<- & <- & <-).
    assert (En : n1 = n2).
    { pose proof (opts_tile_move p r _ _ _ T1 (rv_name_end rc + 10)) as Hm.
      replace (rv_name_end ra + 10 + rv_rdlen ra - (rv_name_end ra + 10)) with (rv_rdlen rc) in Hm by lia.
      apply (opts_tile_fun r _ _ _ (Hm ltac:(intros j Hj; unfold rdata_of in Hrd2;
               rewrite <- (nth_firstn_skipn r (rv_name_end rc + 10) (rv_rdlen rc) j ltac:(lia)), <- (nth_firstn_skipn p (rv_name_end ra + 10) (rv_rdlen ra) j ltac:(lia)), Hrd2; reflexivity)) _ T2). }
    subst n2. rewrite C1, C2, A1, A2, A3, A1', A2', A3'. cbn [opt_N_eqb]. rewrite !N.eqb_refl. reflexivity.
  - destruct S1 as (_ & -> & -> & -> & -> & _). destruct S2 as (_ & -> & -> & -> & -> & _). reflexivity.
Qed.

Theorem rename_total : forall p v it sl tl sfx, bytes_ok p -> parse p = Ok v ->
  Forall lab sl -> Forall lab tl -> sl <> [] -> tl <> [] -> bytes_ok (wire_of_labels tl) ->
  length (wire_of_labels sl) <= 255 -> length (wire_of_labels tl) <= 255 ->
  (exists s', m_rename (wire_of_labels tl) (wire_of_labels sl) sfx (v, it) = (s', Ok tt)) \/
  (exists e, m_rename (wire_of_labels tl) (wire_of_labels sl) sfx (v, it) = ((v, it), Err e)).
Proof.
  intros p v it sl tl sfx Hb Hp Hsl Htl Hsl0 Htl0 Htb Hls Hlt.
  destruct (rename_content p v sl tl sfx Hb Hp Hsl Htl Hsl0 Htl0 Htb Hls Hlt) as (qls0 & qt0 & a0 & n0 & r0 & qe0 & _ & _ & Hres).
  unfold m_rename, cbind, getv, clift, putv. cbn [fst snd].
  destruct Hres as [[Hc _]|(out & _ & _ & _ & Hc & Hbo & _)]; rewrite Hc; [right; exists InvalidName; reflexivity|].
  destruct (parse out) as [f| |] eqn:Ef.
  - rewrite (rename_summary_kept p v sl tl sfx out f Hb Hp Hsl Htl Hsl0 Htl0 Htb Hls Hlt Hc Ef). cbn [negb]. left. eexists. reflexivity.
  - right. eexists. reflexivity.
  - exfalso. pose proof (parse_total out Hbo) as Hn. unfold nopanic, hoare in Hn. rewrite Ef in Hn. exact Hn.
Qed.
