(** * Insertion: size bound, atomicity of the core, shape of the result (C08 / C09 / C10). *)
From DV Require Import Model.Base Model.NameCheck Model.Parser Model.Header Model.Readers Model.Uncompress
  Model.Mutate Proofs.ListLemmas Proofs.Hoare Proofs.HeaderBits.
From Coq Require Import ZifyBool ZifyNat ZifyN.

Lemma cbind_ok {A B} (m : cm A) (f : A -> cm B) s s' b :
  cbind m f s = (s', Ok b) -> exists a s1, m s = (s1, Ok a) /\ f a s1 = (s', Ok b).
Proof.
  unfold cbind. destruct (m s) as [s1 [a|e|x]]; intros H; try (inversion H; fail). eauto.
Qed.

Lemma cbind_err {A B} (m : cm A) (f : A -> cm B) s s' e :
  cbind m f s = (s', Err e) ->
  (m s = (s', Err e)) \/ (exists a s1, m s = (s1, Ok a) /\ f a s1 = (s', Err e)).
Proof.
  unfold cbind. destruct (m s) as [s1 [a|e'|x]]; intros H.
  - right. eauto.
  - left. inversion H; subst. reflexivity.
  - inversion H.
Qed.

Lemma rrcount_inc_length p sec p1 : rrcount_inc p sec = Ok p1 -> length p1 = length p.
Proof.
  unfold rrcount_inc. destruct (count_offset sec); cbn [bind]; try discriminate.
  destruct (be16_at p a 612); cbn [bind]; try discriminate.
  repeat match goal with |- context [if ?c then _ else _] => destruct c end; try discriminate.
  apply write_at_length.
Qed.

Definition MAXN : N := 8192.

Lemma max_size_N : N.of_nat DNS_MAX_UNCOMPRESSED_SIZE = MAXN.
Proof. reflexivity. Qed.

(** What a successful [insert_core] does. *)
Lemma insert_core_ok sec rr v it s' :
  insert_core sec rr (v, it) = (s', Ok tt) ->
  exists p1 ins,
    rrcount_inc (pp_packet v) sec = Ok p1 /\ insertion_offset v sec = Ok ins /\ ins <= length p1 /\
    pp_packet (fst s') = firstn ins p1 ++ rr ++ skipn ins p1 /\
    (N.of_nat (length (pp_packet v) + length rr) <= MAXN)%N /\ snd s' = it.
Proof.
  unfold insert_core, cbind, getv, clift, putv. cbn [fst snd].
  destruct ((DNS_MAX_UNCOMPRESSED_SIZE <? length (pp_packet v))
            || (DNS_MAX_UNCOMPRESSED_SIZE - length (pp_packet v) <? length rr)) eqn:Esz; [intros H; inversion H|].
  destruct (rrcount_inc (pp_packet v) sec) as [p1| |] eqn:Ec; try (intros H; inversion H; fail).
  destruct (insertion_offset v sec) as [ins| |] eqn:Ei; try (intros H; inversion H; fail).
  destruct (length p1 <? ins) eqn:El; [intros H; inversion H|].
  pose proof max_size_N as Hm. unfold MAXN in *.
  destruct sec; intros H; inversion H; subst; cbn [fst snd pp_packet pp_update];
    exists p1, ins; repeat split; try reflexivity; try lia.
Qed.

(** When [insert_core] reports an error nothing has been touched: the size test and the record
    count test both come before any byte moves. *)
Lemma insert_core_err sec rr s s' e :
  insert_core sec rr s = (s', Err e) -> s' = s.
Proof.
  destruct s as [v it]. unfold insert_core, cbind, getv, clift, putv. cbn [fst snd].
  destruct ((DNS_MAX_UNCOMPRESSED_SIZE <? length (pp_packet v))
            || (DNS_MAX_UNCOMPRESSED_SIZE - length (pp_packet v) <? length rr)); [intros H; inversion H; reflexivity|].
  destruct (rrcount_inc (pp_packet v) sec) as [p1| |]; try (intros H; inversion H; reflexivity).
  destruct (insertion_offset v sec) as [ins| |]; try (intros H; inversion H; reflexivity).
  destruct (length p1 <? ins); [intros H; inversion H|].
  destruct sec; intros H; inversion H.
Qed.

(** Insertion never yields a packet larger than 8192 bytes, whatever it started from, and the size
    test cannot underflow (the model's subtraction is guarded by the first disjunct). *)
Theorem insert_bound sec rr s s' :
  m_insert_rr sec rr s = (s', Ok tt) -> (N.of_nat (length (pp_packet (fst s'))) <= MAXN)%N.
Proof.
  unfold m_insert_rr. intros H. apply cbind_ok in H. destruct H as (u & [v1 it1] & _ & H).
  destruct (insert_core_ok _ _ _ _ _ H) as (p1 & ins & Hc & Hi & Hl & Hp & Hs & _).
  rewrite Hp, !app_length, firstn_length, skipn_length.
  rewrite (rrcount_inc_length _ _ _ Hc) in *. lia.
Qed.

(** A second question is refused before anything changes. *)
Lemma rrcount_inc_second_question p c :
  be16_at p 4 612 = Ok c -> (1 <= c)%N -> rrcount_inc p SQuestion = Err InvalidPacket.
Proof.
  intros Hc Hge. unfold rrcount_inc. cbn [count_offset bind]. rewrite Hc. cbn [bind section_eqb].
  destruct (1 <=? c)%N eqn:E; [reflexivity|lia].
Qed.

(** TTL write: only the four TTL bytes change. *)
Lemma set_ttl_frame ttl v it s' :
  m_set_ttl ttl (v, it) = (s', Ok tt) ->
  snd s' = it /\
  only_bytes_changed (pp_packet v) (pp_packet (fst s')) (it_name_end it + 4) (it_name_end it + 8).
Proof.
  unfold m_set_ttl, cbind, getv, getit, clift, putv. cbn [fst snd].
  destruct (unwrap (it_offset it) 681); try (intros H; inversion H; fail).
  destruct (slice_from (pp_packet v) (it_name_end it) 682); try (intros H; inversion H; fail).
  destruct (write_at (pp_packet v) (it_name_end it + DNS_RR_TTL_OFFSET) (be32_bytes ttl) 683) as [p'| |] eqn:E;
    try (intros H; inversion H; fail).
  intros H; inversion H; subst. cbn [fst snd pp_packet pp_with_packet]. split; [reflexivity|].
  unfold DNS_RR_TTL_OFFSET in E. split; [eapply write_at_length; eauto|].
  intros j Hj. eapply write_at_other; [exact E|]. cbn [length be32_bytes]. lia.
Qed.

(** Header setters change the packet bytes only: every section offset and EDNS field of the
    object is untouched. *)
Lemma header_setters_keep_view v v' :
  (exists n, pp_set_tid v n = Ok v' \/ pp_set_flags v n = Ok v' \/ pp_set_rcode v n = Ok v' \/ pp_set_opcode v n = Ok v') \/
  (exists b, pp_set_response v b = Ok v') ->
  pp_offset_question v' = pp_offset_question v /\ pp_offset_answers v' = pp_offset_answers v /\
  pp_offset_nameservers v' = pp_offset_nameservers v /\ pp_offset_additional v' = pp_offset_additional v /\
  pp_offset_edns v' = pp_offset_edns v /\ pp_edns_count v' = pp_edns_count v /\
  pp_ext_flags v' = pp_ext_flags v /\ pp_maybe_compressed v' = pp_maybe_compressed v /\ pp_cached v' = pp_cached v /\
  length (pp_packet v') = length (pp_packet v).
Proof.
  assert (Hgen : forall r, (p <- r ;; Ok (pp_with_packet v p)) = Ok v' ->
                  (forall p, r = Ok p -> length p = length (pp_packet v)) ->
                  pp_offset_question v' = pp_offset_question v /\ pp_offset_answers v' = pp_offset_answers v /\
                  pp_offset_nameservers v' = pp_offset_nameservers v /\ pp_offset_additional v' = pp_offset_additional v /\
                  pp_offset_edns v' = pp_offset_edns v /\ pp_edns_count v' = pp_edns_count v /\
                  pp_ext_flags v' = pp_ext_flags v /\ pp_maybe_compressed v' = pp_maybe_compressed v /\
                  pp_cached v' = pp_cached v /\ length (pp_packet v') = length (pp_packet v)).
  { intros r H Hl. destruct r as [p| |]; cbn [bind] in H; try discriminate.
    inversion H; subst. cbn. repeat split; try reflexivity. apply Hl. reflexivity. }
  intros [[n [H|[H|[H|H]]]]|[b H]].
  - apply (Hgen _ H). intros p Hp. apply set_tid_frame in Hp. apply Hp.
  - apply (Hgen _ H). intros p Hp. apply set_flags_frame in Hp. apply Hp.
  - apply (Hgen _ H). intros p Hp. apply set_rcode_frame in Hp. apply Hp.
  - apply (Hgen _ H). intros p Hp. apply set_opcode_frame in Hp. apply Hp.
  - apply (Hgen _ H). intros p Hp. apply set_response_frame in Hp. apply Hp.
Qed.
