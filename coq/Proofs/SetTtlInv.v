(** * The TTL setter on decompressed objects (C08, C09).

    On an object that satisfies [dinv], with the cursor on a non-OPT record of its reading,
    [set_rr_ttl] leaves an object that satisfies [dinv] again and whose reading is the old one with
    that record's TTL replaced - no hypothesis about names: a pointer-free packet has no name that
    could be read through the four bytes written (the known finding data-pointer needs a compressed
    packet). *)

From DV Require Import Model.Base Model.NameCheck Model.Parser Model.Header Model.Readers Model.Uncompress Model.Mutate
  Spec.NameSpec Spec.PacketSpec Spec.RecordSpec Spec.PlainSpec Proofs.ListLemmas Proofs.Hoare Proofs.ParserInv Proofs.ParseSound
  Proofs.ParseComplete Proofs.QuestionSpec Proofs.WalkValues Proofs.SetTtl Proofs.WalkSkip Proofs.UncompressSpec Proofs.PlainWf
  Proofs.InsertLemmas Proofs.EdnsFacts Proofs.EdnsPos Proofs.EdnsPlain Proofs.InsertSpec Proofs.HeaderInv Proofs.Chain.
From Coq Require Import ZifyBool ZifyNat ZifyN.

Definition with_ttl (rx : rec_view * rd_view) (t : N) : rec_view * rd_view := (rv_with_ttl (fst rx) t, snd rx).

Lemma with_ttl_length rx t : length (plain_record (with_ttl rx t)) = length (plain_record rx).
Proof. destruct rx as [r x]. unfold with_ttl, plain_record. cbn [fst snd rv_with_ttl rv_labels rv_type rv_class rv_ttl]. rewrite !app_length. cbn [length be32_bytes]. lia. Qed.

Lemma cat_with_ttl a rx b t : length (cat (a ++ with_ttl rx t :: b)) = length (cat (a ++ rx :: b)).
Proof. rewrite !cat_app, !cat_cons, !app_length, with_ttl_length. reflexivity. Qed.

Lemma in_place_split : forall L o r x, In (r, x) (place o L) ->
  exists L1 r0 L2, L = L1 ++ (r0, x) :: L2 /\ r = rv_at r0 x (o + length (cat L1)).
Proof.
  induction L as [|[r1 x1] L IH]; intros o r x Hin; cbn [place] in Hin; [destruct Hin|].
  destruct Hin as [E|Hin].
  - inversion E; subst. exists [], r1, L. cbn. rewrite Nat.add_0_r. auto.
  - destruct (IH _ _ _ Hin) as (L1 & r0 & L2 & -> & ->). exists ((r1, x1) :: L1), r0, L2. split; [reflexivity|].
    rewrite cat_cons, app_length. cbn [fst snd]. f_equal. lia.
Qed.

Lemma opt_rel_with_ttl : forall a rx b t, is_opt (fst rx) = false -> opt_rel (a ++ with_ttl rx t :: b) = opt_rel (a ++ rx :: b).
Proof.
  induction a as [|y a IH]; intros rx b t Hno; cbn [app opt_rel].
  - unfold with_ttl at 1. cbn [fst]. change (is_opt (rv_with_ttl (fst rx) t)) with (is_opt (fst rx)). rewrite Hno, with_ttl_length. reflexivity.
  - rewrite IH by exact Hno. reflexivity.
Qed.

(** the bytes: the four TTL bytes of the record at [length pre] *)
Lemma write_ttl_bytes pre rx post t site : (t < 4294967296)%N ->
  write_at (pre ++ plain_record rx ++ post) (length pre + length (wire_of_labels (rv_labels (fst rx))) + 4) (be32_bytes t) site =
  Ok (pre ++ plain_record (with_ttl rx t) ++ post).
Proof.
  intros Ht. destruct rx as [r x]. unfold with_ttl, plain_record. cbn [fst snd rv_with_ttl rv_labels rv_type rv_class rv_ttl].
  set (W := wire_of_labels (rv_labels r)). set (RD := be16_bytes (N.of_nat (length (plain_rdata x))) ++ plain_rdata x).
  replace (pre ++ (W ++ be16_bytes (rv_type r) ++ be16_bytes (rv_class r) ++ be32_bytes (rv_ttl r) ++ RD) ++ post)
    with ((pre ++ W ++ be16_bytes (rv_type r) ++ be16_bytes (rv_class r)) ++ be32_bytes (rv_ttl r) ++ (RD ++ post)) by (rewrite <- !app_assoc; reflexivity).
  replace (length pre + length W + 4) with (length (pre ++ W ++ be16_bytes (rv_type r) ++ be16_bytes (rv_class r))) by (rewrite !app_length; cbn [length be16_bytes]; lia).
  rewrite write_at_mid by reflexivity. f_equal. rewrite <- !app_assoc. reflexivity.
Qed.

(** ** Replacing the lists of a [build] by lists of the same shape *)
Theorem rebuild_keeps_dinv : forall v f w qls qt A Nn R s1 s2 s3 A' Nn' R' t1 t2 t3 q',
  pp_maybe_compressed v = false -> bytes_ok (pp_packet v) -> parse (pp_packet v) = Ok f -> same_view v f ->
  plain_parts (pp_packet v) w qls qt A Nn R s1 s2 s3 ->
  q' = build (firstn 12 (pp_packet v)) qls qt A' Nn' R' -> bytes_ok q' ->
  chain SAnswer false A' t1 -> chain SNameServers t1 Nn' t2 -> chain SAdditional t2 R' t3 ->
  length A' = length A -> length Nn' = length Nn -> length R' = length R ->
  length (cat A') = length (cat A) -> length (cat Nn') = length (cat Nn) -> opt_rel R' = opt_rel R ->
  dinv (pp_with_packet v q') /\
  reading q' qls qt (place (12 + length (wire_of_labels qls) + 4) A') (place (12 + length (wire_of_labels qls) + 4 + length (cat A')) Nn')
             (place (12 + length (wire_of_labels qls) + 4 + length (cat A') + length (cat Nn')) R').
Proof.
  intros v f w qls qt A Nn R s1 s2 s3 A' Nn' R' t1 t2 t3 q' Hmc Hb Hf Hsv P Eq' Hbq' CA CN CR LA LN LR CLA CLN EoR.
  set (q := pp_packet v) in *.
  pose proof P as [Peq P12 Pw Pqd Pan Pns Par Pgate Pqok Pq255 Pqb Pqt PCA PCN PCR].
  set (H := firstn 12 q) in *.
  assert (HH : length H = 12) by (unfold H; rewrite firstn_length; lia).
  assert (Hg' : N.land w 32768 <> 32768%N -> length A' = 0 /\ length Nn' = 0) by (intros Hn; destruct (Pgate Hn); lia).
  assert (U2 : u16_at H 2 w) by exact (u16_at_firstn q 12 2 w ltac:(lia) Pw).
  assert (U4 : u16_at H 4 1%N) by exact (u16_at_firstn q 12 4 _ ltac:(lia) Pqd).
  assert (U6 : u16_at H 6 (N.of_nat (length A'))) by (rewrite LA; exact (u16_at_firstn q 12 6 _ ltac:(lia) Pan)).
  assert (U8 : u16_at H 8 (N.of_nat (length Nn'))) by (rewrite LN; exact (u16_at_firstn q 12 8 _ ltac:(lia) Pns)).
  assert (U10 : u16_at H 10 (N.of_nat (length R'))) by (rewrite LR; exact (u16_at_firstn q 12 10 _ ltac:(lia) Par)).
  pose proof (chain_sec_ctx _ _ _ _ CA) as SA. pose proof (chain_sec_ctx _ _ _ _ CN) as SN. pose proof (chain_sec_ctx _ _ _ _ CR) as SR.
  pose proof (build_parts H qls qt w A' Nn' R' t1 t2 t3 HH U2 U4 U6 U8 U10 Hg' Pqok Pq255 Pqb Pqt SA SN SR) as P'. rewrite <- Eq' in P'.
  destruct (build_wf H qls qt w A' Nn' R' t1 t2 t3 HH (Forall_firstn _ _ _ Hb) U2 U4 U6 U8 U10 Hg' Pqok Pq255 Pqb Pqt SA SN SR) as (_ & Wz & _ & Rz).
  rewrite <- Eq' in Wz, Rz. split; [|exact Rz].
  destruct (parse_complete q' Hbq' Wz) as (f' & Hf').
  constructor; cbn [pp_with_packet pp_packet pp_maybe_compressed]; [exact Hmc|exact Hbq'|exact (build_fixed q' f' _ _ _ _ _ _ _ _ _ Hbq' Hf' P')|].
  exists f'. split; [exact Hf'|].
  destruct Hsv as (_ & Voq & Voa & Von & Vor & Voe & Vc & Vrc & Vver & Vxf & Vmp).
  destruct (parse_offsets q f _ _ _ _ _ _ _ _ _ Hb Hf P) as (Oa & On & Or).
  destruct (parse_offsets q' f' _ _ _ _ _ _ _ _ _ Hbq' Hf' P') as (Oa' & On' & Or').
  destruct (parse_shape _ _ Hbq' Hf') as (? & ? & ? & ? & ? & ? & ? & Ff). destruct (parse_shape _ _ Hb Hf) as (? & ? & ? & ? & ? & ? & ? & Fq).
  destruct (build_summary q f _ _ _ _ _ _ _ _ _ Hb Hf P) as (Sq & Iq). destruct (build_summary q' f' _ _ _ _ _ _ _ _ _ Hbq' Hf' P') as (Sz & Iz).
  rewrite EoR, CLA, CLN in Sz, Iz.
  assert (Esum : pp_offset_edns f = pp_offset_edns f' /\ pp_edns_count f = pp_edns_count f' /\ pp_ext_rcode f = pp_ext_rcode f' /\
                 pp_edns_version f = pp_edns_version f' /\ pp_ext_flags f = pp_ext_flags f' /\ pp_max_payload f = pp_max_payload f').
  { destruct (opt_rel R) as [[k y]|] eqn:EoR0.
    - destruct (Iq k y eq_refl) as (Hoy & Hxq & eq' & Hrq). destruct (Iz k y eq_refl) as (_ & Hxz & ez' & Hrz).
      destruct (summary_same_opt _ _ _ _ _ _ _ _ _ Hb Hbq' Sq Sz Hrq Hrz Hxq Hxz ltac:(rewrite is_opt_rv_at; exact Hoy) ltac:(rewrite is_opt_rv_at; exact Hoy) eq_refl eq_refl)
        as (E1 & E2 & E3 & E4 & E5).
      cbn [summary_of] in Sq, Sz. destruct Sq as (Oq & _). destruct Sz as (Oz & _). rewrite Oq, Oz. repeat split; congruence.
    - cbn [summary_of] in Sq, Sz. destruct Sq as (Oq & C1 & C2 & C3 & C4 & C5). destruct Sz as (Oz & D1 & D2 & D3 & D4 & D5).
      repeat split; congruence. }
  destruct Esum as (E0 & E1 & E2 & E3 & E4 & E5).
  assert (Hpk' : pp_packet f' = q') by exact (pf_packet _ _ _ _ _ _ _ _ _ Ff).
  unfold same_view. cbn [pp_with_packet pp_packet pp_offset_question pp_offset_answers pp_offset_nameservers pp_offset_additional pp_offset_edns
                         pp_edns_count pp_ext_rcode pp_edns_version pp_ext_flags pp_max_payload].
  rewrite Hpk', Voq, Voa, Von, Vor, Voe, Vc, Vrc, Vver, Vxf, Vmp.
  rewrite (pf_oq _ _ _ _ _ _ _ _ _ Ff), (pf_oq _ _ _ _ _ _ _ _ _ Fq), Oa, On, Or, Oa', On', Or', LA, LN, LR, CLA, CLN.
  repeat split; assumption.
Qed.

Lemma place_with_ttl : forall a o rx b t,
  place o (a ++ with_ttl rx t :: b) =
  place o a ++ (rv_with_ttl (rv_at (fst rx) (snd rx) (o + length (cat a))) t, snd rx) :: place (o + length (cat a) + length (plain_record rx)) b.
Proof.
  intros a o rx b t. rewrite place_app. cbn [place]. rewrite with_ttl_length. destruct rx as [r x]. reflexivity.
Qed.

Lemma place_split : forall a o rx b,
  place o (a ++ rx :: b) = place o a ++ (rv_at (fst rx) (snd rx) (o + length (cat a)), snd rx) :: place (o + length (cat a) + length (plain_record rx)) b.
Proof. intros a o rx b. rewrite place_app. reflexivity. Qed.

Theorem set_ttl_keeps_dinv : forall v it t s' qls qt lA lN lR r x,
  dinv v -> (t < 4294967296)%N -> reading (pp_packet v) qls qt lA lN lR -> In (r, x) (lA ++ lN ++ lR) -> is_opt r = false ->
  it_offset it <> None -> it_name_end it = rv_name_end r ->
  m_set_ttl t (v, it) = (s', Ok tt) ->
  dinv (fst s') /\ snd s' = it /\
  exists lA' lN' lR' L1 L2, reading (pp_packet (fst s')) qls qt lA' lN' lR' /\
    length lA' = length lA /\ length lN' = length lN /\ length lR' = length lR /\
    lA ++ lN ++ lR = L1 ++ (r, x) :: L2 /\ lA' ++ lN' ++ lR' = L1 ++ (rv_with_ttl r t, x) :: L2.
Proof.
  intros v it t s' qls qt lA lN lR r x Hd Ht Rd Hin Hno Hoff Hne Hset.
  pose proof Hd as [Hmc Hb Hfix (f & Hf & Hsv)]. set (q := pp_packet v) in *.
  destruct (plain_parts_of q f Hb Hf Hfix) as (w & qls0 & qt0 & A & Nn & R & s1 & s2 & s3 & P).
  destruct (parts_build_wf q w qls0 qt0 A Nn R s1 s2 s3 Hb P) as (Lq & Rq).
  destruct (reading_fun _ _ _ _ _ _ _ _ _ _ _ Rq Rd) as (-> & -> & <- & <- & <-).
  destruct (parts_chains q f w qls qt A Nn R s1 s2 s3 Hb Hf P) as (t1 & t2 & t3 & CA & CN & CR).
  set (o1 := 12 + length (wire_of_labels qls) + 4) in *. set (o2 := o1 + length (cat A)) in *. set (o3 := o2 + length (cat Nn)) in *.
  pose proof (pp_eq _ _ _ _ _ _ _ _ _ _ P) as Peq. pose proof (pp_len _ _ _ _ _ _ _ _ _ _ P) as P12.
  set (H := firstn 12 q) in *. set (Qb := plain_question qls qt CLASS_IN) in *.
  assert (HH : length H = 12) by (unfold H; rewrite firstn_length; lia).
  assert (LQb : length Qb = length (wire_of_labels qls) + 4) by (unfold Qb, plain_question; rewrite !app_length; cbn [length be16_bytes]; lia).
  (* what the setter does *)
  unfold m_set_ttl, cbind, getv, getit, clift, putv in Hset. cbn [fst snd] in Hset. fold q in Hset.
  destruct (it_offset it) as [off|] eqn:Eoff; [|congruence]. cbn [unwrap] in Hset.
  unfold slice_from in Hset. destruct (it_name_end it <=? length q) eqn:Ele; cbn [bind] in Hset; [|inversion Hset].
  unfold DNS_RR_TTL_OFFSET in Hset.
  destruct (write_at q (it_name_end it + 4) (be32_bytes t) 683) as [q'| |] eqn:Ew; try (inversion Hset; fail).
  inversion Hset; subst s'. clear Hset. cbn [fst snd].
  assert (Hbq' : bytes_ok q').
  { eapply bytes_ok_write_at; [exact Hb| |exact Ew]. destruct (be32_bytes_value t Ht) as (a & b1 & c & d & -> & _ & Ha & Hb1 & Hc & Hd').
    repeat constructor; assumption. }
  (* which section the record is in *)
  apply in_app_or in Hin. destruct Hin as [Hin|Hin]; [|apply in_app_or in Hin; destruct Hin as [Hin|Hin]].
  - destruct (in_place_split A o1 r x Hin) as (A1 & r0 & A2 & EA & Er).
    assert (Hno0 : is_opt r0 = false) by (rewrite Er in Hno; exact Hno).
    assert (Eq' : q' = build H qls qt (A1 ++ with_ttl (r0, x) t :: A2) Nn R).
    { rewrite Peq in Ew. unfold build in Ew |- *. fold Qb H in Ew |- *. rewrite EA in Ew. rewrite !cat_app, !cat_cons in Ew |- *.
      rewrite Hne, Er in Ew. cbn [rv_at rv_name_end] in Ew.
      replace (H ++ Qb ++ (cat A1 ++ plain_record (r0, x) ++ cat A2) ++ cat Nn ++ cat R)
        with ((H ++ Qb ++ cat A1) ++ plain_record (r0, x) ++ (cat A2 ++ cat Nn ++ cat R)) in Ew by (rewrite <- !app_assoc; reflexivity).
      replace (o1 + length (cat A1)) with (length (H ++ Qb ++ cat A1)) in Ew by (rewrite !app_length, HH, LQb; unfold o1; lia).
      change (rv_labels r0) with (rv_labels (fst (r0, x))) in Ew. rewrite (write_ttl_bytes _ _ _ _ _ Ht) in Ew.
      match type of Ew with Ok ?z = Ok _ => assert (E2 : q' = z) by (injection Ew as Ew; symmetry; exact Ew) end.
      rewrite E2. rewrite <- !app_assoc. reflexivity. }
    destruct (rebuild_keeps_dinv v f w qls qt A Nn R s1 s2 s3 (A1 ++ with_ttl (r0, x) t :: A2) Nn R t1 t2 t3 q' Hmc Hb Hf Hsv P Eq' Hbq')
      as (Hd' & Rd'); try assumption; try reflexivity.
    + rewrite EA in CA. exact (chain_set_ttl _ _ _ _ _ _ _ CA Ht).
    + rewrite EA, !app_length. reflexivity.
    + rewrite EA. apply cat_with_ttl.
    + split; [exact Hd'|]. split; [reflexivity|].
      rewrite cat_with_ttl, <- EA in Rd'. fold o1 o2 o3 in Rd'.
      eexists _, _, _, (place o1 A1), (place (o1 + length (cat A1) + length (plain_record (r0, x))) A2 ++ place o2 Nn ++ place o3 R).
      split; [exact Rd'|]. rewrite !place_length, EA, !app_length. cbn [length]. split; [reflexivity|]. split; [reflexivity|]. split; [reflexivity|].
      rewrite place_with_ttl, place_split, Er, <- !app_assoc. cbn [fst snd app]. split; reflexivity.
  - destruct (in_place_split Nn o2 r x Hin) as (N1 & r0 & N2 & EN & Er).
    assert (Hno0 : is_opt r0 = false) by (rewrite Er in Hno; exact Hno).
    assert (Eq' : q' = build H qls qt A (N1 ++ with_ttl (r0, x) t :: N2) R).
    { rewrite Peq in Ew. unfold build in Ew |- *. fold Qb H in Ew |- *. rewrite EN in Ew. rewrite !cat_app, !cat_cons in Ew |- *.
      rewrite Hne, Er in Ew. cbn [rv_at rv_name_end] in Ew.
      replace (H ++ Qb ++ cat A ++ (cat N1 ++ plain_record (r0, x) ++ cat N2) ++ cat R)
        with ((H ++ Qb ++ cat A ++ cat N1) ++ plain_record (r0, x) ++ (cat N2 ++ cat R)) in Ew by (rewrite <- !app_assoc; reflexivity).
      replace (o2 + length (cat N1)) with (length (H ++ Qb ++ cat A ++ cat N1)) in Ew by (rewrite !app_length, HH, LQb; unfold o2, o1; lia).
      change (rv_labels r0) with (rv_labels (fst (r0, x))) in Ew. rewrite (write_ttl_bytes _ _ _ _ _ Ht) in Ew.
      match type of Ew with Ok ?z = Ok _ => assert (E2 : q' = z) by (injection Ew as Ew; symmetry; exact Ew) end.
      rewrite E2. rewrite <- !app_assoc. reflexivity. }
    destruct (rebuild_keeps_dinv v f w qls qt A Nn R s1 s2 s3 A (N1 ++ with_ttl (r0, x) t :: N2) R t1 t2 t3 q' Hmc Hb Hf Hsv P Eq' Hbq')
      as (Hd' & Rd'); try assumption; try reflexivity.
    + rewrite EN in CN. exact (chain_set_ttl _ _ _ _ _ _ _ CN Ht).
    + rewrite EN, !app_length. reflexivity.
    + rewrite EN. apply cat_with_ttl.
    + split; [exact Hd'|]. split; [reflexivity|].
      rewrite cat_with_ttl, <- EN in Rd'. fold o1 o2 o3 in Rd'.
      eexists _, _, _, (place o1 A ++ place o2 N1), (place (o2 + length (cat N1) + length (plain_record (r0, x))) N2 ++ place o3 R).
      split; [exact Rd'|]. rewrite !place_length, EN, !app_length. cbn [length]. split; [reflexivity|]. split; [reflexivity|]. split; [reflexivity|].
      rewrite place_with_ttl, place_split, Er, <- !app_assoc. cbn [fst snd app]. split; reflexivity.
  - destruct (in_place_split R o3 r x Hin) as (R1 & r0 & R2 & ER & Er).
    assert (Hno0 : is_opt r0 = false) by (rewrite Er in Hno; exact Hno).
    assert (Eq' : q' = build H qls qt A Nn (R1 ++ with_ttl (r0, x) t :: R2)).
    { rewrite Peq in Ew. unfold build in Ew |- *. fold Qb H in Ew |- *. rewrite ER in Ew. rewrite !cat_app, !cat_cons in Ew |- *.
      rewrite Hne, Er in Ew. cbn [rv_at rv_name_end] in Ew.
      replace (H ++ Qb ++ cat A ++ cat Nn ++ cat R1 ++ plain_record (r0, x) ++ cat R2)
        with ((H ++ Qb ++ cat A ++ cat Nn ++ cat R1) ++ plain_record (r0, x) ++ (cat R2 ++ [])) in Ew by (rewrite app_nil_r, <- !app_assoc; reflexivity).
      replace (o3 + length (cat R1)) with (length (H ++ Qb ++ cat A ++ cat Nn ++ cat R1)) in Ew by (rewrite !app_length, HH, LQb; unfold o3, o2, o1; lia).
      change (rv_labels r0) with (rv_labels (fst (r0, x))) in Ew. rewrite (write_ttl_bytes _ _ _ _ _ Ht) in Ew.
      match type of Ew with Ok ?z = Ok _ => assert (E2 : q' = z) by (injection Ew as Ew; symmetry; exact Ew) end.
      rewrite E2. rewrite app_nil_r, <- !app_assoc. reflexivity. }
    destruct (rebuild_keeps_dinv v f w qls qt A Nn R s1 s2 s3 A Nn (R1 ++ with_ttl (r0, x) t :: R2) t1 t2 t3 q' Hmc Hb Hf Hsv P Eq' Hbq')
      as (Hd' & Rd'); try assumption; try reflexivity.
    + rewrite ER in CR. exact (chain_set_ttl _ _ _ _ _ _ _ CR Ht).
    + rewrite ER, !app_length. reflexivity.
    + rewrite ER. apply (opt_rel_with_ttl R1 (r0, x) R2 t Hno0).
    + split; [exact Hd'|]. split; [reflexivity|].
      fold o1 o2 o3 in Rd'.
      eexists _, _, _, (place o1 A ++ place o2 Nn ++ place o3 R1), (place (o3 + length (cat R1) + length (plain_record (r0, x))) R2).
      split; [exact Rd'|]. rewrite !place_length, ER, !app_length. cbn [length]. split; [reflexivity|]. split; [reflexivity|]. split; [reflexivity|].
      rewrite place_with_ttl, place_split, Er, <- !app_assoc. cbn [fst snd app]. split; reflexivity.
Qed.
