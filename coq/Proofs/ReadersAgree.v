(** * The unchecked readers agree with the validator on every accepted packet (C03).

    - [skip_name_agrees]: on every name [check_compressed_name] accepts (and that is followed by at
      least one more byte, which the parser always requires), the unchecked [RRIterator::skip_name]
      returns the same end offset - its assertions never fire and it never indexes outside.
    - [skip_rr_agrees]: for every record the parser accepted, skip_name + skip_rdata land exactly on
      the parser's next cursor position.
    - [walk_including_opt_total]: on every accepted packet, iterating a record section with
      [next_including_opt] from a fresh cursor visits exactly the announced number of records, at
      the offsets the parser visited, and then stops; no Panic outcome (no out-of-range index, no
      failed assertion, no exhausted loop budget). *)

From DV Require Import Model.Base Model.NameCheck Model.Parser Model.Header Model.Readers Model.Uncompress
  Proofs.Hoare Proofs.NameCheckTotal Proofs.ParserTotal Proofs.ParserInv.
From Coq Require Import ZifyBool ZifyNat ZifyN.

Section A.
  Variable p : bytes.

  (** Once the first pointer has been followed the result is fixed. *)
  Lemma cn_final_fixed : forall fuel s f e,
    cn_final s = Some f -> run_loop (cn_step p) fuel s = Ok e -> e = f.
  Proof.
    induction fuel as [|fuel IH]; intros s f e Hf Hr; cbn [run_loop] in Hr; [discriminate|].
    unfold cn_step in Hr.
    repeat match type of Hr with
           | context [if ?c then _ else _] => destruct c eqn:?; try discriminate
           | context [match nth_error ?l ?n with _ => _ end] => destruct (nth_error l n) eqn:?; try discriminate
           | context [match slice ?a ?b ?c ?d with _ => _ end] => destruct (slice a b c d) eqn:?; try discriminate
           end;
      try (rewrite Hf in Hr; inversion Hr; reflexivity);
      try (eapply IH; [|exact Hr]; cbn [cn_final]; rewrite Hf; reflexivity).
  Qed.

  Lemma cn_result_gt s fuel e :
    cn_final s = None -> cn_barrier s <= length p -> cn_lowest s <= length p -> cn_nlen s <= 255 ->
    run_loop (cn_step p) fuel s = Ok e -> cn_off s < e.
  Proof.
    intros Hf Hb Hl Hn Hr.
    apply (run_loop_partial (cn_step p) (cn_inv p (cn_off s)) (fun e => cn_off s < e)) with (fuel := fuel) (s := s);
      [|unfold cn_inv; rewrite Hf; lia|exact Hr].
    intros s0 Hi. pose proof (cn_step_ok p (cn_off s) s0 Hi) as Hs.
    destruct (cn_step p s0); [exact (proj1 Hs)|exact Hs].
  Qed.

  Lemma cn_sk : forall fuel s e,
    cn_final s = None -> cn_barrier s = length p -> cn_lowest s <= length p -> cn_nlen s <= 255 ->
    run_loop (cn_step p) fuel s = Ok e -> e < length p ->
    forall fuel', length p - cn_off s < fuel' -> run_loop (sk_step p) fuel' (cn_off s) = Ok e.
  Proof.
    induction fuel as [|fuel IH]; intros s e Hf Hb Hl Hn Hr He fuel' Hfuel; cbn [run_loop] in Hr; [discriminate|].
    destruct fuel' as [|fuel']; [lia|]. cbn [run_loop].
    unfold cn_step in Hr. unfold sk_step.
    destruct (cn_barrier s <=? cn_off s) eqn:E1; [discriminate|].
    destruct (nth_error p (cn_off s)) as [len|] eqn:Elen; [|discriminate].
    destruct (N.land len 192 =? 192)%N eqn:Eptr.
    - (* pointer: the result is offset + 2 *)
      destruct (cn_refs s =? 0) eqn:E2; [discriminate|].
      destruct (length p <? cn_off s) eqn:E3; [discriminate|].
      destruct (length p - cn_off s <? 2) eqn:E4; [discriminate|].
      destruct (nth_error p (cn_off s + 1)) as [lo|] eqn:Elo; [|discriminate].
      match type of Hr with context [if ?c then _ else _] => destruct c eqn:E5; [discriminate|] end.
      match type of Hr with context [nth_error p ?r] => destruct (nth_error p r) as [rb|] eqn:Erb; [|discriminate] end.
      match type of Hr with context [if ?c then _ else _] => destruct c eqn:E6; [discriminate|] end.
      apply cn_final_fixed with (f := cn_off s + 2) in Hr; [|cbn [cn_final]; rewrite Hf; reflexivity].
      subst e. destruct (length p - cn_off s <=? 2) eqn:E7; [lia|reflexivity].
    - destruct (63 <? len)%N eqn:E2; [discriminate|].
      destruct (length p <? cn_off s) eqn:E3; [discriminate|].
      destruct (length p - cn_off s <=? N.to_nat len) eqn:E4; [discriminate|].
      destruct (DNS_MAX_HOSTNAME_LEN <? cn_nlen s + N.to_nat len + 1) eqn:E5; [discriminate|].
      destruct (slice p (cn_off s + 1) (cn_off s + N.to_nat len + 1) 106) as [lab| |] eqn:Esl; try discriminate.
      destruct (existsb bad_label_char lab) eqn:E6; [discriminate|].
      destruct (N.to_nat len =? 0) eqn:E7.
      + rewrite Hf in Hr. inversion Hr; subst e.
        destruct (length p - cn_off s - 1 <=? N.to_nat len) eqn:E8; [lia|].
        f_equal. lia.
      + (* a proper label: both walkers continue from the same offset *)
        match type of Hr with run_loop _ _ ?s' = _ => set (s1 := s') in * end.
        unfold DNS_MAX_HOSTNAME_LEN in *.
        assert (Hgt1 : cn_off s1 < e).
        { apply (cn_result_gt s1 fuel e); unfold s1; cbn [cn_barrier cn_lowest cn_nlen cn_final cn_off]; auto; lia. }
        unfold s1 in Hgt1. cbn [cn_off] in Hgt1.
        destruct (length p - cn_off s - 1 <=? N.to_nat len) eqn:E8; [exfalso; lia|].
        replace (cn_off s + N.to_nat len + 1) with (cn_off s1) by (unfold s1; cbn [cn_off]; lia).
        apply (IH s1 e); unfold s1; cbn [cn_barrier cn_lowest cn_nlen cn_final cn_off]; auto; lia.
  Qed.

  Theorem skip_name_agrees : forall off e,
    check_compressed_name p off = Ok e -> e < length p -> skip_name p off = Ok e.
  Proof.
    intros off e H He. unfold check_compressed_name in H.
    destruct (length p <=? off) eqn:E1; [discriminate|].
    destruct (length p - off <? 1) eqn:E2; [discriminate|].
    unfold skip_name.
    apply (cn_sk cn_fuel (cn_init p off) e); unfold cn_init; cbn [cn_barrier cn_lowest cn_nlen cn_final cn_off];
      auto; lia.
  Qed.

  Lemma skip_rdata_agrees ne w :
    be16_at p (ne + 8) 203 = Ok w -> skip_rdata p ne = Ok (ne + 10 + N.to_nat w).
  Proof.
    intros H. unfold skip_rdata, rri_rdlen, DNS_RR_RDLEN_OFFSET, DNS_RR_HEADER_SIZE.
    rewrite (be16_at_site _ _ _ 404 _ H). cbn [bind]. reflexivity.
  Qed.

  Theorem skip_rr_agrees s s' : rr_shape p s s' ->
    exists ne, skip_name p (ps_off s) = Ok ne /\ skip_rdata p ne = Ok (ps_off s') /\
               ps_off s < ne /\ ps_off s + 11 <= ps_off s' /\ ps_off s' <= length p.
  Proof.
    intros (ne & w & Hcn & Hlt & Hle & Hw & Hwlt & Ho & Hl).
    exists ne. repeat split; try lia.
    - apply skip_name_agrees; [exact Hcn|lia].
    - rewrite Ho. apply skip_rdata_agrees. exact Hw.
  Qed.
End A.

(** ** Walking a section with [next_including_opt] *)

Definition collect_offsets (acc : list nat) (it : rrit) : res (list nat) :=
  match it_offset it with Some o => Ok (acc ++ [o]) | None => Panic 901 end.

Lemma chain_span p s n s' : rr_chain p s n s' -> ps_off s + 11 * n <= ps_off s'.
Proof.
  induction 1 as [s|s s1 s' n Hsh H1 Hc IH]; [lia|].
  destruct (skip_rr_agrees p s s1 Hsh) as (ne & _ & _ & _ & Hge & _). lia.
Qed.

Lemma rr_chain_S_inv p s n s' : rr_chain p s (S n) s' ->
  exists s1, rr_shape p s s1 /\ pinv p s1 /\ rr_chain p s1 n s'.
Proof. intros c. inversion c; subst. eauto. Qed.

Section W.
  Variable p : bytes.
  Variable v : ppacket.
  Hypothesis Hpk : pp_packet v = p.

  (** A live cursor that has [n] records left, the next one starting where the chain starts. *)
  Lemma walk_chain : forall n s s' (c : rr_chain p s n s') fuel it acc,
    pinv p s' -> n < fuel ->
    it_offset it <> None -> it_offset_next it = ps_off s -> it_rrs_left it = N.of_nat n ->
    forall o0, it_offset it = Some o0 ->
    exists l, walk_fold fuel (r_next_including_opt v) collect_offsets (Some it) acc = Ok (acc ++ o0 :: l)
              /\ length l = n.
  Proof.
    induction n as [|n IH]; intros s s' c fuel it acc Hinv Hfuel Hlive Hnext Hleft o0 Ho0.
    - destruct fuel as [|fuel]; [lia|]. cbn [walk_fold]. unfold collect_offsets. rewrite Ho0. cbn [bind].
      unfold r_next_including_opt. rewrite Ho0. cbn [bind]. rewrite Hleft. cbn.
      destruct fuel; cbn [walk_fold]; exists []; split; reflexivity.
    - destruct fuel as [|fuel]; [lia|]. cbn [walk_fold]. unfold collect_offsets at 1. rewrite Ho0. cbn [bind].
      destruct (rr_chain_S_inv _ _ _ _ c) as (s1 & Hsh & H1 & Hc').
      destruct (skip_rr_agrees p s s1 Hsh) as (ne & Hsk & Hrd & Hlt & Hge & Hle).
      unfold r_next_including_opt at 1. rewrite Ho0. cbn [bind]. rewrite Hleft.
      replace (N.of_nat (S n) =? 0)%N with false by lia.
      rewrite Hpk, Hnext, Hsk. cbn [bind]. rewrite Hrd. cbn [bind].
      match goal with |- context [walk_fold fuel _ _ (Some ?it1) _] => set (it' := it1) end.
      destruct (IH s1 s' Hc' fuel it' (acc ++ [o0]) Hinv ltac:(lia)) with (o0 := ps_off s) as (l & Hl & Hlen);
        unfold it'; cbn [it_offset it_offset_next it_rrs_left]; try congruence; try lia; try reflexivity.
      exists (ps_off s :: l). split; [|cbn; lia].
      fold it'. rewrite Hl. rewrite <- app_assoc. reflexivity.
  Qed.
End W.

Lemma walk_fold_None {Acc} fuel next (body : Acc -> rrit -> res Acc) acc :
  walk_fold fuel next body None acc = Ok acc.
Proof. destruct fuel; reflexivity. Qed.

(** The section walk of the whole object. *)
Definition walk_offsets (v : ppacket) (sec : section) : res (list nat) :=
  first <- r_next_including_opt v (it_new sec) ;;
  walk_fold (walk_fuel (pp_packet v)) (r_next_including_opt v) collect_offsets first [].

Lemma first_record p v sec (count : N) (off : option nat) s s' n :
  pp_packet v = p -> rr_chain p s n s' -> pinv p s' -> n = N.to_nat count -> (count < 65536)%N ->
  (match sec with
   | SAnswer => hdr_ancount p = Ok count /\ pp_offset_answers v = off
   | SNameServers => hdr_nscount p = Ok count /\ pp_offset_nameservers v = off
   | SAdditional => hdr_arcount p = Ok count /\ pp_offset_additional v = off
   | _ => False
   end) ->
  off = (if (0 <? count)%N then Some (ps_off s) else None) ->
  exists l, walk_offsets v sec = Ok l /\ length l = n.
Proof.
  intros Hpk Hc Hinv Hn Hlt Hsec Hoff. unfold walk_offsets.
  unfold r_next_including_opt at 1. cbn [it_new it_offset it_section it_rrs_left it_offset_next bind]. rewrite Hpk.
  assert (Hcount : (c <- (match sec with SAnswer => hdr_ancount p | SNameServers => hdr_nscount p
                                     | SAdditional => hdr_arcount p | _ => Panic 451 end) ;; Ok c) = Ok count).
  { destruct sec; try contradiction; destruct Hsec as [-> _]; reflexivity. }
  destruct n as [|n].
  - assert (count = 0%N) by lia. subst count. cbn in Hoff.
    destruct sec; try contradiction; destruct Hsec as [Hh Ho]; rewrite Hh; cbn [bind];
      replace (0 =? 0)%N with true by reflexivity; cbn [bind]; rewrite walk_fold_None;
      exists []; split; reflexivity.
  - assert (Hpos : (0 <? count)%N = true) by lia. rewrite Hpos in Hoff.
    destruct (rr_chain_S_inv _ _ _ _ Hc) as (s1 & Hsh & H1 & Hc').
    destruct (skip_rr_agrees p s s1 Hsh) as (ne & Hsk & Hrd & Hlt' & Hge & Hle).
    pose proof (chain_span p _ _ _ Hc') as Hspan. unfold pinv in Hinv.
    assert (Hz : (count =? 0)%N = false) by lia.
    destruct sec; try contradiction; destruct Hsec as [Hh Ho]; rewrite Hh; cbn [bind]; rewrite Hz, Ho, Hoff; cbn [unwrap bind];
      rewrite Hz; rewrite Hsk; cbn [bind]; rewrite Hrd; cbn [bind];
      match goal with |- context [walk_fold _ _ _ (Some ?it1) _] => set (it' := it1) end;
      (destruct (walk_chain p v Hpk n s1 s' Hc' (walk_fuel p) it' [] Hinv) with (o0 := ps_off s) as (l & Hl & Hlen);
       [unfold walk_fuel; lia | unfold it'; cbn; congruence | reflexivity | unfold it'; cbn [it_rrs_left]; lia
        | reflexivity | ]);
      exists (ps_off s :: l); (split; [exact Hl | cbn; lia]).
Qed.

(** On every accepted packet each record section walks to completion, visiting exactly as many
    records as the header announces. *)
Theorem walk_including_opt_total : forall p v, bytes_ok p -> parse p = Ok v ->
  exists an ns ar la ln lr,
    hdr_ancount p = Ok an /\ hdr_nscount p = Ok ns /\ hdr_arcount p = Ok ar /\
    walk_offsets v SAnswer = Ok la /\ length la = N.to_nat an /\
    walk_offsets v SNameServers = Ok ln /\ length ln = N.to_nat ns /\
    walk_offsets v SAdditional = Ok lr /\ length lr = N.to_nat ar.
Proof.
  intros p v Hb Hp.
  destruct (parse_shape p v Hb Hp) as (sq & san & sns & sar & an & ns & ar & F).
  destruct F.
  assert (Hh : forall off site c, off + 1 < 12 -> be16_at p off site = Ok c -> (c < 65536)%N).
  { intros off site c Ho Hc. pose proof (be16_at_hoare p off site ltac:(lia) Hb) as H.
    rewrite Hc in H. exact H. }
  assert (Hlan : (an < 65536)%N) by (eapply (Hh 6 233%N); [lia|exact pf_han]).
  assert (Hlns : (ns < 65536)%N) by (eapply (Hh 8 234%N); [lia|exact pf_hns]).
  assert (Hlar : (ar < 65536)%N) by (eapply (Hh 10 235%N); [lia|exact pf_har]).
  assert (Hisar : pinv p sar) by (unfold pinv; lia).
  pose proof (chain_span p _ _ _ pf_chain_ar) as Hs3.
  pose proof (chain_span p _ _ _ pf_chain_ns) as Hs2.
  assert (Hisns : pinv p sns) by (unfold pinv; lia).
  assert (Hisan : pinv p san) by (unfold pinv; lia).
  destruct (first_record p v SAnswer an _ sq san _ pf_packet pf_chain_an Hisan eq_refl
              Hlan (conj pf_han eq_refl) pf_oan) as (la & Hla & Hlla).
  destruct (first_record p v SNameServers ns _ san sns _ pf_packet pf_chain_ns Hisns eq_refl
              Hlns (conj pf_hns eq_refl) pf_ons) as (ln & Hln & Hlln).
  destruct (first_record p v SAdditional ar _ sns sar _ pf_packet pf_chain_ar Hisar eq_refl
              Hlar (conj pf_har eq_refl) pf_oar) as (lr & Hlr & Hllr).
  exists an, ns, ar, la, ln, lr. repeat split; assumption.
Qed.
