(** * The 32-bit flag word and the DNSSEC indicator (C04). *)
From DV Require Import Model.Base Model.Parser Model.Header Proofs.Hoare Proofs.HeaderBits.
From Coq Require Import ZifyBool ZifyNat ZifyN.
Local Open Scope N_scope.

(** Bits 0..15 of [flags()] are the header word with opcode and rcode masked out; bits 16.. are
    the EDNS extended flags. *)
Theorem flags_word_bits : forall w x i, w < 65536 ->
  N.testbit (w_flags w x) i =
  if i <? 16 then (if is_flag_bit i then N.testbit w i else false)
  else N.testbit (match x with Some v => v | None => 0 end) (i - 16).
Proof.
  intros w x i Hw. unfold w_flags, FLAGS_MASK. rewrite N.lor_spec, N.land_spec.
  destruct (N.ltb_spec i 16) as [Hlt|Hge].
  - rewrite N.shiftl_spec_low by exact Hlt. cbn [orb].
    destruct (lt16_cases i Hlt) as [E|[E|[E|[E|[E|[E|[E|[E|[E|[E|[E|[E|[E|[E|[E|E]]]]]]]]]]]]]]];
      subst i; bits_low.
  - rewrite N.shiftl_spec_high' by exact Hge.
    rewrite (testbit_high_false 34800 i) by lia. rewrite andb_false_r, orb_false_r. reflexivity.
Qed.

(** [dnssec()] is AD for responses and DO (bit 15 of the extended flags) for queries. *)
Theorem dnssec_bits : forall w x, w < 65536 ->
  f_dnssec (w_flags w x) =
  if N.testbit w 15 then N.testbit w 5
  else N.testbit (match x with Some v => v | None => 0 end) 15.
Proof.
  intros w x Hw. unfold f_dnssec.
  assert (Hbit : forall k f, (N.land f (2 ^ k) =? 0) = negb (N.testbit f k)).
  { intros k f. destruct (N.testbit f k) eqn:E.
    - cbn [negb]. apply N.eqb_neq. intros H0.
      assert (N.testbit (N.land f (2 ^ k)) k = true) as Ht by (rewrite N.land_spec, E, N.pow2_bits_true; reflexivity).
      rewrite H0, N.bits_0 in Ht. discriminate.
    - cbn [negb]. apply N.eqb_eq. apply N.bits_inj. intros j. rewrite N.land_spec, N.bits_0.
      destruct (N.eq_dec j k) as [->|Hne]; [rewrite E; reflexivity|].
      rewrite N.pow2_bits_false by (intro; subst; congruence). apply andb_false_r. }
  change 32768 with (2 ^ 15). change 2147483648 with (2 ^ 31). change 32 with (2 ^ 5).
  rewrite !Hbit. rewrite !(flags_word_bits w x) by exact Hw.
  cbn [N.ltb N.compare]. 
  replace (15 <? 16) with true by reflexivity. replace (5 <? 16) with true by reflexivity.
  replace (31 <? 16) with false by reflexivity.
  replace (is_flag_bit 15) with true by reflexivity. replace (is_flag_bit 5) with true by reflexivity.
  replace (31 - 16) with 15 by reflexivity.
  destruct (N.testbit w 15); cbn [negb]; destruct (N.testbit _ _); reflexivity.
Qed.
