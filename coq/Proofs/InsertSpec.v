(** * Appending well-formed pointer-free records to the sections of a pointer-free packet (C08, C09, C10).

    [plain_rr_ok rx]: the pointer-free encoding of the record [rx] is a well-formed non-OPT record
    wherever it is placed.  [extend_wf]: take an accepted packet that decompression leaves
    unchanged, append lists of such records at the end of its answer / authority / additional
    sections and set the three counts accordingly: the result is accepted again and reads as the
    same question and the old records followed by the new ones, section by section. *)

From DV Require Import Model.Base Model.NameCheck Model.Parser Model.Header Model.Readers Model.Uncompress Model.Mutate
  Spec.NameSpec Spec.PacketSpec Spec.RecordSpec Spec.PlainSpec Proofs.ListLemmas Proofs.Hoare Proofs.NameCheckTotal
  Proofs.ParserTotal Proofs.NameIff Proofs.ParserInv Proofs.ParseSound Proofs.ParseComplete Proofs.ReadersAgree Proofs.ReadersLabels
  Proofs.QuestionSpec Proofs.WalkValues Proofs.SetTtl Proofs.WalkSkip Proofs.UncompressFrame Proofs.UncompressSpec
  Proofs.PlainWf Proofs.InsertLemmas Proofs.EdnsFacts Proofs.EdnsPos Proofs.EdnsPlain.
From Coq Require Import ZifyBool ZifyNat ZifyN.

Definition plain_rr_ok (rx : rec_view * rd_view) : Prop :=
  is_opt (fst rx) = false /\ bytes_ok (plain_record rx) /\
  forall sec seen pre post,
    let q := pre ++ plain_record rx ++ post in
    let e := length pre + length (plain_record rx) in
    rr_wf q sec seen (length pre) e seen /\ record_at q (rv_at (fst rx) (snd rx) (length pre)) e /\
    rdata_at q (rv_at (fst rx) (snd rx) (length pre)) (snd rx).

Definition cat (lx : list (rec_view * rd_view)) : bytes := concat (map plain_record lx).

Lemma cat_app a b : cat (a ++ b) = cat a ++ cat b.
Proof. unfold cat. rewrite map_app, concat_app. reflexivity. Qed.

Lemma cat_cons rx l : cat (rx :: l) = plain_record rx ++ cat l.
Proof. reflexivity. Qed.

Lemma place_app : forall a o b, place o (a ++ b) = place o a ++ place (o + length (cat a)) b.
Proof.
  induction a as [|rx a IH]; intros o b; cbn [app place].
  - cbn. rewrite Nat.add_0_r. reflexivity.
  - rewrite IH, cat_cons, app_length. f_equal. f_equal. f_equal. lia.
Qed.

Lemma place_length : forall l o, length (place o l) = length l.
Proof. induction l as [|rx l IH]; intros o; cbn [place length]; [reflexivity|]. rewrite IH. reflexivity. Qed.

Lemma rrs_wf_app p sec : forall s0 a n b s1, rrs_wf p sec s0 a n b s1 -> forall m c s2, rrs_wf p sec s1 b m c s2 ->
  rrs_wf p sec s0 a (n + m) c s2.
Proof.
  induction 1 as [seen off|seen off off1 seen1 n off' seen' Hrr Hrest IH]; intros m c s2 H2; cbn [Nat.add]; [exact H2|].
  econstructor; [exact Hrr|apply IH; exact H2].
Qed.

(** ** new records in context *)
Lemma xs_ctx : forall X, Forall plain_rr_ok X -> forall sec seen pre post,
  let z := pre ++ cat X ++ post in
  rrs_wf z sec seen (length pre) (length X) (length pre + length (cat X)) seen /\
  records_at z (length pre) (map fst (place (length pre) X)) (length pre + length (cat X)) /\
  Forall (rd_ok z) (place (length pre) X) /\ bytes_ok (cat X) /\ forallb non_opt (map fst (place (length pre) X)) = true.
Proof.
  induction 1 as [|rx X Hrx HX IH]; intros sec seen pre post; cbv zeta.
  - cbn [cat map concat length place app]. rewrite Nat.add_0_r. repeat split; constructor.
  - destruct Hrx as (Hno & Hb & Hctx). rewrite cat_cons.
    destruct (Hctx sec seen pre (cat X ++ post)) as (W1 & R1 & X1).
    destruct (IH sec seen (pre ++ plain_record rx) post) as (W2 & R2 & X2 & B2 & N2).
    assert (Eq : (pre ++ plain_record rx) ++ cat X ++ post = pre ++ (plain_record rx ++ cat X) ++ post) by (rewrite <- !app_assoc; reflexivity).
    assert (Eq1 : pre ++ plain_record rx ++ cat X ++ post = pre ++ (plain_record rx ++ cat X) ++ post) by (rewrite <- !app_assoc; reflexivity).
    rewrite Eq in W2, R2, X2. rewrite Eq1 in W1, R1, X1. rewrite app_length in W2, R2, X2, N2.
    rewrite (app_length (plain_record rx)).
    replace (length pre + (length (plain_record rx) + length (cat X))) with (length pre + length (plain_record rx) + length (cat X)) by lia.
    cbn [length place map fst snd].
    split; [econstructor; [exact W1|exact W2]|].
    split; [change (length pre) with (rv_off (rv_at (fst rx) (snd rx) (length pre))) at 1; econstructor; [exact R1|exact R2]|].
    split; [constructor; [exact X1|exact X2]|]. split; [apply bytes_ok_app; assumption|].
    cbn [forallb]. rewrite N2. unfold non_opt, is_opt in *. cbn [rv_type rv_at]. rewrite Hno. reflexivity.
Qed.

(** ** The extension of a pointer-free accepted packet *)
Record sec_ctx (sec : section) (s0 s1 : bool) (A : list (rec_view * rd_view)) : Prop := {
  sc_ctx : forall pre post, let z := pre ++ cat A ++ post in
    rrs_wf z sec s0 (length pre) (length A) (length pre + length (cat A)) s1 /\
    records_at z (length pre) (map fst (place (length pre) A)) (length pre + length (cat A)) /\
    Forall (rd_ok z) (place (length pre) A);
  sc_bytes : bytes_ok (cat A)
}.

Lemma sec_ext sec s0 s1 A X : sec_ctx sec s0 s1 A -> Forall plain_rr_ok X -> sec_ctx sec s0 s1 (A ++ X).
Proof.
  intros [Hc Hb] HX. constructor.
  - intros pre post. cbv zeta. rewrite cat_app, app_length, place_app, map_app, app_length.
    destruct (Hc pre (cat X ++ post)) as (W1 & R1 & X1).
    destruct (xs_ctx X HX sec s1 (pre ++ cat A) post) as (W2 & R2 & X2 & _).
    assert (Eq : (pre ++ cat A) ++ cat X ++ post = pre ++ (cat A ++ cat X) ++ post) by (rewrite <- !app_assoc; reflexivity).
    assert (Eq1 : pre ++ cat A ++ cat X ++ post = pre ++ (cat A ++ cat X) ++ post) by (rewrite <- !app_assoc; reflexivity).
    rewrite Eq in W2, R2, X2. rewrite Eq1 in W1, R1, X1. rewrite app_length in W2, R2, X2.
    replace (length pre + (length (cat A) + length (cat X))) with (length pre + length (cat A) + length (cat X)) by lia.
    split; [eapply rrs_wf_app; eassumption|]. split; [eapply records_at_app; eassumption|]. apply Forall_app; split; assumption.
  - rewrite cat_app. apply bytes_ok_app; [exact Hb|]. destruct (xs_ctx X HX sec s1 [] []) as (_ & _ & _ & B & _). exact B.
Qed.

(** the pointer-free packet with the given header, question and sections *)
Definition build (H : bytes) (qls : list bytes) (qt : N) (A N_ R : list (rec_view * rd_view)) : bytes :=
  H ++ plain_question qls qt CLASS_IN ++ cat A ++ cat N_ ++ cat R.

Section Build.
  Variables (H : bytes) (qls : list bytes) (qt w : N) (A Nn R : list (rec_view * rd_view)) (s1 s2 s3 : bool).
  Hypothesis HH : length H = 12.
  Hypothesis HbH : bytes_ok H.
  Hypothesis Hw : u16_at H 2 w.
  Hypothesis Hqd : u16_at H 4 1%N.
  Hypothesis Han : u16_at H 6 (N.of_nat (length A)).
  Hypothesis Hns : u16_at H 8 (N.of_nat (length Nn)).
  Hypothesis Har : u16_at H 10 (N.of_nat (length R)).
  Hypothesis Hgate : N.land w 32768 <> 32768%N -> length A = 0 /\ length Nn = 0.
  Hypothesis Hqok : Forall label_ok qls.
  Hypothesis Hq255 : length (wire_of_labels qls) <= 255.
  Hypothesis Hqb : bytes_ok (wire_of_labels qls).
  Hypothesis Hqt : (qt < 65536)%N.
  Hypothesis CA : sec_ctx SAnswer false s1 A.
  Hypothesis CN : sec_ctx SNameServers s1 s2 Nn.
  Hypothesis CR : sec_ctx SAdditional s2 s3 R.

  Let W := wire_of_labels qls.
  Let q := build H qls qt A Nn R.
  Let o1 := 12 + length W + 4.
  Let o2 := o1 + length (cat A).
  Let o3 := o2 + length (cat Nn).

  Lemma u16_at_head (rest : bytes) i x : i + 1 < 12 -> u16_at H i x -> u16_at (H ++ rest) i x.
  Proof.
    intros Hi (a & b & Ha & Hb & E). exists a, b. rewrite !nth_error_app1 by lia. auto.
  Qed.

  Theorem build_wf :
    bytes_ok q /\ wf_packet q /\ length q = o3 + length (cat R) /\
    reading q qls qt (place o1 A) (place o2 Nn) (place o3 R).
  Proof.
    unfold q, build, plain_question. fold W.
    set (Qb := W ++ be16_bytes qt ++ be16_bytes CLASS_IN).
    destruct CA as [Hca Hba]. destruct CN as [Hcn Hbn]. destruct CR as [Hcr Hbr].
    destruct (Hca (H ++ Qb) (cat Nn ++ cat R)) as (Wa & Ra & Xa).
    destruct (Hcn (H ++ Qb ++ cat A) (cat R)) as (Wn & Rn & Xn).
    destruct (Hcr (H ++ Qb ++ cat A ++ cat Nn) []) as (Wr & Rr & Xr).
    set (z := H ++ Qb ++ cat A ++ cat Nn ++ cat R).
    assert (Q1 : (H ++ Qb) ++ cat A ++ cat Nn ++ cat R = z) by (unfold z; rewrite <- !app_assoc; reflexivity).
    assert (Q2 : (H ++ Qb ++ cat A) ++ cat Nn ++ cat R = z) by (unfold z; rewrite <- !app_assoc; reflexivity).
    assert (Q3 : (H ++ Qb ++ cat A ++ cat Nn) ++ cat R ++ [] = z) by (unfold z; rewrite app_nil_r, <- !app_assoc; reflexivity).
    rewrite Q1 in Wa, Ra, Xa. rewrite Q2 in Wn, Rn, Xn. rewrite Q3 in Wr, Rr, Xr.
    assert (LQ : length Qb = length W + 4) by (unfold Qb; rewrite !app_length; cbn [length be16_bytes]; lia).
    assert (L1 : length (H ++ Qb) = o1) by (rewrite app_length, HH, LQ; unfold o1; lia).
    assert (L2 : length (H ++ Qb ++ cat A) = o2) by (rewrite !app_length, HH, LQ; unfold o2, o1; lia).
    assert (L3 : length (H ++ Qb ++ cat A ++ cat Nn) = o3) by (rewrite !app_length, HH, LQ; unfold o3, o2, o1; lia).
    assert (Lz : length z = o3 + length (cat R)) by (unfold z; rewrite !app_length, HH, LQ; unfold o3, o2, o1; lia).
    rewrite L1 in Wa, Ra, Xa. rewrite L2 in Wn, Rn, Xn. rewrite L3 in Wr, Rr, Xr.
    fold o2 in Wa, Ra. fold o3 in Wn, Rn. rewrite <- Lz in Wr, Rr.
    assert (Cq : cname_l z 12 qls (12 + length W)).
    { unfold z, Qb. rewrite <- !app_assoc. rewrite <- HH. apply cname_l_mid; assumption. }
    assert (Tq : u16_at z (12 + length W) qt).
    { replace z with ((H ++ W) ++ be16_bytes qt ++ (be16_bytes CLASS_IN ++ cat A ++ cat Nn ++ cat R)) by (unfold z, Qb; rewrite <- !app_assoc; reflexivity).
      replace (12 + length W) with (length (H ++ W)) by (rewrite app_length; lia). apply u16_at_mid. exact Hqt. }
    assert (Clq : u16_at z (12 + length W + 2) CLASS_IN).
    { replace z with ((H ++ W ++ be16_bytes qt) ++ be16_bytes CLASS_IN ++ (cat A ++ cat Nn ++ cat R)) by (unfold z, Qb; rewrite <- !app_assoc; reflexivity).
      replace (12 + length W + 2) with (length (H ++ W ++ be16_bytes qt)) by (rewrite !app_length; cbn [length be16_bytes]; lia).
      apply u16_at_mid. reflexivity. }
    split.
    { unfold z, Qb. apply bytes_ok_app; [exact HbH|]. apply bytes_ok_app; [apply bytes_ok_app; [exact Hqb|apply bytes_ok_app; apply bytes_ok_be16]|].
      apply bytes_ok_app; [exact Hba|apply bytes_ok_app; assumption]. }
    split.
    { exists w, (N.of_nat (length A)), (N.of_nat (length Nn)), (N.of_nat (length R)), (12 + length W), CLASS_IN, o2, s1, o3, s2, s3.
      split; [apply u16_at_head; [lia|exact Hw]|]. split; [apply u16_at_head; [lia|exact Hqd]|].
      split; [apply u16_at_head; [lia|exact Han]|]. split; [apply u16_at_head; [lia|exact Hns]|].
      split; [apply u16_at_head; [lia|exact Har]|].
      split; [exists qls; exact Cq|]. split; [unfold o3, o2, o1 in Lz; lia|]. split; [exact Clq|]. split; [reflexivity|].
      split; [intros Hg; destruct (Hgate Hg); lia|].
      rewrite !Nat2N.id. fold o1. split; [exact Wa|]. split; [exact Wn|exact Wr]. }
    split; [exact Lz|].
    constructor.
    - exists (12 + length W), o2, o3. fold o1.
      split; [exact Cq|]. split; [exact Tq|]. split; [exact Clq|]. split; [unfold o3, o2, o1 in Lz; lia|].
      split; [exact Ra|]. split; [exact Rn|exact Rr].
    - apply Forall_app; split; [exact Xa|apply Forall_app; split; assumption].
    - unfold hdr_ancount. apply be16_at_u16. rewrite place_length. apply u16_at_head; [lia|exact Han].
    - unfold hdr_nscount. apply be16_at_u16. rewrite place_length. apply u16_at_head; [lia|exact Hns].
    - unfold hdr_arcount. apply be16_at_u16. rewrite place_length. apply u16_at_head; [lia|exact Har].
  Qed.
End Build.

(** ** An accepted packet that decompression leaves unchanged, as a [build] *)
Lemma u16_at_firstn (p : bytes) n i x : i + 1 < n -> u16_at p i x -> u16_at (firstn n p) i x.
Proof. intros Hi (a & b & Ha & Hb & E). exists a, b. rewrite !nth_error_firstn by lia. auto. Qed.

Lemma sec_ctx_of_wf q sec s0 off n off' s1 : bytes_ok q -> rrs_wf q sec s0 off n off' s1 ->
  exists lx, records_at q off (map fst lx) off' /\ length lx = n /\ Forall (rd_ok q) lx /\ sec_ctx sec s0 s1 lx.
Proof.
  intros Hb Hwf. destruct (rrs_plain q Hb sec _ _ _ _ _ Hwf) as (lx & Hl & Hlen & Hx & Hbc & Hctx).
  exists lx. split; [exact Hl|]. split; [exact Hlen|]. split; [exact Hx|]. constructor; [|exact Hbc].
  intros pre post. cbv zeta. unfold cat. destruct (Hctx pre post) as (W & lx' & R' & X' & _ & _ & _ & ->). rewrite Hlen. auto.
Qed.

Record plain_parts (q : bytes) (w : N) (qls : list bytes) (qt : N) (A Nn R : list (rec_view * rd_view)) (s1 s2 s3 : bool) : Prop := {
  pp_eq : q = build (firstn 12 q) qls qt A Nn R;
  pp_len : 12 <= length q;
  pp_w : u16_at q 2 w; pp_qd : u16_at q 4 1%N;
  pp_an : u16_at q 6 (N.of_nat (length A)); pp_ns : u16_at q 8 (N.of_nat (length Nn)); pp_ar : u16_at q 10 (N.of_nat (length R));
  pp_gate : N.land w 32768 <> 32768%N -> length A = 0 /\ length Nn = 0;
  pp_qok : Forall label_ok qls; pp_q255 : length (wire_of_labels qls) <= 255; pp_qb : bytes_ok (wire_of_labels qls);
  pp_qt : (qt < 65536)%N;
  pp_ca : sec_ctx SAnswer false s1 A; pp_cn : sec_ctx SNameServers s1 s2 Nn; pp_cr : sec_ctx SAdditional s2 s3 R
}.

Lemma plain_parts_of q v' : bytes_ok q -> parse q = Ok v' -> uncompress q = Ok q ->
  exists w qls qt A Nn R s1 s2 s3, plain_parts q w qls qt A Nn R s1 s2 s3.
Proof.
  intros Hb Hp Hu.
  destruct (parse_sound q v' Hb Hp) as (w & an & ns & ar & qe & qclass & e1 & s1 & e2 & s2 & s3 & Hw & Hqd & Han & Hns & Har & (qls0 & Hqn) & Hq4 & Hqc & Hcls & Hgate & Hc1 & Hc2 & Hc3).
  destruct (sec_ctx_of_wf q _ _ _ _ _ _ Hb Hc1) as (A & Hla & Hlla & Hxa & CA).
  destruct (sec_ctx_of_wf q _ _ _ _ _ _ Hb Hc2) as (Nn & Hln & Hlln & Hxn & CN).
  destruct (sec_ctx_of_wf q _ _ _ _ _ _ Hb Hc3) as (R & Hlr & Hllr & Hxr & CR).
  destruct (uncompress_reading q v' Hb Hp) as (qls & qt & la & ln & lr & [(qe1 & f1 & f2 & Hcn1 & Hqt1 & _ & _ & Ra & Rn & Rr) Hx1 Han1 Hns1 Har1] & Hu1).
  destruct (cname_l_fun _ _ _ _ _ _ Hqn Hcn1) as [<- <-].
  assert (Ep : q = plain_packet_of q qls0 qt la ln lr) by congruence. clear Hu1.
  apply Forall_app in Hx1. destruct Hx1 as [Hxa1 Hx1]. apply Forall_app in Hx1. destruct Hx1 as [Hxn1 Hxr1].
  unfold hdr_ancount in Han1. unfold hdr_nscount in Hns1. unfold hdr_arcount in Har1.
  apply be16_at_u16 in Han1. apply be16_at_u16 in Hns1. apply be16_at_u16 in Har1.
  pose proof (u16_at_fun _ _ _ _ Han Han1) as Ean. pose proof (u16_at_fun _ _ _ _ Hns Hns1) as Ens. pose proof (u16_at_fun _ _ _ _ Har Har1) as Ear.
  destruct (readings_fun q _ _ _ Hla Hxa _ _ Ra Hxa1 ltac:(lia)) as [<- <-].
  destruct (readings_fun q _ _ _ Hln Hxn _ _ Rn Hxn1 ltac:(lia)) as [<- <-].
  destruct (readings_fun q _ _ _ Hlr Hxr _ _ Rr Hxr1 ltac:(lia)) as [<- _].
  exists w, qls0, qt, A, Nn, R, s1, s2, s3.
  assert (H12 : 12 < length q) by (destruct Hqn; lia).
  constructor.
  - rewrite Ep at 1. unfold plain_packet_of, build, cat. rewrite !map_app, !concat_app. reflexivity.
  - lia.
  - exact Hw.
  - exact Hqd.
  - exact Han1.
  - exact Hns1.
  - exact Har1.
  - intros Hg. destruct (Hgate Hg) as [E1 E2]. lia.
  - destruct Hqn as [_ Hna]. eapply name_at_labels_ok; exact Hna.
  - eapply wire_length_le; exact Hqn.
  - eapply bytes_ok_wire_of; eauto.
  - eapply u16_lt; eauto.
  - exact CA.
  - exact CN.
  - exact CR.
Qed.

Lemma plain_record_length rx : length (plain_record rx) = length (wire_of_labels (rv_labels (fst rx))) + 10 + length (plain_rdata (snd rx)).
Proof. destruct rx as [r x]. unfold plain_record. cbn [fst snd]. rewrite !app_length. cbn [length be16_bytes be32_bytes]. lia. Qed.

Lemma place_end q : forall lx o e, records_at q o (map fst (place o lx)) e -> e = o + length (cat lx).
Proof.
  induction lx as [|rx lx IH]; intros o e H; cbn [place map fst] in H.
  - inversion H; subst. cbn. lia.
  - destruct (records_cons_inv q _ _ _ _ H) as (_ & _ & Hrest).
    unfold rv_end in Hrest. cbn [rv_at rv_name_end rv_rdlen] in Hrest.
    replace (o + length (wire_of_labels (rv_labels (fst rx))) + 10 + length (plain_rdata (snd rx))) with (o + length (plain_record rx)) in Hrest
      by (rewrite plain_record_length; lia).
    rewrite (IH _ _ Hrest), cat_cons, app_length. lia.
Qed.

(** ** Offsets of an accepted [build] *)
Lemma parts_build_wf q w qls qt A Nn R s1 s2 s3 : bytes_ok q -> plain_parts q w qls qt A Nn R s1 s2 s3 ->
  let o1 := 12 + length (wire_of_labels qls) + 4 in
  let o2 := o1 + length (cat A) in
  let o3 := o2 + length (cat Nn) in
  length q = o3 + length (cat R) /\ reading q qls qt (place o1 A) (place o2 Nn) (place o3 R).
Proof.
  intros Hb P. destruct P. cbv zeta.
  assert (HH : length (firstn 12 q) = 12) by (rewrite firstn_length; lia).
  destruct (build_wf (firstn 12 q) qls qt w A Nn R s1 s2 s3 HH (Forall_firstn _ _ _ Hb)
              (u16_at_firstn q 12 2 _ ltac:(lia) pp_w0) (u16_at_firstn q 12 4 _ ltac:(lia) pp_qd0)
              (u16_at_firstn q 12 6 _ ltac:(lia) pp_an0) (u16_at_firstn q 12 8 _ ltac:(lia) pp_ns0)
              (u16_at_firstn q 12 10 _ ltac:(lia) pp_ar0) pp_gate0 pp_qok0 pp_q256 pp_qb0 pp_qt0 pp_ca0 pp_cn0 pp_cr0) as (_ & _ & L & Rd).
  rewrite <- pp_eq0 in L, Rd. auto.
Qed.

Lemma parse_offsets q f w qls qt A Nn R s1 s2 s3 : bytes_ok q -> parse q = Ok f -> plain_parts q w qls qt A Nn R s1 s2 s3 ->
  let o1 := 12 + length (wire_of_labels qls) + 4 in
  let o2 := o1 + length (cat A) in
  let o3 := o2 + length (cat Nn) in
  pp_offset_answers f = (if 0 <? length A then Some o1 else None) /\
  pp_offset_nameservers f = (if 0 <? length Nn then Some o2 else None) /\
  pp_offset_additional f = (if 0 <? length R then Some o3 else None).
Proof.
  intros Hb Hp P. cbv zeta. destruct (parts_build_wf q w qls qt A Nn R s1 s2 s3 Hb P) as (Lq & [(qe0 & f1 & f2 & Hcn0 & _ & _ & _ & Ra & Rn & Rr) _ Han0 Hns0 Har0]).
  destruct (parse_view q f Hb Hp) as (an & ns & ar & qe & e1 & t1 & e2 & t2 & t3 & Hpk & (ls & Hqn) & Hq4 & Han & Hns & Har &
                                      Hlan & Hlns & Hlar & Hc1 & Hc2 & Hc3 & Hoan & Hons & Hoar).
  rewrite Han0 in Han. rewrite Hns0 in Hns. rewrite Har0 in Har. inversion Han; inversion Hns; inversion Har; subst an ns ar.
  rewrite !place_length in *.
  assert (Eq0 : qe0 = 12 + length (wire_of_labels qls)).
  { destruct P. pose proof (cname_l_mid qls (firstn 12 q) ((be16_bytes qt ++ be16_bytes CLASS_IN) ++ cat A ++ cat Nn ++ cat R) pp_qok0 pp_q256) as Hm.
    rewrite firstn_length in Hm. replace (Init.Nat.min 12 (length q)) with 12 in Hm by lia.
    assert (Eb : firstn 12 q ++ wire_of_labels qls ++ (be16_bytes qt ++ be16_bytes CLASS_IN) ++ cat A ++ cat Nn ++ cat R = q).
    { symmetry. etransitivity; [exact pp_eq0|]. unfold build, plain_question. rewrite <- !app_assoc. reflexivity. }
    rewrite Eb in Hm. destruct (cname_l_fun _ _ _ _ _ _ Hcn0 Hm) as [_ ->]. reflexivity. }
  destruct (cname_l_fun _ _ _ _ _ _ Hcn0 Hqn) as [_ <-]. rewrite Eq0 in *.
  pose proof (place_end q _ _ _ Ra) as E1. subst f1.
  pose proof (place_end q _ _ _ Rn) as E2. subst f2.
  destruct (rrs_wf_records _ _ _ _ _ _ _ Hc1) as (l1 & Hl1 & Hn1 & _).
  destruct (records_at_fun q _ _ _ Hl1 _ _ Ra ltac:(rewrite map_length, place_length; lia)) as [_ ->].
  destruct (rrs_wf_records _ _ _ _ _ _ _ Hc2) as (l2 & Hl2 & Hn2 & _).
  destruct (records_at_fun q _ _ _ Hl2 _ _ Rn ltac:(rewrite map_length, place_length; lia)) as [_ ->].
  rewrite Hoan, Hons, Hoar.
  split; [destruct (length A); [reflexivity|cbn; destruct (N.of_nat _); reflexivity]|].
  split; [destruct (length Nn); [reflexivity|cbn; destruct (N.of_nat _); reflexivity]|destruct (length R); [reflexivity|cbn; destruct (N.of_nat _); reflexivity]].
Qed.

(** ** The record count and the splice of [insert_rr] *)
Lemma write_at_nth p off wv site p' : write_at p off wv site = Ok p' ->
  forall i, i < off \/ off + length wv <= i -> nth_error p' i = nth_error p i.
Proof.
  unfold write_at. destruct (off + length wv <=? length p) eqn:E; [|discriminate]. intros H i Hi. inversion H; subst p'. clear H.
  destruct Hi as [Hi|Hi].
  - rewrite nth_error_app1 by (rewrite firstn_length; lia). apply nth_error_firstn. exact Hi.
  - rewrite nth_error_app2 by (rewrite firstn_length; lia). rewrite firstn_length. replace (Init.Nat.min off (length p)) with off by lia.
    rewrite nth_error_app2 by lia. rewrite nth_error_skipn. f_equal. lia.
Qed.

Lemma write_at_u16 p off x site p' : write_at p off (be16_bytes x) site = Ok p' -> (x < 65536)%N -> u16_at p' off x.
Proof.
  unfold write_at. destruct (off + length (be16_bytes x) <=? length p) eqn:E; [|discriminate]. intros H Hx. injection H as <-.
  assert (L : length (firstn off p) = off) by (rewrite firstn_length; cbn [length be16_bytes] in E; lia).
  pose proof (u16_at_mid (firstn off p) x (skipn (off + length (be16_bytes x)) p) Hx) as U. rewrite L in U. exact U.
Qed.

Lemma u16_at_same (p p' : bytes) i x : nth_error p' i = nth_error p i -> nth_error p' (i + 1) = nth_error p (i + 1) -> u16_at p i x -> u16_at p' i x.
Proof. intros E1 E2 (a & b & Ha & Hb & E). exists a, b. rewrite E1, E2. auto. Qed.

Definition sec_co (sec : section) : nat := match sec with SAnswer => 6 | SNameServers => 8 | _ => 10 end.

Lemma rrcount_inc_facts q sec p1 : rrcount_inc q sec = Ok p1 -> sec = SAnswer \/ sec = SNameServers \/ sec = SAdditional ->
  exists c, u16_at q (sec_co sec) c /\ u16_at p1 (sec_co sec) (c + 1) /\ length p1 = length q /\
            (forall i, i < sec_co sec \/ sec_co sec + 2 <= i -> nth_error p1 i = nth_error q i) /\
            (bytes_ok q -> bytes_ok p1).
Proof.
  intros H Hsec. pose proof (rrcount_inc_length _ _ _ H) as Hlen. unfold rrcount_inc in H.
  assert (Hco : count_offset sec = Ok (sec_co sec)) by (destruct Hsec as [->|[->| ->]]; reflexivity).
  rewrite Hco in H. cbn [bind] in H.
  destruct (be16_at q (sec_co sec) 612) as [c| |] eqn:Ec; cbn [bind] in H; try discriminate.
  assert (Hq : section_eqb sec SQuestion = false) by (destruct Hsec as [->|[->| ->]]; reflexivity).
  rewrite Hq in H. cbn [andb] in H. destruct (65535 <=? c)%N eqn:E; [discriminate|].
  exists c. split; [apply be16_at_u16 in Ec; exact Ec|]. split; [eapply write_at_u16; [exact H|lia]|]. split; [exact Hlen|].
  split; [intros i Hi; eapply write_at_nth; [exact H|]; cbn [length be16_bytes]; exact Hi|].
  intros Hb. unfold write_at in H. destruct (sec_co sec + length (be16_bytes (c + 1)) <=? length q); [|discriminate].
  injection H as <-. apply bytes_ok_app; [apply Forall_firstn; exact Hb|].
  change (bytes_ok (be16_bytes (c + 1) ++ skipn (sec_co sec + 2) q)). apply bytes_ok_app; [apply bytes_ok_be16|apply Forall_skipn; exact Hb].
Qed.

Lemma firstn_app_exact {A} (a b : list A) : firstn (length a) (a ++ b) = a.
Proof. rewrite firstn_app, firstn_all, Nat.sub_diag. cbn. apply app_nil_r. Qed.

Lemma skipn_app_exact {A} (a b : list A) : skipn (length a) (a ++ b) = b.
Proof. rewrite skipn_app, skipn_all, Nat.sub_diag. reflexivity. Qed.

Lemma list_eq_nth {A} : forall (a b : list A), length a = length b -> (forall i, i < length a -> nth_error a i = nth_error b i) -> a = b.
Proof.
  induction a as [|x a IH]; intros [|y b] Hl H; try discriminate; [reflexivity|].
  pose proof (H 0 ltac:(cbn; lia)) as H0. cbn in H0. inversion H0; subst. f_equal. apply IH; [cbn in Hl; lia|].
  intros i Hi. apply (H (S i)). cbn. lia.
Qed.

(** ** The view after the insertion is the view of a fresh parse (C08) *)
Lemma insert_core_view sec rr v it s' : insert_core sec rr (v, it) = (s', Ok tt) ->
  exists p1 ins, rrcount_inc (pp_packet v) sec = Ok p1 /\ insertion_offset v sec = Ok ins /\
    let p2 := firstn ins p1 ++ rr ++ skipn ins p1 in
    let rl := length rr in
    match sec with
    | SAnswer => fst s' = pp_update v p2 (pp_offset_question v) (opt_or (pp_offset_answers v) (Some ins))
                                    (omap_add (pp_offset_nameservers v) rl) (omap_add (pp_offset_additional v) rl)
                                    (omap_add (pp_offset_edns v) rl) (pp_maybe_compressed v) (pp_cached v)
    | SNameServers => fst s' = pp_update v p2 (pp_offset_question v) (pp_offset_answers v)
                                    (opt_or (pp_offset_nameservers v) (Some ins)) (omap_add (pp_offset_additional v) rl)
                                    (omap_add (pp_offset_edns v) rl) (pp_maybe_compressed v) (pp_cached v)
    | SAdditional => fst s' = pp_update v p2 (pp_offset_question v) (pp_offset_answers v) (pp_offset_nameservers v)
                                    (opt_or (pp_offset_additional v) (Some ins)) (pp_offset_edns v) (pp_maybe_compressed v) (pp_cached v)
    | _ => True
    end.
Proof.
  unfold insert_core, cbind, getv, clift, putv. cbn [fst snd].
  destruct ((DNS_MAX_UNCOMPRESSED_SIZE <? length (pp_packet v))
            || (DNS_MAX_UNCOMPRESSED_SIZE - length (pp_packet v) <? length rr)) eqn:Esz; [intros H; inversion H|].
  destruct (rrcount_inc (pp_packet v) sec) as [p1| |] eqn:Ec; try (intros H; inversion H; fail).
  destruct (insertion_offset v sec) as [ins| |] eqn:Ei; try (intros H; inversion H; fail).
  destruct (length p1 <? ins) eqn:El; [intros H; inversion H|].
  destruct sec; intros H; inversion H; subst; exists p1, ins; cbn [fst]; auto.
Qed.

(** the first OPT record of a list, with its distance from the start of the list's encoding *)
Fixpoint opt_rel (l : list (rec_view * rd_view)) : option (nat * (rec_view * rd_view)) :=
  match l with
  | [] => None
  | rx :: l' => if is_opt (fst rx) then Some (0, rx)
                else match opt_rel l' with Some (k, y) => Some (length (plain_record rx) + k, y) | None => None end
  end.

Definition nonopt_list (l : list (rec_view * rd_view)) : Prop := Forall (fun rx => is_opt (fst rx) = false) l.

Lemma is_opt_rv_at r x o : is_opt (rv_at r x o) = is_opt r.
Proof. reflexivity. Qed.

Lemma find_place : forall l o, find is_opt (map fst (place o l)) =
  match opt_rel l with Some (k, y) => Some (rv_at (fst y) (snd y) (o + k)) | None => None end.
Proof.
  induction l as [|rx l IH]; intros o; cbn [place map fst find opt_rel]; [reflexivity|].
  rewrite is_opt_rv_at. destruct (is_opt (fst rx)); [rewrite Nat.add_0_r; reflexivity|].
  rewrite IH. destruct (opt_rel l) as [[k y]|]; [|reflexivity]. f_equal. f_equal. lia.
Qed.

Lemma opt_rel_nonopt l : nonopt_list l -> opt_rel l = None.
Proof. induction 1 as [|rx l Hrx Hl IH]; cbn [opt_rel]; [reflexivity|]. rewrite Hrx, IH. reflexivity. Qed.

Lemma opt_rel_app_nonopt l X : nonopt_list X -> opt_rel (l ++ X) = opt_rel l.
Proof.
  intros HX. induction l as [|rx l IH]; cbn [app opt_rel]; [apply opt_rel_nonopt; exact HX|].
  destruct (is_opt (fst rx)); [reflexivity|]. rewrite IH. reflexivity.
Qed.

Lemma opt_rel_in : forall l o k y, opt_rel l = Some (k, y) ->
  In (rv_at (fst y) (snd y) (o + k), snd y) (place o l) /\ is_opt (fst y) = true.
Proof.
  induction l as [|rx l IH]; intros o k y H; cbn [opt_rel] in H; [discriminate|]. cbn [place].
  destruct (is_opt (fst rx)) eqn:E.
  - inversion H; subst. rewrite Nat.add_0_r. split; [left; reflexivity|exact E].
  - destruct (opt_rel l) as [[k' y']|] eqn:E'; [|discriminate]. inversion H; subst.
    destruct (IH (o + length (plain_record rx)) k' y eq_refl) as [Hin Ho]. split; [|exact Ho].
    right. replace (o + (length (plain_record rx) + k')) with (o + length (plain_record rx) + k') by lia. exact Hin.
Qed.

Lemma nonopt_of_placed : forall A o, forallb non_opt (map fst (place o A)) = true -> nonopt_list A.
Proof.
  induction A as [|rx A IH]; intros o Hno; [constructor|].
  cbn [place map fst forallb] in Hno. apply andb_true_iff in Hno. destruct Hno as [H1 H2].
  constructor; [unfold non_opt in H1; rewrite is_opt_rv_at in H1; destruct (is_opt (fst rx)); [discriminate|reflexivity]|].
  eapply IH. exact H2.
Qed.

Lemma ctx_nonopt sec s0 s1 A : sec_ctx sec s0 s1 A -> sec <> SAdditional -> nonopt_list A.
Proof.
  intros [Hc _] Hsec. destruct (Hc [] []) as (W & R' & _). cbn [app length Nat.add] in W, R'.
  destruct (rrs_wf_records _ _ _ _ _ _ _ W) as (l & Hl & Hn & _ & Hno & _). specialize (Hno Hsec).
  destruct (records_at_fun _ _ _ _ Hl _ _ R' ltac:(rewrite map_length, place_length; lia)) as [-> _].
  eapply nonopt_of_placed. exact Hno.
Qed.

(** two accepted packets whose OPT records carry the same class, TTL and data have the same EDNS summary *)
Lemma summary_same_opt z1 f1 z2 f2 r1 r2 e1 e2 x : bytes_ok z1 -> bytes_ok z2 ->
  summary_of z1 (Some r1) f1 -> summary_of z2 (Some r2) f2 ->
  record_at z1 r1 e1 -> record_at z2 r2 e2 -> rdata_at z1 r1 x -> rdata_at z2 r2 x -> is_opt r1 = true -> is_opt r2 = true ->
  rv_class r2 = rv_class r1 -> rv_ttl r2 = rv_ttl r1 ->
  pp_edns_count f2 = pp_edns_count f1 /\ pp_ext_rcode f2 = pp_ext_rcode f1 /\ pp_edns_version f2 = pp_edns_version f1 /\
  pp_ext_flags f2 = pp_ext_flags f1 /\ pp_max_payload f2 = pp_max_payload f1.
Proof.
  intros Hb1 Hb2 S S' Hr Hr' Hx Hx' Eo Eo' Ecl Ettl. cbn [summary_of] in S, S'.
  destruct S as (_ & _ & Hmp & (n & Ht & Hc) & rc & ver & xf & Erc & Ever & Exf & L1 & L2 & L3 & Ettl1).
  destruct S' as (_ & _ & Hmp' & (n' & Ht' & Hc') & rc' & ver' & xf' & Erc' & Ever' & Exf' & L1' & L2' & L3' & Ettl1').
  rewrite Ettl, Ettl1 in Ettl1'.
  assert (rc' = rc /\ ver' = ver /\ xf' = xf) as (-> & -> & ->) by lia.
  unfold is_opt in Eo, Eo'. apply N.eqb_eq in Eo. apply N.eqb_eq in Eo'.
  assert (Hraw : x = RdRaw (rdata_of z1 r1) /\ x = RdRaw (rdata_of z2 r2)).
  { destruct x as [ls|pf ls|l1 l2 tl|b]; cbn [rdata_at] in Hx, Hx'.
    - destruct Hx as [Hnt _]. rewrite Eo in Hnt. discriminate.
    - destruct Hx as (_ & Hmx & _). rewrite Eo in Hmx. discriminate.
    - destruct Hx as (_ & Hsoa & _). rewrite Eo in Hsoa. discriminate.
    - destruct Hx as (_ & _ & _ & ->). destruct Hx' as (_ & _ & _ & E). split; [reflexivity|f_equal; exact E]. }
  destruct Hraw as [-> Eraw]. inversion Eraw as [Ebytes]. clear Eraw.
  pose proof (record_at_end _ _ _ Hr) as (He & _ & Hle). pose proof (record_at_end _ _ _ Hr') as (He' & _ & Hle').
  unfold rv_end in He, He'.
  assert (Elen : rv_rdlen r2 = rv_rdlen r1).
  { apply (f_equal (@length _)) in Ebytes. unfold rdata_of in Ebytes. rewrite !firstn_length, !skipn_length in Ebytes. lia. }
  unfold rdata_of in Ebytes. rewrite Elen in Ebytes, Ht'.
  pose proof (opts_tile_move z1 z2 _ _ _ Ht (rv_name_end r2 + 10)) as Hmv.
  replace (rv_name_end r2 + 10 + (rv_name_end r1 + 10 + rv_rdlen r1 - (rv_name_end r1 + 10))) with (rv_name_end r2 + 10 + rv_rdlen r1) in Hmv by lia.
  assert (Hn : n = n').
  { eapply opts_tile_fun; [apply Hmv|exact Ht'].
    intros j Hj. apply (seg_agree z1 z2 _ _ (rv_rdlen r1)); [lia|lia|exact Ebytes|lia]. }
  subst n'. repeat split; congruence.
Qed.

Lemma build_summary q f w qls qt A Nn R s1 s2 s3 : bytes_ok q -> parse q = Ok f -> plain_parts q w qls qt A Nn R s1 s2 s3 ->
  let o3 := 12 + length (wire_of_labels qls) + 4 + length (cat A) + length (cat Nn) in
  summary_of q (match opt_rel R with Some (k, y) => Some (rv_at (fst y) (snd y) (o3 + k)) | None => None end) f /\
  forall k y, opt_rel R = Some (k, y) ->
    is_opt (fst y) = true /\ rdata_at q (rv_at (fst y) (snd y) (o3 + k)) (snd y) /\ exists e, record_at q (rv_at (fst y) (snd y) (o3 + k)) e.
Proof.
  intros Hb Hp P. cbv zeta.
  destruct (parts_build_wf q w qls qt A Nn R s1 s2 s3 Hb P) as (_ & Rq).
  destruct (parse_summary q f Hb Hp) as (an & ns & ar & qe & e1 & e2 & la & ln & lr & _ & Hcn & Han & Hns & Har &
    Hla & Hlla & Hln & Hlln & Hlr & Hllr & S).
  rewrite (reading_records _ _ _ _ _ _ Rq _ _ _ _ _ _ _ _ _ Hcn Han Hns Har Hla Hlla Hln Hlln Hlr Hllr) in S.
  rewrite !map_app, !find_app, !find_place in S.
  rewrite (opt_rel_nonopt A (ctx_nonopt _ _ _ _ (pp_ca _ _ _ _ _ _ _ _ _ _ P) ltac:(discriminate))) in S.
  rewrite (opt_rel_nonopt Nn (ctx_nonopt _ _ _ _ (pp_cn _ _ _ _ _ _ _ _ _ _ P) ltac:(discriminate))) in S.
  split; [exact S|]. intros k y Hy.
  destruct (opt_rel_in R (12 + length (wire_of_labels qls) + 4 + length (cat A) + length (cat Nn)) k y Hy) as [Hin Ho]. split; [exact Ho|].
  apply (reading_record_in _ _ _ _ _ _ Rq). apply in_or_app. right. apply in_or_app. right. exact Hin.
Qed.

Lemma u16_at_head0 (H rest : bytes) i x : length H = 12 -> i + 1 < 12 -> u16_at H i x -> u16_at (H ++ rest) i x.
Proof. intros HH Hi (a & b & Ha & Hb & E). exists a, b. rewrite !nth_error_app1 by lia. auto. Qed.

Lemma build_parts H qls qt w A Nn R s1 s2 s3 : length H = 12 ->
  u16_at H 2 w -> u16_at H 4 1%N -> u16_at H 6 (N.of_nat (length A)) -> u16_at H 8 (N.of_nat (length Nn)) -> u16_at H 10 (N.of_nat (length R)) ->
  (N.land w 32768 <> 32768%N -> length A = 0 /\ length Nn = 0) -> Forall label_ok qls -> length (wire_of_labels qls) <= 255 ->
  bytes_ok (wire_of_labels qls) -> (qt < 65536)%N -> sec_ctx SAnswer false s1 A -> sec_ctx SNameServers s1 s2 Nn -> sec_ctx SAdditional s2 s3 R ->
  plain_parts (build H qls qt A Nn R) w qls qt A Nn R s1 s2 s3.
Proof.
  intros HH Hw Hqd Han Hns Har Hg Hok H255 Hqb Hqt CA CN CR.
  assert (EH : firstn 12 (build H qls qt A Nn R) = H) by (unfold build; rewrite <- HH; apply firstn_app_exact).
  constructor; try assumption.
  - rewrite EH. reflexivity.
  - unfold build. rewrite app_length. lia.
  - unfold build. apply u16_at_head0; [exact HH|lia|exact Hw].
  - unfold build. apply u16_at_head0; [exact HH|lia|exact Hqd].
  - unfold build. apply u16_at_head0; [exact HH|lia|exact Han].
  - unfold build. apply u16_at_head0; [exact HH|lia|exact Hns].
  - unfold build. apply u16_at_head0; [exact HH|lia|exact Har].
Qed.

Lemma uncompress_header p q : uncompress p = Ok q -> firstn 12 q = firstn 12 p.
Proof.
  unfold uncompress. destruct (uncompress_with_previous_offset p DNS_HEADER_SIZE) as [[o n]| |] eqn:E; cbn [bind]; try discriminate.
  intros H. inversion H; subst o. exact (proj1 (uncompress_keeps_header p _ q n E)).
Qed.

(** the three lists after inserting [rx] into section [sec] *)
Definition ext_a sec rx (A : list (rec_view * rd_view)) := match sec with SAnswer => A ++ [rx] | _ => A end.
Definition ext_n sec rx (Nn : list (rec_view * rd_view)) := match sec with SNameServers => Nn ++ [rx] | _ => Nn end.
Definition ext_r sec rx (R : list (rec_view * rd_view)) := match sec with SAdditional => R ++ [rx] | _ => R end.

Lemma last_pos {A} (l : list A) (x : A) : (0 <? length (l ++ [x])) = true.
Proof. rewrite app_length. cbn [length]. apply Nat.ltb_lt. lia. Qed.

Lemma opt_or_end (l : list (rec_view * rd_view)) a :
  opt_or (if 0 <? length l then Some a else None) (Some (a + length (cat l))) = Some a.
Proof. destruct l as [|x l]; cbn [length Nat.ltb Nat.leb opt_or]; [cbn; f_equal; lia|reflexivity]. Qed.

Lemma omap_add_if (c : bool) a k : omap_add (if c then Some a else None) k = if c then Some (a + k) else None.
Proof. destruct c; reflexivity. Qed.

Lemma plain_record_rv_at rx o : plain_record (rv_at (fst rx) (snd rx) o, snd rx) = plain_record rx.
Proof. destruct rx as [r x]. reflexivity. Qed.

Lemma map_plain_place : forall l o, map plain_record (place o l) = map plain_record l.
Proof. induction l as [|rx l IH]; intros o; cbn [place map]; [reflexivity|]. rewrite IH, plain_record_rv_at. reflexivity. Qed.

(** an accepted [build] is a fixed point of decompression *)
Lemma build_fixed q f w qls qt A Nn R s1 s2 s3 : bytes_ok q -> parse q = Ok f -> plain_parts q w qls qt A Nn R s1 s2 s3 ->
  uncompress q = Ok q.
Proof.
  intros Hb Hp P. destruct (parts_build_wf q w qls qt A Nn R s1 s2 s3 Hb P) as (_ & Rq).
  destruct (uncompress_reading q f Hb Hp) as (qls1 & qt1 & l1 & l2 & l3 & R1 & Hu).
  destruct (reading_fun _ _ _ _ _ _ _ _ _ _ _ R1 Rq) as (-> & -> & -> & -> & ->).
  rewrite Hu. f_equal. unfold plain_packet_of. rewrite !map_app, !map_plain_place.
  symmetry. etransitivity; [exact (pp_eq _ _ _ _ _ _ _ _ _ _ P)|]. unfold build, cat. rewrite !concat_app. reflexivity.
Qed.

Definition same_view (v v' : ppacket) : Prop :=
  pp_packet v = pp_packet v' /\
  pp_offset_question v = pp_offset_question v' /\ pp_offset_answers v = pp_offset_answers v' /\
  pp_offset_nameservers v = pp_offset_nameservers v' /\ pp_offset_additional v = pp_offset_additional v' /\
  pp_offset_edns v = pp_offset_edns v' /\ pp_edns_count v = pp_edns_count v' /\ pp_ext_rcode v = pp_ext_rcode v' /\
  pp_edns_version v = pp_edns_version v' /\ pp_ext_flags v = pp_ext_flags v' /\ pp_max_payload v = pp_max_payload v'.

Theorem insert_core_plain : forall q v' v it sec rx s',
  bytes_ok q -> parse q = Ok v' -> uncompress q = Ok q -> same_view v v' -> pp_maybe_compressed v = false ->
  plain_rr_ok rx -> sec = SAnswer \/ sec = SNameServers \/ sec = SAdditional ->
  (sec <> SAdditional -> exists w, u16_at q 2 w /\ N.land w 32768 = 32768%N) ->
  insert_core sec (plain_record rx) (v, it) = (s', Ok tt) ->
  exists qls qt A Nn R,
    let o1 := 12 + length (wire_of_labels qls) + 4 in
    reading q qls qt (place o1 A) (place (o1 + length (cat A)) Nn) (place (o1 + length (cat A) + length (cat Nn)) R) /\
    let A' := ext_a sec rx A in let N' := ext_n sec rx Nn in let R' := ext_r sec rx R in
    let z := pp_packet (fst s') in
    q = build (firstn 12 q) qls qt A Nn R /\ z = build (firstn 12 z) qls qt A' N' R' /\
    bytes_ok z /\ wf_packet z /\ uncompress z = Ok z /\ (forall w0, u16_at q 2 w0 -> u16_at z 2 w0) /\
    reading z qls qt (place o1 A') (place (o1 + length (cat A')) N') (place (o1 + length (cat A') + length (cat N')) R') /\
    snd s' = it /\
    exists f, parse z = Ok f /\
      pp_offset_question (fst s') = pp_offset_question f /\ pp_offset_answers (fst s') = pp_offset_answers f /\
      pp_offset_nameservers (fst s') = pp_offset_nameservers f /\ pp_offset_additional (fst s') = pp_offset_additional f /\
      pp_offset_edns (fst s') = pp_offset_edns f /\ pp_edns_count (fst s') = pp_edns_count f /\
      pp_ext_rcode (fst s') = pp_ext_rcode f /\ pp_edns_version (fst s') = pp_edns_version f /\
      pp_ext_flags (fst s') = pp_ext_flags f /\ pp_max_payload (fst s') = pp_max_payload f /\
      pp_maybe_compressed (fst s') = false /\ pp_cached (fst s') = pp_cached v.
Proof.
  intros q v' v it sec rx s' Hbq Hp' Hfix (Hdvp & Voq & Voa & Von & Vor & Voe & Vc & Vrc & Vver & Vxf & Vmp) Vmc Hrx Hsec Hgate Hcore.
  destruct (insert_core_ok _ _ _ _ _ Hcore) as (p1 & ins & Hinc & Hio & Hle & Hbytes & _ & Hit).
  assert (Hpk' : pp_packet v' = q) by (destruct (parse_shape q v' Hbq Hp') as (? & ? & ? & ? & ? & ? & ? & F0); exact (pf_packet _ _ _ _ _ _ _ _ _ F0)).
  rewrite Hpk' in Hdvp. rewrite Hdvp in Hinc.
  destruct (plain_parts_of q v' Hbq Hp' Hfix) as (w & qls & qt & A & Nn & R & s1 & s2 & s3 & P).
  destruct (parts_build_wf q w qls qt A Nn R s1 s2 s3 Hbq P) as (Lq & Rq).
  destruct (parse_offsets q v' w qls qt A Nn R s1 s2 s3 Hbq Hp' P) as (Oa & On & Or).
  exists qls, qt, A, Nn, R. cbv zeta. split; [exact Rq|].
  destruct (rrcount_inc_facts q sec p1 Hinc Hsec) as (c & Hc & Hc1 & Hl1 & Hsame & Hbp1).
  set (o1 := 12 + length (wire_of_labels qls) + 4) in *. set (o2 := o1 + length (cat A)) in *. set (o3 := o2 + length (cat Nn)) in *.
  pose proof P as [Peq P12 Pw Pqd Pan Pns Par Pgate Pqok Pq255 Pqb Pqt PCA PCN PCR].
  set (Qb := plain_question qls qt CLASS_IN) in *.
  assert (LQb : length Qb = length (wire_of_labels qls) + 4) by (unfold Qb, plain_question; rewrite !app_length; cbn [length be16_bytes]; lia).
  assert (Hsk : skipn 12 q = Qb ++ cat A ++ cat Nn ++ cat R).
  { rewrite Peq at 1. unfold build. fold Qb. replace 12 with (length (firstn 12 q)) at 1 by (rewrite firstn_length; lia). apply skipn_app_exact. }
  set (HD := firstn 12 p1).
  assert (LHD : length HD = 12) by (unfold HD; rewrite firstn_length; lia).
  assert (EpHD : p1 = HD ++ Qb ++ cat A ++ cat Nn ++ cat R).
  { rewrite <- Hsk. rewrite <- (firstn_skipn 12 p1) at 1. fold HD. f_equal.
    apply list_eq_nth; [rewrite !skipn_length; lia|]. intros i Hi. rewrite !nth_error_skipn. apply Hsame. right. destruct Hsec as [->|[->| ->]]; cbn; lia. }
  assert (Hfld : forall i x, i + 1 < 12 -> (i + 1 < sec_co sec \/ sec_co sec + 2 <= i) -> u16_at q i x -> u16_at HD i x).
  { intros i x Hi Hout Hx. apply u16_at_firstn; [exact Hi|]. eapply u16_at_same; [| |exact Hx]; apply Hsame; lia. }
  assert (Hcnt : u16_at HD (sec_co sec) (c + 1)) by (apply u16_at_firstn; [destruct Hsec as [->|[->| ->]]; cbn; lia|exact Hc1]).
  assert (HbHD : bytes_ok HD) by (unfold HD; apply Forall_firstn; exact (Hbp1 Hbq)).
  assert (Hnil : forall l : list (rec_view * rd_view), length l = 0 -> cat l = []) by (intros [|? ?] E; [reflexivity|discriminate]).
  (* where the record goes *)
  assert (Eins : ins = match sec with SAnswer => o2 | SNameServers => o3 | _ => o3 + length (cat R) end).
  { unfold insertion_offset in Hio. rewrite Hdvp in Hio.
    rewrite Von, Vor, On, Or, Lq in Hio.
    destruct Hsec as [->|[->| ->]]; cbn [opt_or] in Hio.
    - destruct (length Nn) eqn:En; cbn [Nat.ltb Nat.leb opt_or] in Hio.
      + pose proof (Hnil Nn En) as EN. destruct (length R) eqn:Er; cbn [Nat.ltb Nat.leb] in Hio; inversion Hio; unfold o3; rewrite ?EN; cbn [length]; [rewrite (Hnil R Er); cbn [length]|]; lia.
      + inversion Hio. reflexivity.
    - destruct (length R) eqn:Er; cbn [Nat.ltb Nat.leb] in Hio; inversion Hio; [rewrite (Hnil R Er); cbn [length]; lia|reflexivity].
    - inversion Hio. reflexivity. }
  (* the new header *)
  assert (Hw' : u16_at HD 2 w) by (apply Hfld; [lia|destruct Hsec as [->|[->| ->]]; cbn; lia|exact Pw]).
  assert (Hqd' : u16_at HD 4 1%N) by (apply Hfld; [lia|destruct Hsec as [->|[->| ->]]; cbn; lia|exact Pqd]).
  assert (Hone : Forall plain_rr_ok [rx]) by (constructor; [exact Hrx|constructor]).
  assert (Hgate' : sec <> SAdditional -> N.land w 32768 = 32768%N).
  { intros Hns'. destruct (Hgate Hns') as (w0 & Hw0 & Hqr). rewrite (u16_at_fun _ _ _ _ Pw Hw0). exact Hqr. }
  (* the packet after the splice *)
  assert (Ez : pp_packet (fst s') = build HD qls qt (ext_a sec rx A) (ext_n sec rx Nn) (ext_r sec rx R)).
  { rewrite Hbytes, Eins. unfold build. fold Qb. rewrite EpHD at 1 2.
    assert (Crx : cat [rx] = plain_record rx) by (unfold cat; cbn; apply app_nil_r).
    destruct Hsec as [->|[->| ->]]; cbn [ext_a ext_n ext_r]; rewrite ?cat_app, ?Crx.
    - replace (HD ++ Qb ++ cat A ++ cat Nn ++ cat R) with ((HD ++ Qb ++ cat A) ++ cat Nn ++ cat R) by (rewrite <- !app_assoc; reflexivity).
      replace o2 with (length (HD ++ Qb ++ cat A)) by (rewrite !app_length, LHD, LQb; unfold o2, o1; lia).
      rewrite firstn_app_exact, skipn_app_exact. rewrite <- !app_assoc. reflexivity.
    - replace (HD ++ Qb ++ cat A ++ cat Nn ++ cat R) with ((HD ++ Qb ++ cat A ++ cat Nn) ++ cat R) by (rewrite <- !app_assoc; reflexivity).
      replace o3 with (length (HD ++ Qb ++ cat A ++ cat Nn)) by (rewrite !app_length, LHD, LQb; unfold o3, o2, o1; lia).
      rewrite firstn_app_exact, skipn_app_exact. rewrite <- !app_assoc. reflexivity.
    - replace (o3 + length (cat R)) with (length (HD ++ Qb ++ cat A ++ cat Nn ++ cat R)) by (rewrite !app_length, LHD, LQb; unfold o3, o2, o1; lia).
      rewrite firstn_all, skipn_all. rewrite app_nil_r, <- !app_assoc. reflexivity. }
  assert (EHD : firstn 12 (pp_packet (fst s')) = HD).
  { rewrite Ez. unfold build. rewrite <- LHD. apply firstn_app_exact. }
  assert (Hcount : forall l : list (rec_view * rd_view), N.of_nat (length (l ++ [rx])) = (N.of_nat (length l) + 1)%N) by (intros l; rewrite app_length; cbn [length]; lia).
  destruct (build_wf HD qls qt w (ext_a sec rx A) (ext_n sec rx Nn) (ext_r sec rx R) s1 s2 s3 LHD HbHD Hw' Hqd') as (Bz & Wz & _ & Rz).
  - (* ancount *)
    destruct Hsec as [->|[->| ->]]; cbn [ext_a sec_co] in *.
    + rewrite Hcount. rewrite <- (u16_at_fun _ _ _ _ Hc Pan). exact Hcnt.
    + apply Hfld; [lia|lia|exact Pan].
    + apply Hfld; [lia|lia|exact Pan].
  - destruct Hsec as [->|[->| ->]]; cbn [ext_n sec_co] in *.
    + apply Hfld; [lia|lia|exact Pns].
    + rewrite Hcount. rewrite <- (u16_at_fun _ _ _ _ Hc Pns). exact Hcnt.
    + apply Hfld; [lia|lia|exact Pns].
  - destruct Hsec as [->|[->| ->]]; cbn [ext_r sec_co] in *.
    + apply Hfld; [lia|lia|exact Par].
    + apply Hfld; [lia|lia|exact Par].
    + rewrite Hcount. rewrite <- (u16_at_fun _ _ _ _ Hc Par). exact Hcnt.
  - intros Hg. destruct Hsec as [->|[->| ->]]; cbn [ext_a ext_n].
    + exfalso. apply Hg. apply Hgate'. discriminate.
    + exfalso. apply Hg. apply Hgate'. discriminate.
    + exact (Pgate Hg).
  - exact Pqok.
  - exact Pq255.
  - exact Pqb.
  - exact Pqt.
  - destruct Hsec as [->|[->| ->]]; cbn [ext_a]; [apply sec_ext; assumption|exact PCA|exact PCA].
  - destruct Hsec as [->|[->| ->]]; cbn [ext_n]; [exact PCN|apply sec_ext; assumption|exact PCN].
  - destruct Hsec as [->|[->| ->]]; cbn [ext_r]; [exact PCR|exact PCR|apply sec_ext; assumption].
  - assert (Pz : plain_parts (pp_packet (fst s')) w qls qt (ext_a sec rx A) (ext_n sec rx Nn) (ext_r sec rx R) s1 s2 s3).
    { rewrite Ez. apply build_parts; try assumption.
      - destruct Hsec as [->|[->| ->]]; cbn [ext_a sec_co] in *;
          [rewrite Hcount, <- (u16_at_fun _ _ _ _ Hc Pan); exact Hcnt|apply Hfld; [lia|lia|exact Pan]|apply Hfld; [lia|lia|exact Pan]].
      - destruct Hsec as [->|[->| ->]]; cbn [ext_n sec_co] in *;
          [apply Hfld; [lia|lia|exact Pns]|rewrite Hcount, <- (u16_at_fun _ _ _ _ Hc Pns); exact Hcnt|apply Hfld; [lia|lia|exact Pns]].
      - destruct Hsec as [->|[->| ->]]; cbn [ext_r sec_co] in *;
          [apply Hfld; [lia|lia|exact Par]|apply Hfld; [lia|lia|exact Par]|rewrite Hcount, <- (u16_at_fun _ _ _ _ Hc Par); exact Hcnt].
      - intros Hg. destruct Hsec as [->|[->| ->]]; cbn [ext_a ext_n];
          [exfalso; apply Hg; apply Hgate'; discriminate|exfalso; apply Hg; apply Hgate'; discriminate|exact (Pgate Hg)].
      - destruct Hsec as [->|[->| ->]]; cbn [ext_a]; [apply sec_ext; assumption|exact PCA|exact PCA].
      - destruct Hsec as [->|[->| ->]]; cbn [ext_n]; [exact PCN|apply sec_ext; assumption|exact PCN].
      - destruct Hsec as [->|[->| ->]]; cbn [ext_r]; [exact PCR|exact PCR|apply sec_ext; assumption]. }
    split; [exact Peq|]. rewrite EHD. rewrite <- Ez in Bz, Wz, Rz.
    destruct (parse_complete _ Bz Wz) as (f & Hf).
    split; [exact Ez|]. split; [exact Bz|]. split; [exact Wz|]. split; [exact (build_fixed _ f _ _ _ _ _ _ _ _ _ Bz Hf Pz)|].
    split; [intros w0 Hw0; rewrite <- (u16_at_fun _ _ _ _ Pw Hw0); exact (pp_w _ _ _ _ _ _ _ _ _ _ Pz)|].
    split; [exact Rz|]. split; [exact Hit|].
    exists f. split; [exact Hf|].
    destruct (parse_offsets _ f _ _ _ _ _ _ _ _ _ Bz Hf Pz) as (Oa' & On' & Or').
    destruct (parse_shape _ _ Bz Hf) as (? & ? & ? & ? & ? & ? & ? & Ff). destruct (parse_shape _ _ Hbq Hp') as (? & ? & ? & ? & ? & ? & ? & Fq).
    destruct (build_summary _ f _ _ _ _ _ _ _ _ _ Bz Hf Pz) as (Sz & Iz). destruct (build_summary q v' _ _ _ _ _ _ _ _ _ Hbq Hp' P) as (Sq & Iq).
    fold o1 o2 o3 in Sq, Iq.
    assert (Crx : cat [rx] = plain_record rx) by (unfold cat; cbn; apply app_nil_r).
    assert (Hnox : nonopt_list [rx]) by (constructor; [exact (proj1 Hrx)|constructor]).
    assert (EoR : opt_rel (ext_r sec rx R) = opt_rel R) by (destruct Hsec as [->|[->| ->]]; cbn [ext_r]; [reflexivity|reflexivity|apply opt_rel_app_nonopt; exact Hnox]).
    rewrite EoR in Sz, Iz.
    destruct (insert_core_view _ _ _ _ _ Hcore) as (p1' & ins' & Hinc' & Hio' & Hview). rewrite Hdvp in Hinc'. rewrite Hinc in Hinc'. inversion Hinc'; subst p1'.
    rewrite Hio in Hio'. inversion Hio'; subst ins'. clear Hinc' Hio'.
    destruct Hsec as [->|[->| ->]]; cbv zeta in Hview; rename Hview into Evs.
    (* the summary fields, carried over from the parse of the pointer-free packet *)
    all: assert (Esum : pp_offset_edns (fst s') = pp_offset_edns f /\ pp_edns_count v' = pp_edns_count f /\ pp_ext_rcode v' = pp_ext_rcode f /\
                   pp_edns_version v' = pp_edns_version f /\ pp_ext_flags v' = pp_ext_flags f /\ pp_max_payload v' = pp_max_payload f);
      [destruct (opt_rel R) as [[k y]|] eqn:EoR0;
       [destruct (Iq k y eq_refl) as (Hoy & Hxq & eq' & Hrq); destruct (Iz k y eq_refl) as (_ & Hxz & ez' & Hrz);
        destruct (summary_same_opt _ _ _ _ _ _ _ _ _ Hbq Bz Sq Sz Hrq Hrz Hxq Hxz ltac:(rewrite is_opt_rv_at; exact Hoy) ltac:(rewrite is_opt_rv_at; exact Hoy) eq_refl eq_refl)
          as (E1 & E2 & E3 & E4 & E5);
        split; [|repeat split; congruence];
        cbn [summary_of rv_at rv_off] in Sq, Sz; destruct Sq as (Oq & _); destruct Sz as (Oz & _); rewrite Oz;
        rewrite Evs; cbn [pp_update pp_offset_edns ext_a ext_n]; rewrite Voe, Oq; cbn [omap_add ext_a ext_n ext_r];
          rewrite ?cat_app, ?Crx, ?app_length; f_equal; unfold o3, o2; lia
       |cbn [summary_of] in Sq, Sz; destruct Sq as (Oq & C1 & C2 & C3 & C4 & C5); destruct Sz as (Oz & D1 & D2 & D3 & D4 & D5);
        split; [|repeat split; congruence];
        rewrite Oz, Evs; cbn [pp_update pp_offset_edns]; rewrite Voe, Oq; reflexivity]|].
    all: destruct Esum as (E0 & E1 & E2 & E3 & E4 & E5).
    all: pose proof (pf_oq _ _ _ _ _ _ _ _ _ Ff) as Oqf; pose proof (pf_oq _ _ _ _ _ _ _ _ _ Fq) as Oqq.
    all: assert (Hl0 : forall l : list (rec_view * rd_view), length l = 0 -> l = []) by (intros [|? ?] E; [reflexivity|discriminate]).
    all: rewrite Evs in E0 |- *.
    all: cbn [pp_update pp_offset_question pp_offset_answers pp_offset_nameservers pp_offset_additional pp_offset_edns
              pp_edns_count pp_ext_rcode pp_edns_version pp_ext_flags pp_max_payload pp_maybe_compressed pp_cached] in E0 |- *.
    all: rewrite Voq, Voa, Von, Vor, Vc, Vrc, Vver, Vxf, Vmp, Vmc.
    all: cbn [ext_a ext_n ext_r] in Oa', On', Or'.
    all: rewrite Oa, On, Or, Oa', On', Or', Oqf, Oqq, Eins.
    all: split; [reflexivity|].
    all: rewrite ?last_pos, ?cat_app, ?Crx, ?app_length.
    + split; [apply opt_or_end|]. split; [rewrite omap_add_if; destruct (0 <? length Nn); [f_equal; unfold o2; lia|reflexivity]|].
      split; [rewrite omap_add_if; destruct (0 <? length R); [f_equal; unfold o3, o2; lia|reflexivity]|].
      split; [exact E0|]. repeat split; assumption.
    + split; [reflexivity|]. split; [unfold o3; apply opt_or_end|].
      split; [rewrite omap_add_if; destruct (0 <? length R); [f_equal; unfold o3, o2; lia|reflexivity]|].
      split; [exact E0|]. repeat split; assumption.
    + split; [reflexivity|]. split; [reflexivity|]. split; [apply opt_or_end|].
      split; [exact E0|]. repeat split; assumption.
Qed.

Theorem insert_fresh : forall p v it sec rx s',
  bytes_ok p -> parse p = Ok v -> plain_rr_ok rx -> sec = SAnswer \/ sec = SNameServers \/ sec = SAdditional ->
  (sec <> SAdditional -> exists w, u16_at p 2 w /\ N.land w 32768 = 32768%N) ->
  m_insert_rr sec (plain_record rx) (v, it) = (s', Ok tt) ->
  exists q qls qt A Nn R,
    let o1 := 12 + length (wire_of_labels qls) + 4 in
    uncompress p = Ok q /\
    reading q qls qt (place o1 A) (place (o1 + length (cat A)) Nn) (place (o1 + length (cat A) + length (cat Nn)) R) /\
    let A' := ext_a sec rx A in let N' := ext_n sec rx Nn in let R' := ext_r sec rx R in
    let z := pp_packet (fst s') in
    q = build (firstn 12 q) qls qt A Nn R /\ z = build (firstn 12 z) qls qt A' N' R' /\
    bytes_ok z /\ wf_packet z /\
    reading z qls qt (place o1 A') (place (o1 + length (cat A')) N') (place (o1 + length (cat A') + length (cat N')) R') /\
    snd s' = it /\
    exists f, parse z = Ok f /\
      pp_offset_question (fst s') = pp_offset_question f /\ pp_offset_answers (fst s') = pp_offset_answers f /\
      pp_offset_nameservers (fst s') = pp_offset_nameservers f /\ pp_offset_additional (fst s') = pp_offset_additional f /\
      pp_offset_edns (fst s') = pp_offset_edns f /\ pp_edns_count (fst s') = pp_edns_count f /\
      pp_ext_rcode (fst s') = pp_ext_rcode f /\ pp_edns_version (fst s') = pp_edns_version f /\
      pp_ext_flags (fst s') = pp_ext_flags f /\ pp_max_payload (fst s') = pp_max_payload f /\
      pp_maybe_compressed (fst s') = false /\ pp_cached (fst s') = None.
Proof.
  intros p v it sec rx s' Hb Hp Hrx Hsec Hgate Hins.
  destruct (insert_prologue_fresh p v it Hb Hp) as (q & v' & Hu & Hp' & Hpk' & Hpro).
  destruct (uncompress_roundtrip p v Hb Hp) as (q0 & v0 & _ & _ & _ & _ & _ & _ & _ & _ & Hu0 & Hbq & Hp0 & Hfix & _).
  rewrite Hu in Hu0. inversion Hu0; subst q0. clear Hu0 Hp0 v0.
  unfold m_insert_rr in Hins. apply cbind_ok in Hins. destruct Hins as (a & s1' & Hpro' & Hcore). rewrite Hpro in Hpro'. inversion Hpro'; subst s1'. clear Hpro'.
  assert (Hgq : sec <> SAdditional -> exists w, u16_at q 2 w /\ N.land w 32768 = 32768%N).
  { intros Hns'. destruct (Hgate Hns') as (w0 & Hw0 & Hqr). exists w0. split; [|exact Hqr].
    pose proof (uncompress_header p q Hu) as Hh.
    pose proof (u16_at_firstn p 12 2 w0 ltac:(lia) Hw0) as U0. rewrite <- Hh in U0.
    destruct U0 as (a0 & b0 & Ha0 & Hb0 & E0). exists a0, b0. rewrite nth_error_firstn in Ha0, Hb0 by lia. auto. }
  assert (Hsv : same_view (decompressed_view v') v') by (unfold same_view, decompressed_view, pp_update; cbn; repeat split; reflexivity).
  destruct (insert_core_plain q v' (decompressed_view v') it sec rx s' Hbq Hp' Hfix Hsv eq_refl Hrx Hsec Hgq Hcore)
    as (qls & qt & A & Nn & R & H). cbv zeta in H.
  exists q, qls, qt, A, Nn, R. cbv zeta. split; [exact Hu|].
  destruct H as (G1 & G2 & G3 & G4 & G5 & _ & _ & G6). auto 10.
Qed.



(** ** Records of accepted packets are such records *)
Lemma rr_wf_nonopt_any q sec seen a e seen1 r : rr_wf q sec seen a e seen1 -> record_at q r e -> rv_off r = a -> is_opt r = false ->
  forall sec' seen', rr_wf q sec' seen' a e seen'.
Proof.
  intros (ne & t & rdlen & (ls & Hcn) & Hne & Ht & Hrl & He & Hle & Hrest) (Hcn' & Ht' & _) Hoff Hno sec' seen'.
  rewrite Hoff in Hcn'. destruct (cname_l_fun _ _ _ _ _ _ Hcn Hcn') as [_ Ene]. rewrite <- Ene in Ht'.
  pose proof (u16_at_fun _ _ _ _ Ht Ht') as Et. unfold is_opt in Hno. rewrite <- Et in Hno. rewrite Hno in Hrest.
  exists ne, t, rdlen. split; [exists ls; exact Hcn|]. split; [exact Hne|]. split; [exact Ht|]. split; [exact Hrl|]. split; [exact He|]. split; [exact Hle|].
  rewrite Hno. split; [reflexivity|apply Hrest].
Qed.

Theorem accepted_record_ok p0 sec seen off off1 seen1 : bytes_ok p0 -> rr_wf p0 sec seen off off1 seen1 ->
  exists r x, rv_off r = off /\ record_at p0 r off1 /\ rdata_at p0 r x /\ (is_opt r = false -> plain_rr_ok (r, x)).
Proof.
  intros Hb Hwf. destruct (rr_plain p0 Hb sec seen off off1 seen1 Hwf) as (r & x & Hoff & Hr & Hx & _ & Hbr & Hctx).
  exists r, x. split; [exact Hoff|]. split; [exact Hr|]. split; [exact Hx|]. intros Hno.
  split; [exact Hno|]. split; [exact Hbr|]. intros sec' seen' pre post. cbv zeta. cbn [fst snd].
  destruct (Hctx pre post) as (W & R' & X'). split; [|split; assumption].
  eapply rr_wf_nonopt_any; [exact W|exact R'|reflexivity|exact Hno].
Qed.


Corollary insert_fresh_view : forall p v it sec rx s',
  bytes_ok p -> parse p = Ok v -> plain_rr_ok rx -> sec = SAnswer \/ sec = SNameServers \/ sec = SAdditional ->
  (sec <> SAdditional -> exists w, u16_at p 2 w /\ N.land w 32768 = 32768%N) ->
  m_insert_rr sec (plain_record rx) (v, it) = (s', Ok tt) ->
  exists f, parse (pp_packet (fst s')) = Ok f /\
    pp_offset_question (fst s') = pp_offset_question f /\ pp_offset_answers (fst s') = pp_offset_answers f /\
    pp_offset_nameservers (fst s') = pp_offset_nameservers f /\ pp_offset_additional (fst s') = pp_offset_additional f /\
    pp_offset_edns (fst s') = pp_offset_edns f /\ pp_edns_count (fst s') = pp_edns_count f /\
    pp_ext_rcode (fst s') = pp_ext_rcode f /\ pp_edns_version (fst s') = pp_edns_version f /\
    pp_ext_flags (fst s') = pp_ext_flags f /\ pp_max_payload (fst s') = pp_max_payload f /\
    pp_maybe_compressed (fst s') = false /\ pp_cached (fst s') = None.
Proof.
  intros p v it sec rx s' Hb Hp Hrx Hsec Hg Hins.
  destruct (insert_fresh p v it sec rx s' Hb Hp Hrx Hsec Hg Hins) as (q & qls & qt & A & Nn & R & H). cbv zeta in H.
  destruct H as (_ & _ & _ & _ & _ & _ & _ & _ & Hf). exact Hf.
Qed.

(** ** Histories of insertions (C08 over a sub-language of operations)

    [dinv v]: the object is marked as not compressed, its bytes are an accepted fixed point of
    decompression, and its view is that of a fresh parse of them.  The prologue of the first
    insertion into a freshly parsed response establishes it; every successful insertion of a
    well-formed pointer-free non-OPT record and every [recompute] preserves it. *)
Record dinv (v : ppacket) : Prop := {
  di_mc : pp_maybe_compressed v = false;
  di_bytes : bytes_ok (pp_packet v);
  di_fix : uncompress (pp_packet v) = Ok (pp_packet v);
  di_view : exists f, parse (pp_packet v) = Ok f /\ same_view v f
}.

Definition is_response (p : bytes) : Prop := exists w, u16_at p 2 w /\ N.land w 32768 = 32768%N.

Lemma prologue_dinv p v it : bytes_ok p -> parse p = Ok v ->
  exists dv, insert_prologue (v, it) = ((dv, it), Ok tt) /\ dinv dv /\ (is_response p -> is_response (pp_packet dv)).
Proof.
  intros Hb Hp. destruct (insert_prologue_fresh p v it Hb Hp) as (q & v' & Hu & Hp' & Hpk' & Hpro).
  destruct (uncompress_roundtrip p v Hb Hp) as (q0 & v0 & _ & _ & _ & _ & _ & _ & _ & _ & Hu0 & Hbq & Hp0 & Hfix & _).
  rewrite Hu in Hu0. inversion Hu0; subst q0. clear Hu0 Hp0 v0.
  exists (decompressed_view v'). split; [exact Hpro|].
  assert (Hdvp : pp_packet (decompressed_view v') = q) by (unfold decompressed_view, pp_update; cbn; exact Hpk').
  split.
  - constructor; rewrite ?Hdvp; try assumption; [reflexivity|].
    exists v'. split; [exact Hp'|]. unfold same_view, decompressed_view, pp_update. cbn. repeat split; reflexivity.
  - intros (w0 & Hw0 & Hqr). rewrite Hdvp. exists w0. split; [|exact Hqr].
    pose proof (uncompress_header p q Hu) as Hh.
    pose proof (u16_at_firstn p 12 2 w0 ltac:(lia) Hw0) as U0. rewrite <- Hh in U0.
    destruct U0 as (a0 & b0 & Ha0 & Hb0 & E0). exists a0, b0. rewrite nth_error_firstn in Ha0, Hb0 by lia. auto.
Qed.

Theorem insert_keeps_dinv : forall v it sec rx s',
  dinv v -> plain_rr_ok rx -> sec = SAnswer \/ sec = SNameServers \/ sec = SAdditional ->
  (sec <> SAdditional -> is_response (pp_packet v)) ->
  m_insert_rr sec (plain_record rx) (v, it) = (s', Ok tt) ->
  dinv (fst s') /\ snd s' = it /\ (is_response (pp_packet v) -> is_response (pp_packet (fst s'))) /\
  exists qls qt A Nn R,
    let o1 := 12 + length (wire_of_labels qls) + 4 in
    reading (pp_packet v) qls qt (place o1 A) (place (o1 + length (cat A)) Nn) (place (o1 + length (cat A) + length (cat Nn)) R) /\
    let A' := ext_a sec rx A in let N' := ext_n sec rx Nn in let R' := ext_r sec rx R in
    reading (pp_packet (fst s')) qls qt (place o1 A') (place (o1 + length (cat A')) N') (place (o1 + length (cat A') + length (cat N')) R').
Proof.
  intros v it sec rx s' [Hmc Hb Hfix (f & Hf & Hsv)] Hrx Hsec Hgate Hins.
  unfold m_insert_rr, insert_prologue, cbind, getv, cret in Hins. cbn [fst snd] in Hins. rewrite Hmc in Hins.
  assert (Hpkf : pp_packet f = pp_packet v) by (destruct (parse_shape _ f Hb Hf) as (? & ? & ? & ? & ? & ? & ? & F0); exact (pf_packet _ _ _ _ _ _ _ _ _ F0)).
  destruct (insert_core_plain (pp_packet v) f v it sec rx s' Hb Hf Hfix Hsv Hmc Hrx Hsec Hgate Hins)
    as (qls & qt & A & Nn & R & H). cbv zeta in H.
  destruct H as (Rq & _ & Ez & Bz & Wz & Fz & Hflags & Rz & Hit & f2 & Hf2 & E1 & E2 & E3 & E4 & E5 & E6 & E7 & E8 & E9 & E10 & E11 & _).
  split.
  - constructor; [exact E11|exact Bz|exact Fz|]. exists f2. split; [exact Hf2|].
    assert (Hpk2 : pp_packet f2 = pp_packet (fst s')) by (destruct (parse_shape _ f2 Bz Hf2) as (? & ? & ? & ? & ? & ? & ? & F0); exact (pf_packet _ _ _ _ _ _ _ _ _ F0)).
    unfold same_view. rewrite Hpk2. repeat split; assumption.
  - split; [exact Hit|]. split; [intros (w0 & Hw0 & Hqr); exists w0; split; [apply Hflags; exact Hw0|exact Hqr]|].
    exists qls, qt, A, Nn, R. cbv zeta. split; [exact Rq|exact Rz].
Qed.

Lemma recompute_keeps_dinv v it : dinv v -> m_recompute (v, it) = ((v, it), Ok tt).
Proof. intros [Hmc _ _ _]. unfold m_recompute, cbind, getv, cret. cbn [fst snd]. rewrite Hmc. reflexivity. Qed.

(** a history: insertions and recomputes *)
Inductive hop : Type := HInsert (sec : section) (rx : rec_view * rd_view) | HRecompute.

Definition hop_ok (o : hop) : Prop :=
  match o with
  | HInsert sec rx => plain_rr_ok rx /\ (sec = SAnswer \/ sec = SNameServers \/ sec = SAdditional)
  | HRecompute => True
  end.

Definition run_hop (o : hop) : cm unit :=
  match o with HInsert sec rx => m_insert_rr sec (plain_record rx) | HRecompute => m_recompute end.

Fixpoint run_hops (ops : list hop) (s : st) : st * res unit :=
  match ops with
  | [] => (s, Ok tt)
  | o :: ops' => match run_hop o s with (s1, Ok _) => run_hops ops' s1 | (s1, Err e) => (s1, Err e) | (s1, Panic x) => (s1, Panic x) end
  end.

Theorem hops_keep_dinv : forall ops v it s', dinv v -> is_response (pp_packet v) -> Forall hop_ok ops ->
  run_hops ops (v, it) = (s', Ok tt) -> dinv (fst s') /\ snd s' = it /\ is_response (pp_packet (fst s')).
Proof.
  induction ops as [|o ops IH]; intros v it s' Hd Hr Hok H; cbn [run_hops] in H.
  - inversion H; subst. auto.
  - pose proof (Forall_inv Hok) as Ho. pose proof (Forall_inv_tail Hok) as Hoks.
    destruct (run_hop o (v, it)) as [s1 [u| |]] eqn:E; try discriminate. destruct u.
    destruct o as [sec rx|]; cbn [run_hop hop_ok] in E, Ho.
    + destruct Ho as [Hrx Hsec].
      destruct (insert_keeps_dinv v it sec rx s1 Hd Hrx Hsec (fun _ => Hr) E) as (Hd1 & Hit1 & Hr1 & _).
      destruct s1 as [v1 it1]. cbn [fst snd] in *. subst it1. apply (IH v1 it s' Hd1 (Hr1 Hr) Hoks H).
    + rewrite (recompute_keeps_dinv v it Hd) in E. inversion E; subst. apply (IH v it s' Hd Hr Hoks H).
Qed.

(** from a freshly parsed response: after a first insertion, any further history of insertions and recomputes *)
Theorem fresh_history_dinv : forall p v it sec rx ops s', bytes_ok p -> parse p = Ok v -> is_response p ->
  Forall hop_ok (HInsert sec rx :: ops) -> run_hops (HInsert sec rx :: ops) (v, it) = (s', Ok tt) ->
  dinv (fst s') /\ snd s' = it.
Proof.
  intros p v it sec rx ops s' Hb Hp Hr Hok H. cbn [run_hops run_hop] in H.
  destruct (prologue_dinv p v it Hb Hp) as (dv & Hpro & Hd & Hrd).
  destruct (m_insert_rr sec (plain_record rx) (v, it)) as [s1 [u| |]] eqn:E; try discriminate. destruct u.
  (* the first insertion: its prologue lands in [dinv], its core starts from there *)
  assert (E' : m_insert_rr sec (plain_record rx) (dv, it) = (s1, Ok tt)).
  { unfold m_insert_rr in E |- *. unfold cbind in E |- *. rewrite Hpro in E.
    unfold insert_prologue, cbind, getv, cret. cbn [fst snd]. rewrite (di_mc _ Hd). exact E. }
  pose proof (Forall_inv Hok) as [Hrx Hsec]. pose proof (Forall_inv_tail Hok) as Hoks.
  destruct (insert_keeps_dinv dv it sec rx s1 Hd Hrx Hsec (fun _ => Hrd Hr) E') as (Hd1 & Hit1 & Hr1 & _).
  destruct s1 as [v1 it1]. cbn [fst snd] in *. subst it1.
  destruct (hops_keep_dinv ops v1 it s' Hd1 (Hr1 (Hrd Hr)) Hoks H) as (A & B & _). auto.
Qed.
