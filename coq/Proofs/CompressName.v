(** * What compression emits for one pointer-free name (C06).

    For a pointer-free name with labels [ls] found in the input, [copy_compressed_name] succeeds and
    appends to the output the first [k] labels verbatim followed either by the root byte ([k] = all
    labels) or by a two-byte pointer whose target is an offset the dictionary holds for a candidate
    that compares equal (ASCII case ignored) to the remaining suffix and is not longer than it.  The
    emission is never longer than the name.  The dictionary stays well-formed and grows only by
    pairs (output offset at which a suffix of this name was just written, that suffix), all below
    offset 16384. *)

From DV Require Import Model.Base Model.Parser Model.Header Model.Readers Model.Uncompress Model.Mutate Model.Compress
  Spec.NameSpec Proofs.ListLemmas Proofs.Hoare Proofs.NameIff Proofs.ReadersLabels Proofs.RenameSpec.
From Coq Require Import ZifyBool ZifyNat ZifyN.

Definition sd_wf (d : sdict) : Prop := sd_index d <= length (sd_entries d).

Definition ptr_bytes (o : nat) : bytes :=
  let r := N.of_nat o in [N.lor ((r / 256) mod 256) 192; r mod 256]%N.

(** ** list_set *)
Lemma list_set_in {A} : forall (l : list A) i x y, In y (list_set l i x) -> y = x \/ In y l.
Proof.
  induction l as [|h t IH]; intros i x y H; cbn [list_set] in H.
  - destruct H as [<-|[]]. left. reflexivity.
  - destruct i as [|i].
    + destruct H as [<-|H]; [left; reflexivity|right; right; exact H].
    + destruct H as [<-|H]; [right; left; reflexivity|]. destruct (IH _ _ _ H) as [->|H']; [left; reflexivity|right; right; exact H'].
Qed.

Lemma list_set_length {A} : forall (l : list A) i x, i <= length l -> i < length (list_set l i x) /\ length l <= length (list_set l i x).
Proof.
  induction l as [|h t IH]; intros i x Hi; cbn [list_set length] in *.
  - assert (i = 0) by lia. subst. cbn. lia.
  - destruct i as [|i]; cbn [length]; [lia|]. destruct (IH i x ltac:(lia)). lia.
Qed.

(** ** dictionary lookup *)
Lemma sd_find_some : forall es suffix o, sd_find es suffix = Some o ->
  exists cand, In (o, cand) es /\ length cand <= length suffix /\ raw_names_eq_ignore_case suffix cand 0 = true.
Proof.
  induction es as [|[o' cand] es IH]; intros suffix o H; cbn [sd_find] in H; [discriminate|].
  destruct ((length cand <=? length suffix) && raw_names_eq_ignore_case suffix cand 0) eqn:E.
  - inversion H; subst. apply andb_true_iff in E. destruct E as [E1 E2]. exists cand. split; [left; reflexivity|]. split; [lia|exact E2].
  - destruct (IH _ _ H) as (c & Hin & Hrest). exists c. split; [right; exact Hin|exact Hrest].
Qed.

(** ** raw_name_len on label lists (lengths only) *)
Lemma rl_lab : forall ls, Forall lab ls -> forall pre fuel, length ls < fuel ->
  run_loop (rl_step (pre ++ wire_of_labels ls)) fuel (length pre) = Ok (length pre + length (wire_of_labels ls)).
Proof.
  induction 1 as [|l ls Hl Hls IH]; intros pre fuel Hf; (destruct fuel as [|fuel]; [cbn in Hf; lia|]); cbn [run_loop].
  - unfold rl_step. rewrite wire_nil, nth_head. reflexivity.
  - unfold lab in Hl. rewrite wire_of_labels_cons. unfold rl_step at 1. rewrite nth_head.
    destruct (N.of_nat (length l) =? 0)%N eqn:E0; [lia|]. rewrite small_not_ptr by lia. rewrite Nat2N.id.
    rewrite app_cons_assoc.
    replace (length pre + length l + 1) with (length (pre ++ N.of_nat (length l) :: l)) by (rewrite app_length; cbn [length]; lia).
    rewrite IH by (cbn in Hf; lia). rewrite app_length. cbn [length]. rewrite app_length. f_equal. lia.
Qed.

Lemma raw_name_len_lab ls : Forall lab ls -> raw_name_len (wire_of_labels ls) = Ok (length (wire_of_labels ls)).
Proof.
  intros H. unfold raw_name_len. pose proof (rl_lab ls H [] (length (wire_of_labels ls) + 1)) as E. cbn [app length] in E.
  apply E. rewrite wire_length. pose proof (labels_count_le ls). lia.
Qed.

(** ** slices of a concatenation *)
Lemma slice_mid (A x B : bytes) site : slice (A ++ x ++ B) (length A) (length A + length x) site = Ok x.
Proof.
  unfold slice. rewrite !app_length.
  destruct ((length A <=? length A + length x) && (length A + length x <=? length A + (length x + length B))) eqn:E; [|lia].
  f_equal. replace (length A + length x - length A) with (length x) by lia.
  rewrite skipn_app, skipn_all, Nat.sub_diag. cbn [app skipn].
  rewrite firstn_app, firstn_all, Nat.sub_diag. cbn [firstn]. apply app_nil_r.
Qed.

(** ** one dictionary insertion *)
Lemma sd_insert_cases d l rest off : Forall lab (l :: rest) -> sd_wf d ->
  let suffix := wire_of_labels (l :: rest) in
  (exists d1, sd_insert d suffix off = Ok (d1, None) /\ sd_wf d1 /\
     forall x, In x (sd_entries d1) -> In x (sd_entries d) \/ (x = (off, suffix) /\ (N.of_nat off < 16384)%N)) \/
  (exists o cand, sd_insert d suffix off = Ok (d, Some o) /\ In (o, cand) (sd_entries d) /\
     length cand <= length suffix /\ raw_names_eq_ignore_case suffix cand 0 = true).
Proof.
  intros Hl Hwf suffix. unfold sd_insert.
  destruct (16384 <=? N.of_nat off)%N eqn:E0; [left; exists d; auto|].
  destruct ((length suffix <=? 2) || (MAX_SUFFIX_LEN <? length suffix)) eqn:E1; [left; exists d; auto|].
  destruct (sd_find (sd_entries d) suffix) as [o|] eqn:Ef.
  - right. destruct (sd_find_some _ _ _ Ef) as (cand & Hin & Hlen & Heq). exists o, cand. auto.
  - left. unfold suffix at 1. rewrite (raw_name_len_lab _ Hl). cbn [bind]. fold suffix. rewrite Nat.eqb_refl. cbn [negb].
    unfold sd_wf in Hwf. destruct (length (sd_entries d) <? sd_index d) eqn:E2; [lia|].
    eexists. split; [reflexivity|]. destruct (list_set_length (sd_entries d) (sd_index d) (off, suffix) Hwf) as [L1 L2].
    split.
    + unfold sd_wf. cbn [sd_index sd_entries]. destruct (sd_index d + 1 =? MAX_SUFFIXES); lia.
    + cbn [sd_entries]. intros x Hx. destruct (list_set_in _ _ _ _ Hx) as [->|H]; [right; split; [reflexivity|lia]|left; exact H].
Qed.

(** ** the emission loop *)
Lemma wire_split ls k : length (wire_of_labels ls) = length (labels_flat (firstn k ls)) + length (wire_of_labels (skipn k ls)).
Proof. rewrite <- (firstn_skipn k ls) at 1. rewrite wire_app, app_length. reflexivity. Qed.

Definition emission (d : sdict) (base : nat) (ls : list bytes) (enc : bytes) (d' : sdict) : Prop :=
  exists k tail, enc = labels_flat (firstn k ls) ++ tail /\ k <= length ls /\
    ((k = length ls /\ tail = [0%N]) \/
     (k < length ls /\ exists o cand, tail = ptr_bytes o /\ In (o, cand) (sd_entries d') /\
        length cand <= length (wire_of_labels (skipn k ls)) /\
        raw_names_eq_ignore_case (wire_of_labels (skipn k ls)) cand 0 = true)) /\
    length enc <= length (wire_of_labels ls) /\ sd_wf d' /\
    forall o c, In (o, c) (sd_entries d') -> In (o, c) (sd_entries d) \/
      exists j, j < k /\ c = wire_of_labels (skipn j ls) /\ o = base + length (labels_flat (firstn j ls)) /\ (N.of_nat o < 16384)%N.

Lemma cc_loop : forall rest fuel A B out d, Forall lab rest -> length rest < fuel -> sd_wf d ->
  exists enc d',
    run_loop (cc_step (A ++ wire_of_labels rest ++ B) (length A + length (wire_of_labels rest))) fuel
             {| cc_off := length A; cc_out := out; cc_dict := d |} = Ok (out ++ enc, d') /\
    emission d (length out) rest enc d'.
Proof.
  induction rest as [|l rest IH]; intros fuel A B out d Hl Hf Hwf; (destruct fuel as [|fuel]; [cbn in Hf; lia|]); cbn [run_loop].
  - (* the root *)
    unfold cc_step. cbn [cc_off cc_out cc_dict]. rewrite wire_nil. cbn [app]. rewrite nth_head. cbn [N.land N.eqb].
    change (A ++ 0%N :: B) with (A ++ [0%N] ++ B). change (length A + length [0%N]) with (length A + length [0%N]).
    rewrite slice_mid. unfold sd_insert.
    destruct (16384 <=? N.of_nat (length out))%N; cbn [length Nat.leb orb];
      (replace (length A + 1 + N.to_nat 0) with (length A + length [0%N]) by (cbn; lia); rewrite slice_mid; cbn [N.to_nat Nat.eqb];
       exists [0%N], d; split; [reflexivity|]; exists 0, [0%N]; cbn [firstn labels_flat flat_map app length];
       split; [reflexivity|]; split; [lia|]; split; [left; split; reflexivity|]; split; [cbn; lia|]; split; [exact Hwf|]; intros o c H; left; exact H).
  - (* a label *)
    pose proof (Forall_inv Hl) as Hl0. pose proof (Forall_inv_tail Hl) as Hls. unfold lab in Hl0.
    unfold cc_step at 1. cbn [cc_off cc_out cc_dict].
    assert (Hnth : nth_error (A ++ wire_of_labels (l :: rest) ++ B) (length A) = Some (N.of_nat (length l))).
    { rewrite wire_of_labels_cons. cbn [app]. apply nth_head. }
    rewrite Hnth. rewrite small_not_ptr by lia. rewrite slice_mid.
    destruct (sd_insert_cases d l rest (length out) Hl Hwf) as [(d1 & Hins & Hwf1 & Hgrow)|(o & cand & Hins & Hin & Hlen & Heq)]; rewrite Hins.
    + (* copy the label, continue *)
      rewrite Nat2N.id.
      assert (Hsl : slice (A ++ wire_of_labels (l :: rest) ++ B) (length A) (length A + 1 + length l) 724 = Ok (N.of_nat (length l) :: l)).
      { rewrite wire_of_labels_cons. replace (N.of_nat (length l) :: l ++ wire_of_labels rest) with ((N.of_nat (length l) :: l) ++ wire_of_labels rest) by reflexivity.
        rewrite <- app_assoc. replace (length A + 1 + length l) with (length A + length (N.of_nat (length l) :: l)) by (cbn [length]; lia).
        apply slice_mid. }
      rewrite Hsl. destruct (length l =? 0) eqn:E0; [lia|].
      assert (Ep : A ++ wire_of_labels (l :: rest) ++ B = (A ++ N.of_nat (length l) :: l) ++ wire_of_labels rest ++ B).
      { rewrite wire_of_labels_cons. rewrite <- !app_assoc. cbn [app]. rewrite <- !app_assoc. reflexivity. }
      assert (Eoff : length A + 1 + length l = length (A ++ N.of_nat (length l) :: l)) by (rewrite app_length; cbn [length]; lia).
      assert (Efin : length A + length (wire_of_labels (l :: rest)) = length (A ++ N.of_nat (length l) :: l) + length (wire_of_labels rest)).
      { rewrite wire_of_labels_cons, app_length. cbn [length]. rewrite app_length. lia. }
      rewrite Ep, Eoff, Efin.
      destruct (IH fuel (A ++ N.of_nat (length l) :: l) B (out ++ N.of_nat (length l) :: l) d1 Hls ltac:(cbn in Hf; lia) Hwf1)
        as (enc & d' & Hrun & k & tail & Eenc & Hk & Htail & Hle & Hwf' & Hg').
      exists ((N.of_nat (length l) :: l) ++ enc), d'. split; [rewrite Hrun; f_equal; f_equal; rewrite <- app_assoc; reflexivity|].
      exists (S k), tail. cbn [firstn skipn]. rewrite flat_cons.
      split; [rewrite Eenc; cbn [app]; rewrite app_assoc; reflexivity|]. split; [cbn [length]; lia|].
      split.
      { destruct Htail as [[-> ->]|(Hlt & o & cand & Et & Hin & Hl' & He')]; [left; split; reflexivity|right].
        split; [cbn [length]; lia|]. exists o, cand. auto. }
      split; [rewrite wire_of_labels_cons; rewrite app_length; cbn [length]; rewrite !app_length; lia|].
      split; [exact Hwf'|].
      intros o c Hoc. destruct (Hg' o c Hoc) as [Hd1|(j & Hj & Ec & Eo & Ho)].
      * destruct (Hgrow _ Hd1) as [Hd|[Ex Hlt]]; [left; exact Hd|right].
        inversion Ex; subst. exists 0. cbn [skipn firstn labels_flat flat_map length]. repeat split; try lia.
      * right. exists (S j). cbn [skipn firstn]. rewrite flat_cons. split; [lia|]. split; [exact Ec|].
        rewrite app_length in Eo. cbn [length] in Eo |- *. rewrite app_length. split; [lia|exact Ho].
    + (* a pointer *)
      exists (ptr_bytes o), d. split; [reflexivity|].
      exists 0, (ptr_bytes o). cbn [firstn skipn labels_flat flat_map app].
      split; [reflexivity|]. split; [lia|]. split.
      { right. split; [cbn [length]; lia|]. exists o, cand. auto. }
      split; [rewrite wire_of_labels_cons; cbn [length ptr_bytes]; rewrite app_length, wire_length; lia|].
      split; [exact Hwf|]. intros o' c H. left. exact H.
Qed.

(** ** length of a pointer-free name as the compressor measures it *)
Lemma rd_plain : forall ls, Forall lab ls -> forall A B fuel n, length ls < fuel ->
  run_loop (rd_step (A ++ wire_of_labels ls ++ B)) fuel {| rd_off := length A; rd_len := n |} = Ok (n + length (wire_of_labels ls)).
Proof.
  induction 1 as [|l ls Hl Hls IH]; intros A B fuel n Hf; (destruct fuel as [|fuel]; [cbn in Hf; lia|]); cbn [run_loop].
  - unfold rd_step. cbn [rd_off rd_len]. rewrite wire_nil. cbn [app]. rewrite nth_head. cbn. reflexivity.
  - unfold lab in Hl. unfold rd_step at 1. cbn [rd_off rd_len]. rewrite wire_of_labels_cons. cbn [app]. rewrite nth_head.
    rewrite small_not_ptr by lia. rewrite Nat2N.id. destruct (length l =? 0) eqn:E0; [lia|].
    replace (A ++ N.of_nat (length l) :: (l ++ wire_of_labels ls) ++ B) with ((A ++ N.of_nat (length l) :: l) ++ wire_of_labels ls ++ B)
      by (rewrite <- !app_assoc; reflexivity).
    replace (length A + 1 + length l) with (length (A ++ N.of_nat (length l) :: l)) by (rewrite app_length; cbn [length]; lia).
    rewrite IH by (cbn in Hf; lia). cbn [length]. rewrite app_length. f_equal. lia.
Qed.

Theorem copy_compressed_name_plain : forall ls A B d out, Forall lab ls -> length (wire_of_labels ls) <= 255 -> sd_wf d ->
  exists enc d',
    copy_compressed_name d out (A ++ wire_of_labels ls ++ B) (length A) =
      Ok (out ++ enc, d', length enc, length A + length (wire_of_labels ls)) /\
    emission d (length out) ls enc d'.
Proof.
  intros ls A B d out Hl Hlen Hwf. unfold copy_compressed_name, raw_name_len_after_decompression.
  assert (Hcount : length ls < cu_fuel).
  { pose proof (labels_count_le ls). rewrite wire_length in Hlen. unfold cu_fuel. lia. }
  rewrite (rd_plain ls Hl A B cu_fuel 0 Hcount). cbn [bind Nat.add].
  destruct (cc_loop ls cu_fuel A B out d Hl Hcount Hwf) as (enc & d' & Hrun & Hem).
  rewrite Hrun. cbn [bind]. exists enc, d'. split; [|exact Hem].
  rewrite app_length. replace (length out + length enc - length out) with (length enc) by lia. reflexivity.
Qed.

(** ** what the dictionary's comparison means on pointer-free names *)
Lemma lower_small c : (c <= 63)%N -> lower_byte c = c.
Proof. intros H. unfold lower_byte. destruct ((65 <=? c)%N && (c <=? 90)%N) eqn:E; [lia|reflexivity]. Qed.

Lemma raw_eq_label : forall l s n1 n2, length l = length s ->
  raw_names_eq_ignore_case (l ++ n1) (s ++ n2) (N.of_nat (length l)) = true ->
  map lower_byte l = map lower_byte s /\ raw_names_eq_ignore_case n1 n2 0 = true.
Proof.
  induction l as [|x l IH]; intros s n1 n2 Hlen H; destruct s as [|y s]; try discriminate.
  - cbn [app length N.of_nat] in H. split; [reflexivity|exact H].
  - cbn [app raw_names_eq_ignore_case] in H. unfold eq_ignore_ascii_case in H.
    destruct (lower_byte x =? lower_byte y)%N eqn:E; cbn [negb] in H; [|discriminate].
    destruct (N.of_nat (length (x :: l)) =? 0)%N eqn:E0; [cbn [length] in E0; lia|].
    replace (N.of_nat (length (x :: l)) - 1)%N with (N.of_nat (length l)) in H by (cbn [length]; lia).
    destruct (IH s n1 n2 ltac:(cbn in Hlen; lia) H) as [Hm Hr]. split; [|exact Hr].
    cbn [map]. f_equal; [lia|exact Hm].
Qed.

Theorem raw_names_eq_labels : forall a b, Forall lab a -> Forall lab b ->
  raw_names_eq_ignore_case (wire_of_labels a) (wire_of_labels b) 0 = true -> ci_labels a b.
Proof.
  induction a as [|l a IH]; intros b Ha Hb H.
  - destruct b as [|s b]; [constructor|]. pose proof (Forall_inv Hb) as Hs. unfold lab in Hs.
    rewrite wire_nil, wire_of_labels_cons in H. cbn [raw_names_eq_ignore_case] in H. unfold eq_ignore_ascii_case in H.
    rewrite (lower_small (N.of_nat (length s))) in H by lia. cbn in H.
    destruct (N.of_nat (length s)) eqn:E; [lia|discriminate].
  - pose proof (Forall_inv Ha) as Hl. pose proof (Forall_inv_tail Ha) as Ha'. unfold lab in Hl.
    destruct b as [|s b].
    + rewrite wire_nil, wire_of_labels_cons in H. cbn [raw_names_eq_ignore_case] in H. unfold eq_ignore_ascii_case in H.
      rewrite (lower_small (N.of_nat (length l))) in H by lia. cbn in H.
      destruct (N.of_nat (length l)) eqn:E; [lia|discriminate].
    + pose proof (Forall_inv Hb) as Hs. pose proof (Forall_inv_tail Hb) as Hb'. unfold lab in Hs.
      rewrite !wire_of_labels_cons in H. cbn [raw_names_eq_ignore_case] in H. unfold eq_ignore_ascii_case at 1 in H.
      rewrite !lower_small in H by lia.
      destruct (N.of_nat (length l) =? N.of_nat (length s))%N eqn:E; cbn [negb] in H; [|discriminate].
      cbn [N.eqb] in H. destruct (N.of_nat (length l) =? 0)%N eqn:E0; [lia|].
      destruct (raw_eq_label l s _ _ ltac:(lia) H) as [Hm Hr].
      constructor; [exact Hm|apply IH; assumption].
Qed.
