(** * What a successful parse says about the bytes (inversion of the parser model).

    - [parse_rr_shape]: a record the parser accepts starts with a name the validator accepts,
      followed by 10 fixed bytes whose last two give the data length, and the parser's cursor
      ends exactly [name_end + 10 + rdlen] inside the packet - whatever the record type.
    - [parse_shape]: the section offsets and counts stored in the [ParsedPacket] are the
      cursor positions between the section loops. *)

From DV Require Import Model.Base Model.NameCheck Model.Parser
  Proofs.Hoare Proofs.NameCheckTotal Proofs.ParserTotal.
From Coq Require Import ZifyBool ZifyNat ZifyN.

Lemma be16_at_site p o s1 s2 v : be16_at p o s1 = Ok v -> be16_at p o s2 = Ok v.
Proof.
  unfold be16_at, byte_at.
  destruct (nth_error p o); cbn [bind]; [|discriminate].
  destruct (nth_error p (o + 1)); cbn [bind]; [|discriminate]. auto.
Qed.

Lemma be16_at_len p o s v : be16_at p o s = Ok v -> o + 2 <= length p.
Proof.
  unfold be16_at, byte_at.
  destruct (nth_error p o) eqn:E0; cbn [bind]; [|discriminate].
  destruct (nth_error p (o + 1)) eqn:E1; cbn [bind]; [|discriminate].
  intros _. assert (nth_error p (o + 1) <> None) as H by congruence.
  apply nth_error_Some in H. lia.
Qed.

Section Inv.
  Variable p : bytes.
  Hypothesis Hbytes : bytes_ok p.

  (** Stronger reading lemmas: the value is the big-endian pair at that position. *)
  Lemma be16_load_eq s k : pinv p s ->
    hoare (be16_load p s k)
          (fun v => be16_at p (ps_off s + k) 203 = Ok v /\ (v < 65536)%N /\ ps_off s + k + 2 <= length p).
  Proof.
    intros H. unfold be16_load.
    eapply hoare_bind; [apply ensure_remaining_len_spec; exact H|].
    intros ? Hle. cbv beta in Hle.
    pose proof (be16_at_hoare p (ps_off s + k) 203 ltac:(lia) Hbytes) as Hv.
    destruct (be16_at p (ps_off s + k) 203) as [v| |]; cbn in *; [|exact I|exact Hv].
    repeat split; [exact Hv|lia].
  Qed.

  (** The shape of one accepted record. *)
  Definition rr_shape (s s' : pstate) : Prop :=
    exists ne w,
      check_compressed_name p (ps_off s) = Ok ne /\ ps_off s < ne /\ ne + 10 <= length p /\
      be16_at p (ne + 8) 203 = Ok w /\ (w < 65536)%N /\
      ps_off s' = ne + 10 + N.to_nat w /\ ps_off s' <= length p.

  Lemma opt_loop_keeps s2 st e : opt_inv p st e s2 ->
    hoarec (opt_loop_c p s2) (fun s' => ps_off s' = e).
  Proof. apply opt_loop_spec. Qed.

  Lemma parse_opt_off s : pinv p s ->
    hoarec (parse_opt_c p s)
           (fun s' => exists w, be16_at p (ps_off s + 8) 203 = Ok w /\
                                ps_off s' = ps_off s + 10 + N.to_nat w /\ ps_off s' <= length p).
  Proof.
    intros H. unfold parse_opt_c. destruct (ps_edns_end s); [exact I|].
    eapply hoarec_bind; [apply hoarec_lift, u8_load_spec; assumption|]. intros rc _.
    eapply hoarec_bind; [apply hoarec_lift, u8_load_spec; assumption|]. intros ver _.
    eapply hoarec_bind; [apply hoarec_lift, be16_load_spec; assumption|]. intros mp _.
    eapply hoarec_bind; [apply hoarec_lift, be16_load_spec; assumption|]. intros xf _.
    eapply hoarec_bind; [apply hoarec_lift, be16_load_eq; assumption|].
    intros el (Hel & Hlt & _). unfold DNS_OPT_RR_RDLEN_OFFSET in Hel.
    eapply hoarec_bind; [apply hoarec_lift, increment_offset_spec; exact H|].
    intros s1 [-> Hl1]. unfold DNS_OPT_RR_HEADER_SIZE in *.
    assert (H1 : pinv p (ps_set_off s (ps_off s + 10))) by (unfold pinv; cbn; lia).
    eapply hoarec_bind; [apply hoarec_lift, ensure_remaining_len_spec; exact H1|].
    intros ? Hl2. cbv beta in Hl2. cbn [ps_off ps_set_off] in *.
    eapply hoarec_weaken.
    - apply opt_loop_spec with (st := ps_off s + 10) (e := ps_off s + 10 + N.to_nat el).
      unfold opt_inv. cbn [ps_edns_count ps_off ps_edns_end]. repeat split; try reflexivity; lia.
    - cbv beta. intros s' Hs'. exists el. repeat split; [exact Hel|lia|lia].
  Qed.

  Lemma parse_rr_rdata_off s t rdlen : pinv p s -> (N.of_nat rdlen < 65536)%N ->
    hoarec (parse_rr_rdata_c p s t rdlen)
           (fun s' => ps_off s' = ps_off s + 10 + rdlen /\ ps_off s' <= length p).
  Proof.
    intros H1 Hrd. unfold parse_rr_rdata_c, DNS_RR_HEADER_SIZE.
    split_if.
    { split_if; [exact I|].
      eapply hoarec_bind; [apply hoarec_lift, increment_offset_spec; exact H1|].
      intros s2 [-> Hl2]. cbn [ps_off ps_set_off] in *.
      eapply hoarec_bind; [apply hoarec_callc, check_compressed_name_spec|].
      intros f Hf. cbv beta in Hf.
      eapply hoarec_bind; [apply hoarec_lift; apply usub_spec; lia|].
      intros d ->. split_if; [exact I|].
      apply hoarec_lift. eapply hoare_weaken; [apply increment_offset_spec; unfold pinv; cbn; lia|].
      cbv beta. intros s' [-> Hl]. cbn [ps_off ps_set_off] in *. lia. }
    split_if.
    { split_if; [exact I|].
      eapply hoarec_bind; [apply hoarec_lift, increment_offset_spec; exact H1|].
      intros s2 [-> Hl2]. cbn [ps_off ps_set_off] in *.
      eapply hoarec_bind; [apply hoarec_callc, check_compressed_name_spec|].
      intros f Hf. cbv beta in Hf.
      eapply hoarec_bind; [apply hoarec_lift; apply usub_spec; lia|].
      intros d ->. split_if; [exact I|].
      apply hoarec_lift. eapply hoare_weaken; [apply increment_offset_spec; unfold pinv; cbn; lia|].
      cbv beta. intros s' [-> Hl]. cbn [ps_off ps_set_off] in *. lia. }
    split_if.
    { split_if; [exact I|].
      eapply hoarec_bind; [apply hoarec_lift, increment_offset_spec; exact H1|].
      intros s2 [-> Hl2]. cbn [ps_off ps_set_off] in *.
      eapply hoarec_bind; [apply hoarec_callc, check_compressed_name_spec|].
      intros f1 Hf1. cbv beta in Hf1.
      eapply hoarec_bind; [apply hoarec_callc, check_compressed_name_spec|].
      intros f2 Hf2. cbv beta in Hf2.
      eapply hoarec_bind; [apply hoarec_lift; apply usub_spec; lia|].
      intros d ->.
      eapply hoarec_bind; [apply hoarec_lift; apply usub_spec; lia|].
      intros d' ->. split_if; [exact I|].
      apply hoarec_lift. eapply hoare_weaken; [apply increment_offset_spec; unfold pinv; cbn; lia|].
      cbv beta. intros s' [-> Hl]. cbn [ps_off ps_set_off] in *. lia. }
    split_if.
    { split_if; [exact I|].
      eapply hoarec_bind; [apply hoarec_lift, increment_offset_spec; exact H1|].
      intros s2 [-> Hl2]. cbn [ps_off ps_set_off] in *.
      eapply hoarec_bind; [apply hoarec_callc, check_uncompressed_name_spec|].
      intros f Hf. cbv beta in Hf.
      eapply hoarec_bind; [apply hoarec_lift; apply usub_spec; lia|].
      intros d ->. split_if; [exact I|].
      apply hoarec_lift. eapply hoare_weaken; [apply increment_offset_spec; unfold pinv; cbn; lia|].
      cbv beta. intros s' [-> Hl]. cbn [ps_off ps_set_off] in *. lia. }
    split_if.
    { split_if; [exact I|].
      apply hoarec_lift. eapply hoare_weaken; [apply increment_offset_spec; exact H1|].
      cbv beta. intros s' [-> Hl]. cbn [ps_off ps_set_off] in *. lia. }
    split_if.
    { split_if; [exact I|].
      apply hoarec_lift. eapply hoare_weaken; [apply increment_offset_spec; exact H1|].
      cbv beta. intros s' [-> Hl]. cbn [ps_off ps_set_off] in *. lia. }
    apply hoarec_lift. eapply hoare_weaken; [apply increment_offset_spec; exact H1|].
    cbv beta. intros s' [-> Hl]. cbn [ps_off ps_set_off] in *. lia.
  Qed.

  Lemma ps_skip_name_eq s :
    hoarec (ps_skip_name_c p s)
           (fun s' => exists e, s' = ps_set_off s e /\ check_compressed_name p (ps_off s) = Ok e /\
                                ps_off s < e /\ e < length p).
  Proof.
    unfold ps_skip_name_c, check_compressed_name_c, hoarec, bindc, callc. cbn [fst snd].
    pose proof (check_compressed_name_spec p (ps_off s)) as Hs.
    destruct (check_compressed_name p (ps_off s)) as [e| |] eqn:E; cbn in *; [|exact I|exact Hs].
    pose proof (set_offset_spec p s e) as Ho.
    destruct (set_offset p s e) as [s'| |]; cbn in *; [|exact I|exact Ho].
    destruct Ho as [-> Hl]. exists e. auto.
  Qed.

  Theorem parse_rr_shape s sec : pinv p s ->
    hoarec (parse_rr_c p s sec) (fun s' => rr_shape s s').
  Proof.
    intros H. unfold parse_rr_c. apply hoarec_tick.
    eapply hoarec_bind; [apply ps_skip_name_eq|].
    intros s1 (e & -> & Hcn & Hlt & Hle).
    assert (H1 : pinv p (ps_set_off s e)) by (unfold pinv; cbn; lia).
    eapply hoarec_bind; [apply hoarec_lift; unfold ps_rr_type; apply be16_load_spec; assumption|].
    intros rr_type _.
    eapply hoarec_bind.
    { apply hoarec_lift. unfold ps_rr_rdlen.
      eapply hoare_bind; [apply be16_load_eq; exact H1|].
      intros w Hw. apply hoare_ret with (Q := fun v => exists w, v = N.to_nat w /\
        be16_at p (e + 8) 203 = Ok w /\ (w < 65536)%N /\ e + 10 <= length p).
      exists w. cbn [ps_off ps_set_off] in Hw. unfold DNS_RR_RDLEN_OFFSET in Hw.
      destruct Hw as (Ha & Hb & Hc). repeat split; auto. lia. }
    intros rdlen (w & -> & Hw & Hwlt & Hel).
    split_if.
    { split_if; [exact I|].
      eapply hoarec_bind; [apply hoarec_lift; cbn [ps_off ps_set_off]; apply usub_spec; lia|].
      intros d ->. split_if; [exact I|].
      eapply hoarec_weaken; [apply parse_opt_off; exact H1|].
      cbv beta. cbn [ps_off ps_set_off]. intros s' (w' & Hw' & Ho & Hl).
      rewrite Hw in Hw'. inversion Hw'; subst w'.
      exists e, w. repeat split; auto. }
    eapply hoarec_weaken; [apply parse_rr_rdata_off; [exact H1|lia]|].
    cbv beta. cbn [ps_off ps_set_off]. intros s' [Ho Hl].
    exists e, w. repeat split; auto.
  Qed.

  (** The chain of record boundaries visited by a section loop. *)
  Inductive rr_chain : pstate -> nat -> pstate -> Prop :=
  | chain_nil s : rr_chain s 0 s
  | chain_cons s s1 s' n : rr_shape s s1 -> pinv p s1 -> rr_chain s1 n s' -> rr_chain s (S n) s'.

  Lemma parse_rrs_chain sec : forall count s, pinv p s ->
    hoarec (parse_rrs_c p s sec count) (fun s' => rr_chain s count s' /\ pinv p s').
  Proof.
    induction count as [|count IH]; intros s H; cbn [parse_rrs_c].
    - apply hoarec_lift. cbn. split; [constructor|exact H].
    - eapply hoarec_bind.
      { pose proof (parse_rr_shape s sec H) as Ha. pose proof (parse_rr_spec p Hbytes s sec H) as Hb.
        unfold hoarec, hoare in *.
        destruct (fst (parse_rr_c p s sec)) as [s1| |]; [|exact I|exact Ha].
        exact (conj Ha (proj1 Hb)). }
      intros s1 [Hsh H1]. eapply hoarec_weaken; [apply IH; exact H1|].
      cbv beta. intros s' [Hc H']. split; [econstructor; eauto|exact H'].
  Qed.
End Inv.

(** ** Shape of a whole accepted packet *)

Record parse_facts (p : bytes) (v : ppacket) (sq san sns sar : pstate) (an ns ar : N) : Prop := {
  pf_len : 12 < length p;
  pf_packet : pp_packet v = p;
  pf_qd : hdr_qdcount p = Ok 1%N;
  pf_han : hdr_ancount p = Ok an;
  pf_hns : hdr_nscount p = Ok ns;
  pf_har : hdr_arcount p = Ok ar;
  pf_q : parse_question p (ps_set_off ps_init 12) = Ok sq;
  pf_inv_q : pinv p sq;
  pf_chain_an : rr_chain p sq (N.to_nat an) san;
  pf_chain_ns : rr_chain p san (N.to_nat ns) sns;
  pf_chain_ar : rr_chain p sns (N.to_nat ar) sar;
  pf_end : ps_off sar = length p;
  pf_oq : pp_offset_question v = Some 12;
  pf_oan : pp_offset_answers v = if (0 <? an)%N then Some (ps_off sq) else None;
  pf_ons : pp_offset_nameservers v = if (0 <? ns)%N then Some (ps_off san) else None;
  pf_oar : pp_offset_additional v = if (0 <? ar)%N then Some (ps_off sns) else None;
  pf_oed : pp_offset_edns v = ps_edns_start sar;
  pf_ec : pp_edns_count v = ps_edns_count sar;
  pf_mc : pp_maybe_compressed v = true;
  pf_cached : pp_cached v = None
}.

Lemma bindc_ok {A B} (m : resc A) (f : A -> resc B) b :
  fst (bindc m f) = Ok b -> exists a, fst m = Ok a /\ fst (f a) = Ok b.
Proof.
  rewrite fst_bindc. destruct (fst m) as [a| |]; cbn [bind]; try discriminate. eauto.
Qed.

Theorem parse_shape : forall p v, bytes_ok p -> parse p = Ok v ->
  exists sq san sns sar an ns ar, parse_facts p v sq san sns sar an ns ar.
Proof.
  intros p v Hb. unfold parse, parse_c, DNS_HEADER_SIZE, DNS_QUESTION_OFFSET.
  split_if; [discriminate|].
  intros H. apply bindc_ok in H. destruct H as (w & Hw & H). cbn [fst lift] in Hw.
  apply bindc_ok in H. destruct H as (qd & Hqd & H). cbn [fst lift] in Hqd.
  destruct (qd =? 0)%N eqn:Eq0; [discriminate|].
  destruct (1 <? qd)%N eqn:Eq1; [discriminate|].
  assert (qd = 1%N) by lia. subst qd.
  apply bindc_ok in H. destruct H as (s0 & Hs0 & H). cbn [fst lift] in Hs0.
  pose proof (set_offset_spec p ps_init 12) as Ho. rewrite Hs0 in Ho. cbn in Ho. destruct Ho as [-> Hl12].
  assert (H0 : pinv p (ps_set_off ps_init 12)) by (unfold pinv; cbn; lia).
  apply bindc_ok in H. destruct H as (s1 & Hs1 & H).
  pose proof (parse_question_spec p Hb _ H0) as Hq. unfold hoarec in Hq. rewrite Hs1 in Hq. cbn in Hq.
  destruct Hq as [H1 _].
  apply bindc_ok in H. destruct H as (an & Han & H). cbn [fst lift] in Han.
  destruct (negb (word_is_response w) && (0 <? an)%N) eqn:Ean; [discriminate|].
  apply bindc_ok in H. destruct H as (s2 & Hs2 & H).
  pose proof (parse_rrs_chain p Hb SAnswer (N.to_nat an) s1 H1) as Hc2. unfold hoarec in Hc2.
  rewrite Hs2 in Hc2. cbn in Hc2. destruct Hc2 as [Hc2 H2].
  apply bindc_ok in H. destruct H as (ns & Hns & H). cbn [fst lift] in Hns.
  destruct (negb (word_is_response w) && (0 <? ns)%N) eqn:Ens; [discriminate|].
  apply bindc_ok in H. destruct H as (s3 & Hs3 & H).
  pose proof (parse_rrs_chain p Hb SNameServers (N.to_nat ns) s2 H2) as Hc3. unfold hoarec in Hc3.
  rewrite Hs3 in Hc3. cbn in Hc3. destruct Hc3 as [Hc3 H3].
  apply bindc_ok in H. destruct H as (ar & Har & H). cbn [fst lift] in Har.
  apply bindc_ok in H. destruct H as (s4 & Hs4 & H).
  pose proof (parse_rrs_chain p Hb SAdditional (N.to_nat ar) s3 H3) as Hc4. unfold hoarec in Hc4.
  rewrite Hs4 in Hc4. cbn in Hc4. destruct Hc4 as [Hc4 H4].
  apply bindc_ok in H. destruct H as (r & Hr & H). cbn [fst lift] in Hr.
  pose proof (remaining_len_spec p s4 H4) as Hrl. rewrite Hr in Hrl. cbn in Hrl.
  destruct (0 <? r) eqn:Er; [discriminate|].
  cbn [fst lift] in H. inversion H; subst v; clear H.
  unfold pinv in H4.
  exists s1, s2, s3, s4, an, ns, ar.
  split;
    cbn [pp_packet pp_offset_question pp_offset_answers pp_offset_nameservers pp_offset_additional
         pp_offset_edns pp_edns_count pp_maybe_compressed pp_cached ps_off ps_set_off];
    try reflexivity; try assumption; try lia.
Qed.
