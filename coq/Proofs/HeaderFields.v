(** * The id, opcode and rcode getters against the 16-bit words of the header (C04): the byte-level reads of the code
    ([packet[3] & 0x0f], [(packet[2] & 0x78) >> 3]) are the RFC 1035 fields of the big-endian flag word. *)
From DV Require Import Model.Base Model.Parser Model.Header Spec.PacketSpec Proofs.Hoare Proofs.ParseSound.
From Coq Require Import ZArith Lia ZifyBool ZifyNat ZifyN.
Ltac Zify.zify_post_hook ::= Z.div_mod_to_equations.
Local Open Scope N_scope.

Lemma below_in256 x : x < 256 -> In x (map N.of_nat (seq 0 256)).
Proof. intros H. rewrite <- (N2Nat.id x). apply in_map. apply in_seq. lia. Qed.

Lemma b_rcode_mod b : b < 256 -> b_rcode b = b mod 16.
Proof.
  intros H. assert (S : forallb (fun b => b_rcode b =? b mod 16) (map N.of_nat (seq 0 256)) = true) by (vm_compute; reflexivity).
  rewrite forallb_forall in S. specialize (S b (below_in256 b H)). apply N.eqb_eq in S. exact S.
Qed.

Lemma b_opcode_div b : b < 256 -> b_opcode b = (b / 8) mod 16.
Proof.
  intros H. assert (S : forallb (fun b => b_opcode b =? (b / 8) mod 16) (map N.of_nat (seq 0 256)) = true) by (vm_compute; reflexivity).
  rewrite forallb_forall in S. specialize (S b (below_in256 b H)). apply N.eqb_eq in S. exact S.
Qed.

Theorem header_fields : forall p t w, bytes_ok p -> u16_at p 0 t -> u16_at p 2 w ->
  pk_tid p = Ok t /\ pk_rcode p = Ok (w mod 16) /\ pk_opcode p = Ok ((w / 2048) mod 16).
Proof.
  intros p t w Hb Ht (hi & lo & Hhi & Hlo & ->).
  pose proof (bytes_ok_nth _ _ _ Hb Hhi) as Bh. pose proof (bytes_ok_nth _ _ _ Hb Hlo) as Bl.
  split; [apply be16_at_u16; exact Ht|].
  unfold pk_rcode, pk_opcode, byte_at, DNS_FLAGS_OFFSET. cbn [Nat.add] in *. rewrite Hhi, Hlo. cbn [bind].
  rewrite (b_rcode_mod lo Bl), (b_opcode_div hi Bh). split; f_equal; lia.
Qed.
