(** * Decompression keeps the 12-byte header (part of C05). *)
From DV Require Import Model.Base Model.NameCheck Model.Parser Model.Header Model.Readers Model.Uncompress
  Proofs.ListLemmas Proofs.Hoare Proofs.HeaderBits.
From Coq Require Import ZifyBool ZifyNat ZifyN.

Lemma bind_ok {A B} (m : res A) (f : A -> res B) b :
  bind m f = Ok b -> exists a, m = Ok a /\ f a = Ok b.
Proof. destruct m; cbn; try discriminate; eauto. Qed.

Lemma walk_fold_inv {Acc} (I : Acc -> Prop) next (body : Acc -> rrit -> res Acc) :
  (forall acc it acc', I acc -> body acc it = Ok acc' -> I acc') ->
  forall fuel cur acc r, I acc -> walk_fold fuel next body cur acc = Ok r -> I r.
Proof.
  intros Hb. induction fuel as [|fuel IH]; intros cur acc r Hi H.
  - destruct cur; cbn in H; [discriminate|]. inversion H; subst; exact Hi.
  - destruct cur as [it|]; cbn [walk_fold] in H; [|inversion H; subst; exact Hi].
    apply bind_ok in H. destruct H as (acc' & Hacc & H).
    apply bind_ok in H. destruct H as (nxt & Hn & H).
    eapply IH; [|exact H]. eapply Hb; eauto.
Qed.

(** [copy_uncompressed_name] only appends to the vector it is given. *)
Lemma cu_step_appends name0 p s :
  (exists sfx, cu_name s = name0 ++ sfx) ->
  match cu_step p s with
  | Done r => okpost r (fun r => exists sfx, fst (fst r) = name0 ++ sfx)
  | Continue s' => exists sfx, cu_name s' = name0 ++ sfx
  end.
Proof.
  intros (sfx & Hs). unfold cu_step.
  destruct (nth_error p (cu_off s)) as [len|]; [|exact I].
  destruct (N.land len 192 =? 192)%N.
  - destruct (nth_error p (cu_off s + 1)) as [lo|]; [|exact I].
    destruct (cu_off s <=? _); [exact I|]. cbn [cu_name]. eauto.
  - destruct (slice p (cu_off s) (cu_off s + 1 + N.to_nat len) 414) as [lab| |]; [|exact I|exact I].
    destruct (N.to_nat len =? 0); cbn [okpost fst cu_name]; rewrite Hs, <- app_assoc; eauto.
Qed.

Lemma copy_uncompressed_name_appends name0 p off name l f :
  copy_uncompressed_name name0 p off = Ok (name, l, f) -> exists sfx, name = name0 ++ sfx.
Proof.
  unfold copy_uncompressed_name. intros H.
  apply (run_loop_okpost (cu_step p) (fun s => exists sfx, cu_name s = name0 ++ sfx)
           (fun r => exists sfx, fst (fst r) = name0 ++ sfx) (cu_step_appends name0 p)) in H.
  - exact H.
  - exists []. cbn [cu_name]. rewrite app_nil_r. reflexivity.
Qed.

Section F.
  Variable p : bytes.

  Definition hdr_kept (out : bytes) : Prop := firstn 12 out = firstn 12 p /\ 12 <= length out.

  Lemma hdr_kept_app out x : hdr_kept out -> hdr_kept (out ++ x).
  Proof.
    intros [H L]. split; [|rewrite app_length; lia].
    rewrite firstn_app. replace (12 - length out) with 0 by lia. rewrite firstn_O, app_nil_r. exact H.
  Qed.

  Lemma hdr_kept_patch out at_ v site out' :
    hdr_kept out -> 12 <= at_ -> patch_u16 out at_ v site = Ok out' -> hdr_kept out'.
  Proof.
    intros [H L] Ha Hp. unfold patch_u16 in Hp.
    pose proof (write_at_length _ _ _ _ _ Hp) as Hl.
    split; [|lia]. rewrite <- H.
    apply nth_error_ext. intros j.
    destruct (Nat.lt_ge_cases j 12) as [Hj|Hj].
    - rewrite !nth_error_firstn by exact Hj. eapply write_at_other; [exact Hp|lia].
    - rewrite !nth_error_firstn_ge by exact Hj. reflexivity.
  Qed.

  Lemma uncompress_rdata_kept out q ne t l out' :
    hdr_kept out -> uncompress_rdata out q ne t l = Ok out' -> hdr_kept out'.
  Proof.
    intros Hk H. unfold uncompress_rdata in H.
    destruct t as [t|].
    2:{ apply bind_ok in H. destruct H as (h & _ & H). inversion H; subst. apply hdr_kept_app, Hk. }
    destruct (is_name_type t).
    { apply bind_ok in H. destruct H as (h & _ & H).
      apply bind_ok in H. destruct H as ([[o1 n1] f1] & Hc & H).
      destruct (copy_uncompressed_name_appends _ _ _ _ _ _ Hc) as (sfx & ->).
      eapply hdr_kept_patch; [| |exact H]; [|destruct Hk; lia].
      apply hdr_kept_app, hdr_kept_app, Hk. }
    destruct (t =? TYPE_MX)%N.
    { apply bind_ok in H. destruct H as (h & _ & H).
      apply bind_ok in H. destruct H as ([[o1 n1] f1] & Hc & H).
      destruct (copy_uncompressed_name_appends _ _ _ _ _ _ Hc) as (sfx & ->).
      eapply hdr_kept_patch; [| |exact H]; [|destruct Hk; lia].
      apply hdr_kept_app, hdr_kept_app, Hk. }
    destruct (t =? TYPE_SOA)%N.
    { apply bind_ok in H. destruct H as (h & _ & H).
      apply bind_ok in H. destruct H as ([[o1 n1] f1] & Hc1 & H).
      apply bind_ok in H. destruct H as ([[o2 n2] f2] & Hc2 & H).
      apply bind_ok in H. destruct H as (tail & _ & H).
      destruct (copy_uncompressed_name_appends _ _ _ _ _ _ Hc1) as (sfx1 & ->).
      destruct (copy_uncompressed_name_appends _ _ _ _ _ _ Hc2) as (sfx2 & ->).
      eapply hdr_kept_patch; [| |exact H]; [|destruct Hk; lia].
      apply hdr_kept_app, hdr_kept_app, hdr_kept_app, hdr_kept_app, Hk. }
    apply bind_ok in H. destruct H as (l' & _ & H).
    apply bind_ok in H. destruct H as (h & _ & H). inversion H; subst. apply hdr_kept_app, Hk.
  Qed.

  Lemma emit_record_kept v ref q acc it acc' :
    hdr_kept (fst acc) -> emit_record v ref q acc it = Ok acc' -> hdr_kept (fst acc').
  Proof.
    destruct acc as [out no]. cbn [fst]. intros Hk H. unfold emit_record in H.
    apply bind_ok in H. destruct H as ([nm l] & _ & H).
    apply bind_ok in H. destruct H as (o & _ & H).
    destruct q.
    - apply bind_ok in H. destruct H as (out' & Hu & H). inversion H; subst. cbn [fst].
      eapply uncompress_rdata_kept; [|exact Hu]. apply hdr_kept_app, Hk.
    - apply bind_ok in H. destruct H as (t & _ & H).
      apply bind_ok in H. destruct H as (l' & _ & H).
      apply bind_ok in H. destruct H as (out' & Hu & H). inversion H; subst. cbn [fst].
      eapply uncompress_rdata_kept; [|exact Hu]. apply hdr_kept_app, Hk.
  Qed.
End F.

Theorem uncompress_keeps_header : forall p off out o,
  uncompress_with_previous_offset p off = Ok (out, o) ->
  firstn 12 out = firstn 12 p /\ 12 <= length out.
Proof.
  intros p off out o H. unfold uncompress_with_previous_offset, DNS_HEADER_SIZE in H.
  destruct (length p <? 12) eqn:El; [discriminate|].
  apply bind_ok in H. destruct H as (v & _ & H).
  assert (K0 : hdr_kept p (fst (firstn 12 p, @None nat))).
  { cbn [fst]. split; [apply firstn_firstn|rewrite firstn_length; lia]. }
  apply bind_ok in H. destruct H as (q0 & _ & H).
  apply bind_ok in H. destruct H as (a1 & Hw1 & H).
  apply (walk_fold_inv (fun a => hdr_kept p (fst a))) in Hw1; [|intros; eapply emit_record_kept; eauto|exact K0].
  apply bind_ok in H. destruct H as (a0 & _ & H).
  apply bind_ok in H. destruct H as (a2 & Hw2 & H).
  apply (walk_fold_inv (fun a => hdr_kept p (fst a))) in Hw2; [|intros; eapply emit_record_kept; eauto|exact Hw1].
  apply bind_ok in H. destruct H as (n0 & _ & H).
  apply bind_ok in H. destruct H as (a3 & Hw3 & H).
  apply (walk_fold_inv (fun a => hdr_kept p (fst a))) in Hw3; [|intros; eapply emit_record_kept; eauto|exact Hw2].
  apply bind_ok in H. destruct H as (d0 & _ & H).
  apply bind_ok in H. destruct H as (a4 & Hw4 & H).
  apply (walk_fold_inv (fun a => hdr_kept p (fst a))) in Hw4; [|intros; eapply emit_record_kept; eauto|exact Hw3].
  destruct a4 as [out4 no4]. apply bind_ok in H. destruct H as (o' & _ & H).
  inversion H; subst. exact Hw4.
Qed.
