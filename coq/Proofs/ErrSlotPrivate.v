(** * Error descriptions are private to the calling thread (C16). *)
From DV Require Import Model.Base Model.ErrSlot.
From Coq Require Import Arith Lia.

Lemma run_sched_spec : forall ops s rev_hist,
  (forall t, s t = last_fail t rev_hist) ->
  run_sched s ops = reads_with_history rev_hist ops.
Proof.
  induction ops as [|op ops IH]; intros s h Hs; [reflexivity|].
  destruct op as [t m|t]; cbn [run_sched reads_with_history].
  - apply IH. intros u. unfold slot_set. cbn [last_fail]. rewrite (Nat.eqb_sym t u).
    destruct (Nat.eqb u t); [reflexivity|apply Hs].
  - rewrite Hs. f_equal. apply IH. intros u. cbn [last_fail]. apply Hs.
Qed.

(** For every interleaving of any number of threads: what a thread reads is the message of that
    thread's most recent failure before the read (or the initial empty description). *)
Theorem thread_private : forall ops, run_sched slots_init ops = reads_with_history [] ops.
Proof. intros ops. apply run_sched_spec. intros t. reflexivity. Qed.

(** Steps of other threads never change what thread [t] reads. *)
Theorem other_threads_irrelevant : forall ops t,
  last_fail t (filter (fun o => match o with CFail u _ => Nat.eqb u t | CRead u => Nat.eqb u t end) ops)
  = last_fail t ops.
Proof.
  induction ops as [|op ops IH]; intros t; [reflexivity|].
  destruct op as [u m|u]; cbn [filter last_fail].
  - destruct (Nat.eqb u t) eqn:E; cbn [last_fail]; [rewrite E; reflexivity|apply IH].
  - destruct (Nat.eqb u t); cbn [last_fail]; apply IH.
Qed.
