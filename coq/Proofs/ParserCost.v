(** * Validation work is linear in the packet size (C18).

    [parse_steps p] counts one step per iteration of the two name-walking loops, per EDNS option
    visited and per question / record visited - exactly what the [cfg(dnssector_verif)] counter
    of the implementation counts.  Theorem: [parse_steps p <= 75 * length p + 817].

    Potential argument: every record that parses successfully costs at most 75 steps per byte
    it consumes (at least 11 bytes, at most 817 steps; an OPT record with n option bytes at most
    275 + n steps); the one record that fails costs at most 817 + 75 * (bytes left). *)

From DV Require Import Model.Base Model.NameCheck Model.Parser
  Proofs.Hoare Proofs.NameCheckTotal Proofs.ParserTotal.
From Coq Require Import ZifyBool ZifyNat ZifyN.

Lemma snd_bindc {A B} (m : resc A) (f : A -> resc B) :
  snd (bindc m f) = snd m + match fst m with Ok a => snd (f a) | _ => 0 end.
Proof. unfold bindc. destruct (fst m); cbn [snd]; lia. Qed.

Lemma snd_bindc_le {A B} (m : resc A) (f : A -> resc B) k1 k2 :
  snd m <= k1 -> (forall a, snd (f a) <= k2) -> snd (bindc m f) <= k1 + k2.
Proof.
  intros H1 H2. rewrite snd_bindc. destruct (fst m) as [a| |]; [specialize (H2 a)|..]; lia.
Qed.

Lemma snd_lift {A} (r : res A) : snd (lift r) = 0.
Proof. reflexivity. Qed.

Lemma snd_bindc_lift_le {A B} (r : res A) (f : A -> resc B) k :
  (forall a, snd (f a) <= k) -> snd (bindc (lift r) f) <= k.
Proof. intros H. apply (snd_bindc_le (lift r) f 0 k); [cbn; lia | exact H]. Qed.

Lemma snd_cn p off : snd (check_compressed_name_c p off) <= 272.
Proof. apply cn_cost_bound. Qed.

Lemma snd_un p off : snd (check_uncompressed_name_c p off) <= 272.
Proof. pose proof (un_cost_bound p off). cbn. lia. Qed.

Lemma cn_bind_le {B} p off (f : nat -> resc B) k :
  272 <= k -> (forall a, snd (f a) <= k - 272) ->
  snd (bindc (check_compressed_name_c p off) f) <= k.
Proof.
  intros Hk H. pose proof (snd_bindc_le _ f 272 (k - 272) (snd_cn p off) H). lia.
Qed.

Lemma un_bind_le {B} p off (f : nat -> resc B) k :
  272 <= k -> (forall a, snd (f a) <= k - 272) ->
  snd (bindc (check_uncompressed_name_c p off) f) <= k.
Proof.
  intros Hk H. pose proof (snd_bindc_le _ f 272 (k - 272) (snd_un p off) H). lia.
Qed.

(** Cost of the non-OPT arms: at most two name walks. *)
Lemma parse_rr_rdata_cost p s t l : snd (parse_rr_rdata_c p s t l) <= 544.
Proof.
  unfold parse_rr_rdata_c.
  repeat first
    [ split_if
    | rewrite snd_lift; lia
    | apply snd_bindc_lift_le; intros ?
    | apply cn_bind_le; [lia | intros ?]
    | apply un_bind_le; [lia | intros ?] ].
Qed.

Lemma ps_skip_name_cost p s : snd (ps_skip_name_c p s) <= 272.
Proof.
  unfold ps_skip_name_c.
  pose proof (snd_bindc_le (check_compressed_name_c p (ps_off s))
                (fun o => lift (set_offset p s o)) 272 0 (snd_cn _ _)) as H.
  cbv beta in H. specialize (H (fun _ => le_n 0)). lia.
Qed.

Section C.
  Variable p : bytes.
  Hypothesis Hbytes : bytes_ok p.

  Definition pot (s : pstate) : nat := 75 * (length p - ps_off s).

  (** The amortised statement for one parsing stage starting in state [s]. *)
  Definition cpost (s : pstate) (m : resc pstate) : Prop :=
    match fst m with
    | Ok s' => pinv p s' /\ snd m + pot s' <= pot s
    | _ => snd m <= pot s + 817
    end.

  Lemma parse_question_cost s : pinv p s -> cpost s (parse_question_c p s).
  Proof.
    intros H. pose proof (parse_question_spec p Hbytes s H) as Hs.
    assert (Hc : snd (parse_question_c p s) <= 273).
    { unfold parse_question_c, tick. cbn [snd].
      apply le_n_S.
      eapply Nat.le_trans; [apply (snd_bindc_le _ _ 272 0); [apply ps_skip_name_cost|intros s1]|lia].
      apply snd_bindc_lift_le; intros ?. apply snd_bindc_lift_le; intros ?.
      rewrite snd_lift. lia. }
    unfold cpost, hoarec, hoare in *.
    destruct (fst (parse_question_c p s)) as [s'| |]; unfold pot, pinv in *; lia.
  Qed.

  (** The option loop, with the number of iterations related to the bytes consumed. *)
  Lemma opt_loop_cost st e s : opt_inv p st e s ->
    snd (opt_loop_c p s) <= (e - ps_off s) + 1.
  Proof.
    intros H. unfold opt_loop_c, callc. cbn [snd].
    pose proof (loop_count_le (opt_step p) (opt_inv p st e) (fun s' => ps_off s' = e)
                  (fun s => e - ps_off s) (fun s0 => opt_step_ok p st e s0)
                  (length p + 1) s H) as Hc.
    cbv beta in Hc.
    destruct (run_loop (opt_step p) (length p + 1) s); lia.
  Qed.

  Lemma parse_opt_cost s : pinv p s ->
    match fst (parse_opt_c p s) with
    | Ok s' => snd (parse_opt_c p s) + 10 <= ps_off s' - ps_off s + 1
    | _ => snd (parse_opt_c p s) <= length p - ps_off s + 1
    end.
  Proof.
    intros H. unfold parse_opt_c.
    destruct (ps_edns_end s); [cbn; lia|].
    pose proof (u8_load_spec p Hbytes s DNS_OPT_RR_EXT_RCODE_OFFSET H) as H1.
    rewrite fst_bindc, snd_bindc. cbn [fst snd lift].
    destruct (u8_load p s DNS_OPT_RR_EXT_RCODE_OFFSET) as [rc| |]; cbn [bind]; try lia.
    rewrite fst_bindc, snd_bindc. cbn [fst snd lift].
    destruct (u8_load p s DNS_OPT_RR_EDNS_VERSION_OFFSET) as [ver| |]; cbn [bind]; try lia.
    rewrite fst_bindc, snd_bindc. cbn [fst snd lift].
    destruct (be16_load p s DNS_OPT_RR_MAX_PAYLOAD_OFFSET) as [mp| |]; cbn [bind]; try lia.
    rewrite fst_bindc, snd_bindc. cbn [fst snd lift].
    destruct (be16_load p s DNS_OPT_RR_EDNS_EXT_FLAGS_OFFSET) as [xf| |]; cbn [bind]; try lia.
    rewrite fst_bindc, snd_bindc. cbn [fst snd lift].
    pose proof (be16_load_spec p Hbytes s DNS_OPT_RR_RDLEN_OFFSET H) as Hel.
    destruct (be16_load p s DNS_OPT_RR_RDLEN_OFFSET) as [el| |]; cbn [bind]; try lia.
    cbn [hoare] in Hel. destruct Hel as [Hel _].
    rewrite fst_bindc, snd_bindc. cbn [fst snd lift].
    pose proof (increment_offset_spec p s DNS_OPT_RR_HEADER_SIZE H) as Hi.
    destruct (increment_offset p s DNS_OPT_RR_HEADER_SIZE) as [s1| |]; cbn [bind]; try lia.
    cbn [hoare] in Hi. destruct Hi as [-> Hl1]. unfold DNS_OPT_RR_HEADER_SIZE in *.
    rewrite fst_bindc, snd_bindc. cbn [fst snd lift].
    assert (H1' : pinv p (ps_set_off s (ps_off s + 10))) by (unfold pinv; cbn; lia).
    pose proof (ensure_remaining_len_spec p (ps_set_off s (ps_off s + 10)) (N.to_nat el) H1') as He.
    destruct (ensure_remaining_len p (ps_set_off s (ps_off s + 10)) (N.to_nat el)); cbn [bind]; try lia.
    cbn [hoare ps_off ps_set_off] in He.
    match goal with |- context [opt_loop_c p ?s2] => set (s2' := s2) end.
    assert (Hinv : opt_inv p (ps_off s + 10) (ps_off s + 10 + N.to_nat el) s2').
    { unfold opt_inv, s2'. cbn [ps_edns_count ps_off ps_edns_end ps_set_off]. repeat split; try reflexivity; lia. }
    pose proof (opt_loop_cost _ _ _ Hinv) as Hc.
    pose proof (opt_loop_spec p _ _ _ Hinv) as Hr.
    unfold hoarec, hoare in Hr.
    destruct (fst (opt_loop_c p s2')) as [s'| |]; unfold s2' in *; cbn [ps_off ps_set_off] in *; lia.
  Qed.

  Lemma parse_rr_cost s sec : pinv p s -> cpost s (parse_rr_c p s sec).
  Proof.
    intros H. unfold cpost.
    pose proof (parse_rr_spec p Hbytes s sec H) as Hspec. unfold hoarec, hoare in Hspec.
    unfold parse_rr_c in *. unfold tick in *. cbn [fst snd] in *.
    rewrite fst_bindc, snd_bindc in *.
    pose proof (ps_skip_name_spec p s) as Hsk. unfold hoarec, hoare in Hsk.
    pose proof (ps_skip_name_cost p s) as Hskc.
    destruct (fst (ps_skip_name_c p s)) as [s1| |]; cbn [bind] in *; unfold pot; try lia.
    destruct Hsk as (e & -> & Hlt & Hle).
    assert (H1 : pinv p (ps_set_off s e)) by (unfold pinv; cbn; lia).
    rewrite fst_bindc, snd_bindc in *. cbn [fst snd lift] in *.
    destruct (ps_rr_type p (ps_set_off s e)) as [t| |]; cbn [bind] in *; try lia.
    rewrite fst_bindc, snd_bindc in *. cbn [fst snd lift] in *.
    destruct (ps_rr_rdlen p (ps_set_off s e)) as [l| |]; cbn [bind] in *; try lia.
    destruct (t =? TYPE_OPT)%N.
    - destruct (negb (section_eqb sec SAdditional)); [cbn in *; lia|].
      rewrite fst_bindc, snd_bindc in *. cbn [fst snd lift] in *.
      destruct (usub (ps_off (ps_set_off s e)) (ps_off s) 221) as [d| |]; cbn [bind] in *; try lia.
      destruct (negb (d =? 1)); [cbn in *; lia|].
      pose proof (parse_opt_cost (ps_set_off s e) H1) as Ho.
      cbn [ps_off ps_set_off] in Ho.
      destruct (fst (parse_opt_c p (ps_set_off s e))) as [s'| |]; unfold pinv in *; lia.
    - pose proof (parse_rr_rdata_cost p (ps_set_off s e) t l) as Hc.
      destruct (fst (parse_rr_rdata_c p (ps_set_off s e) t l)) as [s'| |]; unfold pinv in *; lia.
  Qed.

  Lemma parse_rrs_cost sec : forall count s, pinv p s -> cpost s (parse_rrs_c p s sec count).
  Proof.
    induction count as [|count IH]; intros s H; cbn [parse_rrs_c].
    - unfold cpost. cbn. split; [exact H|lia].
    - pose proof (parse_rr_cost s sec H) as H1. unfold cpost in *.
      rewrite fst_bindc, snd_bindc.
      destruct (fst (parse_rr_c p s sec)) as [s1| |]; cbn [bind]; try lia.
      destruct H1 as [Hp1 Hc1]. specialize (IH s1 Hp1).
      destruct (fst (parse_rrs_c p s1 sec count)) as [s2| |]; [destruct IH; split; [assumption|lia] | lia | lia].
  Qed.
End C.

(** Sequential composition of amortised stages. *)
Lemma cpost_seq p (s : pstate) (m : resc pstate) (f : pstate -> resc ppacket) :
  cpost p s m ->
  (forall s', pinv p s' -> snd (f s') <= pot p s' + 817) ->
  snd (bindc m f) <= pot p s + 817.
Proof.
  intros Hm Hf. unfold cpost in Hm. rewrite snd_bindc.
  destruct (fst m) as [s'| |]; try lia.
  destruct Hm as [Hp Hc]. specialize (Hf s' Hp). lia.
Qed.

Theorem parse_linear : forall p, bytes_ok p -> parse_steps p <= 75 * length p + 817.
Proof.
  intros p Hb. unfold parse_steps, parse_c, DNS_HEADER_SIZE, DNS_QUESTION_OFFSET.
  split_if; [cbn [snd lift]; lia|].
  rewrite snd_bindc. cbn [fst snd lift]. destruct (hdr_flags_word p) as [w| |]; try lia.
  rewrite snd_bindc. cbn [fst snd lift]. destruct (hdr_qdcount p) as [qd| |]; try lia.
  split_if; [cbn [snd lift]; lia|]. split_if; [cbn [snd lift]; lia|].
  rewrite snd_bindc. cbn [fst snd lift].
  pose proof (set_offset_spec p ps_init 12) as Hs0.
  destruct (set_offset p ps_init 12) as [s0| |]; try lia.
  cbn [hoare] in Hs0. destruct Hs0 as [-> Hl0].
  assert (H0 : pinv p (ps_set_off ps_init 12)) by (unfold pinv; cbn; lia).
  assert (Hpot0 : pot p (ps_set_off ps_init 12) = 75 * (length p - 12)) by reflexivity.
  (* each stage either fails within its budget or hands a smaller potential to the next *)
  eapply Nat.le_trans.
  { apply (cpost_seq p _ _ _ (parse_question_cost p Hb _ H0)).
    intros s1 H1. rewrite snd_bindc. cbn [fst snd lift].
    destruct (hdr_ancount p) as [an| |]; try lia.
    split_if; [cbn [snd lift]; lia|].
    pose proof (parse_rrs_cost p Hb SAnswer (N.to_nat an) s1 H1) as Han. unfold cpost in Han.
    rewrite snd_bindc.
    destruct (fst (parse_rrs_c p s1 SAnswer (N.to_nat an))) as [s2| |]; try lia.
    destruct Han as [H2 Hc2].
    rewrite snd_bindc. cbn [fst snd lift].
    destruct (hdr_nscount p) as [ns| |]; try lia.
    split_if; [cbn [snd lift]; lia|].
    pose proof (parse_rrs_cost p Hb SNameServers (N.to_nat ns) s2 H2) as Hns. unfold cpost in Hns.
    rewrite snd_bindc.
    destruct (fst (parse_rrs_c p s2 SNameServers (N.to_nat ns))) as [s3| |]; try lia.
    destruct Hns as [H3 Hc3].
    rewrite snd_bindc. cbn [fst snd lift].
    destruct (hdr_arcount p) as [ar| |]; try lia.
    pose proof (parse_rrs_cost p Hb SAdditional (N.to_nat ar) s3 H3) as Har. unfold cpost in Har.
    rewrite snd_bindc.
    destruct (fst (parse_rrs_c p s3 SAdditional (N.to_nat ar))) as [s4| |]; try lia.
    destruct Har as [H4 Hc4].
    rewrite snd_bindc. cbn [fst snd lift].
    destruct (remaining_len p s4) as [r| |]; try lia.
    split_if; cbn [snd lift]; lia. }
  rewrite Hpot0. lia.
Qed.
