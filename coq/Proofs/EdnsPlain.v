(** * The EDNS summary is a function of the OPT record, and decompression keeps it (C08, C04).

    [parse_summary]: the summary the parser stores is determined by the first (and only) OPT record
    of the declarative reading - payload size = its class, extended rcode / version / flags = the
    bytes of its TTL, option count = the number of options tiling its data, option offset = 11 bytes
    after its first byte - or is the empty summary when the reading has no OPT record.

    [summary_kept]: the decompressed packet is parsed to the same summary, so the consistency
    assertion of [recompute] (Panic 601 in the model) cannot fire on a freshly parsed packet
    ([recompute_fresh], [insert_prologue_fresh]): the object then is exactly the parse of the
    pointer-free bytes, marked as not compressed. *)

From DV Require Import Model.Base Model.NameCheck Model.Parser Model.Header Model.Readers Model.Uncompress Model.Mutate
  Spec.NameSpec Spec.PacketSpec Spec.RecordSpec Spec.PlainSpec Proofs.ListLemmas Proofs.Hoare Proofs.NameCheckTotal
  Proofs.ParserTotal Proofs.NameIff Proofs.ParserInv Proofs.ParseSound Proofs.ReadersAgree Proofs.ReadersLabels
  Proofs.QuestionSpec Proofs.WalkValues Proofs.SetTtl Proofs.WalkSkip Proofs.UncompressFrame Proofs.PlainWf
  Proofs.EdnsFacts Proofs.EdnsPos.
From Coq Require Import ZifyBool ZifyNat ZifyN.

(** ** Options: count only *)
Lemma opts_read_tile p : forall a b l, opts_read p a b l -> opts_tile p a b (length l).
Proof.
  induction 1 as [a|a b code len l H4 Hc Hlen Hfit Hrest IH]; cbn [length]; [constructor|].
  econstructor; eauto.
Qed.

Lemma opts_tile_fun p : forall a b n, opts_tile p a b n -> forall n', opts_tile p a b n' -> n = n'.
Proof.
  induction 1 as [a|a b len n H4 Hlen Hfit Hrest IH]; intros n' H'.
  - inversion H' as [|? ? ? ? H4' _ _ _]; subst; [reflexivity|lia].
  - inversion H' as [|? ? len' m H4' Hlen' Hfit' Hrest']; subst; [lia|].
    pose proof (u16_at_fun _ _ _ _ Hlen Hlen') as <-. f_equal. apply IH. exact Hrest'.
Qed.

(** ** The summary as a function of the reading's OPT record *)
Definition summary_of (p : bytes) (o : option rec_view) (v : ppacket) : Prop :=
  match o with
  | None => pp_offset_edns v = None /\ pp_edns_count v = 0%N /\ pp_ext_rcode v = None /\ pp_edns_version v = None /\
            pp_ext_flags v = None /\ pp_max_payload v = 512%N
  | Some r =>
    pp_offset_edns v = Some (rv_off r + 11) /\ rv_name_end r = rv_off r + 1 /\ pp_max_payload v = rv_class r /\
    (exists n, opts_tile p (rv_name_end r + 10) (rv_name_end r + 10 + rv_rdlen r) n /\ pp_edns_count v = N.of_nat n) /\
    exists rc ver xf, pp_ext_rcode v = Some rc /\ pp_edns_version v = Some ver /\ pp_ext_flags v = Some xf /\
      (rc < 256)%N /\ (ver < 256)%N /\ (xf < 65536)%N /\ rv_ttl r = (rc * 16777216 + ver * 65536 + xf)%N
  end.

Lemma record_in_list p : forall off l e, records_at p off l e -> forall r, In r l -> exists e0, record_at p r e0.
Proof.
  induction 1 as [|r off' l e Hr Hl IH]; intros r0 Hin; [destruct Hin|].
  destruct Hin as [<-|Hin]; [exists off'; exact Hr|apply IH; exact Hin].
Qed.

Lemma byte_lt p i b : bytes_ok p -> nth_error p i = Some b -> (b < 256)%N.
Proof. intros Hb H. apply nth_error_In in H. unfold bytes_ok in Hb. rewrite Forall_forall in Hb. apply Hb. exact H. Qed.

Theorem parse_summary : forall p v, bytes_ok p -> parse p = Ok v ->
  exists an ns ar qe e1 e2 la ln lr,
    pp_packet v = p /\ cname p 12 qe /\
    hdr_ancount p = Ok an /\ hdr_nscount p = Ok ns /\ hdr_arcount p = Ok ar /\
    records_at p (qe + 4) la e1 /\ length la = N.to_nat an /\
    records_at p e1 ln e2 /\ length ln = N.to_nat ns /\
    records_at p e2 lr (length p) /\ length lr = N.to_nat ar /\
    summary_of p (find is_opt (la ++ ln ++ lr)) v.
Proof.
  intros p v Hb Hp.
  destruct (parse_view_pos p v Hb Hp) as (an & ns & ar & qe & e1 & e2 & la & ln & lr & Hpk & Hcn & Han & Hns & Har &
    Hla & Hlla & Hln & Hlln & Hlr & Hllr & Hsum & Hpos).
  exists an, ns, ar, qe, e1, e2, la, ln, lr. repeat (split; [assumption|]).
  destruct (find is_opt (la ++ ln ++ lr)) as [r|] eqn:Ef.
  - destruct Hpos as [Hne Hst]. apply find_some in Ef. destruct Ef as [Hin _].
    assert (Hrec : exists e0, record_at p r e0).
    { apply in_app_or in Hin. destruct Hin as [Hin|Hin]; [exact (record_in_list p _ _ _ Hla r Hin)|].
      apply in_app_or in Hin. destruct Hin as [Hin|Hin]; [exact (record_in_list p _ _ _ Hln r Hin)|exact (record_in_list p _ _ _ Hlr r Hin)]. }
    destruct Hrec as (e0 & _ & _ & Hcl & Httl & Hrl & He0 & _).
    unfold esum_v in Hsum. rewrite Hst in Hsum.
    destruct Hsum as (e & l & H10 & Hel & Hopts & Hcnt & Hmp & (rc & Hrc & Erc) & (ver & Hver & Ever) & (xf & Hxf & Exf) & Hlen).
    cbn [summary_of]. split; [exact Hst|]. split; [exact Hne|].
    replace (rv_off r + 11 - 8) with (rv_name_end r + 2) in Hmp by lia.
    replace (rv_off r + 11 - 6) with (rv_name_end r + 4) in Hrc by lia.
    replace (rv_off r + 11 - 5) with (rv_name_end r + 4 + 1) in Hver by lia.
    replace (rv_off r + 11 - 4) with (rv_name_end r + 4 + 2) in Hxf by lia.
    replace (rv_off r + 11 - 2) with (rv_name_end r + 8) in Hlen by lia.
    split; [exact (u16_at_fun _ _ _ _ Hmp Hcl)|].
    pose proof (u16_at_fun _ _ _ _ Hlen Hrl) as Elen.
    pose proof (opts_read_span _ _ _ _ Hopts) as Hspan.
    assert (Ee : e = rv_name_end r + 10 + rv_rdlen r) by lia.
    split.
    { exists (length l). split; [|exact Hcnt]. rewrite <- Ee. replace (rv_name_end r + 10) with (rv_off r + 11) by lia.
      apply opts_read_tile. exact Hopts. }
    exists rc, ver, xf. split; [exact Erc|]. split; [exact Ever|]. split; [exact Exf|].
    destruct Httl as (a & b & c & d & Ha & Hb' & Hc & Hd & Ettl).
    destruct Hxf as (hi & lo & Hhi & Hlo & Exf').
    replace (rv_name_end r + 4 + 2 + 1) with (rv_name_end r + 4 + 3) in Hlo by lia.
    rewrite Ha in Hrc. rewrite Hb' in Hver. rewrite Hc in Hhi. rewrite Hd in Hlo.
    inversion Hrc; inversion Hver; inversion Hhi; inversion Hlo; subst.
    pose proof (byte_lt _ _ _ Hb Ha). pose proof (byte_lt _ _ _ Hb Hb'). pose proof (byte_lt _ _ _ Hb Hc). pose proof (byte_lt _ _ _ Hb Hd).
    repeat split; lia.
  - unfold esum_v in Hsum. rewrite Hpos in Hsum. cbn [summary_of]. tauto.
Qed.

(** ** From the compressed packet to the pointer-free one *)
Lemma find_same_rec : forall lx lx', Forall2 same_rec lx lx' ->
  match find is_opt (map fst lx), find is_opt (map fst lx') with
  | None, None => True
  | Some r, Some r' => exists x, In (r, x) lx /\ In (r', x) lx' /\ rv_class r' = rv_class r /\ rv_ttl r' = rv_ttl r
  | _, _ => False
  end.
Proof.
  induction 1 as [|[r x] [r' x'] lx lx' (Hx & _ & Ht & Hc & Htl) Hrest IH]; cbn [map fst find]; [exact I|].
  cbn [fst snd] in *. subst x'.
  assert (Eo' : is_opt r' = is_opt r) by (unfold is_opt; rewrite Ht; reflexivity). rewrite Eo'.
  destruct (is_opt r) eqn:Eo.
  - exists x. split; [left; reflexivity|]. split; [left; reflexivity|]. auto.
  - destruct (find is_opt (map fst lx)) as [r1|], (find is_opt (map fst lx')) as [r1'|]; try exact IH.
    destruct IH as (x1 & I1 & I1' & Hrest'). exists x1. split; [right; exact I1|]. split; [right; exact I1'|exact Hrest'].
Qed.

Lemma seg_agree (p q : bytes) a a' n : a + n <= length p -> a' + n <= length q ->
  firstn n (skipn a p) = firstn n (skipn a' q) -> forall j, j < n -> nth_error q (a' + j) = nth_error p (a + j).
Proof.
  intros Hp Hq E j Hj.
  rewrite <- (nth_error_skipn p a j), <- (nth_error_skipn q a' j).
  rewrite <- (nth_error_firstn _ n j Hj), <- (nth_error_firstn (skipn a p) n j Hj). rewrite E. reflexivity.
Qed.

Lemma reading_records p qls qt lxa lxn lxr : reading p qls qt lxa lxn lxr ->
  forall an ns ar qe e1 e2 la ln lr,
    cname p 12 qe -> hdr_ancount p = Ok an -> hdr_nscount p = Ok ns -> hdr_arcount p = Ok ar ->
    records_at p (qe + 4) la e1 -> length la = N.to_nat an -> records_at p e1 ln e2 -> length ln = N.to_nat ns ->
    records_at p e2 lr (length p) -> length lr = N.to_nat ar ->
    la ++ ln ++ lr = map fst (lxa ++ lxn ++ lxr).
Proof.
  intros [(qe0 & f1 & f2 & Hcn0 & _ & _ & _ & Ha0 & Hn0 & Hr0) _ Han0 Hns0 Har0] an ns ar qe e1 e2 la ln lr
         (ls & Hcn) Han Hns Har Ha Hla Hn Hln Hr Hlr.
  destruct (cname_l_fun _ _ _ _ _ _ Hcn0 Hcn) as [_ <-].
  rewrite Han0 in Han. rewrite Hns0 in Hns. rewrite Har0 in Har. inversion Han; inversion Hns; inversion Har; subst.
  destruct (records_at_fun p _ _ _ Ha0 _ _ Ha ltac:(rewrite map_length; lia)) as [<- <-].
  destruct (records_at_fun p _ _ _ Hn0 _ _ Hn ltac:(rewrite map_length; lia)) as [<- <-].
  destruct (records_at_fun p _ _ _ Hr0 _ _ Hr ltac:(rewrite map_length; lia)) as [<- _].
  rewrite !map_app. reflexivity.
Qed.

Lemma reading_record_in p qls qt lxa lxn lxr : reading p qls qt lxa lxn lxr ->
  forall r x, In (r, x) (lxa ++ lxn ++ lxr) -> rdata_at p r x /\ exists e0, record_at p r e0.
Proof.
  intros [(qe0 & f1 & f2 & _ & _ & _ & _ & Ha0 & Hn0 & Hr0) Hx _ _ _] r x Hin.
  split; [rewrite Forall_forall in Hx; exact (Hx _ Hin)|].
  assert (Hin' : In r (map fst (lxa ++ lxn ++ lxr))) by (apply in_map_iff; exists (r, x); auto).
  rewrite !map_app in Hin'. apply in_app_or in Hin'. destruct Hin' as [H|H]; [exact (record_in_list p _ _ _ Ha0 r H)|].
  apply in_app_or in H. destruct H as [H|H]; [exact (record_in_list p _ _ _ Hn0 r H)|exact (record_in_list p _ _ _ Hr0 r H)].
Qed.

Theorem summary_kept : forall p v q v', bytes_ok p -> parse p = Ok v -> uncompress p = Ok q -> parse q = Ok v' ->
  pp_edns_count v' = pp_edns_count v /\ pp_ext_rcode v' = pp_ext_rcode v /\ pp_edns_version v' = pp_edns_version v /\
  pp_ext_flags v' = pp_ext_flags v /\ pp_max_payload v' = pp_max_payload v.
Proof.
  intros p v q v' Hb Hp Hu Hp'.
  destruct (uncompress_roundtrip p v Hb Hp) as (q0 & v0 & qls & qt & lxa & lxn & lxr & lxa' & lxn' & lxr' &
    Hu0 & Hbq & Hp0 & _ & R & R' & _ & _ & _ & F).
  rewrite Hu in Hu0. inversion Hu0; subst q0. rewrite Hp' in Hp0. inversion Hp0; subst v0.
  destruct (parse_summary p v Hb Hp) as (an & ns & ar & qe & e1 & e2 & la & ln & lr & _ & Hcn & Han & Hns & Har &
    Hla & Hlla & Hln & Hlln & Hlr & Hllr & S).
  destruct (parse_summary q v' Hbq Hp') as (an' & ns' & ar' & qe' & e1' & e2' & la' & ln' & lr' & _ & Hcn' & Han' & Hns' & Har' &
    Hla' & Hlla' & Hln' & Hlln' & Hlr' & Hllr' & S').
  rewrite (reading_records _ _ _ _ _ _ R _ _ _ _ _ _ _ _ _ Hcn Han Hns Har Hla Hlla Hln Hlln Hlr Hllr) in S.
  rewrite (reading_records _ _ _ _ _ _ R' _ _ _ _ _ _ _ _ _ Hcn' Han' Hns' Har' Hla' Hlla' Hln' Hlln' Hlr' Hllr') in S'.
  pose proof (find_same_rec _ _ F) as Hf.
  destruct (find is_opt (map fst (lxa ++ lxn ++ lxr))) as [r|] eqn:E1,
           (find is_opt (map fst (lxa' ++ lxn' ++ lxr'))) as [r'|] eqn:E2; try contradiction.
  - destruct Hf as (x & Hin & Hin' & Ecl & Ettl).
    apply find_some in E1. destruct E1 as [_ Eo]. apply find_some in E2. destruct E2 as [_ Eo'].
    destruct (reading_record_in _ _ _ _ _ _ R _ _ Hin) as (Hx & e0 & Hr).
    destruct (reading_record_in _ _ _ _ _ _ R' _ _ Hin') as (Hx' & e0' & Hr').
    cbn [summary_of] in S, S'.
    destruct S as (_ & _ & Hmp & (n & Ht & Hc) & rc & ver & xf & Erc & Ever & Exf & L1 & L2 & L3 & Ettl1).
    destruct S' as (_ & _ & Hmp' & (n' & Ht' & Hc') & rc' & ver' & xf' & Erc' & Ever' & Exf' & L1' & L2' & L3' & Ettl1').
    rewrite Ettl, Ettl1 in Ettl1'.
    assert (rc' = rc /\ ver' = ver /\ xf' = xf) as (-> & -> & ->) by lia.
    (* the OPT data is opaque in both readings: the same bytes *)
    unfold is_opt in Eo, Eo'. apply N.eqb_eq in Eo. apply N.eqb_eq in Eo'.
    assert (Hraw : x = RdRaw (rdata_of p r) /\ x = RdRaw (rdata_of q r')).
    { destruct x as [ls|pf ls|l1 l2 tl|b]; cbn [rdata_at] in Hx, Hx'.
      - destruct Hx as [Hnt _]. rewrite Eo in Hnt. discriminate.
      - destruct Hx as (_ & Hmx & _). rewrite Eo in Hmx. discriminate.
      - destruct Hx as (_ & Hsoa & _). rewrite Eo in Hsoa. discriminate.
      - destruct Hx as (_ & _ & _ & ->). destruct Hx' as (_ & _ & _ & E). split; [reflexivity|f_equal; exact E]. }
    destruct Hraw as [-> Eraw]. inversion Eraw as [Ebytes]. clear Eraw.
    pose proof (record_at_end _ _ _ Hr) as (He & _ & Hle). pose proof (record_at_end _ _ _ Hr') as (He' & _ & Hle').
    unfold rv_end in He, He'.
    assert (Elen : rv_rdlen r' = rv_rdlen r).
    { apply (f_equal (@length _)) in Ebytes. unfold rdata_of in Ebytes. rewrite !firstn_length, !skipn_length in Ebytes. lia. }
    unfold rdata_of in Ebytes. rewrite Elen in Ebytes, Ht'.
    pose proof (opts_tile_move p q _ _ _ Ht (rv_name_end r' + 10)) as Hmv.
    replace (rv_name_end r' + 10 + (rv_name_end r + 10 + rv_rdlen r - (rv_name_end r + 10))) with (rv_name_end r' + 10 + rv_rdlen r) in Hmv by lia.
    assert (Hn : n = n').
    { eapply opts_tile_fun; [apply Hmv|exact Ht'].
      intros j Hj. apply (seg_agree p q _ _ (rv_rdlen r)); [lia|lia|exact Ebytes|lia]. }
    subst n'. repeat split; congruence.
  - cbn [summary_of] in S, S'. destruct S as (_ & -> & -> & -> & -> & ->). destruct S' as (_ & -> & -> & -> & -> & ->).
    repeat split; reflexivity.
Qed.

(** ** [recompute] and the prologue of insertion on a freshly parsed object *)
Lemma opt_N_eqb_refl o : opt_N_eqb o o = true.
Proof. destruct o as [x|]; cbn; [apply N.eqb_refl|reflexivity]. Qed.

Lemma parse_maybe_compressed p v : parse p = Ok v -> pp_maybe_compressed v = true.
Proof.
  unfold parse, parse_c. intros H.
  repeat match type of H with
         | fst (if ?c then _ else _) = Ok _ => destruct c; [discriminate|]
         | fst (bindc _ _) = Ok _ => apply bindc_ok in H; destruct H as (? & _ & H)
         end; try discriminate.
  all: cbn [fst lift] in H; inversion H; reflexivity.
Qed.

Definition decompressed_view (v' : ppacket) : ppacket :=
  pp_update v' (pp_packet v') (pp_offset_question v') (pp_offset_answers v') (pp_offset_nameservers v')
            (pp_offset_additional v') (pp_offset_edns v') false None.

Theorem recompute_fresh : forall p v it, bytes_ok p -> parse p = Ok v ->
  exists q v', uncompress p = Ok q /\ parse q = Ok v' /\ pp_packet v' = q /\
               m_recompute (v, it) = ((decompressed_view v', it), Ok tt).
Proof.
  intros p v it Hb Hp.
  destruct (uncompress_roundtrip p v Hb Hp) as (q & v' & qls & qt & lxa & lxn & lxr & lxa' & lxn' & lxr' &
    Hu & Hbq & Hp' & _).
  exists q, v'. split; [exact Hu|]. split; [exact Hp'|].
  destruct (summary_kept p v q v' Hb Hp Hu Hp') as (Ec & Erc & Ever & Exf & Emp).
  assert (Hpk : pp_packet v = p).
  { destruct (parse_view_pos p v Hb Hp) as (? & ? & ? & ? & ? & ? & ? & ? & ? & H & _). exact H. }
  assert (Hpk' : pp_packet v' = q).
  { destruct (parse_view_pos q v' Hbq Hp') as (? & ? & ? & ? & ? & ? & ? & ? & ? & H & _). exact H. }
  split; [exact Hpk'|].
  pose proof (parse_maybe_compressed p v Hp) as Hmc.
  unfold m_recompute, cbind, getv, clift, putv. cbn [fst snd]. rewrite Hmc. cbn [negb]. rewrite Hpk, Hu, Hp'.
  unfold edns_summary_same. rewrite Ec, Erc, Ever, Exf, N.eqb_refl, !opt_N_eqb_refl. cbn [andb negb].
  unfold decompressed_view, pp_update. rewrite Hpk', Ec, Erc, Ever, Exf, Emp. reflexivity.
Qed.


(** the decompress-first prologue of [insert_rr] on a freshly parsed object: same end state *)
Theorem insert_prologue_fresh : forall p v it, bytes_ok p -> parse p = Ok v ->
  exists q v', uncompress p = Ok q /\ parse q = Ok v' /\ pp_packet v' = q /\
               insert_prologue (v, it) = ((decompressed_view v', it), Ok tt).
Proof.
  intros p v it Hb Hp.
  destruct (uncompress_roundtrip p v Hb Hp) as (q & v' & qls & qt & lxa & lxn & lxr & lxa' & lxn' & lxr' &
    Hu & Hbq & Hp' & Hfix & _).
  exists q, v'. split; [exact Hu|]. split; [exact Hp'|].
  destruct (summary_kept p v q v' Hb Hp Hu Hp') as (Ec & Erc & Ever & Exf & Emp).
  assert (Hpk : pp_packet v = p).
  { destruct (parse_view_pos p v Hb Hp) as (? & ? & ? & ? & ? & ? & ? & ? & ? & H & _). exact H. }
  assert (Hpk' : pp_packet v' = q).
  { destruct (parse_view_pos q v' Hbq Hp') as (? & ? & ? & ? & ? & ? & ? & ? & ? & H & _). exact H. }
  split; [exact Hpk'|].
  pose proof (parse_maybe_compressed p v Hp) as Hmc.
  unfold insert_prologue, m_recompute, cbind, getv, clift, putv, cret. cbn [fst snd]. rewrite Hmc, Hpk, Hu.
  cbn [fst snd pp_with_packet pp_maybe_compressed pp_packet]. rewrite Hmc. cbn [negb]. rewrite Hfix, Hp'.
  unfold edns_summary_same. cbn [pp_edns_count pp_ext_rcode pp_edns_version pp_ext_flags].
  rewrite Ec, Erc, Ever, Exf, N.eqb_refl, !opt_N_eqb_refl. cbn [andb negb fst snd pp_update pp_maybe_compressed].
  unfold decompressed_view, pp_update. cbn [pp_edns_count pp_ext_rcode pp_edns_version pp_ext_flags pp_max_payload].
  rewrite Hpk', Ec, Erc, Ever, Exf, Emp. reflexivity.
Qed.
