(** * Completeness of the parser with respect to the declarative policy (C02, <=):
    every well-formed packet ([wf_packet]) is accepted by [DNSSector::parse]. *)

From DV Require Import Model.Base Model.NameCheck Model.Parser Spec.NameSpec Spec.PacketSpec
  Proofs.Hoare Proofs.NameCheckTotal Proofs.NameIff Proofs.ParserTotal Proofs.ParserInv Proofs.ParseSound.
From Coq Require Import ZifyBool ZifyNat ZifyN.

Section Cmp.
  Variable p : bytes.
  Hypothesis Hbytes : bytes_ok p.

  Lemma u16_lt off v : u16_at p off v -> (v < 65536)%N.
  Proof.
    intros (hi & lo & H1 & H2 & ->).
    pose proof (bytes_ok_nth _ _ _ Hbytes H1). pose proof (bytes_ok_nth _ _ _ Hbytes H2). lia.
  Qed.

  Lemma u16_len off v : u16_at p off v -> off + 2 <= length p.
  Proof.
    intros (hi & lo & H1 & H2 & _). assert (nth_error p (off + 1) <> None) by congruence.
    apply nth_error_Some in H. lia.
  Qed.

  Lemma ensure_eval s n : ps_off s + n <= length p -> ensure_remaining_len p s n = Ok tt.
  Proof.
    intros H. unfold ensure_remaining_len, remaining_len, usub.
    destruct (ps_off s <=? length p) eqn:E; [|lia]. cbn [bind].
    destruct (length p - ps_off s <? n) eqn:E2; [lia|reflexivity].
  Qed.

  Lemma be16_load_eval s k v : u16_at p (ps_off s + k) v -> be16_load p s k = Ok v.
  Proof.
    intros H. pose proof (u16_len _ _ H) as Hl. unfold be16_load.
    rewrite ensure_eval by lia. cbn [bind]. apply be16_at_u16. exact H.
  Qed.

  Lemma u8_load_eval s k : ps_off s + k + 1 <= length p -> exists v, u8_load p s k = Ok v.
  Proof.
    intros H. unfold u8_load. rewrite ensure_eval by lia. cbn [bind]. unfold byte_at.
    destruct (nth_error_some_lt p (ps_off s + k) ltac:(lia)) as [b Hb]. rewrite Hb. eauto.
  Qed.

  Lemma increment_eval s n : ps_off s + n <= length p ->
    increment_offset p s n = Ok (ps_set_off s (ps_off s + n)).
  Proof. intros H. unfold increment_offset. rewrite ensure_eval by lia. reflexivity. Qed.

  Lemma set_offset_eval s o : o < length p -> set_offset p s o = Ok (ps_set_off s o).
  Proof. intros H. unfold set_offset. destruct (length p <=? o) eqn:E; [lia|reflexivity]. Qed.

  Lemma skip_name_eval s e : cname p (ps_off s) e -> e < length p ->
    fst (ps_skip_name_c p s) = Ok (ps_set_off s e).
  Proof.
    intros Hc Hl. apply check_compressed_name_iff in Hc.
    unfold ps_skip_name_c, check_compressed_name_c. rewrite fst_bindc. cbn [fst callc].
    rewrite Hc. cbn [bind fst lift]. apply set_offset_eval. exact Hl.
  Qed.

  Lemma cn_eval off e : cname p off e -> fst (check_compressed_name_c p off) = Ok e.
  Proof. intros H. apply check_compressed_name_iff in H. exact H. Qed.

  Lemma un_eval off e : plain_name p off e -> fst (check_uncompressed_name_c p off) = Ok e.
  Proof. intros H. apply check_uncompressed_name_iff in H. exact H. Qed.

  Lemma usub_eval a b site : b <= a -> usub a b site = Ok (a - b).
  Proof. intros H. unfold usub. destruct (b <=? a) eqn:E; [reflexivity|lia]. Qed.

  (** ** The option loop runs to completion on a tiling *)
  Lemma opt_step_cons st e s len :
    opt_inv p st e s -> ps_off s + 4 <= e -> u16_at p (ps_off s + 2) len -> ps_off s + 4 + N.to_nat len <= e ->
    exists s1, opt_step p s = Continue s1 /\ opt_inv p st e s1 /\ ps_off s1 = ps_off s + 4 + N.to_nat len.
  Proof.
    intros Hinv H4 Hu Hfit.
    destruct (opt_step_cases p st e s Hinv) as [[Hs Ho]|[[er Hs]|(s1 & len' & Hs & Hinv1 & _ & Hu' & Ho1 & _)]].
    - lia.
    - exfalso. destruct Hinv as (He & Hst & Hoe & Hel & H64 & Hc).
      revert Hs. unfold opt_step, edns_remaining_len. rewrite He. unfold usub.
      destruct (ps_off s <=? e) eqn:E0; [|lia]. destruct (e - ps_off s =? 0) eqn:E1; [lia|].
      unfold edns_skip_rr, edns_rr_rdlen, edns_be16_load, edns_ensure_remaining_len, edns_remaining_len.
      rewrite He. unfold usub. rewrite E0. cbn [bind]. unfold DNS_EDNS_RR_RDLEN_OFFSET.
      destruct (e - ps_off s <? 2 + 2) eqn:E2; [lia|]. cbn [bind].
      destruct Hu as (hi & lo & Hhi & Hlo & ->). unfold byte_at. rewrite Hhi. cbn [bind].
      rewrite Hlo. cbn [bind].
      unfold edns_increment_offset, edns_ensure_remaining_len, edns_remaining_len.
      rewrite He. unfold usub. rewrite E0. cbn [bind]. unfold DNS_EDNS_RR_HEADER_SIZE.
      destruct (e - ps_off s <? 4 + N.to_nat (hi * 256 + lo)) eqn:E3; [lia|]. cbn [bind].
      cbn [ps_edns_count ps_set_off]. destruct (65535 <=? ps_edns_count s)%N; discriminate.
    - exists s1. split; [exact Hs|]. split; [exact Hinv1|].
      assert (len' = len).
      { destruct Hu as (h1 & l1 & A1 & A2 & ->). destruct Hu' as (h2 & l2 & B1 & B2 & ->). congruence. }
      subst. exact Ho1.
  Qed.

  Lemma opt_loop_complete : forall a b n, opts_tile p a b n ->
    forall st s fuel, opt_inv p st b s -> ps_off s = a -> n < fuel ->
    exists s', run_loop (opt_step p) fuel s = Ok s' /\ ps_off s' = b /\ ps_edns_end s' = Some b.
  Proof.
    induction 1 as [a|a b len n H4 Hu Hfit Hrest IH]; intros st s fuel Hinv Ho Hf;
      (destruct fuel as [|fuel]; [lia|]); cbn [run_loop].
    - destruct (opt_step_cases p st a s Hinv) as [[Hs Ho']|[[er Hs]|(s1 & len' & Hs & _ & H4' & _)]].
      + rewrite Hs. exists s. split; [reflexivity|]. split; [exact Ho'|apply Hinv].
      + exfalso. destruct Hinv as (He & Hst & Hoe & Hel & H64 & Hc).
        revert Hs. unfold opt_step, edns_remaining_len. rewrite He. unfold usub.
        destruct (ps_off s <=? a) eqn:E0; [|lia]. destruct (a - ps_off s =? 0) eqn:E1; [discriminate|lia].
      + lia.
    - rewrite <- Ho in *.
      destruct (opt_step_cons st b s len Hinv H4 Hu Hfit) as (s1 & Hs & Hinv1 & Ho1).
      rewrite Hs. apply (IH st s1 fuel Hinv1); [exact Ho1|lia].
  Qed.

  Lemma opts_tile_count a b n : opts_tile p a b n -> a + 4 * n <= b.
  Proof. induction 1; lia. Qed.

  Lemma parse_opt_complete s w n :
    ps_off s + 10 <= length p -> ps_edns_end s = None -> u16_at p (ps_off s + 8) w ->
    ps_off s + 10 + N.to_nat w <= length p ->
    opts_tile p (ps_off s + 10) (ps_off s + 10 + N.to_nat w) n ->
    exists s', fst (parse_opt_c p s) = Ok s' /\ ps_off s' = ps_off s + 10 + N.to_nat w /\ seen_of s' = true.
  Proof.
    intros Hl Hend Hw Hfit Ht. unfold parse_opt_c. rewrite Hend.
    assert (Hu2 : exists v, u16_at p (ps_off s + 2) v).
    { destruct (nth_error_some_lt p (ps_off s + 2) ltac:(lia)) as [a Ha].
      destruct (nth_error_some_lt p (ps_off s + 2 + 1) ltac:(lia)) as [b Hb]. exists (a * 256 + b)%N, a, b. auto. }
    assert (Hu6 : exists v, u16_at p (ps_off s + 6) v).
    { destruct (nth_error_some_lt p (ps_off s + 6) ltac:(lia)) as [a Ha].
      destruct (nth_error_some_lt p (ps_off s + 6 + 1) ltac:(lia)) as [b Hb]. exists (a * 256 + b)%N, a, b. auto. }
    destruct Hu2 as [mp Hmp]. destruct Hu6 as [xf Hxf].
    destruct (u8_load_eval s DNS_OPT_RR_EXT_RCODE_OFFSET ltac:(unfold DNS_OPT_RR_EXT_RCODE_OFFSET; lia)) as [rc Hrc].
    destruct (u8_load_eval s DNS_OPT_RR_EDNS_VERSION_OFFSET ltac:(unfold DNS_OPT_RR_EDNS_VERSION_OFFSET; lia)) as [ver Hver].
    unfold DNS_OPT_RR_MAX_PAYLOAD_OFFSET, DNS_OPT_RR_EDNS_EXT_FLAGS_OFFSET, DNS_OPT_RR_RDLEN_OFFSET.
    rewrite fst_bindc. cbn [fst lift]. rewrite Hrc. cbn [bind].
    rewrite fst_bindc. cbn [fst lift]. rewrite Hver. cbn [bind].
    rewrite fst_bindc. cbn [fst lift]. rewrite (be16_load_eval s _ mp Hmp). cbn [bind].
    rewrite fst_bindc. cbn [fst lift]. rewrite (be16_load_eval s _ xf Hxf). cbn [bind].
    rewrite fst_bindc. cbn [fst lift]. rewrite (be16_load_eval s _ w Hw). cbn [bind].
    rewrite fst_bindc. cbn [fst lift]. unfold DNS_OPT_RR_HEADER_SIZE. rewrite increment_eval by lia. cbn [bind].
    rewrite fst_bindc. cbn [fst lift]. rewrite ensure_eval by (cbn [ps_off ps_set_off]; lia). cbn [bind].
    cbn [ps_off ps_set_off].
    match goal with |- context [opt_loop_c p ?s2] => set (s2' := s2) end.
    assert (Hinv : opt_inv p (ps_off s + 10) (ps_off s + 10 + N.to_nat w) s2').
    { pose proof (u16_lt _ _ Hw) as Hwlt.
      unfold opt_inv, s2'. cbn [ps_edns_count ps_off ps_edns_end]. repeat split; try reflexivity; lia. }
    pose proof (opts_tile_count _ _ _ Ht) as Hcnt.
    destruct (opt_loop_complete _ _ _ Ht _ s2' (length p + 1) Hinv eq_refl ltac:(lia)) as (s' & Hr & Ho & He).
    exists s'. unfold opt_loop_c, callc. cbn [fst]. split; [exact Hr|]. split; [exact Ho|].
    unfold seen_of. rewrite He. reflexivity.
  Qed.

  (** ** One record *)
  Lemma parse_rr_rdata_complete s t rdlen :
    (t =? TYPE_OPT)%N = false -> ps_off s + 10 + rdlen <= length p ->
    rdata_wf p t (ps_off s + 10) rdlen ->
    fst (parse_rr_rdata_c p s t rdlen) = Ok (ps_set_off (ps_set_off s (ps_off s + 10)) (ps_off s + 10 + rdlen))
    \/ fst (parse_rr_rdata_c p s t rdlen) = Ok (ps_set_off s (ps_off s + (10 + rdlen))).
  Proof.
    intros Hnopt Hfit Hrd. unfold parse_rr_rdata_c, DNS_RR_HEADER_SIZE. unfold rdata_wf, is_name_type in Hrd.
    destruct ((t =? TYPE_NS)%N || (t =? TYPE_CNAME)%N || (t =? TYPE_PTR)%N) eqn:Ename.
    { destruct Hrd as [Hl Hc]. destruct (rdlen =? 0) eqn:E0; [lia|]. left.
      rewrite fst_bindc. cbn [fst lift]. rewrite increment_eval by lia. cbn [bind ps_off ps_set_off].
      rewrite fst_bindc. rewrite (cn_eval _ _ Hc). cbn [bind].
      rewrite fst_bindc. cbn [fst lift]. rewrite usub_eval by lia. cbn [bind].
      destruct (negb (ps_off s + 10 + rdlen - (ps_off s + 10) =? rdlen)) eqn:E1; [lia|].
      cbn [fst lift]. rewrite increment_eval by (cbn [ps_off ps_set_off]; lia). reflexivity. }
    destruct (t =? TYPE_MX)%N eqn:Emx.
    { destruct Hrd as [Hl Hc]. destruct (rdlen <=? 2) eqn:E0; [lia|]. left.
      rewrite fst_bindc. cbn [fst lift]. rewrite increment_eval by lia. cbn [bind ps_off ps_set_off].
      rewrite fst_bindc. rewrite (cn_eval _ _ Hc). cbn [bind].
      rewrite fst_bindc. cbn [fst lift]. rewrite usub_eval by lia. cbn [bind].
      destruct (negb (ps_off s + 10 + rdlen - (ps_off s + 10) =? rdlen)) eqn:E1; [lia|].
      cbn [fst lift]. rewrite increment_eval by (cbn [ps_off ps_set_off]; lia). reflexivity. }
    destruct (t =? TYPE_SOA)%N eqn:Esoa.
    { destruct Hrd as [Hl (m & Hc1 & Hc2)]. destruct (rdlen <=? 1 + 20) eqn:E0; [lia|]. left.
      assert (Hm : ps_off s + 10 < m).
      { apply check_compressed_name_iff in Hc1. pose proof (check_compressed_name_spec p (ps_off s + 10)) as Hs.
        rewrite Hc1 in Hs. exact Hs. }
      assert (Hm2 : m < ps_off s + 10 + rdlen - 20).
      { apply check_compressed_name_iff in Hc2. pose proof (check_compressed_name_spec p m) as Hs.
        rewrite Hc2 in Hs. exact Hs. }
      rewrite fst_bindc. cbn [fst lift]. rewrite increment_eval by lia. cbn [bind ps_off ps_set_off].
      rewrite fst_bindc. rewrite (cn_eval _ _ Hc1). cbn [bind].
      rewrite fst_bindc. rewrite (cn_eval _ _ Hc2). cbn [bind].
      rewrite fst_bindc. cbn [fst lift]. rewrite usub_eval by lia. cbn [bind].
      rewrite fst_bindc. cbn [fst lift]. rewrite usub_eval by lia. cbn [bind].
      destruct (negb (ps_off s + 10 + rdlen - 20 - (ps_off s + 10) =? rdlen - 20)) eqn:E1; [lia|].
      cbn [fst lift]. rewrite increment_eval by (cbn [ps_off ps_set_off]; lia). reflexivity. }
    destruct (t =? TYPE_DNAME)%N eqn:Edn.
    { destruct Hrd as [Hl Hc]. destruct (rdlen =? 0) eqn:E0; [lia|]. left.
      rewrite fst_bindc. cbn [fst lift]. rewrite increment_eval by lia. cbn [bind ps_off ps_set_off].
      rewrite fst_bindc. rewrite (un_eval _ _ Hc). cbn [bind].
      rewrite fst_bindc. cbn [fst lift]. rewrite usub_eval by lia. cbn [bind].
      destruct (negb (ps_off s + 10 + rdlen - (ps_off s + 10) =? rdlen)) eqn:E1; [lia|].
      cbn [fst lift]. rewrite increment_eval by (cbn [ps_off ps_set_off]; lia). reflexivity. }
    destruct (t =? TYPE_A)%N eqn:Ea.
    { destruct (negb (rdlen =? 4)) eqn:E0; [lia|]. right. cbn [fst lift]. apply increment_eval. lia. }
    destruct (t =? TYPE_AAAA)%N eqn:Eaaaa.
    { destruct (negb (rdlen =? 16)) eqn:E0; [lia|]. right. cbn [fst lift]. apply increment_eval. lia. }
    right. cbn [fst lift]. apply increment_eval. lia.
  Qed.

  Theorem parse_rr_complete s sec seen off' seen' :
    pinv p s -> seen_of s = seen -> rr_wf p sec seen (ps_off s) off' seen' ->
    exists s', fst (parse_rr_c p s sec) = Ok s' /\ ps_off s' = off' /\ seen_of s' = seen' /\ pinv p s'.
  Proof.
    intros Hinv Hseen (ne & t & w & Hcn & Hl & Ht & Hw & Ho & Hfit & Hrest).
    unfold parse_rr_c, tick. cbn [fst].
    rewrite fst_bindc. rewrite (skip_name_eval s ne Hcn ltac:(lia)). cbn [bind].
    rewrite fst_bindc. cbn [fst lift]. unfold ps_rr_type, DNS_RR_TYPE_OFFSET.
    rewrite (be16_load_eval _ 0 t) by (cbn [ps_off ps_set_off]; rewrite Nat.add_0_r; exact Ht). cbn [bind].
    rewrite fst_bindc. cbn [fst lift]. unfold ps_rr_rdlen, DNS_RR_RDLEN_OFFSET.
    rewrite (be16_load_eval _ 8 w) by (cbn [ps_off ps_set_off]; exact Hw). cbn [bind].
    destruct (t =? TYPE_OPT)%N eqn:Eopt.
    - destruct Hrest as (Hsec & Hne & Hs0 & Hs1 & n & Htile). subst sec seen'. rewrite <- Hseen in Hs0.
      cbn [section_eqb negb]. rewrite fst_bindc. cbn [fst lift ps_off ps_set_off].
      rewrite usub_eval by lia. cbn [bind].
      destruct (negb (ne - ps_off s =? 1)) eqn:E1; [lia|].
      destruct (parse_opt_complete (ps_set_off s ne) w n) as (s' & Hr & Ho' & Hse); cbn [ps_off ps_set_off ps_edns_end]; auto; try lia.
      { unfold seen_of in Hs0. destruct (ps_edns_end s); [discriminate|reflexivity]. }
      { rewrite <- Ho. exact Htile. }
      exists s'. cbn [ps_off ps_set_off] in Ho'. repeat split; auto; unfold pinv; lia.
    - destruct Hrest as [Hs1 Hrd]. subst seen'.
      assert (Hne : ps_off (ps_set_off s ne) = ne) by reflexivity.
      destruct (parse_rr_rdata_complete (ps_set_off s ne) t (N.to_nat w) Eopt) as [Hr|Hr];
        rewrite ?Hne; try lia; try exact Hrd; rewrite Hr; eexists; (split; [reflexivity|]);
        cbn [ps_off ps_set_off]; unfold seen_of, pinv in *; cbn [ps_edns_end ps_set_off ps_off]; repeat split; try lia; auto.
  Qed.

  Lemma parse_rrs_complete sec : forall n s seen off' seen',
    pinv p s -> seen_of s = seen -> rrs_wf p sec seen (ps_off s) n off' seen' ->
    exists s', fst (parse_rrs_c p s sec n) = Ok s' /\ ps_off s' = off' /\ seen_of s' = seen' /\ pinv p s'.
  Proof.
    induction n as [|n IH]; intros s seen off' seen' Hinv Hseen Hw; cbn [parse_rrs_c].
    - inversion Hw; subst. exists s. cbn. auto.
    - inversion Hw as [|? ? off1 seen1 ? ? ? Hrr Hrest]; subst.
      destruct (parse_rr_complete s sec _ off1 seen1 Hinv eq_refl Hrr) as (s1 & Hr & Ho & Hs & Hi).
      rewrite fst_bindc, Hr. cbn [bind]. apply (IH s1 seen1); auto. rewrite Ho. exact Hrest.
  Qed.
End Cmp.

Theorem parse_complete : forall p, bytes_ok p -> wf_packet p -> exists v, parse p = Ok v.
Proof.
  intros p Hb (w & an & ns & ar & qe & qclass & e1 & s1 & e2 & s2 & s3 & Hw & Hqd & Han & Hns & Har & Hqn & Hq4 & Hqc & Hcls & Hqr & Ha & Hn & Hr).
  subst qclass.
  assert (Hlen : 12 < length p) by (destruct Hqn as (? & ? & ?); lia).
  unfold parse, parse_c, DNS_HEADER_SIZE, DNS_QUESTION_OFFSET.
  destruct (length p <? 12) eqn:E0; [lia|].
  rewrite fst_bindc. cbn [fst lift]. unfold hdr_flags_word, DNS_FLAGS_OFFSET.
  rewrite (proj2 (be16_at_u16 p 2 231 w) Hw). cbn [bind].
  rewrite fst_bindc. cbn [fst lift]. unfold hdr_qdcount. rewrite (proj2 (be16_at_u16 p 4 232 1%N) Hqd). cbn [bind].
  replace (1 =? 0)%N with false by reflexivity. replace (1 <? 1)%N with false by reflexivity.
  rewrite fst_bindc. cbn [fst lift]. rewrite set_offset_eval by lia. cbn [bind].
  (* question *)
  rewrite fst_bindc. unfold parse_question_c, tick. cbn [fst].
  rewrite fst_bindc. rewrite (skip_name_eval p (ps_set_off ps_init 12) qe Hqn ltac:(lia)). cbn [bind].
  assert (Hcls : ensure_in_class p (ps_set_off (ps_set_off ps_init 12) qe) = Ok tt).
  { unfold ensure_in_class, ps_rr_class, DNS_RR_CLASS_OFFSET.
    rewrite (be16_load_eval p _ 2 CLASS_IN) by (cbn [ps_off ps_set_off]; exact Hqc). cbn [bind].
    replace (CLASS_IN =? CLASS_IN)%N with true by reflexivity. reflexivity. }
  rewrite fst_bindc. cbn [fst lift]. rewrite Hcls. cbn [bind].
  rewrite fst_bindc. cbn [fst lift bind].
  unfold DNS_RR_QUESTION_HEADER_SIZE. rewrite increment_eval by (cbn [ps_off ps_set_off]; lia). cbn [bind].
  cbn [ps_off ps_set_off].
  set (sq := ps_set_off (ps_set_off (ps_set_off ps_init 12) qe) (qe + 4)).
  rewrite fst_bindc. cbn [fst lift]. unfold hdr_ancount. rewrite (proj2 (be16_at_u16 p 6 233 an) Han). cbn [bind].
  assert (Hq1 : forall c, (N.land w 32768 <> 32768%N -> c = 0%N) -> negb (word_is_response w) && (0 <? c)%N = false).
  { intros c Hc. unfold word_is_response. destruct (N.land w 32768 =? 32768)%N eqn:E; [reflexivity|].
    cbn [negb andb]. rewrite Hc by lia. reflexivity. }
  rewrite Hq1 by (intros; apply Hqr; assumption).
  destruct (parse_rrs_complete p Hb SAnswer (N.to_nat an) sq false e1 s1) as (sa & Hra & Hoa & Hsa & Hia);
    [unfold pinv, sq; cbn; lia | reflexivity | exact Ha |].
  rewrite fst_bindc, Hra. cbn [bind].
  rewrite fst_bindc. cbn [fst lift]. unfold hdr_nscount. rewrite (proj2 (be16_at_u16 p 8 234 ns) Hns). cbn [bind].
  rewrite Hq1 by (intros; apply Hqr; assumption).
  destruct (parse_rrs_complete p Hb SNameServers (N.to_nat ns) sa s1 e2 s2) as (sn & Hrn & Hon & Hsn & Hin);
    [exact Hia | exact Hsa | rewrite Hoa; exact Hn |].
  rewrite fst_bindc, Hrn. cbn [bind].
  rewrite fst_bindc. cbn [fst lift]. unfold hdr_arcount. rewrite (proj2 (be16_at_u16 p 10 235 ar) Har). cbn [bind].
  destruct (parse_rrs_complete p Hb SAdditional (N.to_nat ar) sn s2 (length p) s3) as (sr & Hrr & Hor & Hsr & Hir);
    [exact Hin | exact Hsn | rewrite Hon; exact Hr |].
  rewrite fst_bindc, Hrr. cbn [bind].
  rewrite fst_bindc. cbn [fst lift]. unfold remaining_len. rewrite usub_eval by lia. cbn [bind].
  rewrite Hor. replace (0 <? length p - length p) with false by lia.
  cbn [fst lift]. eauto.
Qed.
