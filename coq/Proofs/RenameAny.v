(** * The whole-packet rename reads the packet and the section offsets of the object, nothing else: on an object whose view is
    that of the parse of its bytes (in particular on every object satisfying the invariant [dinv] of C08), it does what it does
    on the freshly parsed packet.  All the rename theorems stated for parsed packets therefore hold from those objects too. *)
From DV Require Import Model.Base Model.Parser Model.Header Model.Readers Model.Uncompress Model.Mutate Model.Compress Model.Renamer
  Spec.NameSpec Spec.PacketSpec Spec.RecordSpec Spec.PlainSpec Proofs.Hoare Proofs.PlainWf Proofs.InsertSpec Proofs.RenameSpec
  Proofs.CompressContent Proofs.RenameContent Proofs.HeaderInv Proofs.CursorHist Proofs.FreshHist Proofs.WalkFresh Proofs.ListLemmas Proofs.ParserInv.
From Coq Require Import ZifyBool ZifyNat ZifyN.

Lemma renamer_rename_fields : forall p oq oa on oar oe ec rc ve xf mc mp ca ec' rc' ve' xf' mc' mp' ca' t s sfx,
  renamer_rename (mk_pp p oq oa on oar oe ec rc ve xf mc mp ca) t s sfx =
  renamer_rename (mk_pp p oq oa on oar oe ec' rc' ve' xf' mc' mp' ca') t s sfx.
Proof.
  intros. unfold renamer_rename, rename_question_record, rename_response_record, q_next, r_next, r_next_including_opt,
    maybe_skip_opt_section, it_rr_type, it_rr_rdlen, it_rd16.
  cbn [pp_packet pp_offset_question pp_offset_answers pp_offset_nameservers pp_offset_additional]. reflexivity.
Qed.

Theorem rename_same_view : forall v f it t s sfx s', same_view v f ->
  (m_rename t s sfx (v, it) = (s', Ok tt) <-> m_rename t s sfx (f, it) = (s', Ok tt)).
Proof.
  intros v f it t s sfx s' (Ep & Eq & Ea & En & Er & Ee & Ec & Erc & Ev & Ex & Em).
  destruct v as [p oq oa on oar oe ec rc ve xf mc mp ca]. destruct f as [p' oq' oa' on' oar' oe' ec' rc' ve' xf' mc' mp' ca'].
  cbn [pp_packet pp_offset_question pp_offset_answers pp_offset_nameservers pp_offset_additional pp_offset_edns pp_edns_count
       pp_ext_rcode pp_edns_version pp_ext_flags pp_max_payload] in *. subst.
  unfold m_rename, cbind, getv, clift, putv. cbn [fst snd].
  rewrite (renamer_rename_fields p' oq' oa' on' oar' oe' ec' rc' ve' xf' mc mp' ca ec' rc' ve' xf' mc' mp' ca' t s sfx).
  destruct (renamer_rename _ t s sfx) as [r| |]; [|split; intros H; discriminate|split; intros H; discriminate].
  destruct (parse r) as [f2| |]; [|split; intros H; discriminate|split; intros H; discriminate].
  unfold edns_summary_same, pp_update. cbn [pp_edns_count pp_ext_rcode pp_edns_version pp_ext_flags pp_max_payload].
  match goal with |- context [if ?c then _ else _] => destruct c end; [split; intros H; discriminate|]. cbn [fst snd]. reflexivity.
Qed.

Theorem rename_same_view_res : forall v f it t s sfx, same_view v f ->
  snd (m_rename t s sfx (v, it)) = snd (m_rename t s sfx (f, it)) /\
  (forall e, snd (m_rename t s sfx (v, it)) = Err e -> fst (m_rename t s sfx (v, it)) = (v, it)).
Proof.
  intros v f it t s sfx (Ep & Eq & Ea & En & Er & Ee & Ec & Erc & Ev & Ex & Em).
  destruct v as [p oq oa on oar oe ec rc ve xf mc mp ca]. destruct f as [p' oq' oa' on' oar' oe' ec' rc' ve' xf' mc' mp' ca'].
  cbn [pp_packet pp_offset_question pp_offset_answers pp_offset_nameservers pp_offset_additional pp_offset_edns pp_edns_count
       pp_ext_rcode pp_edns_version pp_ext_flags pp_max_payload] in *. subst.
  unfold m_rename, cbind, getv, clift, putv. cbn [fst snd].
  rewrite (renamer_rename_fields p' oq' oa' on' oar' oe' ec' rc' ve' xf' mc mp' ca ec' rc' ve' xf' mc' mp' ca' t s sfx).
  destruct (renamer_rename _ t s sfx) as [r| |]; cbn [fst snd]; [|split; [reflexivity|intros; reflexivity]|split; [reflexivity|intros; discriminate]].
  destruct (parse r) as [f2| |]; cbn [fst snd]; [|split; [reflexivity|intros; reflexivity]|split; [reflexivity|intros; discriminate]].
  unfold edns_summary_same. cbn [pp_edns_count pp_ext_rcode pp_edns_version pp_ext_flags].
  match goal with |- context [if ?c then _ else _] => destruct c end; cbn [fst snd]; split; try reflexivity; intros; discriminate.
Qed.

(** from any object satisfying the invariant of C08 *)
Theorem rename_effect_dinv : forall v it sl tl sfx s', dinv v ->
  Forall lab sl -> Forall lab tl -> sl <> [] -> tl <> [] -> bytes_ok (wire_of_labels tl) ->
  length (wire_of_labels sl) <= 255 -> length (wire_of_labels tl) <= 255 ->
  m_rename (wire_of_labels tl) (wire_of_labels sl) sfx (v, it) = (s', Ok tt) ->
  snd s' = it /\ bytes_ok (pp_packet (fst s')) /\ parse (pp_packet (fst s')) = Ok (fst s') /\
  exists qls qt lxa lxn lxr qls' L' lxa' lxn' lxr',
    reading (pp_packet v) qls qt lxa lxn lxr /\ renamed sl tl sfx qls qls' /\ Forall2 (ren_rec sl tl sfx) (lxa ++ lxn ++ lxr) L' /\
    reading (pp_packet (fst s')) qls' qt lxa' lxn' lxr' /\ Forall2 ci_rec L' (lxa' ++ lxn' ++ lxr') /\
    length lxa' = length lxa /\ length lxn' = length lxn /\ length lxr' = length lxr /\ firstn 12 (pp_packet (fst s')) = firstn 12 (pp_packet v).
Proof.
  intros v it sl tl sfx s' [Hmc Hb Hfix (f & Hf & Hsv)] Hsl Htl Hsl0 Htl0 Htb Hls Hlt H.
  apply (rename_same_view v f it _ _ sfx s' Hsv) in H.
  destruct (rename_effect (pp_packet v) f it sl tl sfx s' Hb Hf Hsl Htl Hsl0 Htl0 Htb Hls Hlt H) as [Hit Heff].
  destruct (rename_fresh_is_parsed (pp_packet v) f it sl tl sfx s' Hb Hf Hsl Htl Hsl0 Htl0 Htb Hls Hlt H) as [Hb' Hp'].
  auto.
Qed.

(** ** Histories that mix whole-packet renames with the operations that decompress: the object stays "its own fresh parse"

    [objst v]: the object is in pointer-free form with the view of the parse of its bytes ([dinv]), or it is exactly what the parser
    returns for its bytes.  From such an object, a rename leaves the second kind; recompute, an insertion, a deletion or an
    owner-name change through a cursor leave the first kind; from the first kind every operation of the cursor histories keeps it. *)
Inductive hop4 : Type :=
| H4Rename (tl sl : list bytes) (sfx : bool)
| H4Op (o : hop3).

Definition decompresses_first (o : hop3) : Prop :=
  o = H3Base H2Recompute \/ (exists sec rx, o = H3Base (H2Insert sec rx)) \/ (exists off, o = H3Delete off) \/ (exists off nm, o = H3SetName off nm).

Definition hop4_ok_at (v : ppacket) (o : hop4) : Prop :=
  match o with
  | H4Rename tl sl _ => Forall lab sl /\ Forall lab tl /\ sl <> [] /\ tl <> [] /\ bytes_ok (wire_of_labels tl) /\
                        length (wire_of_labels sl) <= 255 /\ length (wire_of_labels tl) <= 255
  | H4Op o => hop3_ok_at v o /\ (dinv v \/ decompresses_first o)
  end.

Definition run_hop4 (o : hop4) : cm unit :=
  match o with
  | H4Rename tl sl sfx => m_rename (wire_of_labels tl) (wire_of_labels sl) sfx
  | H4Op o => run_hop3 o
  end.

Lemma response_of_header (p q : bytes) : firstn 12 q = firstn 12 p -> is_response p -> is_response q.
Proof.
  intros E (w & (hi & lo & Hh & Hl & ->) & Hq). exists (hi * 256 + lo)%N. split; [|exact Hq]. exists hi, lo.
  assert (Hn : forall i, i < 12 -> nth_error q i = nth_error p i).
  { intros i Hi. rewrite <- (nth_error_firstn q 12 i Hi), <- (nth_error_firstn p 12 i Hi), E. reflexivity. }
  rewrite !Hn by lia. auto.
Qed.

Theorem hop4_keeps_objst : forall o v it s1, objst v -> is_response (pp_packet v) -> it_section it <> SQuestion -> hop4_ok_at v o ->
  run_hop4 o (v, it) = (s1, Ok tt) -> objst (fst s1) /\ snd s1 = it /\ is_response (pp_packet (fst s1)).
Proof.
  intros o v it s1 Hst Hr Hsq Hok E. destruct o as [tl sl sfx|o]; cbn [run_hop4 hop4_ok_at] in E, Hok.
  - destruct Hok as (Hsl & Htl & Hsl0 & Htl0 & Htb & Hls & Hlt). destruct Hst as [Hd|[Hb Hp]].
    + destruct (rename_effect_dinv v it sl tl sfx s1 Hd Hsl Htl Hsl0 Htl0 Htb Hls Hlt E)
        as (Hit & Hb' & Hp' & (qls & qt & a & n & r & qls' & L' & a' & n' & r' & _ & _ & _ & _ & _ & _ & _ & _ & Hh)).
      split; [right; split; assumption|]. split; [exact Hit|exact (response_of_header _ _ Hh Hr)].
    + destruct (rename_effect (pp_packet v) v it sl tl sfx s1 Hb Hp Hsl Htl Hsl0 Htl0 Htb Hls Hlt E)
        as (Hit & (qls & qt & a & n & r & qls' & L' & a' & n' & r' & _ & _ & _ & _ & _ & _ & _ & _ & Hh)).
      destruct (rename_fresh_is_parsed (pp_packet v) v it sl tl sfx s1 Hb Hp Hsl Htl Hsl0 Htl0 Htb Hls Hlt E) as [Hb' Hp'].
      split; [right; split; assumption|]. split; [exact Hit|exact (response_of_header _ _ Hh Hr)].
  - destruct Hok as [Hok3 Hkind]. destruct Hst as [Hd|[Hb Hp]].
    + destruct (hop3_keeps_dinv o v it s1 Hd Hr Hsq Hok3 E) as (Hd' & Hit & Hr'). split; [left; exact Hd'|]. split; assumption.
    + destruct Hkind as [Hd|Hk].
      * destruct (hop3_keeps_dinv o v it s1 Hd Hr Hsq Hok3 E) as (Hd' & Hit & Hr'). split; [left; exact Hd'|]. split; assumption.
      * destruct (fresh_history3_any_first (pp_packet v) v it o [] s1 s1 Hb Hp Hr Hsq Hk Hok3 E I eq_refl) as (Hd' & Hit & Hr').
        split; [left; exact Hd'|]. split; assumption.
Qed.

Fixpoint run_hops4 (ops : list hop4) (s : st) : st * res unit :=
  match ops with
  | [] => (s, Ok tt)
  | o :: ops' => match run_hop4 o s with (s1, Ok _) => run_hops4 ops' s1 | (s1, Err e) => (s1, Err e) | (s1, Panic x) => (s1, Panic x) end
  end.

Fixpoint ok_along4 (ops : list hop4) (s : st) : Prop :=
  match ops with
  | [] => True
  | o :: ops' => hop4_ok_at (fst s) o /\ match run_hop4 o s with (s1, Ok _) => ok_along4 ops' s1 | _ => True end
  end.

Theorem hops4_keep_objst : forall ops v it s', objst v -> is_response (pp_packet v) -> it_section it <> SQuestion ->
  ok_along4 ops (v, it) -> run_hops4 ops (v, it) = (s', Ok tt) -> objst (fst s') /\ snd s' = it /\ is_response (pp_packet (fst s')).
Proof.
  induction ops as [|o ops IH]; intros v it s' Hst Hr Hsq Hal H; cbn [run_hops4 ok_along4] in H, Hal.
  - injection H as <-. cbn [fst snd]. auto.
  - destruct Hal as [Hok Hrest]. cbn [fst] in Hok.
    destruct (run_hop4 o (v, it)) as [s1 [u| |]] eqn:E1; try discriminate. destruct u.
    destruct (hop4_keeps_objst o v it s1 Hst Hr Hsq Hok E1) as (Hst1 & Hit1 & Hr1).
    destruct s1 as [v1 it1]. cbn [fst snd] in *. subst it1. exact (IH v1 it s' Hst1 Hr1 Hsq Hrest H).
Qed.

Theorem parsed_history4 : forall p v it ops s', bytes_ok p -> parse p = Ok v -> is_response p -> it_section it <> SQuestion ->
  ok_along4 ops (v, it) -> run_hops4 ops (v, it) = (s', Ok tt) -> objst (fst s') /\ snd s' = it /\ is_response (pp_packet (fst s')).
Proof.
  intros p v it ops s' Hb Hp Hr Hsq Hal H.
  assert (Hpk : pp_packet v = p) by (destruct (parse_shape p v Hb Hp) as (? & ? & ? & ? & ? & ? & ? & F); exact (pf_packet _ _ _ _ _ _ _ _ _ F)).
  apply (hops4_keep_objst ops v it s'); try assumption; [right; rewrite Hpk; split; assumption|rewrite Hpk; exact Hr].
Qed.

(** the rename from any object satisfying the invariant: it succeeds, or it reports an error and changes nothing; no Panic outcome *)
Theorem rename_total_dinv : forall v it sl tl sfx, dinv v ->
  Forall lab sl -> Forall lab tl -> sl <> [] -> tl <> [] -> bytes_ok (wire_of_labels tl) ->
  length (wire_of_labels sl) <= 255 -> length (wire_of_labels tl) <= 255 ->
  (exists s', m_rename (wire_of_labels tl) (wire_of_labels sl) sfx (v, it) = (s', Ok tt)) \/
  (exists e, m_rename (wire_of_labels tl) (wire_of_labels sl) sfx (v, it) = ((v, it), Err e)).
Proof.
  intros v it sl tl sfx [Hmc Hb Hfix (f & Hf & Hsv)] Hsl Htl Hsl0 Htl0 Htb Hls Hlt.
  destruct (rename_same_view_res v f it (wire_of_labels tl) (wire_of_labels sl) sfx Hsv) as [Eres Hst].
  destruct (rename_total (pp_packet v) f it sl tl sfx Hb Hf Hsl Htl Hsl0 Htl0 Htb Hls Hlt) as [(s' & E)|(e & E)].
  - left. exists s'. apply (rename_same_view v f it _ _ sfx s' Hsv). exact E.
  - right. exists e. rewrite E in Eres. cbn [snd] in Eres.
    destruct (m_rename (wire_of_labels tl) (wire_of_labels sl) sfx (v, it)) as [s1 r1] eqn:Em. cbn [snd] in Eres. subst r1.
    specialize (Hst e eq_refl). cbn [fst] in Hst. subst s1. reflexivity.
Qed.
