(** * The canonical pointer-free encoding is accepted, reads as the same message, and is a fixed
      point of decompression (C05, second half).

    For an accepted packet [p] with declarative reading [(qls, qt, lx)], let
    [q = firstn 12 p ++ plain_question qls qt IN ++ concat (map plain_record lx)] (what
    [uncompress p] returns, UncompressSpec.v). Then [q] is well-formed under the packet policy, so
    the parser accepts it; its declarative reading has the same labels, types, classes, TTLs and
    data shapes; and [uncompress q = q]. *)

From DV Require Import Model.Base Model.NameCheck Model.Parser Model.Header Model.Readers Model.Uncompress
  Spec.NameSpec Spec.PacketSpec Spec.RecordSpec Spec.PlainSpec Proofs.ListLemmas Proofs.Hoare
  Proofs.HeaderBits Proofs.NameIff Proofs.ParserInv Proofs.ParseSound Proofs.ParseComplete Proofs.ReadersAgree
  Proofs.ReadersLabels Proofs.QuestionSpec Proofs.WalkValues Proofs.SetTtl Proofs.WalkSkip
  Proofs.UncompressFrame Proofs.UncompressSpec.
From Coq Require Import ZArith ZifyBool ZifyNat ZifyN.
Ltac Zify.zify_post_hook ::= Z.div_mod_to_equations.

(** ** Bytes in context *)
Lemma nth_error_mid {A} (pre x post : list A) j : j < length x ->
  nth_error (pre ++ x ++ post) (length pre + j) = nth_error x j.
Proof.
  intros H. rewrite nth_error_app2 by lia. replace (length pre + j - length pre) with j by lia.
  apply nth_error_app1. exact H.
Qed.

Lemma u16_lt p off v : bytes_ok p -> u16_at p off v -> (v < 65536)%N.
Proof.
  intros Hb (a & b & Ha & Hbb & ->). pose proof (bytes_ok_nth _ _ _ Hb Ha). pose proof (bytes_ok_nth _ _ _ Hb Hbb). lia.
Qed.

Lemma u32_lt p off v : bytes_ok p -> u32_at p off v -> (v < 4294967296)%N.
Proof.
  intros Hb (a & b & c & d & Ha & Hbb & Hc & Hd & ->).
  pose proof (bytes_ok_nth _ _ _ Hb Ha). pose proof (bytes_ok_nth _ _ _ Hb Hbb).
  pose proof (bytes_ok_nth _ _ _ Hb Hc). pose proof (bytes_ok_nth _ _ _ Hb Hd). lia.
Qed.

Lemma u16_at_mid pre v post : (v < 65536)%N -> u16_at (pre ++ be16_bytes v ++ post) (length pre) v.
Proof.
  intros Hv. exists ((v / 256) mod 256)%N, (v mod 256)%N.
  pose proof (nth_error_mid pre (be16_bytes v) post 0 ltac:(cbn; lia)) as H0. rewrite Nat.add_0_r in H0.
  pose proof (nth_error_mid pre (be16_bytes v) post 1 ltac:(cbn; lia)) as H1.
  rewrite H0, H1. cbn [be16_bytes nth_error]. repeat split. lia.
Qed.

Lemma u32_at_mid pre v post : (v < 4294967296)%N -> u32_at (pre ++ be32_bytes v ++ post) (length pre) v.
Proof.
  intros Hv. exists ((v / 16777216) mod 256)%N, ((v / 65536) mod 256)%N, ((v / 256) mod 256)%N, (v mod 256)%N.
  pose proof (nth_error_mid pre (be32_bytes v) post 0 ltac:(cbn; lia)) as H0. rewrite Nat.add_0_r in H0.
  pose proof (nth_error_mid pre (be32_bytes v) post 1 ltac:(cbn; lia)) as H1.
  pose proof (nth_error_mid pre (be32_bytes v) post 2 ltac:(cbn; lia)) as H2.
  pose proof (nth_error_mid pre (be32_bytes v) post 3 ltac:(cbn; lia)) as H3.
  rewrite H0, H1, H2, H3. cbn [be32_bytes nth_error]. repeat split. lia.
Qed.

(** a policy name laid out label by label in any context *)
Lemma cname_l_mid ls pre post : Forall label_ok ls -> length (wire_of_labels ls) <= 255 ->
  cname_l (pre ++ wire_of_labels ls ++ post) (length pre) ls (length pre + length (wire_of_labels ls)).
Proof.
  intros Hok Hl. split.
  - rewrite !app_length. unfold wire_of_labels at 1. rewrite app_length. cbn [length]. lia.
  - apply wire_is_name; [exact Hok|exact Hl|]. rewrite !app_length. lia.
Qed.

(** ** Pointer-free pieces move with their bytes *)
Lemma plain_name_at_end_gt p off b e : plain_name_at p off b e -> off < e.
Proof. induction 1; lia. Qed.

Lemma plain_name_at_move p q : forall o b e, plain_name_at p o b e ->
  forall o', (forall j, o + j < e -> nth_error q (o' + j) = nth_error p (o + j)) -> o' + (e - o) <= length q ->
  plain_name_at q o' b (o' + (e - o)).
Proof.
  induction 1 as [o b Hz Hb|o b len e Hlen H1 H63 Hfit Hbud Hrest IH]; intros o' Hsame Hlq.
  - replace (o + 1 - o) with 1 by lia. apply PRoot; [|exact Hb].
    pose proof (Hsame 0 ltac:(lia)) as E. rewrite !Nat.add_0_r in E. rewrite E. exact Hz.
  - pose proof (plain_name_at_end_gt _ _ _ _ Hrest) as Hgt.
    replace (o' + (e - o)) with ((o' + N.to_nat len + 1) + (e - (o + N.to_nat len + 1))) by lia.
    eapply PLabel; [|exact H1|exact H63| |exact Hbud|].
    + pose proof (Hsame 0 ltac:(lia)) as E. rewrite !Nat.add_0_r in E. rewrite E. exact Hlen.
    + lia.
    + apply IH; [|lia]. intros j Hj.
      replace (o' + N.to_nat len + 1 + j) with (o' + (N.to_nat len + 1 + j)) by lia.
      replace (o + N.to_nat len + 1 + j) with (o + (N.to_nat len + 1 + j)) by lia. apply Hsame. lia.
Qed.

Lemma u16_at_move p q off off' v : u16_at p off v ->
  nth_error q off' = nth_error p off -> nth_error q (off' + 1) = nth_error p (off + 1) -> u16_at q off' v.
Proof. intros (a & b & Ha & Hb & ->) E1 E2. exists a, b. rewrite E1, E2. auto. Qed.

Lemma opts_tile_move p q : forall a b n, opts_tile p a b n ->
  forall a', (forall j, a + j < b -> nth_error q (a' + j) = nth_error p (a + j)) ->
  opts_tile q a' (a' + (b - a)) n.
Proof.
  induction 1 as [a|a b len n H4 Hlen Hfit Hrest IH]; intros a' Hsame.
  - rewrite Nat.sub_diag, Nat.add_0_r. constructor.
  - eapply OTcons with (len := len).
    + lia.
    + eapply u16_at_move; [exact Hlen| |].
      * apply Hsame. lia.
      * replace (a' + 2 + 1) with (a' + 3) by lia. replace (a + 2 + 1) with (a + 3) by lia. apply Hsame. lia.
    + lia.
    + replace (a' + (b - a)) with ((a' + 4 + N.to_nat len) + (b - (a + 4 + N.to_nat len))) by lia.
      apply IH. intros j Hj.
      replace (a' + 4 + N.to_nat len + j) with (a' + (4 + N.to_nat len + j)) by lia.
      replace (a + 4 + N.to_nat len + j) with (a + (4 + N.to_nat len + j)) by lia. apply Hsame. lia.
Qed.

(** a segment copied verbatim: the bytes of [firstn n (skipn o p)] sit at [length pre ..] *)
Lemma seg_nth (p pre post : bytes) o n j : o + n <= length p -> j < n ->
  nth_error (pre ++ firstn n (skipn o p) ++ post) (length pre + j) = nth_error p (o + j).
Proof.
  intros Hl Hj. rewrite nth_error_mid by (rewrite firstn_skipn_length; lia).
  rewrite nth_error_firstn by exact Hj. apply nth_error_skipn.
Qed.

(** a root-only name *)
Lemma cname_l_root_only p off ls : cname_l p off ls (off + 1) -> ls = [].
Proof.
  intros [_ H]. inversion H; subst; try reflexivity.
  - match goal with Hr : name_at _ _ _ _ _ _ _ _ |- _ => apply name_at_end_gt in Hr end. lia.
  - lia.
Qed.

Lemma wire_length_pos ls : 1 <= length (wire_of_labels ls).
Proof. unfold wire_of_labels. rewrite app_length. cbn. lia. Qed.

Lemma bytes_ok_be16 v : bytes_ok (be16_bytes v).
Proof. unfold bytes_ok, be16_bytes. repeat constructor; lia. Qed.

Lemma bytes_ok_be32 v : bytes_ok (be32_bytes v).
Proof. unfold bytes_ok, be32_bytes. repeat constructor; lia. Qed.

Lemma bytes_ok_app a b : bytes_ok a -> bytes_ok b -> bytes_ok (a ++ b).
Proof. intros Ha Hb. apply Forall_app. split; assumption. Qed.

Lemma bytes_ok_seg p o n : bytes_ok p -> bytes_ok (firstn n (skipn o p)).
Proof. intros H. apply Forall_firstn, Forall_skipn. exact H. Qed.

Lemma bytes_ok_wire_of p off ls e : bytes_ok p -> cname_l p off ls e -> bytes_ok (wire_of_labels ls).
Proof.
  intros Hb [_ Hna]. apply bytes_ok_wire; [eapply name_at_labels_ok; exact Hna|eapply name_at_labels_bytes; eauto].
Qed.

(** ** One record in context *)
Definition rv_at (r : rec_view) (x : rd_view) (o : nat) : rec_view :=
  {| rv_off := o; rv_labels := rv_labels r; rv_name_end := o + length (wire_of_labels (rv_labels r));
     rv_type := rv_type r; rv_class := rv_class r; rv_ttl := rv_ttl r; rv_rdlen := length (plain_rdata x) |}.

Definition rv_with_labels (r : rec_view) (ls : list bytes) : rec_view :=
  {| rv_off := rv_off r; rv_labels := ls; rv_name_end := rv_name_end r; rv_type := rv_type r;
     rv_class := rv_class r; rv_ttl := rv_ttl r; rv_rdlen := rv_rdlen r |}.

Definition rec_bytes (ls : list bytes) (t c ttl : N) (rd : bytes) : bytes :=
  wire_of_labels ls ++ be16_bytes t ++ be16_bytes c ++ be32_bytes ttl ++ be16_bytes (N.of_nat (length rd)) ++ rd.

Lemma rec_bytes_length ls t c ttl rd : length (rec_bytes ls t c ttl rd) = length (wire_of_labels ls) + 10 + length rd.
Proof. unfold rec_bytes. rewrite !app_length. cbn [length be16_bytes be32_bytes]. lia. Qed.

Lemma plain_fixed ls t c ttl rd pre post :
  Forall label_ok ls -> length (wire_of_labels ls) <= 255 ->
  (t < 65536)%N -> (c < 65536)%N -> (ttl < 4294967296)%N -> (N.of_nat (length rd) < 65536)%N ->
  let q := pre ++ rec_bytes ls t c ttl rd ++ post in
  let o := length pre in
  let ne := o + length (wire_of_labels ls) in
  cname_l q o ls ne /\ u16_at q ne t /\ u16_at q (ne + 2) c /\ u32_at q (ne + 4) ttl /\
  u16_at q (ne + 8) (N.of_nat (length rd)) /\
  ne + 10 + length rd = o + length (rec_bytes ls t c ttl rd) /\ ne + 10 + length rd <= length q /\
  q = (pre ++ wire_of_labels ls ++ be16_bytes t ++ be16_bytes c ++ be32_bytes ttl ++ be16_bytes (N.of_nat (length rd))) ++ rd ++ post /\
  length (pre ++ wire_of_labels ls ++ be16_bytes t ++ be16_bytes c ++ be32_bytes ttl ++ be16_bytes (N.of_nat (length rd))) = ne + 10.
Proof.
  intros Hok Hl Ht Hc Httl Hrd q o ne. unfold q, rec_bytes.
  split; [rewrite <- !app_assoc; apply cname_l_mid; assumption|].
  split.
  { replace (pre ++ (wire_of_labels ls ++ be16_bytes t ++ be16_bytes c ++ be32_bytes ttl ++ be16_bytes (N.of_nat (length rd)) ++ rd) ++ post)
      with ((pre ++ wire_of_labels ls) ++ be16_bytes t ++ (be16_bytes c ++ be32_bytes ttl ++ be16_bytes (N.of_nat (length rd)) ++ rd ++ post))
      by (rewrite <- !app_assoc; reflexivity).
    replace ne with (length (pre ++ wire_of_labels ls)) by (rewrite app_length; reflexivity). apply u16_at_mid. exact Ht. }
  split.
  { replace (pre ++ (wire_of_labels ls ++ be16_bytes t ++ be16_bytes c ++ be32_bytes ttl ++ be16_bytes (N.of_nat (length rd)) ++ rd) ++ post)
      with ((pre ++ wire_of_labels ls ++ be16_bytes t) ++ be16_bytes c ++ (be32_bytes ttl ++ be16_bytes (N.of_nat (length rd)) ++ rd ++ post))
      by (rewrite <- !app_assoc; reflexivity).
    replace (ne + 2) with (length (pre ++ wire_of_labels ls ++ be16_bytes t)) by (rewrite !app_length; cbn [length be16_bytes]; lia).
    apply u16_at_mid. exact Hc. }
  split.
  { replace (pre ++ (wire_of_labels ls ++ be16_bytes t ++ be16_bytes c ++ be32_bytes ttl ++ be16_bytes (N.of_nat (length rd)) ++ rd) ++ post)
      with ((pre ++ wire_of_labels ls ++ be16_bytes t ++ be16_bytes c) ++ be32_bytes ttl ++ (be16_bytes (N.of_nat (length rd)) ++ rd ++ post))
      by (rewrite <- !app_assoc; reflexivity).
    replace (ne + 4) with (length (pre ++ wire_of_labels ls ++ be16_bytes t ++ be16_bytes c)) by (rewrite !app_length; cbn [length be16_bytes]; lia).
    apply u32_at_mid. exact Httl. }
  split.
  { replace (pre ++ (wire_of_labels ls ++ be16_bytes t ++ be16_bytes c ++ be32_bytes ttl ++ be16_bytes (N.of_nat (length rd)) ++ rd) ++ post)
      with ((pre ++ wire_of_labels ls ++ be16_bytes t ++ be16_bytes c ++ be32_bytes ttl) ++ be16_bytes (N.of_nat (length rd)) ++ (rd ++ post))
      by (rewrite <- !app_assoc; reflexivity).
    replace (ne + 8) with (length (pre ++ wire_of_labels ls ++ be16_bytes t ++ be16_bytes c ++ be32_bytes ttl)) by (rewrite !app_length; cbn [length be16_bytes be32_bytes]; lia).
    apply u16_at_mid. exact Hrd. }
  split; [rewrite !app_length; cbn [length be16_bytes be32_bytes]; lia|].
  split; [rewrite !app_length; cbn [length be16_bytes be32_bytes]; lia|].
  split; [rewrite <- !app_assoc; reflexivity|].
  rewrite !app_length. cbn [length be16_bytes be32_bytes]. lia.
Qed.

Lemma firstn_skipn_mid {A} (pre x post : list A) : firstn (length x) (skipn (length pre) (pre ++ x ++ post)) = x.
Proof.
  rewrite skipn_app, skipn_all, Nat.sub_diag. cbn [app skipn].
  rewrite firstn_app, firstn_all, Nat.sub_diag. cbn [firstn]. apply app_nil_r.
Qed.

(** where the records of a list sit when their plain encodings are written one after the other from offset [o] *)
Fixpoint place (o : nat) (lx : list (rec_view * rd_view)) : list (rec_view * rd_view) :=
  match lx with
  | [] => []
  | rx :: l => (rv_at (fst rx) (snd rx) o, snd rx) :: place (o + length (plain_record rx)) l
  end.

(** the record [r] with data reading [x] sits in [p] as its own pointer-free encoding *)
Definition plain_at (p : bytes) (r : rec_view) (x : rd_view) : Prop :=
  rv_name_end r = rv_off r + length (wire_of_labels (rv_labels r)) /\
  firstn (length (wire_of_labels (rv_labels r))) (skipn (rv_off r) p) = wire_of_labels (rv_labels r) /\
  rv_rdlen r = length (plain_rdata x) /\
  firstn (rv_rdlen r) (skipn (rv_name_end r + 10) p) = plain_rdata x.

Lemma plain_at_placed pre r x post : plain_at (pre ++ plain_record (r, x) ++ post) (rv_at r x (length pre)) x.
Proof.
  unfold plain_at, rv_at, plain_record. cbn [rv_off rv_labels rv_name_end rv_rdlen].
  split; [reflexivity|]. split.
  - rewrite <- !app_assoc. apply firstn_skipn_mid.
  - split; [reflexivity|].
    set (W := wire_of_labels (rv_labels r)). set (RD := plain_rdata x).
    replace (pre ++ (W ++ be16_bytes (rv_type r) ++ be16_bytes (rv_class r) ++ be32_bytes (rv_ttl r) ++ be16_bytes (N.of_nat (length RD)) ++ RD) ++ post)
      with ((pre ++ W ++ be16_bytes (rv_type r) ++ be16_bytes (rv_class r) ++ be32_bytes (rv_ttl r) ++ be16_bytes (N.of_nat (length RD))) ++ RD ++ post)
      by (rewrite <- !app_assoc; reflexivity).
    replace (length pre + length W + 10) with (length (pre ++ W ++ be16_bytes (rv_type r) ++ be16_bytes (rv_class r) ++ be32_bytes (rv_ttl r) ++ be16_bytes (N.of_nat (length RD))))
      by (rewrite !app_length; cbn [length be16_bytes be32_bytes]; lia).
    apply firstn_skipn_mid.
Qed.

(** ** The data of one record in context *)
Section Data.
  Variable p : bytes.
  Hypothesis Hb : bytes_ok p.

  Lemma rd_context r x e0 :
    record_at p r e0 -> rdata_at p r x ->
    ((rv_type r =? TYPE_OPT)%N = false -> rdata_wf p (rv_type r) (rv_name_end r + 10) (rv_rdlen r)) ->
    ((rv_type r =? TYPE_OPT)%N = true -> exists n, opts_tile p (rv_name_end r + 10) e0 n) ->
    (N.of_nat (length (plain_rdata x)) < 65536)%N /\ bytes_ok (plain_rdata x) /\
    (rv_type r = TYPE_A -> length (plain_rdata x) = 4) /\ (rv_type r = TYPE_AAAA -> length (plain_rdata x) = 16) /\
    forall H post r', rv_name_end r' + 10 = length H -> rv_type r' = rv_type r -> rv_rdlen r' = length (plain_rdata x) ->
      let q := H ++ plain_rdata x ++ post in
      rdata_at q r' x /\
      ((rv_type r =? TYPE_OPT)%N = false -> rdata_wf q (rv_type r) (length H) (length (plain_rdata x))) /\
      ((rv_type r =? TYPE_OPT)%N = true -> exists n, opts_tile q (length H) (length H + length (plain_rdata x)) n).
  Proof.
    intros Hr Hx Hwf Hopt.
    pose proof (record_at_end _ _ _ Hr) as (He & Hlt & Hle). unfold rv_end in He.
    pose proof Hr as (_ & _ & _ & _ & Hrl & _ & _ & HA & HAAAA).
    pose proof (u16_lt _ _ _ Hb Hrl) as Hrlt.
    destruct x as [ls1|pref ls1|ls1 ls2 tail|b]; cbn [rdata_at plain_rdata] in *.
    - (* a name *)
      destruct Hx as (Hnt & Hcn). pose proof (wire_length_le _ _ _ _ Hcn) as Hl1.
      assert (Hok1 : Forall label_ok ls1) by (destruct Hcn as [_ Hna]; eapply name_at_labels_ok; exact Hna).
      assert (Eo : (rv_type r =? TYPE_OPT)%N = false).
      { apply N.eqb_neq. intros E. unfold PacketSpec.is_name_type in Hnt. rewrite E in Hnt. discriminate. }
      assert (EA : rv_type r <> TYPE_A) by (intros E; unfold PacketSpec.is_name_type in Hnt; rewrite E in Hnt; discriminate).
      assert (EAAAA : rv_type r <> TYPE_AAAA) by (intros E; unfold PacketSpec.is_name_type in Hnt; rewrite E in Hnt; discriminate).
      split; [lia|]. split; [eapply bytes_ok_wire_of; eauto|]. split; [intros E; congruence|]. split; [intros E; congruence|].
      intros H post r' Hne' Hty' Hrl'. set (q := H ++ wire_of_labels ls1 ++ post).
      assert (Hc : cname_l q (length H) ls1 (length H + length (wire_of_labels ls1))) by (apply cname_l_mid; assumption).
      split; [cbn [rdata_at]; rewrite Hty', Hne', Hrl'; split; [exact Hnt|exact Hc]|].
      split; [|intros E; congruence]. intros _. unfold rdata_wf. rewrite Hnt.
      split; [pose proof (wire_length_pos ls1); lia|exists ls1; exact Hc].
    - (* MX *)
      destruct Hx as (Hnt & Hmx & Hl2 & Hpref & Hcn). pose proof (wire_length_le _ _ _ _ Hcn) as Hl1.
      assert (Hok1 : Forall label_ok ls1) by (destruct Hcn as [_ Hna]; eapply name_at_labels_ok; exact Hna).
      assert (Hlp : length pref = 2) by (rewrite Hpref; apply firstn_skipn_length; lia).
      split; [rewrite app_length; lia|].
      split; [apply bytes_ok_app; [rewrite Hpref; apply bytes_ok_seg; exact Hb|eapply bytes_ok_wire_of; eauto]|].
      split; [intros E; rewrite Hmx in E; discriminate|]. split; [intros E; rewrite Hmx in E; discriminate|].
      intros H post r' Hne' Hty' Hrl'. set (q := H ++ (pref ++ wire_of_labels ls1) ++ post).
      assert (Hq : q = (H ++ pref) ++ wire_of_labels ls1 ++ post) by (unfold q; rewrite <- !app_assoc; reflexivity).
      assert (Hc : cname_l q (length H + 2) ls1 (length H + 2 + length (wire_of_labels ls1))).
      { rewrite Hq. replace (length H + 2) with (length (H ++ pref)) by (rewrite app_length; lia). apply cname_l_mid; assumption. }
      split.
      { cbn [rdata_at]. rewrite Hty', Hne', Hrl'. rewrite app_length, Hlp.
        split; [exact Hnt|]. split; [exact Hmx|]. split; [pose proof (wire_length_pos ls1); lia|].
        split; [|replace (length H + (2 + length (wire_of_labels ls1))) with (length H + 2 + length (wire_of_labels ls1)) by lia; exact Hc].
        unfold q. rewrite <- Hlp at 1. rewrite <- app_assoc. symmetry. apply firstn_skipn_mid. }
      split; [|intros E; rewrite Hmx in E; discriminate]. intros _. unfold rdata_wf. rewrite Hnt, Hmx.
      replace (TYPE_MX =? TYPE_MX)%N with true by reflexivity. rewrite app_length, Hlp.
      split; [pose proof (wire_length_pos ls1); lia|]. exists ls1.
      replace (length H + (2 + length (wire_of_labels ls1))) with (length H + 2 + length (wire_of_labels ls1)) by lia. exact Hc.
    - (* SOA *)
      destruct Hx as (Hnt & Hsoa & Hl21 & m & Hcn1 & Hcn2 & Htail).
      pose proof (wire_length_le _ _ _ _ Hcn1) as Hl1. pose proof (wire_length_le _ _ _ _ Hcn2) as Hl2.
      assert (Hok1 : Forall label_ok ls1) by (destruct Hcn1 as [_ Hna]; eapply name_at_labels_ok; exact Hna).
      assert (Hok2 : Forall label_ok ls2) by (destruct Hcn2 as [_ Hna]; eapply name_at_labels_ok; exact Hna).
      assert (Hlt20 : length tail = 20) by (rewrite Htail; apply firstn_skipn_length; lia).
      split; [rewrite !app_length; lia|].
      split; [apply bytes_ok_app; [eapply bytes_ok_wire_of; eauto|apply bytes_ok_app; [eapply bytes_ok_wire_of; eauto|rewrite Htail; apply bytes_ok_seg; exact Hb]]|].
      split; [intros E; rewrite Hsoa in E; discriminate|]. split; [intros E; rewrite Hsoa in E; discriminate|].
      intros H post r' Hne' Hty' Hrl'. set (q := H ++ (wire_of_labels ls1 ++ wire_of_labels ls2 ++ tail) ++ post).
      pose proof (wire_length_pos ls1) as Hp1. pose proof (wire_length_pos ls2) as Hp2.
      assert (Hc1 : cname_l q (length H) ls1 (length H + length (wire_of_labels ls1))).
      { unfold q. rewrite <- !app_assoc. apply cname_l_mid; assumption. }
      assert (Hc2 : cname_l q (length H + length (wire_of_labels ls1)) ls2 (length H + length (wire_of_labels ls1) + length (wire_of_labels ls2))).
      { replace q with ((H ++ wire_of_labels ls1) ++ wire_of_labels ls2 ++ (tail ++ post)) by (unfold q; rewrite <- !app_assoc; reflexivity).
        replace (length H + length (wire_of_labels ls1)) with (length (H ++ wire_of_labels ls1)) by (rewrite app_length; reflexivity).
        apply cname_l_mid; assumption. }
      assert (Ht' : tail = firstn 20 (skipn (length H + length (wire_of_labels ls1) + length (wire_of_labels ls2)) q)).
      { replace q with ((H ++ wire_of_labels ls1 ++ wire_of_labels ls2) ++ tail ++ post) by (unfold q; rewrite <- !app_assoc; reflexivity).
        replace (length H + length (wire_of_labels ls1) + length (wire_of_labels ls2)) with (length (H ++ wire_of_labels ls1 ++ wire_of_labels ls2)) by (rewrite !app_length; lia).
        rewrite <- Hlt20. symmetry. apply firstn_skipn_mid. }
      assert (Hend : length H + length (wire_of_labels ls1 ++ wire_of_labels ls2 ++ tail) - 20 = length H + length (wire_of_labels ls1) + length (wire_of_labels ls2)) by (rewrite !app_length; lia).
      split.
      { cbn [rdata_at]. rewrite Hty', Hne', Hrl'. split; [exact Hnt|]. split; [exact Hsoa|]. split; [rewrite !app_length; lia|].
        exists (length H + length (wire_of_labels ls1)). rewrite Hend. auto. }
      split; [|intros E; rewrite Hsoa in E; discriminate]. intros _. unfold rdata_wf. rewrite Hnt, Hsoa.
      replace (TYPE_SOA =? TYPE_MX)%N with false by reflexivity. replace (TYPE_SOA =? TYPE_SOA)%N with true by reflexivity.
      split; [rewrite !app_length; lia|]. exists (length H + length (wire_of_labels ls1)). rewrite Hend.
      split; [exists ls1; exact Hc1|exists ls2; exact Hc2].
    - (* opaque *)
      destruct Hx as (Hnt & Hnmx & Hnsoa & ->). unfold rdata_of.
      assert (Hlb : length (firstn (rv_rdlen r) (skipn (rv_name_end r + 10) p)) = rv_rdlen r) by (apply firstn_skipn_length; lia).
      rewrite Hlb.
      split; [lia|]. split; [apply bytes_ok_seg; exact Hb|]. split; [exact HA|]. split; [exact HAAAA|].
      intros H post r' Hne' Hty' Hrl'. set (q := H ++ firstn (rv_rdlen r) (skipn (rv_name_end r + 10) p) ++ post).
      assert (Hseg : forall j, j < rv_rdlen r -> nth_error q (length H + j) = nth_error p (rv_name_end r + 10 + j)).
      { intros j Hj. apply seg_nth; lia. }
      split.
      { cbn [rdata_at]. rewrite Hty'. split; [exact Hnt|]. split; [exact Hnmx|]. split; [exact Hnsoa|].
        unfold rdata_of. rewrite Hne', Hrl'. unfold q.
        set (b0 := firstn (rv_rdlen r) (skipn (rv_name_end r + 10) p)) in *. rewrite <- Hlb. symmetry. apply firstn_skipn_mid. }
      split.
      + intros Eo. specialize (Hwf Eo). unfold rdata_wf in *. rewrite Hnt in *.
        destruct (rv_type r =? TYPE_MX)%N eqn:E1; [lia|]. destruct (rv_type r =? TYPE_SOA)%N eqn:E2; [lia|].
        destruct (rv_type r =? TYPE_DNAME)%N eqn:E3; [|exact Hwf].
        destruct Hwf as [H1 [Hpl Hpn]]. split; [exact H1|]. split; [unfold q; rewrite !app_length, Hlb; lia|].
        replace (length H + rv_rdlen r) with (length H + (rv_name_end r + 10 + rv_rdlen r - (rv_name_end r + 10))) by lia.
        eapply plain_name_at_move; [exact Hpn| |unfold q; rewrite !app_length, Hlb; lia].
        intros j Hj. apply Hseg. lia.
      + intros Eo. destruct (Hopt Eo) as (n & Hn). exists n.
        replace (length H + rv_rdlen r) with (length H + (e0 - (rv_name_end r + 10))) by lia.
        eapply opts_tile_move; [exact Hn|]. intros j Hj. apply Hseg. lia.
  Qed.
End Data.

(** ** One record of the policy, re-encoded, in any context *)
Section Rec.
  Variable p : bytes.
  Hypothesis Hb : bytes_ok p.

  Lemma plain_record_rec_bytes r x :
    plain_record (r, x) = rec_bytes (rv_labels r) (rv_type r) (rv_class r) (rv_ttl r) (plain_rdata x).
  Proof. reflexivity. Qed.

  Lemma rr_plain sec seen off off1 seen1 : rr_wf p sec seen off off1 seen1 ->
    exists r x, rv_off r = off /\ record_at p r off1 /\ rdata_at p r x /\
      (if is_opt r then sec = SAdditional /\ seen = false /\ seen1 = true else seen1 = seen) /\
      bytes_ok (plain_record (r, x)) /\
      forall pre post,
        let q := pre ++ plain_record (r, x) ++ post in
        let e := length pre + length (plain_record (r, x)) in
        rr_wf q sec seen (length pre) e seen1 /\ record_at q (rv_at r x (length pre)) e /\
        rdata_at q (rv_at r x (length pre)) x.
  Proof.
    intros Hwf. destruct (rr_wf_full p sec seen off off1 seen1 Hwf) as (r & x & Hoff & Hr & Hx & Hflags).
    exists r, x. split; [exact Hoff|]. split; [exact Hr|]. split; [exact Hx|]. split; [exact Hflags|].
    (* tie the policy's own witnesses to the reading *)
    destruct Hwf as (ne0 & t0 & rdlen0 & (ls0 & Hcn0) & Hne0 & Ht0 & Hrl0 & Ho0 & Hl0 & Hrest).
    pose proof Hr as (Hcn & Ht & Hc & Httl & Hrl & Ho & Hl & HA & HAAAA).
    rewrite Hoff in Hcn. destruct (cname_l_fun _ _ _ _ _ _ Hcn0 Hcn) as [Els Ene]. subst ne0 ls0.
    pose proof (u16_at_fun _ _ _ _ Ht0 Ht) as Et. subst t0.
    pose proof (u16_at_fun _ _ _ _ Hrl0 Hrl) as Erl. assert (Erl' : N.to_nat rdlen0 = rv_rdlen r) by lia.
    rewrite Erl' in *. clear Erl.
    assert (Hwf0 : (rv_type r =? TYPE_OPT)%N = false -> rdata_wf p (rv_type r) (rv_name_end r + 10) (rv_rdlen r)).
    { intros E. rewrite E in Hrest. apply Hrest. }
    assert (Hopt0 : (rv_type r =? TYPE_OPT)%N = true -> exists n, opts_tile p (rv_name_end r + 10) off1 n).
    { intros E. rewrite E in Hrest. destruct Hrest as (_ & _ & _ & _ & Hn). exact Hn. }
    destruct (rd_context p Hb r x off1 Hr Hx Hwf0 Hopt0) as (Hrdlt & Hrdok & HA' & HAAAA' & Hctx).
    assert (Hlok : Forall label_ok (rv_labels r)) by (destruct Hcn as [_ Hna]; eapply name_at_labels_ok; exact Hna).
    pose proof (wire_length_le _ _ _ _ Hcn) as Hwl.
    pose proof (u16_lt _ _ _ Hb Ht) as Htlt. pose proof (u16_lt _ _ _ Hb Hc) as Hclt. pose proof (u32_lt _ _ _ Hb Httl) as Httllt.
    split.
    { rewrite plain_record_rec_bytes. unfold rec_bytes.
      repeat (apply bytes_ok_app; [first [apply bytes_ok_be16|apply bytes_ok_be32|exact (bytes_ok_wire_of p off _ _ Hb Hcn)]|]). exact Hrdok. }
    intros pre post. rewrite plain_record_rec_bytes.
    destruct (plain_fixed (rv_labels r) (rv_type r) (rv_class r) (rv_ttl r) (plain_rdata x) pre post Hlok Hwl Htlt Hclt Httllt Hrdlt)
      as (Fcn & Ft & Fc & Fttl & Frl & Fe & Fle & Fq & FH).
    set (q := pre ++ rec_bytes (rv_labels r) (rv_type r) (rv_class r) (rv_ttl r) (plain_rdata x) ++ post) in *.
    set (o := length pre) in *. set (ne := o + length (wire_of_labels (rv_labels r))) in *.
    set (Hd := pre ++ wire_of_labels (rv_labels r) ++ be16_bytes (rv_type r) ++ be16_bytes (rv_class r) ++ be32_bytes (rv_ttl r) ++
               be16_bytes (N.of_nat (length (plain_rdata x)))) in *.
    destruct (Hctx Hd post (rv_at r x o)) as (Cx & Cwf & Copt); [cbn [rv_at rv_name_end]; fold ne; lia|reflexivity|reflexivity|].
    rewrite <- Fq in Cx, Cwf, Copt. rewrite FH in Cwf, Copt.
    cbv zeta. split; [|split].
    - (* the policy *)
      exists ne, (rv_type r), (N.of_nat (length (plain_rdata x))).
      split; [exists (rv_labels r); exact Fcn|]. split; [lia|]. split; [exact Ft|]. split; [exact Frl|].
      rewrite Nat2N.id. split; [lia|]. split; [lia|].
      destruct (rv_type r =? TYPE_OPT)%N eqn:Eo.
      + destruct Hrest as (Hs & Hne1 & Hse & Hse1 & _).
        assert (Hroot : rv_labels r = []) by (apply (cname_l_root_only p off); rewrite <- Hne1; exact Hcn).
        split; [exact Hs|]. split; [unfold ne; rewrite Hroot; reflexivity|]. split; [exact Hse|]. split; [exact Hse1|].
        destruct (Copt eq_refl) as (n & Hn). exists n. replace (o + length (rec_bytes (rv_labels r) (rv_type r) (rv_class r) (rv_ttl r) (plain_rdata x))) with (ne + 10 + length (plain_rdata x)) by lia. exact Hn.
      + destruct Hrest as [Hse _]. split; [exact Hse|]. apply Cwf. reflexivity.
    - (* the reading *)
      unfold record_at. cbn [rv_at rv_off rv_labels rv_name_end rv_type rv_class rv_ttl rv_rdlen]. fold ne.
      split; [exact Fcn|]. split; [exact Ft|]. split; [exact Fc|]. split; [exact Fttl|]. split; [exact Frl|].
      split; [lia|]. split; [lia|]. split; assumption.
    - exact Cx.
  Qed.

  (** the same with any other TTL: nothing in the policy looks at it *)
  Lemma rr_plain_ttl sec seen off off1 seen1 : rr_wf p sec seen off off1 seen1 ->
    exists r x, rv_off r = off /\ record_at p r off1 /\ rdata_at p r x /\
      forall t', (t' < 4294967296)%N ->
      bytes_ok (plain_record (rv_with_ttl r t', x)) /\
      forall pre post,
        let q := pre ++ plain_record (rv_with_ttl r t', x) ++ post in
        let e := length pre + length (plain_record (rv_with_ttl r t', x)) in
        rr_wf q sec seen (length pre) e seen1 /\ record_at q (rv_at (rv_with_ttl r t') x (length pre)) e /\
        rdata_at q (rv_at (rv_with_ttl r t') x (length pre)) x.
  Proof.
    intros Hwf. destruct (rr_wf_full p sec seen off off1 seen1 Hwf) as (r & x & Hoff & Hr & Hx & Hflags).
    exists r, x. split; [exact Hoff|]. split; [exact Hr|]. split; [exact Hx|].
    (* tie the policy's own witnesses to the reading *)
    destruct Hwf as (ne0 & t0 & rdlen0 & (ls0 & Hcn0) & Hne0 & Ht0 & Hrl0 & Ho0 & Hl0 & Hrest).
    pose proof Hr as (Hcn & Ht & Hc & Httl & Hrl & Ho & Hl & HA & HAAAA).
    rewrite Hoff in Hcn. destruct (cname_l_fun _ _ _ _ _ _ Hcn0 Hcn) as [Els Ene]. subst ne0 ls0.
    pose proof (u16_at_fun _ _ _ _ Ht0 Ht) as Et. subst t0.
    pose proof (u16_at_fun _ _ _ _ Hrl0 Hrl) as Erl. assert (Erl' : N.to_nat rdlen0 = rv_rdlen r) by lia.
    rewrite Erl' in *. clear Erl.
    assert (Hwf0 : (rv_type r =? TYPE_OPT)%N = false -> rdata_wf p (rv_type r) (rv_name_end r + 10) (rv_rdlen r)).
    { intros E. rewrite E in Hrest. apply Hrest. }
    assert (Hopt0 : (rv_type r =? TYPE_OPT)%N = true -> exists n, opts_tile p (rv_name_end r + 10) off1 n).
    { intros E. rewrite E in Hrest. destruct Hrest as (_ & _ & _ & _ & Hn). exact Hn. }
    destruct (rd_context p Hb r x off1 Hr Hx Hwf0 Hopt0) as (Hrdlt & Hrdok & HA' & HAAAA' & Hctx).
    assert (Hlok : Forall label_ok (rv_labels r)) by (destruct Hcn as [_ Hna]; eapply name_at_labels_ok; exact Hna).
    pose proof (wire_length_le _ _ _ _ Hcn) as Hwl.
    pose proof (u16_lt _ _ _ Hb Ht) as Htlt. pose proof (u16_lt _ _ _ Hb Hc) as Hclt. intros t' Httllt.
    change (plain_record (rv_with_ttl r t', x)) with (rec_bytes (rv_labels r) (rv_type r) (rv_class r) t' (plain_rdata x)).
    split.
    { unfold rec_bytes.
      repeat (apply bytes_ok_app; [first [apply bytes_ok_be16|apply bytes_ok_be32|exact (bytes_ok_wire_of p off _ _ Hb Hcn)]|]). exact Hrdok. }
    intros pre post.
    destruct (plain_fixed (rv_labels r) (rv_type r) (rv_class r) t' (plain_rdata x) pre post Hlok Hwl Htlt Hclt Httllt Hrdlt)
      as (Fcn & Ft & Fc & Fttl & Frl & Fe & Fle & Fq & FH).
    set (q := pre ++ rec_bytes (rv_labels r) (rv_type r) (rv_class r) t' (plain_rdata x) ++ post) in *.
    set (o := length pre) in *. set (ne := o + length (wire_of_labels (rv_labels r))) in *.
    set (Hd := pre ++ wire_of_labels (rv_labels r) ++ be16_bytes (rv_type r) ++ be16_bytes (rv_class r) ++ be32_bytes t' ++
               be16_bytes (N.of_nat (length (plain_rdata x)))) in *.
    destruct (Hctx Hd post (rv_at (rv_with_ttl r t') x o)) as (Cx & Cwf & Copt); [cbn [rv_at rv_with_ttl rv_labels rv_name_end]; fold ne; lia|reflexivity|reflexivity|].
    rewrite <- Fq in Cx, Cwf, Copt. rewrite FH in Cwf, Copt.
    cbv zeta. split; [|split].
    - (* the policy *)
      exists ne, (rv_type r), (N.of_nat (length (plain_rdata x))).
      split; [exists (rv_labels r); exact Fcn|]. split; [lia|]. split; [exact Ft|]. split; [exact Frl|].
      rewrite Nat2N.id. split; [lia|]. split; [lia|].
      destruct (rv_type r =? TYPE_OPT)%N eqn:Eo.
      + destruct Hrest as (Hs & Hne1 & Hse & Hse1 & _).
        assert (Hroot : rv_labels r = []) by (apply (cname_l_root_only p off); rewrite <- Hne1; exact Hcn).
        split; [exact Hs|]. split; [unfold ne; rewrite Hroot; reflexivity|]. split; [exact Hse|]. split; [exact Hse1|].
        destruct (Copt eq_refl) as (n & Hn). exists n. replace (o + length (rec_bytes (rv_labels r) (rv_type r) (rv_class r) t' (plain_rdata x))) with (ne + 10 + length (plain_rdata x)) by lia. exact Hn.
      + destruct Hrest as [Hse _]. split; [exact Hse|]. apply Cwf. reflexivity.
    - (* the reading *)
      unfold record_at. cbn [rv_at rv_with_ttl rv_off rv_labels rv_name_end rv_type rv_class rv_ttl rv_rdlen]. fold ne.
      split; [exact Fcn|]. split; [exact Ft|]. split; [exact Fc|]. split; [exact Fttl|]. split; [exact Frl|].
      split; [lia|]. split; [lia|]. split; assumption.
    - exact Cx.
  Qed.

  (** a non-OPT record with any other well-formed owner name *)
  Lemma rr_plain_labels sec seen off off1 seen1 : rr_wf p sec seen off off1 seen1 ->
    exists r x, rv_off r = off /\ record_at p r off1 /\ rdata_at p r x /\
      forall ls', is_opt r = false -> Forall label_ok ls' -> length (wire_of_labels ls') <= 255 -> bytes_ok (wire_of_labels ls') ->
      bytes_ok (plain_record (rv_with_labels r ls', x)) /\
      forall pre post,
        let q := pre ++ plain_record (rv_with_labels r ls', x) ++ post in
        let e := length pre + length (plain_record (rv_with_labels r ls', x)) in
        rr_wf q sec seen (length pre) e seen1 /\ record_at q (rv_at (rv_with_labels r ls') x (length pre)) e /\
        rdata_at q (rv_at (rv_with_labels r ls') x (length pre)) x.
  Proof.
    intros Hwf. destruct (rr_wf_full p sec seen off off1 seen1 Hwf) as (r & x & Hoff & Hr & Hx & Hflags).
    exists r, x. split; [exact Hoff|]. split; [exact Hr|]. split; [exact Hx|].
    (* tie the policy's own witnesses to the reading *)
    destruct Hwf as (ne0 & t0 & rdlen0 & (ls0 & Hcn0) & Hne0 & Ht0 & Hrl0 & Ho0 & Hl0 & Hrest).
    pose proof Hr as (Hcn & Ht & Hc & Httl & Hrl & Ho & Hl & HA & HAAAA).
    rewrite Hoff in Hcn. destruct (cname_l_fun _ _ _ _ _ _ Hcn0 Hcn) as [Els Ene]. subst ne0 ls0.
    pose proof (u16_at_fun _ _ _ _ Ht0 Ht) as Et. subst t0.
    pose proof (u16_at_fun _ _ _ _ Hrl0 Hrl) as Erl. assert (Erl' : N.to_nat rdlen0 = rv_rdlen r) by lia.
    rewrite Erl' in *. clear Erl.
    assert (Hwf0 : (rv_type r =? TYPE_OPT)%N = false -> rdata_wf p (rv_type r) (rv_name_end r + 10) (rv_rdlen r)).
    { intros E. rewrite E in Hrest. apply Hrest. }
    assert (Hopt0 : (rv_type r =? TYPE_OPT)%N = true -> exists n, opts_tile p (rv_name_end r + 10) off1 n).
    { intros E. rewrite E in Hrest. destruct Hrest as (_ & _ & _ & _ & Hn). exact Hn. }
    destruct (rd_context p Hb r x off1 Hr Hx Hwf0 Hopt0) as (Hrdlt & Hrdok & HA' & HAAAA' & Hctx).
    assert (Hlok : Forall label_ok (rv_labels r)) by (destruct Hcn as [_ Hna]; eapply name_at_labels_ok; exact Hna).
    pose proof (wire_length_le _ _ _ _ Hcn) as Hwl.
    pose proof (u16_lt _ _ _ Hb Ht) as Htlt. pose proof (u16_lt _ _ _ Hb Hc) as Hclt. pose proof (u32_lt _ _ _ Hb Httl) as Httllt. intros ls' Hno Hlok' Hwl' Hbw'.
    change (plain_record (rv_with_labels r ls', x)) with (rec_bytes ls' (rv_type r) (rv_class r) (rv_ttl r) (plain_rdata x)).
    split.
    { unfold rec_bytes.
      repeat (apply bytes_ok_app; [first [apply bytes_ok_be16|apply bytes_ok_be32|exact Hbw']|]). exact Hrdok. }
    intros pre post.
    destruct (plain_fixed ls' (rv_type r) (rv_class r) (rv_ttl r) (plain_rdata x) pre post Hlok' Hwl' Htlt Hclt Httllt Hrdlt)
      as (Fcn & Ft & Fc & Fttl & Frl & Fe & Fle & Fq & FH).
    set (q := pre ++ rec_bytes ls' (rv_type r) (rv_class r) (rv_ttl r) (plain_rdata x) ++ post) in *.
    set (o := length pre) in *. set (ne := o + length (wire_of_labels ls')) in *.
    set (Hd := pre ++ wire_of_labels ls' ++ be16_bytes (rv_type r) ++ be16_bytes (rv_class r) ++ be32_bytes (rv_ttl r) ++
               be16_bytes (N.of_nat (length (plain_rdata x)))) in *.
    destruct (Hctx Hd post (rv_at (rv_with_labels r ls') x o)) as (Cx & Cwf & Copt); [cbn [rv_at rv_with_labels rv_labels rv_name_end]; fold ne; lia|reflexivity|reflexivity|].
    rewrite <- Fq in Cx, Cwf, Copt. rewrite FH in Cwf, Copt.
    cbv zeta. split; [|split].
    - (* the policy *)
      exists ne, (rv_type r), (N.of_nat (length (plain_rdata x))).
      split; [exists ls'; exact Fcn|]. split; [lia|]. split; [exact Ft|]. split; [exact Frl|].
      rewrite Nat2N.id. split; [lia|]. split; [lia|].
      unfold is_opt in Hno. rewrite Hno in Hrest |- *. destruct Hrest as [Hse _]. split; [exact Hse|]. apply Cwf. exact Hno.
    - (* the reading *)
      unfold record_at. cbn [rv_at rv_with_labels rv_off rv_labels rv_name_end rv_type rv_class rv_ttl rv_rdlen]. fold ne.
      split; [exact Fcn|]. split; [exact Ft|]. split; [exact Fc|]. split; [exact Fttl|]. split; [exact Frl|].
      split; [lia|]. split; [lia|]. split; assumption.
    - exact Cx.
  Qed.
End Rec.

(** ** A section *)
(** the same record in two packets: same owner labels, fixed fields and data reading (positions may differ) *)
Definition same_rec (rx rx' : rec_view * rd_view) : Prop :=
  snd rx' = snd rx /\ rv_labels (fst rx') = rv_labels (fst rx) /\ rv_type (fst rx') = rv_type (fst rx) /\
  rv_class (fst rx') = rv_class (fst rx) /\ rv_ttl (fst rx') = rv_ttl (fst rx).

Section Recs.
  Variable p : bytes.
  Hypothesis Hb : bytes_ok p.

  Definition rd_ok (q : bytes) (rx : rec_view * rd_view) : Prop := rdata_at q (fst rx) (snd rx).

  Lemma rrs_plain sec : forall seen off n off' seen', rrs_wf p sec seen off n off' seen' ->
    exists lx, records_at p off (map fst lx) off' /\ length lx = n /\ Forall (rd_ok p) lx /\
      bytes_ok (concat (map plain_record lx)) /\
      forall pre post,
        let q := pre ++ concat (map plain_record lx) ++ post in
        let e := length pre + length (concat (map plain_record lx)) in
        rrs_wf q sec seen (length pre) n e seen' /\
        exists lx', records_at q (length pre) (map fst lx') e /\ Forall (rd_ok q) lx' /\
                    map plain_record lx' = map plain_record lx /\ Forall2 same_rec lx lx' /\
                    Forall (fun rx => plain_at q (fst rx) (snd rx)) lx' /\ lx' = place (length pre) lx.
  Proof.
    induction 1 as [seen off|seen off off1 seen1 n off' seen' Hrr Hrest IH].
    - exists []. cbn [map concat length]. split; [constructor|]. split; [reflexivity|]. split; [constructor|].
      split; [constructor|]. intros pre post. cbn [app]. rewrite Nat.add_0_r. split; [constructor|].
      exists []. cbn. repeat split; constructor.
    - destruct (rr_plain p Hb _ _ _ _ _ Hrr) as (r & x & Hoff & Hr & Hx & _ & Hbr & Hctx).
      destruct IH as (lx & Hl & Hlen & Hxs & Hbl & Hctxs).
      exists ((r, x) :: lx). cbn [map fst concat].
      split; [rewrite <- Hoff; econstructor; eauto|]. split; [cbn [length]; lia|].
      split; [constructor; [exact Hx|exact Hxs]|]. split; [apply bytes_ok_app; assumption|].
      intros pre post. cbv zeta.
      destruct (Hctx pre (concat (map plain_record lx) ++ post)) as (W1 & R1 & X1).
      destruct (Hctxs (pre ++ plain_record (r, x)) post) as (W2 & lx' & R2 & X2 & E2 & F2 & P2 & Epl).
      assert (Eq1 : pre ++ (plain_record (r, x) ++ concat (map plain_record lx)) ++ post =
                    pre ++ plain_record (r, x) ++ concat (map plain_record lx) ++ post) by (rewrite <- !app_assoc; reflexivity).
      assert (Eq2 : (pre ++ plain_record (r, x)) ++ concat (map plain_record lx) ++ post =
                    pre ++ plain_record (r, x) ++ concat (map plain_record lx) ++ post) by (rewrite <- !app_assoc; reflexivity).
      rewrite Eq1. rewrite Eq2 in W2, R2, X2, P2. rewrite app_length in W2, R2.
      rewrite (app_length (plain_record (r, x))).
      replace (length pre + (length (plain_record (r, x)) + length (concat (map plain_record lx))))
        with (length pre + length (plain_record (r, x)) + length (concat (map plain_record lx))) by lia.
      split; [econstructor; eauto|].
      exists ((rv_at r x (length pre), x) :: lx'). cbn [map fst].
      split; [change (length pre) with (rv_off (rv_at r x (length pre))) at 1; econstructor; eauto|].
      split; [constructor; [exact X1|exact X2]|]. split; [cbn [map]; rewrite E2; reflexivity|].
      split; [constructor; [unfold same_rec; cbn; auto|exact F2]|].
      split; [constructor; [|exact P2]; cbn [fst snd]; apply plain_at_placed|].
      cbn [place fst snd]. rewrite Epl, app_length. reflexivity.
  Qed.
End Recs.

(** ** The reading is a function of the bytes *)
Lemma rdata_at_fun p r x x' : rdata_at p r x -> rdata_at p r x' -> x = x'.
Proof.
  destruct x as [l1|pf1 l1|a1 b1 t1|b1], x' as [l2|pf2 l2|a2 b2 t2|b2]; cbn [rdata_at]; intros H1 H2.
  - destruct H1 as [_ C1], H2 as [_ C2]. destruct (cname_l_fun _ _ _ _ _ _ C1 C2) as [-> _]. reflexivity.
  - destruct H1 as [A _], H2 as [B _]. congruence.
  - destruct H1 as [A _], H2 as [B _]. congruence.
  - destruct H1 as [A _], H2 as [B _]. congruence.
  - destruct H1 as [A _], H2 as [B _]. congruence.
  - destruct H1 as (_ & _ & _ & -> & C1), H2 as (_ & _ & _ & -> & C2). destruct (cname_l_fun _ _ _ _ _ _ C1 C2) as [-> _]. reflexivity.
  - destruct H1 as (_ & A & _), H2 as (_ & B & _). rewrite A in B. discriminate.
  - destruct H1 as (_ & A & _), H2 as (_ & B & _). congruence.
  - destruct H1 as [A _], H2 as [B _]. congruence.
  - destruct H1 as (_ & A & _), H2 as (_ & B & _). rewrite A in B. discriminate.
  - destruct H1 as (_ & _ & _ & m1 & C1 & D1 & ->), H2 as (_ & _ & _ & m2 & C2 & D2 & ->).
    destruct (cname_l_fun _ _ _ _ _ _ C1 C2) as [-> ->]. destruct (cname_l_fun _ _ _ _ _ _ D1 D2) as [-> _]. reflexivity.
  - destruct H1 as (_ & A & _), H2 as (_ & _ & B & _). congruence.
  - destruct H1 as [A _], H2 as [B _]. congruence.
  - destruct H1 as (_ & A & _), H2 as (_ & B & _). congruence.
  - destruct H1 as (_ & _ & A & _), H2 as (_ & B & _). congruence.
  - destruct H1 as (_ & _ & _ & ->), H2 as (_ & _ & _ & ->). reflexivity.
Qed.

Lemma readings_fun p : forall off lx e, records_at p off (map fst lx) e -> Forall (rd_ok p) lx ->
  forall lx' e', records_at p off (map fst lx') e' -> Forall (rd_ok p) lx' -> length lx = length lx' ->
  lx = lx' /\ e = e'.
Proof.
  intros off lx e Hl Hx lx' e' Hl' Hx' Hlen.
  destruct (records_at_fun p _ _ _ Hl _ _ Hl' ltac:(rewrite !map_length; exact Hlen)) as [Em Ee].
  split; [|exact Ee]. clear Hl Hl' Ee. revert lx' Hx' Hlen Em.
  induction Hx as [|[r x] lx Hx0 Hxs IH]; intros lx' Hx' Hlen Em; destruct lx' as [|[r' x'] lx']; try discriminate; [reflexivity|].
  inversion Hx' as [|? ? Hx0' Hxs']; subst. cbn [map fst] in Em. inversion Em; subst.
  unfold rd_ok in Hx0, Hx0'. cbn [fst snd] in Hx0, Hx0'. rewrite (rdata_at_fun _ _ _ _ Hx0 Hx0').
  f_equal. apply IH; [exact Hxs'|cbn in Hlen; lia|assumption].
Qed.

(** ** The whole packet *)
Record reading (p : bytes) (qls : list bytes) (qt : N) (lxa lxn lxr : list (rec_view * rd_view)) : Prop := {
  rd_q : exists qe e1 e2, cname_l p 12 qls qe /\ u16_at p qe qt /\ u16_at p (qe + 2) CLASS_IN /\ qe + 4 <= length p /\
           records_at p (qe + 4) (map fst lxa) e1 /\ records_at p e1 (map fst lxn) e2 /\
           records_at p e2 (map fst lxr) (length p);
  rd_x : Forall (rd_ok p) (lxa ++ lxn ++ lxr);
  rd_an : hdr_ancount p = Ok (N.of_nat (length lxa));
  rd_ns : hdr_nscount p = Ok (N.of_nat (length lxn));
  rd_ar : hdr_arcount p = Ok (N.of_nat (length lxr))
}.

Definition plain_packet_of (p : bytes) (qls : list bytes) (qt : N) (lxa lxn lxr : list (rec_view * rd_view)) : bytes :=
  firstn 12 p ++ plain_question qls qt CLASS_IN ++ concat (map plain_record (lxa ++ lxn ++ lxr)).

Theorem reading_fun p qls qt lxa lxn lxr qls' qt' lxa' lxn' lxr' :
  reading p qls qt lxa lxn lxr -> reading p qls' qt' lxa' lxn' lxr' ->
  qls = qls' /\ qt = qt' /\ lxa = lxa' /\ lxn = lxn' /\ lxr = lxr'.
Proof.
  intros [(qe & e1 & e2 & Hcn & Ht & _ & _ & Ha & Hn & Hr) Hx Han Hns Har]
         [(qe' & e1' & e2' & Hcn' & Ht' & _ & _ & Ha' & Hn' & Hr') Hx' Han' Hns' Har'].
  destruct (cname_l_fun _ _ _ _ _ _ Hcn Hcn') as [<- <-]. pose proof (u16_at_fun _ _ _ _ Ht Ht') as <-.
  apply Forall_app in Hx. destruct Hx as [Hxa Hx]. apply Forall_app in Hx. destruct Hx as [Hxn Hxr].
  apply Forall_app in Hx'. destruct Hx' as [Hxa' Hx']. apply Forall_app in Hx'. destruct Hx' as [Hxn' Hxr'].
  rewrite Han in Han'. rewrite Hns in Hns'. rewrite Har in Har'.
  assert (La : length lxa = length lxa') by (inversion Han'; lia).
  assert (Ln : length lxn = length lxn') by (inversion Hns'; lia).
  assert (Lr : length lxr = length lxr') by (inversion Har'; lia).
  destruct (readings_fun p _ _ _ Ha Hxa _ _ Ha' Hxa' La) as [<- <-].
  destruct (readings_fun p _ _ _ Hn Hxn _ _ Hn' Hxn' Ln) as [<- <-].
  destruct (readings_fun p _ _ _ Hr Hxr _ _ Hr' Hxr' Lr) as [<- _]. auto.
Qed.

Lemma hdr_nth (p rest : bytes) i : 12 <= length p -> i < 12 -> nth_error (firstn 12 p ++ rest) i = nth_error p i.
Proof.
  intros Hl Hi. rewrite nth_error_app1 by (rewrite firstn_length; lia). apply nth_error_firstn. exact Hi.
Qed.

Lemma u16_at_hdr (p rest : bytes) i v : 12 <= length p -> i + 1 < 12 -> u16_at p i v -> u16_at (firstn 12 p ++ rest) i v.
Proof. intros Hl Hi H. eapply u16_at_move; [exact H| |]; apply hdr_nth; lia. Qed.

Theorem plain_packet : forall p, bytes_ok p -> wf_packet p ->
  exists qls qt lxa lxn lxr,
    reading p qls qt lxa lxn lxr /\
    let q := plain_packet_of p qls qt lxa lxn lxr in
    bytes_ok q /\ wf_packet q /\
    exists lxa' lxn' lxr', reading q qls qt lxa' lxn' lxr' /\
      map plain_record lxa' = map plain_record lxa /\ map plain_record lxn' = map plain_record lxn /\
      map plain_record lxr' = map plain_record lxr /\
      Forall2 same_rec (lxa ++ lxn ++ lxr) (lxa' ++ lxn' ++ lxr') /\
      Forall (fun rx => plain_at q (fst rx) (snd rx)) (lxa' ++ lxn' ++ lxr') /\
      (let o1 := 12 + length (wire_of_labels qls) + 4 in
       let o2 := o1 + length (concat (map plain_record lxa)) in
       let o3 := o2 + length (concat (map plain_record lxn)) in
       lxa' = place o1 lxa /\ lxn' = place o2 lxn /\ lxr' = place o3 lxr).
Proof.
  intros p Hb (w & an & ns & ar & qe & qclass & e1 & s1 & e2 & s2 & s3 & Hw & Hqd & Han & Hns & Har & (qls & Hqn) & Hq4 & Hqc & Hcls & Hgate & Hc1 & Hc2 & Hc3).
  subst qclass.
  destruct (u16_exists p qe ltac:(lia)) as (qt & Hqt).
  destruct (rrs_plain p Hb _ _ _ _ _ _ Hc1) as (lxa & Hla & Hlla & Hxa & Hba & Hca).
  destruct (rrs_plain p Hb _ _ _ _ _ _ Hc2) as (lxn & Hln & Hlln & Hxn & Hbn & Hcn).
  destruct (rrs_plain p Hb _ _ _ _ _ _ Hc3) as (lxr & Hlr & Hllr & Hxr & Hbr & Hcr).
  assert (H12 : 12 < length p) by (destruct Hqn; lia).
  exists qls, qt, lxa, lxn, lxr.
  assert (Hcnt : forall off site v, u16_at p off v -> be16_at p off site = Ok v) by (intros; apply be16_at_u16; assumption).
  split.
  { constructor.
    - exists qe, e1, e2. split; [exact Hqn|]. split; [exact Hqt|]. split; [exact Hqc|]. split; [exact Hq4|]. split; [exact Hla|]. split; [exact Hln|exact Hlr].
    - apply Forall_app; split; [exact Hxa|apply Forall_app; split; assumption].
    - unfold hdr_ancount. rewrite Hlla, N2Nat.id. apply Hcnt. exact Han.
    - unfold hdr_nscount. rewrite Hlln, N2Nat.id. apply Hcnt. exact Hns.
    - unfold hdr_arcount. rewrite Hllr, N2Nat.id. apply Hcnt. exact Har. }
  cbv zeta. unfold plain_packet_of, plain_question. rewrite !map_app, !concat_app.
  set (hdr := firstn 12 p). set (W := wire_of_labels qls).
  set (A := concat (map plain_record lxa)). set (Nn := concat (map plain_record lxn)). set (R := concat (map plain_record lxr)).
  set (q := hdr ++ (W ++ be16_bytes qt ++ be16_bytes CLASS_IN) ++ A ++ Nn ++ R).
  assert (Hlh : length hdr = 12) by (unfold hdr; rewrite firstn_length; lia).
  assert (Hlok : Forall label_ok qls) by (destruct Hqn as [_ Hna]; eapply name_at_labels_ok; exact Hna).
  pose proof (wire_length_le _ _ _ _ Hqn) as Hwl. fold W in Hwl.
  pose proof (u16_lt _ _ _ Hb Hqt) as Hqtlt.
  (* the three sections in their contexts *)
  destruct (Hca (hdr ++ W ++ be16_bytes qt ++ be16_bytes CLASS_IN) (Nn ++ R)) as (Wa & lxa' & Ra & Xa & Ea & Fa & Pa & Ela). fold A in Wa, Ra, Xa, Pa.
  destruct (Hcn (hdr ++ (W ++ be16_bytes qt ++ be16_bytes CLASS_IN) ++ A) R) as (Wn & lxn' & Rn & Xn & En & Fn & Pn & Eln). fold Nn in Wn, Rn, Xn, Pn.
  destruct (Hcr (hdr ++ (W ++ be16_bytes qt ++ be16_bytes CLASS_IN) ++ A ++ Nn) []) as (Wr & lxr' & Rr & Xr & Er & Fr & Pr & Elr). fold R in Wr, Rr, Xr, Pr.
  assert (Q1 : (hdr ++ W ++ be16_bytes qt ++ be16_bytes CLASS_IN) ++ A ++ Nn ++ R = q) by (unfold q; rewrite <- !app_assoc; reflexivity).
  assert (Q2 : (hdr ++ (W ++ be16_bytes qt ++ be16_bytes CLASS_IN) ++ A) ++ Nn ++ R = q) by (unfold q; rewrite <- !app_assoc; reflexivity).
  assert (Q3 : (hdr ++ (W ++ be16_bytes qt ++ be16_bytes CLASS_IN) ++ A ++ Nn) ++ R ++ [] = q) by (unfold q; rewrite app_nil_r, <- !app_assoc; reflexivity).
  rewrite Q1 in Wa, Ra, Xa, Pa. rewrite Q2 in Wn, Rn, Xn, Pn. rewrite Q3 in Wr, Rr, Xr, Pr.
  assert (L1 : length (hdr ++ W ++ be16_bytes qt ++ be16_bytes CLASS_IN) = 12 + length W + 4) by (rewrite !app_length, Hlh; cbn [length be16_bytes]; lia).
  assert (L2 : length (hdr ++ (W ++ be16_bytes qt ++ be16_bytes CLASS_IN) ++ A) = 12 + length W + 4 + length A) by (rewrite !app_length, Hlh; cbn [length be16_bytes]; lia).
  assert (L3 : length (hdr ++ (W ++ be16_bytes qt ++ be16_bytes CLASS_IN) ++ A ++ Nn) = 12 + length W + 4 + length A + length Nn) by (rewrite !app_length, Hlh; cbn [length be16_bytes]; lia).
  assert (Lq : length q = 12 + length W + 4 + length A + length Nn + length R) by (unfold q; rewrite !app_length, Hlh; cbn [length be16_bytes]; lia).
  rewrite L1 in Wa, Ra, Ela. rewrite L2 in Wn, Rn, Eln. rewrite L3 in Wr, Rr, Elr.
  replace (12 + length W + 4 + length A + length Nn + length R) with (length q) in Wr, Rr by lia.
  (* the question in q *)
  assert (Cq : cname_l q 12 qls (12 + length W)).
  { unfold q. rewrite <- !app_assoc. rewrite <- Hlh. apply cname_l_mid; assumption. }
  assert (Tq : u16_at q (12 + length W) qt).
  { replace q with ((hdr ++ W) ++ be16_bytes qt ++ (be16_bytes CLASS_IN ++ A ++ Nn ++ R)) by (unfold q; rewrite <- !app_assoc; reflexivity).
    replace (12 + length W) with (length (hdr ++ W)) by (rewrite app_length; lia). apply u16_at_mid. exact Hqtlt. }
  assert (Clq : u16_at q (12 + length W + 2) CLASS_IN).
  { replace q with ((hdr ++ W ++ be16_bytes qt) ++ be16_bytes CLASS_IN ++ (A ++ Nn ++ R)) by (unfold q; rewrite <- !app_assoc; reflexivity).
    replace (12 + length W + 2) with (length (hdr ++ W ++ be16_bytes qt)) by (rewrite !app_length; cbn [length be16_bytes]; lia).
    apply u16_at_mid. reflexivity. }
  assert (Hh : forall i v, i + 1 < 12 -> u16_at p i v -> u16_at q i v).
  { intros i v Hi Hv. unfold q. apply u16_at_hdr; [lia|exact Hi|exact Hv]. }
  split.
  { unfold q. apply bytes_ok_app; [apply Forall_firstn; exact Hb|].
    apply bytes_ok_app; [apply bytes_ok_app; [exact (bytes_ok_wire_of p 12 qls qe Hb Hqn)|apply bytes_ok_app; apply bytes_ok_be16]|].
    apply bytes_ok_app; [exact Hba|apply bytes_ok_app; assumption]. }
  split.
  { exists w, an, ns, ar, (12 + length W), CLASS_IN, (12 + length W + 4 + length A), s1, (12 + length W + 4 + length A + length Nn), s2, s3.
    split; [apply Hh; [lia|exact Hw]|]. split; [apply Hh; [lia|exact Hqd]|]. split; [apply Hh; [lia|exact Han]|].
    split; [apply Hh; [lia|exact Hns]|]. split; [apply Hh; [lia|exact Har]|].
    split; [exists qls; exact Cq|]. split; [lia|]. split; [exact Clq|]. split; [reflexivity|]. split; [exact Hgate|].
    split; [exact Wa|]. split; [exact Wn|exact Wr]. }
  exists lxa', lxn', lxr'.
  split; [|split; [exact Ea|]; split; [exact En|]; split; [exact Er|]; split; [apply Forall2_app; [exact Fa|apply Forall2_app; assumption]|];
           split; [apply Forall_app; split; [exact Pa|apply Forall_app; split; assumption]|];
           cbv zeta; fold A Nn; auto].
  constructor.
  - exists (12 + length W), (12 + length W + 4 + length A), (12 + length W + 4 + length A + length Nn).
    split; [exact Cq|]. split; [exact Tq|]. split; [exact Clq|]. split; [lia|]. split; [exact Ra|]. split; [exact Rn|exact Rr].
  - apply Forall_app; split; [exact Xa|apply Forall_app; split; assumption].
  - unfold hdr_ancount. apply be16_at_u16. replace (N.of_nat (length lxa')) with an; [apply Hh; [lia|exact Han]|].
    apply (f_equal (@length _)) in Ea. rewrite !map_length in Ea. lia.
  - unfold hdr_nscount. apply be16_at_u16. replace (N.of_nat (length lxn')) with ns; [apply Hh; [lia|exact Hns]|].
    apply (f_equal (@length _)) in En. rewrite !map_length in En. lia.
  - unfold hdr_arcount. apply be16_at_u16. replace (N.of_nat (length lxr')) with ar; [apply Hh; [lia|exact Har]|].
    apply (f_equal (@length _)) in Er. rewrite !map_length in Er. lia.
Qed.

Lemma firstn12_plain (p rest : bytes) : 12 <= length p -> firstn 12 (firstn 12 p ++ rest) = firstn 12 p.
Proof.
  intros H. rewrite firstn_app, firstn_firstn, Nat.min_id, firstn_length.
  replace (12 - Init.Nat.min 12 (length p)) with 0 by lia. rewrite firstn_O. apply app_nil_r.
Qed.

(** ** Decompression: accepted again, same message, fixed point *)
Lemma uncompress_reading p v : bytes_ok p -> parse p = Ok v ->
  exists qls qt lxa lxn lxr, reading p qls qt lxa lxn lxr /\ uncompress p = Ok (plain_packet_of p qls qt lxa lxn lxr).
Proof.
  intros Hb Hp.
  destruct (uncompress_spec p v Hb Hp) as (qls & qt & qe & e1 & e2 & lxa & lxn & lxr & [(qe0 & Hc0 & Ht0 & Hcl0 & Hl0)] & Hcn & Ha & Hn & Hr & Hx & Han & Hns & Har & Hu).
  destruct (cname_l_fun _ _ _ _ _ _ Hc0 Hcn) as [_ ->].
  exists qls, qt, lxa, lxn, lxr. split; [|exact Hu].
  constructor; try assumption. exists qe, e1, e2. repeat split; try assumption; apply Hcn.
Qed.

Theorem uncompress_roundtrip : forall p v, bytes_ok p -> parse p = Ok v ->
  exists q v' qls qt lxa lxn lxr lxa' lxn' lxr',
    uncompress p = Ok q /\ bytes_ok q /\ parse q = Ok v' /\ uncompress q = Ok q /\
    reading p qls qt lxa lxn lxr /\ reading q qls qt lxa' lxn' lxr' /\
    map plain_record lxa' = map plain_record lxa /\ map plain_record lxn' = map plain_record lxn /\
    map plain_record lxr' = map plain_record lxr /\
    Forall2 same_rec (lxa ++ lxn ++ lxr) (lxa' ++ lxn' ++ lxr').
Proof.
  intros p v Hb Hp.
  destruct (uncompress_reading p v Hb Hp) as (qls1 & qt1 & lxa1 & lxn1 & lxr1 & R1 & Hu).
  destruct (plain_packet p Hb (parse_sound p v Hb Hp)) as (qls & qt & lxa & lxn & lxr & R2 & Hbq & Hwq & lxa' & lxn' & lxr' & R2' & Ea & En & Er & F2 & P2).
  destruct (reading_fun _ _ _ _ _ _ _ _ _ _ _ R1 R2) as (-> & -> & -> & -> & ->).
  set (q := plain_packet_of p qls qt lxa lxn lxr) in *.
  destruct (parse_complete q Hbq Hwq) as (v' & Hp').
  destruct (uncompress_reading q v' Hbq Hp') as (qls3 & qt3 & lxa3 & lxn3 & lxr3 & R3 & Hu3).
  destruct (reading_fun _ _ _ _ _ _ _ _ _ _ _ R3 R2') as (-> & -> & -> & -> & ->).
  exists q, v', qls, qt, lxa, lxn, lxr, lxa', lxn', lxr'.
  split; [exact Hu|]. split; [exact Hbq|]. split; [exact Hp'|].
  split.
  { rewrite Hu3. f_equal.
    assert (H12 : 12 <= length p).
    { destruct R2 as [(qe & _ & _ & Hc & _) _ _ _ _]. destruct Hc. lia. }
    unfold plain_packet_of at 1. rewrite !map_app, Ea, En, Er. unfold q at 1. unfold plain_packet_of at 1.
    rewrite (firstn12_plain p _ H12). unfold q, plain_packet_of. rewrite !map_app. reflexivity. }
  split; [exact R2|]. split; [exact R2'|]. auto.
Qed.
