(** * The cursor protocol on a decompressed object (C11).

    [next_restart]: a cursor without an offset (fresh, or after a deletion) restarts at the first record of its
    section with the section's current count, or ends when the section is empty.  [next_advance]: a cursor on a
    record moves to the record that follows, or ends after the last one.  Together with [delete_keeps_dinv]
    these are the three steps of the abstract machine of [DeleteWalk.v] ([walk_refines]). *)

From DV Require Import Model.Base Model.NameCheck Model.Parser Model.Header Model.Readers Model.Uncompress Model.Mutate
  Spec.NameSpec Spec.PacketSpec Spec.RecordSpec Spec.PlainSpec Proofs.ListLemmas Proofs.Hoare Proofs.ParserInv Proofs.ParseSound
  Proofs.ParseComplete Proofs.NameIff Proofs.NameCheckTotal Proofs.ReadersAgree Proofs.ReadersLabels Proofs.HeaderBits Proofs.QuestionSpec
  Proofs.WalkValues Proofs.SetTtl Proofs.WalkSkip Proofs.UncompressSpec Proofs.PlainWf Proofs.InsertLemmas Proofs.EdnsFacts Proofs.EdnsPos
  Proofs.EdnsPlain Proofs.InsertSpec Proofs.HeaderInv Proofs.Chain Proofs.SetTtlInv Proofs.DeleteInv Proofs.SetNameInv Proofs.Totality.
From Coq Require Import ZifyBool ZifyNat ZifyN.

Definition sec_list (sec : section) (lA lN lR : list (rec_view * rd_view)) : list (rec_view * rd_view) :=
  match sec with SAnswer => lA | SNameServers => lN | _ => lR end.

Definition cur_on (sec : section) (r : rec_view) (left : nat) : rrit :=
  {| it_section := sec; it_offset := Some (rv_off r); it_offset_next := rv_name_end r + 10 + rv_rdlen r; it_name_end := rv_name_end r;
     it_rrs_left := N.of_nat left |}.

(** one step of [next] from a known start *)
Lemma next_from p r e : bytes_ok p -> record_at p r e ->
  skip_name p (rv_off r) = Ok (rv_name_end r) /\ skip_rdata p (rv_name_end r) = Ok (rv_name_end r + 10 + rv_rdlen r) /\
  e = rv_name_end r + 10 + rv_rdlen r.
Proof.
  intros Hb (Hcn & _ & _ & _ & Hrd & He & Hle & _).
  assert (Hck : check_compressed_name p (rv_off r) = Ok (rv_name_end r)) by (apply check_compressed_name_iff; exists (rv_labels r); exact Hcn).
  split; [apply skip_name_agrees; [exact Hck|lia]|]. split; [|exact He].
  apply (be16_at_u16 p (rv_name_end r + 8) 203) in Hrd. rewrite (skip_rdata_agrees p _ _ Hrd), Nat2N.id. reflexivity.
Qed.

Lemma reading_sections p qls qt lA lN lR : reading p qls qt lA lN lR ->
  forall sec, sec = SAnswer \/ sec = SNameServers \/ sec = SAdditional ->
  exists a b, records_at p a (map fst (sec_list sec lA lN lR)) b /\
    (match sec with SAnswer => hdr_ancount p | SNameServers => hdr_nscount p | _ => hdr_arcount p end) = Ok (N.of_nat (length (sec_list sec lA lN lR))).
Proof.
  intros [(qe & e1 & e2 & _ & _ & _ & _ & Ra & Rn & Rr) _ Han Hns Har] sec [->|[->| ->]]; cbn [sec_list]; eauto.
Qed.

Lemma records_at_split p : forall l1 a r l2 b, records_at p a (l1 ++ r :: l2) b ->
  exists e, record_at p r e /\ records_at p e l2 b.
Proof.
  induction l1 as [|y l1 IH]; intros a r l2 b H; cbn [app] in H.
  - inversion H; subst. eauto.
  - inversion H; subst. eapply IH. eassumption.
Qed.

Lemma records_at_cons_inv p a r l b : records_at p a (r :: l) b -> a = rv_off r /\ exists e, record_at p r e /\ records_at p e l b.
Proof. intros H. inversion H; subst. eauto. Qed.

Theorem next_restart : forall v it qls qt lA lN lR sec, dinv v -> reading (pp_packet v) qls qt lA lN lR ->
  it_offset it = None -> it_section it = sec -> sec = SAnswer \/ sec = SNameServers \/ sec = SAdditional ->
  r_next_including_opt v it = Ok (match sec_list sec lA lN lR with [] => None | rx :: l' => Some (cur_on sec (fst rx) (length l')) end).
Proof.
  intros v it qls qt lA lN lR sec Hd Rd Eoff Esec Hsec. set (q := pp_packet v) in *.
  destruct (dinv_reading_offsets v qls qt lA lN lR Hd Rd) as (_ & Oa & On & Or).
  destruct (reading_sections q qls qt lA lN lR Rd sec Hsec) as (a & b & Rs & Hcnt).
  unfold r_next_including_opt. rewrite Eoff, Esec. fold q.
  assert (Hstart : (match sec with
                    | SAnswer => c <- hdr_ancount q ;; Ok (c, pp_offset_answers v)
                    | SNameServers => c <- hdr_nscount q ;; Ok (c, pp_offset_nameservers v)
                    | SAdditional => c <- hdr_arcount q ;; Ok (c, pp_offset_additional v)
                    | _ => Panic 451
                    end) = Ok (N.of_nat (length (sec_list sec lA lN lR)), first_off (sec_list sec lA lN lR))).
  { destruct Hsec as [->|[->| ->]]; cbn [sec_list] in *; rewrite Hcnt; cbn [bind]; [rewrite Oa|rewrite On|rewrite Or]; reflexivity. }
  rewrite Hstart. cbn [bind].
  destruct (sec_list sec lA lN lR) as [|[r x] l'] eqn:El; cbn [length first_off fst]; [reflexivity|].
  replace (N.of_nat (S (length l')) =? 0)%N with false by lia. cbn [unwrap bind].
  replace (N.of_nat (S (length l')) =? 0)%N with false by lia.
  cbn [map fst] in Rs. destruct (records_at_split q [] a r (map fst l') b Rs) as (e & Hrec & _).
  destruct (next_from q r e (di_bytes _ Hd) Hrec) as (E1 & E2 & _). rewrite E1. cbn [bind]. rewrite E2. cbn [bind].
  unfold cur_on. repeat f_equal. lia.
Qed.

Theorem next_advance : forall v qls qt lA lN lR sec l1 rx l2, dinv v -> reading (pp_packet v) qls qt lA lN lR ->
  sec = SAnswer \/ sec = SNameServers \/ sec = SAdditional -> sec_list sec lA lN lR = l1 ++ rx :: l2 ->
  r_next_including_opt v (cur_on sec (fst rx) (length l2)) =
  Ok (match l2 with [] => None | rx2 :: l3 => Some (cur_on sec (fst rx2) (length l3)) end).
Proof.
  intros v qls qt lA lN lR sec l1 [r x] l2 Hd Rd Hsec El. set (q := pp_packet v) in *. cbn [fst].
  destruct (reading_sections q qls qt lA lN lR Rd sec Hsec) as (a & b & Rs & _). rewrite El, map_app in Rs. cbn [map fst] in Rs.
  destruct (records_at_split q _ a r _ b Rs) as (e & Hrec & R2).
  destruct (next_from q r e (di_bytes _ Hd) Hrec) as (_ & _ & He).
  unfold r_next_including_opt. cbn [cur_on it_offset it_rrs_left it_offset_next it_section bind]. fold q.
  destruct l2 as [|[r2 x2] l3]; cbn [length]; [reflexivity|].
  replace (N.of_nat (S (length l3)) =? 0)%N with false by lia.
  cbn [map fst] in R2. destruct (records_at_cons_inv q e r2 _ b R2) as (Eo2 & e2 & Hrec2 & R3).
  destruct (next_from q r2 e2 (di_bytes _ Hd) Hrec2) as (E1 & E2 & _).
  rewrite <- He, Eo2. rewrite E1. cbn [bind]. rewrite E2. cbn [bind].
  unfold cur_on. cbn [fst]. repeat f_equal. lia.
Qed.

Lemma delete_section v it s' : pp_maybe_compressed v = false -> m_delete (v, it) = (s', Ok tt) -> it_section (snd s') = it_section it.
Proof.
  intros Hmc H. unfold m_delete, m_resize_rr, m_set_offset_next, cbind, getv, getit, clift, putv, putit, cret in H. cbn [fst snd] in H. rewrite Hmc in H.
  repeat match type of H with
         | context [match ?x with _ => _ end] =>
           match x with
           | context [match _ with _ => _ end] => fail 1
           | _ => destruct x eqn:?; cbn [fst snd] in H
           end
         end; try (inversion H; fail); inversion H; subst; cbn [snd it_set it_section]; reflexivity.
Qed.

(** ** Records without their positions *)
Definition unpl (rx : rec_view * rd_view) : rec_view * rd_view := (rv_at (fst rx) (snd rx) 0, snd rx).

Lemma unpl_place : forall l o, map unpl (place o l) = map unpl l.
Proof. induction l as [|rx l IH]; intros o; cbn [place map]; [reflexivity|]. rewrite IH. reflexivity. Qed.

Lemma unpl_is_opt rx : is_opt (fst (unpl rx)) = is_opt (fst rx).
Proof. reflexivity. Qed.

Lemma cons_inj {T} (x y : T) (l m : list T) : x :: l = y :: m -> x = y /\ l = m.
Proof. intros H. inversion H. auto. Qed.

Lemma place_cons o rx l : place o (rx :: l) = (rv_at (fst rx) (snd rx) o, snd rx) :: place (o + length (plain_record rx)) l.
Proof. reflexivity. Qed.

Lemma place_split_at : forall l1 A o r x l2, place o A = l1 ++ (r, x) :: l2 ->
  exists A1 r0 A2, A = A1 ++ (r0, x) :: A2 /\ l1 = place o A1 /\ l2 = place (o + length (cat A1) + length (plain_record (r0, x))) A2 /\
                   r = rv_at r0 x (o + length (cat A1)).
Proof.
  induction l1 as [|y l1 IH]; intros [|[a xa] A] o r x l2 H; try discriminate.
  - rewrite place_cons in H. cbn [app fst snd] in H. destruct (cons_inj _ _ _ _ H) as [E1 E2].
    destruct (pair_equal_spec (rv_at a xa o) r xa x) as [Hp _]. destruct (Hp E1) as [Er Ex]. subst xa.
    exists [], a, A. cbn [app]. change (cat []) with (@nil N). cbn [length]. rewrite Nat.add_0_r. change (place o []) with (@nil (rec_view * rd_view)). auto.
  - rewrite place_cons in H. rewrite <- app_comm_cons in H. destruct (cons_inj _ _ _ _ H) as [E1 E2].
    destruct (IH A _ r x l2 E2) as (A1 & r0 & A2 & EA & El1 & El2 & Er).
    exists ((a, xa) :: A1), r0, A2. rewrite place_cons, cat_cons, app_length, EA, El1, El2, Er, <- E1. cbn [app fst snd].
    split; [reflexivity|]. split; [reflexivity|]. split; [f_equal; lia|f_equal; lia].
Qed.

Definition other_sections_kept (sec : section) (lA lN lR lA' lN' lR' : list (rec_view * rd_view)) : Prop :=
  forall s2, s2 <> sec -> s2 = SAnswer \/ s2 = SNameServers \/ s2 = SAdditional ->
    map unpl (sec_list s2 lA' lN' lR') = map unpl (sec_list s2 lA lN lR).

Theorem delete_at : forall sec v qls qt lA lN lR l1 r x l2 n s',
  dinv v -> reading (pp_packet v) qls qt lA lN lR -> sec = SAnswer \/ sec = SNameServers \/ sec = SAdditional ->
  sec_list sec lA lN lR = l1 ++ (r, x) :: l2 -> is_opt r = false ->
  m_delete (v, cur_on sec r n) = (s', Ok tt) ->
  dinv (fst s') /\ it_offset (snd s') = None /\ it_section (snd s') = sec /\
  exists lA' lN' lR', reading (pp_packet (fst s')) qls qt lA' lN' lR' /\
    map unpl (sec_list sec lA' lN' lR') = map unpl l1 ++ map unpl l2 /\ other_sections_kept sec lA lN lR lA' lN' lR'.
Proof.
  intros sec v qls qt lA lN lR l1 r x l2 n s' Hd Rd Hsec El Hno Hdel.
  pose proof (delete_section v _ s' (di_mc _ Hd) Hdel) as Hs. cbn [cur_on it_section] in Hs.
  destruct (dinv_parts v Hd) as (f & w & qls0 & qt0 & A & Nn & R & s1 & s2 & s3 & t1 & t2 & t3 & Hf & Hsv & P & CA & CN & CR & Lq & Rq & Voq & Voa & Von & Vor & Voe).
  destruct (reading_fun _ _ _ _ _ _ _ _ _ _ _ Rq Rd) as (-> & -> & <- & <- & <-).
  set (o1 := 12 + length (wire_of_labels qls) + 4) in *. set (o2 := o1 + length (cat A)) in *. set (o3 := o2 + length (cat Nn)) in *.
  destruct Hsec as [->|[->| ->]]; cbn [sec_list] in El.
  - destruct (place_split_at l1 A o1 r x l2 El) as (A1 & r0 & A2 & -> & -> & -> & Er).
    assert (Hno0 : is_opt r0 = false) by (rewrite Er in Hno; exact Hno).
    destruct (delete_answer v (cur_on SAnswer r n) s' f w qls qt A1 r0 x A2 Nn R s1 s2 s3 t1 t2 t3 Hd Hf Hsv P CA CN CR Voq Voa Von Vor Voe Hno0) as (Hd' & Hit & Rd' & _); [| |exact Hdel|].
    + rewrite Er. reflexivity.
    + rewrite Er. cbn [cur_on it_offset_next rv_at rv_name_end rv_rdlen rv_off]. rewrite plain_record_length. cbn [fst snd]. lia.
    + split; [exact Hd'|]. split; [exact Hit|]. split; [exact Hs|]. eexists _, _, _. split; [exact Rd'|]. cbn [sec_list].
      split; [rewrite !unpl_place, map_app; reflexivity|].
      intros sx Hne [->|[->| ->]]; cbn [sec_list]; [congruence| |]; rewrite !unpl_place; reflexivity.
  - destruct (place_split_at l1 Nn o2 r x l2 El) as (N1 & r0 & N2 & -> & -> & -> & Er).
    assert (Hno0 : is_opt r0 = false) by (rewrite Er in Hno; exact Hno).
    destruct (delete_nameserver v (cur_on SNameServers r n) s' f w qls qt A N1 r0 x N2 R s1 s2 s3 t1 t2 t3 Hd Hf Hsv P CA CN CR Voq Voa Von Vor Voe Hno0) as (Hd' & Hit & Rd' & _); [| |exact Hdel|].
    + rewrite Er. reflexivity.
    + rewrite Er. cbn [cur_on it_offset_next rv_at rv_name_end rv_rdlen rv_off]. rewrite plain_record_length. cbn [fst snd]. lia.
    + split; [exact Hd'|]. split; [exact Hit|]. split; [exact Hs|]. eexists _, _, _. split; [exact Rd'|]. cbn [sec_list].
      split; [rewrite !unpl_place, map_app; reflexivity|].
      intros sx Hne [->|[->| ->]]; cbn [sec_list]; [|congruence|]; rewrite !unpl_place; reflexivity.
  - destruct (place_split_at l1 R o3 r x l2 El) as (R1 & r0 & R2 & -> & -> & -> & Er).
    assert (Hno0 : is_opt r0 = false) by (rewrite Er in Hno; exact Hno).
    destruct (delete_additional v (cur_on SAdditional r n) s' f w qls qt A Nn R1 r0 x R2 s1 s2 s3 t1 t2 t3 Hd Hf Hsv P CA CN CR Voq Voa Von Vor Voe Hno0) as (Hd' & Hit & Rd' & _); [| | |exact Hdel|].
    + rewrite Er. reflexivity.
    + rewrite Er. cbn [cur_on it_offset_next rv_at rv_name_end rv_rdlen rv_off]. rewrite plain_record_length. cbn [fst snd]. lia.
    + rewrite Er. reflexivity.
    + split; [exact Hd'|]. split; [exact Hit|]. split; [exact Hs|]. eexists _, _, _. split; [exact Rd'|]. cbn [sec_list].
      split; [rewrite !unpl_place, map_app; reflexivity|].
      intros sx Hne [->|[->| ->]]; cbn [sec_list]; [| |congruence]; rewrite !unpl_place; reflexivity.
Qed.

(** ** The walk that deletes: the concrete cursor code refines the abstract machine *)
From DV Require Import Proofs.DeleteWalk.

Lemma remove_nth_app {T} (a : list T) y b : remove_nth (length a) (a ++ y :: b) = a ++ b.
Proof. induction a as [|h a IH]; cbn [length app remove_nth]; [reflexivity|]. rewrite IH. reflexivity. Qed.

Lemma nth_error_split_at {T} : forall (l : list T) i x, nth_error l i = Some x -> exists l1 l2, l = l1 ++ x :: l2 /\ length l1 = i.
Proof.
  induction l as [|h l IH]; intros [|i] x H; cbn in H; try discriminate.
  - inversion H; subst. exists [], l. auto.
  - destruct (IH i x H) as (l1 & l2 & -> & <-). exists (h :: l1), l2. auto.
Qed.

Section Refine.
  Variable sec : section.
  Hypothesis Hsec : sec = SAnswer \/ sec = SNameServers \/ sec = SAdditional.
  Variable D : rec_view * rd_view -> bool.
  Variable dec : ppacket -> rrit -> bool.
  Hypothesis D_nonopt : forall y, D y = true -> is_opt (fst y) = false.
  Hypothesis dec_ok : forall v qls qt lA lN lR rxp n, reading (pp_packet v) qls qt lA lN lR -> In rxp (sec_list sec lA lN lR) ->
    dec v (cur_on sec (fst rxp) n) = D (unpl rxp).

  Fixpoint cwalk (fuel : nat) (v : ppacket) (it : rrit) (cs : list rrit) : option (ppacket * list rrit) :=
    match fuel with
    | O => None
    | S f =>
      match r_next_including_opt v it with
      | Ok None => Some (v, cs)
      | Ok (Some cur) =>
        if dec v cur then
          match m_delete (v, cur) with
          | ((v', cur'), Ok _) => cwalk f v' cur' (cs ++ [cur])
          | _ => None
          end
        else cwalk f v cur (cs ++ [cur])
      | _ => None
      end
    end.

  Definition Cur (it : rrit) (lc : list (rec_view * rd_view)) (i : nat) : Prop :=
    (i = 0 /\ it_offset it = None /\ it_section it = sec) \/
    (exists l1 rxp l2, lc = l1 ++ rxp :: l2 /\ i = S (length l1) /\ it = cur_on sec (fst rxp) (length l2)).

  Definition yielded (c : rrit) (y : rec_view * rd_view) : Prop := exists rxp n, c = cur_on sec (fst rxp) n /\ unpl rxp = y.

  Lemma next_of_cur v it qls qt lA lN lR i : dinv v -> reading (pp_packet v) qls qt lA lN lR -> Cur it (sec_list sec lA lN lR) i ->
    r_next_including_opt v it =
    Ok (match nth_error (sec_list sec lA lN lR) i with
        | None => None
        | Some rxp => Some (cur_on sec (fst rxp) (length (sec_list sec lA lN lR) - i - 1))
        end).
  Proof.
    intros Hd Rd [(-> & Eoff & Es)|(l1 & rxp & l2 & El & -> & ->)].
    - rewrite (next_restart v it qls qt lA lN lR sec Hd Rd Eoff Es Hsec).
      destruct (sec_list sec lA lN lR) as [|rx l']; cbn [nth_error length]; [reflexivity|]. repeat f_equal. lia.
    - rewrite (next_advance v qls qt lA lN lR sec l1 rxp l2 Hd Rd Hsec El). rewrite El.
      replace (S (length l1)) with (length (l1 ++ [rxp]) + 0) by (rewrite app_length; cbn [length]; lia).
      replace (l1 ++ rxp :: l2) with ((l1 ++ [rxp]) ++ l2) by (rewrite <- app_assoc; reflexivity).
      rewrite nth_error_app2 by lia. replace (length (l1 ++ [rxp]) + 0 - length (l1 ++ [rxp])) with 0 by lia.
      destruct l2 as [|rx2 l3]; cbn [nth_error]; [reflexivity|]. repeat f_equal. rewrite !app_length. cbn [length]. lia.
  Qed.

  Lemma kept_trans lA lN lR lA1 lN1 lR1 lA2 lN2 lR2 :
    other_sections_kept sec lA lN lR lA1 lN1 lR1 -> other_sections_kept sec lA1 lN1 lR1 lA2 lN2 lR2 -> other_sections_kept sec lA lN lR lA2 lN2 lR2.
  Proof. intros H1 H2 s2 Hne Hs2. rewrite (H2 s2 Hne Hs2). exact (H1 s2 Hne Hs2). Qed.

  Theorem walk_refines : forall fuel v it qls qt lA lN lR i cs ys,
    dinv v -> reading (pp_packet v) qls qt lA lN lR -> Cur it (sec_list sec lA lN lR) i -> Forall2 yielded cs ys ->
    match awalk D fuel (map unpl (sec_list sec lA lN lR)) i ys with
    | None => cwalk fuel v it cs = None
    | Some (l', ys') =>
      exists v' cs' lA' lN' lR', cwalk fuel v it cs = Some (v', cs') /\ dinv v' /\ reading (pp_packet v') qls qt lA' lN' lR' /\
        map unpl (sec_list sec lA' lN' lR') = l' /\ other_sections_kept sec lA lN lR lA' lN' lR' /\ Forall2 yielded cs' ys'
    end.
  Proof.
    induction fuel as [|fuel IH]; intros v it qls qt lA lN lR i cs ys Hd Rd Hc Hy; cbn [awalk cwalk]; [reflexivity|].
    set (lc := sec_list sec lA lN lR) in *.
    rewrite (next_of_cur v it qls qt lA lN lR i Hd Rd Hc). fold lc. rewrite nth_error_map.
    destruct (nth_error lc i) as [rxp|] eqn:En; cbn [option_map].
    - destruct (nth_error_split_at lc i rxp En) as (l1 & l2 & El & Ll1).
      assert (Hin : In rxp (sec_list sec lA lN lR)) by (fold lc; rewrite El; apply in_or_app; right; left; reflexivity).
      rewrite (dec_ok v qls qt lA lN lR rxp _ Rd Hin).
      set (cur := cur_on sec (fst rxp) (length lc - i - 1)).
      assert (Hyc : Forall2 yielded (cs ++ [cur]) (ys ++ [unpl rxp])).
      { apply Forall2_app; [exact Hy|]. constructor; [|constructor]. exists rxp, (length lc - i - 1). auto. }
      destruct (D (unpl rxp)) eqn:Ed.
      + (* delete *)
        pose proof (D_nonopt _ Ed) as Hno. rewrite unpl_is_opt in Hno. destruct rxp as [r x]. cbn [fst] in *.
        destruct (reading_record_in _ _ _ _ _ _ Rd r x ltac:(destruct Hsec as [->|[->| ->]]; cbn [sec_list] in Hin; repeat (apply in_or_app; first [left; exact Hin|right]); exact Hin))
          as (_ & e & Hrec).
        destruct (delete_total v cur qls qt lA lN lR r x Hd Rd
                    ltac:(destruct Hsec as [->|[->| ->]]; cbn [sec_list] in Hin; repeat (apply in_or_app; first [left; exact Hin|right]); exact Hin) Hno eq_refl eq_refl eq_refl)
          as (s' & Hdel).
        rewrite Hdel. destruct s' as [v' cur'].
        destruct (delete_at sec v qls qt lA lN lR l1 r x l2 _ (v', cur') Hd Rd Hsec El Hno Hdel) as (Hd' & Ho' & Hs' & lA1 & lN1 & lR1 & Rd1 & El1 & Hk1).
        cbn [fst snd] in *.
        assert (Erm : remove_nth i (map unpl lc) = map unpl (sec_list sec lA1 lN1 lR1)).
        { rewrite El1, El, map_app. cbn [map]. rewrite <- Ll1, <- (map_length unpl l1). apply remove_nth_app. }
        rewrite Erm.
        specialize (IH v' cur' qls qt lA1 lN1 lR1 0 (cs ++ [cur]) (ys ++ [unpl (r, x)]) Hd' Rd1 ltac:(left; auto) Hyc).
        destruct (awalk D fuel (map unpl (sec_list sec lA1 lN1 lR1)) 0 (ys ++ [unpl (r, x)])) as [[l' ys']|]; [|exact IH].
        destruct IH as (v2 & cs2 & lA2 & lN2 & lR2 & Hw & Hd2 & Rd2 & El2 & Hk2 & Hy2).
        exists v2, cs2, lA2, lN2, lR2. repeat (split; [assumption|]). split; [exact (kept_trans _ _ _ _ _ _ _ _ _ Hk1 Hk2)|exact Hy2].
      + (* keep *)
        apply (IH v cur qls qt lA lN lR (S i) (cs ++ [cur]) (ys ++ [unpl rxp]) Hd Rd); [|exact Hyc].
        right. exists l1, rxp, l2. fold lc. split; [exact El|]. split; [lia|]. unfold cur. f_equal. rewrite El, app_length. cbn [length]. lia.
    - exists v, cs, lA, lN, lR. split; [reflexivity|]. split; [exact Hd|]. split; [exact Rd|]. split; [reflexivity|]. split; [|exact Hy].
      intros s2 _ _. reflexivity.
  Qed.

  (** a walk from a fresh cursor: it terminates within (|D| + 1)(n + 1) calls of next, the section then holds exactly the survivors in
      their order, the other sections are as they were, every survivor was yielded *)
  Theorem walk_deletes_exactly : forall v it qls qt lA lN lR,
    dinv v -> reading (pp_packet v) qls qt lA lN lR -> it_offset it = None -> it_section it = sec ->
    let l := map unpl (sec_list sec lA lN lR) in
    exists v' cs lA' lN' lR' ys,
      cwalk ((ndel D l + 1) * (length l + 1)) v it [] = Some (v', cs) /\ dinv v' /\ reading (pp_packet v') qls qt lA' lN' lR' /\
      map unpl (sec_list sec lA' lN' lR') = filter (keep D) l /\ other_sections_kept sec lA lN lR lA' lN' lR' /\
      Forall2 yielded cs ys /\ (forall y, In y (filter (keep D) l) -> In y ys) /\ (forall y, In y ys -> In y l).
  Proof.
    intros v it qls qt lA lN lR Hd Rd Eoff Es l.
    destruct (awalk_terminates D l) as [rr Haw]. destruct rr as [l' ys].
    pose proof (walk_refines ((ndel D l + 1) * (length l + 1)) v it qls qt lA lN lR 0 [] [] Hd Rd ltac:(left; auto) ltac:(constructor)) as Hr.
    fold l in Hr. rewrite Haw in Hr. destruct Hr as (v' & cs' & lA' & lN' & lR' & Hw & Hd' & Rd' & El' & Hk & Hy).
    destruct (awalk_exact D _ l l' ys Haw) as (Hl' & Hsurv).
    destruct (awalk_yields_from_section D _ l 0 [] l' ys Haw) as (zs & Ezs & Hzs). cbn [app] in Ezs. subst zs.
    exists v', cs', lA', lN', lR', ys. rewrite <- Hl'. repeat (split; [assumption|]). first [exact Hzs|split; [exact Hsurv|exact Hzs]].
  Qed.
End Refine.

(** the hypotheses on the decision are satisfiable: a hook that deletes every record whose type it reads as something other than OPT *)
Definition dec_nonopt (v : ppacket) (cur : rrit) : bool :=
  match it_rr_type v cur with Ok t => negb (t =? TYPE_OPT)%N | _ => false end.

Definition D_nonopt_all (y : rec_view * rd_view) : bool := negb (is_opt (fst y)).

Theorem walk_delete_all : forall sec v it qls qt lA lN lR,
  sec = SAnswer \/ sec = SNameServers \/ sec = SAdditional ->
  dinv v -> reading (pp_packet v) qls qt lA lN lR -> it_offset it = None -> it_section it = sec ->
  let l := map unpl (sec_list sec lA lN lR) in
  exists v' cs lA' lN' lR',
    cwalk dec_nonopt ((ndel D_nonopt_all l + 1) * (length l + 1)) v it [] = Some (v', cs) /\ dinv v' /\
    reading (pp_packet v') qls qt lA' lN' lR' /\
    map unpl (sec_list sec lA' lN' lR') = filter (fun y => is_opt (fst y)) l /\ other_sections_kept sec lA lN lR lA' lN' lR'.
Proof.
  intros sec v it qls qt lA lN lR Hsec Hd Rd Eoff Es l.
  destruct (walk_deletes_exactly sec Hsec D_nonopt_all dec_nonopt) with (v := v) (it := it) (qls := qls) (qt := qt) (lA := lA) (lN := lN) (lR := lR)
    as (v' & cs & lA' & lN' & lR' & ys & Hw & Hd' & Rd' & El & Hk & _); try assumption.
  - intros y Hy. unfold D_nonopt_all in Hy. destruct (is_opt (fst y)); [discriminate|reflexivity].
  - intros v0 qls0 qt0 lA0 lN0 lR0 [r x] n Rd0 Hin. unfold dec_nonopt, D_nonopt_all. cbn [fst unpl].
    destruct (reading_record_in _ _ _ _ _ _ Rd0 r x ltac:(destruct Hsec as [->|[->| ->]]; cbn [sec_list] in Hin; repeat (apply in_or_app; first [left; exact Hin|right]); exact Hin))
      as (_ & e & Hrec).
    rewrite (it_rr_type_ok (pp_packet v0) v0 eq_refl r e (cur_on sec r n) Hrec eq_refl eq_refl). reflexivity.
  - exists v', cs, lA', lN', lR'. fold l in Hw, El. repeat (split; [assumption|]). split; [|exact Hk].
    rewrite El. apply filter_ext. intros y. unfold keep, D_nonopt_all. rewrite Bool.negb_involutive. reflexivity.
Qed.
