(** * Records made by the builders are records insert_rr takes (C13, C09): the record [RR::new] returns for an accepted owner text and
    data that is not read as names (A with 4 bytes, AAAA with 16, TXT, DS, any type other than NS / CNAME / PTR / MX / SOA / DNAME / OPT)
    is the pointer-free encoding [plain_record rx] of a record [rx] that is well-formed in every context ([plain_rr_ok]) - which is
    what the insertion theorems of C09 / C08 ask of the record handed in. *)
From DV Require Import Model.Base Model.NameCheck Model.Parser Model.Header Model.Readers Model.Uncompress Model.Mutate Model.Gen
  Spec.NameSpec Spec.PacketSpec Spec.RecordSpec Spec.PlainSpec Proofs.ListLemmas Proofs.Hoare Proofs.ReadersLabels Proofs.QuestionSpec
  Proofs.WalkSkip Proofs.PlainWf Proofs.InsertSpec Proofs.SynthTotal Proofs.NameText.
From Coq Require Import ZifyBool ZifyNat ZifyN.

Definition raw_type (t : N) : Prop :=
  is_name_type t = false /\ t <> TYPE_MX /\ t <> TYPE_SOA /\ t <> TYPE_DNAME /\ t <> TYPE_OPT.

Definition raw_rec (ls : list bytes) (t c ttl : N) (b : bytes) : rec_view * rd_view :=
  ({| rv_off := 0; rv_labels := ls; rv_name_end := length (wire_of_labels ls); rv_type := t; rv_class := c; rv_ttl := ttl;
      rv_rdlen := length b |}, RdRaw b).

Lemma raw_rec_bytes ls t c ttl b :
  plain_record (raw_rec ls t c ttl b) = wire_of_labels ls ++ be16_bytes t ++ be16_bytes c ++ be32_bytes ttl ++ be16_bytes (N.of_nat (length b)) ++ b.
Proof. reflexivity. Qed.

Theorem raw_rec_ok ls t c ttl b :
  Forall label_ok ls -> length (wire_of_labels ls) <= 255 -> bytes_ok (wire_of_labels ls) -> bytes_ok b ->
  (t < 65536)%N -> (c < 65536)%N -> (ttl < 4294967296)%N -> (N.of_nat (length b) < 65536)%N -> raw_type t ->
  (t = TYPE_A -> length b = 4) -> (t = TYPE_AAAA -> length b = 16) ->
  plain_rr_ok (raw_rec ls t c ttl b).
Proof.
  intros Hls H255 Hbw Hbb Ht Hc Httl Hlen (Hnt & Hmx & Hsoa & Hdn & Hopt) HA HAAAA.
  set (W := wire_of_labels ls) in *.
  split; [unfold is_opt, raw_rec; cbn [fst rv_type]; lia|].
  split.
  { rewrite raw_rec_bytes. fold W. repeat (apply bytes_ok_app; [first [assumption|apply bytes_ok_be16|apply bytes_ok_be32]|]). exact Hbb. }
  intros sec seen pre post. cbv zeta. rewrite raw_rec_bytes. fold W. cbn [fst snd].
  set (q := pre ++ (W ++ be16_bytes t ++ be16_bytes c ++ be32_bytes ttl ++ be16_bytes (N.of_nat (length b)) ++ b) ++ post).
  set (ne := length pre + length W).
  assert (Hq : q = pre ++ W ++ (be16_bytes t ++ be16_bytes c ++ be32_bytes ttl ++ be16_bytes (N.of_nat (length b)) ++ b ++ post))
    by (unfold q; rewrite <- !app_assoc; reflexivity).
  assert (Hcn : cname_l q (length pre) ls ne) by (rewrite Hq; apply cname_l_mid; assumption).
  assert (U_t : u16_at q ne t).
  { replace q with ((pre ++ W) ++ be16_bytes t ++ (be16_bytes c ++ be32_bytes ttl ++ be16_bytes (N.of_nat (length b)) ++ b ++ post))
      by (unfold q; rewrite <- !app_assoc; reflexivity).
    replace ne with (length (pre ++ W)) by (rewrite app_length; reflexivity). apply u16_at_mid; exact Ht. }
  assert (U_c : u16_at q (ne + 2) c).
  { replace q with ((pre ++ W ++ be16_bytes t) ++ be16_bytes c ++ (be32_bytes ttl ++ be16_bytes (N.of_nat (length b)) ++ b ++ post))
      by (unfold q; rewrite <- !app_assoc; reflexivity).
    replace (ne + 2) with (length (pre ++ W ++ be16_bytes t)) by (rewrite !app_length; cbn [length be16_bytes]; unfold ne; lia). apply u16_at_mid; exact Hc. }
  assert (U_ttl : u32_at q (ne + 4) ttl).
  { replace q with ((pre ++ W ++ be16_bytes t ++ be16_bytes c) ++ be32_bytes ttl ++ (be16_bytes (N.of_nat (length b)) ++ b ++ post))
      by (unfold q; rewrite <- !app_assoc; reflexivity).
    replace (ne + 4) with (length (pre ++ W ++ be16_bytes t ++ be16_bytes c)) by (rewrite !app_length; cbn [length be16_bytes]; unfold ne; lia). apply u32_at_mid; exact Httl. }
  assert (U_l : u16_at q (ne + 8) (N.of_nat (length b))).
  { replace q with ((pre ++ W ++ be16_bytes t ++ be16_bytes c ++ be32_bytes ttl) ++ be16_bytes (N.of_nat (length b)) ++ (b ++ post))
      by (unfold q; rewrite <- !app_assoc; reflexivity).
    replace (ne + 8) with (length (pre ++ W ++ be16_bytes t ++ be16_bytes c ++ be32_bytes ttl)) by (rewrite !app_length; cbn [length be16_bytes be32_bytes]; unfold ne; lia).
    apply u16_at_mid; exact Hlen. }
  assert (Lq : length q = ne + 10 + length b + length post).
  { unfold q, ne. rewrite !app_length. cbn [length be16_bytes be32_bytes]. lia. }
  assert (Le : length pre + length (W ++ be16_bytes t ++ be16_bytes c ++ be32_bytes ttl ++ be16_bytes (N.of_nat (length b)) ++ b) = ne + 10 + length b).
  { unfold ne. rewrite !app_length. cbn [length be16_bytes be32_bytes]. lia. }
  rewrite Le.
  assert (Hrd : rdata_wf q t (ne + 10) (length b)).
  { unfold rdata_wf. rewrite Hnt. replace (t =? TYPE_MX)%N with false by lia. replace (t =? TYPE_SOA)%N with false by lia.
    replace (t =? TYPE_DNAME)%N with false by lia.
    destruct (t =? TYPE_A)%N eqn:EA; [apply HA; lia|]. destruct (t =? TYPE_AAAA)%N eqn:E4; [apply HAAAA; lia|exact I]. }
  split.
  { exists ne, t, (N.of_nat (length b)). split; [exists ls; exact Hcn|]. split; [lia|]. split; [exact U_t|]. split; [exact U_l|].
    rewrite Nat2N.id. split; [reflexivity|]. split; [lia|]. replace (t =? TYPE_OPT)%N with false by lia. split; [reflexivity|exact Hrd]. }
  split.
  { unfold record_at, rv_at, raw_rec. cbn [fst snd rv_off rv_labels rv_name_end rv_type rv_class rv_ttl rv_rdlen plain_rdata]. fold W. fold ne.
    split; [exact Hcn|]. split; [exact U_t|]. split; [exact U_c|]. split; [exact U_ttl|]. split; [exact U_l|].
    split; [reflexivity|]. split; [lia|]. split; [exact HA|exact HAAAA]. }
  unfold rdata_at, rv_at, raw_rec. cbn [fst snd rv_off rv_labels rv_name_end rv_type rv_class rv_ttl rv_rdlen plain_rdata]. fold W. fold ne.
  split; [exact Hnt|]. split; [exact Hmx|]. split; [exact Hsoa|].
  unfold rdata_of. cbn [rv_rdlen rv_name_end].
  replace q with ((pre ++ W ++ be16_bytes t ++ be16_bytes c ++ be32_bytes ttl ++ be16_bytes (N.of_nat (length b))) ++ b ++ post)
    by (unfold q; rewrite <- !app_assoc; reflexivity).
  replace (ne + 10) with (length (pre ++ W ++ be16_bytes t ++ be16_bytes c ++ be32_bytes ttl ++ be16_bytes (N.of_nat (length b))))
    by (rewrite !app_length; cbn [length be16_bytes be32_bytes]; unfold ne; lia).
  rewrite skipn_app_exact. symmetry. apply firstn_app_exact.
Qed.

(** ** What [RR::new] returns *)
Theorem rr_new_is_plain_record : forall name ttl cls t rd rr,
  rr_new name ttl cls t rd = Ok rr -> bytes_ok rd -> (t < 65536)%N -> (cls < 65536)%N -> (ttl < 4294967296)%N -> raw_type t ->
  (t = TYPE_A -> length rd = 4) -> (t = TYPE_AAAA -> length rd = 16) ->
  exists ls, Forall label_ok ls /\ (name = dotted ls \/ name = dots ls \/ (name = [46%N] /\ ls = [])) /\
    rr = plain_record (raw_rec ls t cls ttl rd) /\ plain_rr_ok (raw_rec ls t cls ttl rd).
Proof.
  intros name ttl cls t rd rr H Hbrd Ht Hc Httl Hraw HA HAAAA. unfold rr_new in H.
  destruct (65535 <? N.of_nat (length rd))%N eqn:El; [discriminate|].
  destruct (copy_raw_name_from_str [] name None) as [pk| |] eqn:Ew; cbn [bind] in H; try discriminate. inversion H; subst rr. clear H.
  destruct (from_str_sound [] name None pk Ew) as (ls & Htl & Hcase).
  assert (Hp : Forall label_ok ls) by (eapply Forall_impl; [|exact Htl]; intros l Hl; apply tlabel_label_ok; exact Hl).
  assert (Epk : pk = wire_of_labels ls /\ length (wire_of_labels ls) <= 253 /\ (name = dotted ls \/ name = dots ls \/ (name = [46%N] /\ ls = []))).
  { destruct Hcase as [(Hne & Hn & Hw1 & Hl)|(Hn & Hw1 & Hl)]; cbn [app] in Hw1.
    - cbn [zone_or_root] in Hw1, Hl. unfold wire_of_labels. auto.
    - split; [exact Hw1|]. split; [exact Hl|]. destruct Hn as [Hn|Hn]; auto. }
  destruct Epk as (-> & Hl & Hn).
  assert (Hbw : bytes_ok (wire_of_labels ls)).
  { apply bytes_ok_wire; [exact Hp|]. eapply Forall_impl; [|exact Htl]. intros l (_ & _ & Hok). unfold bytes_ok.
    clear -Hok. induction l as [|c0 l IH]; [constructor|]. cbn [forallb] in Hok. apply andb_true_iff in Hok. destruct Hok as [Hc0 Hl0].
    constructor; [unfold text_char_ok in Hc0; lia|exact (IH Hl0)]. }
  exists ls. split; [exact Hp|]. split; [exact Hn|]. split; [rewrite raw_rec_bytes; reflexivity|].
  apply raw_rec_ok; try assumption; lia.
Qed.

(** ** ... and inserting it: for every accepted packet, a successful [insert_rr] of such a record into the answer, authority or
    additional section leaves a packet the parser accepts, whose view is that of its parse (C13: "inserting it ... leaves a packet
    the parser accepts", for the data shapes that hold no names; the full effect is [C09_insert_effect] with [rx] this record) *)
Theorem built_record_inserts : forall name ttl t rd rr p v it sec s',
  rr_new name ttl CLASS_IN t rd = Ok rr -> bytes_ok rd -> (t < 65536)%N -> (ttl < 4294967296)%N -> raw_type t ->
  (t = TYPE_A -> length rd = 4) -> (t = TYPE_AAAA -> length rd = 16) ->
  bytes_ok p -> parse p = Ok v -> sec = SAnswer \/ sec = SNameServers \/ sec = SAdditional ->
  (sec <> SAdditional -> exists w, u16_at p 2 w /\ N.land w 32768 = 32768%N) ->
  m_insert_rr sec rr (v, it) = (s', Ok tt) ->
  exists f, bytes_ok (pp_packet (fst s')) /\ wf_packet (pp_packet (fst s')) /\ parse (pp_packet (fst s')) = Ok f /\
    pp_offset_question (fst s') = pp_offset_question f /\ pp_offset_answers (fst s') = pp_offset_answers f /\
    pp_offset_nameservers (fst s') = pp_offset_nameservers f /\ pp_offset_additional (fst s') = pp_offset_additional f /\
    pp_offset_edns (fst s') = pp_offset_edns f /\ pp_edns_count (fst s') = pp_edns_count f /\
    pp_maybe_compressed (fst s') = false /\ pp_cached (fst s') = None.
Proof.
  intros name ttl t rd rr p v it sec s' Hnew Hbrd Ht Httl Hraw HA HAAAA Hb Hp Hsec Hg Hins.
  destruct (rr_new_is_plain_record name ttl CLASS_IN t rd rr Hnew Hbrd Ht ltac:(unfold CLASS_IN; lia) Httl Hraw HA HAAAA) as (ls & _ & _ & -> & Hok).
  destruct (insert_fresh p v it sec _ s' Hb Hp Hok Hsec Hg Hins) as (q & qls & qt & A & Nn & R & H). cbv zeta in H.
  destruct H as (_ & _ & _ & _ & Hbz & Hwz & _ & _ & (f & Hf & V1 & V2 & V3 & V4 & V5 & V6 & _ & _ & _ & _ & V11 & V12)).
  exists f. repeat (split; [assumption|]). assumption.
Qed.

(** ** Records whose data is one name (NS, CNAME, PTR): the builder converts the target text like the owner text *)
Definition name_rec (ls : list bytes) (t c ttl : N) (ls2 : list bytes) : rec_view * rd_view :=
  ({| rv_off := 0; rv_labels := ls; rv_name_end := length (wire_of_labels ls); rv_type := t; rv_class := c; rv_ttl := ttl;
      rv_rdlen := length (wire_of_labels ls2) |}, RdName ls2).

Lemma name_rec_bytes ls t c ttl ls2 :
  plain_record (name_rec ls t c ttl ls2) =
  wire_of_labels ls ++ be16_bytes t ++ be16_bytes c ++ be32_bytes ttl ++ be16_bytes (N.of_nat (length (wire_of_labels ls2))) ++ wire_of_labels ls2.
Proof. reflexivity. Qed.

Theorem name_rec_ok ls t c ttl ls2 :
  Forall label_ok ls -> length (wire_of_labels ls) <= 255 -> bytes_ok (wire_of_labels ls) ->
  Forall label_ok ls2 -> length (wire_of_labels ls2) <= 255 -> bytes_ok (wire_of_labels ls2) ->
  (c < 65536)%N -> (ttl < 4294967296)%N -> is_name_type t = true ->
  plain_rr_ok (name_rec ls t c ttl ls2).
Proof.
  intros Hls H255 Hbw Hls2 H255b Hbw2 Hc Httl Hnt.
  assert (Ht : (t < 65536)%N) by (unfold is_name_type, TYPE_NS, TYPE_CNAME, TYPE_PTR in Hnt; lia).
  assert (Hopt : (t =? TYPE_OPT)%N = false) by (unfold is_name_type, TYPE_NS, TYPE_CNAME, TYPE_PTR, TYPE_OPT in *; lia).
  set (W := wire_of_labels ls) in *. set (D := wire_of_labels ls2) in *.
  assert (HD1 : 1 <= length D) by (unfold D, wire_of_labels; rewrite app_length; cbn [length]; lia).
  assert (Hlen : (N.of_nat (length D) < 65536)%N) by lia.
  split; [unfold is_opt, name_rec; cbn [fst rv_type]; exact Hopt|].
  split.
  { rewrite name_rec_bytes. fold W D. repeat (apply bytes_ok_app; [first [assumption|apply bytes_ok_be16|apply bytes_ok_be32]|]). exact Hbw2. }
  intros sec seen pre post. cbv zeta. rewrite name_rec_bytes. fold W D. cbn [fst snd].
  set (q := pre ++ (W ++ be16_bytes t ++ be16_bytes c ++ be32_bytes ttl ++ be16_bytes (N.of_nat (length D)) ++ D) ++ post).
  set (ne := length pre + length W).
  assert (Hq : q = pre ++ W ++ (be16_bytes t ++ be16_bytes c ++ be32_bytes ttl ++ be16_bytes (N.of_nat (length D)) ++ D ++ post))
    by (unfold q; rewrite <- !app_assoc; reflexivity).
  assert (Hcn : cname_l q (length pre) ls ne) by (rewrite Hq; apply cname_l_mid; assumption).
  assert (U_t : u16_at q ne t).
  { replace q with ((pre ++ W) ++ be16_bytes t ++ (be16_bytes c ++ be32_bytes ttl ++ be16_bytes (N.of_nat (length D)) ++ D ++ post))
      by (unfold q; rewrite <- !app_assoc; reflexivity).
    replace ne with (length (pre ++ W)) by (rewrite app_length; reflexivity). apply u16_at_mid; exact Ht. }
  assert (U_c : u16_at q (ne + 2) c).
  { replace q with ((pre ++ W ++ be16_bytes t) ++ be16_bytes c ++ (be32_bytes ttl ++ be16_bytes (N.of_nat (length D)) ++ D ++ post))
      by (unfold q; rewrite <- !app_assoc; reflexivity).
    replace (ne + 2) with (length (pre ++ W ++ be16_bytes t)) by (rewrite !app_length; cbn [length be16_bytes]; unfold ne; lia). apply u16_at_mid; exact Hc. }
  assert (U_ttl : u32_at q (ne + 4) ttl).
  { replace q with ((pre ++ W ++ be16_bytes t ++ be16_bytes c) ++ be32_bytes ttl ++ (be16_bytes (N.of_nat (length D)) ++ D ++ post))
      by (unfold q; rewrite <- !app_assoc; reflexivity).
    replace (ne + 4) with (length (pre ++ W ++ be16_bytes t ++ be16_bytes c)) by (rewrite !app_length; cbn [length be16_bytes]; unfold ne; lia). apply u32_at_mid; exact Httl. }
  assert (U_l : u16_at q (ne + 8) (N.of_nat (length D))).
  { replace q with ((pre ++ W ++ be16_bytes t ++ be16_bytes c ++ be32_bytes ttl) ++ be16_bytes (N.of_nat (length D)) ++ (D ++ post))
      by (unfold q; rewrite <- !app_assoc; reflexivity).
    replace (ne + 8) with (length (pre ++ W ++ be16_bytes t ++ be16_bytes c ++ be32_bytes ttl)) by (rewrite !app_length; cbn [length be16_bytes be32_bytes]; unfold ne; lia).
    apply u16_at_mid; exact Hlen. }
  assert (Hdn : cname_l q (ne + 10) ls2 (ne + 10 + length D)).
  { replace q with ((pre ++ W ++ be16_bytes t ++ be16_bytes c ++ be32_bytes ttl ++ be16_bytes (N.of_nat (length D))) ++ D ++ post)
      by (unfold q; rewrite <- !app_assoc; reflexivity).
    replace (ne + 10) with (length (pre ++ W ++ be16_bytes t ++ be16_bytes c ++ be32_bytes ttl ++ be16_bytes (N.of_nat (length D))))
      by (rewrite !app_length; cbn [length be16_bytes be32_bytes]; unfold ne; lia).
    apply cname_l_mid; assumption. }
  assert (Lq : length q = ne + 10 + length D + length post).
  { unfold q, ne. rewrite !app_length. cbn [length be16_bytes be32_bytes]. lia. }
  assert (Le : length pre + length (W ++ be16_bytes t ++ be16_bytes c ++ be32_bytes ttl ++ be16_bytes (N.of_nat (length D)) ++ D) = ne + 10 + length D).
  { unfold ne. rewrite !app_length. cbn [length be16_bytes be32_bytes]. lia. }
  rewrite Le.
  assert (HtA : t <> TYPE_A /\ t <> TYPE_AAAA) by (unfold is_name_type, TYPE_NS, TYPE_CNAME, TYPE_PTR, TYPE_A, TYPE_AAAA in *; lia).
  split.
  { exists ne, t, (N.of_nat (length D)). split; [exists ls; exact Hcn|]. split; [lia|]. split; [exact U_t|]. split; [exact U_l|].
    rewrite Nat2N.id. split; [reflexivity|]. split; [lia|]. rewrite Hopt. split; [reflexivity|].
    unfold rdata_wf. rewrite Hnt. split; [exact HD1|exists ls2; exact Hdn]. }
  split.
  { unfold record_at, rv_at, name_rec. cbn [fst snd rv_off rv_labels rv_name_end rv_type rv_class rv_ttl rv_rdlen plain_rdata]. fold W D. fold ne.
    split; [exact Hcn|]. split; [exact U_t|]. split; [exact U_c|]. split; [exact U_ttl|]. split; [exact U_l|].
    split; [reflexivity|]. split; [lia|]. split; intros E; [destruct HtA as [A _]|destruct HtA as [_ A]]; contradiction. }
  unfold rdata_at, rv_at, name_rec. cbn [fst snd rv_off rv_labels rv_name_end rv_type rv_class rv_ttl rv_rdlen plain_rdata]. fold W D. fold ne.
  split; [exact Hnt|exact Hdn].
Qed.

Theorem build_name_rr_is_plain_record : forall t name ttl target rr,
  build_name_rr t name ttl target = Ok rr -> is_name_type t = true -> (ttl < 4294967296)%N ->
  exists ls ls2, Forall label_ok ls /\ Forall label_ok ls2 /\
    (name = dotted ls \/ name = dots ls \/ (name = [46%N] /\ ls = [])) /\
    (target = dotted ls2 \/ target = dots ls2 \/ (target = [46%N] /\ ls2 = [])) /\
    rr = plain_record (name_rec ls t CLASS_IN ttl ls2) /\ plain_rr_ok (name_rec ls t CLASS_IN ttl ls2).
Proof.
  intros t name ttl target rr H Hnt Httl. unfold build_name_rr, raw_name_from_str in H.
  destruct (copy_raw_name_from_str [] target None) as [rd| |] eqn:Er; cbn [bind] in H; try discriminate.
  unfold rr_new in H. destruct (65535 <? N.of_nat (length rd))%N eqn:El; [discriminate|].
  destruct (copy_raw_name_from_str [] name None) as [pk| |] eqn:Ew; cbn [bind] in H; try discriminate. inversion H; subst rr. clear H.
  assert (Hconv : forall txt w, copy_raw_name_from_str [] txt None = Ok w ->
            exists l, Forall label_ok l /\ w = wire_of_labels l /\ length (wire_of_labels l) <= 253 /\ bytes_ok (wire_of_labels l) /\
                      (txt = dotted l \/ txt = dots l \/ (txt = [46%N] /\ l = []))).
  { intros txt w Hw. destruct (from_str_sound [] txt None w Hw) as (l & Htl & Hcase).
    assert (Hp : Forall label_ok l) by (eapply Forall_impl; [|exact Htl]; intros x Hx; apply tlabel_label_ok; exact Hx).
    exists l. split; [exact Hp|].
    assert (Hb : bytes_ok (wire_of_labels l)).
    { apply bytes_ok_wire; [exact Hp|]. eapply Forall_impl; [|exact Htl]. intros x (_ & _ & Hok). unfold bytes_ok.
      clear -Hok. induction x as [|c0 x IH]; [constructor|]. cbn [forallb] in Hok. apply andb_true_iff in Hok. destruct Hok as [Hc0 Hl0].
      constructor; [unfold text_char_ok in Hc0; lia|exact (IH Hl0)]. }
    destruct Hcase as [(Hne & Hn & Hw1 & Hl)|(Hn & Hw1 & Hl)]; cbn [app] in Hw1.
    - cbn [zone_or_root] in Hw1, Hl. unfold wire_of_labels. auto 6.
    - split; [exact Hw1|]. split; [exact Hl|]. split; [exact Hb|]. destruct Hn as [Hn|Hn]; auto. }
  destruct (Hconv name pk Ew) as (ls & Hp & -> & Hl & Hb & Hn). destruct (Hconv target rd Er) as (ls2 & Hp2 & -> & Hl2 & Hb2 & Hn2).
  exists ls, ls2. split; [exact Hp|]. split; [exact Hp2|]. split; [exact Hn|]. split; [exact Hn2|]. split; [rewrite name_rec_bytes; reflexivity|].
  apply name_rec_ok; try assumption; try lia. unfold CLASS_IN; lia.
Qed.

(** ** MX records: a 16-bit preference, then one name *)
Definition mx_rec (ls : list bytes) (c ttl pref : N) (ls2 : list bytes) : rec_view * rd_view :=
  ({| rv_off := 0; rv_labels := ls; rv_name_end := length (wire_of_labels ls); rv_type := TYPE_MX; rv_class := c; rv_ttl := ttl;
      rv_rdlen := 2 + length (wire_of_labels ls2) |}, RdMx (be16_bytes pref) ls2).

Lemma mx_rec_bytes ls c ttl pref ls2 :
  plain_record (mx_rec ls c ttl pref ls2) =
  wire_of_labels ls ++ be16_bytes TYPE_MX ++ be16_bytes c ++ be32_bytes ttl ++ be16_bytes (N.of_nat (length (be16_bytes pref ++ wire_of_labels ls2))) ++
  be16_bytes pref ++ wire_of_labels ls2.
Proof. reflexivity. Qed.

Theorem mx_rec_ok ls c ttl pref ls2 :
  Forall label_ok ls -> length (wire_of_labels ls) <= 255 -> bytes_ok (wire_of_labels ls) ->
  Forall label_ok ls2 -> length (wire_of_labels ls2) <= 255 -> bytes_ok (wire_of_labels ls2) ->
  (c < 65536)%N -> (ttl < 4294967296)%N ->
  plain_rr_ok (mx_rec ls c ttl pref ls2).
Proof.
  intros Hls H255 Hbw Hls2 H255b Hbw2 Hc Httl.
  set (t := TYPE_MX). assert (Ht : (t < 65536)%N) by (unfold t, TYPE_MX; lia).
  set (W := wire_of_labels ls) in *. set (D := wire_of_labels ls2) in *. set (P := be16_bytes pref).
  assert (LP : length P = 2) by reflexivity.
  assert (HD1 : 1 <= length D) by (unfold D, wire_of_labels; rewrite app_length; cbn [length]; lia).
  assert (LPD : length (P ++ D) = 2 + length D) by (rewrite app_length, LP; reflexivity).
  assert (Hlen : (N.of_nat (length (P ++ D)) < 65536)%N) by lia.
  split; [reflexivity|].
  split.
  { rewrite mx_rec_bytes. fold W D P t. repeat (apply bytes_ok_app; [first [assumption|apply bytes_ok_be16|apply bytes_ok_be32]|]). exact Hbw2. }
  intros sec seen pre post. cbv zeta. rewrite mx_rec_bytes. fold W D P t. cbn [fst snd].
  set (L := be16_bytes (N.of_nat (length (P ++ D)))).
  set (q := pre ++ (W ++ be16_bytes t ++ be16_bytes c ++ be32_bytes ttl ++ L ++ P ++ D) ++ post).
  set (ne := length pre + length W).
  assert (Hq : q = pre ++ W ++ (be16_bytes t ++ be16_bytes c ++ be32_bytes ttl ++ L ++ P ++ D ++ post))
    by (unfold q; rewrite <- !app_assoc; reflexivity).
  assert (Hcn : cname_l q (length pre) ls ne) by (rewrite Hq; apply cname_l_mid; assumption).
  assert (U_t : u16_at q ne t).
  { replace q with ((pre ++ W) ++ be16_bytes t ++ (be16_bytes c ++ be32_bytes ttl ++ L ++ P ++ D ++ post))
      by (unfold q; rewrite <- !app_assoc; reflexivity).
    replace ne with (length (pre ++ W)) by (rewrite app_length; reflexivity). apply u16_at_mid; exact Ht. }
  assert (U_c : u16_at q (ne + 2) c).
  { replace q with ((pre ++ W ++ be16_bytes t) ++ be16_bytes c ++ (be32_bytes ttl ++ L ++ P ++ D ++ post))
      by (unfold q; rewrite <- !app_assoc; reflexivity).
    replace (ne + 2) with (length (pre ++ W ++ be16_bytes t)) by (rewrite !app_length; cbn [length be16_bytes]; unfold ne; lia). apply u16_at_mid; exact Hc. }
  assert (U_ttl : u32_at q (ne + 4) ttl).
  { replace q with ((pre ++ W ++ be16_bytes t ++ be16_bytes c) ++ be32_bytes ttl ++ (L ++ P ++ D ++ post))
      by (unfold q; rewrite <- !app_assoc; reflexivity).
    replace (ne + 4) with (length (pre ++ W ++ be16_bytes t ++ be16_bytes c)) by (rewrite !app_length; cbn [length be16_bytes]; unfold ne; lia). apply u32_at_mid; exact Httl. }
  assert (U_l : u16_at q (ne + 8) (N.of_nat (length (P ++ D)))).
  { replace q with ((pre ++ W ++ be16_bytes t ++ be16_bytes c ++ be32_bytes ttl) ++ L ++ (P ++ D ++ post))
      by (unfold q; rewrite <- !app_assoc; reflexivity).
    replace (ne + 8) with (length (pre ++ W ++ be16_bytes t ++ be16_bytes c ++ be32_bytes ttl)) by (rewrite !app_length; cbn [length be16_bytes be32_bytes]; unfold ne; lia).
    apply u16_at_mid; exact Hlen. }
  assert (LL : length L = 2) by reflexivity.
  assert (Hdn : cname_l q (ne + 10 + 2) ls2 (ne + 10 + 2 + length D)).
  { replace q with ((pre ++ W ++ be16_bytes t ++ be16_bytes c ++ be32_bytes ttl ++ L ++ P) ++ D ++ post)
      by (unfold q; rewrite <- !app_assoc; reflexivity).
    replace (ne + 10 + 2) with (length (pre ++ W ++ be16_bytes t ++ be16_bytes c ++ be32_bytes ttl ++ L ++ P))
      by (rewrite !app_length, LL, LP; cbn [length be16_bytes be32_bytes]; unfold ne; lia).
    apply cname_l_mid; assumption. }
  assert (Lq : length q = ne + 10 + 2 + length D + length post).
  { unfold q, ne. rewrite !app_length, LL, LP. cbn [length be16_bytes be32_bytes]. lia. }
  assert (Le : length pre + length (W ++ be16_bytes t ++ be16_bytes c ++ be32_bytes ttl ++ L ++ P ++ D) = ne + 10 + (2 + length D)).
  { unfold ne. rewrite !app_length, LL, LP. cbn [length be16_bytes be32_bytes]. lia. }
  rewrite Le.
  split.
  { exists ne, t, (N.of_nat (length (P ++ D))). split; [exists ls; exact Hcn|]. split; [lia|]. split; [exact U_t|]. split; [exact U_l|].
    rewrite Nat2N.id, LPD. split; [reflexivity|]. split; [lia|]. change ((t =? TYPE_OPT)%N) with false. cbv iota. split; [reflexivity|].
    unfold rdata_wf. change (is_name_type t) with false. change ((t =? TYPE_MX)%N) with true. cbv iota.
    split; [lia|]. exists ls2. replace (ne + 10 + (2 + length D)) with (ne + 10 + 2 + length D) by lia. exact Hdn. }
  split.
  { unfold record_at, rv_at, mx_rec. cbn [fst snd rv_off rv_labels rv_name_end rv_type rv_class rv_ttl rv_rdlen plain_rdata]. fold W D P t. fold ne.
    rewrite LPD. split; [exact Hcn|]. split; [exact U_t|]. split; [exact U_c|]. split; [exact U_ttl|].
    split; [rewrite <- LPD; exact U_l|]. split; [reflexivity|]. split; [lia|]. split; intros E; discriminate E. }
  unfold rdata_at, rv_at, mx_rec. cbn [fst snd rv_off rv_labels rv_name_end rv_type rv_class rv_ttl rv_rdlen plain_rdata]. fold W D P t. fold ne.
  rewrite LPD. split; [reflexivity|]. split; [reflexivity|]. split; [lia|].
  split.
  - replace q with ((pre ++ W ++ be16_bytes t ++ be16_bytes c ++ be32_bytes ttl ++ L) ++ P ++ (D ++ post))
      by (unfold q; rewrite <- !app_assoc; reflexivity).
    replace (ne + 10) with (length (pre ++ W ++ be16_bytes t ++ be16_bytes c ++ be32_bytes ttl ++ L))
      by (rewrite !app_length, LL; cbn [length be16_bytes be32_bytes]; unfold ne; lia).
    rewrite skipn_app_exact. symmetry. replace 2 with (length P) by exact LP. apply firstn_app_exact.
  - replace (ne + 10 + (2 + length D)) with (ne + 10 + 2 + length D) by lia. exact Hdn.
Qed.

Lemma text_to_labels raw txt w : copy_raw_name_from_str raw txt None = Ok w ->
  exists l, Forall label_ok l /\ w = raw ++ wire_of_labels l /\ length (wire_of_labels l) <= 253 /\ bytes_ok (wire_of_labels l) /\
            (txt = dotted l \/ txt = dots l \/ (txt = [46%N] /\ l = [])).
Proof.
  intros Hw. destruct (from_str_sound raw txt None w Hw) as (l & Htl & Hcase).
  assert (Hp : Forall label_ok l) by (eapply Forall_impl; [|exact Htl]; intros x Hx; apply tlabel_label_ok; exact Hx).
  exists l. split; [exact Hp|].
  assert (Hb : bytes_ok (wire_of_labels l)).
  { apply bytes_ok_wire; [exact Hp|]. eapply Forall_impl; [|exact Htl]. intros x (_ & _ & Hok). unfold bytes_ok.
    clear -Hok. induction x as [|c0 x IH]; [constructor|]. cbn [forallb] in Hok. apply andb_true_iff in Hok. destruct Hok as [Hc0 Hl0].
    constructor; [unfold text_char_ok in Hc0; lia|exact (IH Hl0)]. }
  destruct Hcase as [(Hne & Hn & Hw1 & Hl)|(Hn & Hw1 & Hl)].
  - cbn [zone_or_root] in Hw1, Hl. unfold wire_of_labels. auto 6.
  - split; [exact Hw1|]. split; [exact Hl|]. split; [exact Hb|]. destruct Hn as [Hn|Hn]; auto.
Qed.

Theorem build_mx_is_plain_record : forall name ttl pref mxhost rr,
  build_mx name ttl pref mxhost = Ok rr -> (ttl < 4294967296)%N ->
  exists ls ls2, Forall label_ok ls /\ Forall label_ok ls2 /\
    (name = dotted ls \/ name = dots ls \/ (name = [46%N] /\ ls = [])) /\
    (mxhost = dotted ls2 \/ mxhost = dots ls2 \/ (mxhost = [46%N] /\ ls2 = [])) /\
    rr = plain_record (mx_rec ls CLASS_IN ttl pref ls2) /\ plain_rr_ok (mx_rec ls CLASS_IN ttl pref ls2).
Proof.
  intros name ttl pref mxhost rr H Httl. unfold build_mx in H.
  destruct (copy_raw_name_from_str (be16_bytes pref) mxhost None) as [rd| |] eqn:Er; cbn [bind] in H; try discriminate.
  unfold rr_new in H. destruct (65535 <? N.of_nat (length rd))%N eqn:El; [discriminate|].
  destruct (copy_raw_name_from_str [] name None) as [pk| |] eqn:Ew; cbn [bind] in H; try discriminate. inversion H; subst rr. clear H.
  destruct (text_to_labels [] name pk Ew) as (ls & Hp & Epk & Hl & Hb & Hn). cbn [app] in Epk. subst pk.
  destruct (text_to_labels _ mxhost rd Er) as (ls2 & Hp2 & -> & Hl2 & Hb2 & Hn2).
  exists ls, ls2. split; [exact Hp|]. split; [exact Hp2|]. split; [exact Hn|]. split; [exact Hn2|]. split; [rewrite mx_rec_bytes; reflexivity|].
  apply mx_rec_ok; try assumption; try lia. unfold CLASS_IN; lia.
Qed.

(** ** SOA records: two names, then twenty bytes *)
Definition soa_rec (ls : list bytes) (c ttl : N) (ls1 ls2 : list bytes) (tail : bytes) : rec_view * rd_view :=
  ({| rv_off := 0; rv_labels := ls; rv_name_end := length (wire_of_labels ls); rv_type := TYPE_SOA; rv_class := c; rv_ttl := ttl;
      rv_rdlen := length (wire_of_labels ls1 ++ wire_of_labels ls2 ++ tail) |}, RdSoa ls1 ls2 tail).

Lemma soa_rec_bytes ls c ttl ls1 ls2 tail :
  plain_record (soa_rec ls c ttl ls1 ls2 tail) =
  wire_of_labels ls ++ be16_bytes TYPE_SOA ++ be16_bytes c ++ be32_bytes ttl ++
  be16_bytes (N.of_nat (length (wire_of_labels ls1 ++ wire_of_labels ls2 ++ tail))) ++ wire_of_labels ls1 ++ wire_of_labels ls2 ++ tail.
Proof. reflexivity. Qed.

Theorem soa_rec_ok ls c ttl ls1 ls2 tail :
  Forall label_ok ls -> length (wire_of_labels ls) <= 255 -> bytes_ok (wire_of_labels ls) ->
  Forall label_ok ls1 -> length (wire_of_labels ls1) <= 255 -> bytes_ok (wire_of_labels ls1) ->
  Forall label_ok ls2 -> length (wire_of_labels ls2) <= 255 -> bytes_ok (wire_of_labels ls2) ->
  length tail = 20 -> bytes_ok tail -> (c < 65536)%N -> (ttl < 4294967296)%N ->
  plain_rr_ok (soa_rec ls c ttl ls1 ls2 tail).
Proof.
  intros Hls H255 Hbw Hls1 H255a Hbw1 Hls2 H255b Hbw2 Htl Hbt Hc Httl.
  set (t := TYPE_SOA). assert (Ht : (t < 65536)%N) by (unfold t, TYPE_SOA; lia).
  set (W := wire_of_labels ls) in *. set (D1 := wire_of_labels ls1) in *. set (D2 := wire_of_labels ls2) in *.
  assert (HD1 : 1 <= length D1) by (unfold D1, wire_of_labels; rewrite app_length; cbn [length]; lia).
  assert (HD2 : 1 <= length D2) by (unfold D2, wire_of_labels; rewrite app_length; cbn [length]; lia).
  assert (LR : length (D1 ++ D2 ++ tail) = length D1 + length D2 + 20) by (rewrite !app_length, Htl; lia).
  assert (Hlen : (N.of_nat (length (D1 ++ D2 ++ tail)) < 65536)%N) by lia.
  split; [reflexivity|].
  split.
  { rewrite soa_rec_bytes. fold W D1 D2 t. repeat (apply bytes_ok_app; [first [assumption|apply bytes_ok_be16|apply bytes_ok_be32]|]). exact Hbt. }
  intros sec seen pre post. cbv zeta. rewrite soa_rec_bytes. fold W D1 D2 t. cbn [fst snd].
  set (L := be16_bytes (N.of_nat (length (D1 ++ D2 ++ tail)))).
  set (q := pre ++ (W ++ be16_bytes t ++ be16_bytes c ++ be32_bytes ttl ++ L ++ D1 ++ D2 ++ tail) ++ post).
  set (ne := length pre + length W).
  assert (LL : length L = 2) by reflexivity.
  assert (Hq : q = pre ++ W ++ (be16_bytes t ++ be16_bytes c ++ be32_bytes ttl ++ L ++ D1 ++ D2 ++ tail ++ post))
    by (unfold q; rewrite <- !app_assoc; reflexivity).
  assert (Hcn : cname_l q (length pre) ls ne) by (rewrite Hq; apply cname_l_mid; assumption).
  assert (U_t : u16_at q ne t).
  { replace q with ((pre ++ W) ++ be16_bytes t ++ (be16_bytes c ++ be32_bytes ttl ++ L ++ D1 ++ D2 ++ tail ++ post))
      by (unfold q; rewrite <- !app_assoc; reflexivity).
    replace ne with (length (pre ++ W)) by (rewrite app_length; reflexivity). apply u16_at_mid; exact Ht. }
  assert (U_c : u16_at q (ne + 2) c).
  { replace q with ((pre ++ W ++ be16_bytes t) ++ be16_bytes c ++ (be32_bytes ttl ++ L ++ D1 ++ D2 ++ tail ++ post))
      by (unfold q; rewrite <- !app_assoc; reflexivity).
    replace (ne + 2) with (length (pre ++ W ++ be16_bytes t)) by (rewrite !app_length; cbn [length be16_bytes]; unfold ne; lia). apply u16_at_mid; exact Hc. }
  assert (U_ttl : u32_at q (ne + 4) ttl).
  { replace q with ((pre ++ W ++ be16_bytes t ++ be16_bytes c) ++ be32_bytes ttl ++ (L ++ D1 ++ D2 ++ tail ++ post))
      by (unfold q; rewrite <- !app_assoc; reflexivity).
    replace (ne + 4) with (length (pre ++ W ++ be16_bytes t ++ be16_bytes c)) by (rewrite !app_length; cbn [length be16_bytes]; unfold ne; lia). apply u32_at_mid; exact Httl. }
  assert (U_l : u16_at q (ne + 8) (N.of_nat (length (D1 ++ D2 ++ tail)))).
  { replace q with ((pre ++ W ++ be16_bytes t ++ be16_bytes c ++ be32_bytes ttl) ++ L ++ (D1 ++ D2 ++ tail ++ post))
      by (unfold q; rewrite <- !app_assoc; reflexivity).
    replace (ne + 8) with (length (pre ++ W ++ be16_bytes t ++ be16_bytes c ++ be32_bytes ttl)) by (rewrite !app_length; cbn [length be16_bytes be32_bytes]; unfold ne; lia).
    apply u16_at_mid; exact Hlen. }
  assert (Hn1 : cname_l q (ne + 10) ls1 (ne + 10 + length D1)).
  { replace q with ((pre ++ W ++ be16_bytes t ++ be16_bytes c ++ be32_bytes ttl ++ L) ++ D1 ++ (D2 ++ tail ++ post))
      by (unfold q; rewrite <- !app_assoc; reflexivity).
    replace (ne + 10) with (length (pre ++ W ++ be16_bytes t ++ be16_bytes c ++ be32_bytes ttl ++ L))
      by (rewrite !app_length, LL; cbn [length be16_bytes be32_bytes]; unfold ne; lia).
    apply cname_l_mid; assumption. }
  assert (Hn2 : cname_l q (ne + 10 + length D1) ls2 (ne + 10 + length D1 + length D2)).
  { replace q with ((pre ++ W ++ be16_bytes t ++ be16_bytes c ++ be32_bytes ttl ++ L ++ D1) ++ D2 ++ (tail ++ post))
      by (unfold q; rewrite <- !app_assoc; reflexivity).
    replace (ne + 10 + length D1) with (length (pre ++ W ++ be16_bytes t ++ be16_bytes c ++ be32_bytes ttl ++ L ++ D1))
      by (rewrite !app_length, LL; cbn [length be16_bytes be32_bytes]; unfold ne; lia).
    apply cname_l_mid; assumption. }
  assert (Lq : length q = ne + 10 + length D1 + length D2 + 20 + length post).
  { unfold q, ne. rewrite !app_length, LL, Htl. cbn [length be16_bytes be32_bytes]. lia. }
  assert (Le : length pre + length (W ++ be16_bytes t ++ be16_bytes c ++ be32_bytes ttl ++ L ++ D1 ++ D2 ++ tail) = ne + 10 + (length D1 + length D2 + 20)).
  { unfold ne. rewrite !app_length, LL, Htl. cbn [length be16_bytes be32_bytes]. lia. }
  rewrite Le.
  assert (Em : ne + 10 + (length D1 + length D2 + 20) - 20 = ne + 10 + length D1 + length D2) by lia.
  split.
  { exists ne, t, (N.of_nat (length (D1 ++ D2 ++ tail))). split; [exists ls; exact Hcn|]. split; [lia|]. split; [exact U_t|]. split; [exact U_l|].
    rewrite Nat2N.id, LR. split; [reflexivity|]. split; [lia|]. change ((t =? TYPE_OPT)%N) with false. cbv iota. split; [reflexivity|].
    unfold rdata_wf. change (is_name_type t) with false. change ((t =? TYPE_MX)%N) with false. change ((t =? TYPE_SOA)%N) with true. cbv iota.
    split; [lia|]. exists (ne + 10 + length D1). split; [exists ls1; exact Hn1|]. exists ls2. rewrite Em. exact Hn2. }
  split.
  { unfold record_at, rv_at, soa_rec. cbn [fst snd rv_off rv_labels rv_name_end rv_type rv_class rv_ttl rv_rdlen plain_rdata]. fold W D1 D2 t. fold ne.
    rewrite LR. split; [exact Hcn|]. split; [exact U_t|]. split; [exact U_c|]. split; [exact U_ttl|].
    split; [rewrite <- LR; exact U_l|]. split; [reflexivity|]. split; [lia|]. split; intros E; discriminate E. }
  unfold rdata_at, rv_at, soa_rec. cbn [fst snd rv_off rv_labels rv_name_end rv_type rv_class rv_ttl rv_rdlen plain_rdata]. fold W D1 D2 t. fold ne.
  rewrite LR. split; [reflexivity|]. split; [reflexivity|]. split; [lia|].
  exists (ne + 10 + length D1). split; [exact Hn1|]. rewrite Em. split; [exact Hn2|].
  replace q with ((pre ++ W ++ be16_bytes t ++ be16_bytes c ++ be32_bytes ttl ++ L ++ D1 ++ D2) ++ tail ++ post)
    by (unfold q; rewrite <- !app_assoc; reflexivity).
  replace (ne + 10 + length D1 + length D2) with (length (pre ++ W ++ be16_bytes t ++ be16_bytes c ++ be32_bytes ttl ++ L ++ D1 ++ D2))
    by (rewrite !app_length, LL; cbn [length be16_bytes be32_bytes]; unfold ne; lia).
  rewrite skipn_app_exact. symmetry. rewrite <- Htl. apply firstn_app_exact.
Qed.

Theorem build_soa_is_plain_record : forall name ttl primary_ns contact ts refresh retry auth neg rr,
  build_soa name ttl primary_ns contact ts refresh retry auth neg = Ok rr -> (ttl < 4294967296)%N ->
  exists ls ls1 ls2, Forall label_ok ls /\ Forall label_ok ls1 /\ Forall label_ok ls2 /\
    (name = dotted ls \/ name = dots ls \/ (name = [46%N] /\ ls = [])) /\
    (primary_ns = dotted ls1 \/ primary_ns = dots ls1 \/ (primary_ns = [46%N] /\ ls1 = [])) /\
    (contact = dotted ls2 \/ contact = dots ls2 \/ (contact = [46%N] /\ ls2 = [])) /\
    let tail := be32_bytes ts ++ be32_bytes refresh ++ be32_bytes retry ++ be32_bytes auth ++ be32_bytes neg in
    rr = plain_record (soa_rec ls CLASS_IN ttl ls1 ls2 tail) /\ plain_rr_ok (soa_rec ls CLASS_IN ttl ls1 ls2 tail).
Proof.
  intros name ttl primary_ns contact ts refresh retry auth neg rr H Httl. unfold build_soa in H.
  destruct (copy_raw_name_from_str [] primary_ns None) as [rd1| |] eqn:E1; cbn [bind] in H; try discriminate.
  destruct (copy_raw_name_from_str rd1 contact None) as [rd2| |] eqn:E2; cbn [bind] in H; try discriminate.
  unfold rr_new in H. match type of H with (if ?c then _ else _) = _ => destruct c eqn:El end; [discriminate|].
  destruct (copy_raw_name_from_str [] name None) as [pk| |] eqn:Ew; cbn [bind] in H; try discriminate. inversion H; subst rr. clear H.
  destruct (text_to_labels [] name pk Ew) as (ls & Hp & Epk & Hl & Hb & Hn). cbn [app] in Epk. subst pk.
  destruct (text_to_labels [] primary_ns rd1 E1) as (ls1 & Hp1 & Er1 & Hl1 & Hb1 & Hn1). cbn [app] in Er1. subst rd1.
  destruct (text_to_labels _ contact rd2 E2) as (ls2 & Hp2 & -> & Hl2 & Hb2 & Hn2).
  exists ls, ls1, ls2. split; [exact Hp|]. split; [exact Hp1|]. split; [exact Hp2|]. split; [exact Hn|]. split; [exact Hn1|]. split; [exact Hn2|].
  cbv zeta. split; [rewrite soa_rec_bytes, <- !app_assoc; reflexivity|].
  apply soa_rec_ok; try assumption; try lia; [reflexivity| |unfold CLASS_IN; lia].
  repeat (apply bytes_ok_app; [apply bytes_ok_be32|]). apply bytes_ok_be32.
Qed.

(** ** TXT and DS through their builders *)
Lemma chunks255_bytes_ok : forall fuel txt, bytes_ok txt -> bytes_ok (chunks255 fuel txt).
Proof.
  induction fuel as [|fuel IH]; intros txt Hb; cbn [chunks255]; [constructor|].
  destruct txt as [|c0 txt0]; [constructor|]. set (txt := c0 :: txt0) in *.
  assert (Hsplit : bytes_ok (firstn 255 txt) /\ bytes_ok (skipn 255 txt)).
  { unfold bytes_ok in *. rewrite <- (firstn_skipn 255 txt) in Hb. apply Forall_app in Hb. exact Hb. }
  destruct Hsplit as [H1 H2].
  apply bytes_ok_app; [|apply bytes_ok_app; [exact H1|exact (IH _ H2)]].
  constructor; [|constructor]. pose proof (firstn_le_length 255 txt). lia.
Qed.

Theorem build_txt_is_plain_record : forall name ttl txt rr,
  build_txt name ttl txt = Ok rr -> bytes_ok txt -> (ttl < 4294967296)%N ->
  exists ls, Forall label_ok ls /\ (name = dotted ls \/ name = dots ls \/ (name = [46%N] /\ ls = [])) /\
    let rd := chunks255 (length txt + 1) txt in
    rr = plain_record (raw_rec ls TYPE_TXT CLASS_IN ttl rd) /\ plain_rr_ok (raw_rec ls TYPE_TXT CLASS_IN ttl rd).
Proof.
  intros name ttl txt rr H Hb Httl. unfold build_txt in H. destruct (TXT_MAX <? length txt); [discriminate|].
  apply (rr_new_is_plain_record name ttl CLASS_IN TYPE_TXT _ rr H (chunks255_bytes_ok _ _ Hb)); try (unfold TYPE_TXT, CLASS_IN; lia); try exact Httl;
    try (intros E; discriminate E).
  unfold raw_type. repeat split; try reflexivity; intros E; discriminate E.
Qed.

Theorem build_ds_is_plain_record : forall name ttl key_tag alg dtype digest rr,
  build_ds name ttl key_tag alg dtype digest = Ok rr -> bytes_ok digest -> (alg < 256)%N -> (dtype < 256)%N -> (ttl < 4294967296)%N ->
  exists ls, Forall label_ok ls /\ (name = dotted ls \/ name = dots ls \/ (name = [46%N] /\ ls = [])) /\
    let rd := be16_bytes key_tag ++ [alg; dtype] ++ digest in
    rr = plain_record (raw_rec ls TYPE_DS CLASS_IN ttl rd) /\ plain_rr_ok (raw_rec ls TYPE_DS CLASS_IN ttl rd).
Proof.
  intros name ttl key_tag alg dtype digest rr H Hb Ha Hd Httl. unfold build_ds in H.
  assert (Hrd : bytes_ok (be16_bytes key_tag ++ [alg; dtype] ++ digest)).
  { apply bytes_ok_app; [apply bytes_ok_be16|]. apply bytes_ok_app; [|exact Hb]. constructor; [exact Ha|]. constructor; [exact Hd|constructor]. }
  apply (rr_new_is_plain_record name ttl CLASS_IN TYPE_DS _ rr H Hrd); try (unfold TYPE_DS, CLASS_IN; lia); try exact Httl;
    try (intros E; discriminate E).
  unfold raw_type. repeat split; try reflexivity; intros E; discriminate E.
Qed.
