(** * Histories from a freshly parsed response whose first operation is any decompressing one (C08).

    The first operation - an insertion, a recompute, a deletion or an owner-name change through a cursor -
    brings the object to pointer-free form and establishes [dinv]; any history of [CursorHist.v] follows. *)

From DV Require Import Model.Base Model.NameCheck Model.Parser Model.Header Model.Readers Model.Uncompress Model.Mutate
  Spec.NameSpec Spec.PacketSpec Spec.RecordSpec Spec.PlainSpec Proofs.ListLemmas Proofs.Hoare Proofs.ParserInv Proofs.ParseSound
  Proofs.ParseComplete Proofs.NameIff Proofs.NameCheckTotal Proofs.ReadersAgree Proofs.ReadersLabels Proofs.HeaderBits Proofs.QuestionSpec
  Proofs.WalkValues Proofs.SetTtl Proofs.WalkSkip Proofs.UncompressSpec Proofs.PlainWf Proofs.InsertLemmas Proofs.EdnsFacts Proofs.EdnsPos
  Proofs.EdnsPlain Proofs.InsertSpec Proofs.HeaderInv Proofs.Chain Proofs.SetTtlInv Proofs.DeleteInv Proofs.SetNameInv Proofs.Totality
  Proofs.WalkInv Proofs.CursorHist Proofs.DecompressFirst.
From Coq Require Import ZifyBool ZifyNat ZifyN.

Lemma concat_in_section (lA lN lR : list (rec_view * rd_view)) L1 y L2 : lA ++ lN ++ lR = L1 ++ y :: L2 ->
  exists sec l1 l2, (sec = SAnswer \/ sec = SNameServers \/ sec = SAdditional) /\ sec_list sec lA lN lR = l1 ++ y :: l2 /\
    length L1 = (match sec with SAnswer => 0 | SNameServers => length lA | _ => length lA + length lN end) + length l1.
Proof.
  intros E.
  assert (Hn : nth_error (lA ++ lN ++ lR) (length L1) = Some y) by (rewrite E, nth_error_app2, Nat.sub_diag by lia; reflexivity).
  destruct (Nat.lt_ge_cases (length L1) (length lA)) as [H1|H1].
  - rewrite nth_error_app1 in Hn by lia. destruct (nth_error_split_at _ _ _ Hn) as (l1 & l2 & El & Ll).
    exists SAnswer, l1, l2. cbn [sec_list]. split; [auto|]. split; [exact El|lia].
  - rewrite nth_error_app2 in Hn by lia. destruct (Nat.lt_ge_cases (length L1 - length lA) (length lN)) as [H2|H2].
    + rewrite nth_error_app1 in Hn by lia. destruct (nth_error_split_at _ _ _ Hn) as (l1 & l2 & El & Ll).
      exists SNameServers, l1, l2. cbn [sec_list]. split; [auto|]. split; [exact El|lia].
    + rewrite nth_error_app2 in Hn by lia. destruct (nth_error_split_at _ _ _ Hn) as (l1 & l2 & El & Ll).
      exists SAdditional, l1, l2. cbn [sec_list]. split; [auto|]. split; [exact El|lia].
Qed.

(** the cursor operation's state after the prologue, for a cursor placed with set_offset + recompute on a record of the parsed packet *)
Lemma located_after_decompress : forall p v it qls qt lA lN lR r x,
  bytes_ok p -> parse p = Ok v -> reading p qls qt lA lN lR -> In (r, x) (lA ++ lN ++ lR) -> it_section it <> SQuestion ->
  it_offset it = Some (rv_off r) -> it_name_end it = rv_name_end r ->
  exists dv it' lA' lN' lR' r' sec,
    m_cursor_decompress (rv_off r) (v, it) = ((dv, it'), Ok tt) /\ dinv dv /\ (is_response p -> is_response (pp_packet dv)) /\
    reading (pp_packet dv) qls qt lA' lN' lR' /\ In (r', x) (lA' ++ lN' ++ lR') /\
    it_offset it' = Some (rv_off r') /\ it_name_end it' = rv_name_end r' /\ it_offset_next it' = rv_name_end r' + 10 + rv_rdlen r' /\
    it_section it' = it_section it /\ rv_type r' = rv_type r /\
    (sec = SAnswer \/ sec = SNameServers \/ sec = SAdditional) /\ In (r, x) (sec_list sec lA lN lR) /\ In (r', x) (sec_list sec lA' lN' lR').
Proof.
  intros p v it qls qt lA lN lR r x Hb Hp Rd Hin Hsq Eoff Ene.
  destruct (in_split _ _ Hin) as (L1 & L2 & EL).
  destruct (concat_in_section lA lN lR L1 (r, x) L2 EL) as (sec & l1 & l2 & Hsec & El & LL1).
  destruct (cursor_decompress_fresh p v it qls qt lA lN lR L1 r x L2 Hb Hp Rd EL Hsq)
    as (dv & lA1 & lN1 & lR1 & L1' & r' & L2' & Hdec & Hd & _ & Hresp & Rd1 & EL' & LL1' & LA & LN & LR & F2).
  assert (Hk : length l1 < length (sec_list sec lA1 lN1 lR1)).
  { assert (length (sec_list sec lA1 lN1 lR1) = length (sec_list sec lA lN lR)) by (destruct Hsec as [->|[->| ->]]; cbn [sec_list]; assumption).
    rewrite H, El, app_length. cbn [length]. lia. }
  destruct (sec_of_concat_split sec lA1 lN1 lR1 L1' (r', x) L2' (length l1) Hsec EL' ltac:(rewrite LL1', LL1, LA, LN; reflexivity) Hk) as (l1' & l2' & El' & Ll1').
  pose proof (same_rec_unpl _ _ F2) as EU. rewrite EL, EL', !map_app in EU. cbn [map] in EU.
  destruct (app_split_len _ _ _ _ EU ltac:(rewrite !map_length; exact LL1')) as (_ & Us2). destruct (cons_inj _ _ _ _ Us2) as [Ur _].
  assert (Ety : rv_type r' = rv_type r) by (apply (f_equal (fun y : rec_view * rd_view => rv_type (fst y))) in Ur; exact Ur).
  eexists dv, _, lA1, lN1, lR1, r', sec. split; [exact Hdec|]. split; [exact Hd|]. split; [exact Hresp|]. split; [exact Rd1|].
  split; [rewrite EL'; apply in_or_app; right; left; reflexivity|].
  cbn [it_set it_offset it_name_end it_offset_next it_section]. repeat (split; [reflexivity|]). split; [exact Ety|]. split; [exact Hsec|].
  split; [rewrite El|rewrite El']; apply in_or_app; right; left; reflexivity.
Qed.

Theorem first_cursor_hop_dinv : forall p v it o s1, bytes_ok p -> parse p = Ok v -> is_response p -> it_section it <> SQuestion ->
  (exists off, o = H3Delete off) \/ (exists off nm, o = H3SetName off nm) -> hop3_ok_at v o ->
  run_hop3 o (v, it) = (s1, Ok tt) -> dinv (fst s1) /\ snd s1 = it /\ is_response (pp_packet (fst s1)).
Proof.
  intros p v it o s1 Hb Hp Hr Hsq Hkind Hok E.
  assert (Hpk : pp_packet v = p).
  { destruct (parse_view_pos p v Hb Hp) as (? & ? & ? & ? & ? & ? & ? & ? & ? & H & _). exact H. }
  destruct Hkind as [(off & ->)|(off & nm & ->)]; cbn [run_hop3 hop3_ok_at] in E, Hok.
  - destruct Hok as (qls & qt & lA & lN & lR & r & x & Rd & Hin & Hno & <-). rewrite Hpk in Rd.
    destruct (reading_record_in _ _ _ _ _ _ Rd r x Hin) as (_ & e & Hrec).
    rewrite (with_cursor_on v it r e _ ltac:(rewrite Hpk; exact Hb) ltac:(rewrite Hpk; exact Hrec) Hsq) in E.
    match type of E with context [m_delete (v, ?c)] => set (cur := c) in * end.
    destruct (located_after_decompress p v cur qls qt lA lN lR r x Hb Hp Rd Hin Hsq eq_refl eq_refl)
      as (dv & it' & lA' & lN' & lR' & r' & sec & Hdec & Hd & Hresp & Rd' & Hin' & Eo' & En' & Enx' & _ & Ety & Hsec & His & His').
    rewrite (delete_fresh_is_delete_after_decompress_gen p v qls qt lA lN lR sec r x cur dv it' r' Hb Hp Rd Hsec His eq_refl eq_refl Hdec Eo' En' Hd
               qls qt lA' lN' lR' Rd' His' Ety) in E.
    destruct (m_delete (dv, it')) as [s2 [u| |]] eqn:Edel; inversion E; subst s1. destruct u. cbn [fst snd].
    assert (Hno' : is_opt r' = false) by (unfold is_opt in *; rewrite Ety; exact Hno).
    destruct (delete_keeps_dinv dv it' s2 qls qt lA' lN' lR' r' x Hd Rd' Hin' Hno' Eo' En' Enx' Edel) as (Hd2 & _ & (A & Nn & R & A' & Nn' & R' & X1 & r0 & X2 & Hrest)).
    cbv zeta in Hrest. destruct Hrest as (_ & _ & _ & _ & _ & _ & _ & _ & Hfl).
    split; [exact Hd2|]. split; [reflexivity|]. destruct (Hresp Hr) as (w & Hw & Hq). exists w. split; [exact (Hfl w Hw)|exact Hq].
  - destruct Hok as ((qls & qt & lA & lN & lR & r & x & Rd & Hin & Hno & <-) & Hbn). rewrite Hpk in Rd.
    destruct (reading_record_in _ _ _ _ _ _ Rd r x Hin) as (_ & e & Hrec).
    rewrite (with_cursor_on v it r e _ ltac:(rewrite Hpk; exact Hb) ltac:(rewrite Hpk; exact Hrec) Hsq) in E.
    match type of E with context [m_set_raw_name nm (v, ?c)] => set (cur := c) in * end.
    destruct (located_after_decompress p v cur qls qt lA lN lR r x Hb Hp Rd Hin Hsq eq_refl eq_refl)
      as (dv & it' & lA' & lN' & lR' & r' & sec & Hdec & Hd & Hresp & Rd' & Hin' & Eo' & En' & Enx' & _ & Ety & Hsec & His & His').
    assert (Hck : exists n0, check_compressed_name nm 0 = Ok n0).
    { destruct (m_set_raw_name nm (v, cur)) as [s2 r2] eqn:Es. unfold m_set_raw_name in Es. unfold cbind at 1 in Es. unfold clift at 1 in Es.
      destruct (check_compressed_name nm 0) as [n0| |]; [eauto| |]; inversion Es; subst; inversion E. }
    destruct Hck as (n0 & Hck).
    rewrite (set_name_fresh_is_set_name_after_decompress nm n0 v cur dv it' (rv_off r) (parse_maybe_compressed p v Hp) (di_mc _ Hd) eq_refl Hck Hdec) in E.
    destruct (m_set_raw_name nm (dv, it')) as [s2 [u| |]] eqn:Eset; inversion E; subst s1. destruct u. cbn [fst snd].
    assert (Hno' : is_opt r' = false) by (unfold is_opt in *; rewrite Ety; exact Hno).
    destruct (set_raw_name_keeps_dinv nm dv it' s2 qls qt lA' lN' lR' r' x Hd Hbn Rd' Hin' Hno' Eo' En' Eset)
      as (Hd2 & (n1 & ls & A & Nn & R & A' & Nn' & R' & X1 & r0 & X2 & Hrest)).
    cbv zeta in Hrest. destruct Hrest as (_ & _ & _ & _ & _ & _ & _ & _ & _ & _ & _ & _ & _ & Hfl).
    split; [exact Hd2|]. split; [reflexivity|]. destruct (Hresp Hr) as (w & Hw & Hq). exists w. split; [exact (Hfl w Hw)|exact Hq].
Qed.

(** every history whose first operation decompresses *)
Theorem fresh_history3_any_first : forall p v it o ops s1 s', bytes_ok p -> parse p = Ok v -> is_response p -> it_section it <> SQuestion ->
  (o = H3Base H2Recompute \/ (exists sec rx, o = H3Base (H2Insert sec rx)) \/ (exists off, o = H3Delete off) \/ (exists off nm, o = H3SetName off nm)) ->
  hop3_ok_at v o -> run_hop3 o (v, it) = (s1, Ok tt) -> ok_along ops s1 -> run_hops3 ops s1 = (s', Ok tt) ->
  dinv (fst s') /\ snd s' = it /\ is_response (pp_packet (fst s')).
Proof.
  intros p v it o ops s1 s' Hb Hp Hr Hsq Hkind Hok E Hal H.
  assert (H1 : dinv (fst s1) /\ snd s1 = it /\ is_response (pp_packet (fst s1))).
  { destruct Hkind as [->|[(sec & rx & ->)|Hk]].
    - exact (first_hop_dinv p v it H2Recompute s1 Hb Hp Hr (or_introl eq_refl) Hok E).
    - exact (first_hop_dinv p v it (H2Insert sec rx) s1 Hb Hp Hr (or_intror (ex_intro _ sec (ex_intro _ rx eq_refl))) Hok E).
    - exact (first_cursor_hop_dinv p v it o s1 Hb Hp Hr Hsq Hk Hok E). }
  destruct H1 as (Hd1 & Hit1 & Hr1). destruct s1 as [v1 it1]. cbn [fst snd] in *. subst it1.
  exact (hops3_keep_dinv ops v1 it s' Hd1 Hr1 Hsq Hal H).
Qed.
