(** * What [replace_raw] does to a name, label by label (C07).

    For pointer-free names given by their labels: [replace_raw name target source suffix_mode]
    replaces the trailing labels of [name] by the labels of [target] exactly when those trailing
    labels equal the labels of [source] up to ASCII case (all of the name in exact mode, any suffix
    on a label boundary in suffix mode), fails when the result would exceed 255 bytes, and reports
    "no match" in every other case.  The byte loops of the implementation ([rr_walk], [rr_match],
    [all_eq_ci]) are characterised first. *)

From DV Require Import Model.Base Model.Parser Model.Header Model.Readers Model.Uncompress Model.Mutate Model.Compress
  Model.Renamer Spec.NameSpec Proofs.ListLemmas Proofs.Hoare Proofs.ReadersLabels.
From Coq Require Import ZifyBool ZifyNat ZifyN.

Definition lab (l : bytes) : Prop := 1 <= length l <= 63.

Fixpoint bytes_ci (l s : bytes) : bool :=
  match l, s with
  | [], [] => true
  | a :: l', b :: s' => eq_ignore_ascii_case a b && bytes_ci l' s'
  | _, _ => false
  end.

Fixpoint labels_match (ls ss : list bytes) : bool :=
  match ls with
  | [] => true
  | l :: ls' => match ss with
                | [] => false
                | s :: ss' => (length l =? length s) && bytes_ci l s && labels_match ls' ss'
                end
  end.

Fixpoint stop (ls : list bytes) (i offset : nat) : nat :=
  match ls with
  | [] => i
  | l :: ls' => if i =? offset then i else stop ls' (i + length l + 1) offset
  end.

Lemma nth_head (A : bytes) x rest : nth_error (A ++ x :: rest) (length A) = Some x.
Proof. rewrite nth_error_app2 by lia. rewrite Nat.sub_diag. reflexivity. Qed.

Lemma wire_nil : wire_of_labels [] = [0%N].
Proof. reflexivity. Qed.

Lemma app_cons_assoc (A : bytes) x l rest : A ++ x :: l ++ rest = (A ++ x :: l) ++ rest.
Proof. rewrite <- app_assoc. reflexivity. Qed.

(** ** first loop *)
Lemma rr_walk_spec : forall ls fuel A offset, Forall lab ls -> length ls < fuel ->
  rr_walk fuel (A ++ wire_of_labels ls) offset (length A) = Ok (stop ls (length A) offset).
Proof.
  induction ls as [|l ls IH]; intros fuel A offset Hl Hf; (destruct fuel as [|fuel]; [cbn in Hf; lia|]); cbn [rr_walk stop].
  - rewrite wire_nil. unfold byte_at. rewrite nth_head. cbn [bind]. reflexivity.
  - inversion Hl as [|? ? Hl0 Hls]; subst. unfold lab in Hl0.
    rewrite wire_of_labels_cons. unfold byte_at. rewrite nth_head. cbn [bind].
    destruct (N.of_nat (length l) =? 0)%N eqn:E0; [lia|].
    destruct (length A =? offset) eqn:Eo; [reflexivity|].
    rewrite Nat2N.id. rewrite app_cons_assoc.
    replace (length A + length l + 1) with (length (A ++ N.of_nat (length l) :: l)) by (rewrite app_length; cbn [length]; lia).
    apply IH; [exact Hls|cbn in Hf; lia].
Qed.

(** ** byte comparison of one label *)
Lemma all_eq_ci_spec : forall l s name source i offset j, length l = length s -> offset <= i + j ->
  (forall k, k < length l -> nth_error name (i + j + k) = nth_error l k) ->
  (forall k, k < length l -> nth_error source (i + j + k - offset) = nth_error s k) ->
  all_eq_ci name source i offset j (length l) = Ok (bytes_ci l s).
Proof.
  induction l as [|a l IH]; intros s name source i offset j Hlen Hoff Hn Hs; destruct s as [|b s]; try discriminate; cbn [length all_eq_ci bytes_ci].
  - reflexivity.
  - unfold byte_at, usub.
    pose proof (Hn 0 ltac:(cbn; lia)) as H0. rewrite Nat.add_0_r in H0. cbn [nth_error] in H0. rewrite H0. cbn [bind].
    destruct (offset <=? i + j) eqn:E; [|lia]. cbn [bind].
    pose proof (Hs 0 ltac:(cbn; lia)) as H1. rewrite Nat.add_0_r in H1. cbn [nth_error] in H1. rewrite H1. cbn [bind].
    destruct (eq_ignore_ascii_case a b); cbn [andb]; [|reflexivity].
    apply IH; [cbn in Hlen; lia|lia| |].
    + intros k Hk. replace (i + (j + 1) + k) with (i + j + S k) by lia. rewrite Hn by (cbn; lia). reflexivity.
    + intros k Hk. replace (i + (j + 1) + k - offset) with (i + j + S k - offset) by lia. rewrite Hs by (cbn; lia). reflexivity.
Qed.

Lemma nth_in_label (A : bytes) x l rest k : k < length l -> nth_error (A ++ x :: l ++ rest) (length A + 1 + k) = nth_error l k.
Proof.
  intros Hk. rewrite nth_error_app2 by lia. replace (length A + 1 + k - length A) with (S k) by lia. cbn [nth_error].
  apply nth_error_app1. exact Hk.
Qed.

(** ** second loop *)
Lemma rr_match_spec : forall ls ss fuel A B offset, Forall lab ls -> Forall lab ss -> length ls < fuel ->
  length A = offset + length B ->
  rr_match fuel (A ++ wire_of_labels ls) (B ++ wire_of_labels ss) offset (length A) = Ok (labels_match ls ss).
Proof.
  induction ls as [|l ls IH]; intros ss fuel A B offset Hl Hs Hf HAB; (destruct fuel as [|fuel]; [cbn in Hf; lia|]); cbn [rr_match labels_match].
  - rewrite wire_nil. unfold byte_at. rewrite nth_head. cbn [bind]. reflexivity.
  - inversion Hl as [|? ? Hl0 Hls]; subst. unfold lab in Hl0.
    rewrite wire_of_labels_cons. unfold byte_at at 1. rewrite nth_head. cbn [bind].
    destruct (N.of_nat (length l) =? 0)%N eqn:E0; [lia|].
    unfold usub. destruct (offset <=? length A) eqn:Eo; [|lia]. cbn [bind].
    replace (length A - offset) with (length B) by lia.
    destruct ss as [|s ss].
    + rewrite wire_nil. unfold byte_at. rewrite nth_head. cbn [bind].
      destruct (N.of_nat (length l) =? 0)%N; [discriminate|]. reflexivity.
    + inversion Hs as [|? ? Hs0 Hss]; subst. unfold lab in Hs0.
      rewrite wire_of_labels_cons. unfold byte_at at 1. rewrite nth_head. cbn [bind].
      destruct (length l =? length s) eqn:Els.
      2:{ destruct (N.of_nat (length l) =? N.of_nat (length s))%N eqn:E; [lia|]. reflexivity. }
      destruct (N.of_nat (length l) =? N.of_nat (length s))%N eqn:E; [|lia]. cbn [negb andb].
      rewrite Nat2N.id.
      rewrite (all_eq_ci_spec l s _ _ (length A + 1) offset 0); [|lia|lia| |].
      * cbn [bind]. destruct (bytes_ci l s); cbn [negb andb]; [|reflexivity].
        rewrite (app_cons_assoc A), (app_cons_assoc B).
        replace (length A + 1 + length l) with (length (A ++ N.of_nat (length l) :: l)) by (rewrite app_length; cbn [length]; lia).
        apply IH; [exact Hls|exact Hss|cbn in Hf; lia|].
        rewrite !app_length. cbn [length]. lia.
      * intros k Hk. rewrite Nat.add_0_r. apply nth_in_label. exact Hk.
      * intros k Hk. replace (length A + 1 + 0 + k - offset) with (length B + 1 + k) by lia. apply nth_in_label. lia.
Qed.

(** ** what the loops compute, in terms of labels *)
Lemma flat_app a b : labels_flat (a ++ b) = labels_flat a ++ labels_flat b.
Proof. unfold labels_flat. apply flat_map_app. Qed.

Lemma wire_app a b : wire_of_labels (a ++ b) = labels_flat a ++ wire_of_labels b.
Proof. unfold wire_of_labels. rewrite flat_app, <- app_assoc. reflexivity. Qed.

Lemma flat_cons l ls : labels_flat (l :: ls) = N.of_nat (length l) :: l ++ labels_flat ls.
Proof. reflexivity. Qed.

Lemma wire_length ls : length (wire_of_labels ls) = length (labels_flat ls) + 1.
Proof. unfold wire_of_labels. rewrite app_length. cbn. lia. Qed.

Lemma stop_hit : forall pre rest i, stop (pre ++ rest) i (i + length (labels_flat pre)) = i + length (labels_flat pre).
Proof.
  induction pre as [|l pre IH]; intros rest i.
  - cbn [app labels_flat flat_map length]. rewrite Nat.add_0_r. destruct rest as [|r rest]; cbn [stop]; [reflexivity|]. rewrite Nat.eqb_refl. reflexivity.
  - cbn [app stop]. rewrite flat_cons. cbn [length]. rewrite app_length.
    destruct (i =? i + S (length l + length (labels_flat pre))) eqn:E; [lia|].
    replace (i + S (length l + length (labels_flat pre))) with (i + length l + 1 + length (labels_flat pre)) by lia. apply IH.
Qed.

(** [stop] ends on a label boundary: either the wanted offset, or the root *)
Lemma stop_cases : forall ls i offset,
  (exists pre rest, ls = pre ++ rest /\ rest <> [] /\ offset = i + length (labels_flat pre) /\ stop ls i offset = offset) \/
  (stop ls i offset = i + length (labels_flat ls) /\
   forall pre rest, ls = pre ++ rest -> rest <> [] -> offset <> i + length (labels_flat pre)).
Proof.
  induction ls as [|l ls IH]; intros i offset.
  - right. cbn. split; [lia|]. intros pre rest E. destruct pre, rest; try discriminate. congruence.
  - cbn [stop]. destruct (i =? offset) eqn:E.
    + left. exists [], (l :: ls). cbn. repeat split; try congruence; lia.
    + destruct (IH (i + length l + 1) offset) as [(pre & rest & -> & Hne & Ho & Hs)|[Hs Hno]].
      * left. exists (l :: pre), rest. split; [reflexivity|]. split; [exact Hne|]. rewrite flat_cons. cbn [length]. rewrite app_length.
        split; [lia|exact Hs].
      * right. rewrite flat_cons. cbn [length]. rewrite app_length. split; [lia|].
        intros pre rest Eq Hne. destruct pre as [|l0 pre].
        -- cbn. lia.
        -- cbn [app] in Eq. inversion Eq; subst. rewrite flat_cons. cbn [length]. rewrite app_length.
           specialize (Hno pre rest eq_refl Hne). lia.
Qed.

Definition ci_labels (a b : list bytes) : Prop := Forall2 (fun x y => map lower_byte x = map lower_byte y) a b.

Lemma bytes_ci_iff : forall l s, bytes_ci l s = true <-> map lower_byte l = map lower_byte s.
Proof.
  induction l as [|a l IH]; intros [|b s]; cbn [bytes_ci map]; try (split; discriminate); [tauto|].
  unfold eq_ignore_ascii_case. rewrite andb_true_iff, IH, N.eqb_eq. split; [intros [-> ->]; reflexivity|intros H; inversion H; auto].
Qed.

Lemma labels_match_of_ci : forall ls ss, ci_labels ls ss -> labels_match ls ss = true.
Proof.
  induction 1 as [|l s ls ss Hl Hrest IH]; cbn [labels_match]; [reflexivity|].
  rewrite IH. assert (E : length l = length s) by (apply (f_equal (@length _)) in Hl; rewrite !map_length in Hl; exact Hl).
  apply bytes_ci_iff in Hl. rewrite Hl. destruct (length l =? length s) eqn:E'; [reflexivity|lia].
Qed.

Lemma ci_of_labels_match : forall ls ss, labels_match ls ss = true -> length (labels_flat ls) = length (labels_flat ss) -> ci_labels ls ss.
Proof.
  induction ls as [|l ls IH]; intros ss Hm Hlen.
  - destruct ss as [|s ss]; [constructor|]. rewrite flat_cons in Hlen. cbn in Hlen. lia.
  - destruct ss as [|s ss]; [discriminate|]. cbn [labels_match] in Hm.
    apply andb_true_iff in Hm. destruct Hm as [Hm Hrest]. apply andb_true_iff in Hm. destruct Hm as [Hl Hb].
    rewrite !flat_cons in Hlen. cbn [length] in Hlen. rewrite !app_length in Hlen.
    constructor; [apply bytes_ci_iff; exact Hb|apply IH; [exact Hrest|lia]].
Qed.

Lemma ci_labels_flat_len : forall a b, ci_labels a b -> length (labels_flat a) = length (labels_flat b).
Proof.
  induction 1 as [|l s ls ss Hl Hrest IH]; [reflexivity|]. rewrite !flat_cons. cbn [length]. rewrite !app_length, IH.
  apply (f_equal (@length _)) in Hl. rewrite !map_length in Hl. lia.
Qed.

Lemma wire_head_nonzero l ls : lab l -> exists b, nth_error (wire_of_labels (l :: ls)) 0 = Some b /\ (b =? 0)%N = false.
Proof. intros Hl. unfold lab in Hl. rewrite wire_of_labels_cons. exists (N.of_nat (length l)). split; [reflexivity|lia]. Qed.

Lemma labels_count_le : forall ls : list bytes, length ls <= length (labels_flat ls).
Proof. induction ls as [|l ls IH]; [cbn; lia|]. rewrite flat_cons. cbn [length]. rewrite app_length. lia. Qed.

(** ** The name-level statement *)
Section Replace.
  Variables (nl sl tl : list bytes) (sfx : bool).
  Hypothesis Hn : Forall lab nl.
  Hypothesis Hs : Forall lab sl.
  Hypothesis Ht : Forall lab tl.
  Hypothesis Hsne : sl <> [].
  Hypothesis Htne : tl <> [].

  Let name := wire_of_labels nl.
  Let source := wire_of_labels sl.
  Let target := wire_of_labels tl.

  (** the trailing labels match: replaced, or refused when too long *)
  Theorem replace_raw_match : forall pre rest, nl = pre ++ rest -> ci_labels rest sl -> (sfx = true \/ pre = []) ->
    replace_raw name target source sfx =
      if DNS_MAX_HOSTNAME_LEN <? length (labels_flat pre) + length target then Err InvalidName
      else Ok (Some (wire_of_labels (pre ++ tl))).
  Proof.
    intros pre rest Enl Hci Hmode. unfold replace_raw. fold name source target.
    pose proof (ci_labels_flat_len _ _ Hci) as Hlen.
    assert (Lname : length name = length (labels_flat pre) + length source).
    { unfold name, source. rewrite Enl, wire_app, app_length, !wire_length. lia. }
    destruct (length name <? length source) eqn:E1; [lia|]. cbn [orb].
    assert (E2 : (negb sfx && negb (length name =? length source)) = false).
    { destruct Hmode as [->| ->]; [reflexivity|]. cbn in Lname. rewrite Lname, Nat.eqb_refl. destruct sfx; reflexivity. }
    rewrite E2.
    assert (Ls : length source <> 0) by (unfold source; rewrite wire_length; lia).
    assert (Lt : length target <> 0) by (unfold target; rewrite wire_length; lia).
    destruct (length source =? 0) eqn:E3; [lia|]. destruct (length target =? 0) eqn:E4; [lia|]. cbn [orb].
    destruct sl as [|s0 sl']; [congruence|]. destruct tl as [|t0 tl']; [congruence|].
    pose proof (Forall_inv Hs) as Hs0. pose proof (Forall_inv Ht) as Ht0.
    destruct (wire_head_nonzero s0 sl' Hs0) as (bs & Hbs & Zs). destruct (wire_head_nonzero t0 tl' Ht0) as (bt & Hbt & Zt).
    unfold byte_at at 1. fold source. unfold source at 1. rewrite Hbs. cbn [bind].
    unfold byte_at at 1. unfold target at 1. rewrite Hbt. cbn [bind]. rewrite Zs, Zt. cbn [orb].
    replace (length name - length source) with (length (labels_flat pre)) by lia.
    (* first loop *)
    pose proof (rr_walk_spec nl (length name + 1) [] (length (labels_flat pre)) Hn) as Hw.
    cbn [app length] in Hw. fold name in Hw. rewrite Hw.
    2:{ unfold name. rewrite wire_length. pose proof (labels_count_le nl). lia. }
    cbn [bind]. rewrite Enl. pose proof (stop_hit pre rest 0) as Hh. cbn [Nat.add] in Hh. rewrite Hh.
    destruct (length name <=? length (labels_flat pre)) eqn:E5; [lia|].
    (* the byte at the boundary is the length of the first matching label *)
    destruct rest as [|r0 rest']; [inversion Hci|].
    assert (Hnr : Forall lab (r0 :: rest')) by (rewrite Enl, Forall_app in Hn; tauto).
    pose proof (Forall_inv Hnr) as Hr0l. unfold lab in Hr0l.
    unfold byte_at at 1. unfold name at 1. rewrite Enl, wire_app, wire_of_labels_cons, nth_head. cbn [bind].
    destruct (N.of_nat (length r0) =? 0)%N eqn:E6; [lia|]. cbn [andb]. rewrite Nat.eqb_refl. cbn [negb].
    (* second loop *)
    pose proof (rr_match_spec (r0 :: rest') (s0 :: sl') (length name + 1) (labels_flat pre) [] (length (labels_flat pre)) Hnr Hs) as Hm.
    cbn [app length] in Hm.
    assert (Ename : name = labels_flat pre ++ wire_of_labels (r0 :: rest')) by (unfold name; rewrite Enl, wire_app; reflexivity).
    rewrite <- Ename in Hm. fold source in Hm. rewrite Hm.
    2:{ rewrite Ename, app_length, wire_length. pose proof (labels_count_le (r0 :: rest')) as HH. cbn [length] in HH |- *. lia. }
    2:{ lia. }
    cbn [bind]. rewrite (labels_match_of_ci _ _ Hci). cbn [negb].
    destruct (DNS_MAX_HOSTNAME_LEN <? length (labels_flat pre) + length target); [reflexivity|].
    f_equal. f_equal. unfold name. rewrite Enl, wire_app, firstn_app, firstn_all, Nat.sub_diag, firstn_O, app_nil_r.
    rewrite wire_app. reflexivity.
  Qed.

  (** no trailing labels match: nothing is replaced *)
  Theorem replace_raw_no_match :
    (forall pre rest, nl = pre ++ rest -> ci_labels rest sl -> ~ (sfx = true \/ pre = [])) ->
    replace_raw name target source sfx = Ok None.
  Proof.
    intros Hno. unfold replace_raw. fold name source target.
    destruct (length name <? length source) eqn:E1; [reflexivity|]. cbn [orb].
    destruct (negb sfx && negb (length name =? length source)) eqn:E2; [reflexivity|].
    assert (Ls : length source <> 0) by (unfold source; rewrite wire_length; lia).
    assert (Lt : length target <> 0) by (unfold target; rewrite wire_length; lia).
    destruct (length source =? 0) eqn:E3; [lia|]. destruct (length target =? 0) eqn:E4; [lia|]. cbn [orb].
    destruct sl as [|s0 sl'] eqn:Esl; [congruence|]. destruct tl as [|t0 tl'] eqn:Etl; [congruence|].
    pose proof (Forall_inv Hs) as Hs0. pose proof (Forall_inv Ht) as Ht0.
    destruct (wire_head_nonzero s0 sl' Hs0) as (bs & Hbs & Zs). destruct (wire_head_nonzero t0 tl' Ht0) as (bt & Hbt & Zt).
    unfold byte_at at 1. unfold source at 1. rewrite Hbs. cbn [bind].
    unfold byte_at at 1. unfold target at 1. rewrite Hbt. cbn [bind]. rewrite Zs, Zt. cbn [orb].
    set (offset := length name - length source).
    pose proof (rr_walk_spec nl (length name + 1) [] offset Hn) as Hw.
    cbn [app length] in Hw. fold name in Hw. rewrite Hw.
    2:{ unfold name. rewrite wire_length. pose proof (labels_count_le nl). lia. }
    cbn [bind].
    assert (Lname : length name = length (labels_flat nl) + 1) by (unfold name; apply wire_length).
    destruct (stop_cases nl 0 offset) as [(pre & rest & Enl & Hne & Ho & Hst)|[Hst Hmiss]].
    - (* on a boundary before the root: the labels must differ *)
      rewrite Hst. cbn [Nat.add] in Ho.
      assert (Lsplit : length name = length (labels_flat pre) + length (wire_of_labels rest)).
      { unfold name. rewrite Enl, wire_app, app_length. reflexivity. }
      destruct (length name <=? offset) eqn:E5; [reflexivity|].
      destruct rest as [|r0 rest']; [congruence|].
      assert (Hnr : Forall lab (r0 :: rest')) by (rewrite Enl, Forall_app in Hn; tauto).
      pose proof (Forall_inv Hnr) as Hr0l. unfold lab in Hr0l.
      unfold byte_at at 1. unfold name at 1. rewrite Enl, wire_app, wire_of_labels_cons. rewrite Ho, nth_head. cbn [bind].
      destruct (N.of_nat (length r0) =? 0)%N eqn:E6; [lia|]. cbn [andb]. rewrite <- Ho, Nat.eqb_refl. cbn [negb].
      pose proof (rr_match_spec (r0 :: rest') (s0 :: sl') (length name + 1) (labels_flat pre) [] offset Hnr Hs) as Hm.
      cbn [app length] in Hm. rewrite <- Ho in Hm.
      assert (Ename : name = labels_flat pre ++ wire_of_labels (r0 :: rest')) by (unfold name; rewrite Enl, wire_app; reflexivity).
      rewrite <- Ename in Hm. fold source in Hm. rewrite Hm.
      2:{ pose proof (labels_count_le (r0 :: rest')) as HH. cbn [length] in HH |- *. rewrite wire_length in Lsplit. lia. }
      2:{ lia. }
      cbn [bind].
      destruct (labels_match (r0 :: rest') (s0 :: sl')) eqn:Em; [|reflexivity].
      exfalso.
      assert (Hci : ci_labels (r0 :: rest') (s0 :: sl')).
      { apply ci_of_labels_match; [exact Em|].
        assert (Lsrc : length source = length (labels_flat (s0 :: sl')) + 1) by (unfold source; apply wire_length).
        rewrite wire_length in Lsplit. unfold offset in Ho. lia. }
      apply (Hno pre (r0 :: rest') Enl Hci).
      destruct sfx; [left; reflexivity|right]. cbn [negb andb] in E2.
      destruct (length name =? length source) eqn:E7; [|discriminate].
      unfold offset in Ho. destruct pre as [|l0 pre]; [reflexivity|]. rewrite flat_cons in Ho. cbn [length] in Ho. lia.
    - (* between boundaries: the loop runs to the root *)
      rewrite Hst. cbn [Nat.add].
      destruct (length name <=? length (labels_flat nl)) eqn:E5; [reflexivity|].
      unfold byte_at. unfold name at 1. unfold wire_of_labels. rewrite nth_head. cbn [bind].
      rewrite N.eqb_refl. destruct (0 <? length name) eqn:E6; [reflexivity|lia].
  Qed.
End Replace.

(** renaming a name to (a case variant of) itself: the same labels up to case *)
Corollary replace_raw_identity : forall nl sl, Forall lab nl -> Forall lab sl -> sl <> [] -> ci_labels nl sl ->
  length (wire_of_labels sl) <= 255 ->
  replace_raw (wire_of_labels nl) (wire_of_labels sl) (wire_of_labels sl) false = Ok (Some (wire_of_labels sl)).
Proof.
  intros nl sl Hn Hs Hne Hci Hlen.
  rewrite (replace_raw_match nl sl sl false Hn Hs Hs Hne Hne [] nl eq_refl Hci (or_intror eq_refl)).
  cbn [labels_flat flat_map length Nat.add app]. unfold DNS_MAX_HOSTNAME_LEN.
  destruct (255 <? length (wire_of_labels sl)) eqn:E; [lia|reflexivity].
Qed.
