(** * Changing a record's owner name on a decompressed object (C08, C09).

    [set_raw_name_keeps_dinv]: from a state satisfying [dinv], with the cursor on a non-OPT record of a
    record section, a successful [set_raw_name] leaves a state satisfying [dinv] whose record lists are the
    old ones with exactly that record's owner labels replaced by the labels of the name given. *)

From DV Require Import Model.Base Model.NameCheck Model.Parser Model.Header Model.Readers Model.Uncompress Model.Mutate
  Spec.NameSpec Spec.PacketSpec Spec.RecordSpec Spec.PlainSpec Proofs.ListLemmas Proofs.Hoare Proofs.ParserInv Proofs.ParseSound
  Proofs.ParseComplete Proofs.NameIff Proofs.ReadersLabels Proofs.HeaderBits Proofs.QuestionSpec Proofs.WalkValues Proofs.SetTtl Proofs.WalkSkip
  Proofs.UncompressSpec Proofs.PlainWf Proofs.InsertLemmas Proofs.EdnsFacts Proofs.EdnsPos Proofs.EdnsPlain Proofs.InsertSpec Proofs.HeaderInv
  Proofs.Chain Proofs.SetTtlInv Proofs.DeleteInv.
From Coq Require Import ZifyBool ZifyNat ZifyN.

Definition with_labels (rx : rec_view * rd_view) (ls : list bytes) : rec_view * rd_view := (rv_with_labels (fst rx) ls, snd rx).

Definition name_ok (ls : list bytes) : Prop := Forall label_ok ls /\ length (wire_of_labels ls) <= 255 /\ bytes_ok (wire_of_labels ls).

Lemma rec_ctx_labels sec s s' rx ls : rec_ctx sec s s' rx -> is_opt (fst rx) = false -> name_ok ls -> rec_ctx sec s s' (with_labels rx ls).
Proof.
  destruct rx as [r x]. unfold with_labels. cbn [fst snd]. intros [Hb Hctx] Hno (Hok & Hlen & Hbw).
  destruct (Hctx [] []) as (W & R0 & X0). cbn [app length Nat.add fst snd] in W, R0, X0. rewrite app_nil_r in W, R0, X0.
  set (z0 := plain_record (r, x)) in *.
  destruct (rr_plain_labels z0 Hb sec s 0 (length z0) s' W) as (r0 & x0 & Hoff0 & Hr0 & Hx0 & Hgen).
  destruct (record_at_fun z0 _ _ _ _ Hr0 R0 ltac:(rewrite Hoff0; reflexivity)) as [-> _].
  pose proof (rdata_at_fun _ _ _ _ Hx0 X0) as ->.
  destruct (Hgen ls Hno Hok Hlen Hbw) as (Hb' & Hctx').
  change (plain_record (rv_with_labels (rv_at r x 0) ls, x)) with (plain_record (rv_with_labels r ls, x)) in Hb', Hctx'.
  split; [exact Hb'|]. intros pre post. cbv zeta. cbn [fst snd]. exact (Hctx' pre post).
Qed.

Lemma chain_set_labels sec a rx b s s' ls : chain sec s (a ++ rx :: b) s' -> is_opt (fst rx) = false -> name_ok ls ->
  chain sec s (a ++ with_labels rx ls :: b) s'.
Proof.
  intros H Hno Hls. destruct (chain_split sec a rx b s s' H) as (s1 & s2 & A & B & C).
  eapply chain_app; [exact A|]. econstructor; [apply rec_ctx_labels; eassumption|exact C].
Qed.

Lemma skipn_nth_cons {A} : forall (l : list A) n x, nth_error l n = Some x -> skipn n l = x :: skipn (S n) l.
Proof.
  induction l as [|y l IH]; intros [|n] x H; cbn in H; try discriminate.
  - inversion H. reflexivity.
  - cbn [skipn]. rewrite (IH n x H). reflexivity.
Qed.

(** a name that nothing precedes has no pointers: it is the wire form of its labels *)
Lemma name_at_low0 p : forall off bar low hops budget ls e, name_at p off bar low hops budget ls e -> low = 0 ->
  firstn (length (wire_of_labels ls)) (skipn off p) = wire_of_labels ls /\ e = off + length (wire_of_labels ls) /\
  length (wire_of_labels ls) <= budget.
Proof.
  induction 1 as [off bar low hops budget Hlt Hz Hb1 | off bar low hops budget len ls e Hlt Hlen Hl1 Hl63 Hfit Hok Hbud Hrest IH
                  | off bar low hops budget hi lo tb ls e' Hlt Hhi Hptr Hlo Htgt]; intros Hlow.
  - cbn [wire_of_labels labels_flat flat_map app length]. split; [|split; [reflexivity|lia]].
    rewrite (skipn_nth_cons _ _ _ Hz). reflexivity.
  - destruct (IH Hlow) as (Hseg & He & Hbd). clear IH.
    set (l := firstn (N.to_nat len) (skipn (off + 1) p)) in *.
    assert (Ll : length l = N.to_nat len) by (unfold l; rewrite firstn_skipn_length by lia; reflexivity).
    assert (Ew : wire_of_labels (l :: ls) = N.of_nat (length l) :: l ++ wire_of_labels ls).
    { unfold wire_of_labels. cbn [labels_flat flat_map]. rewrite <- app_assoc. reflexivity. }
    rewrite Ew. cbn [length]. rewrite app_length, Ll. split; [|split; [lia|lia]].
    rewrite (skipn_nth_cons _ _ _ Hlen). cbn [firstn]. rewrite N2Nat.id. f_equal.
    rewrite firstn_split_at. f_equal.
    + replace (S off) with (off + 1) by lia. reflexivity.
    + rewrite skipn_skipn. replace (S off + N.to_nat len) with (off + N.to_nat len + 1) by lia. exact Hseg.
  - subst low. lia.
Qed.

Lemma checked_name nm n : bytes_ok nm -> check_compressed_name nm 0 = Ok n ->
  exists ls, name_ok ls /\ firstn n nm = wire_of_labels ls /\ n = length (wire_of_labels ls) /\ n <= length nm.
Proof.
  intros Hb H. apply check_compressed_name_iff in H. destruct H as (ls & Hlt & Hna).
  destruct (name_at_low0 nm _ _ _ _ _ _ _ Hna eq_refl) as (Hseg & He & Hbd). cbn [skipn Nat.add] in Hseg, He.
  assert (Hle : n <= length nm).
  { rewrite He. rewrite <- Hseg at 1. rewrite firstn_length. lia. }
  exists ls. split; [|split; [rewrite He; exact Hseg|split; [exact He|exact Hle]]].
  split; [eapply name_at_labels_ok; exact Hna|]. split; [exact Hbd|]. rewrite <- Hseg. apply Forall_firstn. exact Hb.
Qed.

(** ** What [resize_rr] does to the view *)
Lemma resize_view grow k v it s' off sec : 0 < k -> it_offset it = Some off -> it_current_section v it = Ok sec -> sec <> SQuestion ->
  m_resize_rr grow k (v, it) = (s', Ok tt) ->
  let q := pp_packet v in
  exists p' oed oar ons onext,
    (if grow then off <= length q /\ p' = firstn off q ++ firstn k (skipn off q ++ repeat 0%N k) ++ skipn off q
     else off + k <= length q /\ p' = firstn off q ++ skipn (off + k) q) /\
    (if opt_lt (Some off) (pp_offset_edns v) then shift_opt_wrap (pp_offset_edns v) grow k else Ok (pp_offset_edns v)) = Ok oed /\
    (if section_eqb sec SNameServers || section_eqb sec SAnswer then shift_opt (pp_offset_additional v) grow k 657 else Ok (pp_offset_additional v)) = Ok oar /\
    (if section_eqb sec SAnswer then shift_opt (pp_offset_nameservers v) grow k 658 else Ok (pp_offset_nameservers v)) = Ok ons /\
    s' = (pp_update v p' (pp_offset_question v) (pp_offset_answers v) ons oar oed (pp_maybe_compressed v) (pp_cached v),
          it_set it (Some off) onext (it_name_end it)).
Proof.
  intros Hk Eoff Esec Hnq Hrun q.
  unfold m_resize_rr, m_set_offset_next, cbind, getv, getit, clift, putv, putit, cret in Hrun. cbn [fst snd] in Hrun.
  replace (k =? 0) with false in Hrun by lia. cbn [fst snd] in Hrun. rewrite Eoff in Hrun. fold q in Hrun.
  match type of Hrun with context [match (if grow then ?a else ?b) with _ => _ end] => destruct (if grow then a else b) as [p'| |] eqn:Ep end;
    try (inversion Hrun; fail).
  cbn [fst snd pp_with_packet pp_packet] in Hrun.
  match type of Hrun with context [match (if grow then ?a else ?b) with _ => _ end] => destruct (if grow then a else b) as [onext| |] eqn:En end;
    try (inversion Hrun; fail).
  destruct (length p' <? onext) eqn:Eln; [inversion Hrun|].
  cbn [fst snd it_set it_offset it_offset_next it_name_end] in Hrun.
  match type of Hrun with context [it_current_section ?a ?b] => rewrite (cur_sec_same v a it b) in Hrun by (try reflexivity; cbn [it_set it_offset]; congruence) end.
  rewrite Esec in Hrun. cbn [pp_with_packet pp_offset_edns pp_offset_additional pp_offset_nameservers pp_offset_answers pp_offset_question pp_cached pp_maybe_compressed] in Hrun.
  destruct (if opt_lt (Some off) (pp_offset_edns v) then shift_opt_wrap (pp_offset_edns v) grow k else Ok (pp_offset_edns v)) as [oed| |] eqn:Eoed;
    try (inversion Hrun; fail).
  assert (Eq : section_eqb sec SQuestion = false) by (destruct sec; try reflexivity; congruence).
  rewrite Eq, !orb_false_r in Hrun.
  destruct (if section_eqb sec SNameServers || section_eqb sec SAnswer then shift_opt (pp_offset_additional v) grow k 657 else Ok (pp_offset_additional v))
    as [oar| |] eqn:Eoar; try (inversion Hrun; fail).
  destruct (if section_eqb sec SAnswer then shift_opt (pp_offset_nameservers v) grow k 658 else Ok (pp_offset_nameservers v))
    as [ons| |] eqn:Eons; try (inversion Hrun; fail).
  inversion Hrun; subst s'. exists p', oed, oar, ons, onext.
  split.
  { destruct grow.
    - destruct (65535 <? N.of_nat (length q + k))%N; [discriminate|]. destruct (length q <? off) eqn:E1; [discriminate|]. inversion Ep. split; [lia|reflexivity].
    - destruct (length q <? k) eqn:E1; [discriminate|]. destruct (length q <? off + k) eqn:E2; [discriminate|]. inversion Ep. split; [lia|reflexivity]. }
  repeat (split; [reflexivity|]). unfold pp_update. cbn [pp_with_packet pp_edns_count pp_ext_rcode pp_edns_version pp_ext_flags pp_max_payload]. rewrite Eoff. reflexivity.
Qed.

(** [set_raw_name] with its last step (the cursor's [recompute]) as a parameter *)
Definition set_name_k (name : bytes) (k : cm unit) : cm unit :=
  new_name_len <-- clift (check_compressed_name name 0) ;;
  let name := firstn new_name_len name in
  v <-- getv ;; it <-- getit ;;
  (if pp_maybe_compressed v then
     match it_offset it with
     | None => clift (Err VoidRecord)
     | Some ref_offset => m_cursor_decompress ref_offset
     end
   else cret tt) ;;-
  v <-- getv ;; it <-- getit ;;
  match it_offset it with
  | None => clift (Err VoidRecord)
  | Some offset =>
    if pp_maybe_compressed v then clift (Panic 661)
    else
      ns <-- clift (slice (pp_packet v) offset (it_name_end it) 662) ;;
      current_name_len <-- clift (raw_name_len ns) ;;
      (if current_name_len <=? new_name_len
       then m_resize_rr true (new_name_len - current_name_len)
       else m_resize_rr false (current_name_len - new_name_len)) ;;-
      v <-- getv ;;
      p' <-- clift (write_at (pp_packet v) offset name 663) ;;
      putv (pp_with_cached (pp_with_packet v p') None) ;;-
      k
  end.

Lemma set_raw_name_is_k nm : m_set_raw_name nm = set_name_k nm m_recompute_rr.
Proof. reflexivity. Qed.

Definition keeps_view (k : cm unit) : Prop := forall s s' r, k s = (s', r) -> fst s' = fst s.

Lemma recompute_rr_fst s s' r : m_recompute_rr s = (s', r) -> fst s' = fst s.
Proof.
  unfold m_recompute_rr, cbind, getv, getit, clift, putit. cbn [fst snd].
  destruct (unwrap (it_offset (snd s)) 641) as [o| |]; try (intros H; inversion H; reflexivity).
  destruct (skip_name (pp_packet (fst s)) o); try (intros H; inversion H; reflexivity).
  match goal with |- context [if ?c then ?a else ?b] => destruct (if c then a else b) end; intros H; inversion H; reflexivity.
Qed.

Definition sh (n old : nat) (o : option nat) : option nat := match o with Some x => Some (x + n - old) | None => None end.

Lemma shift_opt_sh grow k n old o site o' : (grow = true -> n = old + k) -> (grow = false -> old = n + k) ->
  shift_opt o grow k site = Ok o' -> o' = sh n old o.
Proof.
  intros Hk1 Hk2 H. destruct o as [x|]; cbn [shift_opt sh] in *; [|inversion H; reflexivity]. destruct grow.
  - specialize (Hk1 eq_refl). inversion H. f_equal. lia.
  - specialize (Hk2 eq_refl). unfold usub in H. destruct (k <=? x) eqn:E; cbn [bind] in H; [|discriminate]. inversion H. f_equal. lia.
Qed.

Lemma set_name_view_k nm k v it s' off sec n W : keeps_view k ->
  pp_maybe_compressed v = false -> it_offset it = Some off -> it_current_section v it = Ok sec -> sec <> SQuestion ->
  check_compressed_name nm 0 = Ok n -> n <= length nm ->
  slice (pp_packet v) off (it_name_end it) 662 = Ok W -> raw_name_len W = Ok (length W) -> off + length W <= length (pp_packet v) ->
  (forall x, pp_offset_edns v = Some x -> off < x -> length W <= x) ->
  set_name_k nm k (v, it) = (s', Ok tt) ->
  let q := pp_packet v in
  let old := length W in
  pp_packet (fst s') = firstn off q ++ firstn n nm ++ skipn (off + old) q /\
  pp_maybe_compressed (fst s') = false /\
  pp_offset_question (fst s') = pp_offset_question v /\ pp_offset_answers (fst s') = pp_offset_answers v /\
  pp_offset_nameservers (fst s') = (if section_eqb sec SAnswer then sh n old (pp_offset_nameservers v) else pp_offset_nameservers v) /\
  pp_offset_additional (fst s') = (if section_eqb sec SNameServers || section_eqb sec SAnswer then sh n old (pp_offset_additional v) else pp_offset_additional v) /\
  pp_offset_edns (fst s') = (if opt_lt (Some off) (pp_offset_edns v) then sh n old (pp_offset_edns v) else pp_offset_edns v) /\
  pp_edns_count (fst s') = pp_edns_count v /\ pp_ext_rcode (fst s') = pp_ext_rcode v /\ pp_edns_version (fst s') = pp_edns_version v /\
  pp_ext_flags (fst s') = pp_ext_flags v /\ pp_max_payload (fst s') = pp_max_payload v.
Proof.
  intros Hkv Hmc Eoff Esec Hnq Hck Hn Hsl Hrl Hfit Hed Hrun q old.
  unfold set_name_k in Hrun. unfold cbind at 1 in Hrun. unfold clift at 1 in Hrun. rewrite Hck in Hrun.
  unfold cbind at 1 in Hrun. unfold getv at 1 in Hrun. cbn [fst snd] in Hrun.
  unfold cbind at 1 in Hrun. unfold getit at 1 in Hrun. cbn [fst snd] in Hrun. rewrite Hmc in Hrun.
  unfold cbind at 1 in Hrun. unfold cret at 1 in Hrun.
  unfold cbind at 1 in Hrun. unfold getv at 1 in Hrun. cbn [fst snd] in Hrun.
  unfold cbind at 1 in Hrun. unfold getit at 1 in Hrun. cbn [fst snd] in Hrun. rewrite Eoff, Hmc in Hrun.
  unfold cbind at 1 in Hrun. unfold clift at 1 in Hrun. rewrite Hsl in Hrun.
  unfold cbind at 1 in Hrun. unfold clift at 1 in Hrun. rewrite Hrl in Hrun. fold old in Hrun.
  unfold cbind at 1 in Hrun.
  set (nm' := firstn n nm) in *.
  assert (Lnm : length nm' = n) by (unfold nm'; rewrite firstn_length; lia).
  destruct ((if old <=? n then m_resize_rr true (n - old) else m_resize_rr false (old - n)) (v, it)) as [s1 [u| |]] eqn:Ers; try (inversion Hrun; fail).
  destruct u.
  assert (Hs1 : exists p1,
    write_at p1 off nm' 663 = Ok (firstn off q ++ nm' ++ skipn (off + old) q) /\
    fst s1 = pp_update v p1 (pp_offset_question v) (pp_offset_answers v)
               (if section_eqb sec SAnswer then sh n old (pp_offset_nameservers v) else pp_offset_nameservers v)
               (if section_eqb sec SNameServers || section_eqb sec SAnswer then sh n old (pp_offset_additional v) else pp_offset_additional v)
               (if opt_lt (Some off) (pp_offset_edns v) then sh n old (pp_offset_edns v) else pp_offset_edns v) false (pp_cached v)).
  { destruct (old <=? n) eqn:Ecmp.
    - destruct (n - old) as [|k'] eqn:Ek.
      + (* same length *)
        unfold m_resize_rr in Ers. cbn [Nat.eqb] in Ers. unfold cret in Ers. inversion Ers; subst s1. cbn [fst].
        assert (En : n = old) by lia. exists q. split.
        { unfold write_at. rewrite Lnm. replace (off + n <=? length q) with true by (unfold q; lia). rewrite En. reflexivity. }
        assert (Esh : forall o, sh n old o = o) by (intros [x|]; cbn [sh]; [f_equal; lia|reflexivity]).
        rewrite !Esh. repeat match goal with |- context [if ?c then ?a else ?a] => replace (if c then a else a) with a by (destruct c; reflexivity) end.
        unfold pp_update. rewrite <- Hmc. destruct v; reflexivity.
      + rewrite <- Ek in Ers.
        destruct (resize_view true (n - old) v it s1 off sec ltac:(lia) Eoff Esec Hnq Ers) as (p' & oed & oar & ons & onext & (Hle & Ep) & Eoed & Eoar & Eons & Es1).
        fold q in Hle, Ep. exists p'. split.
        { unfold write_at. rewrite Lnm.
          set (mid := firstn (n - old) (skipn off q ++ repeat 0%N (n - old))) in *.
          assert (Lmid : length mid = n - old) by (unfold mid; rewrite firstn_length, app_length, repeat_length; lia).
          assert (Lf : length (firstn off q) = off) by (rewrite firstn_length; lia).
          replace (off + n <=? length p') with true by (rewrite Ep, !app_length, Lf, Lmid, skipn_length; unfold q, old in *; lia).
          f_equal. rewrite Ep. rewrite <- Lf at 1. rewrite firstn_app_exact. f_equal. f_equal.
          replace (off + n) with (length (firstn off q) + n) by lia. rewrite skipn_app, skipn_all2 by lia. cbn [app].
          replace (length (firstn off q) + n - length (firstn off q)) with (length mid + old) by lia.
          rewrite skipn_app, skipn_all2 by lia. cbn [app]. replace (length mid + old - length mid) with old by lia.
          rewrite skipn_skipn. reflexivity. }
        subst s1. cbn [fst]. rewrite Hmc.
        assert (Eons' : ons = if section_eqb sec SAnswer then sh n old (pp_offset_nameservers v) else pp_offset_nameservers v).
        { destruct (section_eqb sec SAnswer); [|congruence]. eapply (shift_opt_sh true (n - old)); [intros _; lia|discriminate|exact Eons]. }
        assert (Eoar' : oar = if section_eqb sec SNameServers || section_eqb sec SAnswer then sh n old (pp_offset_additional v) else pp_offset_additional v).
        { destruct (section_eqb sec SNameServers || section_eqb sec SAnswer); [|congruence]. eapply (shift_opt_sh true (n - old)); [intros _; lia|discriminate|exact Eoar]. }
        assert (Eoed' : oed = if opt_lt (Some off) (pp_offset_edns v) then sh n old (pp_offset_edns v) else pp_offset_edns v).
        { destruct (opt_lt (Some off) (pp_offset_edns v)); [|congruence]. destruct (pp_offset_edns v) as [x|]; cbn [shift_opt_wrap sh] in *; inversion Eoed; f_equal; lia. }
        rewrite Eons', Eoar', Eoed'. reflexivity.
    - destruct (resize_view false (old - n) v it s1 off sec ltac:(lia) Eoff Esec Hnq Ers) as (p' & oed & oar & ons & onext & (Hle & Ep) & Eoed & Eoar & Eons & Es1).
      fold q in Hle, Ep. exists p'. split.
      { unfold write_at. rewrite Lnm.
        assert (Lf : length (firstn off q) = off) by (rewrite firstn_length; lia).
        replace (off + n <=? length p') with true by (rewrite Ep, !app_length, Lf, skipn_length; unfold q, old in *; lia).
        f_equal. rewrite Ep. rewrite <- Lf at 1. rewrite firstn_app_exact. f_equal. f_equal.
        replace (off + n) with (length (firstn off q) + n) by lia. rewrite skipn_app, skipn_all2 by lia. cbn [app].
        replace (length (firstn off q) + n - length (firstn off q)) with n by lia.
        rewrite skipn_skipn. f_equal. lia. }
      subst s1. cbn [fst]. rewrite Hmc.
      assert (Eons' : ons = if section_eqb sec SAnswer then sh n old (pp_offset_nameservers v) else pp_offset_nameservers v).
      { destruct (section_eqb sec SAnswer); [|congruence]. eapply (shift_opt_sh false (old - n)); [discriminate|intros _; lia|exact Eons]. }
      assert (Eoar' : oar = if section_eqb sec SNameServers || section_eqb sec SAnswer then sh n old (pp_offset_additional v) else pp_offset_additional v).
      { destruct (section_eqb sec SNameServers || section_eqb sec SAnswer); [|congruence]. eapply (shift_opt_sh false (old - n)); [discriminate|intros _; lia|exact Eoar]. }
      assert (Eoed' : oed = if opt_lt (Some off) (pp_offset_edns v) then sh n old (pp_offset_edns v) else pp_offset_edns v).
      { destruct (opt_lt (Some off) (pp_offset_edns v)) eqn:Elt; [|congruence]. destruct (pp_offset_edns v) as [x|] eqn:Ex; cbn [shift_opt_wrap sh] in *; [|inversion Eoed; reflexivity].
        cbn [opt_lt] in Elt. pose proof (Hed x eq_refl ltac:(lia)). replace (old - n <=? x) with true in Eoed by (unfold old; lia). inversion Eoed. f_equal. lia. }
      rewrite Eons', Eoar', Eoed'. reflexivity. }
  destruct Hs1 as (p1 & Hw & Ev1).
  unfold cbind at 1 in Hrun. unfold getv at 1 in Hrun. cbn [fst snd] in Hrun.
  unfold cbind at 1 in Hrun. unfold clift at 1 in Hrun. rewrite Ev1 in Hrun. cbn [pp_update pp_packet] in Hrun. rewrite Hw in Hrun.
  unfold cbind at 1 in Hrun. unfold putv at 1 in Hrun. cbn [fst snd] in Hrun.
  pose proof (Hkv _ _ _ Hrun) as Efst. cbn [fst] in Efst.
  rewrite Efst. cbn [pp_with_cached pp_with_packet pp_packet pp_maybe_compressed pp_offset_question pp_offset_answers pp_offset_nameservers
    pp_offset_additional pp_offset_edns pp_edns_count pp_ext_rcode pp_edns_version pp_ext_flags pp_max_payload].
  repeat (split; [reflexivity|]). reflexivity.
Qed.

Lemma set_name_view nm v it s' off sec n W :
  pp_maybe_compressed v = false -> it_offset it = Some off -> it_current_section v it = Ok sec -> sec <> SQuestion ->
  check_compressed_name nm 0 = Ok n -> n <= length nm ->
  slice (pp_packet v) off (it_name_end it) 662 = Ok W -> raw_name_len W = Ok (length W) -> off + length W <= length (pp_packet v) ->
  (forall x, pp_offset_edns v = Some x -> off < x -> length W <= x) ->
  m_set_raw_name nm (v, it) = (s', Ok tt) ->
  let q := pp_packet v in
  let old := length W in
  pp_packet (fst s') = firstn off q ++ firstn n nm ++ skipn (off + old) q /\
  pp_maybe_compressed (fst s') = false /\
  pp_offset_question (fst s') = pp_offset_question v /\ pp_offset_answers (fst s') = pp_offset_answers v /\
  pp_offset_nameservers (fst s') = (if section_eqb sec SAnswer then sh n old (pp_offset_nameservers v) else pp_offset_nameservers v) /\
  pp_offset_additional (fst s') = (if section_eqb sec SNameServers || section_eqb sec SAnswer then sh n old (pp_offset_additional v) else pp_offset_additional v) /\
  pp_offset_edns (fst s') = (if opt_lt (Some off) (pp_offset_edns v) then sh n old (pp_offset_edns v) else pp_offset_edns v) /\
  pp_edns_count (fst s') = pp_edns_count v /\ pp_ext_rcode (fst s') = pp_ext_rcode v /\ pp_edns_version (fst s') = pp_edns_version v /\
  pp_ext_flags (fst s') = pp_ext_flags v /\ pp_max_payload (fst s') = pp_max_payload v.
Proof.
  intros Hmc Eoff Esec Hnq Hck Hn Hsl Hrl Hfit Hed Hrun. rewrite set_raw_name_is_k in Hrun.
  exact (set_name_view_k nm m_recompute_rr v it s' off sec n W recompute_rr_fst Hmc Eoff Esec Hnq Hck Hn Hsl Hrl Hfit Hed Hrun).
Qed.

(** ** The core, for any of the three sections: the byte layout and the offset arithmetic are supplied by the caller *)
Lemma set_name_core : forall nm v it s' f w qls qt A Nn R s1 s2 s3 A' Nn' R' t1 t2 t3 sec B1 W tl B2 n off,
  let q := pp_packet v in
  let H := firstn 12 q in
  let o1 := 12 + length (wire_of_labels qls) + 4 in
  let o2' := o1 + length (cat A') in
  let o3' := o2' + length (cat Nn') in
  let old := length W in
  dinv v -> parse q = Ok f -> same_view v f -> plain_parts q w qls qt A Nn R s1 s2 s3 ->
  chain SAnswer false A' t1 -> chain SNameServers t1 Nn' t2 -> chain SAdditional t2 R' t3 ->
  length A' = length A -> length Nn' = length Nn -> length R' = length R -> opt_rec_of R' = opt_rec_of R ->
  q = H ++ B1 ++ (W ++ tl) ++ B2 -> off = 12 + length B1 ->
  build H qls qt A' Nn' R' = H ++ B1 ++ (firstn n nm ++ tl) ++ B2 ->
  bytes_ok nm -> check_compressed_name nm 0 = Ok n -> n <= length nm ->
  raw_name_len W = Ok (length W) ->
  it_offset it = Some off -> it_name_end it = off + old -> it_current_section v it = Ok sec -> sec <> SQuestion ->
  (forall x, pp_offset_edns v = Some x -> off < x -> old <= x) ->
  pp_offset_question v = Some 12 ->
  pp_offset_answers v = (if 0 <? length A' then Some o1 else None) ->
  (if section_eqb sec SAnswer then sh n old (pp_offset_nameservers v) else pp_offset_nameservers v) = (if 0 <? length Nn' then Some o2' else None) ->
  (if section_eqb sec SNameServers || section_eqb sec SAnswer then sh n old (pp_offset_additional v) else pp_offset_additional v)
    = (if 0 <? length R' then Some o3' else None) ->
  (if opt_lt (Some off) (pp_offset_edns v) then sh n old (pp_offset_edns v) else pp_offset_edns v) = edns_off_of o3' R' ->
  m_set_raw_name nm (v, it) = (s', Ok tt) ->
  dinv (fst s') /\ reading (pp_packet (fst s')) qls qt (place o1 A') (place o2' Nn') (place o3' R') /\
  (forall w0, u16_at q 2 w0 -> u16_at (pp_packet (fst s')) 2 w0).
Proof.
  intros nm v it s' f w qls qt A Nn R s1 s2 s3 A' Nn' R' t1 t2 t3 sec B1 W tl B2 n off q H o1 o2' o3' old
         Hd Hf Hsv P CA CN CR LA LN LR Eopt Eq Eoff0 Ebuild Hbnm Hck Hn Hrl Eoff Ene Esec Hnq Hed Voq Voa Hons Hoar Hoed Hrun.
  pose proof Hd as [Hmc Hb Hfix _]. fold q in Hb, Hfix.
  pose proof P as [Peq P12 Pw Pqd Pan Pns Par Pgate Pqok Pq255 Pqb Pqt PCA PCN PCR]. fold H in Peq.
  assert (HH : length H = 12) by (unfold H; rewrite firstn_length; lia).
  assert (Lq : length q = 12 + length B1 + (old + length tl) + length B2) by (rewrite Eq at 1; rewrite !app_length, HH; unfold old; lia).
  assert (Hsl : slice q off (it_name_end it) 662 = Ok W).
  { unfold slice. rewrite Ene. replace ((off <=? off + old) && (off + old <=? length q)) with true by lia.
    replace (off + old - off) with old by lia. f_equal. rewrite Eq, Eoff0.
    replace (H ++ B1 ++ (W ++ tl) ++ B2) with ((H ++ B1) ++ W ++ (tl ++ B2)) by (rewrite <- !app_assoc; reflexivity).
    replace (12 + length B1) with (length (H ++ B1)) by (rewrite app_length; lia). rewrite skipn_app_exact. apply firstn_app_exact. }
  destruct (set_name_view nm v it s' off sec n W Hmc Eoff Esec Hnq Hck Hn Hsl Hrl ltac:(fold q; unfold old in *; lia) Hed Hrun)
    as (Wpk & Wmc & Woq & Woa & Won & Wor & Woe & Wc & Wrc & Wver & Wxf & Wmp). fold q old in Wpk, Won, Wor, Woe.
  assert (Epk : pp_packet (fst s') = build H qls qt A' Nn' R').
  { rewrite Wpk, Ebuild. rewrite Eq at 1 2. rewrite Eoff0.
    replace (H ++ B1 ++ (W ++ tl) ++ B2) with ((H ++ B1) ++ W ++ (tl ++ B2)) by (rewrite <- !app_assoc; reflexivity).
    replace (12 + length B1) with (length (H ++ B1)) by (rewrite app_length; lia).
    rewrite firstn_app_exact. rewrite skipn_app, skipn_all2 by lia. cbn [app].
    replace (length (H ++ B1) + old - length (H ++ B1)) with (length W) by (unfold old; lia). rewrite skipn_app_exact.
    rewrite <- !app_assoc. reflexivity. }
  destruct (checked_name nm n Hbnm Hck) as (ls & (Hlok & Hl255 & Hbw) & Hseg & Hnl & _).
  assert (Hbq' : bytes_ok (build H qls qt A' Nn' R')).
  { rewrite Ebuild. rewrite Eq in Hb. unfold bytes_ok in *. rewrite !Forall_app in *. rewrite Hseg. tauto. }
  pose proof Hsv as (_ & _ & _ & _ & _ & _ & Vc & Vrc & Vver & Vxf & Vmp).
  assert (U2 : u16_at H 2 w) by (apply u16_at_firstn; [lia|exact Pw]).
  destruct (lists_dinv (fst s') H w qls qt A' Nn' R' t1 t2 t3 f q w A Nn R s1 s2 s3) as (Hd' & Rd'); try assumption; try congruence.
  - apply u16_at_firstn; [lia|exact Pqd].
  - rewrite LA. apply u16_at_firstn; [lia|exact Pan].
  - rewrite LN. apply u16_at_firstn; [lia|exact Pns].
  - rewrite LR. apply u16_at_firstn; [lia|exact Par].
  - intros Hg. destruct (Pgate Hg). lia.
  - rewrite Woa. exact Voa.
  - rewrite Won. exact Hons.
  - rewrite Wor. exact Hoar.
  - rewrite Woe. exact Hoed.
  - split; [exact Hd'|]. rewrite Epk. split; [exact Rd'|].
    intros w0 Hw0. rewrite (u16_at_fun _ _ _ _ Hw0 Pw). unfold build. apply u16_at_head0; [exact HH|lia|exact U2].
Qed.

Definition rec_tail (rx : rec_view * rd_view) : bytes :=
  be16_bytes (rv_type (fst rx)) ++ be16_bytes (rv_class (fst rx)) ++ be32_bytes (rv_ttl (fst rx)) ++
  be16_bytes (N.of_nat (length (plain_rdata (snd rx)))) ++ plain_rdata (snd rx).

Lemma plain_record_split rx : plain_record rx = wire_of_labels (rv_labels (fst rx)) ++ rec_tail rx.
Proof. destruct rx as [r x]. reflexivity. Qed.

Lemma plain_record_with_labels rx ls : plain_record (with_labels rx ls) = wire_of_labels ls ++ rec_tail rx.
Proof. destruct rx as [r x]. reflexivity. Qed.

Lemma opt_rel_at R1 y R2 : is_opt (fst y) = false ->
  opt_rel (R1 ++ y :: R2) =
  match opt_rel R1 with
  | Some z => Some z
  | None => match opt_rel R2 with Some (k2, y2) => Some (length (cat R1) + (length (plain_record y) + k2), y2) | None => None end
  end.
Proof.
  intros Hno. rewrite opt_rel_app. cbn [opt_rel]. rewrite Hno.
  destruct (opt_rel R1) as [[k1 y1]|]; [reflexivity|]. destruct (opt_rel R2) as [[k2 y2]|]; reflexivity.
Qed.

Theorem set_raw_name_keeps_dinv : forall nm v it s' qls qt lA lN lR r x,
  dinv v -> bytes_ok nm -> reading (pp_packet v) qls qt lA lN lR -> In (r, x) (lA ++ lN ++ lR) -> is_opt r = false ->
  it_offset it = Some (rv_off r) -> it_name_end it = rv_name_end r ->
  m_set_raw_name nm (v, it) = (s', Ok tt) ->
  dinv (fst s') /\
  exists n ls A Nn R A' Nn' R' X1 r0 X2,
    let o1 := 12 + length (wire_of_labels qls) + 4 in
    check_compressed_name nm 0 = Ok n /\ firstn n nm = wire_of_labels ls /\ name_ok ls /\
    lA = place o1 A /\ lN = place (o1 + length (cat A)) Nn /\ lR = place (o1 + length (cat A) + length (cat Nn)) R /\
    reading (pp_packet (fst s')) qls qt (place o1 A') (place (o1 + length (cat A')) Nn') (place (o1 + length (cat A') + length (cat Nn')) R') /\
    A ++ Nn ++ R = X1 ++ (r0, x) :: X2 /\ A' ++ Nn' ++ R' = X1 ++ with_labels (r0, x) ls :: X2 /\ r = rv_at r0 x (o1 + length (cat X1)) /\
    length A' = length A /\ length Nn' = length Nn /\ length R' = length R /\
    (forall w0, u16_at (pp_packet v) 2 w0 -> u16_at (pp_packet (fst s')) 2 w0).
Proof.
  intros nm v it s' qls qt lA lN lR r x Hd Hbnm Rd Hin Hno Eoff Ene Hrun.
  destruct (dinv_parts v Hd) as (f & w & qls0 & qt0 & A & Nn & R & s1 & s2 & s3 & t1 & t2 & t3 & Hf & Hsv & P & CA & CN & CR & Lq & Rq & Voq & Voa & Von & Vor & Voe).
  destruct (reading_fun _ _ _ _ _ _ _ _ _ _ _ Rq Rd) as (-> & -> & <- & <- & <-).
  set (q := pp_packet v) in *.
  set (o1 := 12 + length (wire_of_labels qls) + 4) in *. set (o2 := o1 + length (cat A)) in *. set (o3 := o2 + length (cat Nn)) in *.
  pose proof (di_bytes _ Hd) as Hb. fold q in Hb.
  (* the name given *)
  assert (Hck : exists n, check_compressed_name nm 0 = Ok n).
  { unfold m_set_raw_name in Hrun. unfold cbind at 1 in Hrun. unfold clift at 1 in Hrun.
    destruct (check_compressed_name nm 0) as [n| |]; [eauto|inversion Hrun|inversion Hrun]. }
  destruct Hck as (n & Hck). destruct (checked_name nm n Hbnm Hck) as (ls & Hls & Hseg & Hnl & Hn).
  (* the record *)
  destruct (reading_record_in _ _ _ _ _ _ Rq r x Hin) as (_ & e0 & Hrec).
  assert (Hlok0 : Forall label_ok (rv_labels r)) by (destruct Hrec as ((_ & Hna) & _); eapply name_at_labels_ok; exact Hna).
  pose proof P as [Peq P12 _ _ _ _ _ _ _ _ _ _ _ _ _].
  set (H := firstn 12 q) in *. set (Qb := plain_question qls qt CLASS_IN) in *.
  assert (LQb : length Qb = length (wire_of_labels qls) + 4) by (unfold Qb, plain_question; rewrite !app_length; cbn [length be16_bytes]; lia).
  apply in_app_or in Hin. destruct Hin as [Hin|Hin]; [|apply in_app_or in Hin; destruct Hin as [Hin|Hin]].
  - destruct (in_place_split A o1 r x Hin) as (A1 & r0 & A2 & EA & Er). subst A.
    assert (Hno0 : is_opt r0 = false) by (rewrite Er in Hno; exact Hno).
    rewrite Er in Eoff, Ene, Hlok0. cbn [rv_at rv_off rv_name_end rv_labels] in Eoff, Ene, Hlok0.
    set (W := wire_of_labels (rv_labels r0)) in *. set (tl := rec_tail (r0, x)).
    assert (LW : 1 <= length W) by (unfold W, wire_of_labels; rewrite app_length; cbn [length]; lia).
    set (A' := A1 ++ with_labels (r0, x) ls :: A2).
    assert (LcA : length (cat (A1 ++ (r0, x) :: A2)) = length (cat A1) + (length W + length tl) + length (cat A2))
      by (rewrite cat_app, cat_cons, plain_record_split, !app_length; cbn [fst]; fold W tl; lia).
    assert (LcA' : length (cat A') = length (cat A1) + (n + length tl) + length (cat A2))
      by (unfold A'; rewrite cat_app, cat_cons, plain_record_with_labels, !app_length; fold tl; lia).
    assert (LA' : length A' = length (A1 ++ (r0, x) :: A2)) by (unfold A'; rewrite !app_length; reflexivity).
    destruct (set_name_core nm v it s' f w qls qt (A1 ++ (r0, x) :: A2) Nn R s1 s2 s3 A' Nn R t1 t2 t3 SAnswer (Qb ++ cat A1) W tl (cat A2 ++ cat Nn ++ cat R) n
                (o1 + length (cat A1)) Hd Hf Hsv P) as (Hd' & Rd' & Hfl); try assumption; try reflexivity.
    + exact (chain_set_labels _ _ _ _ _ _ _ CA Hno0 Hls).
    + fold q. fold H. rewrite Peq at 1. unfold build. fold Qb H. rewrite cat_app, cat_cons, plain_record_split. fold W tl. rewrite <- !app_assoc. reflexivity.
    + rewrite app_length, LQb. unfold o1. lia.
    + fold q. fold H. unfold build, A'. fold Qb. rewrite cat_app, cat_cons, plain_record_with_labels, Hseg. fold tl. rewrite <- !app_assoc. reflexivity.
    + unfold W. apply raw_name_len_wire. exact Hlok0.
    + rewrite (cur_sec_of v it _ Eoff Voq ltac:(unfold o1; lia)). rewrite Voa, Von, Vor.
      replace (0 <? length (A1 ++ (r0, x) :: A2)) with true by (rewrite app_length; cbn [length]; lia).
      destruct (0 <? length Nn), (0 <? length R); cbn [off_ge];
        repeat match goal with |- context [?a <=? ?b] => destruct (Nat.leb_spec a b) end; try reflexivity; unfold o3, o2 in *; lia.
    + discriminate.
    + rewrite Voe. unfold edns_off_of. destruct (opt_rel R) as [[kk y]|]; intros z Hz Hlt; [|discriminate]. assert (Ez : z = o3 + kk + 11) by congruence. unfold o3, o2 in *. lia.
    + fold o1. rewrite Voa, LA'. reflexivity.
    + fold o1. cbn [section_eqb]. rewrite Von. destruct (0 <? length Nn); cbn [sh]; [|reflexivity]. f_equal. unfold o2. lia.
    + fold o1. cbn [section_eqb orb]. rewrite Vor. destruct (0 <? length R); cbn [sh]; [|reflexivity]. f_equal. unfold o3, o2. lia.
    + fold o1. rewrite Voe. unfold edns_off_of. destruct (opt_rel R) as [[kk y]|]; cbn [opt_lt sh]; [|reflexivity].
      replace (o1 + length (cat A1) <? o3 + kk + 11) with true by (unfold o3, o2; lia). cbn [sh]. f_equal. unfold o3, o2. lia.
    + split; [exact Hd'|]. exists n, ls, (A1 ++ (r0, x) :: A2), Nn, R, A', Nn, R, A1, r0, (A2 ++ Nn ++ R). cbv zeta. fold o1.
      split; [exact Hck|]. split; [exact Hseg|]. split; [exact Hls|]. repeat (split; [reflexivity|]). split; [exact Rd'|].
      unfold A'. rewrite <- !app_assoc. cbn [app]. repeat (split; [reflexivity|]). split; [exact Er|].
      split; [exact LA'|]. split; [reflexivity|]. split; [reflexivity|exact Hfl].
  - destruct (in_place_split Nn o2 r x Hin) as (N1 & r0 & N2 & EN & Er). subst Nn.
    assert (Hno0 : is_opt r0 = false) by (rewrite Er in Hno; exact Hno).
    rewrite Er in Eoff, Ene, Hlok0. cbn [rv_at rv_off rv_name_end rv_labels] in Eoff, Ene, Hlok0.
    set (W := wire_of_labels (rv_labels r0)) in *. set (tl := rec_tail (r0, x)).
    assert (LW : 1 <= length W) by (unfold W, wire_of_labels; rewrite app_length; cbn [length]; lia).
    set (N' := N1 ++ with_labels (r0, x) ls :: N2).
    assert (LcN : length (cat (N1 ++ (r0, x) :: N2)) = length (cat N1) + (length W + length tl) + length (cat N2))
      by (rewrite cat_app, cat_cons, plain_record_split, !app_length; cbn [fst]; fold W tl; lia).
    assert (LcN' : length (cat N') = length (cat N1) + (n + length tl) + length (cat N2))
      by (unfold N'; rewrite cat_app, cat_cons, plain_record_with_labels, !app_length; fold tl; lia).
    assert (LN' : length N' = length (N1 ++ (r0, x) :: N2)) by (unfold N'; rewrite !app_length; reflexivity).
    destruct (set_name_core nm v it s' f w qls qt A (N1 ++ (r0, x) :: N2) R s1 s2 s3 A N' R t1 t2 t3 SNameServers (Qb ++ cat A ++ cat N1) W tl (cat N2 ++ cat R) n
                (o2 + length (cat N1)) Hd Hf Hsv P) as (Hd' & Rd' & Hfl); try assumption; try reflexivity.
    + exact (chain_set_labels _ _ _ _ _ _ _ CN Hno0 Hls).
    + fold q. fold H. rewrite Peq at 1. unfold build. fold Qb H. rewrite cat_app, cat_cons, plain_record_split. fold W tl. rewrite <- !app_assoc. reflexivity.
    + rewrite !app_length, LQb. unfold o2, o1. lia.
    + fold q. fold H. unfold build, N'. fold Qb. rewrite cat_app, cat_cons, plain_record_with_labels, Hseg. fold tl. rewrite <- !app_assoc. reflexivity.
    + unfold W. apply raw_name_len_wire. exact Hlok0.
    + rewrite (cur_sec_of v it _ Eoff Voq ltac:(unfold o2, o1; lia)). rewrite Voa, Von, Vor.
      replace (0 <? length (N1 ++ (r0, x) :: N2)) with true by (rewrite app_length; cbn [length]; lia).
      destruct (0 <? length A), (0 <? length R); cbn [off_ge];
        repeat match goal with |- context [?a <=? ?b] => destruct (Nat.leb_spec a b) end; try reflexivity; unfold o3, o2 in *; lia.
    + discriminate.
    + rewrite Voe. unfold edns_off_of. destruct (opt_rel R) as [[kk y]|]; intros z Hz Hlt; [|discriminate]. assert (Ez : z = o3 + kk + 11) by congruence. unfold o3, o2 in *. lia.
    + fold o1. fold o2. cbn [section_eqb]. rewrite Von, LN'. reflexivity.
    + fold o1. cbn [section_eqb orb]. rewrite Vor. destruct (0 <? length R); cbn [sh]; [|reflexivity]. f_equal. unfold o3. lia.
    + fold o1. rewrite Voe. unfold edns_off_of. destruct (opt_rel R) as [[kk y]|]; cbn [opt_lt sh]; [|reflexivity].
      replace (o2 + length (cat N1) <? o3 + kk + 11) with true by (unfold o3; lia). cbn [sh]. f_equal. unfold o3. lia.
    + split; [exact Hd'|]. exists n, ls, A, (N1 ++ (r0, x) :: N2), R, A, N', R, (A ++ N1), r0, (N2 ++ R). cbv zeta. fold o1 o2.
      split; [exact Hck|]. split; [exact Hseg|]. split; [exact Hls|]. repeat (split; [reflexivity|]). split; [exact Rd'|].
      unfold N'. rewrite <- !app_assoc. cbn [app]. repeat (split; [reflexivity|]).
      split; [rewrite cat_app, app_length; unfold o2 in Er; rewrite Er; f_equal; lia|].
      split; [reflexivity|]. split; [exact LN'|]. split; [reflexivity|exact Hfl].
  - destruct (in_place_split R o3 r x Hin) as (R1 & r0 & R2 & ER & Er). subst R.
    assert (Hno0 : is_opt r0 = false) by (rewrite Er in Hno; exact Hno).
    rewrite Er in Eoff, Ene, Hlok0. cbn [rv_at rv_off rv_name_end rv_labels] in Eoff, Ene, Hlok0.
    set (W := wire_of_labels (rv_labels r0)) in *. set (tl := rec_tail (r0, x)).
    assert (LW : 1 <= length W) by (unfold W, wire_of_labels; rewrite app_length; cbn [length]; lia).
    set (R' := R1 ++ with_labels (r0, x) ls :: R2).
    assert (LcR : length (cat (R1 ++ (r0, x) :: R2)) = length (cat R1) + (length W + length tl) + length (cat R2))
      by (rewrite cat_app, cat_cons, plain_record_split, !app_length; cbn [fst]; fold W tl; lia).
    assert (LR' : length R' = length (R1 ++ (r0, x) :: R2)) by (unfold R'; rewrite !app_length; reflexivity).
    assert (Hno' : is_opt (fst (with_labels (r0, x) ls)) = false) by exact Hno0.
    pose proof (opt_rel_at R1 (r0, x) R2 Hno0) as Eold. pose proof (opt_rel_at R1 (with_labels (r0, x) ls) R2 Hno') as Enew. fold R' in Enew.
    rewrite plain_record_split in Eold. rewrite plain_record_with_labels in Enew. rewrite !app_length in Eold, Enew. cbn [fst] in Eold, Enew. fold W tl in Eold, Enew. rewrite <- Hnl in Enew.
    destruct (set_name_core nm v it s' f w qls qt A Nn (R1 ++ (r0, x) :: R2) s1 s2 s3 A Nn R' t1 t2 t3 SAdditional (Qb ++ cat A ++ cat Nn ++ cat R1) W tl (cat R2) n
                (o3 + length (cat R1)) Hd Hf Hsv P) as (Hd' & Rd' & Hfl); try assumption; try reflexivity.
    + exact (chain_set_labels _ _ _ _ _ _ _ CR Hno0 Hls).
    + unfold opt_rec_of. rewrite Eold, Enew. destruct (opt_rel R1) as [[k1 y1]|]; [reflexivity|]. destruct (opt_rel R2) as [[k2 y2]|]; reflexivity.
    + fold q. fold H. rewrite Peq at 1. unfold build. fold Qb H. rewrite cat_app, cat_cons, plain_record_split. fold W tl. rewrite <- !app_assoc. reflexivity.
    + rewrite !app_length, LQb. unfold o3, o2, o1. lia.
    + fold q. fold H. unfold build, R'. fold Qb. rewrite cat_app, cat_cons, plain_record_with_labels, Hseg. fold tl. rewrite <- !app_assoc. reflexivity.
    + unfold W. apply raw_name_len_wire. exact Hlok0.
    + rewrite (cur_sec_of v it _ Eoff Voq ltac:(unfold o3, o2, o1; lia)). rewrite Voa, Von, Vor.
      replace (0 <? length (R1 ++ (r0, x) :: R2)) with true by (rewrite app_length; cbn [length]; lia).
      destruct (0 <? length A), (0 <? length Nn); cbn [off_ge];
        repeat match goal with |- context [?a <=? ?b] => destruct (Nat.leb_spec a b) end; try reflexivity; unfold o3, o2 in *; lia.
    + discriminate.
    + rewrite Voe. unfold edns_off_of. rewrite Eold. destruct (opt_rel R1) as [[k1 y1]|] eqn:E1.
      * intros z Hz Hlt. cbv beta iota in Hz. assert (Ez : z = o3 + k1 + 11) by (injection Hz as Hz'; symmetry; exact Hz'). pose proof (opt_rel_bound _ _ _ E1). lia.
      * destruct (opt_rel R2) as [[k2 y2]|]; intros z Hz Hlt; cbv beta iota in Hz; [|discriminate]. assert (Ez : z = o3 + (length (cat R1) + (length W + length tl + k2)) + 11) by (injection Hz as Hz'; symmetry; exact Hz'). lia.
    + fold o1. fold o2. fold o3. cbn [section_eqb orb]. rewrite Vor, LR'. reflexivity.
    + fold o1. fold o2. fold o3. rewrite Voe. unfold edns_off_of. rewrite Eold, Enew. destruct (opt_rel R1) as [[k1 y1]|] eqn:E1.
      * pose proof (opt_rel_bound _ _ _ E1). cbn [opt_lt]. replace (o3 + length (cat R1) <? o3 + k1 + 11) with false by lia. reflexivity.
      * destruct (opt_rel R2) as [[k2 y2]|]; cbn [opt_lt sh]; [|reflexivity].
        replace (o3 + length (cat R1) <? o3 + (length (cat R1) + (length W + length tl + k2)) + 11) with true by lia. cbn [sh]. f_equal. lia.
    + split; [exact Hd'|]. exists n, ls, A, Nn, (R1 ++ (r0, x) :: R2), A, Nn, R', (A ++ Nn ++ R1), r0, R2. cbv zeta. fold o1 o2 o3.
      split; [exact Hck|]. split; [exact Hseg|]. split; [exact Hls|]. repeat (split; [reflexivity|]). split; [exact Rd'|].
      unfold R'. rewrite <- !app_assoc. cbn [app]. repeat (split; [reflexivity|]).
      split; [rewrite !cat_app, !app_length; unfold o3, o2 in Er; rewrite Er; f_equal; lia|].
      split; [reflexivity|]. split; [reflexivity|]. split; [exact LR'|exact Hfl].
Qed.

Lemma set_name_k_split nm k s :
  set_name_k nm k s = match set_name_k nm (cret tt) s with
                      | (s1, Ok _) => k s1
                      | (s1, Err e) => (s1, Err e)
                      | (s1, Panic x) => (s1, Panic x)
                      end.
Proof.
  unfold set_name_k, cbind, clift, getv, getit, putv, cret. cbn [fst snd].
  repeat match goal with
         | |- context [match ?x with _ => _ end] =>
           match x with
           | context [match _ with _ => _ end] => fail 1
           | _ => destruct x eqn:?
           end
         end; try reflexivity.
Qed.
