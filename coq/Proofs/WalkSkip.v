(** * The OPT-skipping walk yields the declaratively decoded records other than OPT (C03).

    [ResponseIterator::next] ([r_next]) is [next_including_opt] followed by
    [maybe_skip_opt_section]. On every accepted packet, for each record section, the walk visits
    exactly the records of the declarative reading whose type is not OPT, in order, with the same
    views as the including walk; its two debug assertions (OPT only in the additional section, never
    two OPT records in a row) cannot fire because the policy admits at most one OPT record and only
    in the additional section. *)

From DV Require Import Model.Base Model.NameCheck Model.Parser Model.Header Model.Readers Model.Uncompress
  Spec.NameSpec Spec.PacketSpec Spec.RecordSpec Proofs.ListLemmas Proofs.Hoare Proofs.NameIff
  Proofs.ParserInv Proofs.ParseSound Proofs.ReadersAgree Proofs.ReadersLabels Proofs.QuestionSpec
  Proofs.WalkValues Proofs.SetTtl.
From Coq Require Import ZifyBool ZifyNat ZifyN.

Definition is_opt (r : rec_view) : bool := (rv_type r =? TYPE_OPT)%N.
Definition non_opt (r : rec_view) : bool := negb (is_opt r).

(** at most one OPT record, none if one was seen before *)
Fixpoint opt_ok (seen : bool) (l : list rec_view) : Prop :=
  match l with
  | [] => True
  | r :: l' => if is_opt r then seen = false /\ opt_ok true l' else opt_ok seen l'
  end.

Definition walk_views_skip (v : ppacket) (sec : section) : res (list view) :=
  first <- r_next v (it_new sec) ;;
  walk_fold (walk_fuel (pp_packet v)) (r_next v) (collect_view v) first [].

(** ** From the policy to a typed record list *)
Lemma rr_wf_record_opt p sec seen off off' seen' : rr_wf p sec seen off off' seen' ->
  exists r, rv_off r = off /\ record_at p r off' /\
    (if is_opt r then sec = SAdditional /\ seen = false /\ seen' = true else seen' = seen).
Proof.
  intros H. destruct (rr_wf_record p sec seen off off' seen' H) as (r & Hoff & Hr).
  exists r. split; [exact Hoff|]. split; [exact Hr|].
  destruct H as (ne & t & rdlen & (ls & Hcn) & Hne & Ht & Hrl & Ho & Hl & Hrest).
  destruct Hr as (Hcn' & Ht' & _).
  destruct (cname_l_fun _ _ _ _ _ _ Hcn (eq_rect _ (fun o => cname_l p o _ _) Hcn' _ Hoff)) as [_ Ene].
  rewrite <- Ene in Ht'. pose proof (u16_at_fun _ _ _ _ Ht Ht') as Et. unfold is_opt. rewrite <- Et.
  destruct (t =? TYPE_OPT)%N; [destruct Hrest as (A & _ & B & C & _); auto|destruct Hrest; auto].
Qed.

Lemma rrs_wf_records p sec : forall seen off n off' seen', rrs_wf p sec seen off n off' seen' ->
  exists l, records_at p off l off' /\ length l = n /\ opt_ok seen l /\
            (sec <> SAdditional -> forallb non_opt l = true) /\ seen' = (seen || existsb is_opt l).
Proof.
  induction 1 as [seen off|seen off off1 seen1 n off' seen' Hrr Hrest IH].
  - exists []. repeat split; try constructor. cbn. rewrite orb_false_r. reflexivity.
  - destruct (rr_wf_record_opt _ _ _ _ _ _ Hrr) as (r & Hoff & Hr & Hopt).
    destruct IH as (l & Hl & Hlen & Hok & Hno & Hseen').
    exists (r :: l). split; [rewrite <- Hoff; econstructor; eauto|]. split; [cbn; lia|].
    cbn [opt_ok forallb existsb]. unfold non_opt. destruct (is_opt r).
    + destruct Hopt as (Hs & Hseen & Hseen1). rewrite Hseen1 in Hok, Hseen'. split; [auto|].
      split; [intros Hn; congruence|]. rewrite Hseen'. rewrite Hseen. reflexivity.
    + rewrite Hopt in Hok, Hseen'. split; [exact Hok|]. split; [intros Hn; cbn; apply Hno; exact Hn|exact Hseen'].
Qed.

(** ** One step of the skipping cursor *)
Section Skip.
  Variables (p : bytes) (v : ppacket).
  Hypothesis Hb : bytes_ok p.
  Hypothesis Hpk : pp_packet v = p.

  Lemma it_rr_type_ok r e it : record_at p r e -> it_offset it = Some (rv_off r) -> it_name_end it = rv_name_end r ->
    it_rr_type v it = Ok (rv_type r).
  Proof.
    intros (Hcn & Ht & _ & _ & _ & Ho & Hl & _) Hoff Hne.
    unfold it_rr_type, it_rd16, DNS_RR_TYPE_OFFSET. rewrite Hoff, Hne, Hpk. cbn [unwrap bind].
    unfold slice_from. destruct (rv_name_end r <=? length p) eqn:E; [|lia]. cbn [bind].
    rewrite Nat.add_0_r. apply be16_at_u16. exact Ht.
  Qed.

  Definition it_on (sec : section) (r : rec_view) (e : nat) (left : nat) : rrit :=
    {| it_section := sec; it_offset := Some (rv_off r); it_offset_next := e; it_name_end := rv_name_end r;
       it_rrs_left := N.of_nat left |}.

  (** the cursor after [maybe_skip_opt_section], standing on [r] with the records [l] still ahead *)
  Definition after_skip (sec : section) (r : rec_view) (e : nat) (l : list rec_view) : option rrit :=
    if is_opt r then
      match l with
      | [] => None
      | r' :: l' => Some (it_on sec r' (rv_end r') (length l'))
      end
    else Some (it_on sec r e (length l)).

  Lemma maybe_skip_spec sec r e l e' seen :
    record_at p r e -> records_at p e l e' -> opt_ok seen (r :: l) ->
    (is_opt r = true -> sec = SAdditional) ->
    maybe_skip_opt_section v (it_on sec r e (length l)) = Ok (after_skip sec r e l).
  Proof.
    intros Hr Hl Hok Hsec. unfold maybe_skip_opt_section, after_skip.
    rewrite (it_rr_type_ok r e (it_on sec r e (length l)) Hr eq_refl eq_refl). cbn [bind]. unfold is_opt in *.
    destruct (rv_type r =? TYPE_OPT)%N eqn:E; [|reflexivity].
    rewrite (Hsec eq_refl). cbn [it_on it_section section_eqb negb it_rrs_left it_offset_next].
    destruct l as [|r' l']; [reflexivity|].
    replace (N.of_nat (length (r' :: l')) =? 0)%N with false by (cbn [length]; lia).
    assert (Hinv : exists e1, record_at p r' e1 /\ records_at p e1 l' e' /\ e = rv_off r') by (clear -Hl; inversion Hl; eauto).
    destruct Hinv as (e1 & Hr' & Hl' & He).
    pose proof (record_at_end _ _ _ Hr') as (He1 & Hlt' & Hle').
    pose proof Hr' as (Hcn & Ht & Hc & Httl & Hrl & Ho & Hlen & HA).
    assert (Hck : check_compressed_name p (rv_off r') = Ok (rv_name_end r')).
    { apply check_compressed_name_iff. exists (rv_labels r'). exact Hcn. }
    rewrite Hpk, He. rewrite (skip_name_agrees p _ _ Hck ltac:(lia)). cbn [bind].
    unfold skip_rdata, rri_rdlen, DNS_RR_RDLEN_OFFSET, DNS_RR_HEADER_SIZE.
    pose proof (proj2 (be16_at_u16 p (rv_name_end r' + 8) 404%N _) Hrl) as Hrl'. rewrite Hrl'. cbn [bind]. rewrite Nat2N.id.
    match goal with |- context [it_rr_type v ?it1] => set (it'' := it1) end.
    assert (Hty : it_rr_type v it'' = Ok (rv_type r')).
    { apply (it_rr_type_ok r' e1); [exact Hr'|reflexivity|reflexivity]. }
    rewrite Hty. cbn [bind].
    cbn [opt_ok] in Hok. unfold is_opt in Hok. rewrite E in Hok. destruct Hok as [_ Hok].
    destruct (rv_type r' =? TYPE_OPT)%N eqn:E'; [destruct Hok as [Hc' _]; discriminate|].
    unfold it'', it_on, rv_end. f_equal. f_equal. f_equal; cbn [length]; lia.
  Qed.
End Skip.

(** ** The skipping walk *)
Section SkipWalk.
  Variables (p : bytes) (v : ppacket).
  Hypothesis Hb : bytes_ok p.
  Hypothesis Hpk : pp_packet v = p.

  Lemma r_next_step sec it r e l e' seen :
    record_at p r e -> records_at p e l e' -> opt_ok seen (r :: l) -> (is_opt r = true -> sec = SAdditional) ->
    it_offset it <> None -> it_section it = sec -> it_offset_next it = rv_off r ->
    it_rrs_left it = N.of_nat (S (length l)) ->
    r_next v it = Ok (after_skip sec r e l).
  Proof.
    intros Hr Hl Hok Hsec Hlive Hs Hnext Hleft. unfold r_next.
    rewrite (next_on_record p v Hpk r e it (length l) Hr Hlive Hnext Hleft). cbn [bind]. rewrite Hs.
    apply (maybe_skip_spec p v Hpk sec r e l e' seen Hr Hl Hok Hsec).
  Qed.

  Lemma r_next_end it : it_offset it <> None -> it_rrs_left it = 0%N -> r_next v it = Ok None.
  Proof.
    intros Hlive Hleft. unfold r_next, r_next_including_opt.
    destruct (it_offset it); [|congruence]. cbn [bind]. rewrite Hleft. reflexivity.
  Qed.

  Lemma records_at_cons_inv r l off e : records_at p off (r :: l) e ->
    off = rv_off r /\ record_at p r (rv_end r) /\ records_at p (rv_end r) l e.
  Proof.
    intros H. inversion H as [|r1 e1 l1 e2 Hr Hrest]; subst.
    pose proof (record_at_end _ _ _ Hr) as (He & _). rewrite <- He. auto.
  Qed.

  Lemma opt_ok_tail_nonopt r l : opt_ok true (r :: l) -> is_opt r = false /\ opt_ok true l.
  Proof. cbn [opt_ok]. destruct (is_opt r); [intros [H _]; discriminate|auto]. Qed.

  Lemma walk_skip : forall n l, length l <= n -> forall off e seen sec r0 fuel acc,
    records_at p off l e -> opt_ok seen l -> (existsb is_opt l = true -> sec = SAdditional) ->
    record_at p r0 off -> length l < fuel ->
    walk_fold fuel (r_next v) (collect_view v) (Some (it_on sec r0 off (length l))) acc =
    Ok (acc ++ view_of p r0 :: map (view_of p) (filter non_opt l)).
  Proof.
    induction n as [|n IH]; intros l Hn off e seen sec r0 fuel acc Hl Hok Hsec Hr0 Hfuel;
      (destruct fuel as [|fuel]; [lia|]); cbn [walk_fold];
      rewrite (collect_view_ok p v Hb Hpk r0 off (it_on sec r0 off (length l)) acc Hr0 eq_refl eq_refl); cbn [bind].
    - destruct l; [|cbn in Hn; lia]. rewrite r_next_end by (cbn; congruence). cbn [bind filter map].
      rewrite walk_fold_None. reflexivity.
    - destruct l as [|r l1].
      + rewrite r_next_end by (cbn; congruence). cbn [bind filter map]. rewrite walk_fold_None. reflexivity.
      + destruct (records_at_cons_inv _ _ _ _ Hl) as (Hoff & Hr & Hl1).
        rewrite (r_next_step sec _ r (rv_end r) l1 e seen Hr Hl1 Hok); cbn [it_on it_offset it_section it_offset_next it_rrs_left];
          try congruence; try reflexivity.
        2:{ intros Ho. apply Hsec. cbn [existsb]. rewrite Ho. reflexivity. }
        cbn [bind]. unfold after_skip. cbn [filter]. unfold non_opt at 1.
        destruct (is_opt r) eqn:Eo; cbn [negb].
        * cbn [opt_ok] in Hok. rewrite Eo in Hok. destruct Hok as [_ Hok].
          destruct l1 as [|r' l2]; [cbn [filter map]; rewrite walk_fold_None; reflexivity|].
          destruct (records_at_cons_inv _ _ _ _ Hl1) as (Hoff' & Hr' & Hl2).
          destruct (opt_ok_tail_nonopt _ _ Hok) as [Eo' Hok2].
          rewrite (IH l2 ltac:(cbn [length] in Hn; lia) (rv_end r') e true sec r' fuel _ Hl2 Hok2); [| |exact Hr'|cbn [length] in Hfuel; lia].
          { cbn [filter]. unfold non_opt at 2. rewrite Eo'. cbn [negb map]. rewrite <- app_assoc. reflexivity. }
          { intros Ho. apply Hsec. cbn [existsb]. rewrite Eo. reflexivity. }
        * cbn [opt_ok] in Hok. rewrite Eo in Hok.
          rewrite (IH l1 ltac:(cbn [length] in Hn; lia) (rv_end r) e seen sec r fuel _ Hl1 Hok); [| |exact Hr|cbn [length] in Hfuel; lia].
          { cbn [map]. rewrite <- app_assoc. reflexivity. }
          { intros Ho. apply Hsec. cbn [existsb]. rewrite Ho. apply orb_true_r. }
  Qed.

  Lemma walk_views_skip_section sec off l e count :
    records_at p off l e -> e <= length p -> count = N.of_nat (length l) -> opt_ok false l ->
    (existsb is_opt l = true -> sec = SAdditional) ->
    (match sec with
     | SAnswer => hdr_ancount p = Ok count /\ pp_offset_answers v = (if (0 <? count)%N then Some off else None)
     | SNameServers => hdr_nscount p = Ok count /\ pp_offset_nameservers v = (if (0 <? count)%N then Some off else None)
     | SAdditional => hdr_arcount p = Ok count /\ pp_offset_additional v = (if (0 <? count)%N then Some off else None)
     | _ => False
     end) ->
    walk_views_skip v sec = Ok (map (view_of p) (filter non_opt l)).
  Proof.
    intros Hl Hend Hcount Hok Hsec Hhdr. unfold walk_views_skip, r_next at 1.
    pose proof (records_at_span _ _ _ _ Hl) as Hspan.
    destruct l as [|r l1].
    - cbn [length N.of_nat] in Hcount. rewrite Hcount in *.
      unfold r_next_including_opt. cbn [it_new it_offset it_section bind]. rewrite Hpk.
      destruct sec; try contradiction; destruct Hhdr as [Hh _]; rewrite Hh; cbn [bind N.eqb]; rewrite walk_fold_None; reflexivity.
    - destruct (records_at_cons_inv _ _ _ _ Hl) as (Hoff & Hr & Hl1).
      assert (Hpos : (0 <? count)%N = true) by (cbn [length] in Hcount; lia). rewrite Hpos in Hhdr.
      rewrite (first_on_record p v Hpk r (rv_end r) sec count (length l1) Hr) by (try (cbn [length] in Hcount; lia); rewrite <- Hoff; exact Hhdr).
      cbn [bind].
      change {| it_section := sec; it_offset := Some (rv_off r); it_offset_next := rv_end r; it_name_end := rv_name_end r;
                it_rrs_left := N.of_nat (length l1) |} with (it_on sec r (rv_end r) (length l1)).
      rewrite (maybe_skip_spec p v Hpk sec r (rv_end r) l1 e false Hr Hl1 Hok).
      2:{ intros Ho. apply Hsec. cbn [existsb]. rewrite Ho. reflexivity. }
      cbn [bind]. unfold after_skip. cbn [filter]. unfold non_opt at 1.
      assert (Hf : forall k, k <= length l1 -> k < walk_fuel (pp_packet v)).
      { intros k Hk. rewrite Hpk. unfold walk_fuel. cbn [length] in Hspan. lia. }
      destruct (is_opt r) eqn:Eo; cbn [negb].
      + cbn [opt_ok] in Hok. rewrite Eo in Hok. destruct Hok as [_ Hok].
        destruct l1 as [|r' l2]; [cbn [filter map]; rewrite walk_fold_None; reflexivity|].
        destruct (records_at_cons_inv _ _ _ _ Hl1) as (Hoff' & Hr' & Hl2).
        destruct (opt_ok_tail_nonopt _ _ Hok) as [Eo' Hok2].
        rewrite (walk_skip (length l2) l2 (le_n _) (rv_end r') e true sec r' _ [] Hl2 Hok2); [| |exact Hr'|apply Hf; cbn [length]; lia].
        { cbn [filter]. unfold non_opt at 2. rewrite Eo'. reflexivity. }
        { intros Ho. apply Hsec. cbn [existsb]. rewrite Eo. reflexivity. }
      + cbn [opt_ok] in Hok. rewrite Eo in Hok.
        rewrite (walk_skip (length l1) l1 (le_n _) (rv_end r) e false sec r _ [] Hl1 Hok); [| |exact Hr|apply Hf; lia].
        { reflexivity. }
        { intros Ho. apply Hsec. cbn [existsb]. rewrite Ho. apply orb_true_r. }
  Qed.
End SkipWalk.

Lemma filter_all {A} (f : A -> bool) l : forallb f l = true -> filter f l = l.
Proof.
  induction l as [|x l IH]; [reflexivity|]. cbn [forallb filter]. intros H. apply andb_true_iff in H.
  destruct H as [Hx Hl]. rewrite Hx, IH by exact Hl. reflexivity.
Qed.

Lemma existsb_is_opt_non l : forallb non_opt l = true -> existsb is_opt l = false.
Proof.
  induction l as [|x l IH]; [reflexivity|]. cbn [forallb existsb]. unfold non_opt at 1. intros H.
  apply andb_true_iff in H. destruct H as [Hx Hl]. rewrite IH by exact Hl. destruct (is_opt x); [discriminate|reflexivity].
Qed.

(** ** The whole object: both walks *)
Theorem walks_spec : forall p v, bytes_ok p -> parse p = Ok v ->
  exists an ns ar qe e1 e2 la ln lr,
    hdr_ancount p = Ok an /\ hdr_nscount p = Ok ns /\ hdr_arcount p = Ok ar /\ cname p 12 qe /\
    records_at p (qe + 4) la e1 /\ length la = N.to_nat an /\
    records_at p e1 ln e2 /\ length ln = N.to_nat ns /\
    records_at p e2 lr (length p) /\ length lr = N.to_nat ar /\
    forallb non_opt la = true /\ forallb non_opt ln = true /\ opt_ok false lr /\
    walk_views v SAnswer = Ok (map (view_of p) la) /\ walk_views_skip v SAnswer = Ok (map (view_of p) la) /\
    walk_views v SNameServers = Ok (map (view_of p) ln) /\ walk_views_skip v SNameServers = Ok (map (view_of p) ln) /\
    walk_views v SAdditional = Ok (map (view_of p) lr) /\
    walk_views_skip v SAdditional = Ok (map (view_of p) (filter non_opt lr)).
Proof.
  intros p v Hb Hp.
  destruct (parse_view p v Hb Hp) as (an & ns & ar & qe & e1 & s1 & e2 & s2 & s3 & Hpk & Hqn & Hq4 & Han & Hns & Har &
                                      Hlan & Hlns & Hlar & Hc1 & Hc2 & Hc3 & Hoan & Hons & Hoar).
  destruct (rrs_wf_records p _ _ _ _ _ _ Hc1) as (la & Hla & Hlla & Hoka & Hnoa & Hs1).
  destruct (rrs_wf_records p _ _ _ _ _ _ Hc2) as (ln & Hln & Hlln & Hokn & Hnon & Hs2).
  destruct (rrs_wf_records p _ _ _ _ _ _ Hc3) as (lr & Hlr & Hllr & Hokr & _ & _).
  specialize (Hnoa ltac:(discriminate)). specialize (Hnon ltac:(discriminate)).
  rewrite (existsb_is_opt_non _ Hnoa) in Hs1. cbn in Hs1. rewrite Hs1 in *.
  rewrite (existsb_is_opt_non _ Hnon) in Hs2. cbn in Hs2. rewrite Hs2 in *.
  pose proof (records_at_span _ _ _ _ Hlr) as Hsp3. pose proof (records_at_span _ _ _ _ Hln) as Hsp2.
  assert (Hca : an = N.of_nat (length la)) by lia. assert (Hcn : ns = N.of_nat (length ln)) by lia.
  assert (Hcr : ar = N.of_nat (length lr)) by lia.
  exists an, ns, ar, qe, e1, e2, la, ln, lr.
  split; [exact Han|]. split; [exact Hns|]. split; [exact Har|]. split; [exact Hqn|].
  split; [exact Hla|]. split; [exact Hlla|]. split; [exact Hln|]. split; [exact Hlln|].
  split; [exact Hlr|]. split; [exact Hllr|]. split; [exact Hnoa|]. split; [exact Hnon|]. split; [exact Hokr|].
  split; [apply (walk_views_section_recs p v Hb Hpk SAnswer _ la e1 an Hla ltac:(lia) Hca (conj Han Hoan))|].
  split.
  { rewrite <- (filter_all non_opt la Hnoa) at 1.
    apply (walk_views_skip_section p v Hb Hpk SAnswer _ la e1 an Hla ltac:(lia) Hca Hoka); [|exact (conj Han Hoan)].
    rewrite (existsb_is_opt_non _ Hnoa). discriminate. }
  split; [apply (walk_views_section_recs p v Hb Hpk SNameServers _ ln e2 ns Hln ltac:(lia) Hcn (conj Hns Hons))|].
  split.
  { rewrite <- (filter_all non_opt ln Hnon) at 1.
    apply (walk_views_skip_section p v Hb Hpk SNameServers _ ln e2 ns Hln ltac:(lia) Hcn Hokn); [|exact (conj Hns Hons)].
    rewrite (existsb_is_opt_non _ Hnon). discriminate. }
  split; [apply (walk_views_section_recs p v Hb Hpk SAdditional _ lr (length p) ar Hlr (le_n _) Hcr (conj Har Hoar))|].
  apply (walk_views_skip_section p v Hb Hpk SAdditional _ lr (length p) ar Hlr (le_n _) Hcr Hokr); [reflexivity|exact (conj Har Hoar)].
Qed.

(** ** The question cursor *)
Theorem question_cursor_spec : forall p v, bytes_ok p -> parse p = Ok v ->
  exists ls qe t c it,
    cname_l p 12 ls qe /\ u16_at p qe t /\ u16_at p (qe + 2) c /\
    q_next v (it_new SQuestion) = Ok (Some it) /\ it_offset it = Some 12 /\ it_name_end it = qe /\
    it_copy_raw_name v it = Ok (wire_of_labels ls, length (wire_of_labels ls)) /\
    it_name v it = Ok (ascii_lowercase (dotted ls)) /\
    it_rr_type v it = Ok t /\ it_rr_class v it = Ok c /\
    q_next v it = Ok None.
Proof.
  intros p v Hb Hp.
  destruct (parse_shape p v Hb Hp) as (sq & san & sns & sar & an & ns & ar & F).
  pose proof (pf_packet _ _ _ _ _ _ _ _ _ F) as Hpk. pose proof (pf_oq _ _ _ _ _ _ _ _ _ F) as Hoq.
  pose proof (pf_qd _ _ _ _ _ _ _ _ _ F) as Hqd.
  destruct (question_exists p v Hb Hp) as (ls & t & [(qe & Hcn & Ht & Hc & Hl)]).
  assert (Hck : check_compressed_name p 12 = Ok qe) by (apply check_compressed_name_iff; exists ls; exact Hcn).
  assert (Hlt : 12 < qe) by (destruct Hcn as [_ Hna]; apply name_at_end_gt in Hna; exact Hna).
  set (it := {| it_section := SQuestion; it_offset := Some 12; it_offset_next := qe + DNS_RR_QUESTION_HEADER_SIZE;
                it_name_end := qe; it_rrs_left := 1 - 1 |}).
  exists ls, qe, t, CLASS_IN, it.
  split; [exact Hcn|]. split; [exact Ht|]. split; [exact Hc|].
  split.
  { unfold q_next. cbn [it_new it_offset bind]. rewrite Hpk, Hqd. cbn [bind].
    replace (1 =? 0)%N with false by reflexivity. replace (negb (1 =? 1)%N) with false by reflexivity.
    rewrite Hoq. cbn [unwrap bind]. replace (1 =? 0)%N with false by reflexivity.
    rewrite (skip_name_agrees p _ _ Hck ltac:(lia)). reflexivity. }
  split; [reflexivity|]. split; [reflexivity|].
  split.
  { unfold it_copy_raw_name. cbn [it it_offset it_name_end unwrap bind]. destruct (qe <=? 12) eqn:E; [lia|]. rewrite Hpk.
    rewrite (copy_uncompressed_name_labels p Hb 12 ls qe [] Hcn). reflexivity. }
  split.
  { unfold it_name. cbn [it it_offset it_name_end unwrap bind]. destruct (qe <=? 12) eqn:E; [lia|]. rewrite Hpk.
    rewrite (raw_name_to_str_dotted p 12 ls qe Hb Hcn). reflexivity. }
  assert (Hrd16 : forall k site x, u16_at p (qe + k) x -> it_rd16 v it k site = Ok x).
  { intros k site x Hx. unfold it_rd16. cbn [it it_offset it_name_end unwrap bind]. rewrite Hpk.
    unfold slice_from. destruct (qe <=? length p) eqn:E2; [|lia]. cbn [bind]. apply be16_at_u16. exact Hx. }
  split; [unfold it_rr_type, DNS_RR_TYPE_OFFSET; apply Hrd16; rewrite Nat.add_0_r; exact Ht|].
  split; [unfold it_rr_class, DNS_RR_CLASS_OFFSET; apply Hrd16; exact Hc|].
  unfold q_next. cbn [it it_offset it_rrs_left bind N.sub N.eqb]. reflexivity.
Qed.
