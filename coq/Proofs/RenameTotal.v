(** * Histories that mix whole-packet renames with the cursor histories run to the end (C08, C10).

    [hop4_outcome]: from an object that is its own fresh parse ([objst]), every operation of the vocabulary of
    [RenameAny.v] that is applicable ([hop4_ok_at]) succeeds or reports an error - no [Panic] outcome of the model, i.e. no
    assertion, slice, subtraction or unwrap of the code fails - and in both cases leaves an object that is again its own fresh
    parse, the cursor as it was.  A failing step need not leave the object untouched: an insertion, or an owner-name change,
    that is refused after its decompress-first prologue leaves the decompressed form of the packet (that is what C10 says
    about it: the same message), which is why the statement is about [objst] and not about equality of states.
    [hops4_tol_total] lifts this over every history with failing steps tolerated. *)
From DV Require Import Model.Base Model.NameCheck Model.Parser Model.Header Model.Readers Model.Uncompress Model.Mutate Model.Compress Model.Renamer
  Spec.NameSpec Spec.PacketSpec Spec.RecordSpec Spec.PlainSpec Proofs.ListLemmas Proofs.Hoare Proofs.ParserInv Proofs.ParseSound
  Proofs.ParseComplete Proofs.NameIff Proofs.NameCheckTotal Proofs.ReadersAgree Proofs.ReadersLabels Proofs.HeaderBits Proofs.QuestionSpec
  Proofs.WalkValues Proofs.SetTtl Proofs.WalkSkip Proofs.UncompressSpec Proofs.PlainWf Proofs.InsertLemmas Proofs.EdnsFacts Proofs.EdnsPos
  Proofs.EdnsPlain Proofs.InsertSpec Proofs.HeaderInv Proofs.Chain Proofs.SetTtlInv Proofs.DeleteInv Proofs.SetNameInv Proofs.Totality
  Proofs.WalkInv Proofs.CursorHist Proofs.DecompressFirst Proofs.FreshHist Proofs.WalkFresh Proofs.RenameSpec Proofs.CompressContent
  Proofs.RenameContent Proofs.RenameAny.
From Coq Require Import ZifyBool ZifyNat ZifyN.

Definition settled (it : rrit) (s1 : st) : Prop := objst (fst s1) /\ snd s1 = it /\ is_response (pp_packet (fst s1)).

Definition ends_ok_or_err (r : res unit) : Prop := r = Ok tt \/ exists e, r = Err e.

(** the insertion on a packet as the parser returned it is the insertion on its decompressed form *)
Lemma insert_after_prologue p v it sec rr dv : bytes_ok p -> parse p = Ok v ->
  insert_prologue (v, it) = ((dv, it), Ok tt) -> dinv dv -> m_insert_rr sec rr (v, it) = m_insert_rr sec rr (dv, it).
Proof.
  intros Hb Hp Hpro Hd. unfold m_insert_rr. unfold cbind at 1. rewrite Hpro.
  unfold cbind at 1. unfold insert_prologue at 1. unfold cbind, getv, cret. cbn [fst snd]. rewrite (di_mc _ Hd). reflexivity.
Qed.

(** ** One operation that decompresses first, on a packet as the parser returned it *)
Lemma first_hop3_outcome : forall p v it o, bytes_ok p -> parse p = Ok v -> is_response p -> it_section it <> SQuestion ->
  decompresses_first o -> hop3_ok_at v o ->
  exists s1 r, run_hop3 o (v, it) = (s1, r) /\ ends_ok_or_err r /\ settled it s1.
Proof.
  intros p v it o Hb Hp Hr Hsq Hkind Hok.
  assert (Hpk : pp_packet v = p).
  { destruct (parse_view_pos p v Hb Hp) as (? & ? & ? & ? & ? & ? & ? & ? & ? & H & _). exact H. }
  assert (Hfin : forall s1, run_hop3 o (v, it) = (s1, Ok tt) -> exists s1 r, run_hop3 o (v, it) = (s1, r) /\ ends_ok_or_err r /\ settled it s1).
  { intros s1 E. exists s1, (Ok tt). split; [exact E|]. split; [left; reflexivity|].
    destruct (fresh_history3_any_first p v it o [] s1 s1 Hb Hp Hr Hsq Hkind Hok E I eq_refl) as (Hd' & Hit & Hr').
    split; [left; exact Hd'|]. split; assumption. }
  destruct Hkind as [->|[(sec & rx & ->)|[(off & ->)|(off & nm & ->)]]].
  - (* recompute *)
    destruct (recompute_fresh p v it Hb Hp) as (q & v' & Hu & Hp' & Hpk' & Hrc). apply (Hfin _ Hrc).
  - (* insertion *)
    destruct (prologue_dinv p v it Hb Hp) as (dv & Hpro & Hd & Hrd).
    cbn [run_hop3 run_hop2 hop3_ok_at] in *. rewrite (insert_after_prologue p v it sec (plain_record rx) dv Hb Hp Hpro Hd) in *.
    destruct (hop3_outcome (H3Base (H2Insert sec rx)) dv it Hd (Hrd Hr) Hsq Hok) as [(s1 & E)|(e & E)]; cbn [run_hop3 run_hop2] in E.
    + destruct (hop3_keeps_dinv (H3Base (H2Insert sec rx)) dv it s1 Hd (Hrd Hr) Hsq Hok E) as (Hd1 & Hit1 & Hr1).
      exists s1, (Ok tt). split; [exact E|]. split; [left; reflexivity|]. split; [left; exact Hd1|]. split; assumption.
    + exists (dv, it), (Err e). split; [exact E|]. split; [right; eauto|]. split; [left; exact Hd|]. split; [reflexivity|exact (Hrd Hr)].
  - (* deletion through a cursor *)
    cbn [run_hop3 hop3_ok_at] in *. pose proof Hok as Hok0. destruct Hok as (qls & qt & lA & lN & lR & r & x & Rd & Hin & Hno & <-). rewrite Hpk in Rd.
    destruct (reading_record_in _ _ _ _ _ _ Rd r x Hin) as (_ & e & Hrec).
    assert (exists s1, with_cursor (rv_off r) m_delete (v, it) = (s1, Ok tt)) as (s1 & E); [|exact (Hfin s1 E)].
    rewrite (with_cursor_on v it r e _ ltac:(rewrite Hpk; exact Hb) ltac:(rewrite Hpk; exact Hrec) Hsq).
    match goal with |- context [m_delete (v, ?c)] => set (cur := c) in * end.
    destruct (located_after_decompress p v cur qls qt lA lN lR r x Hb Hp Rd Hin Hsq eq_refl eq_refl)
      as (dv & it' & lA' & lN' & lR' & r' & sec & Hdec & Hd & Hresp & Rd' & Hin' & Eo' & En' & Enx' & _ & Ety & Hsec & His & His').
    rewrite (delete_fresh_is_delete_after_decompress_gen p v qls qt lA lN lR sec r x cur dv it' r' Hb Hp Rd Hsec His eq_refl eq_refl Hdec Eo' En' Hd
               qls qt lA' lN' lR' Rd' His' Ety).
    assert (Hno' : is_opt r' = false) by (unfold is_opt in *; rewrite Ety; exact Hno).
    destruct (delete_total dv it' qls qt lA' lN' lR' r' x Hd Rd' Hin' Hno' Eo' En' Enx') as (s2 & ->). eauto.
  - (* owner-name change through a cursor *)
    cbn [run_hop3 hop3_ok_at] in *. pose proof Hok as Hok0. destruct Hok as ((qls & qt & lA & lN & lR & r & x & Rd & Hin & Hno & <-) & Hbn). rewrite Hpk in Rd.
    destruct (reading_record_in _ _ _ _ _ _ Rd r x Hin) as (_ & e & Hrec).
    pose proof (with_cursor_on v it r e (m_set_raw_name nm) ltac:(rewrite Hpk; exact Hb) ltac:(rewrite Hpk; exact Hrec) Hsq) as Ewc.
    match type of Ewc with context [m_set_raw_name nm (v, ?c)] => set (cur := c) in * end.
    destruct (check_compressed_name nm 0) as [n0|e0|x0] eqn:Hck.
    + destruct (located_after_decompress p v cur qls qt lA lN lR r x Hb Hp Rd Hin Hsq eq_refl eq_refl)
        as (dv & it' & lA' & lN' & lR' & r' & sec & Hdec & Hd & Hresp & Rd' & Hin' & Eo' & En' & Enx' & Esec' & Ety & Hsec & His & His').
      rewrite (set_name_fresh_is_set_name_after_decompress nm n0 v cur dv it' (rv_off r) (parse_maybe_compressed p v Hp) (di_mc _ Hd) eq_refl Hck Hdec) in Ewc.
      assert (Hno' : is_opt r' = false) by (unfold is_opt in *; rewrite Ety; exact Hno).
      assert (Hsq' : it_section it' <> SQuestion) by (rewrite Esec'; exact Hsq).
      destruct (set_raw_name_outcome nm dv it' qls qt lA' lN' lR' r' x Hd Hbn Rd' Hin' Hno' Eo' En' Enx' Hsq') as [(s2 & E2)|(e2 & E2)]; rewrite E2 in Ewc.
      * exact (Hfin _ Ewc).
      * cbn [fst] in Ewc. exists (dv, it), (Err e2). split; [exact Ewc|]. split; [right; eauto|]. split; [left; exact Hd|]. split; [reflexivity|exact (Hresp Hr)].
    + rewrite (set_raw_name_invalid nm (v, cur) e0 Hck) in Ewc. cbn [fst] in Ewc.
      exists (v, it), (Err e0). split; [exact Ewc|]. split; [right; eauto|]. unfold settled. cbn [fst snd]. split; [right; rewrite Hpk; split; assumption|]. split; [reflexivity|rewrite Hpk; exact Hr].
    + exfalso. pose proof (check_compressed_name_total nm 0) as Hnp. rewrite Hck in Hnp. exact Hnp.
Qed.

(** ** One operation of the rename histories from any object that is its own fresh parse *)
Theorem hop4_outcome : forall o v it, objst v -> is_response (pp_packet v) -> it_section it <> SQuestion -> hop4_ok_at v o ->
  exists s1 r, run_hop4 o (v, it) = (s1, r) /\ ends_ok_or_err r /\ settled it s1.
Proof.
  intros o v it Hst Hr Hsq Hok.
  assert (Hself : forall e, settled it (v, it) /\ ends_ok_or_err (Err e)).
  { intros e. split; [split; [exact Hst|split; [reflexivity|exact Hr]]|right; eauto]. }
  assert (Hfin : forall s1, run_hop4 o (v, it) = (s1, Ok tt) -> exists s1 r, run_hop4 o (v, it) = (s1, r) /\ ends_ok_or_err r /\ settled it s1).
  { intros s1 E. exists s1, (Ok tt). split; [exact E|]. split; [left; reflexivity|]. exact (hop4_keeps_objst o v it s1 Hst Hr Hsq Hok E). }
  destruct o as [tl sl sfx|o]; cbn [run_hop4 hop4_ok_at] in *.
  - destruct Hok as (Hsl & Htl & Hsl0 & Htl0 & Htb & Hls & Hlt). destruct Hst as [Hd|[Hb Hp]].
    + destruct (rename_total_dinv v it sl tl sfx Hd Hsl Htl Hsl0 Htl0 Htb Hls Hlt) as [(s' & E)|(e & E)]; [exact (Hfin _ E)|].
      exists (v, it), (Err e). split; [exact E|]. destruct (Hself e) as [A B]. split; assumption.
    + destruct (rename_total (pp_packet v) v it sl tl sfx Hb Hp Hsl Htl Hsl0 Htl0 Htb Hls Hlt) as [(s' & E)|(e & E)]; [exact (Hfin _ E)|].
      exists (v, it), (Err e). split; [exact E|]. destruct (Hself e) as [A B]. split; assumption.
  - destruct Hok as [Hok3 Hkind].
    assert (Hdcase : dinv v -> exists s1 r, run_hop3 o (v, it) = (s1, r) /\ ends_ok_or_err r /\ settled it s1).
    { intros Hd. destruct (hop3_outcome o v it Hd Hr Hsq Hok3) as [(s1 & E)|(e & E)]; [exact (Hfin _ E)|].
      exists (v, it), (Err e). split; [exact E|]. destruct (Hself e) as [A B]. split; assumption. }
    destruct Hst as [Hd|[Hb Hp]]; [exact (Hdcase Hd)|]. destruct Hkind as [Hd|Hk]; [exact (Hdcase Hd)|].
    exact (first_hop3_outcome (pp_packet v) v it o Hb Hp Hr Hsq Hk Hok3).
Qed.

(** ** Histories with failing steps tolerated *)
Fixpoint run_hops4_tol (ops : list hop4) (s : st) : st * res unit :=
  match ops with
  | [] => (s, Ok tt)
  | o :: ops' => match run_hop4 o s with (s1, Ok _) => run_hops4_tol ops' s1 | (s1, Err _) => run_hops4_tol ops' s1 | (s1, Panic x) => (s1, Panic x) end
  end.

Fixpoint ok_along4_tol (ops : list hop4) (s : st) : Prop :=
  match ops with
  | [] => True
  | o :: ops' => hop4_ok_at (fst s) o /\ match run_hop4 o s with (s1, Ok _) => ok_along4_tol ops' s1 | (s1, Err _) => ok_along4_tol ops' s1 | _ => True end
  end.

Theorem hops4_tol_total : forall ops v it, objst v -> is_response (pp_packet v) -> it_section it <> SQuestion -> ok_along4_tol ops (v, it) ->
  exists s', run_hops4_tol ops (v, it) = (s', Ok tt) /\ objst (fst s') /\ snd s' = it /\ is_response (pp_packet (fst s')).
Proof.
  induction ops as [|o ops IH]; intros v it Hst Hr Hsq Hal; cbn [run_hops4_tol].
  - exists (v, it). auto.
  - cbn [ok_along4_tol fst] in Hal. destruct Hal as [Hok Hrest].
    destruct (hop4_outcome o v it Hst Hr Hsq Hok) as (s1 & r & E & Hres & (Hst1 & Hit1 & Hr1)). rewrite E in Hrest |- *.
    destruct s1 as [v1 it1]. cbn [fst snd] in *. subst it1.
    destruct Hres as [->|(e & ->)]; exact (IH v1 it Hst1 Hr1 Hsq Hrest).
Qed.

Theorem parsed_history4_total : forall p v it ops, bytes_ok p -> parse p = Ok v -> is_response p -> it_section it <> SQuestion ->
  ok_along4_tol ops (v, it) ->
  exists s', run_hops4_tol ops (v, it) = (s', Ok tt) /\ objst (fst s') /\ snd s' = it /\ is_response (pp_packet (fst s')).
Proof.
  intros p v it ops Hb Hp Hr Hsq Hal.
  assert (Hpk : pp_packet v = p) by (destruct (parse_shape p v Hb Hp) as (? & ? & ? & ? & ? & ? & ? & F); exact (pf_packet _ _ _ _ _ _ _ _ _ F)).
  apply (hops4_tol_total ops v it); try assumption; [right; rewrite Hpk; split; assumption|rewrite Hpk; exact Hr].
Qed.
