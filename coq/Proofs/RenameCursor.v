(** * The cursor after an owner-name change (C08): it still designates that record, and advancing it yields the record that followed. *)

From DV Require Import Model.Base Model.NameCheck Model.Parser Model.Header Model.Readers Model.Uncompress Model.Mutate
  Spec.NameSpec Spec.PacketSpec Spec.RecordSpec Spec.PlainSpec Proofs.ListLemmas Proofs.Hoare Proofs.ParserInv Proofs.ParseSound
  Proofs.ParseComplete Proofs.NameIff Proofs.NameCheckTotal Proofs.ReadersAgree Proofs.ReadersLabels Proofs.HeaderBits Proofs.QuestionSpec
  Proofs.WalkValues Proofs.SetTtl Proofs.WalkSkip Proofs.UncompressSpec Proofs.PlainWf Proofs.InsertLemmas Proofs.EdnsFacts Proofs.EdnsPos
  Proofs.EdnsPlain Proofs.InsertSpec Proofs.HeaderInv Proofs.Chain Proofs.SetTtlInv Proofs.DeleteInv Proofs.SetNameInv Proofs.Totality
  Proofs.WalkInv Proofs.CursorHist Proofs.DecompressFirst Proofs.RenameSpec Proofs.CompressSize.
From Coq Require Import ZifyBool ZifyNat ZifyN.

Lemma recompute_rr_ok v1 it1 s' : m_recompute_rr (v1, it1) = (s', Ok tt) ->
  exists off ne onext, it_offset it1 = Some off /\ skip_name (pp_packet v1) off = Ok ne /\
    (it_section it1 <> SQuestion -> skip_rdata (pp_packet v1) ne = Ok onext) /\
    s' = (v1, it_set it1 (Some off) onext ne).
Proof.
  unfold m_recompute_rr, cbind, getv, getit, clift, putit. cbn [fst snd]. intros H.
  destruct (it_offset it1) as [off|] eqn:Eo; cbn [unwrap] in H; [|inversion H].
  destruct (skip_name (pp_packet v1) off) as [ne| |] eqn:En; try (inversion H; fail).
  destruct (section_eqb (it_section it1) SQuestion) eqn:Eq.
  - inversion H. exists off, ne, (ne + DNS_RR_QUESTION_HEADER_SIZE). split; [reflexivity|]. split; [exact En|]. split; [|reflexivity].
    intros Hq. destruct (it_section it1); try discriminate. congruence.
  - destruct (skip_rdata (pp_packet v1) ne) as [onext| |] eqn:Er; try (inversion H; fail). inversion H.
    exists off, ne, onext. split; [reflexivity|]. split; [exact En|]. split; [intros _; exact Er|reflexivity].
Qed.

(** the cursor's section, remaining count and offset are not touched before the final recompute *)
Lemma set_name_pre_cursor nm v it s1 : pp_maybe_compressed v = false -> set_name_k nm (cret tt) (v, it) = (s1, Ok tt) ->
  it_section (snd s1) = it_section it /\ it_rrs_left (snd s1) = it_rrs_left it /\ it_offset (snd s1) = it_offset it.
Proof.
  intros Hmc H. unfold set_name_k, m_resize_rr, m_set_offset_next, cbind, getv, getit, clift, putv, putit, cret in H. cbn [fst snd] in H.
  rewrite Hmc in H.
  repeat match type of H with
         | context [match ?x with _ => _ end] =>
           match x with
           | context [match _ with _ => _ end] => fail 1
           | _ => destruct x eqn:?; cbn [fst snd] in H
           end
         end; try (inversion H; fail); inversion H; subst; cbn [snd it_set it_section it_rrs_left it_offset]; repeat split; try reflexivity; try congruence.
Qed.

Theorem rename_keeps_cursor_full : forall nm v sec l1 r x l2 n s' qls qt lA lN lR,
  dinv v -> bytes_ok nm -> reading (pp_packet v) qls qt lA lN lR -> sec = SAnswer \/ sec = SNameServers \/ sec = SAdditional ->
  sec_list sec lA lN lR = l1 ++ (r, x) :: l2 -> is_opt r = false ->
  m_set_raw_name nm (v, cur_on sec r n) = (s', Ok tt) ->
  exists lA' lN' lR' l1' r' l2' ls,
    dinv (fst s') /\ reading (pp_packet (fst s')) qls qt lA' lN' lR' /\ sec_list sec lA' lN' lR' = l1' ++ (r', x) :: l2' /\
    map unpl l1' = map unpl l1 /\ map unpl l2' = map unpl l2 /\ unpl (r', x) = unpl (with_labels (r, x) ls) /\ name_ok ls /\ (exists n0, check_compressed_name nm 0 = Ok n0 /\ firstn n0 nm = wire_of_labels ls) /\
    rv_off r' = rv_off r /\ snd s' = cur_on sec r' n.
Proof.
  intros nm v sec l1 r x l2 n s' qls qt lA lN lR Hd Hbnm Rd Hsec El Hno Hrun.
  assert (Hin : In (r, x) (lA ++ lN ++ lR)).
  { assert (Hi : In (r, x) (sec_list sec lA lN lR)) by (rewrite El; apply in_or_app; right; left; reflexivity).
    destruct Hsec as [->|[->| ->]]; cbn [sec_list] in Hi; repeat (apply in_or_app; first [left; exact Hi|right]); exact Hi. }
  destruct (set_raw_name_keeps_dinv nm v (cur_on sec r n) s' qls qt lA lN lR r x Hd Hbnm Rd Hin Hno eq_refl eq_refl Hrun)
    as (Hd' & n0 & ls & A & Nn & R & A' & Nn' & R' & X1 & r0 & X2 & Hrest).
  cbv zeta in Hrest. destruct Hrest as (Hck & Hseg & Hls & EA & EN & ER & Rd' & EX & EX' & Er & LA' & LN' & LR' & _).
  set (o1 := 12 + length (wire_of_labels qls) + 4) in *.
  (* the old and the new whole lists, placed *)
  assert (Hold : lA ++ lN ++ lR = place o1 X1 ++ (r, x) :: place (o1 + length (cat X1) + length (plain_record (r0, x))) X2).
  { rewrite EA, EN, ER, place3, EX, place_split, Er. reflexivity. }
  set (r' := rv_at (rv_with_labels r0 ls) x (o1 + length (cat X1))).
  assert (Hnew : place o1 A' ++ place (o1 + length (cat A')) Nn' ++ place (o1 + length (cat A') + length (cat Nn')) R' =
                 place o1 X1 ++ (r', x) :: place (o1 + length (cat X1) + length (plain_record (with_labels (r0, x) ls))) X2).
  { rewrite place3, EX', place_split. reflexivity. }
  destruct (sec_concat_split sec lA lN lR l1 (r, x) l2 Hsec El) as (L1 & L2 & EL & LL1).
  (* the two splittings of the old list coincide *)
  assert (HL1 : length L1 = length (place o1 X1)).
  { rewrite EL in Hold.
    destruct (Nat.lt_trichotomy (length L1) (length (place o1 X1))) as [Hlt|[Heq|Hgt]]; [exfalso|exact Heq|exfalso].
    - assert (Hn : nth_error (place o1 X1) (length L1) = Some (r, x)).
      { rewrite <- (nth_error_app1 _ ((r, x) :: place (o1 + length (cat X1) + length (plain_record (r0, x))) X2)) by exact Hlt.
        rewrite <- Hold. rewrite nth_error_app2, Nat.sub_diag by lia. reflexivity. }
      destruct (nth_error_split_at _ _ _ Hn) as (pa & pb & Epl & _).
      destruct (place_split_at pa X1 o1 r x pb Epl) as (Y1 & y0 & Y2 & EY & _ & _ & Ery).
      apply (f_equal rv_off) in Ery. rewrite Er in Ery. cbn [rv_at rv_off] in Ery.
      rewrite EY, cat_app, cat_cons, !app_length, plain_record_length in Ery. lia.
    - assert (Hn : nth_error L1 (length (place o1 X1)) = Some (r, x)).
      { rewrite <- (nth_error_app1 _ ((r, x) :: L2)) by exact Hgt. rewrite Hold. rewrite nth_error_app2, Nat.sub_diag by lia. reflexivity. }
      destruct (nth_error_split_at _ _ _ Hn) as (pa & pb & Epl & Lpa).
      assert (Hw : place o1 (A ++ Nn ++ R) = pa ++ (r, x) :: (pb ++ (r, x) :: L2)).
      { rewrite <- place3, <- EA, <- EN, <- ER, EL, Epl, <- app_assoc. reflexivity. }
      destruct (place_split_at pa _ o1 r x _ Hw) as (Y1 & y0 & Y2 & EY & _ & Erest & Ery).
      symmetry in Erest. destruct (place_split_at pb Y2 _ r x L2 Erest) as (Z1 & z0 & Z2 & _ & _ & _ & Erz).
      apply (f_equal rv_off) in Ery. apply (f_equal rv_off) in Erz. cbn [rv_at rv_off] in Ery, Erz.
      rewrite plain_record_length in Erz. lia. }
  rewrite EL in Hold. destruct (app_split_len _ _ _ _ Hold HL1) as (EL1 & Et). destruct (cons_inj _ _ _ _ Et) as [_ EL2].
  (* the section list of the new reading *)
  assert (Hk : length l1 < length (sec_list sec (place o1 A') (place (o1 + length (cat A')) Nn') (place (o1 + length (cat A') + length (cat Nn')) R'))).
  { assert (Hl : length (sec_list sec (place o1 A') (place (o1 + length (cat A')) Nn') (place (o1 + length (cat A') + length (cat Nn')) R')) = length (sec_list sec lA lN lR)).
    { destruct Hsec as [->|[->| ->]]; cbn [sec_list]; rewrite place_length; [rewrite LA', EA|rewrite LN', EN|rewrite LR', ER]; rewrite place_length; reflexivity. }
    rewrite Hl, El, app_length. cbn [length]. lia. }
  destruct (sec_of_concat_split sec _ _ _ (place o1 X1) (r', x) _ (length l1) Hsec Hnew) as (l1' & l2' & El' & Ll1'); [|exact Hk|].
  { rewrite <- HL1, LL1, !place_length, LA', LN', EA, EN, !place_length. reflexivity. }
  (* the records around it are the same *)
  assert (Hu : map unpl (sec_list sec (place o1 A') (place (o1 + length (cat A')) Nn') (place (o1 + length (cat A') + length (cat Nn')) R')) =
               map unpl l1 ++ unpl (r', x) :: map unpl l2).
  { assert (Hwhole : map unpl (place o1 A' ++ place (o1 + length (cat A')) Nn' ++ place (o1 + length (cat A') + length (cat Nn')) R') =
                     map unpl L1 ++ unpl (r', x) :: map unpl L2).
    { rewrite Hnew, map_app. cbn [map]. rewrite !unpl_place, EL1, EL2, !unpl_place. reflexivity. }
    assert (Hwhole0 : map unpl (lA ++ lN ++ lR) = map unpl L1 ++ unpl (r, x) :: map unpl L2) by (rewrite EL, map_app; reflexivity).
    (* project on the section *)
    rewrite !map_app in Hwhole, Hwhole0.
    assert (LAp : length (map unpl (place o1 A')) = length (map unpl lA)) by (rewrite !map_length, place_length, LA', EA, place_length; reflexivity).
    assert (LNp : length (map unpl (place (o1 + length (cat A')) Nn')) = length (map unpl lN)) by (rewrite !map_length, place_length, LN', EN, place_length; reflexivity).
    destruct Hsec as [->|[->| ->]]; cbn [sec_list] in *.
    - (* answers: L1 = l1 *)
      rewrite El in EL. destruct (app_split_len l1 L1 _ _ ltac:(rewrite <- app_assoc in EL; cbn [app] in EL; exact EL) ltac:(lia)) as (E1 & E2).
      destruct (cons_inj _ _ _ _ E2) as [_ E3]. clear Hwhole0 HL1 LL1 Hold EL. subst L1.
      rewrite <- E3, !map_app in Hwhole. rewrite <- E1 in Hwhole. rewrite El in LAp.
      assert (Hs : map unpl (place o1 A') = map unpl l1 ++ unpl (r', x) :: map unpl l2).
      { replace (map unpl l1 ++ unpl (r', x) :: map unpl l2 ++ map unpl lN ++ map unpl lR) with ((map unpl l1 ++ unpl (r', x) :: map unpl l2) ++ map unpl lN ++ map unpl lR) in Hwhole by (rewrite <- app_assoc; reflexivity).
        apply (app_split_len _ _ _ _ Hwhole). rewrite LAp, map_length, !app_length. cbn [length]. rewrite !map_length. lia. }
      exact Hs.
    - rewrite El in EL.
      assert (E1 : L1 = lA ++ l1 /\ L2 = l2 ++ lR).
      { replace (lA ++ (l1 ++ (r, x) :: l2) ++ lR) with ((lA ++ l1) ++ (r, x) :: l2 ++ lR) in EL by (rewrite <- !app_assoc; reflexivity).
        destruct (app_split_len (lA ++ l1) L1 _ _ EL ltac:(rewrite app_length; lia)) as (E1 & E2). destruct (cons_inj _ _ _ _ E2) as [_ E3]. split; symmetry; assumption. }
      destruct E1 as [-> ->]. rewrite !map_app in Hwhole.
      replace ((map unpl lA ++ map unpl l1) ++ unpl (r', x) :: map unpl l2 ++ map unpl lR) with (map unpl lA ++ (map unpl l1 ++ unpl (r', x) :: map unpl l2) ++ map unpl lR) in Hwhole by (rewrite <- !app_assoc; reflexivity).
      destruct (app_split_len _ _ _ _ Hwhole LAp) as (_ & H2).
      apply (app_split_len _ _ _ _ H2). rewrite LNp, El, !map_length, !app_length. cbn [length]. rewrite !map_length. lia.
    - rewrite El in EL.
      assert (E1 : L1 = lA ++ lN ++ l1 /\ L2 = l2).
      { replace (lA ++ lN ++ l1 ++ (r, x) :: l2) with ((lA ++ lN ++ l1) ++ (r, x) :: l2) in EL by (rewrite <- !app_assoc; reflexivity).
        destruct (app_split_len (lA ++ lN ++ l1) L1 _ _ EL ltac:(rewrite !app_length; lia)) as (E1 & E2). destruct (cons_inj _ _ _ _ E2) as [_ E3]. split; symmetry; assumption. }
      destruct E1 as [-> ->]. rewrite !map_app in Hwhole.
      replace ((map unpl lA ++ map unpl lN ++ map unpl l1) ++ unpl (r', x) :: map unpl l2) with (map unpl lA ++ map unpl lN ++ (map unpl l1 ++ unpl (r', x) :: map unpl l2)) in Hwhole by (rewrite <- !app_assoc; reflexivity).
      destruct (app_split_len _ _ _ _ Hwhole LAp) as (_ & H2). destruct (app_split_len _ _ _ _ H2 LNp) as (_ & H3). exact H3. }
  rewrite El', map_app in Hu. cbn [map] in Hu.
  destruct (app_split_len _ _ _ _ Hu ltac:(rewrite !map_length; exact Ll1')) as (U1 & Ut). destruct (cons_inj _ _ _ _ Ut) as [_ U2].
  (* the cursor *)
  rewrite set_raw_name_is_k, set_name_k_split in Hrun.
  destruct (set_name_k nm (cret tt) (v, cur_on sec r n)) as [s1 [u| |]] eqn:Epre; try (inversion Hrun; fail). destruct u.
  destruct (set_name_pre_cursor nm v _ s1 (di_mc _ Hd) Epre) as (Hs1 & Hl1 & Ho1). cbn [cur_on it_section it_rrs_left it_offset] in Hs1, Hl1, Ho1.
  destruct s1 as [v1 it1]. destruct (recompute_rr_ok v1 it1 s' Hrun) as (off & ne & onext & Eoff & Esk & Erd & Es'). cbn [snd] in Hs1, Hl1, Ho1.
  subst s'. cbn [fst snd] in *.
  rewrite Ho1 in Eoff. injection Eoff as <-.
  assert (Hin' : In (r', x) (place o1 A' ++ place (o1 + length (cat A')) Nn' ++ place (o1 + length (cat A') + length (cat Nn')) R')).
  { rewrite Hnew. apply in_or_app. right. left. reflexivity. }
  destruct (reading_record_in _ _ _ _ _ _ Rd' r' x Hin') as (_ & e' & Hrec').
  destruct (next_from (pp_packet v1) r' e' (di_bytes _ Hd') Hrec') as (E1 & E2 & _).
  assert (Eor : rv_off r' = rv_off r) by (rewrite Er; reflexivity).
  assert (Ene : rv_name_end r' = ne).
  { assert (Hq : @Ok nat (rv_name_end r') = Ok ne) by (rewrite <- E1, Eor; exact Esk). injection Hq as Hq. exact Hq. }
  specialize (Erd ltac:(rewrite Hs1; destruct Hsec as [->|[->| ->]]; discriminate)).
  assert (Eon : rv_name_end r' + 10 + rv_rdlen r' = onext).
  { assert (Hq : @Ok nat (rv_name_end r' + 10 + rv_rdlen r') = Ok onext) by (rewrite <- E2, Ene; exact Erd). injection Hq as Hq. exact Hq. }
  exists (place o1 A'), (place (o1 + length (cat A')) Nn'), (place (o1 + length (cat A') + length (cat Nn')) R'), l1', r', l2', ls.
  split; [exact Hd'|]. split; [exact Rd'|]. split; [exact El'|]. split; [exact U1|]. split; [exact U2|].
  split; [unfold r', unpl, with_labels; cbn [fst snd]; rewrite Er; reflexivity|]. split; [exact Hls|]. split; [exists n0; split; [exact Hck|exact Hseg]|]. split; [exact Eor|].
  unfold it_set, cur_on. rewrite Hs1, Hl1, Eor, <- Eon, <- Ene. reflexivity.
Qed.

Theorem rename_keeps_cursor : forall nm v sec l1 r x l2 n s' qls qt lA lN lR,
  dinv v -> bytes_ok nm -> reading (pp_packet v) qls qt lA lN lR -> sec = SAnswer \/ sec = SNameServers \/ sec = SAdditional ->
  sec_list sec lA lN lR = l1 ++ (r, x) :: l2 -> is_opt r = false ->
  m_set_raw_name nm (v, cur_on sec r n) = (s', Ok tt) ->
  exists lA' lN' lR' l1' r' l2' ls,
    dinv (fst s') /\ reading (pp_packet (fst s')) qls qt lA' lN' lR' /\ sec_list sec lA' lN' lR' = l1' ++ (r', x) :: l2' /\
    map unpl l1' = map unpl l1 /\ map unpl l2' = map unpl l2 /\ unpl (r', x) = unpl (with_labels (r, x) ls) /\ name_ok ls /\
    rv_off r' = rv_off r /\ snd s' = cur_on sec r' n.
Proof.
  intros nm v sec l1 r x l2 n s' qls qt lA lN lR Hd Hbnm Rd Hsec El Hno Hrun.
  destruct (rename_keeps_cursor_full nm v sec l1 r x l2 n s' qls qt lA lN lR Hd Hbnm Rd Hsec El Hno Hrun)
    as (lA' & lN' & lR' & l1' & r' & l2' & ls & H1 & H2 & H3 & H4 & H5 & H6 & H7 & _ & H8 & H9).
  exists lA', lN', lR', l1', r', l2', ls. auto 10.
Qed.


(** Advancing the cursor that made the change yields the record that followed the renamed one (the same record,
    possibly at a shifted position), or the end of the section when it was the last. *)
Theorem rename_then_next : forall nm v sec l1 r x l2 s' qls qt lA lN lR,
  dinv v -> bytes_ok nm -> reading (pp_packet v) qls qt lA lN lR -> sec = SAnswer \/ sec = SNameServers \/ sec = SAdditional ->
  sec_list sec lA lN lR = l1 ++ (r, x) :: l2 -> is_opt r = false ->
  m_set_raw_name nm (v, cur_on sec r (length l2)) = (s', Ok tt) ->
  exists lA' lN' lR' l1' r' l2',
    reading (pp_packet (fst s')) qls qt lA' lN' lR' /\ sec_list sec lA' lN' lR' = l1' ++ (r', x) :: l2' /\
    map unpl l1' = map unpl l1 /\ map unpl l2' = map unpl l2 /\
    r_next_including_opt (fst s') (snd s') =
      Ok (match l2' with [] => None | rx2 :: l3 => Some (cur_on sec (fst rx2) (length l3)) end).
Proof.
  intros nm v sec l1 r x l2 s' qls qt lA lN lR Hd Hbnm Rd Hsec El Hno Hrun.
  destruct (rename_keeps_cursor nm v sec l1 r x l2 (length l2) s' qls qt lA lN lR Hd Hbnm Rd Hsec El Hno Hrun)
    as (lA' & lN' & lR' & l1' & r' & l2' & ls & Hd' & Rd' & El' & U1 & U2 & _ & _ & _ & Ecur).
  exists lA', lN', lR', l1', r', l2'. repeat (split; [assumption|]).
  rewrite Ecur. assert (Hl : length l2 = length l2') by (rewrite <- (map_length unpl l2), <- U2, map_length; reflexivity).
  rewrite Hl. exact (next_advance (fst s') qls qt lA' lN' lR' sec l1' (r', x) l2' Hd' Rd' Hsec El').
Qed.

(** ** Reading the name back (C14): a record given the wire name of the labels [ls] through [set_raw_name] reads back, through
    the same cursor, as those labels - raw, and as lower-cased dotted text *)
Lemma wire_prefix_inj : forall a b n, Forall (fun l : bytes => l <> []) a -> Forall (fun l : bytes => l <> []) b ->
  firstn n (wire_of_labels a) = wire_of_labels b -> a = b.
Proof.
  induction a as [|l a IH]; intros b n Ha Hbn H.
  - destruct b as [|m b]; [reflexivity|exfalso]. rewrite wire_nil, wire_of_labels_cons in H.
    apply (f_equal (@length _)) in H. rewrite firstn_length in H. cbn [length] in H. rewrite app_length, wire_length in H. lia.
  - rewrite wire_of_labels_cons in H. destruct b as [|m b].
    + exfalso. rewrite wire_nil in H. destruct n as [|n]; [discriminate|]. cbn [firstn] in H. injection H as H0 _.
      pose proof (Forall_inv Ha) as Hl. destruct l; [contradiction|cbn [length] in H0; lia].
    + rewrite wire_of_labels_cons in H. destruct n as [|n]; [discriminate|]. cbn [firstn] in H. injection H as H0 H1.
      assert (Ll : length l = length m) by lia.
      assert (Hn : length m <= n).
      { apply (f_equal (@length _)) in H1. rewrite firstn_length, !app_length in H1. lia. }
      rewrite firstn_app in H1. rewrite firstn_all2 in H1 by lia.
      apply app_eq_len in H1; [|exact Ll]. destruct H1 as [-> H1].
      f_equal. apply (IH b (n - length m)); [exact (Forall_inv_tail Ha)|exact (Forall_inv_tail Hbn)|exact H1].
Qed.

Theorem set_name_reads_back : forall ls v sec l1 r x l2 n s' qls qt lA lN lR,
  dinv v -> Forall (fun l : bytes => l <> []) ls -> bytes_ok (wire_of_labels ls) ->
  reading (pp_packet v) qls qt lA lN lR -> sec = SAnswer \/ sec = SNameServers \/ sec = SAdditional ->
  sec_list sec lA lN lR = l1 ++ (r, x) :: l2 -> is_opt r = false ->
  m_set_raw_name (wire_of_labels ls) (v, cur_on sec r n) = (s', Ok tt) ->
  it_name (fst s') (snd s') = Ok (ascii_lowercase (dotted ls)) /\
  it_copy_raw_name (fst s') (snd s') = Ok (wire_of_labels ls, length (wire_of_labels ls)).
Proof.
  intros ls v sec l1 r x l2 n s' qls qt lA lN lR Hd Hne Hbw Rd Hsec El Hno Hrun.
  destruct (rename_keeps_cursor_full _ v sec l1 r x l2 n s' qls qt lA lN lR Hd Hbw Rd Hsec El Hno Hrun)
    as (lA' & lN' & lR' & l1' & r' & l2' & ls0 & Hd' & Rd' & El' & _ & _ & Hu & (Hok0 & _ & _) & (n0 & _ & Hseg) & _ & Ecur).
  assert (E0 : ls = ls0).
  { apply (wire_prefix_inj ls ls0 n0 Hne); [|exact Hseg]. eapply Forall_impl; [|exact Hok0]. intros l (Hl & _). exact Hl. }
  subst ls0.
  assert (Elab : rv_labels r' = ls) by (apply (f_equal (fun rx => rv_labels (fst rx))) in Hu; exact Hu).
  assert (Hin' : In (r', x) (lA' ++ lN' ++ lR')).
  { assert (Hi : In (r', x) (sec_list sec lA' lN' lR')) by (rewrite El'; apply in_or_app; right; left; reflexivity).
    destruct Hsec as [->|[->| ->]]; cbn [sec_list] in Hi; repeat (apply in_or_app; first [left; exact Hi|right]); exact Hi. }
  destruct (reading_record_in _ _ _ _ _ _ Rd' r' x Hin') as (_ & e' & Hrec').
  pose proof (record_at_end _ _ _ Hrec') as (_ & Hlt & _).
  destruct Hrec' as (Hcn & _). rewrite Elab in Hcn.
  pose proof (di_bytes _ Hd') as Hb'.
  rewrite Ecur. unfold it_name, it_copy_raw_name, cur_on. cbn [it_offset it_name_end unwrap bind].
  destruct (rv_name_end r' <=? rv_off r') eqn:E; [lia|].
  rewrite (raw_name_to_str_dotted _ _ _ _ Hb' Hcn). cbn [bind]. split; [reflexivity|].
  rewrite (copy_uncompressed_name_labels _ Hb' _ _ _ [] Hcn). reflexivity.
Qed.
