(** * Header setters touch only their own bits; getters return what was set (C12).

    Word-level statements are proved for every 16-bit word and every argument (bit-vector
    reasoning with [N.testbit]; no enumeration of words).  Byte-level statements about one
    header byte and a [u8] argument are over a genuinely finite domain (256 x 256) and are
    proved by exhaustive evaluation lifted with [forallb_forall]. *)

From DV Require Import Model.Base Model.Parser Model.Header Proofs.ListLemmas Proofs.Hoare.
From Coq Require Import ZifyBool ZifyNat ZifyN.

Local Open Scope N_scope.

Definition is_flag_bit (i : N) : bool :=
  (i =? 4) || (i =? 5) || (i =? 6) || (i =? 7) || (i =? 8) || (i =? 9) || (i =? 10) || (i =? 15).

Lemma lt16_cases i : i < 16 ->
  i = 0 \/ i = 1 \/ i = 2 \/ i = 3 \/ i = 4 \/ i = 5 \/ i = 6 \/ i = 7 \/
  i = 8 \/ i = 9 \/ i = 10 \/ i = 11 \/ i = 12 \/ i = 13 \/ i = 14 \/ i = 15.
Proof. lia. Qed.

Lemma testbit_high_false c i : c < 65536 -> 16 <= i -> N.testbit c i = false.
Proof.
  intros Hc Hi. destruct (N.eq_dec c 0) as [->|Hnz]; [apply N.bits_0|].
  apply N.bits_above_log2. apply N.log2_lt_pow2; [lia|].
  eapply N.lt_le_trans; [exact Hc|].
  change 65536 with (2 ^ 16). apply N.pow_le_mono_r; lia.
Qed.

(** Decide a bit identity for every index: 16 concrete low indices, and all high ones. *)
Ltac bits_low :=
  repeat match goal with
         | |- context [N.testbit ?x ?k] =>
           lazymatch x with
           | N0 => fail
           | Npos _ => fail
           | _ => let b := fresh "b" in set (b := N.testbit x k); clearbody b
           end
         end;
  vm_compute;
  repeat match goal with b : bool |- _ => destruct b end; reflexivity.

Theorem set_flags_bits : forall w f i, w < 65536 ->
  N.testbit (w_set_flags w f) i = if is_flag_bit i then N.testbit f i else N.testbit w i.
Proof.
  intros w f i Hw. unfold w_set_flags, OPRC_MASK, FLAGS_MASK.
  rewrite N.lor_spec, !N.land_spec.
  destruct (N.ltb_spec i 16) as [Hlt|Hge].
  - destruct (lt16_cases i Hlt) as [E|[E|[E|[E|[E|[E|[E|[E|[E|[E|[E|[E|[E|[E|[E|E]]]]]]]]]]]]]]];
      subst i; bits_low.
  - rewrite (testbit_high_false 30735 i), (testbit_high_false 65535 i),
      (testbit_high_false 34800 i), (testbit_high_false w i) by lia.
    assert (Hf : is_flag_bit i = false) by (unfold is_flag_bit; lia).
    rewrite Hf. destruct (N.testbit f i); reflexivity.
Qed.

Theorem set_flags_ignores_upper_half : forall w f, w_set_flags w f = w_set_flags w (f mod 65536).
Proof.
  intros w f. unfold w_set_flags. f_equal. f_equal.
  change 65535 with (N.ones 16). rewrite !N.land_ones.
  change (2 ^ 16) with 65536. rewrite N.mod_mod by lia. reflexivity.
Qed.

Lemma land_lt_65536 a c : c < 65536 -> N.land a c < 65536.
Proof.
  intros Hc. destruct (N.eq_dec (N.land a c) 0) as [->|Hnz]; [lia|].
  apply N.log2_lt_cancel. change (N.log2 65536) with 16.
  destruct (N.lt_ge_cases (N.log2 (N.land a c)) 16) as [H|H]; [exact H|exfalso].
  pose proof (N.bit_log2 (N.land a c) Hnz) as Hb.
  rewrite N.land_spec, (testbit_high_false c _ Hc H) in Hb.
  rewrite andb_false_r in Hb. discriminate.
Qed.

Theorem set_flags_lt : forall w f, w_set_flags w f < 65536.
Proof.
  intros w f. unfold w_set_flags, OPRC_MASK, FLAGS_MASK.
  destruct (N.eq_dec (N.lor (N.land w 30735) (N.land (N.land f 65535) 34800)) 0) as [E|Hnz]; [rewrite E; lia|].
  apply N.log2_lt_cancel. change (N.log2 65536) with 16.
  rewrite N.log2_lor.
  pose proof (land_lt_65536 w 30735 ltac:(lia)) as H1.
  pose proof (land_lt_65536 (N.land f 65535) 34800 ltac:(lia)) as H2.
  assert (forall x, x < 65536 -> N.log2 x < 16) as Hl.
  { intros x Hx. destruct (N.eq_dec x 0) as [->|Hx0]; [cbn; lia|].
    apply N.log2_lt_pow2; [lia|exact Hx]. }
  apply N.max_lub_lt; apply Hl; assumption.
Qed.

(** Opcode and rcode of the stored word are untouched. *)
Theorem set_flags_keeps_opcode_rcode : forall w f,
  N.land (w_set_flags w f) OPRC_MASK = N.land w OPRC_MASK.
Proof.
  intros w f. apply N.bits_inj. intros i.
  unfold w_set_flags, OPRC_MASK, FLAGS_MASK.
  rewrite !N.land_spec, N.lor_spec, !N.land_spec.
  destruct (N.ltb_spec i 16) as [Hlt|Hge].
  - destruct (lt16_cases i Hlt) as [E|[E|[E|[E|[E|[E|[E|[E|[E|[E|[E|[E|[E|[E|[E|E]]]]]]]]]]]]]]];
      subst i; bits_low.
  - rewrite (testbit_high_false 30735 i) by lia. rewrite !andb_false_r. reflexivity.
Qed.

(** The getter after the setter: the flag bits of the argument, with the EDNS flags above. *)
Theorem flags_after_set_flags : forall w f x,
  w_flags (w_set_flags w f) x =
  N.lor (N.shiftl (match x with Some v => v | None => 0 end) 16) (N.land f FLAGS_MASK).
Proof.
  intros w f x. unfold w_flags. f_equal.
  apply N.bits_inj. intros i. unfold w_set_flags, OPRC_MASK, FLAGS_MASK.
  rewrite !N.land_spec, N.lor_spec, !N.land_spec.
  destruct (N.ltb_spec i 16) as [Hlt|Hge].
  - destruct (lt16_cases i Hlt) as [E|[E|[E|[E|[E|[E|[E|[E|[E|[E|[E|[E|[E|[E|[E|E]]]]]]]]]]]]]]];
      subst i; bits_low.
  - rewrite (testbit_high_false 34800 i) by lia. rewrite !andb_false_r. reflexivity.
Qed.

(** [set_response] changes bit 15 only. *)
Theorem set_response_bits : forall w r i, w < 65536 ->
  N.testbit (w_set_response w r) i = if i =? 15 then r else N.testbit w i.
Proof.
  intros w r i Hw. unfold w_set_response. destruct r.
  - rewrite N.lor_spec.
    destruct (N.ltb_spec i 16) as [Hlt|Hge].
    + destruct (lt16_cases i Hlt) as [E|[E|[E|[E|[E|[E|[E|[E|[E|[E|[E|[E|[E|[E|[E|E]]]]]]]]]]]]]]];
        subst i; bits_low.
    + rewrite (testbit_high_false 32768 i), (testbit_high_false w i) by lia.
      assert ((i =? 15) = false) as -> by lia. reflexivity.
  - rewrite N.land_spec.
    destruct (N.ltb_spec i 16) as [Hlt|Hge].
    + destruct (lt16_cases i Hlt) as [E|[E|[E|[E|[E|[E|[E|[E|[E|[E|[E|[E|[E|[E|[E|E]]]]]]]]]]]]]]];
        subst i; bits_low.
    + rewrite (testbit_high_false 32767 i), (testbit_high_false w i) by lia.
      assert ((i =? 15) = false) as -> by lia. reflexivity.
Qed.

(** ** One header byte x one [u8] argument: finite, by exhaustive evaluation. *)

Definition range256 : list N := map N.of_nat (seq 0 256).

Lemma in_range256 b : b < 256 -> In b range256.
Proof.
  intros H. unfold range256. apply in_map_iff. exists (N.to_nat b). split; [lia|].
  apply in_seq. lia.
Qed.

Definition rcode_ok (b r : N) : bool :=
  (b_rcode (b_set_rcode b r) =? r mod 16) && (N.land (b_set_rcode b r) 240 =? N.land b 240)
  && (b_set_rcode b r <? 256).

Definition opcode_ok (b o : N) : bool :=
  (b_opcode (b_set_opcode b o) =? o mod 16) && (N.land (b_set_opcode b o) 135 =? N.land b 135)
  && (b_set_opcode b o <? 256).

Lemma rcode_sweep : forallb (fun b => forallb (rcode_ok b) range256) range256 = true.
Proof. vm_compute. reflexivity. Qed.

Lemma opcode_sweep : forallb (fun b => forallb (opcode_ok b) range256) range256 = true.
Proof. vm_compute. reflexivity. Qed.

Theorem set_rcode_spec : forall b r, b < 256 -> r < 256 ->
  b_rcode (b_set_rcode b r) = r mod 16 /\
  N.land (b_set_rcode b r) 240 = N.land b 240 /\
  b_set_rcode b r < 256.
Proof.
  intros b r Hb Hr. pose proof rcode_sweep as H.
  rewrite forallb_forall in H. specialize (H b (in_range256 b Hb)).
  rewrite forallb_forall in H. specialize (H r (in_range256 r Hr)).
  unfold rcode_ok in H. lia.
Qed.

Theorem set_opcode_spec : forall b o, b < 256 -> o < 256 ->
  b_opcode (b_set_opcode b o) = o mod 16 /\
  N.land (b_set_opcode b o) 135 = N.land b 135 /\
  b_set_opcode b o < 256.
Proof.
  intros b o Hb Ho. pose proof opcode_sweep as H.
  rewrite forallb_forall in H. specialize (H b (in_range256 b Hb)).
  rewrite forallb_forall in H. specialize (H o (in_range256 o Ho)).
  unfold opcode_ok in H. lia.
Qed.

(** ** Packet level: only the addressed bytes change, and the getter reads back the value. *)

Local Close Scope N_scope.

Lemma write_at_length p off w site p' :
  write_at p off w site = Ok p' -> length p' = length p.
Proof.
  unfold write_at. destruct (off + length w <=? length p) eqn:E; [|discriminate].
  intros H; inversion H; subst. rewrite !app_length, firstn_length, skipn_length. lia.
Qed.

Lemma write_at_other p off w site p' j :
  write_at p off w site = Ok p' -> (j < off \/ off + length w <= j) ->
  nth_error p' j = nth_error p j.
Proof.
  unfold write_at. destruct (off + length w <=? length p) eqn:E; [|discriminate].
  intros H Hj; inversion H; subst. clear H.
  assert (Hfl : length (firstn off p) = off) by (rewrite firstn_length; lia).
  destruct Hj as [Hj|Hj].
  - rewrite nth_error_app1 by lia.
    apply nth_error_firstn. exact Hj.
  - rewrite nth_error_app2 by lia. rewrite Hfl.
    rewrite nth_error_app2 by lia.
    rewrite nth_error_skipn. f_equal. lia.
Qed.

Lemma write_at_inside p off w site p' k :
  write_at p off w site = Ok p' -> k < length w ->
  nth_error p' (off + k) = nth_error w k.
Proof.
  unfold write_at. destruct (off + length w <=? length p) eqn:E; [|discriminate].
  intros H Hk; inversion H; subst. clear H.
  assert (Hfl : length (firstn off p) = off) by (rewrite firstn_length; lia).
  rewrite nth_error_app2 by lia. rewrite Hfl.
  replace (off + k - off) with k by lia.
  rewrite nth_error_app1 by lia. reflexivity.
Qed.

Lemma be16_write_read p off v site1 site2 p' :
  write_at p off (be16_bytes v) site1 = Ok p' ->
  be16_at p' off site2 = Ok (v mod 65536)%N.
Proof.
  intros H. unfold be16_at, byte_at.
  pose proof (write_at_inside p off _ site1 p' 0 H) as H0.
  pose proof (write_at_inside p off _ site1 p' 1 H) as H1.
  cbn [length be16_bytes] in H0, H1. rewrite Nat.add_0_r in H0.
  rewrite H0, H1 by lia. unfold be16_bytes. cbn [nth_error bind]. f_equal.
  pose proof (N.div_mod v 256 ltac:(lia)).
  pose proof (N.mod_lt v 256 ltac:(lia)).
  pose proof (N.mod_lt (v / 256) 256 ltac:(lia)).
  pose proof (N.div_mod (v / 256) 256 ltac:(lia)).
  pose proof (N.div_mod v 65536 ltac:(lia)).
  pose proof (N.mod_lt v 65536 ltac:(lia)).
  assert (v / 65536 = v / 256 / 256)%N as E by (rewrite N.div_div by lia; reflexivity).
  lia.
Qed.

(** The frame property of every header setter, stated once. *)
Definition only_bytes_changed (p p' : bytes) (lo hi : nat) : Prop :=
  length p' = length p /\ forall j, (j < lo \/ hi <= j) -> nth_error p' j = nth_error p j.

Theorem set_flags_frame : forall p f p', pk_set_flags p f = Ok p' -> only_bytes_changed p p' 2 4.
Proof.
  intros p f p'. unfold pk_set_flags, DNS_FLAGS_OFFSET.
  destruct (be16_at p 2 304) as [w| |]; cbn [bind]; try discriminate.
  intros H. split; [eapply write_at_length; eauto|].
  intros j Hj. eapply write_at_other; [exact H|]. cbn [length be16_bytes]. lia.
Qed.

Theorem set_response_frame : forall p r p', pk_set_response p r = Ok p' -> only_bytes_changed p p' 2 4.
Proof.
  intros p r p'. unfold pk_set_response, DNS_FLAGS_OFFSET.
  destruct (be16_at p 2 306) as [w| |]; cbn [bind]; try discriminate.
  intros H. split; [eapply write_at_length; eauto|].
  intros j Hj. eapply write_at_other; [exact H|]. cbn [length be16_bytes]. lia.
Qed.

Theorem set_rcode_frame : forall p r p', pk_set_rcode p r = Ok p' -> only_bytes_changed p p' 3 4.
Proof.
  intros p r p'. unfold pk_set_rcode, DNS_FLAGS_OFFSET.
  destruct (byte_at p (2 + 1) 309) as [b| |]; cbn [bind]; try discriminate.
  intros H. split; [eapply write_at_length; eauto|].
  intros j Hj. eapply write_at_other; [exact H|]. cbn [length]. lia.
Qed.

Theorem set_opcode_frame : forall p o p', pk_set_opcode p o = Ok p' -> only_bytes_changed p p' 2 3.
Proof.
  intros p o p'. unfold pk_set_opcode, DNS_FLAGS_OFFSET.
  destruct (byte_at p 2 312) as [b| |]; cbn [bind]; try discriminate.
  intros H. split; [eapply write_at_length; eauto|].
  intros j Hj. eapply write_at_other; [exact H|]. cbn [length]. lia.
Qed.

Theorem set_tid_frame : forall p t p', pk_set_tid p t = Ok p' -> only_bytes_changed p p' 0 2.
Proof.
  intros p t p'. unfold pk_set_tid, DNS_TID_OFFSET.
  intros H. split; [eapply write_at_length; eauto|].
  intros j Hj. eapply write_at_other; [exact H|]. cbn [length be16_bytes]. lia.
Qed.

Theorem tid_after_set_tid : forall p t p', pk_set_tid p t = Ok p' -> pk_tid p' = Ok (t mod 65536)%N.
Proof. intros p t p' H. unfold pk_tid, pk_set_tid in *. eapply be16_write_read; eauto. Qed.

(** Reading the flags back at the packet level: the getter sees exactly the stored word. *)
Theorem flags_after_set_flags_packet : forall p f p' x,
  pk_set_flags p f = Ok p' ->
  pk_flags p' x =
  Ok (N.lor (N.shiftl (match x with Some v => v | None => 0%N end) 16) (N.land f FLAGS_MASK)).
Proof.
  intros p f p' x. unfold pk_set_flags, pk_flags, DNS_FLAGS_OFFSET.
  destruct (be16_at p 2 304) as [w| |]; cbn [bind]; try discriminate.
  intros H. erewrite be16_write_read by eauto. cbn [bind]. f_equal.
  rewrite N.mod_small by apply set_flags_lt. apply flags_after_set_flags.
Qed.

(** No header setter panics on a packet that has a header. *)
Theorem setters_total : forall p f, 12 <= length p ->
  nopanic (pk_set_flags p f) /\ nopanic (pk_set_tid p f) /\ nopanic (pk_set_rcode p f) /\
  nopanic (pk_set_opcode p f) /\ nopanic (pk_set_response p true) /\ nopanic (pk_set_response p false).
Proof.
  intros p f Hl.
  assert (Hw : forall off w site, off + length w <= 12 -> nopanic (write_at p off w site)).
  { intros off w site H. unfold write_at. destruct (off + length w <=? length p) eqn:E; [exact I|lia]. }
  assert (Hr : forall site, hoare (be16_at p 2 site) (fun _ => True)).
  { intros site. apply be16_at_nopanic. lia. }
  assert (Hb : forall off site, off < 12 -> hoare (byte_at p off site) (fun _ => True)).
  { intros off site H. apply byte_at_hoare; [lia|auto]. }
  unfold pk_set_flags, pk_set_tid, pk_set_rcode, pk_set_opcode, pk_set_response, nopanic,
    DNS_FLAGS_OFFSET, DNS_TID_OFFSET.
  repeat split;
    try (eapply hoare_bind; [apply Hr|intros; apply Hw; cbn; lia]);
    try (eapply hoare_bind; [apply Hb; lia|intros; apply Hw; cbn; lia]);
    try (apply Hw; cbn; lia).
Qed.
