(** * Cursor operations on a decompressed object run to the end (C01, C08, C10, C11).

    [record_layout]: where a record of the reading sits, which section the cursor code finds for it, and
    what the later offsets are at least.  [delete_total], [set_ttl_total]: with the cursor on a non-OPT
    record of a state satisfying [dinv], [delete] and [set_ttl] return [Ok] - no error, no [Panic]
    outcome of the model (no assertion, slice or subtraction of the code fails). *)

From DV Require Import Model.Base Model.NameCheck Model.Parser Model.Header Model.Readers Model.Uncompress Model.Mutate
  Spec.NameSpec Spec.PacketSpec Spec.RecordSpec Spec.PlainSpec Proofs.ListLemmas Proofs.Hoare Proofs.ParserInv Proofs.ParseSound
  Proofs.ParseComplete Proofs.NameIff Proofs.NameCheckTotal Proofs.ReadersAgree Proofs.ReadersLabels Proofs.HeaderBits Proofs.QuestionSpec Proofs.WalkValues Proofs.SetTtl Proofs.WalkSkip
  Proofs.UncompressSpec Proofs.PlainWf Proofs.InsertLemmas Proofs.EdnsFacts Proofs.EdnsPos Proofs.EdnsPlain Proofs.InsertSpec Proofs.HeaderInv
  Proofs.Chain Proofs.SetTtlInv Proofs.DeleteInv Proofs.SetNameInv.
From Coq Require Import ZifyBool ZifyNat ZifyN.

Definition opt_ge_all (o : option nat) (b : nat) : Prop := forall x, o = Some x -> b <= x.

Lemma record_layout v qls qt lA lN lR r x : dinv v -> reading (pp_packet v) qls qt lA lN lR -> In (r, x) (lA ++ lN ++ lR) ->
  let q := pp_packet v in
  exists sec B1 B2 r0 c,
    let k := length (plain_record (r0, x)) in
    q = firstn 12 q ++ B1 ++ plain_record (r0, x) ++ B2 /\ rv_off r = 12 + length B1 /\ r = rv_at r0 x (rv_off r) /\
    (sec = SAnswer \/ sec = SNameServers \/ sec = SAdditional) /\
    (forall it, it_offset it = Some (rv_off r) -> it_current_section v it = Ok sec) /\
    u16_at q (sec_co sec) c /\ c <> 0%N /\
    (section_eqb sec SNameServers || section_eqb sec SAnswer = true -> opt_ge_all (pp_offset_additional v) (rv_off r + k)) /\
    (section_eqb sec SAnswer = true -> opt_ge_all (pp_offset_nameservers v) (rv_off r + k)) /\
    (is_opt r = false -> forall y, pp_offset_edns v = Some y -> rv_off r < y -> rv_off r + k <= y) /\
    record_at q r (rv_off r + k).
Proof.
  intros Hd Rd Hin q.
  destruct (dinv_parts v Hd) as (f & w & qls0 & qt0 & A & Nn & R & s1 & s2 & s3 & t1 & t2 & t3 & Hf & Hsv & P & CA & CN & CR & Lq & Rq & Voq & Voa & Von & Vor & Voe).
  destruct (reading_fun _ _ _ _ _ _ _ _ _ _ _ Rq Rd) as (-> & -> & <- & <- & <-). fold q in Lq, Rq, P.
  set (o1 := 12 + length (wire_of_labels qls) + 4) in *. set (o2 := o1 + length (cat A)) in *. set (o3 := o2 + length (cat Nn)) in *.
  destruct (reading_record_in _ _ _ _ _ _ Rq r x Hin) as (_ & e0 & Hrec).
  pose proof P as [Peq P12 _ _ Pan Pns Par _ _ _ _ _ _ _ _].
  set (H := firstn 12 q) in *. set (Qb := plain_question qls qt CLASS_IN) in *.
  assert (LQb : length Qb = length (wire_of_labels qls) + 4) by (unfold Qb, plain_question; rewrite !app_length; cbn [length be16_bytes]; lia).
  assert (Hend : forall r0 o, r = rv_at r0 x o -> e0 = o + length (plain_record (r0, x))).
  { intros r0 o Er. destruct Hrec as (_ & _ & _ & _ & _ & He & _). rewrite He, Er. cbn [rv_at rv_name_end rv_rdlen]. rewrite plain_record_length. cbn [fst snd]. lia. }
  apply in_app_or in Hin. destruct Hin as [Hin|Hin]; [|apply in_app_or in Hin; destruct Hin as [Hin|Hin]].
  - destruct (in_place_split A o1 r x Hin) as (A1 & r0 & A2 & EA & Er). subst A.
    set (k := length (plain_record (r0, x))).
    assert (Hk : 0 < k) by (unfold k; rewrite plain_record_length; lia).
    assert (LA : length (cat (A1 ++ (r0, x) :: A2)) = length (cat A1) + k + length (cat A2)) by (rewrite cat_app, cat_cons, !app_length; fold k; lia).
    assert (Eo : rv_off r = o1 + length (cat A1)) by (rewrite Er; reflexivity).
    exists SAnswer, (Qb ++ cat A1), (cat A2 ++ cat Nn ++ cat R), r0, (N.of_nat (length (A1 ++ (r0, x) :: A2))). cbv zeta. fold k.
    split; [rewrite Peq at 1; unfold build; fold Qb H; rewrite cat_app, cat_cons, <- !app_assoc; reflexivity|].
    split; [rewrite Eo, app_length, LQb; unfold o1; lia|]. split; [rewrite Eo; exact Er|]. split; [auto|].
    split.
    { intros it Eoff. rewrite (cur_sec_of v it _ Eoff Voq ltac:(rewrite Eo; unfold o1; lia)). rewrite Voa, Von, Vor, Eo.
      replace (0 <? length (A1 ++ (r0, x) :: A2)) with true by (rewrite app_length; cbn [length]; lia).
      destruct (0 <? length Nn), (0 <? length R); cbn [off_ge];
        repeat match goal with |- context [?a <=? ?b] => destruct (Nat.leb_spec a b) end; try reflexivity; unfold o3, o2 in *; lia. }
    split; [exact Pan|]. split; [rewrite app_length; cbn [length]; lia|].
    split; [intros _ y Hy; rewrite Vor in Hy; destruct (0 <? length R); inversion Hy; rewrite Eo; unfold o3, o2; lia|].
    split; [intros _ y Hy; rewrite Von in Hy; destruct (0 <? length Nn); inversion Hy; rewrite Eo; unfold o2; lia|].
    split.
    { intros _ y Hy Hlt. rewrite Voe in Hy. unfold edns_off_of in Hy. destruct (opt_rel R) as [[kk z]|]; [|discriminate].
      assert (Ey : y = o3 + kk + 11) by (injection Hy as Hy'; symmetry; exact Hy'). rewrite Eo. unfold o3, o2 in *. lia. }
    replace (rv_off r + k) with e0 by (rewrite (Hend r0 _ Er), Eo; reflexivity). exact Hrec.
  - destruct (in_place_split Nn o2 r x Hin) as (N1 & r0 & N2 & EN & Er). subst Nn.
    set (k := length (plain_record (r0, x))).
    assert (Hk : 0 < k) by (unfold k; rewrite plain_record_length; lia).
    assert (LN : length (cat (N1 ++ (r0, x) :: N2)) = length (cat N1) + k + length (cat N2)) by (rewrite cat_app, cat_cons, !app_length; fold k; lia).
    assert (Eo : rv_off r = o2 + length (cat N1)) by (rewrite Er; reflexivity).
    exists SNameServers, (Qb ++ cat A ++ cat N1), (cat N2 ++ cat R), r0, (N.of_nat (length (N1 ++ (r0, x) :: N2))). cbv zeta. fold k.
    split; [rewrite Peq at 1; unfold build; fold Qb H; rewrite cat_app, cat_cons, <- !app_assoc; reflexivity|].
    split; [rewrite Eo, !app_length, LQb; unfold o2, o1; lia|]. split; [rewrite Eo; exact Er|]. split; [auto|].
    split.
    { intros it Eoff. rewrite (cur_sec_of v it _ Eoff Voq ltac:(rewrite Eo; unfold o2, o1; lia)). rewrite Voa, Von, Vor, Eo.
      replace (0 <? length (N1 ++ (r0, x) :: N2)) with true by (rewrite app_length; cbn [length]; lia).
      destruct (0 <? length A), (0 <? length R); cbn [off_ge];
        repeat match goal with |- context [?a <=? ?b] => destruct (Nat.leb_spec a b) end; try reflexivity; unfold o3, o2 in *; lia. }
    split; [exact Pns|]. split; [rewrite app_length; cbn [length]; lia|].
    split; [intros _ y Hy; rewrite Vor in Hy; destruct (0 <? length R); inversion Hy; rewrite Eo; unfold o3; lia|].
    split; [intros Hf0; discriminate|].
    split.
    { intros _ y Hy Hlt. rewrite Voe in Hy. unfold edns_off_of in Hy. destruct (opt_rel R) as [[kk z]|]; [|discriminate].
      assert (Ey : y = o3 + kk + 11) by (injection Hy as Hy'; symmetry; exact Hy'). rewrite Eo. unfold o3 in *. lia. }
    replace (rv_off r + k) with e0 by (rewrite (Hend r0 _ Er), Eo; reflexivity). exact Hrec.
  - destruct (in_place_split R o3 r x Hin) as (R1 & r0 & R2 & ER & Er). subst R.
    set (k := length (plain_record (r0, x))).
    assert (Hk : 0 < k) by (unfold k; rewrite plain_record_length; lia).
    assert (Eo : rv_off r = o3 + length (cat R1)) by (rewrite Er; reflexivity).
    exists SAdditional, (Qb ++ cat A ++ cat Nn ++ cat R1), (cat R2), r0, (N.of_nat (length (R1 ++ (r0, x) :: R2))). cbv zeta. fold k.
    split; [rewrite Peq at 1; unfold build; fold Qb H; rewrite cat_app, cat_cons, <- !app_assoc; reflexivity|].
    split; [rewrite Eo, !app_length, LQb; unfold o3, o2, o1; lia|]. split; [rewrite Eo; exact Er|]. split; [auto|].
    split.
    { intros it Eoff. rewrite (cur_sec_of v it _ Eoff Voq ltac:(rewrite Eo; unfold o3, o2, o1; lia)). rewrite Voa, Von, Vor, Eo.
      replace (0 <? length (R1 ++ (r0, x) :: R2)) with true by (rewrite app_length; cbn [length]; lia).
      destruct (0 <? length A), (0 <? length Nn); cbn [off_ge];
        repeat match goal with |- context [?a <=? ?b] => destruct (Nat.leb_spec a b) end; try reflexivity; unfold o3, o2 in *; lia. }
    split; [exact Par|]. split; [rewrite app_length; cbn [length]; lia|].
    split; [intros Hf0; discriminate|]. split; [intros Hf0; discriminate|].
    split.
    { intros Hno y Hy Hlt. rewrite Voe in Hy. unfold edns_off_of in Hy. rewrite Er in Hno. change (is_opt r0 = false) in Hno.
      rewrite (opt_rel_at R1 (r0, x) R2 Hno) in Hy. destruct (opt_rel R1) as [[k1 y1]|] eqn:E1.
      - pose proof (opt_rel_bound _ _ _ E1). assert (Ey : y = o3 + k1 + 11) by (injection Hy as Hy'; symmetry; exact Hy'). lia.
      - destruct (opt_rel R2) as [[k2 y2]|]; [|discriminate]. fold k in Hy.
          assert (Ey : y = o3 + (length (cat R1) + (k + k2)) + 11) by (injection Hy as Hy'; symmetry; exact Hy'). lia. }
    replace (rv_off r + k) with e0 by (rewrite (Hend r0 _ Er), Eo; reflexivity). exact Hrec.
Qed.

Lemma shift_opt_ok o k site b : opt_ge_all o b -> k <= b -> exists o', shift_opt o false k site = Ok o'.
Proof.
  intros Hge Hk. destruct o as [x|]; cbn [shift_opt]; [|eauto]. unfold usub. specialize (Hge x eq_refl).
  replace (k <=? x) with true by lia. cbn [bind]. eauto.
Qed.

Lemma shift_opt_wrap_ok o grow k : exists o', shift_opt_wrap o grow k = Ok o'.
Proof. destruct o as [x|]; cbn [shift_opt_wrap]; [|eauto]. destruct grow; [eauto|]. destruct (k <=? x); eauto. Qed.

Lemma delete_runs v it off k sec c :
  pp_maybe_compressed v = false -> it_offset it = Some off -> it_offset_next it = off + k -> 0 < k -> 12 <= off ->
  off + k <= length (pp_packet v) ->
  it_current_section v it = Ok sec -> sec = SAnswer \/ sec = SNameServers \/ sec = SAdditional ->
  (if section_eqb sec SAdditional then t <- it_rr_type v it ;; Ok (t =? TYPE_OPT)%N else Ok false) = Ok false ->
  (section_eqb sec SNameServers || section_eqb sec SAnswer = true -> opt_ge_all (pp_offset_additional v) (off + k)) ->
  (section_eqb sec SAnswer = true -> opt_ge_all (pp_offset_nameservers v) (off + k)) ->
  u16_at (pp_packet v) (sec_co sec) c -> c <> 0%N ->
  exists s', m_delete (v, it) = (s', Ok tt).
Proof.
  intros Hmc Eoff Enext Hk H12 Hlen Esec Hsec Hopt Hoar Hons Hc Hc0. set (q := pp_packet v) in *.
  unfold m_delete, cbind, getv, getit, clift, putv, putit, cret. cbn [fst snd].
  rewrite Eoff, Esec, Hopt, Hmc. cbn [fst snd unwrap]. rewrite ?Eoff, ?Enext. cbn [unwrap].
  unfold usub at 1. replace (off <=? off + k) with true by lia. replace (off + k - off) with k by lia.
  replace (k =? 0) with false by lia.
  unfold m_resize_rr, m_set_offset_next, cbind, getv, getit, clift, putv, putit, cret. cbn [fst snd].
  replace (k =? 0) with false by lia. cbn [fst snd]. rewrite ?Eoff, ?Enext. fold q.
  replace (length q <? k) with false by lia. replace (length q <? off + k) with false by lia.
  cbn [fst snd pp_with_packet pp_packet]. set (p1 := firstn off q ++ skipn (off + k) q).
  unfold usub at 1. replace (k <=? off + k) with true by lia. replace (off + k - k) with off by lia.
  assert (Lp1 : length p1 = length q - k) by (unfold p1; rewrite app_length, firstn_length, skipn_length; lia).
  replace (length p1 <? off) with false by lia.
  cbn [fst snd it_set it_offset it_offset_next it_name_end].
  match goal with |- context [it_current_section ?a ?b] => rewrite (cur_sec_same v a it b) by (try reflexivity; cbn [it_set it_offset]; congruence) end.
  rewrite Esec. cbn [pp_with_packet pp_offset_edns pp_offset_additional pp_offset_nameservers pp_offset_answers pp_offset_question pp_cached pp_maybe_compressed].
  assert (Eoed : exists oed, (if opt_lt (Some off) (pp_offset_edns v) then shift_opt_wrap (pp_offset_edns v) false k else Ok (pp_offset_edns v)) = Ok oed).
  { destruct (opt_lt (Some off) (pp_offset_edns v)); [apply shift_opt_wrap_ok|eauto]. }
  destruct Eoed as (oed & ->).
  assert (Eq : section_eqb sec SQuestion = false) by (destruct Hsec as [->|[->| ->]]; reflexivity).
  rewrite Eq, !orb_false_r.
  assert (Eoar : exists oar, (if section_eqb sec SNameServers || section_eqb sec SAnswer then shift_opt (pp_offset_additional v) false k 657 else Ok (pp_offset_additional v)) = Ok oar).
  { destruct (section_eqb sec SNameServers || section_eqb sec SAnswer) eqn:E; [|eauto]. eapply shift_opt_ok; [exact (Hoar eq_refl)|lia]. }
  destruct Eoar as (oar & ->).
  assert (Eons : exists ons, (if section_eqb sec SAnswer then shift_opt (pp_offset_nameservers v) false k 658 else Ok (pp_offset_nameservers v)) = Ok ons).
  { destruct (section_eqb sec SAnswer) eqn:E; [|eauto]. eapply shift_opt_ok; [exact (Hons eq_refl)|lia]. }
  destruct Eons as (ons & ->).
  cbn [fst snd pp_update pp_packet it_set it_offset it_offset_next it_name_end]. rewrite Eoff. cbn [unwrap].
  replace (length p1 <? off) with false by lia.
  cbn [fst snd pp_update pp_packet it_set it_offset it_offset_next it_name_end].
  assert (Hco : count_offset sec = Ok (sec_co sec)) by (destruct Hsec as [->|[->| ->]]; reflexivity).
  assert (Hco12 : sec_co sec + 1 < 12) by (destruct Hsec as [->|[->| ->]]; cbn; lia).
  assert (Hc1 : u16_at p1 (sec_co sec) c).
  { destruct Hc as (a & b & Ha & Hb & E). exists a, b. unfold p1. rewrite !nth_error_app1 by (rewrite firstn_length; lia).
    rewrite !nth_error_firstn by lia. auto. }
  assert (Edec : exists p2, rrcount_dec p1 sec = Ok (p2, (c - 1)%N)).
  { unfold rrcount_dec. rewrite Hco. cbn [bind]. rewrite (proj2 (be16_at_u16 p1 (sec_co sec) 614 c) Hc1). cbn [bind].
    replace (c =? 0)%N with false by lia. unfold write_at. cbn [length be16_bytes].
    replace (sec_co sec + 2 <=? length p1) with true by lia. cbn [bind]. eauto. }
  destruct Edec as (p2 & ->).
  cbn [fst snd pp_with_packet pp_packet pp_offset_question pp_offset_answers pp_offset_nameservers pp_offset_additional pp_offset_edns
       pp_edns_count pp_ext_rcode pp_edns_version pp_ext_flags pp_maybe_compressed pp_max_payload pp_cached].
  destruct (c - 1 =? 0)%N; [|eauto].
  destruct Hsec as [->|[->| ->]]; cbn [pp_clear_section]; eauto.
Qed.

Theorem delete_total : forall v it qls qt lA lN lR r x,
  dinv v -> reading (pp_packet v) qls qt lA lN lR -> In (r, x) (lA ++ lN ++ lR) -> is_opt r = false ->
  it_offset it = Some (rv_off r) -> it_name_end it = rv_name_end r -> it_offset_next it = rv_name_end r + 10 + rv_rdlen r ->
  exists s', m_delete (v, it) = (s', Ok tt).
Proof.
  intros v it qls qt lA lN lR r x Hd Rd Hin Hno Eoff Ene Enext.
  destruct (record_layout v qls qt lA lN lR r x Hd Rd Hin) as (sec & B1 & B2 & r0 & c & Eq & Eo & Er & Hsec & Hcs & Hc & Hc0 & Hoar & Hons & Hed & Hrec).
  cbv zeta in *. set (q := pp_packet v) in *. set (k := length (plain_record (r0, x))) in *.
  assert (Hk : 0 < k) by (unfold k; rewrite plain_record_length; lia).
  assert (Hlen : rv_off r + k <= length q) by (destruct Hrec as (_ & _ & _ & _ & _ & _ & Hl & _); exact Hl).
  assert (Enext' : it_offset_next it = rv_off r + k).
  { destruct Hrec as (_ & _ & _ & _ & _ & He & _). lia. }
  apply (delete_runs v it (rv_off r) k sec c (di_mc _ Hd) Eoff Enext' Hk ltac:(lia) Hlen (Hcs it Eoff) Hsec); try assumption.
  destruct (section_eqb sec SAdditional); [|reflexivity].
  rewrite (it_rr_type_ok q v eq_refl r _ it Hrec Eoff Ene). cbn [bind]. unfold is_opt in Hno. rewrite Hno. reflexivity.
Qed.

Theorem set_ttl_total : forall v it t qls qt lA lN lR r x,
  dinv v -> reading (pp_packet v) qls qt lA lN lR -> In (r, x) (lA ++ lN ++ lR) ->
  it_offset it <> None -> it_name_end it = rv_name_end r ->
  exists s', m_set_ttl t (v, it) = (s', Ok tt).
Proof.
  intros v it t qls qt lA lN lR r x Hd Rd Hin Eoff Ene.
  destruct (reading_record_in _ _ _ _ _ _ Rd r x Hin) as (_ & e & Hrec).
  destruct Hrec as (_ & _ & _ & _ & _ & He & Hl & _).
  unfold m_set_ttl, cbind, getv, getit, clift, putv. cbn [fst snd].
  destruct (it_offset it) as [o|]; [|congruence]. cbn [unwrap]. unfold slice_from. rewrite Ene.
  replace (rv_name_end r <=? length (pp_packet v)) with true by lia. cbn [bind].
  unfold write_at, DNS_RR_TTL_OFFSET. cbn [length be32_bytes]. replace (rv_name_end r + 4 + 4 <=? length (pp_packet v)) with true by lia. eauto.
Qed.

(** ** The owner-name setter: [Ok], or an error with nothing changed - never a [Panic] outcome *)
Lemma resize_runs grow k v it off sec nxt : 0 < k -> it_offset it = Some off -> it_offset_next it = nxt -> nxt <= length (pp_packet v) -> off <= nxt ->
  (grow = false -> off + k <= nxt) ->
  it_current_section v it = Ok sec -> sec = SAnswer \/ sec = SNameServers \/ sec = SAdditional ->
  (grow = false -> section_eqb sec SNameServers || section_eqb sec SAnswer = true -> opt_ge_all (pp_offset_additional v) k) ->
  (grow = false -> section_eqb sec SAnswer = true -> opt_ge_all (pp_offset_nameservers v) k) ->
  (exists s1, m_resize_rr grow k (v, it) = (s1, Ok tt) /\ it_offset (snd s1) = Some off /\ it_section (snd s1) = it_section it /\
              it_name_end (snd s1) = it_name_end it) \/
  (grow = true /\ m_resize_rr grow k (v, it) = ((v, it), Err PacketTooLarge)).
Proof.
  intros Hk Eoff Enext Hnl Hon Hsh Esec Hsec Hoar Hons. set (q := pp_packet v) in *.
  unfold m_resize_rr, m_set_offset_next, cbind, getv, getit, clift, putv, putit, cret. cbn [fst snd].
  replace (k =? 0) with false by lia. cbn [fst snd]. rewrite Eoff, Enext. fold q.
  destruct grow.
  - destruct (65535 <? N.of_nat (length q + k))%N eqn:Ebig; [right; split; reflexivity|]. left.
    replace (length q <? off) with false by lia. cbn [fst snd pp_with_packet pp_packet].
    set (p1 := firstn off q ++ firstn k (skipn off q ++ repeat 0%N k) ++ skipn off q).
    assert (Lp1 : length p1 = length q + k).
    { unfold p1. rewrite !app_length, !firstn_length, app_length, repeat_length, skipn_length. lia. }
    replace (length p1 <? nxt + k) with false by lia.
    cbn [fst snd it_set it_offset it_offset_next it_name_end].
    match goal with |- context [it_current_section ?a ?b] => rewrite (cur_sec_same v a it b) by (try reflexivity; cbn [it_set it_offset]; congruence) end.
    rewrite Esec. cbn [pp_with_packet pp_offset_edns pp_offset_additional pp_offset_nameservers pp_offset_answers pp_offset_question pp_cached pp_maybe_compressed].
    assert (Eoed : exists oed, (if opt_lt (Some off) (pp_offset_edns v) then shift_opt_wrap (pp_offset_edns v) true k else Ok (pp_offset_edns v)) = Ok oed).
    { destruct (opt_lt (Some off) (pp_offset_edns v)); [apply shift_opt_wrap_ok|eauto]. }
    destruct Eoed as (oed & ->).
    assert (Eq : section_eqb sec SQuestion = false) by (destruct Hsec as [->|[->| ->]]; reflexivity).
    rewrite Eq, !orb_false_r.
    assert (Hg : forall o site, exists o', shift_opt o true k site = Ok o') by (intros [y|] site; cbn [shift_opt]; eauto).
    assert (Eoar : exists oar, (if section_eqb sec SNameServers || section_eqb sec SAnswer then shift_opt (pp_offset_additional v) true k 657 else Ok (pp_offset_additional v)) = Ok oar).
    { destruct (section_eqb sec SNameServers || section_eqb sec SAnswer); [apply Hg|eauto]. }
    destruct Eoar as (oar & ->).
    assert (Eons : exists ons, (if section_eqb sec SAnswer then shift_opt (pp_offset_nameservers v) true k 658 else Ok (pp_offset_nameservers v)) = Ok ons).
    { destruct (section_eqb sec SAnswer); [apply Hg|eauto]. }
    destruct Eons as (ons & ->).
    eexists. split; [reflexivity|]. cbn [snd it_set it_offset it_section it_name_end]. auto.
  - left. specialize (Hsh eq_refl).
    replace (length q <? k) with false by lia. replace (length q <? off + k) with false by lia.
    cbn [fst snd pp_with_packet pp_packet]. set (p1 := firstn off q ++ skipn (off + k) q).
    unfold usub at 1. replace (k <=? nxt) with true by lia.
    assert (Lp1 : length p1 = length q - k) by (unfold p1; rewrite app_length, firstn_length, skipn_length; lia).
    replace (length p1 <? nxt - k) with false by lia.
    cbn [fst snd it_set it_offset it_offset_next it_name_end].
    match goal with |- context [it_current_section ?a ?b] => rewrite (cur_sec_same v a it b) by (try reflexivity; cbn [it_set it_offset]; congruence) end.
    rewrite Esec. cbn [pp_with_packet pp_offset_edns pp_offset_additional pp_offset_nameservers pp_offset_answers pp_offset_question pp_cached pp_maybe_compressed].
    assert (Eoed : exists oed, (if opt_lt (Some off) (pp_offset_edns v) then shift_opt_wrap (pp_offset_edns v) false k else Ok (pp_offset_edns v)) = Ok oed).
    { destruct (opt_lt (Some off) (pp_offset_edns v)); [apply shift_opt_wrap_ok|eauto]. }
    destruct Eoed as (oed & ->).
    assert (Eq : section_eqb sec SQuestion = false) by (destruct Hsec as [->|[->| ->]]; reflexivity).
    rewrite Eq, !orb_false_r.
    assert (Eoar : exists oar, (if section_eqb sec SNameServers || section_eqb sec SAnswer then shift_opt (pp_offset_additional v) false k 657 else Ok (pp_offset_additional v)) = Ok oar).
    { destruct (section_eqb sec SNameServers || section_eqb sec SAnswer) eqn:E; [|eauto]. eapply shift_opt_ok; [exact (Hoar eq_refl eq_refl)|lia]. }
    destruct Eoar as (oar & ->).
    assert (Eons : exists ons, (if section_eqb sec SAnswer then shift_opt (pp_offset_nameservers v) false k 658 else Ok (pp_offset_nameservers v)) = Ok ons).
    { destruct (section_eqb sec SAnswer) eqn:E; [|eauto]. eapply shift_opt_ok; [exact (Hons eq_refl eq_refl)|lia]. }
    destruct Eons as (ons & ->).
    eexists. split; [reflexivity|]. cbn [snd it_set it_offset it_section it_name_end]. auto.
Qed.

Theorem set_raw_name_outcome : forall nm v it qls qt lA lN lR r x,
  dinv v -> bytes_ok nm -> reading (pp_packet v) qls qt lA lN lR -> In (r, x) (lA ++ lN ++ lR) -> is_opt r = false ->
  it_offset it = Some (rv_off r) -> it_name_end it = rv_name_end r -> it_offset_next it = rv_name_end r + 10 + rv_rdlen r ->
  it_section it <> SQuestion ->
  (exists s', m_set_raw_name nm (v, it) = (s', Ok tt)) \/ (exists e, m_set_raw_name nm (v, it) = ((v, it), Err e)).
Proof.
  intros nm v it qls qt lA lN lR r x Hd Hbnm Rd Hin Hno Eoff Ene Enext Hsq.
  destruct (record_layout v qls qt lA lN lR r x Hd Rd Hin) as (sec & B1 & B2 & r0 & c & Eq & Eo & Er & Hsec & Hcs & Hc & Hc0 & Hoar & Hons & Hed & Hrec).
  cbv zeta in *. set (q := pp_packet v) in *. set (k := length (plain_record (r0, x))) in *. set (off := rv_off r) in *.
  pose proof (di_mc _ Hd) as Hmc. pose proof (di_bytes _ Hd) as Hb. fold q in Hb.
  assert (Hk : k = length (wire_of_labels (rv_labels r0)) + length (rec_tail (r0, x))) by (unfold k; rewrite plain_record_split, app_length; reflexivity).
  set (W := wire_of_labels (rv_labels r0)) in *. set (tl := rec_tail (r0, x)) in *.
  assert (Ltl : 10 <= length tl) by (unfold tl, rec_tail; rewrite !app_length; cbn [length be16_bytes be32_bytes]; lia).
  assert (LW : 1 <= length W) by (unfold W, wire_of_labels; rewrite app_length; cbn [length]; lia).
  assert (Hlen : off + k <= length q) by (destruct Hrec as (_ & _ & _ & _ & _ & _ & Hl & _); exact Hl).
  assert (Enext' : it_offset_next it = off + k) by (destruct Hrec as (_ & _ & _ & _ & _ & He & _); unfold off; lia).
  assert (Ene' : it_name_end it = off + length W) by (rewrite Ene, Er; reflexivity).
  assert (Hlok0 : Forall label_ok (rv_labels r0)).
  { destruct Hrec as ((_ & Hna) & _). rewrite Er in Hna. cbn [rv_at rv_labels] in Hna. eapply name_at_labels_ok. exact Hna. }
  assert (HH : length (firstn 12 q) = 12) by (rewrite firstn_length; lia).
  set (H := firstn 12 q) in *.
  assert (Eq' : q = (H ++ B1) ++ W ++ (tl ++ B2)).
  { rewrite Eq at 1. rewrite plain_record_split. cbn [fst]. fold W tl. rewrite <- !app_assoc. reflexivity. }
  assert (LHB : length (H ++ B1) = off) by (rewrite app_length, HH; unfold off; lia).
  rewrite set_raw_name_is_k, set_name_k_split.
  (* the run up to the cursor's recompute *)
  pose proof (check_compressed_name_total nm 0) as Hnp.
  destruct (check_compressed_name nm 0) as [n|e|px] eqn:Hck; [| |exfalso; exact Hnp].
  2:{ right. exists e. unfold set_name_k. unfold cbind at 1. unfold clift at 1. rewrite Hck. reflexivity. }
  destruct (checked_name nm n Hbnm Hck) as (ls & (Hlok & Hl255 & Hbw) & Hseg & Hnl & Hn).
  assert (Hsl : slice q off (it_name_end it) 662 = Ok W).
  { unfold slice. rewrite Ene'. replace ((off <=? off + length W) && (off + length W <=? length q)) with true by lia.
    replace (off + length W - off) with (length W) by lia. f_equal. rewrite Eq'. rewrite <- LHB. rewrite skipn_app_exact. apply firstn_app_exact. }
  assert (Hrl : raw_name_len W = Ok (length W)) by (apply raw_name_len_wire; exact Hlok0).
  destruct (set_name_k nm (cret tt) (v, it)) as [s1 r1] eqn:Epre.
  assert (Hpre : (r1 = Ok tt /\ it_offset (snd s1) = Some off /\ it_section (snd s1) = it_section it) \/ (s1 = (v, it) /\ r1 = Err PacketTooLarge)).
  { unfold set_name_k in Epre. unfold cbind at 1 in Epre. unfold clift at 1 in Epre. rewrite Hck in Epre.
    unfold cbind at 1 in Epre. unfold getv at 1 in Epre. cbn [fst snd] in Epre. unfold cbind at 1 in Epre. unfold getit at 1 in Epre. cbn [fst snd] in Epre. rewrite Hmc in Epre.
    unfold cbind at 1 in Epre. unfold cret at 1 in Epre.
    unfold cbind at 1 in Epre. unfold getv at 1 in Epre. cbn [fst snd] in Epre. unfold cbind at 1 in Epre. unfold getit at 1 in Epre. cbn [fst snd] in Epre. rewrite Eoff, Hmc in Epre. fold q in Epre.
    unfold cbind at 1 in Epre. unfold clift at 1 in Epre. rewrite Hsl in Epre. unfold cbind at 1 in Epre. unfold clift at 1 in Epre. rewrite Hrl in Epre.
    unfold cbind at 1 in Epre.
    assert (Hrs : (exists s2, (if length W <=? n then m_resize_rr true (n - length W) else m_resize_rr false (length W - n)) (v, it) = (s2, Ok tt) /\
                     it_offset (snd s2) = Some off /\ it_section (snd s2) = it_section it /\
                     off + n <= length (pp_packet (fst s2))) \/
                  (if length W <=? n then m_resize_rr true (n - length W) else m_resize_rr false (length W - n)) (v, it) = ((v, it), Err PacketTooLarge)).
    { destruct (length W <=? n) eqn:Ecmp.
      - destruct (n - length W) as [|k'] eqn:Ek.
        + left. exists (v, it). unfold m_resize_rr. cbn [Nat.eqb]. unfold cret. cbn [fst snd]. fold q. repeat split; try assumption; lia.
        + rewrite <- Ek.
          destruct (resize_runs true (n - length W) v it off sec (off + k) ltac:(lia) Eoff Enext' Hlen ltac:(lia) ltac:(discriminate) (Hcs it Eoff) Hsec)
            as [(s2 & Hr & Ho & Hs & _)|[_ Hr]].
          * intros Hg; discriminate.
          * intros Hg; discriminate.
          * left. exists s2. split; [exact Hr|]. split; [exact Ho|]. split; [exact Hs|].
            destruct (resize_view true (n - length W) v it s2 off sec ltac:(lia) Eoff (Hcs it Eoff) ltac:(destruct Hsec as [->|[->| ->]]; discriminate) Hr)
              as (p' & oed & oar & ons & onext & (Hle & Ep) & _ & _ & _ & Es1).
            rewrite Es1. cbn [fst pp_update pp_packet]. rewrite Ep, !app_length, !firstn_length, app_length, repeat_length, skipn_length. fold q. lia.
          * right. exact Hr.
      - left.
        destruct (resize_runs false (length W - n) v it off sec (off + k) ltac:(lia) Eoff Enext' Hlen ltac:(lia) ltac:(intros _; lia) (Hcs it Eoff) Hsec)
          as [(s2 & Hr & Ho & Hs & _)|[Hg _]]; [| |exists s2|discriminate].
        + intros _ E y Hy. specialize (Hoar E y Hy). fold off k in Hoar. lia.
        + intros _ E y Hy. specialize (Hons E y Hy). fold off k in Hons. lia.
        + split; [exact Hr|]. split; [exact Ho|]. split; [exact Hs|].
          destruct (resize_view false (length W - n) v it s2 off sec ltac:(lia) Eoff (Hcs it Eoff) ltac:(destruct Hsec as [->|[->| ->]]; discriminate) Hr)
            as (p' & oed & oar & ons & onext & (Hle & Ep) & _ & _ & _ & Es1).
          rewrite Es1. cbn [fst pp_update pp_packet]. rewrite Ep, !app_length, !firstn_length, skipn_length. fold q. lia. }
    destruct Hrs as [(s2 & Hr & Ho & Hs & Hfit)|Hr]; rewrite Hr in Epre; [|right; inversion Epre; auto].
    left. unfold cbind at 1 in Epre. unfold getv at 1 in Epre. cbn [fst snd] in Epre. unfold cbind at 1 in Epre. unfold clift at 1 in Epre.
    unfold write_at in Epre. rewrite firstn_length in Epre. replace (Init.Nat.min n (length nm)) with n in Epre by lia.
    replace (off + n <=? length (pp_packet (fst s2))) with true in Epre by lia.
    unfold cbind at 1 in Epre. unfold putv at 1 in Epre. cbn [fst snd] in Epre. unfold cret in Epre. inversion Epre; subst s1 r1. cbn [snd]. auto. }
  destruct Hpre as [(-> & Ho1 & Hs1)|(-> & ->)]; [|right; eauto].
  left.
  (* the cursor's recompute on the new bytes *)
  destruct (set_name_view_k nm (cret tt) v it s1 off sec n W ltac:(intros ? ? ? E; inversion E; reflexivity) Hmc Eoff (Hcs it Eoff)
              ltac:(destruct Hsec as [->|[->| ->]]; discriminate) Hck Hn Hsl Hrl ltac:(fold q; lia)) as (Wpk & _); [|exact Epre|].
  { intros y Hy Hlt. specialize (Hed Hno y Hy Hlt). fold off k in Hed. lia. }
  fold q in Wpk.
  assert (Ep2 : pp_packet (fst s1) = (H ++ B1) ++ wire_of_labels ls ++ (tl ++ B2)).
  { rewrite Wpk, Hseg. rewrite Eq' at 1 2. rewrite <- LHB. rewrite firstn_app_exact. f_equal. f_equal.
    rewrite skipn_app, skipn_all2 by lia. cbn [app]. replace (length (H ++ B1) + length W - length (H ++ B1)) with (length W) by lia.
    apply skipn_app_exact. }
  pose proof (cname_l_mid ls (H ++ B1) (tl ++ B2) Hlok Hl255) as Hcn. rewrite <- Ep2, LHB in Hcn.
  assert (Hck2 : check_compressed_name (pp_packet (fst s1)) off = Ok (off + length (wire_of_labels ls))) by (apply check_compressed_name_iff; exists ls; exact Hcn).
  assert (Lp2 : length (pp_packet (fst s1)) = off + length (wire_of_labels ls) + length tl + length B2) by (rewrite Ep2, app_length, LHB, !app_length; lia).
  unfold m_recompute_rr, cbind, getv, getit, clift, putit. cbn [fst snd]. rewrite Ho1. cbn [unwrap].
  rewrite (skip_name_agrees _ _ _ Hck2 ltac:(lia)).
  assert (Esq : section_eqb (it_section (snd s1)) SQuestion = false) by (rewrite Hs1; destruct (it_section it); try reflexivity; congruence).
  rewrite Esq. unfold skip_rdata, rri_rdlen, DNS_RR_RDLEN_OFFSET, be16_at, byte_at.
  destruct (nth_error (pp_packet (fst s1)) (off + length (wire_of_labels ls) + 8)) as [b1|] eqn:E1; [|apply nth_error_None in E1; lia].
  destruct (nth_error (pp_packet (fst s1)) (off + length (wire_of_labels ls) + 8 + 1)) as [b2|] eqn:E2; [|apply nth_error_None in E2; lia].
  cbn [bind]. eauto.
Qed.

(** a name the checker refuses changes nothing, whatever the object and the cursor *)
Lemma set_raw_name_invalid nm s e : check_compressed_name nm 0 = Err e -> m_set_raw_name nm s = (s, Err e).
Proof. intros H. unfold m_set_raw_name. unfold cbind at 1. unfold clift at 1. rewrite H. reflexivity. Qed.
