(** * A synthesised query is its own fresh parse (C08, synthesised packets as starting points). *)
From DV Require Import Model.Base Model.NameCheck Model.Parser Model.Header Model.Readers Model.Uncompress Model.Mutate Model.Gen
  Spec.NameSpec Spec.PacketSpec Spec.RecordSpec Spec.PlainSpec Proofs.ListLemmas Proofs.Hoare Proofs.ParserInv Proofs.ParseSound
  Proofs.ParseComplete Proofs.NameIff Proofs.NameCheckTotal Proofs.ReadersAgree Proofs.ReadersLabels Proofs.HeaderBits Proofs.QuestionSpec
  Proofs.WalkValues Proofs.WalkSkip Proofs.UncompressSpec Proofs.PlainWf Proofs.InsertLemmas Proofs.EdnsFacts Proofs.EdnsPos
  Proofs.EdnsPlain Proofs.InsertSpec Proofs.HeaderInv Proofs.ViewAfter Proofs.SynthTotal Proofs.NameText.
From Coq Require Import ZifyBool ZifyNat ZifyN.

Definition empty_obj (p : bytes) (oq : option nat) : ppacket :=
  {| pp_packet := p; pp_offset_question := oq; pp_offset_answers := None; pp_offset_nameservers := None; pp_offset_additional := None;
     pp_offset_edns := None; pp_edns_count := 0; pp_ext_rcode := None; pp_edns_version := None; pp_ext_flags := None;
     pp_maybe_compressed := false; pp_max_payload := DNS_MAX_UNCOMPRESSED_SIZE_N; pp_cached := None |}.
Lemma empty_query_start tid : (v <- pp_empty tid ;; pp_set_response v false) = Ok (empty_obj (be16_bytes tid ++ [1; 0; 0; 0; 0; 0; 0; 0; 0; 0]%N) None).
Proof. unfold pp_empty, pp_set_tid, pk_set_tid, pp_set_flags, pk_set_flags, pp_set_response, pk_set_response, write_at, be16_at, byte_at, DNS_TID_OFFSET, DNS_FLAGS_OFFSET, pp_with_packet, empty_obj.
 cbn [pp_packet length repeat be16_bytes Nat.add Nat.leb bind firstn skipn app nth_error pp_offset_question pp_offset_answers pp_offset_nameservers pp_offset_additional pp_offset_edns pp_edns_count pp_ext_rcode pp_edns_version pp_ext_flags pp_maybe_compressed pp_max_payload pp_cached]. 
 reflexivity.
Qed.
Lemma insert_question_into_empty a b rr it : length rr <= 300 ->
  insert_core SQuestion rr (empty_obj [a; b; 1; 0; 0; 0; 0; 0; 0; 0; 0; 0]%N None, it) =
  ((empty_obj ([a; b; 1; 0; 0; 1; 0; 0; 0; 0; 0; 0]%N ++ rr) (Some 12), it), Ok tt).
Proof.
  intros Hl. unfold insert_core. unfold cbind at 1. unfold getv at 1. cbn [fst snd]. unfold empty_obj. cbn [pp_packet length pp_offset_question pp_offset_answers pp_offset_nameservers pp_offset_additional pp_offset_edns pp_maybe_compressed pp_cached].
  match goal with |- context [if ?c then _ else _] => replace c with false by (unfold DNS_MAX_UNCOMPRESSED_SIZE, DNS_MAX_UNCOMPRESSED_SIZE_N; lia) end.
  unfold cbind, clift, putv, rrcount_inc, count_offset, insertion_offset, be16_at, byte_at, write_at, opt_or, omap_add, pp_update, empty_obj.
  cbn. rewrite app_nil_r. reflexivity.
Qed.

Lemma m_insert_rr_uncompressed sec rr v it : pp_maybe_compressed v = false -> m_insert_rr sec rr (v, it) = insert_core sec rr (v, it).
Proof. intros E. unfold m_insert_rr, insert_prologue, cbind, getv, cret. cbn [fst snd]. rewrite E. reflexivity. Qed.

Definition query_header (tid : N) : bytes := be16_bytes tid ++ [1; 0; 0; 1; 0; 0; 0; 0; 0; 0]%N.

Lemma gen_query_shape tid name qt cls v : gen_query tid name qt cls = Ok v ->
  exists w, copy_raw_name_from_str [] name None = Ok w /\
    v = empty_obj (query_header tid ++ w ++ be16_bytes qt ++ be16_bytes cls) (Some 12).
Proof.
  unfold gen_query. intros H.
  assert (E0 := empty_query_start tid). destruct (pp_empty tid) as [v0| |]; cbn [bind] in E0, H; try discriminate.
  rewrite E0 in H. cbn [bind] in H.
  unfold rr_new_question in H. destruct (copy_raw_name_from_str [] name None) as [w| |] eqn:Ew; cbn [bind] in H; try discriminate.
  exists w. split; [reflexivity|].
  destruct (copy_raw_name_from_str_len [] name None w Ew) as (enc & -> & Hlen & _). cbn [app] in *.
  unfold run_pp in H. rewrite m_insert_rr_uncompressed in H by reflexivity.
  change (be16_bytes tid ++ [1; 0; 0; 0; 0; 0; 0; 0; 0; 0]%N) with [(tid / 256) mod 256; tid mod 256; 1; 0; 0; 0; 0; 0; 0; 0; 0; 0]%N in H.
  rewrite insert_question_into_empty in H by (rewrite !app_length; cbn [length be16_bytes]; lia).
  inversion H. unfold query_header. cbn [be16_bytes app]. reflexivity.
Qed.

Lemma sec_ctx_nil sec s : sec_ctx sec s s [].
Proof.
  constructor; [|constructor]. intros pre post. cbv zeta. cbn [cat map concat length place app]. rewrite Nat.add_0_r.
  split; [constructor|]. split; constructor.
Qed.

Lemma tlabel_bytes_ok l : tlabel_ok l -> bytes_ok l.
Proof.
  intros (_ & _ & Hok). unfold bytes_ok. induction l as [|c l IH]; [constructor|]. cbn [forallb] in Hok. apply andb_true_iff in Hok.
  destruct Hok as [Hc Hl]. constructor; [unfold text_char_ok in Hc; lia|exact (IH Hl)].
Qed.

(** ** The theorem: [gen::query] with class IN returns an object whose bytes the parser accepts, which are pointer-free (a fixed point of
    decompression, flag cleared), and whose view - section offsets, EDNS position, option count, extended rcode, version, flags,
    empty cache - is that of the parse of these bytes; the question is the labels of the text, the type and the class given; the
    header carries the transaction id given, RD, one question and nothing else.  (The advertised payload size is 8192 in the
    synthesised object and 512 in a parse of a packet without OPT record; C08 does not list it.) *)
Theorem query_is_fresh_parse : forall tid name qt v, (tid < 65536)%N -> (qt < 65536)%N -> gen_query tid name qt CLASS_IN = Ok v ->
  exists ls f,
    Forall label_ok ls /\ (name = dotted ls \/ name = dots ls \/ (name = [46%N] /\ ls = [])) /\
    pp_packet v = query_header tid ++ wire_of_labels ls ++ be16_bytes qt ++ be16_bytes CLASS_IN /\
    bytes_ok (pp_packet v) /\ parse (pp_packet v) = Ok f /\ view_of_parse v f (pp_packet v) /\
    pp_maybe_compressed v = false /\ uncompress (pp_packet v) = Ok (pp_packet v) /\
    reading (pp_packet v) ls qt [] [] [].
Proof.
  intros tid name qt v Htid Hqt H. destruct (gen_query_shape tid name qt CLASS_IN v H) as (w & Hw & ->).
  destruct (from_str_sound [] name None w Hw) as (ls & Htl & Hcase).
  destruct (from_str_is_policy_name [] name w Hw) as (ls' & Hp' & Ew' & Hl' & _ & Hn').
  assert (Hp : Forall label_ok ls) by (eapply Forall_impl; [|exact Htl]; intros l Hl; apply tlabel_label_ok; exact Hl).
  assert (Ew : w = wire_of_labels ls /\ length (wire_of_labels ls) <= 253 /\ (name = dotted ls \/ name = dots ls \/ (name = [46%N] /\ ls = []))).
  { destruct Hcase as [(Hne & Hn & Hw1 & Hl)|(Hn & Hw1 & Hl)]; cbn [app] in Hw1.
    - cbn [zone_or_root] in Hw1, Hl. unfold wire_of_labels. auto.
    - split; [exact Hw1|]. split; [exact Hl|]. destruct Hn as [Hn|Hn]; auto. }
  destruct Ew as (-> & Hl & Hn). clear ls' Hp' Ew' Hl' Hn'.
  assert (Hbw : bytes_ok (wire_of_labels ls)).
  { apply bytes_ok_wire; [exact Hp|]. eapply Forall_impl; [|exact Htl]. intros l Hl0. exact (tlabel_bytes_ok l Hl0). }
  set (Hd := query_header tid).
  assert (HH : length Hd = 12) by reflexivity.
  assert (HbH : bytes_ok Hd).
  { unfold Hd, query_header, bytes_ok. cbn [be16_bytes app]. repeat constructor; lia. }
  assert (U2 : u16_at Hd 2 256%N) by (exists 1%N, 0%N; repeat split).
  assert (U4 : u16_at Hd 4 1%N) by (exists 0%N, 1%N; repeat split).
  assert (U6 : u16_at Hd 6 (N.of_nat (length (@nil (rec_view * rd_view))))) by (exists 0%N, 0%N; repeat split).
  assert (Hg : N.land 256 32768 <> 32768%N -> length (@nil (rec_view * rd_view)) = 0 /\ length (@nil (rec_view * rd_view)) = 0) by (intros _; split; reflexivity).
  assert (Epk : Hd ++ wire_of_labels ls ++ be16_bytes qt ++ be16_bytes CLASS_IN = build Hd ls qt [] [] []).
  { unfold build, plain_question. cbn [cat map concat]. rewrite ?app_nil_r, <- ?app_assoc. reflexivity. }
  set (q := build Hd ls qt [] [] []) in *.
  destruct (build_wf Hd ls qt 256%N [] [] [] false false false HH HbH U2 U4 U6 U6 U6 Hg Hp ltac:(lia) Hbw Hqt
              (sec_ctx_nil SAnswer false) (sec_ctx_nil SNameServers false) (sec_ctx_nil SAdditional false)) as (Hbq & Wq & _ & Rq).
  pose proof (build_parts Hd ls qt 256%N [] [] [] false false false HH U2 U4 U6 U6 U6 Hg Hp ltac:(lia) Hbw Hqt
              (sec_ctx_nil SAnswer false) (sec_ctx_nil SNameServers false) (sec_ctx_nil SAdditional false)) as P.
  fold q in Hbq, Wq, Rq, P.
  destruct (parse_complete q Hbq Wq) as (f & Hf).
  pose proof (build_fixed q f _ _ _ _ _ _ _ _ _ Hbq Hf P) as Hfix.
  destruct (parse_offsets q f _ _ _ _ _ _ _ _ _ Hbq Hf P) as (Oa & On & Or). cbn [length Nat.ltb Nat.leb] in Oa, On, Or.
  destruct (parse_shape _ _ Hbq Hf) as (? & ? & ? & ? & ? & ? & ? & Ff).
  destruct (build_summary q f _ _ _ _ _ _ _ _ _ Hbq Hf P) as (Sz & _). cbn [opt_rel] in Sz.
  exists ls, f. unfold empty_obj. cbn [pp_packet pp_maybe_compressed]. fold Hd. rewrite Epk.
  split; [exact Hp|]. split; [exact Hn|]. split; [reflexivity|]. split; [exact Hbq|]. split; [exact Hf|].
  split.
  { unfold view_of_parse. cbn [pp_packet pp_offset_question pp_offset_answers pp_offset_nameservers pp_offset_additional pp_offset_edns
      pp_edns_count pp_ext_rcode pp_edns_version pp_ext_flags pp_cached].
    destruct Sz as (S1 & S2 & S3 & S4 & S5 & _). rewrite (pf_oq _ _ _ _ _ _ _ _ _ Ff), Oa, On, Or, S1, S2, S3, S4, S5. repeat split; reflexivity. }
  split; [reflexivity|]. split; [exact Hfix|exact Rq].
Qed.

(** ** The question getters on a synthesised query (C04 on synthesised packets): the four getters, cache empty and filled, return the
    labels of the text (wire, wire without root, lower-cased dotted text) with the type and class given *)
Theorem query_getters : forall tid name qt v, (tid < 65536)%N -> (qt < 65536)%N -> gen_query tid name qt CLASS_IN = Ok v ->
  exists ls, Forall label_ok ls /\ (name = dotted ls \/ name = dots ls \/ (name = [46%N] /\ ls = [])) /\
    let wire := wire_of_labels ls in
    let v' := pp_with_cached v (Some (wire, qt, CLASS_IN)) in
    pp_question_raw0 v = Ok (v', Some (wire, qt, CLASS_IN)) /\
    pp_question_raw v = Ok (v', Some (labels_flat ls, qt, CLASS_IN)) /\
    pp_question v = Ok (Some (ascii_lowercase (dotted ls), qt, CLASS_IN)) /\
    pp_qtype_qclass v = Ok (Some (qt, CLASS_IN)) /\
    pp_question_raw0 v' = Ok (v', Some (wire, qt, CLASS_IN)) /\
    pp_question_raw v' = Ok (v', Some (labels_flat ls, qt, CLASS_IN)) /\
    pp_question v' = Ok (Some (ascii_lowercase (dotted ls), qt, CLASS_IN)) /\
    pp_qtype_qclass v' = Ok (Some (qt, CLASS_IN)).
Proof.
  intros tid name qt v Htid Hqt H.
  destruct (query_is_fresh_parse tid name qt v Htid Hqt H) as (ls & f & Hp & Hn & _ & Hb & Hf & Hview & _ & _ & Rd).
  exists ls. split; [exact Hp|]. split; [exact Hn|]. cbv zeta.
  set (p := pp_packet v) in *.
  assert (Hq : question_of p ls qt CLASS_IN).
  { destruct Rd as [(qe & e1 & e2 & Hcn & Ht & Hc & Hl & _) _ _ _ _]. constructor. exists qe. auto. }
  destruct Hview as (_ & Eoq & _ & _ & _ & _ & _ & _ & _ & _ & Hc).
  destruct (parse_shape p f Hb Hf) as (sq & san & sns & sar & an & ns & ar & F).
  assert (Hoq : pp_offset_question v = Some 12) by (rewrite Eoq; exact (pf_oq _ _ _ _ _ _ _ _ _ F)).
  assert (Hv : pp_packet v = p) by reflexivity.
  set (v' := pp_with_cached v (Some (wire_of_labels ls, qt, CLASS_IN))).
  assert (Hv' : pp_packet v' = p) by exact Hv.
  assert (Hoq' : pp_offset_question v' = Some 12) by exact Hoq.
  assert (Hc' : pp_cached v' = Some (wire_of_labels ls, qt, CLASS_IN)) by reflexivity.
  split; [apply (question_raw0_uncached p v ls qt CLASS_IN Hb Hv Hoq Hq Hc)|].
  split; [apply (question_raw_uncached p v ls qt CLASS_IN Hb Hv Hoq Hq Hc)|].
  split; [apply (question_uncached p v ls qt CLASS_IN Hb Hv Hoq Hq Hc)|].
  split; [apply (qtype_qclass_uncached p v ls qt CLASS_IN Hv Hoq Hq Hc)|].
  split; [apply (question_raw0_cached v' ls qt CLASS_IN Hc')|].
  split; [apply (question_raw_cached v' ls qt CLASS_IN Hc')|].
  split; [apply (question_cached p v' ls qt CLASS_IN Hb Hq Hc')|].
  apply (qtype_qclass_cached v' ls qt CLASS_IN Hc').
Qed.
