(** * The two operations that re-derive the view from a parse, from any state (C08).

    Whatever the history of the object, when [recompute] (on an object marked as possibly compressed)
    or the rename wrapper succeeds, the object holds exactly the bytes that were parsed and its section
    offsets, EDNS offset, option count, extended rcode, version and flags are those of that fresh
    parse; the cache is empty.  (The advertised payload size is carried over from the old view: it is
    not part of the implementation's consistency assertion.) *)

From DV Require Import Model.Base Model.Parser Model.Header Model.Readers Model.Uncompress Model.Mutate Model.Compress
  Model.Renamer Proofs.Hoare.
From Coq Require Import ZifyBool ZifyNat ZifyN.

Definition view_of_parse (w f : ppacket) (bytes_ : bytes) : Prop :=
  pp_packet w = bytes_ /\
  pp_offset_question w = pp_offset_question f /\ pp_offset_answers w = pp_offset_answers f /\
  pp_offset_nameservers w = pp_offset_nameservers f /\ pp_offset_additional w = pp_offset_additional f /\
  pp_offset_edns w = pp_offset_edns f /\ pp_edns_count w = pp_edns_count f /\ pp_ext_rcode w = pp_ext_rcode f /\
  pp_edns_version w = pp_edns_version f /\ pp_ext_flags w = pp_ext_flags f /\ pp_cached w = None.

Lemma opt_N_eqb_eq a b : opt_N_eqb a b = true -> a = b.
Proof. destruct a, b; cbn; intros H; try discriminate; [f_equal; lia|reflexivity]. Qed.

Lemma summary_same_eq v f : edns_summary_same v f = true ->
  pp_edns_count v = pp_edns_count f /\ pp_ext_rcode v = pp_ext_rcode f /\ pp_edns_version v = pp_edns_version f /\
  pp_ext_flags v = pp_ext_flags f.
Proof.
  unfold edns_summary_same. intros H. apply andb_true_iff in H. destruct H as [H H4]. apply andb_true_iff in H. destruct H as [H H3].
  apply andb_true_iff in H. destruct H as [H1 H2].
  split; [lia|]. split; [apply opt_N_eqb_eq; exact H2|]. split; apply opt_N_eqb_eq; assumption.
Qed.

Theorem recompute_view : forall v it s', pp_maybe_compressed v = true -> m_recompute (v, it) = (s', Ok tt) ->
  exists u f, uncompress (pp_packet v) = Ok u /\ parse u = Ok f /\ view_of_parse (fst s') f u /\
              pp_maybe_compressed (fst s') = false /\ snd s' = it.
Proof.
  intros v it s' Hmc. unfold m_recompute, cbind, getv, clift, putv. cbn [fst snd]. rewrite Hmc. cbn [negb].
  destruct (uncompress (pp_packet v)) as [u| |] eqn:Eu; try (intros H; inversion H; fail).
  destruct (parse u) as [f| |] eqn:Ef; try (intros H; inversion H; fail).
  destruct (edns_summary_same v f) eqn:Es; cbn [negb]; [|intros H; inversion H].
  intros H. inversion H; subst s'. clear H. exists u, f. split; [reflexivity|]. split; [exact Ef|].
  destruct (summary_same_eq _ _ Es) as (A & B & C & D).
  unfold view_of_parse, pp_update. cbn. repeat split; assumption.
Qed.

Theorem rename_view : forall target source sfx v it s', m_rename target source sfx (v, it) = (s', Ok tt) ->
  exists r f, renamer_rename v target source sfx = Ok r /\ parse r = Ok f /\ view_of_parse (fst s') f r /\
              pp_maybe_compressed (fst s') = true /\ snd s' = it.
Proof.
  intros target source sfx v it s'. unfold m_rename, cbind, getv, clift, putv. cbn [fst snd].
  destruct (renamer_rename v target source sfx) as [r| |] eqn:Er; try (intros H; inversion H; fail).
  destruct (parse r) as [f| |] eqn:Ef; try (intros H; inversion H; fail).
  destruct (edns_summary_same v f) eqn:Es; cbn [negb]; [|intros H; inversion H].
  intros H. inversion H; subst s'. clear H. exists r, f. split; [reflexivity|]. split; [exact Ef|].
  destruct (summary_same_eq _ _ Es) as (A & B & C & D).
  unfold view_of_parse, pp_update. cbn. repeat split; assumption.
Qed.
