(** * Buffer discipline of the C facade (part of C15): what the table entries copy out fits the
    buffers the header declares. *)
From DV Require Import Model.Base Model.Parser Model.Header Model.Readers Model.Uncompress Model.Mutate
  Model.Gen Proofs.Hoare Proofs.SynthTotal Proofs.UncompressFrame.
From Coq Require Import ZifyBool ZifyNat ZifyN.

Lemma slice_length p a b site r : slice p a b site = Ok r -> length r = b - a.
Proof.
  unfold slice. destruct ((a <=? b) && (b <=? length p)) eqn:E; [|discriminate].
  intros H; inversion H; subst. rewrite firstn_length, skipn_length. lia.
Qed.

(** [rr_ip] hands back exactly 4 or exactly 16 address bytes. *)
Theorem rr_ip_len : forall v it ip, it_rr_ip v it = Ok ip -> length ip = 4 \/ length ip = 16.
Proof.
  intros v it ip H. unfold it_rr_ip in H.
  apply bind_ok in H. destruct H as (t & _ & H).
  apply bind_ok in H. destruct H as (rd & _ & H).
  unfold DNS_RR_HEADER_SIZE in H.
  destruct (t =? TYPE_A)%N.
  - destruct (length rd <? 10 + 4); [discriminate|]. left. apply slice_length in H. lia.
  - destruct (t =? TYPE_AAAA)%N; [|discriminate].
    destruct (length rd <? 10 + 16); [discriminate|]. right. apply slice_length in H. lia.
Qed.

(** [raw_name_from_str] writes at most 253 bytes into the 256-byte buffer. *)
Theorem name_from_str_fits : forall name w,
  raw_name_from_str name None = Ok w -> length w <= 253 /\ 253 < DNS_MAX_HOSTNAME_LEN + 1.
Proof.
  intros name w H. unfold raw_name_from_str in H.
  destruct (copy_raw_name_from_str_len [] name None w H) as (enc & -> & Hl & _).
  cbn [app]. unfold DNS_MAX_HOSTNAME_LEN. lia.
Qed.

(** [raw_packet] copies the packet only when it fits the capacity the caller states. *)
Definition facade_raw_packet (v : ppacket) (max_len : nat) : option bytes :=
  if length (pp_packet v) <=? max_len then Some (pp_packet v) else None.

Theorem raw_packet_fits : forall v max_len out,
  facade_raw_packet v max_len = Some out -> length out <= max_len /\ out = pp_packet v.
Proof.
  intros v m out. unfold facade_raw_packet. destruct (length (pp_packet v) <=? m) eqn:E; [|discriminate].
  intros H; inversion H; subst. split; [lia|reflexivity].
Qed.
