(** * Text to wire form of host names, label by label (C14).

    [copy_raw_name_from_str] (src/synth/gen.rs:24-70) accepts exactly the texts that are a list of
    labels - non-empty, at most 62 bytes, no dot, no byte above 128 - joined by dots, optionally
    followed by a final dot, with an encoded length of at most 253 bytes; it appends each label
    prefixed by its length, then the root byte or, for a text without a final dot, the default zone.
    Texts with an empty interior label, a run of 63 non-dot bytes or more than 253 bytes are
    errors. On labels the parser's name policy admits, reading the produced wire name back as text
    gives the labels joined by dots. *)

From DV Require Import Model.Base Model.NameCheck Model.Parser Model.Header Model.Readers Model.Uncompress
  Model.Mutate Model.Gen Spec.NameSpec Spec.PacketSpec Spec.RecordSpec Proofs.ListLemmas Proofs.Hoare
  Proofs.NameIff Proofs.ReadersLabels Proofs.QuestionSpec.
From Coq Require Import ZifyBool ZifyNat ZifyN.

Definition text_char_ok (c : N) : bool := negb (c =? 46)%N && negb (128 <? c)%N && negb (c <? 32)%N && negb (c =? 127)%N && negb (c =? 92)%N.
Definition tlabel_ok (l : bytes) : Prop := l <> [] /\ length l <= 62 /\ forallb text_char_ok l = true.

(** every label followed by a dot *)
Definition dots (ls : list bytes) : bytes := flat_map (fun l => l ++ [46%N]) ls.

Lemma dots_dotted ls last : dots ls ++ last = dotted (ls ++ [last]).
Proof.
  destruct ls as [|l ls]; [cbn; rewrite app_nil_r; reflexivity|]. cbn [dots flat_map app dotted].
  rewrite <- !app_assoc. f_equal. cbn [app].
  induction ls as [|x ls IH]; cbn [flat_map app]; [rewrite app_nil_r; reflexivity|].
  rewrite <- !app_assoc. cbn [app]. f_equal. f_equal. exact IH.
Qed.

Lemma dots_trailing ls : ls <> [] -> dots ls = dotted ls ++ [46%N].
Proof.
  intros H. destruct (exists_last H) as (ls' & last & ->).
  rewrite <- dots_dotted. unfold dots. rewrite flat_map_app. cbn [flat_map]. rewrite app_nil_r, app_assoc. reflexivity.
Qed.

Lemma labels_flat_app a b : labels_flat (a ++ b) = labels_flat a ++ labels_flat b.
Proof. unfold labels_flat. apply flat_map_app. Qed.

Section Loop.
  Variable n : nat.

  Lemma crn_char c cs cur out : text_char_ok c = true -> length cur < 62 ->
    crn_loop n (c :: cs) cur out = crn_loop n cs (cur ++ [c]) out.
  Proof.
    intros Hc Hl. unfold text_char_ok in Hc. cbn [crn_loop].
    destruct (c =? 46)%N eqn:E; [lia|]. destruct (63 - 1 <=? length cur) eqn:E2; [lia|].
    destruct (128 <? c)%N eqn:E3; [lia|]. destruct ((c <? 32) || (c =? 127) || (c =? 92))%N eqn:E4; [lia|]. reflexivity.
  Qed.

  Lemma crn_label : forall l cs cur out, forallb text_char_ok l = true -> length cur + length l <= 62 ->
    crn_loop n (l ++ cs) cur out = crn_loop n cs (cur ++ l) out.
  Proof.
    induction l as [|c l IH]; intros cs cur out Hok Hl; [rewrite app_nil_r; reflexivity|].
    cbn [forallb] in Hok. apply andb_true_iff in Hok. destruct Hok as [Hc Hok]. cbn [app length] in *.
    rewrite crn_char by (auto; lia). rewrite IH by (auto; rewrite app_length; cbn; lia).
    rewrite <- app_assoc. reflexivity.
  Qed.

  Lemma crn_dot cs cur out : cur <> [] ->
    crn_loop n (46%N :: cs) cur out = crn_loop n cs [] (out ++ [N.of_nat (length cur)] ++ cur).
  Proof.
    intros H. cbn [crn_loop]. replace (46 =? 46)%N with true by reflexivity.
    destruct cur; [congruence|]. reflexivity.
  Qed.

  Lemma crn_labels : forall ls cs out, Forall tlabel_ok ls ->
    crn_loop n (dots ls ++ cs) [] out = crn_loop n cs [] (out ++ labels_flat ls).
  Proof.
    induction ls as [|l ls IH]; intros cs out H; [cbn; rewrite app_nil_r; reflexivity|].
    inversion H as [|? ? (Hne & Hlen & Hok) Hrest]; subst.
    cbn [dots flat_map]. rewrite <- !app_assoc. rewrite crn_label by (auto; cbn; lia). cbn [app].
    rewrite crn_dot by exact Hne. fold (dots ls). rewrite IH by exact Hrest.
    unfold labels_flat. cbn [flat_map]. rewrite <- !app_assoc. reflexivity.
  Qed.

  (** soundness of the loop: what was consumed is a list of well-formed labels, each followed by a
      dot, then the pending label *)
  Lemma crn_sound : n <> 1 -> forall cs cur out out' cur',
    crn_loop n cs cur out = Ok (out', cur') -> length cur <= 62 -> forallb text_char_ok cur = true ->
    exists ls, Forall tlabel_ok ls /\ out' = out ++ labels_flat ls /\ cur ++ cs = dots ls ++ cur' /\
               length cur' <= 62 /\ forallb text_char_ok cur' = true.
  Proof.
    intros Hn. induction cs as [|c cs IH]; intros cur out out' cur' H Hl Hok; cbn [crn_loop] in H.
    - inversion H; subst. exists []. cbn. rewrite !app_nil_r. auto.
    - destruct (c =? 46)%N eqn:E.
      + assert (c = 46%N) by lia. subst c.
        destruct (length cur =? 0) eqn:E0.
        * destruct (n =? 1) eqn:E1; [lia|]. cbn in H. discriminate.
        * apply IH in H; [|cbn; lia|reflexivity]. destruct H as (ls & Hls & Ho & Hc & Hl' & Hok').
          exists (cur :: ls). split; [constructor; [repeat split; [destruct cur; [cbn in E0; lia|congruence]|lia|exact Hok]|exact Hls]|].
          split; [rewrite Ho; unfold labels_flat; cbn [flat_map]; rewrite <- !app_assoc; reflexivity|].
          split; [cbn [dots flat_map]; cbn [app] in Hc; rewrite Hc; rewrite <- !app_assoc; reflexivity|auto].
      + destruct (63 - 1 <=? length cur) eqn:E2; [discriminate|].
        destruct (128 <? c)%N eqn:E3; [discriminate|].
        destruct ((c <? 32) || (c =? 127) || (c =? 92))%N eqn:E4; [discriminate|].
        apply IH in H.
        * destruct H as (ls & Hls & Ho & Hc & Hl' & Hok'). exists ls. repeat split; auto.
          rewrite <- Hc. rewrite <- app_assoc. reflexivity.
        * rewrite app_length. cbn. lia.
        * rewrite forallb_app, Hok. cbn. unfold text_char_ok. lia.
  Qed.

  (** rejections *)
  Lemma crn_double_dot b : n <> 1 -> forall a cur out, crn_loop n (a ++ 46%N :: 46%N :: b) cur out = Err InvalidName.
  Proof.
    intros Hn. assert (Hn1 : negb (n =? 1) = true) by lia.
    induction a as [|c a IH]; intros cur out; cbn [app crn_loop].
    - replace (46 =? 46)%N with true by reflexivity.
      destruct (length cur =? 0); [rewrite Hn1; reflexivity|].
      cbn [crn_loop length Nat.eqb]. replace (46 =? 46)%N with true by reflexivity. cbn [length Nat.eqb]. rewrite Hn1. reflexivity.
    - destruct (c =? 46)%N.
      + destruct (length cur =? 0); [rewrite Hn1; reflexivity|apply IH].
      + destruct (63 - 1 <=? length cur); [reflexivity|]. destruct (128 <? c)%N; [reflexivity|]. destruct ((c <? 32) || (c =? 127) || (c =? 92))%N; [reflexivity|apply IH].
  Qed.

  Lemma crn_leading_dot b cur out : n <> 1 -> cur = [] -> crn_loop n (46%N :: b) cur out = Err InvalidName.
  Proof.
    intros Hn ->. cbn [crn_loop length Nat.eqb]. replace (46 =? 46)%N with true by reflexivity.
    replace (negb (n =? 1)) with true by lia. reflexivity.
  Qed.

  Lemma crn_long_run b : forall l cur out, forallb (fun c => negb (c =? 46)%N) l = true -> l <> [] ->
    63 <= length cur + length l -> crn_loop n (l ++ b) cur out = Err InvalidName.
  Proof.
    induction l as [|c l IH]; intros cur out Hnd Hne Hlen; [congruence|].
    cbn [forallb] in Hnd. apply andb_true_iff in Hnd. destruct Hnd as [Hc Hnd].
    cbn [app crn_loop]. destruct (c =? 46)%N eqn:E; [cbn in Hc; discriminate|].
    destruct (63 - 1 <=? length cur) eqn:E2; [reflexivity|]. destruct (128 <? c)%N; [reflexivity|].
    destruct ((c <? 32) || (c =? 127) || (c =? 92))%N; [reflexivity|].
    destruct l as [|c' l']; [cbn in Hlen; lia|].
    apply IH; [exact Hnd|discriminate|rewrite app_length; cbn [length] in *; lia].
  Qed.
End Loop.

Lemma flat_lengths ls : length (flat_map (fun x : bytes => 46%N :: x) ls) = length (labels_flat ls).
Proof.
  unfold labels_flat. induction ls as [|x ls IH]; [reflexivity|]. cbn [flat_map]. rewrite !app_length. cbn [length]. lia.
Qed.

Lemma labels_flat_length_dotted ls : ls <> [] -> length (dotted ls) + 1 = length (labels_flat ls).
Proof.
  intros H. destruct ls as [|l ls]; [congruence|]. cbn [dotted]. rewrite app_length, flat_lengths.
  unfold labels_flat. cbn [flat_map]. rewrite app_length. cbn [length]. fold (labels_flat ls). lia.
Qed.

Definition zone_or_root (z : option bytes) : bytes := match z with None => [0%N] | Some z => z end.

(** ** Acceptance: well-formed labels within the length limit are encoded label by label *)
Theorem from_str_accepts_open : forall raw ls last z,
  Forall tlabel_ok ls -> tlabel_ok last ->
  length (labels_flat (ls ++ [last]) ++ zone_or_root z) <= 253 ->
  copy_raw_name_from_str raw (dotted (ls ++ [last])) z = Ok (raw ++ labels_flat (ls ++ [last]) ++ zone_or_root z).
Proof.
  intros raw ls last z Hls (Hne & Hlen & Hok) Hl.
  assert (Hd : length (dotted (ls ++ [last])) + 1 = length (labels_flat (ls ++ [last])))
    by (apply labels_flat_length_dotted; destruct ls; discriminate).
  rewrite app_length in Hl.
  unfold copy_raw_name_from_str. destruct (253 <? length (dotted (ls ++ [last]))) eqn:E; [lia|].
  rewrite <- dots_dotted. rewrite <- (app_nil_r last) at 2.
  rewrite crn_labels by exact Hls. rewrite crn_label by (auto; cbn; lia). cbn [crn_loop bind app].
  destruct (length last =? 0) eqn:E0; [destruct last; [congruence|cbn in E0; lia]|].
  assert (Ho : labels_flat ls ++ [N.of_nat (length last)] ++ last ++ zone_or_root z =
               labels_flat (ls ++ [last]) ++ zone_or_root z).
  { rewrite labels_flat_app. unfold labels_flat at 3. cbn [flat_map]. rewrite app_nil_r. rewrite <- !app_assoc. reflexivity. }
  unfold zone_or_root in *.
  match goal with |- context [253 <? length ?o] => replace o with (labels_flat (ls ++ [last]) ++ match z with None => [0%N] | Some z0 => z0 end) end.
  all: try (rewrite <- Ho; destruct z; reflexivity).
  assert (Hf : forall x, x <= 253 -> (253 <? x) = false) by (intros; apply Nat.ltb_ge; lia).
  rewrite Hf; [reflexivity|]. rewrite app_length. exact Hl.
Qed.

Theorem from_str_accepts_closed : forall raw ls z,
  Forall tlabel_ok ls -> length (wire_of_labels ls) <= 253 ->
  copy_raw_name_from_str raw (dots ls) z = Ok (raw ++ wire_of_labels ls).
Proof.
  intros raw ls z Hls Hl. unfold wire_of_labels in *. rewrite app_length in Hl. cbn [length] in Hl.
  assert (Hd : length (dots ls) <= length (labels_flat ls)).
  { destruct ls as [|l ls']; [cbn; lia|]. rewrite dots_trailing by discriminate.
    rewrite app_length. cbn [length]. rewrite <- (labels_flat_length_dotted (l :: ls')) by discriminate. lia. }
  unfold copy_raw_name_from_str. destruct (253 <? length (dots ls)) eqn:E; [lia|].
  rewrite <- (app_nil_r (dots ls)). rewrite crn_labels by exact Hls. cbn [crn_loop bind app length Nat.eqb].
  rewrite app_length. cbn [length]. match goal with |- context [253 <? ?xx] => destruct (253 <? xx) eqn:E3 end; [lia|]. reflexivity.
Qed.

(** ** Soundness: whatever is accepted is such a text, encoded label by label *)
Theorem from_str_sound : forall raw name z w,
  copy_raw_name_from_str raw name z = Ok w ->
  exists ls, Forall tlabel_ok ls /\
    ((ls <> [] /\ name = dotted ls /\ w = raw ++ labels_flat ls ++ zone_or_root z /\
      length (labels_flat ls ++ zone_or_root z) <= 253)
     \/ ((name = dots ls \/ (name = [46%N] /\ ls = [])) /\ w = raw ++ wire_of_labels ls /\
         length (wire_of_labels ls) <= 253)).
Proof.
  intros raw name z w. unfold copy_raw_name_from_str.
  destruct (253 <? length name) eqn:E; [discriminate|].
  destruct (crn_loop (length name) name [] []) as [[out cur]| |] eqn:Ec; cbn [bind]; try discriminate.
  assert (Hcase : length name = 1 \/ length name <> 1) by lia. destruct Hcase as [H1|H1].
  - (* a single byte *)
    destruct name as [|c [|? ?]]; cbn in H1; try lia. cbn [crn_loop length] in Ec.
    destruct (c =? 46)%N eqn:E46.
    + cbn in Ec. inversion Ec; subst. cbn [length Nat.eqb app]. cbn. intros H. inversion H; subst.
      exists []. split; [constructor|]. right. assert (c = 46%N) by lia. subst c.
      split; [right; split; reflexivity|]. split; [reflexivity|cbn; lia].
    + cbn [length Nat.leb Nat.sub] in Ec. destruct (128 <? c)%N eqn:E128; [discriminate|]. destruct ((c <? 32) || (c =? 127) || (c =? 92))%N eqn:Ectl; [discriminate|]. cbn in Ec. inversion Ec; subst.
      cbn [length Nat.eqb app]. match goal with |- context [253 <? ?xx] => destruct (253 <? xx) eqn:E3 end; [discriminate|]. intros H. inversion H; subst.
      exists [[c]]. split.
      { constructor; [|constructor]. repeat split; [discriminate|cbn; lia|]. cbn. unfold text_char_ok. lia. }
      left. split; [discriminate|]. split; [reflexivity|]. unfold labels_flat. cbn [flat_map app length N.of_nat].
      split; [destruct z; reflexivity|]. cbn [app] in E3. destruct z; cbn [zone_or_root app length] in *; lia.
  - apply (crn_sound (length name) H1) in Ec; [|cbn; lia|reflexivity].
    destruct Ec as (ls & Hls & Ho & Hc & Hl' & Hok'). cbn [app] in Ho, Hc. subst out.
    destruct (length cur =? 0) eqn:E0.
    + assert (cur = []) by (destruct cur; [reflexivity|cbn in E0; lia]). subst cur. rewrite app_nil_r in Hc.
      match goal with |- context [253 <? ?xx] => destruct (253 <? xx) eqn:E3 end; [discriminate|]. intros H. inversion H; subst.
      exists ls. split; [exact Hls|]. right. split; [left; reflexivity|]. split; [reflexivity|].
      unfold wire_of_labels. lia.
    + match goal with |- context [253 <? ?xx] => destruct (253 <? xx) eqn:E3 end; [discriminate|]. intros H. inversion H; subst.
      exists (ls ++ [cur]). split.
      { apply Forall_app. split; [exact Hls|]. constructor; [|constructor].
        repeat split; [destruct cur; [cbn in E0; lia|discriminate]|exact Hl'|exact Hok']. }
      left. split; [destruct ls; discriminate|]. split; [apply dots_dotted|].
      assert (Ho : labels_flat ls ++ [N.of_nat (length cur)] ++ cur ++ zone_or_root z =
                   labels_flat (ls ++ [cur]) ++ zone_or_root z).
      { rewrite labels_flat_app. unfold labels_flat at 3. cbn [flat_map]. rewrite app_nil_r. rewrite <- !app_assoc. reflexivity. }
      unfold zone_or_root in *. rewrite <- Ho. split; [destruct z; reflexivity|].
      destruct z; cbn [app] in *; lia.
Qed.

(** ** Rejections *)
Theorem from_str_rejects_empty_label : forall raw a b z,
  copy_raw_name_from_str raw (a ++ 46%N :: 46%N :: b) z = Err InvalidName.
Proof.
  intros. unfold copy_raw_name_from_str. match goal with |- context [253 <? ?xx] => destruct (253 <? xx) end; [reflexivity|].
  rewrite crn_double_dot; [reflexivity|]. rewrite app_length. cbn. lia.
Qed.

Theorem from_str_rejects_leading_dot : forall raw b z, b <> [] ->
  copy_raw_name_from_str raw (46%N :: b) z = Err InvalidName.
Proof.
  intros raw b z Hb. unfold copy_raw_name_from_str. match goal with |- context [253 <? ?xx] => destruct (253 <? xx) end; [reflexivity|].
  rewrite crn_leading_dot; [reflexivity| |reflexivity]. destruct b; [congruence|cbn; lia].
Qed.

(** stated on the loop, which is what decides it: a run of 63 bytes without a dot, wherever the
    pending label stands, is an error *)
Theorem from_str_rejects_long_label : forall raw l b z,
  forallb (fun c => negb (c =? 46)%N) l = true -> 63 <= length l ->
  copy_raw_name_from_str raw (l ++ b) z = Err InvalidName.
Proof.
  intros raw l b z Hnd Hlen. unfold copy_raw_name_from_str. match goal with |- context [253 <? ?xx] => destruct (253 <? xx) end; [reflexivity|].
  rewrite crn_long_run; [reflexivity|exact Hnd|destruct l; [cbn in Hlen; lia|discriminate]|cbn; lia].
Qed.

Theorem from_str_rejects_long_label_after_dot : forall raw a l b z, a <> [] ->
  forallb text_char_ok a = true -> length a <= 62 ->
  forallb (fun c => negb (c =? 46)%N) l = true -> 63 <= length l ->
  copy_raw_name_from_str raw (a ++ 46%N :: l ++ b) z = Err InvalidName.
Proof.
  intros raw a l b z Ha Hok Hla Hnd Hlen. unfold copy_raw_name_from_str. match goal with |- context [253 <? ?xx] => destruct (253 <? xx) end; [reflexivity|].
  rewrite crn_label by (auto; cbn; lia). cbn [app]. rewrite crn_dot by exact Ha.
  rewrite crn_long_run; [reflexivity|exact Hnd|destruct l; [cbn in Hlen; lia|discriminate]|cbn; lia].
Qed.

Theorem from_str_rejects_long_text : forall raw name z, 253 < length name ->
  copy_raw_name_from_str raw name z = Err InvalidName.
Proof. intros raw name z H. unfold copy_raw_name_from_str. destruct (253 <? length name) eqn:E; [reflexivity|lia]. Qed.

(** ** Round trip on names the parser's policy admits *)
Definition ldh (c : N) : bool :=
  ((48 <=? c) && (c <=? 57) || (65 <=? c) && (c <=? 90) || (97 <=? c) && (c <=? 122) || (c =? 45) || (c =? 95))%N.

Lemma ldh_text c : ldh c = true -> text_char_ok c = true /\ label_char_ok c = true.
Proof. unfold ldh, text_char_ok, label_char_ok. intros H. split; lia. Qed.

Definition ldh_label (l : bytes) : Prop := l <> [] /\ length l <= 62 /\ forallb ldh l = true.

Lemma ldh_label_ok l : ldh_label l -> tlabel_ok l /\ label_ok l.
Proof.
  intros (Hne & Hlen & Hok).
  assert (forallb text_char_ok l = true /\ forallb label_char_ok l = true) as [H1 H2].
  { clear Hne Hlen. induction l as [|c l IH]; [split; reflexivity|]. cbn [forallb] in *.
    apply andb_true_iff in Hok. destruct Hok as [Hc Hl]. destruct (ldh_text c Hc) as [A B]. destruct (IH Hl) as [C D].
    rewrite A, B, C, D. split; reflexivity. }
  split; repeat split; auto; lia.
Qed.

Theorem ldh_roundtrip : forall ls, Forall ldh_label ls -> length (wire_of_labels ls) <= 253 ->
  raw_name_from_str (dots ls) None = Ok (wire_of_labels ls) /\
  (ls <> [] -> raw_name_from_str (dotted ls) None = Ok (wire_of_labels ls)) /\
  raw_name_to_str (wire_of_labels ls) 0 = Ok (dotted ls) /\
  cname_l (wire_of_labels ls) 0 ls (length (wire_of_labels ls)).
Proof.
  intros ls Hls Hl.
  assert (Ht : Forall tlabel_ok ls) by (eapply Forall_impl; [|exact Hls]; intros l H; apply ldh_label_ok; exact H).
  assert (Hp : Forall label_ok ls) by (eapply Forall_impl; [|exact Hls]; intros l H; apply ldh_label_ok; exact H).
  assert (Hcn : cname_l (wire_of_labels ls) 0 ls (length (wire_of_labels ls))) by (apply wire_cname_l; [exact Hp|lia]).
  split; [apply (from_str_accepts_closed [] ls None Ht Hl)|].
  split.
  - intros Hne. destruct (exists_last Hne) as (ls' & last & ->).
    apply Forall_app in Ht. destruct Ht as [Ht1 Ht2]. inversion Ht2; subst.
    unfold raw_name_from_str. rewrite (from_str_accepts_open [] ls' last None Ht1); [reflexivity|assumption|exact Hl].
  - split; [|exact Hcn].
    apply (raw_name_to_str_dotted _ 0 ls (length (wire_of_labels ls))); [|exact Hcn].
    apply bytes_ok_wire; [exact Hp|].
    eapply Forall_impl; [|exact Hls]. intros l (_ & _ & Hok). unfold bytes_ok.
    clear -Hok. induction l as [|c l IH]; [constructor|]. cbn [forallb] in Hok. apply andb_true_iff in Hok.
    destruct Hok as [Hc Hl]. constructor; [unfold ldh in Hc; lia|apply IH; exact Hl].
Qed.

(** ** What the conversion accepts, the parser accepts: every label byte taken from the text is one the parser's name policy takes
    (no control character, DEL, dot or backslash), so the wire name written for a text without default zone is a name of that policy
    with exactly the labels of the text.  (Before the repair a97c4c2 of /repo the conversion took control characters and backslashes:
    gen::query and RR::new then produced packets the parser refuses.) *)
Lemma text_char_label_char c : text_char_ok c = true -> label_char_ok c = true.
Proof. unfold text_char_ok, label_char_ok. lia. Qed.

Lemma tlabel_label_ok l : tlabel_ok l -> label_ok l.
Proof.
  intros (Hne & Hlen & Hok). unfold label_ok. split; [exact Hne|]. split; [lia|].
  clear Hne Hlen. induction l as [|c l IH]; [reflexivity|]. cbn [forallb] in *. apply andb_true_iff in Hok. destruct Hok as [Hc Hl].
  rewrite (text_char_label_char c Hc), (IH Hl). reflexivity.
Qed.

Theorem from_str_is_policy_name : forall raw name w, copy_raw_name_from_str raw name None = Ok w ->
  exists ls, Forall label_ok ls /\ w = raw ++ wire_of_labels ls /\ length (wire_of_labels ls) <= 253 /\
             cname_l (wire_of_labels ls) 0 ls (length (wire_of_labels ls)) /\
             (name = dotted ls \/ name = dots ls \/ (name = [46%N] /\ ls = [])).
Proof.
  intros raw name w H. destruct (from_str_sound raw name None w H) as (ls & Hls & Hcase).
  assert (Hp : Forall label_ok ls) by (eapply Forall_impl; [|exact Hls]; intros l Hl; apply tlabel_label_ok; exact Hl).
  exists ls. split; [exact Hp|].
  assert (Hw : w = raw ++ wire_of_labels ls /\ length (wire_of_labels ls) <= 253 /\ (name = dotted ls \/ name = dots ls \/ (name = [46%N] /\ ls = []))).
  { destruct Hcase as [(Hne & Hn & Hw & Hl)|(Hn & Hw & Hl)].
    - cbn [zone_or_root] in Hw, Hl. unfold wire_of_labels. auto.
    - split; [exact Hw|]. split; [exact Hl|]. destruct Hn as [Hn|Hn]; auto. }
  destruct Hw as (Hw & Hl & Hn). split; [exact Hw|]. split; [exact Hl|]. split; [apply wire_cname_l; [exact Hp|lia]|exact Hn].
Qed.
