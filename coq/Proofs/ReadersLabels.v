(** * The trusted name readers return exactly the labels the policy reads (C03, C04, C05, C14).

    On every name of the declarative policy ([cname_l p off ls e], Spec/NameSpec.v) the three
    unchecked readers agree with the declarative decoding:
    - [copy_uncompressed_name] appends the pointer-free wire form of [ls], reports its length and
      the offset [e] where the name ends in the record that contains it;
    - [raw_name_to_str] prints the labels joined by dots;
    - [raw_name_len] of the pointer-free wire form is its length.
    None of them reaches a Panic site or runs out of fuel. *)

From DV Require Import Model.Base Model.NameCheck Model.Parser Model.Readers Spec.NameSpec Spec.PacketSpec Spec.RecordSpec
  Proofs.ListLemmas Proofs.Hoare Proofs.NameIff.
From Coq Require Import ZArith ZifyBool ZifyNat ZifyN.
Ltac Zify.zify_post_hook ::= Z.div_mod_to_equations.

Lemma ptr_eq hi lo : (hi < 256)%N -> (lo < 256)%N ->
  N.to_nat (N.land (hi * 256 + lo) 16383) = ptr_target hi lo.
Proof.
  intros Hh Hl. unfold ptr_target. f_equal.
  change 16383%N with (N.ones 14). change 63%N with (N.ones 6).
  rewrite !N.land_ones. change (2 ^ 14)%N with 16384%N. change (2 ^ 6)%N with 64%N. lia.
Qed.

Lemma firstn_S_skipn {A} (l : list A) off x n :
  nth_error l off = Some x -> firstn (S n) (skipn off l) = x :: firstn n (skipn (off + 1) l).
Proof.
  revert off; induction l as [|a l IH]; intros [|off] H; cbn in H; try discriminate.
  - inversion H; subst. reflexivity.
  - cbn [skipn]. rewrite IH by exact H. reflexivity.
Qed.

Lemma firstn_skipn_length {A} (l : list A) a n : a + n <= length l -> length (firstn n (skipn a l)) = n.
Proof. intros H. rewrite firstn_length, skipn_length. lia. Qed.

Definition label_ok (l : bytes) : Prop := l <> [] /\ length l <= 63 /\ forallb label_char_ok l = true.

Lemma name_at_labels_ok p off bar low hops budget ls e :
  name_at p off bar low hops budget ls e -> Forall label_ok ls.
Proof.
  induction 1 as [| off bar low hops budget len ls e Hlt Hlen Hl1 Hl63 Hfit Hok Hbud Hrest IH |]; [constructor| |assumption].
  constructor; [|exact IH]. repeat split; [| |exact Hok].
  - intros Hc. apply (f_equal (@length _)) in Hc. rewrite firstn_skipn_length in Hc by lia. cbn in Hc. lia.
  - rewrite firstn_skipn_length by lia. lia.
Qed.

Lemma wire_of_labels_cons l ls : wire_of_labels (l :: ls) = N.of_nat (length l) :: l ++ wire_of_labels ls.
Proof. unfold wire_of_labels, labels_flat. cbn [flat_map]. rewrite <- !app_assoc. reflexivity. Qed.

Lemma wire_len_le p off bar low hops budget ls e :
  name_at p off bar low hops budget ls e -> length (wire_of_labels ls) <= budget.
Proof.
  induction 1 as [| off bar low hops budget len ls e Hlt Hlen Hl1 Hl63 Hfit Hok Hbud Hrest IH |]; [cbn; lia| |assumption].
  rewrite wire_of_labels_cons. cbn [length]. rewrite app_length, firstn_skipn_length by lia. lia.
Qed.

Section S.
  Variable p : bytes.
  Hypothesis Hbytes : bytes_ok p.

  (** ** copy_uncompressed_name *)
  Lemma cu_labels : forall off bar low hops budget ls e,
    name_at p off bar low hops budget ls e -> low <= off ->
    forall fuel nm l fin, hops + budget < fuel ->
      run_loop (cu_step p) fuel {| cu_off := off; cu_name := nm; cu_len := l; cu_final := fin |} =
      Ok (nm ++ wire_of_labels ls, l + length (wire_of_labels ls), match fin with Some f => f | None => e end).
  Proof.
    induction 1 as [off bar low hops budget Hlt Hz Hb
                   |off bar low hops budget len ls e Hlt Hlen Hl1 Hl63 Hfit Hok Hbud Hrest IH
                   |off bar low hops budget hi lo tb ls e' Hlt Hhi Hptr Hlo Ht Htb Hnz Hrest IH];
      intros Hlow fuel nm l fin Hfuel; (destruct fuel as [|fuel]; [lia|]); cbn [run_loop]; unfold cu_step; cbn [cu_off cu_name cu_len cu_final].
    - rewrite Hz. replace (N.land 0 192 =? 192)%N with false by reflexivity.
      assert (off < length p) by (apply nth_error_Some; congruence).
      rewrite slice_eq by (cbn; lia). replace (off + 1 + N.to_nat 0 - off) with 1 by (cbn; lia).
      rewrite (firstn_S_skipn p off 0%N 0 Hz). cbn [firstn].
      replace (N.to_nat 0 =? 0) with true by reflexivity. cbn [cu_name cu_len cu_final cu_off wire_of_labels labels_flat flat_map app length].
      f_equal. f_equal; [f_equal; cbn; lia|]. destruct fin; cbn; lia.
    - rewrite Hlen. rewrite (small_not_ptr len Hl63).
      rewrite slice_eq by lia. replace (off + 1 + N.to_nat len - off) with (S (N.to_nat len)) by lia.
      rewrite (firstn_S_skipn p off len _ Hlen).
      destruct (N.to_nat len =? 0) eqn:E7; [lia|].
      replace (off + 1 + N.to_nat len) with (off + N.to_nat len + 1) by lia.
      rewrite IH by lia.
      rewrite wire_of_labels_cons. rewrite firstn_skipn_length by lia. rewrite N2Nat.id.
      cbn [length]. rewrite app_length, firstn_skipn_length by lia.
      rewrite <- app_assoc. cbn [app]. f_equal. f_equal. f_equal. lia.
    - rewrite Hhi. apply N.eqb_eq in Hptr. rewrite Hptr. rewrite Hlo.
      rewrite ptr_eq by (eapply bytes_ok_nth; eauto).
      destruct (off <=? ptr_target hi lo) eqn:E; [lia|].
      rewrite IH by lia. f_equal. f_equal. destruct fin; reflexivity.
  Qed.

  Theorem copy_uncompressed_name_labels : forall off ls e nm,
    cname_l p off ls e ->
    copy_uncompressed_name nm p off = Ok (nm ++ wire_of_labels ls, length (wire_of_labels ls), e).
  Proof.
    intros off ls e nm [Hlt Hna]. unfold copy_uncompressed_name, cu_fuel.
    rewrite (cu_labels _ _ _ _ _ _ _ Hna) by lia. reflexivity.
  Qed.

  (** ** raw_name_to_str *)
  Definition join_step (acc : bytes) (l : bytes) : bytes :=
    acc ++ match acc with [] => [] | _ => [46%N] end ++ escape_dots l.

  Lemma ts_labels : forall off bar low hops budget ls e,
    name_at p off bar low hops budget ls e -> low <= off ->
    forall fuel acc ind, hops + budget < fuel -> ind + hops <= 16 ->
      run_loop (ts_step p) fuel {| ts_off := off; ts_res := acc; ts_ind := ind |} =
      Ok (fold_left join_step ls acc).
  Proof.
    induction 1 as [off bar low hops budget Hlt Hz Hb
                   |off bar low hops budget len ls e Hlt Hlen Hl1 Hl63 Hfit Hok Hbud Hrest IH
                   |off bar low hops budget hi lo tb ls e' Hlt Hhi Hptr Hlo Ht Htb Hnz Hrest IH];
      intros Hlow fuel acc ind Hfuel Hind; (destruct fuel as [|fuel]; [lia|]); cbn [run_loop]; unfold ts_step; cbn [ts_off ts_res ts_ind].
    - rewrite Hz. reflexivity.
    - rewrite Hlen. destruct (len =? 0)%N eqn:E0; [lia|]. rewrite (small_not_ptr len Hl63).
      rewrite slice_eq by lia. replace (off + 1 + N.to_nat len - (off + 1)) with (N.to_nat len) by lia.
      replace (off + 1 + N.to_nat len) with (off + N.to_nat len + 1) by lia.
      rewrite IH by lia. reflexivity.
    - rewrite Hhi. apply N.eqb_eq in Hptr. rewrite Hptr.
      destruct (hi =? 0)%N eqn:E0. { assert (hi = 0%N) by lia. subst hi. cbn in Hptr. discriminate. }
      rewrite Hlo. rewrite ptr_eq by (eapply bytes_ok_nth; eauto).
      unfold DNS_MAX_HOSTNAME_INDIRECTIONS.
      destruct ((ptr_target hi lo =? off) || (16 <? ind)) eqn:E; [lia|].
      rewrite IH by lia. reflexivity.
  Qed.

  Theorem raw_name_to_str_labels : forall off ls e,
    cname_l p off ls e -> raw_name_to_str p off = Ok (fold_left join_step ls []).
  Proof.
    intros off ls e [Hlt Hna]. unfold raw_name_to_str, cu_fuel.
    rewrite (ts_labels _ _ _ _ _ _ _ Hna) by lia. reflexivity.
  Qed.
End S.

(** The printed form is the labels joined by dots: policy labels are non-empty and hold no dot,
    so nothing is escaped and the separator test on the accumulator is a test for "first label". *)
Lemma escape_dots_id l : forallb label_char_ok l = true -> escape_dots l = l.
Proof.
  induction l as [|c l IH]; [reflexivity|]. cbn [forallb escape_dots flat_map]. intros H.
  apply andb_true_iff in H. destruct H as [Hc Hl]. unfold label_char_ok in Hc.
  destruct (c =? 46)%N eqn:E; [lia|]. cbn [app]. f_equal. apply IH. exact Hl.
Qed.

Lemma join_nonempty ls : Forall label_ok ls -> forall acc, acc <> [] ->
  fold_left join_step ls acc = acc ++ flat_map (fun x => 46%N :: x) ls.
Proof.
  induction 1 as [|l ls Hl Hls IH]; intros acc Hacc; cbn [fold_left flat_map]; [rewrite app_nil_r; reflexivity|].
  destruct Hl as (Hne & _ & Hok). rewrite IH.
  - unfold join_step. destruct acc as [|a acc]; [congruence|]. rewrite escape_dots_id by exact Hok.
    rewrite <- !app_assoc. reflexivity.
  - unfold join_step. destruct acc; [congruence|]. discriminate.
Qed.

Lemma join_dotted ls : Forall label_ok ls -> fold_left join_step ls [] = dotted ls.
Proof.
  intros H. destruct H as [|l ls Hl Hls]; [reflexivity|]. cbn [fold_left dotted].
  destruct Hl as (Hne & Hlen & Hok).
  assert (E : join_step [] l = l) by (unfold join_step; cbn; apply escape_dots_id; exact Hok).
  rewrite E. apply join_nonempty; assumption.
Qed.

Theorem raw_name_to_str_dotted p off ls e : bytes_ok p ->
  cname_l p off ls e -> raw_name_to_str p off = Ok (dotted ls).
Proof.
  intros Hb H. rewrite (raw_name_to_str_labels p Hb off ls e H). f_equal. apply join_dotted.
  destruct H as [_ Hna]. eapply name_at_labels_ok; exact Hna.
Qed.

(** ** raw_name_len on the pointer-free wire form *)
Lemma rl_step_root nm i : nth_error nm i = Some 0%N -> rl_step nm i = Done (Ok (i + 1)).
Proof. intros H. unfold rl_step. rewrite H. reflexivity. Qed.

Lemma rl_step_label nm i len : nth_error nm i = Some len -> (1 <= len)%N -> (len <= 63)%N ->
  rl_step nm i = Continue (i + N.to_nat len + 1).
Proof.
  intros H H1 H63. unfold rl_step. rewrite H. destruct (len =? 0)%N eqn:E0; [lia|].
  rewrite small_not_ptr by exact H63. reflexivity.
Qed.

Lemma rl_labels : forall ls, Forall label_ok ls -> forall pre fuel,
  length ls < fuel ->
  run_loop (rl_step (pre ++ wire_of_labels ls)) fuel (length pre) = Ok (length pre + length (wire_of_labels ls)).
Proof.
  induction 1 as [|l ls Hl Hls IH]; intros pre fuel Hf; (destruct fuel as [|fuel]; [cbn in Hf; lia|]); cbn [run_loop].
  - rewrite rl_step_root; [reflexivity|]. rewrite nth_error_app2 by lia. rewrite Nat.sub_diag. reflexivity.
  - destruct Hl as (Hne & Hlen & Hok). rewrite wire_of_labels_cons.
    rewrite (rl_step_label _ _ (N.of_nat (length l))); [| |destruct l; [congruence|cbn [length]; lia]|lia].
    2:{ rewrite nth_error_app2 by lia. rewrite Nat.sub_diag. reflexivity. }
    rewrite Nat2N.id.
    specialize (IH (pre ++ N.of_nat (length l) :: l) fuel).
    rewrite <- app_assoc in IH. cbn [app] in IH.
    rewrite app_length in IH. cbn [length] in IH.
    replace (length pre + length l + 1) with (length pre + S (length l)) by lia.
    rewrite IH by (cbn in Hf; lia). cbn [length]. rewrite app_length. f_equal. lia.
Qed.

Theorem raw_name_len_wire ls : Forall label_ok ls ->
  raw_name_len (wire_of_labels ls) = Ok (length (wire_of_labels ls)).
Proof.
  intros H. unfold raw_name_len. pose proof (rl_labels ls H [] (length (wire_of_labels ls) + 1)) as E.
  cbn [app length] in E. apply E.
  clear E. induction H as [|l ls Hl Hls IH]; [cbn; lia|]. rewrite wire_of_labels_cons. cbn [length]. rewrite app_length. lia.
Qed.
