(** * Whatever record synthesis returns is a well-formed record (C13).

    [RR::from_string] returns, when it returns a record at all: an owner name encoded label by label
    from well-formed text labels (at most 253 bytes), type, class IN, TTL, a two-byte data length that
    is the length of the data that follows, then the data.  The data of each builder is
    characterised: names label by label (NS / CNAME / PTR / MX / SOA), TXT as character-strings that
    concatenate to the text, every one but the last of 255 bytes and none empty. *)

From DV Require Import Model.Base Model.Parser Model.Header Model.Readers Model.Uncompress Model.Mutate
  Model.Gen Model.Text Spec.NameSpec Spec.RecordSpec Proofs.ListLemmas Proofs.Hoare Proofs.SynthTotal
  Proofs.NameText.
From Coq Require Import ZifyBool ZifyNat ZifyN.

Definition rr_shape_with (rr : bytes) (t : N) (rdata : bytes) : Prop :=
  exists ls ttl, Forall tlabel_ok ls /\ length (wire_of_labels ls) <= 253 /\ (N.of_nat (length rdata) < 65536)%N /\
    rr = wire_of_labels ls ++ be16_bytes t ++ be16_bytes CLASS_IN ++ be32_bytes ttl ++
         be16_bytes (N.of_nat (length rdata)) ++ rdata.

Definition rr_shape (rr : bytes) : Prop := exists t rdata, rr_shape_with rr t rdata.

(** text -> wire of one name, without a default zone *)
Lemma from_str_wire raw name w : copy_raw_name_from_str raw name None = Ok w ->
  exists ls, Forall tlabel_ok ls /\ length (wire_of_labels ls) <= 253 /\ w = raw ++ wire_of_labels ls.
Proof.
  intros H. destruct (from_str_sound raw name None w H) as (ls & Hls & [(Hne & Hn & Hw & Hl)|(Hn & Hw & Hl)]).
  - exists ls. cbn [zone_or_root] in Hw, Hl. split; [exact Hls|]. split; [exact Hl|exact Hw].
  - exists ls. auto.
Qed.

Lemma rr_new_shape name ttl t rd rr : rr_new name ttl CLASS_IN t rd = Ok rr -> rr_shape_with rr t rd.
Proof.
  unfold rr_new. destruct (65535 <? N.of_nat (length rd))%N eqn:E; [discriminate|].
  destruct (copy_raw_name_from_str [] name None) as [pk| |] eqn:Ec; cbn [bind]; try discriminate.
  intros H; inversion H; subst. destruct (from_str_wire _ _ _ Ec) as (ls & Hls & Hl & ->).
  exists ls, ttl. cbn [app]. repeat split; auto. lia.
Qed.

(** ** The builders *)
Lemma build_name_rr_shape t n ttl tg rr : build_name_rr t n ttl tg = Ok rr ->
  exists ls, Forall tlabel_ok ls /\ rr_shape_with rr t (wire_of_labels ls).
Proof.
  unfold build_name_rr, raw_name_from_str.
  destruct (copy_raw_name_from_str [] tg None) as [rd| |] eqn:Ec; cbn [bind]; try discriminate.
  intros H. destruct (from_str_wire _ _ _ Ec) as (ls & Hls & _ & ->). cbn [app] in H.
  exists ls. split; [exact Hls|apply rr_new_shape in H; exact H].
Qed.

Lemma build_mx_shape n ttl pref h rr : build_mx n ttl pref h = Ok rr ->
  exists ls, Forall tlabel_ok ls /\ rr_shape_with rr TYPE_MX (be16_bytes pref ++ wire_of_labels ls).
Proof.
  unfold build_mx.
  destruct (copy_raw_name_from_str (be16_bytes pref) h None) as [rd| |] eqn:Ec; cbn [bind]; try discriminate.
  intros H. destruct (from_str_wire _ _ _ Ec) as (ls & Hls & _ & ->).
  exists ls. split; [exact Hls|apply rr_new_shape in H; exact H].
Qed.

Lemma build_soa_shape n ttl a b ts refresh retry auth neg rr :
  build_soa n ttl a b ts refresh retry auth neg = Ok rr ->
  exists ls1 ls2, Forall tlabel_ok ls1 /\ Forall tlabel_ok ls2 /\
    rr_shape_with rr TYPE_SOA (wire_of_labels ls1 ++ wire_of_labels ls2 ++ be32_bytes ts ++ be32_bytes refresh ++
                               be32_bytes retry ++ be32_bytes auth ++ be32_bytes neg).
Proof.
  unfold build_soa.
  destruct (copy_raw_name_from_str [] a None) as [rd1| |] eqn:E1; cbn [bind]; try discriminate.
  destruct (copy_raw_name_from_str rd1 b None) as [rd2| |] eqn:E2; cbn [bind]; try discriminate.
  intros H. destruct (from_str_wire _ _ _ E1) as (ls1 & Hls1 & _ & ->). destruct (from_str_wire _ _ _ E2) as (ls2 & Hls2 & _ & ->).
  cbn [app] in H. exists ls1, ls2. split; [exact Hls1|]. split; [exact Hls2|].
  apply rr_new_shape in H. rewrite <- !app_assoc in H. exact H.
Qed.

(** TXT: character-strings *)
Definition strings_wire (cs : list bytes) : bytes := flat_map (fun c => N.of_nat (length c) :: c) cs.

Inductive txt_chunks : list bytes -> Prop :=
| TCnil : txt_chunks []
| TClast : forall c, 1 <= length c <= 255 -> txt_chunks [c]
| TCcons : forall c c' cs, length c = 255 -> txt_chunks (c' :: cs) -> txt_chunks (c :: c' :: cs).

Lemma chunks255_spec : forall fuel txt, length txt < fuel ->
  exists cs, chunks255 fuel txt = strings_wire cs /\ concat cs = txt /\ txt_chunks cs.
Proof.
  pose (k := 255). assert (Hk : k = 255) by reflexivity.
  induction fuel as [|fuel IH]; intros txt Hf; [lia|].
  destruct txt as [|c0 txt0]; [exists []; repeat split; constructor|].
  change (chunks255 (S fuel) (c0 :: txt0)) with
    ([N.of_nat (length (firstn k (c0 :: txt0)))] ++ firstn k (c0 :: txt0) ++ chunks255 fuel (skipn k (c0 :: txt0))).
  assert (Hne : 1 <= length (c0 :: txt0)) by (cbn [length]; lia).
  remember (c0 :: txt0) as txt eqn:Et. clear Et c0 txt0. clearbody k.
  destruct (Nat.le_gt_cases (length txt) k) as [Hle|Hgt].
  - rewrite firstn_all2 by lia. rewrite skipn_all2 by lia.
    assert (H : chunks255 fuel [] = []) by (destruct fuel; reflexivity). rewrite H.
    exists [txt]. cbn [strings_wire flat_map concat]. rewrite !app_nil_r. cbn [app].
    split; [reflexivity|]. split; [reflexivity|constructor; lia].
  - destruct (IH (skipn k txt)) as (cs & Hcs & Hcat & Hch); [rewrite skipn_length; lia|].
    exists (firstn k txt :: cs). cbn [strings_wire flat_map concat]. fold (strings_wire cs).
    rewrite Hcs, Hcat, firstn_skipn. split; [reflexivity|]. split; [reflexivity|].
    destruct cs as [|c' cs'].
    + cbn in Hcat. assert (H : length (skipn k txt) = 0) by (rewrite <- Hcat; reflexivity). rewrite skipn_length in H. lia.
    + apply TCcons; [rewrite firstn_length; lia|exact Hch].
Qed.

Lemma build_txt_shape n ttl txt rr : build_txt n ttl txt = Ok rr ->
  exists cs, concat cs = txt /\ txt_chunks cs /\ rr_shape_with rr TYPE_TXT (strings_wire cs).
Proof.
  unfold build_txt. destruct (TXT_MAX <? length txt); [discriminate|].
  destruct (chunks255_spec (length txt + 1) txt ltac:(lia)) as (cs & Hcs & Hcat & Hch). rewrite Hcs.
  intros H. exists cs. split; [exact Hcat|]. split; [exact Hch|apply rr_new_shape in H; exact H].
Qed.

(** ** Everything the grammar can return *)
Definition presult_shape (p : parser (res bytes)) : Prop :=
  forall i r rest, p i = Some (r, rest) -> forall rr, r = Ok rr -> rr_shape rr.

Lemma pshape_bind {A} (p : parser A) (f : A -> parser (res bytes)) :
  (forall a, presult_shape (f a)) -> presult_shape (pbind p f).
Proof. intros H i r rest. unfold pbind. destruct (p i) as [[a i']|]; [|discriminate]. apply H. Qed.

Lemma pshape_tail (r : res bytes) : (forall rr, r = Ok rr -> rr_shape rr) -> presult_shape (tail_eof r).
Proof.
  intros H i r' rest. unfold tail_eof, pbind, maybe_skip_hws, skip_while, eof, pret.
  destruct (snd (span is_hws i)); [|discriminate]. intros E; inversion E; subst. exact H.
Qed.

Lemma pshape_fail : presult_shape pfail.
Proof. intros i r rest H. discriminate. Qed.

Lemma rr_rdata_shape h : presult_shape (rr_rdata h).
Proof.
  unfold rr_rdata.
  repeat match goal with
         | |- presult_shape (if ?c then _ else _) => destruct c
         | |- presult_shape (pbind _ _) => apply pshape_bind; intros ?
         | |- presult_shape (tail_eof _) => apply pshape_tail; intros rr Hrr
         | |- presult_shape pfail => apply pshape_fail
         end.
  - eexists _, _. eapply rr_new_shape; eauto.
  - eexists _, _. eapply rr_new_shape; eauto.
  - destruct (build_name_rr_shape _ _ _ _ _ Hrr) as (ls & _ & H). eexists _, _. exact H.
  - destruct (build_txt_shape _ _ _ _ Hrr) as (cs & _ & _ & H). eexists _, _. exact H.
  - destruct (build_mx_shape _ _ _ _ _ Hrr) as (ls & _ & H). eexists _, _. exact H.
  - destruct (build_soa_shape _ _ _ _ _ _ _ _ _ _ Hrr) as (l1 & l2 & _ & _ & H). eexists _, _. exact H.
  - unfold build_ds in Hrr. eexists _, _. eapply rr_new_shape; eauto.
Qed.

Theorem synth_result_shape : forall s rr, rr_from_string s = Ok rr -> rr_shape rr.
Proof.
  intros s rr. unfold rr_from_string.
  destruct (rr_parser s) as [[r rest]|] eqn:E; [|discriminate].
  assert (presult_shape rr_parser) as H.
  { unfold rr_parser. apply pshape_bind; intros h. apply pshape_bind; intros ?. apply rr_rdata_shape. }
  intros Hr. eapply H; eauto.
Qed.
