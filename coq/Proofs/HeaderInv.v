(** * The header setters on decompressed objects (C08, C12).

    A write confined to the first four bytes of an accepted fixed point of decompression - the
    transaction id and the flag word - leaves an accepted fixed point of decompression whose fresh
    parse has the same view, provided the new flag word still satisfies the parser's gating (a
    response, or no answer / authority records).  A pointer-free packet has no name that could be
    read through those bytes: the known finding header-pointer needs a compressed packet.  The five
    setters are instances; they join insertions and recomputes in the histories that keep [dinv]. *)

From DV Require Import Model.Base Model.NameCheck Model.Parser Model.Header Model.Readers Model.Uncompress Model.Mutate
  Spec.NameSpec Spec.PacketSpec Spec.RecordSpec Spec.PlainSpec Proofs.ListLemmas Proofs.Hoare Proofs.ParserInv Proofs.ParseSound
  Proofs.ParseComplete Proofs.QuestionSpec Proofs.WalkValues Proofs.WalkSkip Proofs.UncompressSpec Proofs.PlainWf Proofs.HeaderBits
  Proofs.InsertLemmas Proofs.EdnsFacts Proofs.EdnsPos Proofs.EdnsPlain Proofs.InsertSpec.
From Coq Require Import ZifyBool ZifyNat ZifyN.
Local Open Scope N_scope.

(** the response bit of a flag word is bit 7 of its high byte *)
Definition qr_ok (hi lo : N) : bool := Bool.eqb (N.land (hi * 256 + lo) 32768 =? 32768) (128 <=? hi).
Lemma qr_sweep : forallb (fun hi => forallb (qr_ok hi) range256) range256 = true.
Proof. vm_compute. reflexivity. Qed.

Lemma qr_hi hi lo : hi < 256 -> lo < 256 -> (N.land (hi * 256 + lo) 32768 = 32768 <-> 128 <= hi).
Proof.
  intros Hh Hl. pose proof qr_sweep as S. rewrite forallb_forall in S. specialize (S hi (in_range256 hi Hh)).
  rewrite forallb_forall in S. specialize (S lo (in_range256 lo Hl)). unfold qr_ok in S.
  destruct (N.land (hi * 256 + lo) 32768 =? 32768) eqn:E1, (128 <=? hi) eqn:E2; cbn in S; try discriminate; lia.
Qed.

Definition opc_ok (b o : N) : bool := Bool.eqb (128 <=? b_set_opcode b o) (128 <=? b).
Lemma opc_sweep : forallb (fun b => forallb (opc_ok b) range256) range256 = true.
Proof. vm_compute. reflexivity. Qed.

Lemma opcode_keeps_bit7 b o : b < 256 -> o < 256 -> (128 <= b_set_opcode b o <-> 128 <= b).
Proof.
  intros Hb Ho. pose proof opc_sweep as S. rewrite forallb_forall in S. specialize (S b (in_range256 b Hb)).
  rewrite forallb_forall in S. specialize (S o (in_range256 o Ho)). unfold opc_ok in S.
  destruct (128 <=? b_set_opcode b o) eqn:E1, (128 <=? b) eqn:E2; cbn in S; try discriminate; lia.
Qed.
Local Close Scope N_scope.

(** ** a write into bytes 0..3 *)
Lemma same_from4_skip12 (q q' : bytes) : length q' = length q -> (forall j, 4 <= j -> nth_error q' j = nth_error q j) -> skipn 12 q' = skipn 12 q.
Proof.
  intros Hl Hs. apply list_eq_nth; [rewrite !skipn_length; lia|]. intros i _. rewrite !nth_error_skipn. apply Hs. lia.
Qed.

Theorem header_write_keeps_dinv : forall v q',
  dinv v -> length q' = length (pp_packet v) -> bytes_ok q' ->
  (forall j, 4 <= j -> nth_error q' j = nth_error (pp_packet v) j) ->
  (is_response q' \/ (u16_at (pp_packet v) 6 0%N /\ u16_at (pp_packet v) 8 0%N)) ->
  dinv (pp_with_packet v q').
Proof.
  intros v q' [Hmc Hb Hfix (f & Hf & Hsv)] Hlen Hbq' Hsame Hgate'.
  set (q := pp_packet v) in *.
  destruct (plain_parts_of q f Hb Hf Hfix) as (w & qls & qt & A & Nn & R & s1 & s2 & s3 & P).
  pose proof P as [Peq P12 Pw Pqd Pan Pns Par Pgate Pqok Pq255 Pqb Pqt PCA PCN PCR].
  assert (L4 : 4 <= length q') by lia.
  assert (Hfld : forall i x, 4 <= i -> i + 1 < 12 -> u16_at q i x -> u16_at (firstn 12 q') i x).
  { intros i x Hi Hi2 Hx. apply u16_at_firstn; [exact Hi2|]. eapply u16_at_same; [| |exact Hx]; apply Hsame; lia. }
  destruct (u16_exists q' 2 ltac:(lia)) as (w' & Hw').
  assert (Hg' : N.land w' 32768 <> 32768%N -> length A = 0 /\ length Nn = 0).
  { intros Hn. destruct Hgate' as [(w0 & Hw0 & Hqr)|[H6 H8]].
    - rewrite (u16_at_fun _ _ _ _ Hw' Hw0) in Hn. contradiction.
    - pose proof (u16_at_fun _ _ _ _ Pan H6). pose proof (u16_at_fun _ _ _ _ Pns H8). lia. }
  assert (HH : length (firstn 12 q') = 12) by (rewrite firstn_length; lia).
  pose proof (build_parts (firstn 12 q') qls qt w' A Nn R s1 s2 s3 HH (u16_at_firstn q' 12 2 w' ltac:(lia) Hw')
                (Hfld 4 _ ltac:(lia) ltac:(lia) Pqd) (Hfld 6 _ ltac:(lia) ltac:(lia) Pan) (Hfld 8 _ ltac:(lia) ltac:(lia) Pns)
                (Hfld 10 _ ltac:(lia) ltac:(lia) Par) Hg' Pqok Pq255 Pqb Pqt PCA PCN PCR) as P'.
  assert (Eq' : build (firstn 12 q') qls qt A Nn R = q').
  { rewrite <- (firstn_skipn 12 q') at 2. unfold build. f_equal. rewrite (same_from4_skip12 q q' Hlen Hsame).
    rewrite Peq at 1. unfold build. replace 12 with (length (firstn 12 q)) at 1 by (rewrite firstn_length; lia).
    symmetry. apply skipn_app_exact. }
  rewrite Eq' in P'.
  destruct (build_wf (firstn 12 q') qls qt w' A Nn R s1 s2 s3 HH (Forall_firstn _ _ _ Hbq') (u16_at_firstn q' 12 2 w' ltac:(lia) Hw')
              (Hfld 4 _ ltac:(lia) ltac:(lia) Pqd) (Hfld 6 _ ltac:(lia) ltac:(lia) Pan) (Hfld 8 _ ltac:(lia) ltac:(lia) Pns)
              (Hfld 10 _ ltac:(lia) ltac:(lia) Par) Hg' Pqok Pq255 Pqb Pqt PCA PCN PCR) as (_ & Wz & _ & _).
  rewrite Eq' in Wz. destruct (parse_complete q' Hbq' Wz) as (f' & Hf').
  constructor; cbn [pp_with_packet pp_packet pp_maybe_compressed]; [exact Hmc|exact Hbq'|exact (build_fixed q' f' _ _ _ _ _ _ _ _ _ Hbq' Hf' P')|].
  exists f'. split; [exact Hf'|].
  destruct Hsv as (_ & Voq & Voa & Von & Vor & Voe & Vc & Vrc & Vver & Vxf & Vmp).
  destruct (parse_offsets q f _ _ _ _ _ _ _ _ _ Hb Hf P) as (Oa & On & Or).
  destruct (parse_offsets q' f' _ _ _ _ _ _ _ _ _ Hbq' Hf' P') as (Oa' & On' & Or').
  destruct (parse_shape _ _ Hbq' Hf') as (? & ? & ? & ? & ? & ? & ? & Ff). destruct (parse_shape _ _ Hb Hf) as (? & ? & ? & ? & ? & ? & ? & Fq).
  destruct (build_summary q f _ _ _ _ _ _ _ _ _ Hb Hf P) as (Sq & Iq). destruct (build_summary q' f' _ _ _ _ _ _ _ _ _ Hbq' Hf' P') as (Sz & Iz).
  assert (Esum : pp_offset_edns f = pp_offset_edns f' /\ pp_edns_count f = pp_edns_count f' /\ pp_ext_rcode f = pp_ext_rcode f' /\
                 pp_edns_version f = pp_edns_version f' /\ pp_ext_flags f = pp_ext_flags f' /\ pp_max_payload f = pp_max_payload f').
  { destruct (opt_rel R) as [[k y]|] eqn:EoR0.
    - destruct (Iq k y eq_refl) as (Hoy & Hxq & eq' & Hrq). destruct (Iz k y eq_refl) as (_ & Hxz & ez' & Hrz).
      destruct (summary_same_opt _ _ _ _ _ _ _ _ _ Hb Hbq' Sq Sz Hrq Hrz Hxq Hxz ltac:(rewrite is_opt_rv_at; exact Hoy) ltac:(rewrite is_opt_rv_at; exact Hoy) eq_refl eq_refl)
        as (E1 & E2 & E3 & E4 & E5).
      cbn [summary_of] in Sq, Sz. destruct Sq as (Oq & _). destruct Sz as (Oz & _). rewrite Oq, Oz. repeat split; congruence.
    - cbn [summary_of] in Sq, Sz. destruct Sq as (Oq & C1 & C2 & C3 & C4 & C5). destruct Sz as (Oz & D1 & D2 & D3 & D4 & D5).
      repeat split; congruence. }
  destruct Esum as (E0 & E1 & E2 & E3 & E4 & E5).
  assert (Hpk' : pp_packet f' = q') by exact (pf_packet _ _ _ _ _ _ _ _ _ Ff).
  unfold same_view. cbn [pp_with_packet pp_packet pp_offset_question pp_offset_answers pp_offset_nameservers pp_offset_additional pp_offset_edns
                         pp_edns_count pp_ext_rcode pp_edns_version pp_ext_flags pp_max_payload].
  rewrite Hpk', Voq, Voa, Von, Vor, Voe, Vc, Vrc, Vver, Vxf, Vmp.
  rewrite (pf_oq _ _ _ _ _ _ _ _ _ Ff), (pf_oq _ _ _ _ _ _ _ _ _ Fq), Oa, On, Or, Oa', On', Or'.
  repeat split; assumption.
Qed.

(** ** The five setters *)
Lemma bytes_ok_write_at p off wv site p' : bytes_ok p -> bytes_ok wv -> write_at p off wv site = Ok p' -> bytes_ok p'.
Proof.
  intros Hp Hw. unfold write_at. destruct (off + length wv <=? length p); [|discriminate]. intros H. injection H as <-.
  apply bytes_ok_app; [apply Forall_firstn; exact Hp|]. apply bytes_ok_app; [exact Hw|apply Forall_skipn; exact Hp].
Qed.

Local Open Scope N_scope.
Definition rc_ok (b r : N) : bool := (b_set_rcode b r <? 256) && (b_set_opcode b r <? 256).
Lemma rc_sweep : forallb (fun b => forallb (rc_ok b) range256) range256 = true.
Proof. vm_compute. reflexivity. Qed.

Lemma set_nibbles_lt b r : b < 256 -> r < 256 -> b_set_rcode b r < 256 /\ b_set_opcode b r < 256.
Proof.
  intros Hb Hr. pose proof rc_sweep as S. rewrite forallb_forall in S. specialize (S b (in_range256 b Hb)).
  rewrite forallb_forall in S. specialize (S r (in_range256 r Hr)). unfold rc_ok in S. lia.
Qed.

Lemma land_bit15 x : N.land x 32768 = 32768 <-> N.testbit x 15 = true.
Proof.
  split.
  - intros H. assert (T : N.testbit (N.land x 32768) 15 = true) by (rewrite H; reflexivity).
    rewrite N.land_spec in T. apply andb_true_iff in T. apply T.
  - intros H. apply N.bits_inj. intros i. rewrite N.land_spec.
    change 32768 with (2 ^ 15). rewrite N.pow2_bits_eqb. destruct (15 =? i) eqn:E; [|apply andb_false_r].
    assert (i = 15) by lia. subst i. rewrite H. reflexivity.
Qed.
Local Close Scope N_scope.

Lemma byte_of (p : bytes) i : bytes_ok p -> i < length p -> exists b, nth_error p i = Some b /\ (b < 256)%N.
Proof.
  intros Hb Hi. destruct (nth_error p i) as [b|] eqn:E; [|apply nth_error_None in E; lia].
  exists b. split; [reflexivity|]. eapply byte_lt; eauto.
Qed.

Lemma u16_bytes (p : bytes) i x : u16_at p i x -> exists hi lo, nth_error p i = Some hi /\ nth_error p (i + 1) = Some lo /\ x = (hi * 256 + lo)%N.
Proof. intros H. exact H. Qed.

Lemma plain_or_response v : dinv v -> is_response (pp_packet v) \/ (u16_at (pp_packet v) 6 0%N /\ u16_at (pp_packet v) 8 0%N).
Proof.
  intros [_ Hb _ (f & Hf & _)].
  destruct (parse_sound _ f Hb Hf) as (w & an & ns & ar & qe & qclass & e1 & s1 & e2 & s2 & s3 & Hw & Hqd & Han & Hns & Har & _ & _ & _ & _ & Hgate & _).
  destruct (N.land w 32768 =? 32768)%N eqn:E.
  - left. exists w. split; [exact Hw|lia].
  - right. destruct (Hgate ltac:(lia)) as [-> ->]. auto.
Qed.

(** any setter = the view with a new packet that differs from the old one in bytes 0..3 only *)
Lemma setter_shape v v' (r : res bytes) : (p <- r ;; Ok (pp_with_packet v p)) = Ok v' -> exists q', r = Ok q' /\ v' = pp_with_packet v q'.
Proof. destruct r as [q'| |]; cbn [bind]; try discriminate. intros H. inversion H. eauto. Qed.

Theorem set_tid_keeps_dinv v n v' : dinv v -> pp_set_tid v n = Ok v' ->
  dinv v' /\ (is_response (pp_packet v) -> is_response (pp_packet v')).
Proof.
  intros Hd H. unfold pp_set_tid in H. destruct (setter_shape _ _ _ H) as (q' & Hq & ->).
  destruct (set_tid_frame _ _ _ Hq) as [Hl Hs]. unfold pk_set_tid in Hq.
  assert (Hr : is_response (pp_packet v) -> is_response q').
  { intros (w & Hw & Hqr). exists w. split; [|exact Hqr]. eapply u16_at_same; [| |exact Hw]; apply Hs; lia. }
  split; [|exact Hr].
  assert (Hbq' : bytes_ok q') by (eapply bytes_ok_write_at; [exact (di_bytes _ Hd)|apply bytes_ok_be16|exact Hq]).
  destruct (plain_or_response v Hd) as [Hresp|Hz].
  - apply header_write_keeps_dinv; auto. intros j Hj. apply Hs. lia.
  - apply header_write_keeps_dinv; auto. intros j Hj. apply Hs. lia.
Qed.

Lemma finish_setter v q' : dinv v -> length q' = length (pp_packet v) -> bytes_ok q' ->
  (forall j, 4 <= j -> nth_error q' j = nth_error (pp_packet v) j) ->
  (is_response (pp_packet v) -> is_response q') ->
  dinv (pp_with_packet v q') /\ (is_response (pp_packet v) -> is_response (pp_packet (pp_with_packet v q'))).
Proof.
  intros Hd Hl Hb Hs Hr. split; [|exact Hr].
  destruct (plain_or_response v Hd) as [Hresp|Hz]; apply header_write_keeps_dinv; auto.
Qed.

Theorem set_rcode_keeps_dinv v n v' : dinv v -> (n < 256)%N -> pp_set_rcode v n = Ok v' ->
  dinv v' /\ (is_response (pp_packet v) -> is_response (pp_packet v')).
Proof.
  intros Hd Hn H. unfold pp_set_rcode in H. destruct (setter_shape _ _ _ H) as (q' & Hq & ->).
  destruct (set_rcode_frame _ _ _ Hq) as [Hl Hs]. unfold pk_set_rcode, byte_at, DNS_FLAGS_OFFSET in Hq.
  pose proof (di_bytes _ Hd) as Hb.
  destruct (nth_error (pp_packet v) (2 + 1)) as [b|] eqn:Eb; cbn [bind] in Hq; [|discriminate].
  assert (Hb256 : (b < 256)%N) by exact (byte_lt _ _ _ Hb Eb).
  assert (Hbq' : bytes_ok q').
  { eapply bytes_ok_write_at; [exact Hb| |exact Hq]. constructor; [apply (set_nibbles_lt b n Hb256 Hn)|constructor]. }
  apply finish_setter; [exact Hd|exact Hl|exact Hbq'|intros j Hj; apply Hs; lia|].
  intros (w & (hi & lo & Hhi & Hlo & ->) & Hqr).
  pose proof (write_at_inside _ _ _ _ _ 0 Hq ltac:(cbn; lia)) as Hlo'. cbn [nth_error] in Hlo'. rewrite Nat.add_0_r in Hlo'.
  exists (hi * 256 + b_set_rcode b n)%N. split.
  - exists hi, (b_set_rcode b n). split; [rewrite Hs by lia; exact Hhi|]. split; [exact Hlo'|reflexivity].
  - assert (Hhi256 : (hi < 256)%N) by exact (byte_lt _ _ _ Hb Hhi). assert (Hlo256 : (lo < 256)%N) by exact (byte_lt _ _ _ Hb Hlo).
    apply (qr_hi hi _ Hhi256 (proj1 (set_nibbles_lt b n Hb256 Hn))). apply (qr_hi hi lo Hhi256 Hlo256). exact Hqr.
Qed.

Theorem set_opcode_keeps_dinv v n v' : dinv v -> (n < 256)%N -> pp_set_opcode v n = Ok v' ->
  dinv v' /\ (is_response (pp_packet v) -> is_response (pp_packet v')).
Proof.
  intros Hd Hn H. unfold pp_set_opcode in H. destruct (setter_shape _ _ _ H) as (q' & Hq & ->).
  destruct (set_opcode_frame _ _ _ Hq) as [Hl Hs]. unfold pk_set_opcode, byte_at, DNS_FLAGS_OFFSET in Hq.
  pose proof (di_bytes _ Hd) as Hb.
  destruct (nth_error (pp_packet v) 2) as [b|] eqn:Eb; cbn [bind] in Hq; [|discriminate].
  assert (Hb256 : (b < 256)%N) by exact (byte_lt _ _ _ Hb Eb).
  assert (Hbq' : bytes_ok q').
  { eapply bytes_ok_write_at; [exact Hb| |exact Hq]. constructor; [apply (set_nibbles_lt b n Hb256 Hn)|constructor]. }
  apply finish_setter; [exact Hd|exact Hl|exact Hbq'|intros j Hj; apply Hs; lia|].
  intros (w & (hi & lo & Hhi & Hlo & ->) & Hqr).
  pose proof (write_at_inside _ _ _ _ _ 0 Hq ltac:(cbn; lia)) as Hhi'. cbn [nth_error] in Hhi'. rewrite Nat.add_0_r in Hhi'.
  rewrite Eb in Hhi. inversion Hhi; subst hi.
  exists (b_set_opcode b n * 256 + lo)%N. split.
  - exists (b_set_opcode b n), lo. split; [exact Hhi'|]. split; [rewrite Hs by lia; exact Hlo|reflexivity].
  - assert (Hlo256 : (lo < 256)%N) by exact (byte_lt _ _ _ Hb Hlo).
    apply (qr_hi _ lo (proj2 (set_nibbles_lt b n Hb256 Hn)) Hlo256). apply (opcode_keeps_bit7 b n Hb256 Hn).
    apply (qr_hi b lo Hb256 Hlo256). exact Hqr.
Qed.

Lemma be16_written p off x site p' : write_at p off (be16_bytes x) site = Ok p' -> (x < 65536)%N -> u16_at p' off x.
Proof. apply write_at_u16. Qed.

Lemma written_word_qr p x site p' : write_at p 2 (be16_bytes x) site = Ok p' -> N.testbit x 15 = true -> is_response p'.
Proof.
  intros Hq Hbit. pose proof (be16_write_read p 2 x site 0%N p' Hq) as Hr. apply be16_at_u16 in Hr.
  exists (x mod 65536)%N. split; [exact Hr|]. apply land_bit15. change 65536%N with (2 ^ 16)%N. rewrite N.mod_pow2_bits_low by lia. exact Hbit.
Qed.

Theorem set_response_keeps_dinv v v' : dinv v -> pp_set_response v true = Ok v' -> dinv v' /\ is_response (pp_packet v').
Proof.
  intros Hd H. unfold pp_set_response in H. destruct (setter_shape _ _ _ H) as (q' & Hq & ->).
  destruct (set_response_frame _ _ _ Hq) as [Hl Hs]. unfold pk_set_response, DNS_FLAGS_OFFSET in Hq.
  pose proof (di_bytes _ Hd) as Hb.
  destruct (be16_at (pp_packet v) 2 306) as [w| |] eqn:Ew; cbn [bind] in Hq; try discriminate.
  assert (Hbq' : bytes_ok q') by (eapply bytes_ok_write_at; [exact Hb|apply bytes_ok_be16|exact Hq]).
  assert (Hresp : is_response q').
  { eapply written_word_qr; [exact Hq|]. unfold w_set_response. rewrite N.lor_spec. apply orb_true_iff. right. reflexivity. }
  split; [|exact Hresp]. apply header_write_keeps_dinv; auto; try (intros j Hj; apply Hs; lia).
Qed.

Theorem set_flags_keeps_dinv v n v' : dinv v -> N.land n 32768 = 32768%N -> pp_set_flags v n = Ok v' -> dinv v' /\ is_response (pp_packet v').
Proof.
  intros Hd Hqr H. unfold pp_set_flags in H. destruct (setter_shape _ _ _ H) as (q' & Hq & ->).
  destruct (set_flags_frame _ _ _ Hq) as [Hl Hs]. unfold pk_set_flags, DNS_FLAGS_OFFSET in Hq.
  pose proof (di_bytes _ Hd) as Hb.
  destruct (be16_at (pp_packet v) 2 304) as [w| |] eqn:Ew; cbn [bind] in Hq; try discriminate.
  apply be16_at_u16 in Ew. pose proof (u16_lt _ _ _ Hb Ew) as Hw.
  assert (Hbq' : bytes_ok q') by (eapply bytes_ok_write_at; [exact Hb|apply bytes_ok_be16|exact Hq]).
  assert (Hresp : is_response q').
  { eapply written_word_qr; [exact Hq|]. rewrite set_flags_bits by exact Hw. cbn. apply land_bit15. exact Hqr. }
  split; [|exact Hresp]. apply header_write_keeps_dinv; auto; try (intros j Hj; apply Hs; lia).
Qed.

(** ** Histories over insertions, recomputes and the five header setters *)
Inductive hop2 : Type :=
| H2Insert (sec : section) (rx : rec_view * rd_view)
| H2Recompute
| H2Tid (n : N) | H2Rcode (n : N) | H2Opcode (n : N) | H2Response | H2Flags (n : N).

Definition hop2_ok (o : hop2) : Prop :=
  match o with
  | H2Insert sec rx => plain_rr_ok rx /\ (sec = SAnswer \/ sec = SNameServers \/ sec = SAdditional)
  | H2Rcode n | H2Opcode n => (n < 256)%N
  | H2Flags n => N.land n 32768 = 32768%N
  | _ => True
  end.

Definition lift_v (f : ppacket -> res ppacket) : cm unit :=
  fun s => match f (fst s) with Ok v' => ((v', snd s), Ok tt) | Err e => (s, Err e) | Panic x => (s, Panic x) end.

Definition run_hop2 (o : hop2) : cm unit :=
  match o with
  | H2Insert sec rx => m_insert_rr sec (plain_record rx)
  | H2Recompute => m_recompute
  | H2Tid n => lift_v (fun v => pp_set_tid v n)
  | H2Rcode n => lift_v (fun v => pp_set_rcode v n)
  | H2Opcode n => lift_v (fun v => pp_set_opcode v n)
  | H2Response => lift_v (fun v => pp_set_response v true)
  | H2Flags n => lift_v (fun v => pp_set_flags v n)
  end.

Fixpoint run_hops2 (ops : list hop2) (s : st) : st * res unit :=
  match ops with
  | [] => (s, Ok tt)
  | o :: ops' => match run_hop2 o s with (s1, Ok _) => run_hops2 ops' s1 | (s1, Err e) => (s1, Err e) | (s1, Panic x) => (s1, Panic x) end
  end.

Lemma lift_v_ok f v it s1 : lift_v f (v, it) = (s1, Ok tt) -> exists v', f v = Ok v' /\ s1 = (v', it).
Proof. unfold lift_v. cbn [fst snd]. destruct (f v) as [v'| |]; intros H; inversion H. eauto. Qed.

Theorem hop2_keeps_dinv : forall o v it s1, dinv v -> is_response (pp_packet v) -> hop2_ok o ->
  run_hop2 o (v, it) = (s1, Ok tt) -> dinv (fst s1) /\ snd s1 = it /\ is_response (pp_packet (fst s1)).
Proof.
  intros o v it s1 Hd Hr Ho E. destruct o as [sec rx| |n|n|n| |n]; cbn [run_hop2 hop2_ok] in E, Ho.
  - destruct Ho as [Hrx Hsec]. destruct (insert_keeps_dinv v it sec rx s1 Hd Hrx Hsec (fun _ => Hr) E) as (Hd1 & Hit1 & Hr1 & _). auto.
  - rewrite (recompute_keeps_dinv v it Hd) in E. inversion E; subst. auto.
  - destruct (lift_v_ok _ _ _ _ E) as (v' & Hv & ->). destruct (set_tid_keeps_dinv v n v' Hd Hv). auto.
  - destruct (lift_v_ok _ _ _ _ E) as (v' & Hv & ->). destruct (set_rcode_keeps_dinv v n v' Hd Ho Hv). auto.
  - destruct (lift_v_ok _ _ _ _ E) as (v' & Hv & ->). destruct (set_opcode_keeps_dinv v n v' Hd Ho Hv). auto.
  - destruct (lift_v_ok _ _ _ _ E) as (v' & Hv & ->). destruct (set_response_keeps_dinv v v' Hd Hv). auto.
  - destruct (lift_v_ok _ _ _ _ E) as (v' & Hv & ->). destruct (set_flags_keeps_dinv v n v' Hd Ho Hv). auto.
Qed.

Theorem hops2_keep_dinv : forall ops v it s', dinv v -> is_response (pp_packet v) -> Forall hop2_ok ops ->
  run_hops2 ops (v, it) = (s', Ok tt) -> dinv (fst s') /\ snd s' = it /\ is_response (pp_packet (fst s')).
Proof.
  induction ops as [|o ops IH]; intros v it s' Hd Hr Hok H; cbn [run_hops2] in H.
  - inversion H; subst. auto.
  - destruct (run_hop2 o (v, it)) as [s1 [u| |]] eqn:E; try discriminate. destruct u.
    destruct (hop2_keeps_dinv o v it s1 Hd Hr (Forall_inv Hok) E) as (Hd1 & Hit1 & Hr1).
    destruct s1 as [v1 it1]. cbn [fst snd] in *. subst it1. apply (IH v1 it s' Hd1 Hr1 (Forall_inv_tail Hok) H).
Qed.

(** from a freshly parsed response: a first insertion or recompute (which decompress), then any such history *)
Theorem fresh_history2_dinv : forall p v it o ops s', bytes_ok p -> parse p = Ok v -> is_response p ->
  (o = H2Recompute \/ exists sec rx, o = H2Insert sec rx) -> Forall hop2_ok (o :: ops) ->
  run_hops2 (o :: ops) (v, it) = (s', Ok tt) -> dinv (fst s') /\ snd s' = it.
Proof.
  intros p v it o ops s' Hb Hp Hr Hfirst Hok H. cbn [run_hops2] in H.
  destruct (prologue_dinv p v it Hb Hp) as (dv & Hpro & Hd & Hrd).
  destruct (run_hop2 o (v, it)) as [s1 [u| |]] eqn:E; try discriminate. destruct u.
  assert (H1 : dinv (fst s1) /\ snd s1 = it /\ is_response (pp_packet (fst s1))).
  { destruct Hfirst as [->|(sec & rx & ->)]; cbn [run_hop2] in E.
    - destruct (recompute_fresh p v it Hb Hp) as (q & v' & Hu & Hp' & Hpk' & Hrc). rewrite Hrc in E. inversion E; subst s1. cbn [fst snd].
      destruct (insert_prologue_fresh p v it Hb Hp) as (q2 & v2 & Hu2 & Hp2 & _ & Hpro2).
      rewrite Hu in Hu2. inversion Hu2; subst q2. rewrite Hp' in Hp2. inversion Hp2; subst v2.
      rewrite Hpro in Hpro2. inversion Hpro2; subst dv. auto.
    - assert (E' : m_insert_rr sec (plain_record rx) (dv, it) = (s1, Ok tt)).
      { unfold m_insert_rr in E |- *. unfold cbind in E |- *. rewrite Hpro in E.
        unfold insert_prologue, cbind, getv, cret. cbn [fst snd]. rewrite (di_mc _ Hd). exact E. }
      destruct (Forall_inv Hok) as [Hrx Hsec].
      destruct (insert_keeps_dinv dv it sec rx s1 Hd Hrx Hsec (fun _ => Hrd Hr) E') as (Hd1 & Hit1 & Hr1 & _). auto. }
  destruct H1 as (Hd1 & Hit1 & Hr1). destruct s1 as [v1 it1]. cbn [fst snd] in *. subst it1.
  destruct (hops2_keep_dinv ops v1 it s' Hd1 Hr1 (Forall_inv_tail Hok) H) as (A & B & _). auto.
Qed.

(** ** Failed operations (C10) *)
Theorem failed_insert_on_dinv : forall v it sec rr s' e, dinv v -> m_insert_rr sec rr (v, it) = (s', Err e) -> s' = (v, it).
Proof.
  intros v it sec rr s' e Hd H. unfold m_insert_rr, insert_prologue, cbind, getv, cret in H. cbn [fst snd] in H. rewrite (di_mc _ Hd) in H.
  apply insert_core_err in H. exact H.
Qed.

Theorem failed_insert_fresh : forall p v it sec rr s' e, bytes_ok p -> parse p = Ok v -> m_insert_rr sec rr (v, it) = (s', Err e) ->
  exists dv, s' = (dv, it) /\ dinv dv /\ uncompress p = Ok (pp_packet dv).
Proof.
  intros p v it sec rr s' e Hb Hp H.
  destruct (insert_prologue_fresh p v it Hb Hp) as (q & v' & Hu & Hp' & Hpk' & Hpro).
  destruct (prologue_dinv p v it Hb Hp) as (dv & Hpro2 & Hd & _). rewrite Hpro in Hpro2. inversion Hpro2; subst dv.
  unfold m_insert_rr, cbind in H. rewrite Hpro in H. apply insert_core_err in H.
  exists (decompressed_view v'). split; [exact H|]. split; [exact Hd|]. rewrite Hu. f_equal.
  unfold decompressed_view, pp_update. cbn. symmetry. exact Hpk'.
Qed.

(** histories in which failing operations are tolerated: a failed insertion leaves the state as it was, the setters and
    [recompute] cannot fail on these states *)
Fixpoint run_hops2_tol (ops : list hop2) (s : st) : st * res unit :=
  match ops with
  | [] => (s, Ok tt)
  | o :: ops' => match run_hop2 o s with (s1, Ok _) => run_hops2_tol ops' s1 | (s1, Err _) => run_hops2_tol ops' s1 | (s1, Panic x) => (s1, Panic x) end
  end.

Lemma setter_err_state f v it s1 e : lift_v f (v, it) = (s1, Err e) -> s1 = (v, it).
Proof. unfold lift_v. cbn [fst snd]. destruct (f v); intros H; inversion H. reflexivity. Qed.

Theorem hops2_tol_keep_dinv : forall ops v it s' r, dinv v -> is_response (pp_packet v) -> Forall hop2_ok ops ->
  run_hops2_tol ops (v, it) = (s', r) -> (forall x, r <> Panic x) -> dinv (fst s') /\ snd s' = it /\ is_response (pp_packet (fst s')).
Proof.
  induction ops as [|o ops IH]; intros v it s' r Hd Hr Hok H Hnp; cbn [run_hops2_tol] in H.
  - inversion H; subst. auto.
  - destruct (run_hop2 o (v, it)) as [s1 [u|e|x]] eqn:E.
    + destruct u. destruct (hop2_keeps_dinv o v it s1 Hd Hr (Forall_inv Hok) E) as (Hd1 & Hit1 & Hr1).
      destruct s1 as [v1 it1]. cbn [fst snd] in *. subst it1. apply (IH v1 it s' r Hd1 Hr1 (Forall_inv_tail Hok) H Hnp).
    + assert (Es : s1 = (v, it)).
      { destruct o as [sec rx| |n|n|n| |n]; cbn [run_hop2] in E;
          [exact (failed_insert_on_dinv _ _ _ _ _ _ Hd E)|rewrite (recompute_keeps_dinv v it Hd) in E; discriminate| | | | |];
          exact (setter_err_state _ _ _ _ _ E). }
      subst s1. apply (IH v it s' r Hd Hr (Forall_inv_tail Hok) H Hnp).
    + inversion H; subst. exfalso. apply (Hnp x). reflexivity.
Qed.

(** none of these operations reaches a Panic outcome of the model on such a state *)
Lemma insert_no_panic : forall v it sec rr s' x, dinv v -> sec = SAnswer \/ sec = SNameServers \/ sec = SAdditional ->
  m_insert_rr sec rr (v, it) <> (s', Panic x).
Proof.
  intros v it sec rr s' x [Hmc Hb Hfix (f & Hf & Hsv)] Hsec H.
  unfold m_insert_rr, insert_prologue, cbind, getv, cret in H. cbn [fst snd] in H. rewrite Hmc in H.
  set (q := pp_packet v) in *.
  destruct (plain_parts_of q f Hb Hf Hfix) as (w & qls & qt & A & Nn & R & s1 & s2 & s3 & P).
  destruct (parts_build_wf q w qls qt A Nn R s1 s2 s3 Hb P) as (Lq & _).
  destruct (parse_offsets q f w qls qt A Nn R s1 s2 s3 Hb Hf P) as (Oa & On & Or).
  destruct Hsv as (_ & _ & _ & Von & Vor & _).
  pose proof (pp_len _ _ _ _ _ _ _ _ _ _ P) as P12.
  unfold insert_core, cbind, getv, clift, putv in H. cbn [fst snd] in H. fold q in H.
  destruct ((DNS_MAX_UNCOMPRESSED_SIZE <? length q) || (DNS_MAX_UNCOMPRESSED_SIZE - length q <? length rr)); [inversion H|].
  assert (Hinc : exists r1, rrcount_inc q sec = r1 /\ (forall y, r1 <> Panic y) /\ forall p1, r1 = Ok p1 -> length p1 = length q).
  { eexists. split; [reflexivity|]. split; [|intros p1 E; eapply rrcount_inc_length; exact E].
    intros y. unfold rrcount_inc. assert (Hco : count_offset sec = Ok (sec_co sec)) by (destruct Hsec as [->|[->| ->]]; reflexivity).
    rewrite Hco. cbn [bind]. assert (Hco2 : sec_co sec + 2 <= length q) by (destruct Hsec as [E|[E|E]]; rewrite E; cbn; lia).
    destruct (u16_exists q (sec_co sec) Hco2) as (c & Hc).
    rewrite (proj2 (be16_at_u16 q (sec_co sec) 612%N c) Hc). cbn [bind].
    destruct (section_eqb sec SQuestion && (1 <=? c)%N); [discriminate|]. destruct (65535 <=? c)%N; [discriminate|].
    unfold write_at. cbn [length be16_bytes]. destruct (sec_co sec + 2 <=? length q) eqn:E; [discriminate|lia]. }
  destruct Hinc as (r1 & Er1 & Hnp1 & Hl1). rewrite Er1 in H.
  destruct r1 as [p1| |y]; [|inversion H|exact (Hnp1 y eq_refl)].
  specialize (Hl1 p1 eq_refl).
  assert (Hio : exists ins, insertion_offset v sec = Ok ins /\ ins <= length q).
  { unfold insertion_offset. fold q. rewrite Von, Vor, On, Or, Lq.
    destruct Hsec as [->|[->| ->]]; cbn [opt_or].
    - destruct (length Nn); cbn [Nat.ltb Nat.leb opt_or]; [destruct (length R); cbn [Nat.ltb Nat.leb]|]; eexists; split; try reflexivity; lia.
    - destruct (length R); cbn [Nat.ltb Nat.leb]; eexists; split; try reflexivity; lia.
    - eexists. split; [reflexivity|lia]. }
  destruct Hio as (ins & Eio & Hle). rewrite Eio in H. destruct (length p1 <? ins) eqn:E; [lia|].
  destruct Hsec as [->|[->| ->]]; inversion H.
Qed.

Lemma dinv_len v : dinv v -> 12 <= length (pp_packet v).
Proof.
  intros [_ Hb Hfix (f & Hf & _)]. destruct (plain_parts_of _ f Hb Hf Hfix) as (w & qls & qt & A & Nn & R & s1 & s2 & s3 & P).
  exact (pp_len _ _ _ _ _ _ _ _ _ _ P).
Qed.

Lemma lift_setter_no_panic (pk : bytes -> res bytes) v it s' x :
  nopanic (pk (pp_packet v)) -> lift_v (fun v0 => p <- pk (pp_packet v0) ;; Ok (pp_with_packet v0 p)) (v, it) <> (s', Panic x).
Proof.
  unfold lift_v, nopanic. cbn [fst snd]. destruct (pk (pp_packet v)) as [p| |y]; cbn [bind]; intros Hn H; inversion H. contradiction.
Qed.

Theorem hop2_no_panic : forall o v it s' x, dinv v -> hop2_ok o -> run_hop2 o (v, it) <> (s', Panic x).
Proof.
  intros o v it s' x Hd Ho. pose proof (dinv_len v Hd) as H12.
  destruct o as [sec rx| |n|n|n| |n]; cbn [run_hop2 hop2_ok] in *.
  - destruct Ho as [_ Hsec]. apply insert_no_panic; assumption.
  - rewrite (recompute_keeps_dinv v it Hd). discriminate.
  - apply (lift_setter_no_panic (fun p => pk_set_tid p n)). apply (setters_total _ n H12).
  - apply (lift_setter_no_panic (fun p => pk_set_rcode p n)). apply (setters_total _ n H12).
  - apply (lift_setter_no_panic (fun p => pk_set_opcode p n)). apply (setters_total _ n H12).
  - apply (lift_setter_no_panic (fun p => pk_set_response p true)). apply (setters_total _ 0%N H12).
  - apply (lift_setter_no_panic (fun p => pk_set_flags p n)). apply (setters_total _ n H12).
Qed.

(** every history over these operations, failing steps included, runs to the end without a Panic outcome and keeps the invariant *)
Theorem hops2_tol_total : forall ops v it, dinv v -> is_response (pp_packet v) -> Forall hop2_ok ops ->
  exists s', run_hops2_tol ops (v, it) = (s', Ok tt) /\ dinv (fst s') /\ snd s' = it /\ is_response (pp_packet (fst s')).
Proof.
  induction ops as [|o ops IH]; intros v it Hd Hr Hok; cbn [run_hops2_tol].
  - exists (v, it). auto.
  - destruct (run_hop2 o (v, it)) as [s1 [u|e|x]] eqn:E.
    + destruct u. destruct (hop2_keeps_dinv o v it s1 Hd Hr (Forall_inv Hok) E) as (Hd1 & Hit1 & Hr1).
      destruct s1 as [v1 it1]. cbn [fst snd] in *. subst it1. apply (IH v1 it Hd1 Hr1 (Forall_inv_tail Hok)).
    + assert (Es : s1 = (v, it)).
      { destruct o as [sec rx| |n|n|n| |n]; cbn [run_hop2] in E;
          [exact (failed_insert_on_dinv _ _ _ _ _ _ Hd E)|rewrite (recompute_keeps_dinv v it Hd) in E; discriminate| | | | |];
          exact (setter_err_state _ _ _ _ _ E). }
      subst s1. apply (IH v it Hd Hr (Forall_inv_tail Hok)).
    + exfalso. exact (hop2_no_panic o v it s1 x Hd (Forall_inv Hok) E).
Qed.
