(** List facts missing from the Coq 8.16 standard library. *)
From Coq Require Import List Arith Lia.
Import ListNotations.

Lemma nth_error_firstn {A} (l : list A) : forall n j, j < n -> nth_error (firstn n l) j = nth_error l j.
Proof.
  induction l as [|x l IH]; intros n j H.
  - rewrite firstn_nil. reflexivity.
  - destruct n as [|n]; [lia|]. destruct j as [|j]; cbn; [reflexivity|]. apply IH. lia.
Qed.

Lemma nth_error_firstn_ge {A} (l : list A) : forall n j, n <= j -> nth_error (firstn n l) j = None.
Proof.
  intros n j H. apply nth_error_None. rewrite firstn_length. lia.
Qed.

Lemma nth_error_skipn {A} (l : list A) : forall n j, nth_error (skipn n l) j = nth_error l (n + j).
Proof.
  induction l as [|x l IH]; intros n j.
  - rewrite skipn_nil. destruct j, n; reflexivity.
  - destruct n as [|n]; cbn; [reflexivity|]. apply IH.
Qed.

Lemma nth_error_ext {A} (l1 l2 : list A) :
  (forall j, nth_error l1 j = nth_error l2 j) -> l1 = l2.
Proof.
  revert l2. induction l1 as [|x l1 IH]; intros l2 H.
  - destruct l2 as [|y l2]; [reflexivity|]. specialize (H 0). discriminate.
  - destruct l2 as [|y l2]; [specialize (H 0); discriminate|].
    pose proof (H 0) as H0. cbn in H0. inversion H0; subst. f_equal.
    apply IH. intros j. exact (H (S j)).
Qed.

Lemma firstn_skipn_split {A} (l : list A) a b : a <= b ->
  firstn b l = firstn a l ++ firstn (b - a) (skipn a l).
Proof.
  intros H. rewrite <- (firstn_skipn a l) at 1.
  rewrite firstn_app, firstn_firstn, firstn_length.
  replace (Init.Nat.min b a) with a by lia. f_equal.
  destruct (Nat.le_gt_cases a (length l)).
  - replace (Init.Nat.min a (length l)) with a by lia. reflexivity.
  - rewrite skipn_all2 by lia. rewrite !firstn_nil. reflexivity.
Qed.

Lemma skipn_skipn {A} (l : list A) : forall a b, skipn a (skipn b l) = skipn (b + a) l.
Proof.
  induction l as [|x l IH]; intros a b.
  - rewrite !skipn_nil. reflexivity.
  - destruct b as [|b]; cbn [skipn Nat.add]; [reflexivity|]. apply IH.
Qed.
